#!/venv/bin/python
"""Validation of the Lean string-library model (driver command `str`) against the real
checkerlang implementation.  Usage:  validate.py [seed] [nrandom]
The real interpreter runs in worker processes, every call under an alarm, every worker under
a wall-clock timeout."""
import sys, os, re, json, random, itertools, subprocess, signal, time, collections
sys.path.insert(0, __import__('os').environ.get('CKL_REPO', '/repo') + '/src')

DRIVER = '/tmp/agents/K/verif/lean/.lake/build/bin/driver'
WORK = '/tmp/agents/K/work'
NW = 8

ALPHA = list("abcxyzABZ019 \t\n'\"\\|.*+?()[]{}^$#") + ["é", "€", "\U0001F600", "-", "_", ",", "\r", "\x1c", "\x85", "　", "ß"]
SMALL = [""] + ["".join(p) for n in (1, 2, 3) for p in itertools.product("ab|", repeat=n)]
SMALL2 = [""] + ["".join(p) for n in (1, 2) for p in itertools.product("ab|", repeat=n)]
SAFE = list("abcxyz019 ,;:-_&~#'\"é€\U0001F600\n\t")        # regex-safe literal characters


def enc(s):
    return "s:" + "".join("%06x" % ord(c) for c in s)


def dec(a):
    h = a[2:]
    return "".join(chr(int(h[i:i + 6], 16)) for i in range(0, len(h), 6))


def rs(rnd, alpha=ALPHA, lo=0, hi=12):
    return "".join(rnd.choice(alpha) for _ in range(rnd.randint(lo, hi)))


def rsub(rnd, s):
    """a substring of s, or a random short string"""
    if s and rnd.random() < 0.6:
        i = rnd.randrange(len(s)); j = rnd.randint(i, min(len(s), i + 3))
        return s[i:j]
    return rs(rnd, hi=3)

# ------------------------------------------------------------------ case generation
# case = (op, request line for the driver, real-side spec)
# real-side spec = (source, {var: ('s', str) | ('i', int) | ('L', [str])})


def mk(op, *args):
    """build (driver request, real spec) for op"""
    S = lambda x: ('s', x)
    if op == 'contains':
        s, t = args; return f"(str contains {enc(s)} {enc(t)})", ("contains(a, b)", {'a': S(s), 'b': S(t)})
    if op == 'starts':
        s, t = args; return f"(str starts {enc(s)} {enc(t)})", ("starts_with(a, b)", {'a': S(s), 'b': S(t)})
    if op == 'ends':
        s, t = args; return f"(str ends {enc(s)} {enc(t)})", ("ends_with(a, b)", {'a': S(s), 'b': S(t)})
    if op == 'in':
        s, t = args; return f"(str in {enc(s)} {enc(t)})", ("b in a", {'a': S(s), 'b': S(t)})
    if op == 'find':
        s, t, n = args; return f"(str find {enc(s)} {enc(t)} {n})", ("find(a, b, start = n)", {'a': S(s), 'b': S(t), 'n': ('i', n)})
    if op == 'replace':
        s, a, b = args; return f"(str replace {enc(s)} {enc(a)} {enc(b)})", ("replace(a, b, c)", {'a': S(s), 'b': S(a), 'c': S(b)})
    if op == 'replace4':
        s, a, b, n = args; return f"(str replace {enc(s)} {enc(a)} {enc(b)} {n})", ("replace(a, b, c, start = n)", {'a': S(s), 'b': S(a), 'c': S(b), 'n': ('i', n)})
    if op == 'join':
        sep, xs = args; return f"(str join {enc(sep)} (L {' '.join(enc(x) for x in xs)}))", ("join(l, a)", {'a': S(sep), 'l': ('L', xs)})
    if op == 'unlines':
        xs, = args; return f"(str unlines (L {' '.join(enc(x) for x in xs)}))", ("unlines(l)", {'l': ('L', xs)})
    if op == 'unwords':
        xs, = args; return f"(str unwords (L {' '.join(enc(x) for x in xs)}))", ("unwords(l)", {'l': ('L', xs)})
    if op == 'split_direct':      # the separator text is used as the pattern as it is
        s, sep = args; return f"(str split {enc(s)} {enc(sep)})", ("split(a, b)", {'a': S(s), 'b': S(sep)})
    if op == 'split_escaped':     # real side: escape_pattern(sep); model: literal split
        s, sep = args; return f"(str splitlit {enc(s)} {enc(sep)})", ("split(a, escape_pattern(b))", {'a': S(s), 'b': S(sep)})
    if op == 'split_escaped2':    # real side: escape_pattern(sep); model: pattern = escapeM(sep) decoded by patLiteral?
        s, sep = args; return f"(str split {enc(s)} {enc(re.escape(sep))})", ("split(a, escape_pattern(b))", {'a': S(s), 'b': S(sep)})
    if op == 'escape':
        s, = args; return f"(str escape {enc(s)})", ("escape_pattern(a)", {'a': S(s)})
    if op in ('reverse', 'trim', 'upper', 'lower', 'ord', 'length'):
        s, = args; return f"(str {op} {enc(s)})", (f"{op}(a)", {'a': S(s)})
    if op == 'chr':
        n, = args; return f"(str chr {n})", ("chr(n)", {'n': ('i', n)})
    if op == 'concat':
        a, b = args; return f"(str concat {enc(a)} {enc(b)})", ("a + b", {'a': S(a), 'b': S(b)})
    if op == 's':
        t, binds = args
        bs = []
        env = {'tmpl': S(t)}
        for k, v in binds.items():
            if v[0] == 's':
                bs.append(f"({enc(k)} {enc(v[1])})")
            else:
                bs.append(f"({enc(k)} (i {v[1]}))")
            env[k] = v
        return f"(str s {enc(t)} {' '.join(bs)})", ("s(tmpl)", env)
    raise ValueError(op)


SPECS = ["", "5", "-5", "05", "3", "-3", "03", "0", "00", "-", "-0", "-05", "12", "1", "x", "4x", "04x", "-4x",
         "0x", ".2", "6.2", "06.2", ".", "5.", "q", " 5", "+5", "--5", "5_0", "1.1x", "x.1", "007", "2#3", "-x", "xx", "10"]


def gen_template(rnd):
    names = ['x', 'n', 'w', 'k9']
    binds = {'x': ('s', rs(rnd, hi=6)), 'n': ('s', str(rnd.choice([0, 7, 9, 10, 15, 16, 255, 256, 4095, 65536, 123456789, 10**20]))),
             'w': ('i', rnd.choice([0, 5, -3, 42, 255, 1000000, -17, 16])), 'k9': ('s', rnd.choice(["", "{x}", "}", "{", "a{n}b", "007", "-12", " 12", "1_0", "3.5"]))}
    parts = []
    for _ in range(rnd.randint(1, 5)):
        r = rnd.random()
        if r < 0.35:
            parts.append(rs(rnd, alpha=list("ab c:=-,") + ["é", "\n"], hi=4))
        elif r < 0.45:
            parts.append(rs(rnd, hi=3))            # adversarial literal (may hold braces / #)
        else:
            nm = rnd.choice(names + ['zz', ' x', 'x ', '', '1+2', 'x#'] if rnd.random() < 0.06 else names)
            if rnd.random() < 0.6:
                parts.append("{" + nm + "#" + (rnd.choice(SPECS) if rnd.random() < 0.5 else rnd.choice(SPECS[:20])) + "}")
            else:
                parts.append("{" + nm + "}")
    return "".join(parts), binds


def gen_cases(seed, nrandom):
    rnd = random.Random(seed)
    cases = []
    add = lambda op, *a: cases.append((op,) + mk(op, *a))
    # exhaustive small pairs
    for s in SMALL:
        for t in SMALL:
            for op in ('contains', 'starts', 'ends', 'in', 'concat'):
                add(op, s, t)
            for n in (-1, 0, 1, 2, 4):
                add('find', s, t, n)
            add('split_escaped', s, t)
            add('split_escaped2', s, t)
            add('split_direct', s, t)
            for b in SMALL2:
                add('replace', s, t, b)
            if len(t) <= 2:
                for n in (-2, 1, 2, 3, 5):
                    add('replace4', s, t, rnd.choice(SMALL2), n)
    for sep in SMALL2:
        for n in range(0, 4):
            for xs in itertools.product(SMALL2, repeat=n):
                if n < 3 or rnd.random() < 0.15:
                    add('join', sep, list(xs))
    for s in SMALL:
        for op in ('reverse', 'trim', 'upper', 'lower', 'ord', 'length', 'escape'):
            add(op, s)
    for n in list(range(-3, 300)) + [0xD7FF, 0xD800, 0xDFFF, 0xE000, 0xFFFF, 0x10000, 0x10FFFF, 0x110000, 0x110001, 10**12, -10**9]:
        add('chr', n)
    # random adversarial strings
    for _ in range(nrandom):
        s = rs(rnd); t = rsub(rnd, s); u = rs(rnd, hi=4)
        for op in ('contains', 'starts', 'ends', 'in', 'concat'):
            add(op, s, t if rnd.random() < 0.8 else (s[:rnd.randint(0, len(s))] if op != 'ends' else s[rnd.randint(0, len(s)):]))
        add('find', s, t, rnd.randint(-3, 14))
        add('replace', s, t, u)
        add('replace4', s, t, u, rnd.randint(-3, 14))
        add('replace4', s * 2, t, t[::-1] + u, rnd.randint(0, 6))
        add('replace', s, t, t + u)               # replacement contains the pattern
        add('replace', s * 2, rsub(rnd, s), rsub(rnd, s))
        xs = [rs(rnd, hi=4) for _ in range(rnd.randint(0, 5))]
        add('join', rs(rnd, hi=3), xs)
        add('unlines', xs); add('unwords', xs)
        sep = rsub(rnd, s)
        add('split_escaped', s, sep)
        add('split_escaped2', s, sep)
        add('split_escaped', (sep or 'q').join(xs), sep)
        ssafe = rs(rnd, alpha=SAFE); sepsafe = rsub(rnd, ssafe) if rnd.random() < 0.7 else rs(rnd, alpha=SAFE, hi=2)
        add('split_direct', ssafe, sepsafe)
        add('split_direct', sepsafe.join(rs(rnd, alpha=SAFE, hi=3) for _ in range(rnd.randint(0, 4))), sepsafe)
        add('split_direct', s, t)                 # arbitrary pattern: model must say unsupported or agree
        for op in ('reverse', 'trim', 'upper', 'lower', 'ord', 'length', 'escape'):
            add(op, s)
        add('trim', rs(rnd, alpha=[" ", "\t", "\n", "\x1c", "\x1f", "\x85", "\xa0", " ", "​", "　", "a", "\x0b", "\x0c", " ", "᠎", " ", " ", "﻿"], hi=8))
        add('upper', rs(rnd, alpha=list("abzAZ{`@[ ~09\x7f")))
        add('lower', rs(rnd, alpha=list("abzAZ{`@[ ~09\x7f")))
        add('chr', rnd.randint(0, 0x110000))
        tm, binds = gen_template(rnd)
        add('s', tm, binds)
    return cases

# ------------------------------------------------------------------ real side (worker)


class Alarm(BaseException):
    pass


def worker(infile, outfile):
    from ckl.interpreter import Interpreter
    from ckl.values import ValueString, ValueInt, ValueList, ValueBoolean
    from ckl.errors import CklRuntimeError, CklSyntaxError
    it = Interpreter(True, True)

    def onalarm(sig, frm):
        raise Alarm()
    signal.signal(signal.SIGALRM, onalarm)
    specs = json.load(open(infile))
    out = []
    for k, (src, env) in enumerate(specs):
        for name, (ty, v) in env.items():
            if ty == 's':
                it.environment.put(name, ValueString(v))
            elif ty == 'i':
                it.environment.put(name, ValueInt(v))
            else:
                l = ValueList()
                for x in v:
                    l.addItem(ValueString(x))
                it.environment.put(name, l)
        signal.setitimer(signal.ITIMER_REAL, 10, 0.5)
        try:
            r = it.interpret(src, "t")
            if r.isString():
                res = ['s', r.value]
            elif r.isBoolean():
                res = ['b', bool(r.value)]
            elif r.isInt():
                res = ['i', r.value]
            elif r.isList():
                res = ['L', [x.value if x.isString() else ['?', str(x)] for x in r.value]]
            else:
                res = ['other', str(r)]
        except CklRuntimeError as e:
            res = ['err', str(e)[:200]]
        except Alarm:
            res = ['timeout']
        except RecursionError as e:
            res = ['pyexc', 'RecursionError']
        except Exception as e:
            res = ['pyexc', type(e).__name__ + ': ' + str(e)[:200]]
        finally:
            signal.setitimer(signal.ITIMER_REAL, 0)
        out.append(res)
        if k % 5000 == 0:
            print(f"  worker {infile}: {k}/{len(specs)}", flush=True)
    json.dump(out, open(outfile, 'w'))

# ------------------------------------------------------------------ model side


def parse_model(line):
    line = line.strip()
    if line == "(err)":
        return ['err']
    if line == "(unsupported)":
        return ['unsupported']
    m = re.fullmatch(r"\(ok (.*)\)", line)
    if not m:
        return ['bad', line]
    v = m.group(1)
    if v == "T":
        return ['b', True]
    if v == "F":
        return ['b', False]
    if v.startswith("s:"):
        return ['s', dec(v)]
    if v.startswith("(L"):
        return ['L', [dec(x) for x in v[2:-1].split()]]
    return ['i', int(v)]


def main():
    seed = int(sys.argv[1]) if len(sys.argv) > 1 else 1
    nrandom = int(sys.argv[2]) if len(sys.argv) > 2 else 3000
    cases = gen_cases(seed, nrandom)
    print(f"{len(cases)} cases", flush=True)
    # model
    t0 = time.time()
    p = subprocess.run([DRIVER], input="\n".join(c[1] for c in cases) + "\n", capture_output=True, text=True, timeout=600)
    mlines = p.stdout.splitlines()
    assert len(mlines) == len(cases), (len(mlines), len(cases), p.stderr[:500])
    print(f"model done in {time.time() - t0:.1f}s", flush=True)
    # real, sharded
    procs = []
    for w in range(NW):
        shard = [c[2] for c in cases[w::NW]]
        json.dump(shard, open(f"{WORK}/shard{w}.json", "w"))
        procs.append(subprocess.Popen(["timeout", "1500", "/venv/bin/python", __file__, "--worker", f"{WORK}/shard{w}.json", f"{WORK}/out{w}.json"]))
    for pr in procs:
        rc = pr.wait()
        if rc != 0:
            print("WORKER FAILED rc", rc)
            sys.exit(2)
    real = [None] * len(cases)
    for w in range(NW):
        o = json.load(open(f"{WORK}/out{w}.json"))
        real[w::NW] = o
    print(f"real done in {time.time() - t0:.1f}s", flush=True)
    stats = collections.defaultdict(lambda: collections.Counter())
    diffs = []
    for (op, req, spec), ml, rv in zip(cases, mlines, real):
        mv = parse_model(ml)
        st = stats[op]
        st['total'] += 1
        if mv[0] == 'unsupported':
            st['unsupported'] += 1
            continue
        if rv[0] in ('pyexc', 'timeout', 'other'):
            st['real-' + rv[0]] += 1
        agree = (mv[0] == 'err' and rv[0] == 'err') or (mv[0] != 'err' and mv == rv)
        if agree:
            st['agree'] += 1
            if mv[0] == 'err':
                st['agree-err'] += 1
        else:
            st['DIFF'] += 1
            diffs.append((op, spec, mv, rv))
    tot = collections.Counter()
    for op in sorted(stats):
        print(f"{op:16s} " + " ".join(f"{k}={v}" for k, v in sorted(stats[op].items())))
        tot.update(stats[op])
    print("TOTAL            " + " ".join(f"{k}={v}" for k, v in sorted(tot.items())))
    print(f"{len(diffs)} differences")
    for d in diffs[:40]:
        print("DIFF", d[0], json.dumps(d[1], ensure_ascii=True), "model=", json.dumps(d[2]), "real=", json.dumps(d[3]))
    sys.exit(1 if diffs else 0)


if __name__ == "__main__":
    if len(sys.argv) > 1 and sys.argv[1] == "--worker":
        worker(sys.argv[2], sys.argv[3])
    else:
        main()
