/-
  C19Src (worker L1) — theorems about the SOURCE of list.ckl: `first_n`, `last_n`, `for_each`, the generic `reverse`.

  Same form as `Proofs/C19Src.lean`: under `LibEnv s M nats srcs`, `IsSrc s fn <generated def> m`, `M m`:
  `∃ s', Ext s s' ∧ … ∧ ∀ fuel env pos, K < fuel → callFn ld fuel fn args env pos s = <exact outcome>`.
  `Ext s s'`: every frame, heap cell and the output of `s` is unchanged in `s'` (so the argument cells are untouched).
-/
import CklVerif.Lemmas.C19SrcL1Slice
import CklVerif.Lemmas.C19SrcL1ForEach
import CklVerif.Lemmas.C19SrcL1Reverse
import CklVerif.Lemmas.C19SrcLoad
import CklVerif.Lemmas.C19List
import CklVerif.Proofs.C18
namespace Ckl.C19Src
open Ckl Ckl.Lib Ckl.Gen.LibSrc
variable (ld : Loader)

/-! ## 1  `first_n(lst, n) = lst !> sublist(0, n)`, `last_n(lst, n) = lst !> sublist(-n)` -/

/-- **`first_n`** on a list cell holding `xs` and ANY int `n` (negative too): a reference to a FRESH cell (address = old heap size)
    holding the slice `xs[0:n]` (`Seq.substr xs 0 (some n)`, Python slice semantics); the argument cell and everything else that
    existed is unchanged. -/
theorem first_n_src {s : State} {M nats srcs fn m} (h : LibEnv s M nats srcs) (hn : ∀ x ∈ firstNNats, x ∈ nats)
    (hm : M m) (hsrc : IsSrc s fn list_first_n m) (a : Nat) (xs : List RVal) (n : Int) (hc : s.cell a = some (.list xs)) :
    ∃ s', Ext s s' ∧ s'.cell s.heap.size = some (.list (Seq.substr xs 0 (some n))) ∧ s'.cell a = some (.list xs) ∧
      ∀ fuel env pos, 6 < fuel →
        callFn ld fuel fn [("lst", .ref a), ("n", .int n)] env pos s = .ok (.ref s.heap.size) s' := by
  obtain ⟨s', e, hcell, c⟩ := first_n_calls ld h hn hm hsrc a xs n hc
  exact ⟨s', e, hcell, by rw [e.cell a (cell_lt hc)]; exact hc, fun fuel env pos hf => c env pos fuel hf⟩

/-- for `0 ≤ n` the slice is `List.take` -/
theorem first_n_src_take {s : State} {M nats srcs fn m} (h : LibEnv s M nats srcs) (hn : ∀ x ∈ firstNNats, x ∈ nats)
    (hm : M m) (hsrc : IsSrc s fn list_first_n m) (a : Nat) (xs : List RVal) (n : Int) (hc : s.cell a = some (.list xs))
    (h0 : 0 ≤ n) :
    ∃ s', Ext s s' ∧ s'.cell s.heap.size = some (.list (xs.take n.toNat)) ∧ s'.cell a = some (.list xs) ∧
      ∀ fuel env pos, 6 < fuel →
        callFn ld fuel fn [("lst", .ref a), ("n", .int n)] env pos s = .ok (.ref s.heap.size) s' := by
  rw [← substr_zero_take_L1 xs n h0]; exact first_n_src ld h hn hm hsrc a xs n hc

/-- for `n < 0` the last `-n` elements are dropped (`first_n(lst, -1)` is everything but the last element) -/
theorem first_n_src_neg {s : State} {M nats srcs fn m} (h : LibEnv s M nats srcs) (hn : ∀ x ∈ firstNNats, x ∈ nats)
    (hm : M m) (hsrc : IsSrc s fn list_first_n m) (a : Nat) (xs : List RVal) (n : Int) (hc : s.cell a = some (.list xs))
    (h0 : n < 0) :
    ∃ s', Ext s s' ∧ s'.cell s.heap.size = some (.list (xs.take (xs.length - (-n).toNat))) ∧ s'.cell a = some (.list xs) ∧
      ∀ fuel env pos, 6 < fuel →
        callFn ld fuel fn [("lst", .ref a), ("n", .int n)] env pos s = .ok (.ref s.heap.size) s' := by
  rw [← substr_zero_neg_L1 xs n h0]; exact first_n_src ld h hn hm hsrc a xs n hc

/-- **`last_n`** on a list cell holding `xs` and ANY int `n`: a reference to a FRESH cell holding the slice `xs[-n:]`
    (`Seq.substr xs (-n) none`); the unary minus is the parser's `sub(a = 0, b = n)`. -/
theorem last_n_src {s : State} {M nats srcs fn m} (h : LibEnv s M nats srcs) (hn : ∀ x ∈ lastNNats, x ∈ nats)
    (hm : M m) (hsrc : IsSrc s fn list_last_n m) (a : Nat) (xs : List RVal) (n : Int) (hc : s.cell a = some (.list xs)) :
    ∃ s', Ext s s' ∧ s'.cell s.heap.size = some (.list (Seq.substr xs (-n) none)) ∧ s'.cell a = some (.list xs) ∧
      ∀ fuel env pos, 9 < fuel →
        callFn ld fuel fn [("lst", .ref a), ("n", .int n)] env pos s = .ok (.ref s.heap.size) s' := by
  obtain ⟨s', e, hcell, c⟩ := last_n_calls ld h hn hm hsrc a xs n hc
  exact ⟨s', e, hcell, by rw [e.cell a (cell_lt hc)]; exact hc, fun fuel env pos hf => c env pos fuel hf⟩

/-- for `0 < n` the slice is `List.drop` of all but the last `n` elements -/
theorem last_n_src_drop {s : State} {M nats srcs fn m} (h : LibEnv s M nats srcs) (hn : ∀ x ∈ lastNNats, x ∈ nats)
    (hm : M m) (hsrc : IsSrc s fn list_last_n m) (a : Nat) (xs : List RVal) (n : Int) (hc : s.cell a = some (.list xs))
    (h0 : 0 < n) :
    ∃ s', Ext s s' ∧ s'.cell s.heap.size = some (.list (xs.drop (xs.length - n.toNat))) ∧ s'.cell a = some (.list xs) ∧
      ∀ fuel env pos, 9 < fuel →
        callFn ld fuel fn [("lst", .ref a), ("n", .int n)] env pos s = .ok (.ref s.heap.size) s' := by
  rw [← substr_neg_drop_L1 xs n h0]; exact last_n_src ld h hn hm hsrc a xs n hc

/-- **`last_n(lst, 0)` is a copy of the WHOLE list**, not `[]` (`lst[-0:]` = `lst[0:]`; the interpreter behaves the same) -/
theorem last_n_src_zero {s : State} {M nats srcs fn m} (h : LibEnv s M nats srcs) (hn : ∀ x ∈ lastNNats, x ∈ nats)
    (hm : M m) (hsrc : IsSrc s fn list_last_n m) (a : Nat) (xs : List RVal) (hc : s.cell a = some (.list xs)) :
    ∃ s', Ext s s' ∧ s'.cell s.heap.size = some (.list xs) ∧ s'.cell a = some (.list xs) ∧
      ∀ fuel env pos, 9 < fuel →
        callFn ld fuel fn [("lst", .ref a), ("n", .int 0)] env pos s = .ok (.ref s.heap.size) s' := by
  have := last_n_src ld h hn hm hsrc a xs 0 hc
  rwa [substr_neg_zero_L1] at this

/-- for `n < 0` (start index `-n > 0`) the first `-n` elements are dropped -/
theorem last_n_src_neg {s : State} {M nats srcs fn m} (h : LibEnv s M nats srcs) (hn : ∀ x ∈ lastNNats, x ∈ nats)
    (hm : M m) (hsrc : IsSrc s fn list_last_n m) (a : Nat) (xs : List RVal) (n : Int) (hc : s.cell a = some (.list xs))
    (h0 : n < 0) :
    ∃ s', Ext s s' ∧ s'.cell s.heap.size = some (.list (xs.drop (-n).toNat)) ∧ s'.cell a = some (.list xs) ∧
      ∀ fuel env pos, 9 < fuel →
        callFn ld fuel fn [("lst", .ref a), ("n", .int n)] env pos s = .ok (.ref s.heap.size) s' := by
  rw [← substr_neg_neg_L1 xs n h0]; exact last_n_src ld h hn hm hsrc a xs n hc

example : Seq.substr [1, 2, 3, 4, 5] 0 (some 2) = [1, 2] ∧ Seq.substr [1, 2, 3, 4, 5] 0 (some (-1)) = [1, 2, 3, 4] ∧
    Seq.substr [1, 2, 3, 4, 5] (-2) none = [4, 5] ∧ Seq.substr [1, 2, 3, 4, 5] (-0) none = [1, 2, 3, 4, 5] ∧
    Seq.substr [1, 2, 3, 4, 5] (-(-2)) none = [3, 4, 5] ∧ Seq.substr [1, 2, 3] 0 (some 7) = [1, 2, 3] := by decide

/-! ## 2  `for_each(lst, func)` -/

/-- **`for_each`, general form.**  `lst` a list cell holding `xs`; `func` ANY value `fv` such that, for every element `v` and every
    state `st` extending `s`, the call expression `g(e)` (`g` bound to `fv`, `e` evaluating to `v`) ends normally with a value that is
    not a control signal and only extends the state (`CallNode1_L1`, fuel bound `kf`; the two instances are `CallNode1_L1.native`
    and `CallNode1_L1.closure`, see the corollaries).  Then the result is NULL and nothing that existed is changed;
    fuel bound `kf + xs.length + 7`. -/
theorem for_each_src {s : State} {M nats srcs fn m} (h : LibEnv s M nats srcs) (hm : M m)
    (hsrc : IsSrc s fn list_for_each m) (a : Nat) (xs : List RVal) (fv : RVal) (kf : Nat)
    (hc : s.cell a = some (.list xs))
    (hf : ∀ v ∈ xs, ∀ st, Ext s st → ∃ r st', CallNode1_L1 ld kf fv v st r st' ∧ Ext st st' ∧ isCtl r = false) :
    ∃ s', Ext s s' ∧ s'.cell a = some (.list xs) ∧ ∀ fuel env pos, kf + xs.length + 7 < fuel →
      callFn ld fuel fn [("lst", .ref a), ("func", fv)] env pos s = .ok .null s' := by
  obtain ⟨s', e, c⟩ := for_each_calls ld h hm hsrc a xs fv kf hc hf
  exact ⟨s', e, by rw [e.cell a (cell_lt hc)]; exact hc, fun fuel env pos hf => c env pos fuel hf⟩

/-- **`for_each` with a built-in**: `func = .native nm i`, first parameter `q` positional, and on every element `v` of the list the
    built-in has a pure meaning (`callPure`) that returns a value `r` (not a control signal) without changing the state.
    Result NULL, `Ext`; fuel bound `xs.length + 10`. -/
theorem for_each_src_native {s : State} {M nats srcs fn m} (h : LibEnv s M nats srcs) (hm : M m)
    (hsrc : IsSrc s fn list_for_each m) (a : Nat) (xs : List RVal) (hc : s.cell a = some (.list xs))
    {nm : String} (i : Nat) {q : String} {rest : List String}
    (hps : nativeArgNames nm = some (q :: rest)) (hsp : ∀ p ∈ q :: rest, ¬ ("...".toList <:+ p.toList))
    (hsem : ∀ v ∈ xs, ∀ (st : State), ∃ r, isCtl r = false ∧
      ∀ d pos, ∃ mm, callPure nm [(q, v)] d pos = some mm ∧ mm st = .ok r st) :
    ∃ s', Ext s s' ∧ s'.cell a = some (.list xs) ∧ ∀ fuel env pos, xs.length + 10 < fuel →
      callFn ld fuel fn [("lst", .ref a), ("func", .native nm i)] env pos s = .ok .null s' := by
  obtain ⟨s', e, hca, c⟩ := for_each_src ld h hm hsrc a xs (.native nm i) 3 hc (fun v hv st _ => by
    obtain ⟨r, hctl, hr⟩ := hsem v hv st
    exact ⟨r, st, CallNode1_L1.native ld hps hsp hr, Ext.refl st, hctl⟩)
  exact ⟨s', e, hca, fun fuel env pos hf => c fuel env pos (by omega)⟩

/-- **`for_each` with a function value** `.closure c` (a lambda, a `def`ined function, a library function) whose first parameter `q`
    is positional, under the hypothesis that `fn.execute(q = v)` on every element `v`, in every state extending `s`, ends normally
    with a non-control value and only extends the state (`Calls`, fuel bound `kf`).  Result NULL, `Ext`;
    fuel bound `kf + xs.length + 10`. -/
theorem for_each_src_closure {s : State} {M nats srcs fn m} (h : LibEnv s M nats srcs) (hm : M m)
    (hsrc : IsSrc s fn list_for_each m) (a : Nat) (xs : List RVal) (hc : s.cell a = some (.list xs))
    {c : Nat} {cenv : EnvId} {q : String} {rest : List String} {ds : List Node} {body : Node} {nm : String} (kf : Nat)
    (hcl : s.cell c = some (.closure cenv (q :: rest) ds body nm))
    (hsp : ∀ p ∈ q :: rest, ¬ ("...".toList <:+ p.toList))
    (hcall : ∀ v ∈ xs, ∀ st, Ext s st → ∃ r st', Ext st st' ∧ isCtl r = false ∧
      ∀ env pos, Calls ld kf (.closure c) [(q, v)] env pos st (.ok r st')) :
    ∃ s', Ext s s' ∧ s'.cell a = some (.list xs) ∧ ∀ fuel env pos, kf + xs.length + 10 < fuel →
      callFn ld fuel fn [("lst", .ref a), ("func", .closure c)] env pos s = .ok .null s' := by
  obtain ⟨s', e, hca, cc⟩ := for_each_src ld h hm hsrc a xs (.closure c) (kf + 3) hc (fun v hv st est => by
    obtain ⟨r, st', e', hctl, hr⟩ := hcall v hv st est
    exact ⟨r, st', CallNode1_L1.closure ld (by rw [est.cell c (cell_lt hcl)]; exact hcl) hsp hr, e', hctl⟩)
  exact ⟨s', e, hca, fun fuel env pos hf => cc fuel env pos (by omega)⟩

/-- instance: `for_each(lst, type)` — the built-in `type` is pure on every value -/
example {s : State} {M nats srcs fn m} (h : LibEnv s M nats srcs) (hm : M m)
    (hsrc : IsSrc s fn list_for_each m) (a : Nat) (xs : List RVal) (hc : s.cell a = some (.list xs)) (i : Nat) :
    ∃ s', Ext s s' ∧ s'.cell a = some (.list xs) ∧ ∀ fuel env pos, xs.length + 10 < fuel →
      callFn ld fuel fn [("lst", .ref a), ("func", .native "type" i)] env pos s = .ok .null s' :=
  for_each_src_native ld h hm hsrc a xs hc i (nm := "type") (by rfl) (by decide)
    (fun v _ st => ⟨.str (typeName st v).toList, rfl, fun d pos => ⟨_, pure_type v d pos, rfl⟩⟩)

/-- instance: `for_each(lst, is_int)` — the library function `is_int` of type.ckl as the function value -/
example {s : State} {M nats srcs fn m} (h : LibEnv s M nats srcs) (hn : ∀ x ∈ typeNats, x ∈ nats) (hm : M m)
    (hsrc : IsSrc s fn list_for_each m) (a : Nat) (xs : List RVal) (hc : s.cell a = some (.list xs))
    {fv : RVal} {m' : EnvId} (hm' : M m') (hf : IsSrc s fv type_is_int m') :
    ∃ s', Ext s s' ∧ s'.cell a = some (.list xs) ∧ ∀ fuel env pos, 7 + xs.length + 10 < fuel →
      callFn ld fuel fn [("lst", .ref a), ("func", fv)] env pos s = .ok .null s' := by
  obtain ⟨c, nm, rfl, hcl⟩ := id hf
  exact for_each_src_closure ld h hm hsrc a xs hc 7 hcl (by decide) (fun v _ st est => by
    obtain ⟨st', e', cc⟩ := is_int_calls ld (h.ext est) hn hm' (hf.ext est) v
    exact ⟨_, st', e', rfl, cc⟩)

/-! ## 3  the generic `reverse(obj)` of list.ckl -/

/-- **`reverse` of a string** is the reversed string (`List.reverse` on the characters); fuel bound `cs.length + 14` -/
theorem reverse_src_string {s : State} {M nats srcs fn m} (h : LibEnv s M nats srcs) (hn : ∀ x ∈ reverseGenNats, x ∈ nats)
    (hs : ∀ p ∈ reverseGenSrcs, p ∈ srcs) (hm : M m) (hsrc : IsSrc s fn list_reverse m) (cs : List Char) :
    ∃ s', Ext s s' ∧ ∀ fuel env pos, cs.length + 14 < fuel →
      callFn ld fuel fn [("obj", .str cs)] env pos s = .ok (.str cs.reverse) s' :=
  let ⟨s', e, c⟩ := reverse_calls_str ld h hn hs hm hsrc cs; ⟨s', e, fun fuel env pos hf => c env pos fuel hf⟩

/-- … which is the mirror `Str.reverseM` of C18 -/
theorem reverse_src_string_eq_mirror {s : State} {M nats srcs fn m} (h : LibEnv s M nats srcs)
    (hn : ∀ x ∈ reverseGenNats, x ∈ nats) (hs : ∀ p ∈ reverseGenSrcs, p ∈ srcs) (hm : M m) (hsrc : IsSrc s fn list_reverse m)
    (cs : List Char) :
    ∃ s', Ext s s' ∧ ∀ fuel env pos, cs.length + 14 < fuel →
      callFn ld fuel fn [("obj", .str cs)] env pos s = .ok (.str (Str.reverseM cs)) s' := by
  rw [C18.reverse_eq]; exact reverse_src_string ld h hn hs hm hsrc cs

/-- **`reverse` of a list cell** holding `xs`: a reference to a FRESH cell `b` (`s.heap.size ≤ b`) holding `xs.reverse`; the argument
    cell and everything else that existed is unchanged; fuel bound `xs.length + 16` -/
theorem reverse_src_list {s : State} {M nats srcs fn m} (h : LibEnv s M nats srcs) (hn : ∀ x ∈ reverseGenNats, x ∈ nats)
    (hs : ∀ p ∈ reverseGenSrcs, p ∈ srcs) (hm : M m) (hsrc : IsSrc s fn list_reverse m) (a : Nat) (xs : List RVal)
    (hc : s.cell a = some (.list xs)) :
    ∃ s' b, Ext s s' ∧ s.heap.size ≤ b ∧ s'.cell b = some (.list xs.reverse) ∧ s'.cell a = some (.list xs) ∧
      ∀ fuel env pos, xs.length + 16 < fuel → callFn ld fuel fn [("obj", .ref a)] env pos s = .ok (.ref b) s' := by
  obtain ⟨s', e, ⟨h1, h2⟩, c⟩ := reverse_calls_list ld h hn hs hm hsrc a xs hc
  exact ⟨s', _, e, h1, h2, by rw [e.cell a (cell_lt hc)]; exact hc, fun fuel env pos hf => c env pos fuel hf⟩

/-- … which is the mirror `Lib.reverseM` of C19 -/
theorem reverse_src_list_eq_mirror {s : State} {M nats srcs fn m} (h : LibEnv s M nats srcs)
    (hn : ∀ x ∈ reverseGenNats, x ∈ nats) (hs : ∀ p ∈ reverseGenSrcs, p ∈ srcs) (hm : M m) (hsrc : IsSrc s fn list_reverse m)
    (a : Nat) (xs : List RVal) (hc : s.cell a = some (.list xs)) :
    ∃ s' b, Ext s s' ∧ s.heap.size ≤ b ∧ s'.cell b = some (.list (reverseM xs)) ∧ s'.cell a = some (.list xs) ∧
      ∀ fuel env pos, xs.length + 16 < fuel → callFn ld fuel fn [("obj", .ref a)] env pos s = .ok (.ref b) s' := by
  rw [C19.reverseM_eq]; exact reverse_src_list ld h hn hs hm hsrc a xs hc

/-- **`reverse` of anything else** (a number, NULL, a boolean, a set, a map, a function, …): the runtime error raised by `error(…)`,
    whose VALUE is the text `cannot reverse <type>` and whose position is that of the `error` node in the source; no `ok` outcome,
    no out-of-fuel, no `unsupported`.  The heap is not touched (`s'.heap = s.heap`, so `typeName s' v = typeName s v`). -/
theorem reverse_src_error {s : State} {M nats srcs fn m} (h : LibEnv s M nats srcs) (hn : ∀ x ∈ reverseGenNats, x ∈ nats)
    (hs : ∀ p ∈ reverseGenSrcs, p ∈ srcs) (hm : M m) (hsrc : IsSrc s fn list_reverse m)
    (v : RVal) (h0 : v.isString = false) (h1 : isListR s v = false) :
    ∃ s', Ext s s' ∧ s'.heap = s.heap ∧ ∀ fuel env pos, 13 < fuel → callFn ld fuel fn [("obj", v)] env pos s =
      .err (.str (cannotReverseMsg_L1 (typeName s v))) "" (errorPos_L1 (revElse_L1 (lamBody list_reverse))) [] s' := by
  obtain ⟨s', e, hh, c⟩ := reverse_calls_err ld h hn hs hm hsrc v h0 h1
  rw [typeName_heap hh] at c
  exact ⟨s', e, hh, fun fuel env pos hf => c env pos fuel hf⟩

/-- non-vacuity of the error case: an int argument; the message text for it; the position is a position of list.ckl -/
example (s : State) : (RVal.int 5).isString = false ∧ isListR s (.int 5) = false ∧
    cannotReverseMsg_L1 (typeName s (.int 5)) = "cannot reverse int".toList ∧
    (errorPos_L1 (revElse_L1 (lamBody list_reverse))).file = "mod:list" := by
  refine ⟨rfl, rfl, ?_, by decide⟩
  show cannotReverseMsg_L1 "int" = _; decide

/-! ## 4  the hypotheses are satisfiable: the driver's initial state with the definitions loaded, plus a list cell -/

def loadNats_L1 : List String := ["type", "equals", "add", "insert_at", "sublist", "sub"]
def loadDefs_L1 : List Node := [type_is_string, type_is_list, type_is_int, list_first_n, list_last_n, list_for_each, list_reverse]

theorem loadDefs_names_L1 : loadDefs_L1.map defName = ["is_string", "is_list", "is_int", "first_n", "last_n", "for_each", "reverse"] := rfl

/-- `initialState` of the driver with the built-ins `loadNats_L1`, then the generated definitions `loadDefs_L1` evaluated as the statements of
    a module in the session frame 1, satisfies `LibEnv` -/
theorem initialState_libEnv_L1 (secure : Bool) (last : RVal) :
    ∃ v s', (∀ fuel, loadDefs_L1.length + 1 < fuel →
        evalBody ld fuel 1 loadDefs_L1 last (initialState secure loadNats_L1).1 = .ok v s') ∧
      LibEnv s' (· = 1) loadNats_L1 (loadDefs_L1.map (fun d => (defName d, d))) := by
  obtain ⟨v, s', h1, h2, _⟩ := load_defs_libEnv ld loadDefs_L1
    (by
      intro d hd
      simp only [loadDefs_L1, List.mem_cons, List.not_mem_nil, or_false] at hd
      rcases hd with rfl | rfl | rfl | rfl | rfl | rfl | rfl <;> exact ⟨_, _, _, _, _, _, _, rfl⟩)
    (by rw [loadDefs_names_L1]; decide) loadNats_L1 (by rw [loadDefs_names_L1]; decide)
    (initialState secure loadNats_L1).1 1 (by rw [initialState_frames_size]; exact Nat.lt_succ_self 1)
    (initialState_null secure loadNats_L1 (by decide)) (fun x hx => initialState_nat secure loadNats_L1 hx) last
  exact ⟨v, s', h1, h2⟩

example : (∀ x ∈ firstNNats, x ∈ loadNats_L1) ∧ (∀ x ∈ lastNNats, x ∈ loadNats_L1) ∧ (∀ x ∈ reverseGenNats, x ∈ loadNats_L1) ∧
    (∀ x ∈ typeNats, x ∈ loadNats_L1) := by decide

theorem loadDefs_mem_L1 {d : Node} (hd : d ∈ loadDefs_L1) : (defName d, d) ∈ loadDefs_L1.map (fun d => (defName d, d)) :=
  List.mem_map.2 ⟨d, hd, rfl⟩

example : ∀ p ∈ reverseGenSrcs, p ∈ loadDefs_L1.map (fun d => (defName d, d)) := by
  intro p hp
  simp only [reverseGenSrcs, List.mem_cons, List.not_mem_nil, or_false] at hp
  rcases hp with rfl | rfl
  · exact loadDefs_mem_L1 (d := type_is_string) (by simp [loadDefs_L1])
  · exact loadDefs_mem_L1 (d := type_is_list) (by simp [loadDefs_L1])

/-- a state meeting every hypothesis of the theorems of this file (function values for `first_n`, `last_n`, `for_each`, `reverse`,
    `is_int`; a list cell) -/
example (secure : Bool) : ∃ (s : State) (f1 f2 f3 f4 f5 : RVal) (a : Nat),
    LibEnv s (· = 1) loadNats_L1 (loadDefs_L1.map (fun d => (defName d, d))) ∧
    IsSrc s f1 list_first_n 1 ∧ IsSrc s f2 list_last_n 1 ∧ IsSrc s f3 list_for_each 1 ∧ IsSrc s f4 list_reverse 1 ∧
    IsSrc s f5 type_is_int 1 ∧ s.cell a = some (.list [.int 1, .int 2, .int 3]) := by
  obtain ⟨v, s1, _, hlib⟩ := initialState_libEnv_L1 default secure .null
  have e : Ext s1 (s1.alloc (.list [.int 1, .int 2, .int 3])).1 := (Ext.refl s1).alloc _
  have get : ∀ d ∈ loadDefs_L1, ∃ f, IsSrc s1 f d 1 := by
    intro d hd
    obtain ⟨f, m', _, hm', hf⟩ := hlib.src 1 rfl (defName d, d) (loadDefs_mem_L1 hd)
    subst hm'; exact ⟨f, hf⟩
  obtain ⟨f1, h1⟩ := get list_first_n (by simp [loadDefs_L1])
  obtain ⟨f2, h2⟩ := get list_last_n (by simp [loadDefs_L1])
  obtain ⟨f3, h3⟩ := get list_for_each (by simp [loadDefs_L1])
  obtain ⟨f4, h4⟩ := get list_reverse (by simp [loadDefs_L1])
  obtain ⟨f5, h5⟩ := get type_is_int (by simp [loadDefs_L1])
  exact ⟨_, f1, f2, f3, f4, f5, s1.heap.size, hlib.ext e, h1.ext e, h2.ext e, h3.ext e, h4.ext e, h5.ext e,
    cell_alloc_new _ _⟩

theorem loadSrcs_reverse_L1 : ∀ p ∈ reverseGenSrcs, p ∈ loadDefs_L1.map (fun d => (defName d, d)) := by
  intro p hp
  simp only [reverseGenSrcs, List.mem_cons, List.not_mem_nil, or_false] at hp
  rcases hp with rfl | rfl
  · exact loadDefs_mem_L1 (d := type_is_string) (by simp [loadDefs_L1])
  · exact loadDefs_mem_L1 (d := type_is_list) (by simp [loadDefs_L1])

/-- **End to end**, no hypothesis on the state left: load the generated definitions into the driver's initial state; then the name
    `reverse` resolves (from the session frame 1) to a function value whose call on a string returns the reversed string, and whose
    call on an int raises `cannot reverse int`. -/
theorem loaded_reverse (secure : Bool) (last : RVal) (cs : List Char) (n : Int) :
    ∃ v s1, (∀ fuel, loadDefs_L1.length + 1 < fuel →
        evalBody ld fuel 1 loadDefs_L1 last (initialState secure loadNats_L1).1 = .ok v s1) ∧
      ∃ fn, s1.lookup 1 "reverse" = some fn ∧
        (∃ s', Ext s1 s' ∧ ∀ fuel env pos, cs.length + 14 < fuel →
          callFn ld fuel fn [("obj", .str cs)] env pos s1 = .ok (.str cs.reverse) s') ∧
        (∃ s', Ext s1 s' ∧ ∀ fuel env pos, 13 < fuel → callFn ld fuel fn [("obj", .int n)] env pos s1 =
          .err (.str "cannot reverse int".toList) "" (errorPos_L1 (revElse_L1 (lamBody list_reverse))) [] s') := by
  obtain ⟨v, s1, hev, hlib⟩ := initialState_libEnv_L1 ld secure last
  obtain ⟨fn, m', hres, hm', hsrc⟩ := hlib.src 1 rfl (defName list_reverse, list_reverse)
    (loadDefs_mem_L1 (by simp [loadDefs_L1]))
  subst hm'
  have hlt : 1 < s1.frames.size := hlib.lt 1 rfl
  refine ⟨v, s1, hev, fn, lookupF_res hres _ (by omega),
    reverse_src_string ld hlib (by decide) loadSrcs_reverse_L1 rfl hsrc cs, ?_⟩
  obtain ⟨s', e, _, c⟩ := reverse_src_error ld hlib (by decide) loadSrcs_reverse_L1 rfl hsrc (.int n) rfl rfl
  have hmsg : cannotReverseMsg_L1 (typeName s1 (.int n)) = "cannot reverse int".toList := by
    show cannotReverseMsg_L1 "int" = _; decide
  rw [hmsg] at c
  exact ⟨s', e, c⟩

end Ckl.C19Src
