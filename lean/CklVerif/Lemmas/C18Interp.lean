import CklVerif.Lemmas.C18Find

/-!
  C18 helper lemmas for the interpolation function `s`: one round of the scanning loop,
  padding, parsing of the format specification.
-/
namespace Ckl.C18
open Ckl.Seq Ckl.Str Ckl.C15

/-! ## padding -/

theorem padLoop_leading (z : Bool) (n : Nat) (v : S) :
    padLoop true z n v = List.replicate n ' ' ++ v := by
  induction n generalizing v with
  | zero => rfl
  | succ n ih =>
    rw [padLoop, ih]
    simp only [if_true]
    rw [List.replicate_succ', List.append_assoc]; rfl

theorem padLoop_zeroes (n : Nat) (v : S) :
    padLoop false true n v = List.replicate n '0' ++ v := by
  induction n generalizing v with
  | zero => rfl
  | succ n ih =>
    rw [padLoop, ih]
    simp only [Bool.false_eq_true, if_false, if_true]
    rw [List.replicate_succ', List.append_assoc]; rfl

theorem padLoop_trailing (n : Nat) (v : S) :
    padLoop false false n v = v ++ List.replicate n ' ' := by
  induction n generalizing v with
  | zero => simp [padLoop]
  | succ n ih =>
    rw [padLoop, ih]
    simp only [Bool.false_eq_true, if_false]
    rw [List.replicate_succ, List.append_assoc]; rfl

theorem padLoop_zero_width (sp : Spec) (v : S) (h : sp.width ≤ v.length) : padM sp v = v := by
  unfold padM
  rw [Nat.sub_eq_zero_of_le h]; rfl

/-! ## the variable / spec splitter -/

theorem splitVar_plain (name : S) (h : '#' ∉ name) : splitVar name = some (name, {}) := by
  unfold splitVar
  have := find_char_miss '#' [] name h
  simp only [List.nil_append, List.length_nil, Int.natCast_zero] at this
  simp only [this, if_true]

theorem splitVar_spec (name spec : S) (h : '#' ∉ name) :
    splitVar (name ++ '#' :: spec) = (parseSpec spec).map fun sp => (name, sp) := by
  unfold splitVar
  have := find_char_hit '#' [] name spec h
  simp only [List.nil_append, List.length_nil, Int.natCast_zero, Nat.zero_add] at this
  simp only [this]
  rw [if_neg (by omega)]
  simp only [Int.toNat_natCast]
  have e1 : (name ++ '#' :: spec).drop (name.length + 1) = spec := by
    rw [show name ++ '#' :: spec = (name ++ ['#']) ++ spec by simp]
    rw [show name.length + 1 = (name ++ ['#']).length by simp, List.drop_left]
  rw [e1, List.take_left]

/-! ## one round of the loop -/

theorem tmpl_take (P e rest : S) : (P ++ '{' :: (e ++ '}' :: rest)).take P.length = P :=
  List.take_left

theorem tmpl_drop (P e rest : S) :
    (P ++ '{' :: (e ++ '}' :: rest)).drop (P.length + 1 + e.length + 1) = rest := by
  have : P ++ '{' :: (e ++ '}' :: rest) = (P ++ '{' :: e ++ ['}']) ++ rest := by simp
  rw [this, show P.length + 1 + e.length + 1 = (P ++ '{' :: e ++ ['}']).length by simp; omega,
    List.drop_left]

theorem tmpl_slice (P e rest : S) :
    pySlice (P ++ '{' :: (e ++ '}' :: rest)) ((P.length : Int) + 1) ((P.length + 1 + e.length : Nat) : Int) = e := by
  unfold pySlice
  have e1 : ((P.length : Int) + 1).toNat = P.length + 1 := by omega
  rw [e1, Int.toNat_natCast]
  have : P ++ '{' :: (e ++ '}' :: rest) = (P ++ ['{']) ++ (e ++ '}' :: rest) := by simp
  rw [this, show P.length + 1 = (P ++ ['{']).length by simp, List.drop_left]
  simp only [List.length_append, List.length_cons, List.length_nil]
  rw [show P.length + (0 + 1) + e.length - (P.length + (0 + 1)) = e.length by omega, List.take_left]

theorem find_open (pre l r : S) (h : '{' ∉ l) :
    find (pre ++ l ++ '{' :: r) ['{'] (pre.length : Int) = ((pre ++ l).length : Nat) := by
  rw [find_char_hit '{' pre l r h]; simp

theorem find_close (P e rest : S) (h : '}' ∉ e) :
    find (P ++ '{' :: (e ++ '}' :: rest)) ['}'] ((P.length : Int) + 1)
      = ((P.length + 1 + e.length : Nat) : Int) := by
  have := find_char_hit '}' (P ++ ['{']) e rest h
  simp only [List.append_assoc, List.singleton_append, List.length_append, List.length_cons,
    List.length_nil] at this
  have e1 : ((P.length + (0 + 1) : Nat) : Int) = (P.length : Int) + 1 := by omega
  rw [e1] at this
  simp only [List.cons_append] at this
  rw [this]

/-- the result of rendering the placeholder body `e`: split at `#`, evaluate, convert, pad -/
def Renders (ev : S → Res S) (rnd : S → Nat → Res S) (e out : S) : Prop :=
  ∃ var sp val val', splitVar e = some (var, sp) ∧ ev var = .ok val ∧
    convertM rnd sp val = .ok val' ∧ out = padM sp val'

/-- one round: the literal stretch `l` (no `{`) is skipped, the placeholder `{e}` (no `}` in
    `e`) is replaced by its rendering `out`, scanning resumes right after `out` -/
theorem sLoop_step (ev : S → Res S) (rnd : S → Nat → Res S) (fuel : Nat) (pre l e rest out : S)
    (hl : '{' ∉ l) (he : '}' ∉ e) (hr : Renders ev rnd e out) :
    sLoop ev rnd (fuel + 1) (pre ++ l ++ '{' :: (e ++ '}' :: rest)) (pre.length : Int)
      = sLoop ev rnd fuel ((pre ++ l ++ out) ++ rest) (((pre ++ l ++ out).length : Nat) : Int) := by
  obtain ⟨var, sp, val, val', h1, h2, h3, rfl⟩ := hr
  rw [sLoop]
  simp only [find_open pre l _ hl]
  rw [if_neg (by omega)]
  simp only [find_close (pre ++ l) e rest he]
  rw [if_neg (by omega)]
  simp only [tmpl_slice, h1, h2, h3, Int.toNat_natCast, tmpl_take, tmpl_drop]
  congr 1
  simp only [List.length_append]
  omega

/-- no further `{`: the loop stops and returns the string -/
theorem sLoop_done (ev : S → Res S) (rnd : S → Nat → Res S) (fuel : Nat) (pre l : S) (hl : '{' ∉ l) :
    sLoop ev rnd (fuel + 1) (pre ++ l) (pre.length : Int) = .ok (pre ++ l) := by
  rw [sLoop]
  simp only [find_char_miss '{' pre l hl, if_true]

/-- a `{` that is never closed: the loop stops and returns the string -/
theorem sLoop_unclosed (ev : S → Res S) (rnd : S → Nat → Res S) (fuel : Nat) (pre l r : S)
    (hl : '{' ∉ l) (hr : '}' ∉ r) :
    sLoop ev rnd (fuel + 1) (pre ++ l ++ '{' :: r) (pre.length : Int) = .ok (pre ++ l ++ '{' :: r) := by
  rw [sLoop]
  simp only [find_open pre l _ hl]
  rw [if_neg (by omega)]
  have := find_char_miss '}' (pre ++ l ++ ['{']) r hr
  simp only [List.append_assoc, List.singleton_append, List.length_append, List.length_cons,
    List.length_nil] at this
  have e1 : ((pre.length + (l.length + (0 + 1)) : Nat) : Int) = ((pre ++ l).length : Nat) + 1 := by
    simp only [List.length_append]; omega
  rw [e1] at this
  simp only [List.append_assoc] at this ⊢
  simp only [this, if_true]

/-! ## templates with a list of placeholders -/

/-- a placeholder: body text, its rendering, and the literal text that follows it -/
structure Piece where
  body : S
  out : S
  lit : S

def tmplTail (ps : List Piece) : S := (ps.map fun p => '{' :: (p.body ++ '}' :: p.lit)).flatten
def outTail (ps : List Piece) : S := (ps.map fun p => p.out ++ p.lit).flatten

theorem length_tmplTail (ps : List Piece) : ps.length ≤ (tmplTail ps).length := by
  induction ps with
  | nil => simp
  | cons p ps ih =>
    simp only [tmplTail, List.map_cons, List.flatten_cons, List.length_append, List.length_cons] at ih ⊢
    omega

theorem sLoop_pieces (ev : S → Res S) (rnd : S → Nat → Res S) (ps : List Piece) (fuel : Nat)
    (pre l0 : S) (hf : ps.length < fuel) (h0 : '{' ∉ l0)
    (h : ∀ p ∈ ps, '}' ∉ p.body ∧ '{' ∉ p.lit ∧ Renders ev rnd p.body p.out) :
    sLoop ev rnd fuel (pre ++ l0 ++ tmplTail ps) (pre.length : Int) = .ok (pre ++ l0 ++ outTail ps) := by
  induction ps generalizing fuel pre l0 with
  | nil =>
    cases fuel with
    | zero => simp at hf
    | succ fuel =>
      simp only [tmplTail, outTail, List.map_nil, List.flatten_nil, List.append_nil]
      exact sLoop_done ev rnd fuel pre l0 h0
  | cons p ps ih =>
    cases fuel with
    | zero => simp at hf
    | succ fuel =>
      obtain ⟨hb, hlit, hren⟩ := h p (by simp)
      have e1 : pre ++ l0 ++ tmplTail (p :: ps)
          = pre ++ l0 ++ '{' :: (p.body ++ '}' :: (p.lit ++ tmplTail ps)) := by
        simp [tmplTail]
      rw [e1, sLoop_step ev rnd fuel pre l0 p.body _ p.out h0 hb hren]
      rw [← List.append_assoc]
      rw [ih fuel (pre ++ l0 ++ p.out) p.lit (by simpa using hf) hlit
        (fun q hq => h q (List.mem_cons_of_mem _ hq))]
      simp [outTail, List.append_assoc]

end Ckl.C18

namespace Ckl.C18
open Ckl.Seq Ckl.Str Ckl.C15

/-! ## format specifications made of a digit string -/

theorem digit_ne (c : Char) (h : isDigitC c = true) : c ≠ '-' ∧ c ≠ 'x' ∧ c ≠ '.' := by
  refine ⟨?_, ?_, ?_⟩ <;> (intro e; subst e; revert h; decide)

theorem stripPrefixC_none (c : Char) (ds : S) (h : ds.head? ≠ some c) : stripPrefixC c ds = none := by
  cases ds with
  | nil => rfl
  | cons d ds =>
    simp only [List.head?_cons, ne_eq, Option.some.injEq] at h
    simp [stripPrefixC, h]

theorem digits_head_ne_minus (ds : S) (h : ds.all isDigitC = true) : ds.head? ≠ some '-' := by
  cases ds with
  | nil => simp
  | cons d ds =>
    simp only [List.all_cons, Bool.and_eq_true] at h
    simp only [List.head?_cons, ne_eq, Option.some.injEq]
    exact (digit_ne d h.1).1

theorem digits_getLast_ne_x (ds : S) (h : ds.all isDigitC = true) : ds.getLast? ≠ some 'x' := by
  intro hl
  have hm : 'x' ∈ ds := List.mem_of_getLast? hl
  have := (List.all_eq_true.mp h) 'x' hm
  revert this; decide

theorem digits_no_dot (ds : S) (h : ds.all isDigitC = true) : find ds ['.'] 0 = -1 := by
  have hm : '.' ∉ ds := by
    intro hm
    have := (List.all_eq_true.mp h) '.' hm
    revert this; decide
  have := find_char_miss '.' [] ds hm
  simpa using this

/-- the part of `parseSpec` after the flags, for a pure digit string -/
theorem parseSpec_digits (ds : S) (h : ds.all isDigitC = true) (h0 : ds.head? ≠ some '0') :
    parseSpec ds = some { width := digitsVal ds 0, zeroes := false, leading := true } := by
  unfold parseSpec
  simp only [stripPrefixC_none '-' ds (digits_head_ne_minus ds h), stripPrefixC_none '0' ds h0,
    if_neg (digits_getLast_ne_x ds h), digits_no_dot ds h, if_true, natOfDigits?, h, Option.map_some]

theorem parseSpec_minus_digits (ds : S) (h : ds.all isDigitC = true) (h0 : ds.head? ≠ some '0') :
    parseSpec ('-' :: ds) = some { width := digitsVal ds 0, zeroes := false, leading := false } := by
  unfold parseSpec
  have e1 : stripPrefixC '-' ('-' :: ds) = some ds := by simp [stripPrefixC]
  simp only [e1, if_true, stripPrefixC_none '0' ds h0,
    if_neg (digits_getLast_ne_x ds h), digits_no_dot ds h, natOfDigits?, h, Option.map_some]

theorem parseSpec_zero_digits (ds : S) (h : ds.all isDigitC = true) :
    parseSpec ('0' :: ds) = some { width := digitsVal ds 0, zeroes := true, leading := false } := by
  unfold parseSpec
  have e1 : stripPrefixC '-' ('0' :: ds) = none := by simp [stripPrefixC]
  have e2 : stripPrefixC '0' ('0' :: ds) = some ds := by simp [stripPrefixC]
  simp only [e1, e2, if_true,
    if_neg (digits_getLast_ne_x ds h), digits_no_dot ds h, natOfDigits?, h, Option.map_some]

end Ckl.C18

namespace Ckl.C18
open Ckl.Seq Ckl.Str Ckl.C15

/-! ## the fuel of the scanning loop suffices -/

theorem sLoop_fuel_stable (ev : S → Res S) (rnd : S → Nat → Res S) (n m : Nat) (s : S) (start : Int)
    (hn : s.length - start.toNat < n) (hm : s.length - start.toNat < m) :
    sLoop ev rnd n s start = sLoop ev rnd m s start := by
  induction n generalizing m s start with
  | zero => omega
  | succ n ih =>
    cases m with
    | zero => omega
    | succ m =>
      rw [sLoop, sLoop]
      rcases find_range s ['{'] start with h1 | ⟨h1a, h1b⟩
      · simp only [h1, if_true]
      · by_cases h1 : find s ['{'] start = -1
        · simp only [h1, if_true]
        · simp only [h1, if_false]
          rcases find_range s ['}'] (find s ['{'] start + 1) with h2 | ⟨h2a, h2b⟩
          · simp only [h2, if_true]
          · by_cases h2 : find s ['}'] (find s ['{'] start + 1) = -1
            · simp only [h2, if_true]
            · simp only [h2, if_false]
              split
              · rfl
              · split
                · rfl
                · rfl
                · split
                  · rename_i v _
                    simp only [List.length_cons, List.length_nil] at h1b h2b
                    apply ih
                    all_goals
                      simp only [List.length_append, List.length_take, List.length_drop]
                      omega
                  · rfl
                  · rfl

/-- evaluation error in the first placeholder: the whole call raises -/
theorem sLoop_step_err (ev : S → Res S) (rnd : S → Nat → Res S) (fuel : Nat) (pre l e rest var : S)
    (sp : Spec) (hl : '{' ∉ l) (he : '}' ∉ e) (h1 : splitVar e = some (var, sp)) (h2 : ev var = .err) :
    sLoop ev rnd (fuel + 1) (pre ++ l ++ '{' :: (e ++ '}' :: rest)) (pre.length : Int) = .err := by
  rw [sLoop]
  simp only [find_open pre l _ hl]
  rw [if_neg (by omega)]
  simp only [find_close (pre ++ l) e rest he]
  rw [if_neg (by omega)]
  simp only [tmpl_slice, h1, h2]

end Ckl.C18

namespace Ckl.C18
open Ckl.Str

/-! ## hexadecimal digits -/

theorem hexDigitC_eq : ∀ k, k < 16 → hexDigitC k = Nat.digitChar k := by decide

theorem hexFuel_eq (fuel n : Nat) (acc : S) : hexFuel fuel n acc = Nat.toDigitsCore 16 fuel n acc := by
  induction fuel generalizing n acc with
  | zero => rfl
  | succ fuel ih =>
    rw [hexFuel, Nat.toDigitsCore]
    by_cases h : n < 16
    · rw [if_pos h]
      have : n / 16 = 0 := Nat.div_eq_of_lt h
      simp only [this, if_true]
      rw [Nat.mod_eq_of_lt h, hexDigitC_eq n h]
    · rw [if_neg h]
      have : ¬ (n / 16 = 0) := by omega
      simp only [this, if_false]
      rw [ih, hexDigitC_eq _ (Nat.mod_lt n (by decide))]

end Ckl.C18
