import CklVerif.Lemmas.C13NoHost

/-!
  C13: the induction step.  `NHAll ld fuel` says that none of the node-reachable functions of the
  evaluator ends in a host failure at fuel `fuel`; every function at `fuel + 1` inherits it.
-/
namespace Ckl
variable (ld : Loader)

structure NHAll (fuel : Nat) : Prop where
  eval : ∀ env n, NoHost (eval ld fuel env n)
  evalAnd : ∀ env es pos, NoHost (evalAnd ld fuel env es pos)
  evalOr : ∀ env es pos, NoHost (evalOr ld fuel env es pos)
  evalIf : ∀ env cs xs els pos, NoHost (evalIf ld fuel env cs xs els pos)
  evalSeq : ∀ env ns, NoHost (evalSeq ld fuel env ns)
  evalItems : ∀ env ns pos, NoHost (evalItems ld fuel env ns pos)
  evalPairs : ∀ env ks vs, NoHost (evalPairs ld fuel env ks vs)
  evalBody : ∀ env ns last, NoHost (evalBody ld fuel env ns last)
  evalFinally : ∀ env ns, NoHost (evalFinally ld fuel env ns)
  tryHandlers : ∀ env cs hs v msg p t, NoHost (tryHandlers ld fuel env cs hs v msg p t)
  invoke : ∀ fn pre names args env pos, NoHost (invoke ld fuel fn pre names args env pos)
  evalArgs : ∀ env names args pos, NoHost (evalArgs ld fuel env names args pos)
  bindParams : ∀ lenv ps ds bound pos, NoHost (bindParams ld fuel lenv ps ds bound pos)
  evalFor : ∀ env ids e body what pos, NoHost (evalFor ld fuel env ids e body what pos)
  forItems : ∀ env ids xs body result pos, NoHost (forItems ld fuel env ids xs body result pos)
  forListLive : ∀ env ids a i body result pos, NoHost (forListLive ld fuel env ids a i body result pos)
  forString : ∀ env x cs body result, NoHost (forString ld fuel env x cs body result)
  whileLoop : ∀ env c body pos, NoHost (whileLoop ld fuel env c body pos)
  comprStep : ∀ lenv kind ve ke cond pos, NoHost (comprStep ld fuel lenv kind ve ke cond pos)
  comprLoop : ∀ lenv kind ve ke cond pos l acc, NoHost (comprLoop ld fuel lenv kind ve ke cond pos l acc)
  comprProduct : ∀ lenv kind ve ke cond pos x1 vs x2 ws acc,
    NoHost (comprProduct ld fuel lenv kind ve ke cond pos x1 vs x2 ws acc)
  comprParallel : ∀ lenv kind ve ke cond pos x1 vs x2 ws acc,
    NoHost (comprParallel ld fuel lenv kind ve ke cond pos x1 vs x2 ws acc)
  evalRequire : ∀ env spec name unq syms pos, NoHost (evalRequire ld fuel env spec name unq syms pos)
  loadModule : ∀ env ident modulefile pos, NoHost (loadModule ld fuel env ident modulefile pos)

variable {ld} {fuel : Nat}

/-- bring every field of the induction hypothesis into the context -/
macro "ih_intro " ih:ident : tactic => `(tactic|
  (have := ($ih).eval; have := ($ih).evalAnd; have := ($ih).evalOr; have := ($ih).evalIf
   have := ($ih).evalSeq; have := ($ih).evalItems; have := ($ih).evalPairs; have := ($ih).evalBody
   have := ($ih).evalFinally; have := ($ih).tryHandlers; have := ($ih).invoke; have := ($ih).evalArgs
   have := ($ih).bindParams; have := ($ih).evalFor; have := ($ih).forItems; have := ($ih).forListLive
   have := ($ih).forString; have := ($ih).whileLoop; have := ($ih).comprStep; have := ($ih).comprLoop
   have := ($ih).comprProduct; have := ($ih).comprParallel; have := ($ih).evalRequire
   have := ($ih).loadModule))

theorem evalAnd_step (ih : NHAll ld fuel) : ∀ env es pos, NoHost (evalAnd ld (fuel+1) env es pos) := by
  intro env es pos
  ih_intro ih
  cases es <;> unfold Ckl.evalAnd <;> nohost!

theorem evalOr_step (ih : NHAll ld fuel) : ∀ env es pos, NoHost (evalOr ld (fuel+1) env es pos) := by
  intro env es pos
  ih_intro ih
  cases es <;> unfold Ckl.evalOr <;> nohost!

theorem evalIf_step (ih : NHAll ld fuel) : ∀ env cs xs els pos, NoHost (evalIf ld (fuel+1) env cs xs els pos) := by
  intro env cs xs els pos
  ih_intro ih
  cases cs <;> cases xs <;> unfold Ckl.evalIf <;> nohost!

theorem evalSeq_step (ih : NHAll ld fuel) : ∀ env ns, NoHost (evalSeq ld (fuel+1) env ns) := by
  intro env ns
  ih_intro ih
  cases ns <;> unfold Ckl.evalSeq <;> nohost!

theorem evalItems_step (ih : NHAll ld fuel) : ∀ env ns pos, NoHost (evalItems ld (fuel+1) env ns pos) := by
  intro env ns pos
  ih_intro ih
  cases ns <;> unfold Ckl.evalItems <;> nohost!

theorem evalPairs_step (ih : NHAll ld fuel) : ∀ env ks vs, NoHost (evalPairs ld (fuel+1) env ks vs) := by
  intro env ks vs
  ih_intro ih
  cases ks <;> cases vs <;> unfold Ckl.evalPairs <;> nohost!

theorem evalBody_step (ih : NHAll ld fuel) : ∀ env ns last, NoHost (evalBody ld (fuel+1) env ns last) := by
  intro env ns last
  ih_intro ih
  cases ns <;> unfold Ckl.evalBody <;> nohost!

theorem evalFinally_step (ih : NHAll ld fuel) : ∀ env ns, NoHost (evalFinally ld (fuel+1) env ns) := by
  intro env ns
  ih_intro ih
  cases ns <;> unfold Ckl.evalFinally <;> nohost!

theorem tryHandlers_step (ih : NHAll ld fuel) :
    ∀ env cs hs v msg p t, NoHost (tryHandlers ld (fuel+1) env cs hs v msg p t) := by
  intro env cs hs v msg p t
  ih_intro ih
  cases cs <;> cases hs <;> unfold Ckl.tryHandlers <;>
    first | exact NoHost.ofFun (fun s => Out.NH_err _ _ _ _ _) | nohost!

/-- the containment boundary: whatever `callFn` returns, the wrapper of `invoke` does not return a
    host failure -/
theorem invoke_wrap_NH (ld : Loader) (fuel : Nat) (fn : RVal) (bound : List (String × RVal)) (env : EnvId)
    (pos : Pos) (s1 : State) :
    (match callFn ld fuel fn bound env pos s1 with
      | .err v m p t s2 => .err v m p (t ++ [(fnName s2 fn, pos)]) s2
      | .fail (.syn e) s2 => .err (.str "ERROR".toList) e.msg pos [] s2
      | .fail (.host k) s2 => .err (.str "ERROR".toList) (fnName s2 fn ++ " failed: " ++ k) pos [] s2
      | other => other : Out RVal).NH := by
  cases h : callFn ld fuel fn bound env pos s1 with
  | ok a s2 => simp
  | err v m p t s2 => simp
  | fail f s2 => cases f <;> simp

theorem invoke_step (ih : NHAll ld fuel) :
    ∀ fn pre names args env pos, NoHost (invoke ld (fuel+1) fn pre names args env pos) := by
  intro fn pre names args env pos
  ih_intro ih
  unfold Ckl.invoke
  have hw := fun bound => NoHost.ofFun (invoke_wrap_NH ld fuel fn bound env pos)
  nohost!

theorem evalArgs_step (ih : NHAll ld fuel) :
    ∀ env names args pos, NoHost (evalArgs ld (fuel+1) env names args pos) := by
  intro env names args pos
  ih_intro ih
  cases names <;> cases args <;> unfold Ckl.evalArgs <;> nohost!

theorem bindParams_step (ih : NHAll ld fuel) :
    ∀ lenv ps ds bound pos, NoHost (bindParams ld (fuel+1) lenv ps ds bound pos) := by
  intro lenv ps ds bound pos
  ih_intro ih
  cases ps <;> cases ds <;> unfold Ckl.bindParams <;> nohost!

theorem evalFor_step (ih : NHAll ld fuel) :
    ∀ env ids e body what pos, NoHost (evalFor ld (fuel+1) env ids e body what pos) := by
  intro env ids e body what pos
  ih_intro ih
  unfold Ckl.evalFor
  nohost!

theorem forItems_step (ih : NHAll ld fuel) :
    ∀ env ids xs body result pos, NoHost (forItems ld (fuel+1) env ids xs body result pos) := by
  intro env ids xs body result pos
  ih_intro ih
  cases xs <;> unfold Ckl.forItems <;> nohost!

theorem forListLive_step (ih : NHAll ld fuel) :
    ∀ env ids a i body result pos, NoHost (forListLive ld (fuel+1) env ids a i body result pos) := by
  intro env ids a i body result pos
  ih_intro ih
  unfold Ckl.forListLive
  nohost!

theorem forString_step (ih : NHAll ld fuel) :
    ∀ env x cs body result, NoHost (forString ld (fuel+1) env x cs body result) := by
  intro env x cs body result
  ih_intro ih
  cases cs <;> unfold Ckl.forString <;> nohost!

theorem whileLoop_step (ih : NHAll ld fuel) :
    ∀ env c body pos, NoHost (whileLoop ld (fuel+1) env c body pos) := by
  intro env c body pos
  ih_intro ih
  unfold Ckl.whileLoop
  nohost!

theorem comprStep_step (ih : NHAll ld fuel) :
    ∀ lenv kind ve ke cond pos, NoHost (comprStep ld (fuel+1) lenv kind ve ke cond pos) := by
  intro lenv kind ve ke cond pos
  ih_intro ih
  unfold Ckl.comprStep
  nohost!

theorem comprLoop_step (ih : NHAll ld fuel) :
    ∀ lenv kind ve ke cond pos l acc, NoHost (comprLoop ld (fuel+1) lenv kind ve ke cond pos l acc) := by
  intro lenv kind ve ke cond pos l acc
  ih_intro ih
  rcases l with _ | ⟨⟨x, _ | ⟨v, vs⟩⟩, _ | ⟨y, l⟩⟩ <;> unfold Ckl.comprLoop <;> nohost!

theorem comprProduct_step (ih : NHAll ld fuel) :
    ∀ lenv kind ve ke cond pos x1 vs x2 ws acc,
      NoHost (comprProduct ld (fuel+1) lenv kind ve ke cond pos x1 vs x2 ws acc) := by
  intro lenv kind ve ke cond pos x1 vs x2 ws acc
  ih_intro ih
  cases vs <;> unfold Ckl.comprProduct <;> nohost!

theorem comprParallel_step (ih : NHAll ld fuel) :
    ∀ lenv kind ve ke cond pos x1 vs x2 ws acc,
      NoHost (comprParallel ld (fuel+1) lenv kind ve ke cond pos x1 vs x2 ws acc) := by
  intro lenv kind ve ke cond pos x1 vs x2 ws acc
  ih_intro ih
  cases vs <;> cases ws <;> unfold Ckl.comprParallel <;> nohost!

theorem mapState_NH {α} {m : EvalM α} (h : NoHost m) (pop : State → State) :
    NoHost (fun s1 => match m s1 with
      | .ok e s2 => .ok e (pop s2)
      | .err v msg p t s2 => .err v msg p t (pop s2)
      | .fail f s2 => .fail f (pop s2) : EvalM α) := by
  constructor
  intro s1
  have := h.nh s1
  cases hr : m s1 with
  | ok a s2 => simp
  | err v msg p t s2 => simp
  | fail f s2 =>
    rw [hr] at this
    cases f with
    | host k => exact absurd this (by simp)
    | _ => simp

theorem evalRequire_step (ih : NHAll ld fuel) :
    ∀ env spec name unq syms pos, NoHost (evalRequire ld (fuel+1) env spec name unq syms pos) := by
  intro env spec name unq syms pos
  ih_intro ih
  unfold Ckl.evalRequire
  nohost!
  all_goals
    refine NoHost.ofFun (fun s1 => ?_)
    split
    · simp
    · simp
    · rename_i f s2 heq
      cases f with
      | host k => exact absurd heq ((ih.loadModule _ _ _ _).ne _ _ _)
      | _ => simp

theorem loadModule_step (ih : NHAll ld fuel) :
    ∀ env ident modulefile pos, NoHost (loadModule ld (fuel+1) env ident modulefile pos) := by
  intro env ident modulefile pos
  ih_intro ih
  unfold Ckl.loadModule
  nohost!

end Ckl
