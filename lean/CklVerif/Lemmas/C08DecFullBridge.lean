/-
  C08 (all containers, decimals included) — the bridge between scanner and parser part: a token
  list whose (value, type) sequence is `tokensOfP v` spells the literal of `v` (`lit_valP`).
  `decRepr m e` is never evaluated: the decimal case uses `C08DL.decToks_spec`.
-/
import CklVerif.Lemmas.C08DecFullParse
namespace Ckl.C08DF
open Ckl Ckl.Parser Ckl.C08 Ckl.C08D Ckl.C08F
open Ckl.Lexer (tv)

/-! ### from the (value, type) sequence to the literal -/

theorem mapKey_of_nodeIsP {k : Val} {kn : Node} (h : NodeIsP k kn) (hk : k ≠ .null) : mapKey kn = kn := by
  cases k with
  | null => exact absurd rfl hk
  | bool b => obtain ⟨p, rfl⟩ := h; rfl
  | int n => obtain ⟨p, rfl⟩ := h; rfl
  | str s => obtain ⟨p, rfl⟩ := h; rfl
  | list xs => obtain ⟨ns, p, rfl, _⟩ := h; rfl
  | set xs => obtain ⟨ns, p, rfl, _⟩ := h; rfl
  | map kvs => obtain ⟨ks, vs, p, rfl, _⟩ := h; rfl
  | dec m e => obtain ⟨p, rfl⟩ := h; rfl
  | pat s => simp [NodeIsP] at h
  | date d => simp [NodeIsP] at h

theorem scalar_atomP (v : Val)
    (hv : v = .null ∨ (∃ b, v = .bool b) ∨ (∃ n, v = .int n) ∨ (∃ s, v = .str s)) (hd : IsDataP v)
    (l : List Token) (hl : l.map tv = dataToks v) : ∃ n, AtomP l n ∧ NodeIsP v n := by
  rcases hv with rfl | ⟨b, rfl⟩ | ⟨n, rfl⟩ | ⟨s, rfl⟩
  · obtain ⟨t, rfl, h1, h2⟩ := map_tv_singleton (by simpa [dataToks] using hl)
    exact ⟨_, .ident t h2, ⟨t.pos, by rw [h1]; rfl⟩⟩
  · cases b with
    | true =>
      obtain ⟨t, rfl, h1, h2⟩ := map_tv_singleton (by simpa [dataToks] using hl)
      exact ⟨_, .bool t h2, ⟨t.pos, by rw [h1]; rfl⟩⟩
    | false =>
      obtain ⟨t, rfl, h1, h2⟩ := map_tv_singleton (by simpa [dataToks] using hl)
      exact ⟨_, .bool t h2, ⟨t.pos, by rw [h1]; rfl⟩⟩
  · have hd' : (Nat.toDigits 10 n.natAbs).length ≤ 4300 := by simpa [IsDataP] using hd
    by_cases hn : n < 0
    · simp only [dataToks, intToks, hn, if_true] at hl
      cases l with
      | nil => simp at hl
      | cons tm l' =>
        simp only [List.map_cons, List.cons.injEq, tv, Prod.mk.injEq] at hl
        obtain ⟨⟨hm1, hm2⟩, hl'⟩ := hl
        obtain ⟨t, rfl, h1, h2⟩ := map_tv_singleton hl'
        refine ⟨_, .negInt tm t n.natAbs ⟨hm1, hm2⟩ h2 (by rw [h1]; exact parseIntLit_toDigits _ hd'),
          ⟨t.pos, ?_⟩⟩
        congr 2; omega
    · simp only [dataToks, intToks, hn, if_false] at hl
      obtain ⟨t, rfl, h1, h2⟩ := map_tv_singleton hl
      refine ⟨_, .int t n.natAbs h2 (by rw [h1]; exact parseIntLit_toDigits _ hd'), ⟨t.pos, ?_⟩⟩
      congr 2; omega
  · obtain ⟨t, rfl, h1, h2⟩ := map_tv_singleton (by simpa [dataToks] using hl)
    exact ⟨_, .str t h2, ⟨t.pos, by rw [h1]⟩⟩

/-- a token list whose (value, type) sequence is `decToks m e` spells the literal of the double
    `m / 2^e`: one `decimal` token that `float()` reads as `|m| / 2^e`, after a `-` when `m < 0` -/
theorem dec_atomP (m : Int) (e : Nat) (hd : IsDouble m e) (l : List Token)
    (hl : l.map tv = C08DL.decToks m e) : ∃ n, AtomP l n ∧ NodeIsP (.dec m e) n := by
  obtain ⟨a, b, _, htoks, _, _, _, hp⟩ := C08DL.decToks_spec m e hd
  rw [htoks] at hl
  by_cases hm : m < 0
  · simp only [if_pos hm, List.cons_append, List.nil_append] at hl
    cases l with
    | nil => simp at hl
    | cons tm l' =>
      simp only [List.map_cons, List.cons.injEq, tv, Prod.mk.injEq] at hl
      obtain ⟨⟨hm1, hm2⟩, hl'⟩ := hl
      obtain ⟨t, rfl, h1, h2⟩ := map_tv_singleton hl'
      refine ⟨_, .negDec tm t (m.natAbs : Int) e ⟨hm1, hm2⟩ h2 (by rw [h1]; exact hp), ⟨t.pos, ?_⟩⟩
      congr 2; omega
  · simp only [if_neg hm, List.nil_append] at hl
    obtain ⟨t, rfl, h1, h2⟩ := map_tv_singleton hl
    refine ⟨_, .dec t (m.natAbs : Int) e h2 (by rw [h1]; exact hp), ⟨t.pos, ?_⟩⟩
    congr 2; omega

mutual
  /-- a token list whose (value, type) sequence is `tokensOfP v` spells the literal of `v` -/
  theorem lit_valP : ∀ (v : Val), IsDataP v → ∀ (l : List Token),
      l.map tv = tokensOfP v → ∃ n, LitP l n ∧ NodeIsP v n
    | .null, hd, l, hl => by
      obtain ⟨n, h1, h2⟩ := scalar_atomP .null (Or.inl rfl) hd l hl; exact ⟨n, .atom h1, h2⟩
    | .bool b, hd, l, hl => by
      obtain ⟨n, h1, h2⟩ := scalar_atomP (.bool b) (Or.inr (Or.inl ⟨b, rfl⟩)) hd l
        (by cases b <;> exact hl)
      exact ⟨n, .atom h1, h2⟩
    | .int k, hd, l, hl => by
      obtain ⟨n, h1, h2⟩ := scalar_atomP (.int k) (Or.inr (Or.inr (Or.inl ⟨k, rfl⟩))) hd l hl
      exact ⟨n, .atom h1, h2⟩
    | .str s, hd, l, hl => by
      obtain ⟨n, h1, h2⟩ := scalar_atomP (.str s) (Or.inr (Or.inr (Or.inr ⟨s, rfl⟩))) hd l hl
      exact ⟨n, .atom h1, h2⟩
    | .list [], _, l, hl => by
      simp only [tokensOfP, tokensLsP, sepToks, List.nil_append] at hl
      obtain ⟨tl, tr, body, rfl, h1, h2, hb⟩ := split_brackets (mid := []) hl
      have : body = [] := by simpa using hb
      subst this
      exact ⟨_, .list0 tl tr h1 h2, ⟨[], tl.pos, rfl, by simp [NodeIsPL]⟩⟩
    | .list (x :: xs), hd, l, hl => by
      simp only [IsDataP, IsDataPL] at hd
      simp only [tokensOfP, tokensLsP, sepToks] at hl
      obtain ⟨tl, tr, body, rfl, h1, h2, hb⟩ := split_brackets hl
      obtain ⟨ts, rest, rfl, hts, hrest⟩ := List.map_eq_append_iff.mp hb
      obtain ⟨n, hn, hnn⟩ := lit_valP x hd.1 ts hts
      obtain ⟨ns, hns, hnns⟩ := lit_tailP xs hd.2 rest hrest
      refine ⟨.list (n :: ns) tl.pos, ?_, ⟨n :: ns, tl.pos, rfl, ?_⟩⟩
      · have := LitP.list tl tr ts rest n ns h1 h2 hn hns
        simpa using this
      · rw [NodeIsPL]; exact ⟨n, ns, rfl, hnn, hnns⟩
    | .set [], _, l, hl => by
      simp only [tokensOfP, tokensLsP, sepToks, List.nil_append] at hl
      obtain ⟨tl, tr, body, rfl, h1, h2, hb⟩ := split_brackets (mid := []) hl
      have : body = [] := by simpa using hb
      subst this
      exact ⟨_, .set0 tl tr h1 h2, ⟨[], tl.pos, rfl, by simp [NodeIsPL]⟩⟩
    | .set (x :: xs), hd, l, hl => by
      simp only [IsDataP, IsDataPL] at hd
      simp only [tokensOfP, tokensLsP, sepToks] at hl
      obtain ⟨tl, tr, body, rfl, h1, h2, hb⟩ := split_brackets hl
      obtain ⟨ts, rest, rfl, hts, hrest⟩ := List.map_eq_append_iff.mp hb
      obtain ⟨n, hn, hnn⟩ := lit_valP x hd.1 ts hts
      obtain ⟨ns, hns, hnns⟩ := lit_tailP xs hd.2 rest hrest
      refine ⟨.set (n :: ns) tl.pos, ?_, ⟨n :: ns, tl.pos, rfl, ?_⟩⟩
      · have := LitP.set tl tr ts rest n ns h1 h2 hn hns
        simpa using this
      · rw [NodeIsPL]; exact ⟨n, ns, rfl, hnn, hnns⟩
    | .map [], _, l, hl => by
      simp only [tokensOfP, tokensMsP, sepToks, List.nil_append] at hl
      obtain ⟨tl, tr, body, rfl, h1, h2, hb⟩ := split_brackets (mid := []) hl
      have : body = [] := by simpa using hb
      subst this
      exact ⟨_, .map0 tl tr h1 h2, ⟨[], [], tl.pos, rfl, by simp [NodeIsPM]⟩⟩
    | .map ((k, v) :: rest), hd, l, hl => by
      simp only [IsDataP, IsDataPM] at hd
      simp only [tokensOfP, tokensMsP, sepToks] at hl
      obtain ⟨tl, tr, body, rfl, h1, h2, hb⟩ := split_brackets hl
      obtain ⟨ent, rst, rfl, hent, hrst⟩ := List.map_eq_append_iff.mp hb
      obtain ⟨kts, avts, rfl, hkts, havts⟩ := List.map_eq_append_iff.mp hent
      cases avts with
      | nil => simp at havts
      | cons ta vts =>
        simp only [List.map_cons, List.cons.injEq] at havts
        obtain ⟨ha, hvts⟩ := havts
        have ha' : IsTok ta ['=', '>'] .interpunction := by
          have : tv ta = (['=', '>'], ip) := ha
          simp only [tv, Prod.mk.injEq] at this; exact this
        obtain ⟨kn, hkn, hknn⟩ := lit_valP k hd.2.1 kts hkts
        obtain ⟨vn, hvn, hvnn⟩ := lit_valP v hd.2.2.1 vts hvts
        obtain ⟨kns, vns, hr, hrn⟩ := lit_tailEP rest hd.2.2.2 rst hrst
        have hmk := mapKey_of_nodeIsP hknn hd.1
        refine ⟨.map (kn :: kns) (vn :: vns) tl.pos, ?_, ⟨kn :: kns, vn :: vns, tl.pos, rfl, ?_⟩⟩
        · have := LitP.map tl tr ta kts vts rst kn vn kns vns h1 h2 ha' hkn hvn hr
          rw [hmk] at this
          simpa using this
        · rw [NodeIsPM]; exact ⟨kn, kns, vn, vns, rfl, rfl, hknn, hvnn, hrn⟩
    | .dec m e, hd, l, hl => by
      obtain ⟨n, h1, h2⟩ := dec_atomP m e (by simpa only [IsDataP] using hd) l
        (by simpa only [tokensOfP] using hl)
      exact ⟨n, .atom h1, h2⟩
    | .pat _, hv, _, _ => by simp [IsDataP] at hv
    | .date _, hv, _, _ => by simp [IsDataP] at hv
  theorem lit_tailP : ∀ (ys : List Val), IsDataPL ys → ∀ (l : List Token),
      l.map tv = (tokensLsP ys).flatMap (fun y => ([','], ip) :: y) → ∃ ns, RestP l ns ∧ NodeIsPL ys ns
    | [], _, l, hl => by
      have : l = [] := by simpa [tokensLsP] using hl
      subst this; exact ⟨[], .nil, by simp [NodeIsPL]⟩
    | y :: ys, hd, l, hl => by
      simp only [IsDataPL] at hd
      simp only [tokensLsP, List.flatMap_cons] at hl
      cases l with
      | nil => simp at hl
      | cons tc l' =>
        simp only [List.map_cons, List.cons_append, List.cons.injEq, tv, Prod.mk.injEq] at hl
        obtain ⟨⟨hc1, hc2⟩, hl'⟩ := hl
        obtain ⟨ts, rest, rfl, hts, hrest⟩ := List.map_eq_append_iff.mp hl'
        obtain ⟨n, hn, hnn⟩ := lit_valP y hd.1 ts hts
        obtain ⟨ns, hns, hnns⟩ := lit_tailP ys hd.2 rest hrest
        exact ⟨n :: ns, .cons tc ts rest n ns ⟨hc1, hc2⟩ hn hns, by rw [NodeIsPL]; exact ⟨n, ns, rfl, hnn, hnns⟩⟩
  theorem lit_tailEP : ∀ (kvs : List (Val × Val)), IsDataPM kvs →
      ∀ (l : List Token), l.map tv = (tokensMsP kvs).flatMap (fun y => ([','], ip) :: y) →
      ∃ kns vns, RestEP l kns vns ∧ NodeIsPM kvs kns vns
    | [], _, l, hl => by
      have : l = [] := by simpa [tokensMsP] using hl
      subst this; exact ⟨[], [], .nil, by simp [NodeIsPM]⟩
    | (k, v) :: rest, hd, l, hl => by
      simp only [IsDataPM] at hd
      simp only [tokensMsP, List.flatMap_cons] at hl
      cases l with
      | nil => simp at hl
      | cons tc l' =>
        simp only [List.map_cons, List.cons_append, List.cons.injEq, tv, Prod.mk.injEq] at hl
        obtain ⟨⟨hc1, hc2⟩, hl'⟩ := hl
        obtain ⟨ent, rst, rfl, hent, hrst⟩ := List.map_eq_append_iff.mp hl'
        obtain ⟨kts, avts, rfl, hkts, havts⟩ := List.map_eq_append_iff.mp hent
        cases avts with
        | nil => simp at havts
        | cons ta vts =>
          simp only [List.map_cons, List.cons.injEq] at havts
          obtain ⟨ha, hvts⟩ := havts
          have ha' : IsTok ta ['=', '>'] .interpunction := by
            have : tv ta = (['=', '>'], ip) := ha
            simp only [tv, Prod.mk.injEq] at this; exact this
          obtain ⟨kn, hkn, hknn⟩ := lit_valP k hd.2.1 kts hkts
          obtain ⟨vn, hvn, hvnn⟩ := lit_valP v hd.2.2.1 vts hvts
          obtain ⟨kns, vns, hr, hrn⟩ := lit_tailEP rest hd.2.2.2 rst hrst
          have hmk := mapKey_of_nodeIsP hknn hd.1
          refine ⟨kn :: kns, vn :: vns, ?_, ?_⟩
          · have := RestEP.cons tc ta kts vts rst kn vn kns vns ⟨hc1, hc2⟩ ha' hkn hvn hr
            rw [hmk] at this
            simpa using this
          · rw [NodeIsPM]; exact ⟨kn, kns, vn, vns, rfl, rfl, hknn, hvnn, hrn⟩
end

end Ckl.C08DF
