/-
  Basic facts about the scanner model `Ckl.Lexer` used by the C01 / C14 / C20 proofs:
  facts about the state dispatch `step`, and the compositionality of `run`.
-/
import CklVerif.Model.Lexer
namespace Ckl.Lexer

/-- all pure per-state functions, for `simp only` -/
macro "unfold_steps" : tactic =>
  `(tactic| simp only [step0, step1, step2, step21, stepStr, stepEsc, stepHex1, step5, step6, step7,
      step70, step8, step9, step10])

theorem step0_ws (k : Core) (col : Int) {ch : Char} (h : ch ∈ whitespace) :
    step0 k col ch = ⟨k, none, false⟩ := by
  simp only [whitespace, List.mem_cons, List.not_mem_nil, or_false] at h
  rcases h with rfl | rfl | rfl | rfl <;> simp [step0, digits, whitespace]

theorem step0_newline (k : Core) (col : Int) : step0 k col '\n' = ⟨k, none, false⟩ :=
  step0_ws k col (by simp [whitespace])

theorem stepHex2_again {str : St} {k : Core} {ch : Char} {o : Out}
    (h : stepHex2 str k ch = .ok o) : o.again = false := by
  simp only [stepHex2] at h
  split at h
  · split at h
    · cases h
    · cases h; rfl
  · cases h

theorem stepRadix_again {base : Nat} {al : List Char} {what : String} {k : Core} {col : Int} {ch : Char}
    {o : Out} (h : stepRadix base al what k col ch = .ok o) (ha : o.again = true) :
    o.core.state = .s0 := by
  unfold stepRadix at h
  split at h
  · cases h; cases ha
  · split at h
    · split at h
      · cases h; rfl
      · cases h
    · cases h; cases ha

/-- an unread always enters state 0 -/
theorem step_again_state {k : Core} {col : Int} {ch : Char} {o : Out}
    (h : step k col ch = .ok o) (ha : o.again = true) : o.core.state = .s0 := by
  unfold step at h
  split at h
  all_goals first
    | (simp only [Except.ok.injEq] at h; subst h; revert ha
       unfold_steps
       repeat' split
       all_goals simp)
    | (rw [stepHex2_again h] at ha; cases ha)
    | exact stepRadix_again h ha

theorem step_s0 {k : Core} (col : Int) (ch : Char) (h : k.state = .s0) :
    step k col ch = .ok (step0 k col ch) := by
  unfold step; rw [h]

/-! ### `run` is a fold -/

theorem run_cons_ok {name : String} {σ σ1 : LexSt} {c : Char} (rest : List Char)
    (h : feed name σ c = .ok σ1) : run name σ (c :: rest) = run name σ1 rest := by
  simp only [run, h]

theorem run_cons_error {name : String} {σ : LexSt} {c : Char} {e : SynErr} (rest : List Char)
    (h : feed name σ c = .error e) : run name σ (c :: rest) = .error e := by
  simp only [run, h]

theorem run_append_ok {name : String} {σ σ' : LexSt} {a : List Char} (b : List Char)
    (h : run name σ a = .ok σ') : run name σ (a ++ b) = run name σ' b := by
  induction a generalizing σ with
  | nil => cases h; rfl
  | cons c a ih =>
    cases hf : feed name σ c with
    | error e => rw [run_cons_error _ hf] at h; cases h
    | ok σ1 =>
      rw [run_cons_ok _ hf] at h
      rw [List.cons_append, run_cons_ok _ hf]
      exact ih h

theorem run_append_error {name : String} {σ : LexSt} {a : List Char} {e : SynErr} (b : List Char)
    (h : run name σ a = .error e) : run name σ (a ++ b) = .error e := by
  induction a generalizing σ with
  | nil => cases h
  | cons c a ih =>
    cases hf : feed name σ c with
    | error e' => rw [run_cons_error _ hf] at h; rw [List.cons_append, run_cons_error _ hf]; exact h
    | ok σ1 =>
      rw [run_cons_ok _ hf] at h
      rw [List.cons_append, run_cons_ok _ hf]
      exact ih h

/-! ### generic invariant principle for the loop -/

/-- a predicate on the loop variables that every part of a loop iteration preserves -/
structure Preserved (name : String) (P : LexSt → Prop) : Prop where
  count : ∀ σ ch, P σ → P (σ.count ch)
  capture : ∀ σ, P σ → P σ.capture
  dispatch : ∀ σ ch σ' b, P σ → σ.dispatch name ch = .ok (σ', b) → P σ'
  next : ∀ σ, P σ → P { σ with pos := σ.pos + 1 }

theorem feed_preserved {name : String} {P : LexSt → Prop} (hP : Preserved name P)
    {σ : LexSt} {ch : Char} (h : P σ) :
    (∀ σ', feed name σ ch = .ok σ' → P σ') ∧
    (∀ e, feed name σ ch = .error e → ∃ σ0, P σ0 ∧ ∃ ch, σ0.dispatch name ch = .error e) := by
  have h1 := hP.capture _ (hP.count σ ch h)
  unfold feed
  cases hd : (σ.count ch).capture.dispatch name ch with
  | error e =>
    refine ⟨(fun σ' hf => nomatch hf), fun e' hf => ?_⟩
    cases hf; exact ⟨_, h1, ch, hd⟩
  | ok r =>
    obtain ⟨σ2, again⟩ := r
    have h2 := hP.dispatch _ _ _ _ h1 hd
    cases again with
    | false =>
      refine ⟨fun σ' hf => ?_, fun e' hf => nomatch hf⟩
      cases hf; exact hP.next _ h2
    | true =>
      have h3 := hP.capture _ h2
      simp only
      cases hd2 : σ2.capture.dispatch name ch with
      | error e =>
        refine ⟨(fun σ' hf => nomatch hf), fun e' hf => ?_⟩
        cases hf; exact ⟨_, h3, ch, hd2⟩
      | ok r2 =>
        obtain ⟨σ3, b3⟩ := r2
        refine ⟨fun σ' hf => ?_, fun e' hf => nomatch hf⟩
        cases hf; exact hP.next _ (hP.dispatch _ _ _ _ h3 hd2)

theorem run_preserved {name : String} {P : LexSt → Prop} (hP : Preserved name P)
    (l : List Char) : ∀ {σ : LexSt}, P σ →
    (∀ σ', run name σ l = .ok σ' → P σ') ∧
    (∀ e, run name σ l = .error e → ∃ σ0, P σ0 ∧ ∃ ch, σ0.dispatch name ch = .error e) := by
  induction l with
  | nil =>
    intro σ h
    exact ⟨fun σ' hr => by cases hr; exact h, fun e hr => nomatch hr⟩
  | cons c l ih =>
    intro σ h
    obtain ⟨f1, f2⟩ := feed_preserved hP (ch := c) h
    cases hf : feed name σ c with
    | error e =>
      rw [run_cons_error _ hf]
      refine ⟨(fun σ' hr => nomatch hr), fun e' hr => ?_⟩
      cases hr; exact f2 e hf
    | ok σ1 =>
      rw [run_cons_ok _ hf]
      exact ih (f1 σ1 hf)

end Ckl.Lexer
