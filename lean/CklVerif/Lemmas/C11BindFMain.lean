/-
  C11 (binding part), frame logic (see C11BindFExt): the induction step for `eval` itself and
  the assembled induction — `allF`: every function of the evaluator only extends the state.
-/
import CklVerif.Lemmas.C11BindFMutual
namespace Ckl.C11B
open Ckl Ckl.C05

section
variable {ld : Loader} {fuel : Nat}

/-- the finally stage of a block, for any outcome of body and handlers -/
theorem fext_finally_stage {s0 s1 : State} {pos : Pos} {env : EnvId} {fin : List Node}
    (ihFin : ∀ s0 env ns, FTr s0 (evalFinally ld fuel env ns)) (h1 : FExt s0 s1) :
    FExt s0 (endState (evalFinally ld fuel env fin (ghostFin s1 pos))) :=
  (ihFin s0 env fin).run _ (h1.trans (fext_ghostFin s1 pos))

theorem step_eval (ih : AllF ld fuel) : ∀ s0 env n, FTr s0 (eval ld (fuel+1) env n) := by
  have ihEval := ih.eval; have ihAnd := ih.evalAnd; have ihOr := ih.evalOr; have ihIf := ih.evalIf
  have ihSeq := ih.evalSeq; have ihItems := ih.evalItems; have ihPairs := ih.evalPairs
  have ihBody := ih.evalBody; have ihFin := ih.evalFinally; have ihTry := ih.tryHandlers
  have ihInvoke := ih.invoke; have ihFor := ih.evalFor; have ihWhile := ih.whileLoop
  have ihCL := ih.comprLoop; have ihCP := ih.comprProduct; have ihCPar := ih.comprParallel
  have ihReq := ih.evalRequire
  intro s0 env n
  cases n with
  | lit v pos => cases v <;> simp only [Ckl.eval] <;> ftr_auto
  | block es ce ch fin tl pos =>
    simp only [Ckl.eval]
    refine ⟨fun s hs => ?_⟩
    have hB := (ihBody s0 env es (.bool true)).run _ (hs.trans (fext_ghostEnter s pos))
    have hT := fun v msg p t s' (h : FExt s0 s') => (ihTry s0 env ce ch v msg p t).run s' h
    have hF : ∀ s1, FExt s0 s1 → FExt s0 (endState (evalFinally ld fuel env fin (ghostFin s1 pos))) :=
      fun s1 h1 => fext_finally_stage ihFin h1
    revert hB
    cases evalBody ld fuel env es (.bool true) (ghostEnter s pos) with
    | ok v s1 =>
      intro hB
      dsimp only
      have hf := hF s1 hB; revert hf
      cases evalFinally ld fuel env fin (ghostFin s1 pos) <;> exact id
    | err v msg p t s1 =>
      intro hB
      dsimp only
      have ht := hT v msg p t s1 hB; revert ht
      cases tryHandlers ld fuel env ce ch v msg p t s1 with
      | ok hv s2 =>
        intro ht
        dsimp only
        have hf := hF s2 ht; revert hf
        cases evalFinally ld fuel env fin (ghostFin s2 pos) <;> exact id
      | err v' m' p' t' s2 =>
        intro ht
        dsimp only
        have hf := hF s2 ht; revert hf
        cases evalFinally ld fuel env fin (ghostFin s2 pos) <;> exact id
      | fail f s2 =>
        cases f with
        | oof => exact id
        | unsupported w => exact id
        | host k =>
          intro ht
          dsimp only
          have hf := hF s2 ht; revert hf
          cases evalFinally ld fuel env fin (ghostFin s2 pos) <;> exact id
        | syn e =>
          intro ht
          dsimp only
          have hf := hF s2 ht; revert hf
          cases evalFinally ld fuel env fin (ghostFin s2 pos) <;> exact id
    | fail f s1 =>
      cases f with
      | oof => exact id
      | unsupported w => exact id
      | host k =>
        intro hB
        dsimp only
        have hf := hF s1 hB; revert hf
        cases evalFinally ld fuel env fin (ghostFin s1 pos) <;> exact id
      | syn e =>
        intro hB
        dsimp only
        have hf := hF s1 hB; revert hf
        cases evalFinally ld fuel env fin (ghostFin s1 pos) <;> exact id
  | «for» ids e body what pos =>
    simp only [Ckl.eval]
    exact FTr.wrapForR (ihFor _ _ _ _ _ _ _)
      (fun s1 s => restoreVars env (hiddenVars s1 env ids) s)
      (fun s1 s => restoreVars env (hiddenVars s1 env ids) (ids.foldl (fun s x => s.remove env x) s))
      (fun s1 s => fext_restoreVars env _ s)
      (fun s1 s => (fext_foldl (fun s x => s.remove env x) (fun _ _ => fext_remove _ _ _) ids s).trans (fext_restoreVars env _ _))
  | lambda ps ds body pos =>
    simp only [Ckl.eval]
    exact ⟨fun s hs => hs.trans (fext_alloc s _)⟩
  | compr kind shape ve ke id1 l1 w1 id2 l2 w2 cond pos =>
    cases shape <;> simp only [Ckl.eval] <;> ftr_auto
  | slice e a b pos =>
    by_cases hb : b = Node.absent
    · subst hb; simp only [Ckl.eval]; ftr_auto
    · simp only [Ckl.eval]; ftr_auto
  | ret e pos =>
    by_cases hb : e = Node.absent
    · subst hb; simp only [Ckl.eval]; ftr_auto
    · simp only [Ckl.eval]; ftr_auto
  | deref e i d pos =>
    by_cases hb : d = Node.absent
    · subst hb; simp only [Ckl.eval]; ftr_auto
    · simp only [Ckl.eval]; ftr_auto
  | _ => simp only [Ckl.eval] <;> ftr_auto

end

/-- hypothesis on the unmodelled natives: whatever they do and however they end, they do not
    drop frames, re-parent frames, duplicate keys of a frame or shrink the heap -/
def NativeKeepsFrames (ld : Loader) : Prop :=
  ∀ name args s, FExt s (endState (ld.nativeSem name args s))

/-- every function of the evaluator only extends the state, for every fuel -/
theorem allF {ld : Loader} (hN : NativeKeepsFrames ld) : ∀ fuel, AllF ld fuel := by
  have hN' : ∀ s0 name args, FTr s0 (ld.nativeSem name args) :=
    fun s0 name args => FTr.of_post (hN name args) s0
  intro fuel
  induction fuel with
  | zero => exact allF_zero ld
  | succ k ih =>
    exact {
      eval := step_eval ih
      evalAnd := step_evalAnd ih
      evalOr := step_evalOr ih
      evalIf := step_evalIf ih
      evalSeq := step_evalSeq ih
      evalItems := step_evalItems ih
      evalPairs := step_evalPairs ih
      evalBody := step_evalBody ih
      evalFinally := step_evalFinally ih
      tryHandlers := step_tryHandlers ih
      invoke := step_invoke ih
      evalArgs := step_evalArgs ih
      callFn := step_callFn hN' ih
      bindParams := step_bindParams ih
      evalFor := step_evalFor ih
      forItems := step_forItems ih
      forListLive := step_forListLive ih
      forString := step_forString ih
      whileLoop := step_whileLoop ih
      comprStep := step_comprStep ih
      comprLoop := step_comprLoop ih
      comprProduct := step_comprProduct ih
      comprParallel := step_comprParallel ih
      nativeSorted := step_nativeSorted ih
      sortedOuter := step_sortedOuter ih
      sortedInner := step_sortedInner ih
      call1 := step_call1 ih
      call2 := step_call2 ih
      evalRequire := step_evalRequire ih
      loadModule := step_loadModule ih }

/-- `eval` only extends the state -/
theorem eval_fext {ld : Loader} (hN : NativeKeepsFrames ld) (fuel : Nat) (env : EnvId) (n : Node)
    (s : State) : FExt s (endState (eval ld fuel env n s)) :=
  ((allF hN fuel).eval s env n).run s (FExt.refl s)

theorem loadModule_fext {ld : Loader} (hN : NativeKeepsFrames ld) (fuel : Nat) (env : EnvId)
    (ident file : String) (pos : Pos) (s : State) :
    FExt s (endState (loadModule ld fuel env ident file pos s)) :=
  ((allF hN fuel).loadModule s env ident file pos).run s (FExt.refl s)

theorem default_nativeSem_keeps_frames : NativeKeepsFrames {} := fun _ _ s => FExt.refl s

theorem nativeKeepsFrames_of_abstains {ld : Loader}
    (h : ∀ name args s, ∃ w, ld.nativeSem name args s = .fail (.unsupported w) s) :
    NativeKeepsFrames ld := by
  intro name args s
  obtain ⟨w, hw⟩ := h name args s
  rw [hw]; exact FExt.refl s

end Ckl.C11B
