/-
  C15 helper lemmas: `find_last` on lists (`Ckl.Seq.findLastList`) returns the greatest
  index `≤ min(start, len-1)` whose element satisfies the equality test, else `-1`.
-/
import CklVerif.Model.Seq

namespace Ckl.C15

open Ckl.Seq

variable {α : Type}

/-- the effective clamp of `find_last(lst, item, start)` -/
def findLastListLim (l : List α) (start : Option Int) : Int :=
  min (start.getD ((l.length : Int) - 1)) ((l.length : Int) - 1)

/-- specification of the fold used by `findLastList` over `List.range m` -/
theorem findLastList_fold_spec (eq : α → α → Bool) (l : List α) (x : α) (m : Nat) :
    (((List.range m).foldl
        (fun (best : Int) (i : Nat) => match l[i]? with
          | some y => if eq y x then (i : Int) else best
          | none => best) (-1) = -1)
      ∧ ∀ q : Nat, q < m → ∀ y, l[q]? = some y → eq y x = false)
    ∨ (∃ p : Nat, p < m ∧
        (List.range m).foldl
          (fun (best : Int) (i : Nat) => match l[i]? with
            | some y => if eq y x then (i : Int) else best
            | none => best) (-1) = (p : Int)
        ∧ (∃ y, l[p]? = some y ∧ eq y x = true)
        ∧ ∀ q : Nat, p < q → q < m → ∀ y, l[q]? = some y → eq y x = false) := by
  induction m with
  | zero => left; simp
  | succ m ih =>
    rw [List.range_succ, List.foldl_append]
    simp only [List.foldl_cons, List.foldl_nil]
    cases hm : l[m]? with
    | none =>
      simp only []
      rcases ih with ⟨h1, h2⟩ | ⟨p, hp, h1, h2, h3⟩
      · left
        refine ⟨h1, ?_⟩
        intro q hq y hy
        by_cases hqm : q = m
        · subst hqm; rw [hm] at hy; cases hy
        · exact h2 q (by omega) y hy
      · right
        refine ⟨p, by omega, h1, h2, ?_⟩
        intro q hpq hq y hy
        by_cases hqm : q = m
        · subst hqm; rw [hm] at hy; cases hy
        · exact h3 q hpq (by omega) y hy
    | some z =>
      simp only []
      cases hz : eq z x with
      | true =>
        right
        refine ⟨m, by omega, by simp, ⟨z, hm, hz⟩, ?_⟩
        intro q h1 h2; omega
      | false =>
        simp only [Bool.false_eq_true, if_false]
        rcases ih with ⟨h1, h2⟩ | ⟨p, hp, h1, h2, h3⟩
        · left
          refine ⟨h1, ?_⟩
          intro q hq y hy
          by_cases hqm : q = m
          · subst hqm; rw [hm] at hy; cases hy; exact hz
          · exact h2 q (by omega) y hy
        · right
          refine ⟨p, by omega, h1, h2, ?_⟩
          intro q hpq hq y hy
          by_cases hqm : q = m
          · subst hqm; rw [hm] at hy; cases hy; exact hz
          · exact h3 q hpq (by omega) y hy

/-- master specification of `findLastList` -/
theorem findLastList_spec (eq : α → α → Bool) (l : List α) (x : α) (start : Option Int) :
    (findLastList eq l x start = -1
      ∧ ∀ q : Nat, (q : Int) ≤ findLastListLim l start → ∀ y, l[q]? = some y → eq y x = false)
    ∨ (∃ p : Nat, findLastList eq l x start = (p : Int)
        ∧ (p : Int) ≤ findLastListLim l start
        ∧ p < l.length
        ∧ (∃ y, l[p]? = some y ∧ eq y x = true)
        ∧ ∀ q : Nat, p < q → (q : Int) ≤ findLastListLim l start →
            ∀ y, l[q]? = some y → eq y x = false) := by
  unfold findLastList
  simp only []
  have hlim : (if start.getD ((l.length : Int) - 1) ≥ (l.length : Int) then (l.length : Int) - 1
      else start.getD ((l.length : Int) - 1)) = findLastListLim l start := by
    unfold findLastListLim; split <;> omega
  rw [hlim]
  generalize findLastListLim l start = lim
  split
  · left
    refine ⟨rfl, ?_⟩
    intro q hq; omega
  · rename_i hneg
    rcases findLastList_fold_spec eq l x (lim.toNat + 1) with ⟨h1, h2⟩ | ⟨p, hp, h1, h2, h3⟩
    · left
      refine ⟨h1, ?_⟩
      intro q hq
      exact h2 q (by omega)
    · right
      refine ⟨p, h1, by omega, ?_, h2, ?_⟩
      · obtain ⟨y, hy, _⟩ := h2
        have := List.getElem?_eq_some_iff.mp hy
        exact this.1
      · intro q hpq hq
        exact h3 q hpq (by omega)

/-- 1. `p` is the result iff it is the greatest index `≤ lim` whose element satisfies `eq` -/
theorem findLastList_eq_iff (eq : α → α → Bool) (l : List α) (x : α) (start : Option Int)
    (p : Nat) :
    findLastList eq l x start = (p : Int) ↔
      (∃ y, l[p]? = some y ∧ eq y x = true) ∧ (p : Int) ≤ findLastListLim l start ∧
      ∀ q : Nat, p < q → (q : Int) ≤ findLastListLim l start →
        ∀ y, l[q]? = some y → eq y x = false := by
  rcases findLastList_spec eq l x start with ⟨h1, h2⟩ | ⟨p', h1, hle, _, hex, hgt⟩
  · constructor
    · intro h; omega
    · rintro ⟨⟨y, hy, hyx⟩, hp, _⟩
      have := h2 p hp y hy
      rw [hyx] at this; cases this
  · constructor
    · intro h
      have : p' = p := by omega
      subst this
      exact ⟨hex, hle, hgt⟩
    · rintro ⟨⟨y, hy, hyx⟩, hp, hgt'⟩
      rw [h1]
      obtain ⟨y', hy', hyx'⟩ := hex
      rcases Nat.lt_trichotomy p p' with hlt | heq | hlt
      · have := hgt' p' hlt hle y' hy'
        rw [hyx'] at this; cases this
      · rw [heq]
      · have := hgt p hlt hp y hy
        rw [hyx] at this; cases this

example : findLastList (fun a b => a == b) [1, 2, 1, 3] 1 none = ((2 : Nat) : Int) := by decide
example : findLastList (fun a b => a == b) [1, 2, 1, 3] 1 (some 1) = ((0 : Nat) : Int) := by decide

/-- 2. the result is `-1` iff no index `≤ lim` has an element satisfying `eq` -/
theorem findLastList_eq_neg_one_iff (eq : α → α → Bool) (l : List α) (x : α)
    (start : Option Int) :
    findLastList eq l x start = -1 ↔
      ∀ q : Nat, (q : Int) ≤ findLastListLim l start → ∀ y, l[q]? = some y → eq y x = false := by
  rcases findLastList_spec eq l x start with ⟨h1, h2⟩ | ⟨p', h1, hle, _, hex, _⟩
  · exact ⟨fun _ => h2, fun _ => h1⟩
  · constructor
    · intro h; omega
    · intro h
      obtain ⟨y, hy, hyx⟩ := hex
      have := h p' hle y hy
      rw [hyx] at this; cases this

example : findLastList (fun a b => a == b) [1, 2, 1, 3] 3 (some 2) = -1 := by decide

/-- 3. the result is `-1` or a valid index not above the clamp -/
theorem findLastList_range (eq : α → α → Bool) (l : List α) (x : α) (start : Option Int) :
    findLastList eq l x start = -1 ∨
      (0 ≤ findLastList eq l x start ∧ findLastList eq l x start < l.length ∧
        findLastList eq l x start ≤ findLastListLim l start) := by
  rcases findLastList_spec eq l x start with ⟨h1, _⟩ | ⟨p', h1, hle, hlt, _, _⟩
  · left; exact h1
  · right; rw [h1]; omega

/-- 4a. a negative start finds nothing -/
theorem findLastList_neg_start (eq : α → α → Bool) (l : List α) (x : α) {st : Int}
    (h : st < 0) : findLastList eq l x (some st) = -1 := by
  rw [findLastList_eq_neg_one_iff]
  intro q hq
  unfold findLastListLim at hq
  simp only [Option.getD_some] at hq
  omega

example : findLastList (fun a b => a == b) [1, 2, 1, 3] 1 (some (-1)) = -1 := by decide

/-- 4b. nothing is found in the empty list -/
theorem findLastList_nil (eq : α → α → Bool) (x : α) (start : Option Int) :
    findLastList eq [] x start = -1 := by
  rw [findLastList_eq_neg_one_iff]
  intro q _ y hy
  simp at hy

end Ckl.C15
