import CklVerif.Proofs.C04ComprFor
import CklVerif.Proofs.C04ComprEx

/-! C04Compr — audit: one `#print axioms` line per property theorem -/
#print axioms Ckl.C04Compr.compr_filter_map
#print axioms Ckl.C04Compr.list_compr_filter_map
#print axioms Ckl.C04Compr.compr_final_state
#print axioms Ckl.C04Compr.set_compr_filter_map
#print axioms Ckl.C04Compr.set_compr_mkSet
#print axioms Ckl.C04Compr.map_compr_filter_map
#print axioms Ckl.C04Compr.map_compr_mkMap
#print axioms Ckl.C04Compr.comprStep_order
#print axioms Ckl.C04Compr.comprStep_order_cases
#print axioms Ckl.C04Compr.for_append_filter_map
#print axioms Ckl.C04Compr.compr_equals_loop_list
#print axioms Ckl.C04Compr.compr_equals_loop_instance
