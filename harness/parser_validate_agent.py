"""Validate the Lean parser model (driver command parse/parsepos) against the real ckl parser.

usage: timeout 3000 /venv/bin/python /tmp/agents/E/validate.py [--quick]
"""
import ast
import glob
import os
import subprocess
import sys
import time

sys.path.insert(0, "/tmp/agents/E/verif")
from harness import core, astdump, proto  # noqa

core.use_repo()
from ckl.lexer import Lexer  # noqa
from ckl.parser import parse  # noqa
from ckl.errors import CklSyntaxError  # noqa

sys.setrecursionlimit(10000)
DRIVER = "/tmp/agents/E/verif/lean/.lake/build/bin/driver"
WORK = "/tmp/agents/E/work"
os.makedirs(WORK, exist_ok=True)
QUICK = "--quick" in sys.argv
MAXPOS = 40


def lex(src):
    try:
        with core.time_limit(10):
            return Lexer(src, "f").scan().tokens
    except CklSyntaxError:
        return None
    except core.Timeout:
        return None


def real(tokens):
    lx = Lexer("", "f")
    lx.tokens = list(tokens)
    lx.nextToken = 0
    try:
        with core.time_limit(20):
            n = parse(lx)
            return ("ast", "(ast " + astdump.dump(n, True) + ")")
    except CklSyntaxError as e:
        return ("syn", str(e.msg), e.pos.line if e.pos else 0)
    except core.Timeout:
        return ("timeout",)
    except RecursionError:
        return ("host", "RecursionError")
    except Exception as e:  # noqa
        return ("host", type(e).__name__)


HAND = r"""
1
-1
- 1
-1.5
- x
+x
-(1)
1 + 2 * 3 - 4 / 5 % 6
a or b or c
a and b and c
a or b and not c
not a == b
not not a
a < b <= c
a == b != c <> d
a > b >= c
a is b
a is not b
a is not
a is
a is not in b
a is in b
a in b
a not in b
a not b
x is empty
x is not empty
x is zero
x is not zero
x is negative
x is not negative
x is numerical
x is not numerical
x is numerical min_len 2
x is numerical max_len 5
x is numerical min_len 2 max_len 5
x is numerical exact_len 5
x is numerical min_len 1 max_len 2 exact_len 3
x is not numerical min_len 2 max_len 5
x is alphanumerical
x is not alphanumerical
x is alphanumerical min_len 2 max_len 5
x is alphanumerical exact_len 3
x is date
x is not date
x is date with hour
x is not date with hour
x is date with
x is time
x is not time
x is string
x is int
x is decimal
x is boolean
x is pattern
x is None
x is func
x is input
x is output
x is list
x is set
x is map
x is object
x is node
x is not string
x is not int
x is not decimal
x is not boolean
x is not pattern
x is not None
x is not func
x is not input
x is not output
x is not list
x is not set
x is not map
x is not object
x is not node
x is foo
x is not foo
x is 5
x is not 5
x is not y is z
x starts with 'a'
x starts not with 'a'
x ends with 'a'
x ends not with 'a'
x contains 'a'
x contains not 'a'
x matches //a+//
x matches not //a+//
x starts 'a'
x in [1, 2] and y not in <<3>>
x = 1
x += 1
x -= 1
x *= 2
x /= 2
x %= 2
x = y = 3
checkerlang_x = 1
checkerlang_x += 1
[a, b] = [1, 2]
[a, b,] = [1, 2]
[] = x
[a, 1] = x
[a, checkerlang_b] = x
[a] !> f() = 3
[x for x in y] = 3
[a][0] = 3
def x = 1
def f(x) x + 1
def f(x, y = 2, z...) do x; end
def f(a..., b) a
def f(a...) a
def [a, b] = [1, 2]
def [a, b,] = x
def [a b] = x
def [a, if] = x
def [a, 1] = x
def if = 1
def 1 = 1
def class = 3
def class X do end
def class X do def a = 1; def f(self) self->a end
def class X do def a = 1 def f(self) self->a; end
def class X do x end
def class X do def
def class X
def class if do end
def class 1
"doc" def f(x) x
"doc" def class X do def a = 1 end
"doc" def [a, b] = c
"doc" x
'doc' def
for x in xs do print(x); end
for x in xs print(x)
for [a, b] in xs do a end
for [a, b,] in xs do a end
for [a if] in xs a
for if in xs a
for x in keys m do x end
for x in values m do x end
for x in entries m do x end
for x of xs do x end
while x < 3 do x += 1; end
while x do end
while x x
if a then b
if a then b else c
if a then b elif c then d else e
if a then b if c then d
if a then b if c then d else e
if a then do b; end elif c then do d; end else do e; end
if a b
if a then
if a then b else
do end
do a end
do a; end
do a; b end
do a; b; end
do a b end
do a; catch e do b; end end
do a; catch all b end
do a; catch all b; end
do a; catch all b; catch e c; end
do a; finally b; end
do a; finally b end
do a; finally end
do a; catch x y finally z; w end
do a; catch x do y; end; finally z; w; end
do catch all x end
do finally x end
do do a end end
do do a end; b end
do a; do b end end
do a;
do a; catch
do a; finally
do a; finally b c end
(a; b)
(a; b;)
(do a end)
(do a end; b)
()
(a
(a))
a; b; c
a; b;
a;
a b
;
do a end; b
do a end b
return
return;
return 1
return; 2
1; return 2
do return 3 end
do 1; return 3; end
fn(x) return x
fn(x) do return x; end
fn(x) do 1; return x; end
fn(x) do return; end
fn(x) do 1; return; end
fn() return;
break
continue
error 'x'
error
fn(x) x
fn(x, y) x + y
fn(x = 1) x
fn(x = 1, y) x
fn(x,) x
fn(x y) x
fn(if) x
fn(1) x
fn x
fn(
fn(x
fn(x)
fn(x,
fn(x =
f()
f(1)
f(1, 2)
f(1, 2,)
f(a = 1)
f(a = 1, 2)
f(1 2)
f(
f(a
f(a =
f(a,
f(a =
f(a == 1)
f(x)(y)[z]->w
f(x)->m(y)
a->b
a->b->c
a->b = 1
a->b += 1
a->b -= 1
a->b *= 1
a->b /= 1
a->b %= 1
a->b(1)
a->b(x = 1, 2)
a->b(
a->b()[1]
a->
a->1
a->b = 1 [2]
a[1]
a[1, 2]
a[1, 2] = 3
a[1] = 2
a[1] += 2
a[1] -= 2
a[1] *= 2
a[1] /= 2
a[1] %= 2
m[k, d] += v
m[k, d] -= v
m[k, d] *= v
m[k, d] /= v
m[k, d] %= v
m[k, d] = v
m[k, d,]
a[1 to 2]
a[1 to *]
a[1 to]
a[1 to 2
a[to 2]
a[1
a[1,
a[1]]
a[1][2]
a[1][2] = 3
a[1] = 2 [3]
'abc'[1]
'abc'->len()
'abc'(1)
'abc' !> f()
1 !> f()
1(2)
1[2]
1.5 !> f() !> g(1)
TRUE !> f()
//a// !> f()
x !> f()
x !> f(1, a = 2)
x !> f
x !> f(
x !> f(1
x !> 1
x !> (fn(y) y)()
x !> (fn(y) y + 1)(2)
x !> (fn(y) y
x !> (fn(y) y)
x !> (f)()
x !> m->f()
x !> m->n->f(1)
x !> m->
x !> m->1()
x !> f() !> g()
x !> f()[1]
x !> f()->a
x !> f()(1)
'a' !> f()(1)
[1, 2, 3]
[1, 2, 3,]
[1,, 2]
[,]
[1
[1,
[1 2]
[]
[][1]
[] !> f()
[](1)
[1][0]
[1]->x
[1] !> f()
[...a, 1, ...[2], ...<<<1 => 2>>>]
[...1]
[...
...a
f(...a)
f(...a, b = ...c)
... [1] [2]
... <<<a => 1>>> [2]
[x * 2 for x in xs]
[x * 2 for x in xs if x > 1]
[x for x in keys m]
[x for x in values m]
[x for x in entries m]
[x + y for x in xs for y in ys]
[x + y for x in xs for y in ys if x < y]
[x + y for x in keys a for y in values b]
[x + y for x in xs also for y in ys]
[x + y for x in xs also for y in ys if x < y]
[x + y for x in entries a also for y in keys b]
[x for x in xs][0]
[x for x in xs] !> f()
[x for x in xs also y]
[x for x in xs for]
[x for 1 in xs]
[x for x xs]
[x for x in xs if]
[x for x in xs if y
[x for x in xs for y in ys for z in zs]
[x for x in a or b]
[x for x in if a then b else c]
<<1, 2, 3>>
<<1, 2, 3,>>
<<1>>
<<1,>>
<<>>
<<>>->x
<<1 2>>
<<1
<<1,
<<x for x in xs>>
<<x for x in xs if x>>
<<x for x in keys xs>>
<<x + y for x in xs for y in ys>>
<<x + y for x in xs for y in ys if x>>
<<x + y for x in xs also for y in ys>>
<<x + y for x in xs also for y in values ys if x>>
<<x for x in xs>> !> f()
<<x for x in xs]
<<<>>>
<<<a => 1>>>
<<<a => 1, 'b' => 2, 3 => 4, c => 5>>>
<<<a => 1,>>>
<<<a => 1 b => 2>>>
<<<a>>>
<<<a =>
<<<a => 1
<<<a => 1,
<<<a => 1, b>>>
<<<a => b for a in xs>>>
<<<a => b for a in xs if a>>>
<<<a => b for a in keys xs>>>
<<<k => v for k in xs for v in ys>>>
<<<a => 1>>>[a]
<<<a => 1>>>->a
<<<(a) => 1, a->b => 2>>>
<* *>
<*a = 1*>
<*a = 1, b = 2*>
<*a = 1, b = 2,*>
<*a = 1 b = 2*>
<*f(self) self->a, a = 1*>
<*f(self) do return self; end*>
<*a*>
<*a =
<*a = 1
<*1 = 2*>
<*a = 1*>->a
<*a = 1*> !> f()
require Math
require Math unqualified
require Math as M
require Math import [sin]
require Math import [sin, cos]
require Math import [sin as s, cos]
require Math import [sin as s, cos as c,]
require Math import [a, a as b, c, a]
require Math import []
require Math import [sin cos]
require Math import [sin as]
require Math import [1]
require Math import
require Math import [
require Math as
require Math as 1
require "lib/x.ckl"
require a->b
require if a then b else c unqualified
require
require Math unqualified as M
1_000
0x1F
0b101
007
1.
1.50
0.1
1.0000000000000000000000000000000000001
123456789012345678901234567890.5
0.000000000000000000000000000000000000000000000000000000001
4.9406564584124654e-324
179769313486231570000000000000000000000000000000000000000000000000000000000000000000000000000000000000000000000000000000000000000000000000000000000000000000000000000000000000000000000000000000000000000000000000000000000000000000000000000000000000000000000000000000000000000000000000000000000000000000000000000.0
-0.0
- 0.0
2.5 * -3.5
9007199254740993.0
0.30000000000000004
5e3
TRUE
FALSE
'a\nb'
"it's"
//[a-z]+//
//a//
x; # comment
x # comment
# only comment
if
then
else x
end
)
]
>>
,
=
== 1
1 ==
1 == == 2
1 +
1 + + 2
1 + - 2
1 - -2
1 - - 2
1 * / 2
--1
-+1
+-1
- -1
-x is zero
-1 is zero
- 1 !> f()
-1.5[2]
(1)(2)[3]->a !> f()
((((1))))
f(g(h(1)))
a.b
a ? b
a -> b
x is not empty or y
not x is empty
x is empty is TRUE
x in y in z
x is in y is in z
def f(x) if x then 1 else 2; f(1)
def f() do def g() 1; g() end
for i in range(10) do if i == 5 then break; if i == 2 then continue; i; end
do x = 1; while x < 10 do x *= 2; end; x; end
def o = <* n = 1, inc(self) self->n += 1 *>; o->inc()
xs !> map(fn(x) x * 2) !> filter(fn(x) x > 2) !> sum()
s !> str->upper()
def class P do def x = 0; def move(self, dx) do self->x += dx; return self; end; end; P->move(1)
"""


def hand_snippets():
    out = [s for s in HAND.split("\n") if s.strip() != ""]
    out.append("")
    out.append("   ")
    # int literal limit of CPython
    out.append("9" * 4300)
    out.append("9" * 4301)
    out.append("0" * 4301)
    out.append("-" + "1" * 4301)
    out.append("1" * 400 + ".5")
    out.append("0." + "0" * 400 + "1")
    return out


def test_strings():
    out = []
    for f in ["test_parser.py", "test_interpreter.py", "test_infotests.py"]:
        tree = ast.parse(open(os.environ.get("CKL_REPO", "/repo") + "/tests/" + f, encoding="utf-8").read())
        for node in ast.walk(tree):
            if isinstance(node, ast.Call):
                for a in list(node.args) + [k.value for k in node.keywords]:
                    if isinstance(a, ast.Constant) and isinstance(a.value, str):
                        out.append(a.value)
    return out


def variants(tokens, full):
    """token-prefixes and single-token deletions (positions <= MAXPOS)"""
    out = []
    n = len(tokens)
    for i in range(0, min(n, MAXPOS) + 1):
        if i < n:
            out.append(tokens[:i])
    for i in range(0, min(n, MAXPOS)):
        out.append(tokens[:i] + tokens[i + 1:])
    if full and n > MAXPOS:
        # also some deletions / truncations deep inside big files
        step = max(1, n // 25)
        for i in range(MAXPOS, n, step):
            out.append(tokens[:i])
            out.append(tokens[:i] + tokens[i + 1:])
    return out


def main():
    t0 = time.time()
    corpus = []   # (label, token list)
    counts = {}

    def add(label, toks):
        corpus.append((label, toks))
        counts[label] = counts.get(label, 0) + 1

    nolex = 0
    mods = sorted(glob.glob(os.environ.get("CKL_REPO", "/repo") + "/src/ckl/modules/*.ckl"))
    base = []
    for m in mods:
        toks = lex(open(m, encoding="utf-8").read())
        assert toks is not None, m
        base.append(("module", toks, True))
    strings = test_strings()
    uniq = list(dict.fromkeys(strings))
    print(f"test-suite strings: {len(strings)} ({len(uniq)} distinct)", flush=True)
    if QUICK:
        uniq = uniq[::10]
    for s in uniq:
        toks = lex(s)
        if toks is None:
            nolex += 1
            continue
        base.append(("test", toks, False))
    for s in hand_snippets():
        toks = lex(s)
        if toks is None:
            nolex += 1
            continue
        base.append(("hand", toks, False))
    print(f"sources that do not scan (skipped): {nolex}", flush=True)
    # random token windows of the modules and random token-level mutations of everything
    import random
    rnd = random.Random(20260929)
    modtoks = [t for (lab, t, _) in base if lab == "module"]
    vocab = [t for ts in modtoks for t in ts[:400]]
    nwin = 300 if QUICK else 6000
    for _ in range(nwin):
        ts = rnd.choice(modtoks)
        a = rnd.randrange(len(ts))
        add("window", ts[a:a + rnd.randint(1, 60)])
    small = [t for (lab, t, _) in base if lab != "module" and 0 < len(t) <= 80]
    nmut = 300 if QUICK else 8000
    for _ in range(nmut):
        ts = list(rnd.choice(small))
        for _ in range(rnd.randint(1, 2)):
            k = rnd.randrange(4)
            i = rnd.randrange(len(ts)) if ts else 0
            if k == 0 and len(ts) > 1:
                j = min(i + 1, len(ts) - 1)
                ts[i], ts[j] = ts[j], ts[i]
            elif k == 1 and ts:
                ts.insert(i, ts[i])
            elif k == 2:
                ts.insert(i, rnd.choice(vocab))
            elif ts:
                ts[i] = rnd.choice(vocab)
        add("mutant", ts)
    # tokens the scanner cannot produce: same value, another type
    from ckl.lexer import Token
    types = ["identifier", "keyword", "operator", "interpunction", "string", "boolean"]
    for _ in range(300 if QUICK else 8000):
        ts = list(rnd.choice(small))
        for _ in range(rnd.randint(1, 3)):
            i = rnd.randrange(len(ts))
            ts[i] = Token(ts[i].value, rnd.choice(types), ts[i].pos)
        add("retyped", ts)
    seen = set()
    for label, toks, full in base:
        add(label, toks)
        for v in variants(toks, full):
            add(label + "-variant", v)
    # de-duplicate
    reqs = []
    for label, toks in corpus:
        line = "(parsepos" + astdump.dump_tokens(toks) + ")"
        if line in seen:
            continue
        seen.add(line)
        reqs.append((label, toks, line))
    print("corpus:", counts, "distinct requests:", len(reqs), flush=True)

    reqfile = os.path.join(WORK, "req.txt")
    respfile = os.path.join(WORK, "resp.txt")
    with open(reqfile, "w") as f:
        for _, _, line in reqs:
            f.write(line + "\n")
        # the position-free command on the base corpus
        for label, toks, _ in base:
            f.write("(parse" + astdump.dump_tokens(toks) + ")\n")
    t1 = time.time()
    with open(reqfile) as fin, open(respfile, "w") as fout:
        subprocess.run([DRIVER], stdin=fin, stdout=fout, check=True, timeout=3000)
    print(f"driver: {time.time() - t1:.1f}s", flush=True)
    resp = open(respfile).read().split("\n")
    assert len(resp) >= len(reqs) + len(base), (len(resp), len(reqs), len(base))

    stats = {"ast": 0, "syn": 0, "syn-eof": 0, "host": 0, "skipped": 0, "msgdiff": 0}
    diffs = []
    msgdiffs = []
    for k, (label, toks, line) in enumerate(reqs):
        if k % 20000 == 0:
            print(f"  compared {k}/{len(reqs)}  diffs={len(diffs)}", flush=True)
        r = real(toks)
        mine = resp[k]
        if r[0] == "ast":
            stats["ast"] += 1
            if mine != r[1]:
                diffs.append((label, line, r[1], mine))
        elif r[0] == "syn":
            stats["syn"] += 1
            eof = r[1].startswith("Unexpected end of input")
            if eof:
                stats["syn-eof"] += 1
            parts = mine[1:-1].split(" ")
            ok = parts[0] == "syn" and len(parts) == 4 and parts[2] == str(r[2]) and parts[3] == ("T" if eof else "F")
            if not ok:
                diffs.append((label, line, repr(r), mine))
            else:
                mymsg = proto.dec_str(parts[1][2:])
                if mymsg != r[1]:
                    stats["msgdiff"] += 1
                    msgdiffs.append((r[1], mymsg))
        elif r[0] == "host" and r[1] == "AttributeError":
            stats["host"] += 1
            parts = mine[1:-1].split(" ")
            ok = parts[0] == "syn" and proto.dec_str(parts[1][2:]).startswith("HOST AttributeError")
            if not ok:
                diffs.append((label, line, repr(r), mine))
        elif r == ("host", "NotData") and mine.startswith("(syn s:" + proto.enc_str("Invalid decimal literal")):
            stats["inf-gap"] = stats.get("inf-gap", 0) + 1      # float() overflowed to inf: known modelling gap
        else:
            stats["skipped"] += 1
            print("  skipped:", r, label, len(toks), flush=True)
    # position-free command
    nopos_bad = 0
    for j, (label, toks, _) in enumerate(base):
        mine = resp[len(reqs) + j]
        lx = Lexer("", "f")
        lx.tokens = list(toks)
        lx.nextToken = 0
        try:
            with core.time_limit(20):
                want = "(ast " + astdump.dump(parse(lx), False) + ")"
        except Exception:  # noqa
            continue
        if mine != want:
            nopos_bad += 1
            diffs.append((label + "-nopos", "", want, mine))
    print("stats:", stats, "nopos mismatches:", nopos_bad)
    kinds = {}
    for a, b in msgdiffs:
        key = (a[:40], b[:40])
        kinds[key] = kinds.get(key, 0) + 1
    for key, n in sorted(kinds.items(), key=lambda kv: -kv[1])[:20]:
        print("  message differs:", n, key)
    print(f"DIFFERENCES: {len(diffs)}   (total time {time.time() - t0:.0f}s)")
    with open(os.path.join(WORK, "diffs.txt"), "w") as f:
        for label, line, want, got in diffs:
            f.write(f"[{label}]\nREQ  {line[:3000]}\nREAL {want[:3000]}\nMINE {got[:3000]}\n\n")
    for label, line, want, got in diffs[:15]:
        print(f"[{label}]\nREQ  {line[:600]}\nREAL {want[:1200]}\nMINE {got[:1200]}\n")


main()
