/-
  C14 / C01 — the scanner model's character classes, keyword list and state graph are the ones the
  source uses.  `Gen/SyntaxTable.lean` is REGENERATED from `Lexer.scan` of /repo/src/ckl/lexer.py on every
  run (string constants of the `ch in "…"` tests and the `state = N` assignments, per `state == N` branch);
  the theorems below compare it with the constants of `Model/Lexer.lean`.  An edit to a terminator set, to a
  digit class, to the keyword list or to a state transition of the source makes one of them fail.
  Character classes are compared as SETS (order and repetition inside the string constant are irrelevant).
-/
import CklVerif.Gen.SyntaxTable
import CklVerif.Model.Lexer
namespace Ckl.C14G
open Ckl.Gen Ckl.Lexer

/-- same characters, in any order -/
def sameSet (a b : List Char) : Bool := a.all (· ∈ b) && b.all (· ∈ a)

def branch (n : Nat) : Option LexBranch := lexBranches.find? (·.state = n)

def setsOf (n : Nat) : List (List Char) := ((branch n).map (·.sets)).getD []
def targetsOf (n : Nat) : List Nat := ((branch n).map (·.targets)).getD []
def eqsOf (n : Nat) : List (List Char) := ((branch n).map (·.eqs)).getD []

/-- the keyword list of the source is the model's (same words) -/
theorem keywords_agree : lexKeywords.all (· ∈ keywords) = true ∧ keywords.all (· ∈ lexKeywords) = true := by
  decide +kernel

/-- every branch of the source's state machine is a state of the model, and vice versa -/
theorem states_agree :
    lexBranches.map (·.state) = [0, 1, 2, 3, 4, 5, 6, 7, 8, 9, 10, 21, 31, 41, 70, 71, 72, 311, 312, 411, 412] := by
  decide +kernel

/-- state 1 (words): the terminator class is `wordEnd` -/
theorem word_terminators_agree : (setsOf 1).map (sameSet · wordEnd) = [true] := by decide +kernel

/-- states 7, 71, 72, 8 (decimal, hex, binary ints and decimals): in each, the continuation class is the model's
    digit class plus `_`, and the terminator class is `numEnd` — the same one in all four twin states -/
theorem number_classes_agree :
    (setsOf 7).map (fun s => (sameSet s ('_' :: digits), sameSet s numEnd)) = [(true, false), (false, true)] ∧
    (setsOf 71).map (fun s => (sameSet s ('_' :: hexDigits), sameSet s numEnd)) = [(true, false), (false, true)] ∧
    (setsOf 72).map (fun s => (sameSet s ['0', '1', '_'], sameSet s numEnd)) = [(true, false), (false, true)] ∧
    (setsOf 8).map (fun s => (sameSet s ('_' :: digits), sameSet s numEnd)) = [(true, false), (false, true)] := by
  decide +kernel

/-- state 0: the classes that start an operator, a bracket, a comparison and a number -/
theorem start_classes_agree :
    (setsOf 0).map (fun s => (sameSet s ['+', '-', '*', '%'], sameSet s ['(', ')', '[', ']', ',', ';'],
      sameSet s ['<', '>', '=', '!'], sameSet s digits)) =
    [(true, false, false, false), (false, true, false, false), (false, false, true, false), (false, false, false, true)] := by
  decide +kernel

/-- the state graph: the states each branch can move to, in source order (the model's `step` has exactly these
    transitions: `Model/Lexer.lean`, one function per state) -/
theorem transitions_agree :
    lexBranches.map (fun b => (b.state, b.targets)) =
    [(0, [9, 10, 5, 2, 3, 4, 70, 7, 1]), (1, [0, 0]), (2, [0, 0, 0, 21, 21, 0, 0, 0]), (3, [0, 31]), (4, [0, 41]),
     (5, [6, 0, 0]), (6, [0]), (7, [8, 0, 1]), (8, [0, 1]), (9, [0]), (10, [0, 0, 0, 0]), (21, [0, 0, 0]),
     (31, [3, 3, 3, 311, 3]), (41, [4, 4, 4, 411, 4]), (70, [71, 72, 7]), (71, [0, 1]), (72, [0, 1]),
     (311, [312]), (312, [3]), (411, [412]), (412, [4])] := by
  decide +kernel

/-- the twin string states use the same escape letters, and each returns to its own quote state -/
theorem string_twins_agree :
    eqsOf 31 = eqsOf 41 ∧ eqsOf 31 = [['n'], ['r'], ['t'], ['x']] ∧
    (targetsOf 31).map (fun t => if t = 3 then 4 else if t = 311 then 411 else t) = targetsOf 41 ∧
    targetsOf 312 = [3] ∧ targetsOf 412 = [4] ∧ eqsOf 3 = [['"'], ['\\']] ∧ eqsOf 4 = [['\''], ['\\']] := by
  decide +kernel

/-- the single-character tests of the remaining states (comment end, radix prefixes, decimal point) -/
theorem char_tests_agree :
    eqsOf 9 = [['\n']] ∧ eqsOf 70 = [['x'], ['b']] ∧ eqsOf 7 = [['.']] ∧ eqsOf 8 = [] ∧
    eqsOf 0 = [['#'], ['/'], ['"'], ['\''], ['0']] := by
  decide +kernel

end Ckl.C14G
