/-
  C10 (sessions): the helper programs of the evaluator (everything that does not evaluate nodes)
  lose nothing (`KTr`, see C10SessLogic).
-/
import CklVerif.Lemmas.C10SessLogic
namespace Ckl.C10S
open Ckl Ckl.C05 Ckl.C03

variable {e : EnvId} {X : String → Prop} {s0 : State}


/-! ### EvalBase -/

theorem KTr.bindNamed (sp : ArgSpec) (pos : Pos) (ns : List (Option String)) (vs : List RVal)
    (args : List (String × RVal)) : KTr e X s0 (bindNamed sp pos ns vs args) := by
  induction ns generalizing vs args with
  | nil => unfold Ckl.bindNamed; k_auto
  | cons n ns ih =>
    cases vs with
    | nil => unfold Ckl.bindNamed; k_auto
    | cons v vs => unfold Ckl.bindNamed; k_auto
macro_rules | `(tactic| k_lemma) => `(tactic| exact KTr.bindNamed _ _ _ _ _)

theorem KTr.bindPositional (sp : ArgSpec) (pos : Pos) (ns : List (Option String)) (vs : List RVal)
    (kw : Bool) (args : List (String × RVal)) (rest : List RVal) :
    KTr e X s0 (bindPositional sp pos ns vs kw args rest) := by
  induction ns generalizing vs kw args rest with
  | nil => unfold Ckl.bindPositional; k_auto
  | cons n ns ih =>
    cases vs with
    | nil => unfold Ckl.bindPositional; k_auto
    | cons v vs => unfold Ckl.bindPositional; k_auto
macro_rules | `(tactic| k_lemma) => `(tactic| exact KTr.bindPositional _ _ _ _ _ _ _)

theorem KTr.setArgs (ps : List String) (ns : List (Option String)) (vs : List RVal) (pos : Pos) :
    KTr e X s0 (setArgs ps ns vs pos) := by
  unfold Ckl.setArgs; k_auto
macro_rules | `(tactic| k_lemma) => `(tactic| exact KTr.setArgs _ _ _ _)

theorem KTr.argGet (args : List (String × RVal)) (n : String) (pos : Pos) : KTr e X s0 (argGet args n pos) := by
  unfold Ckl.argGet; k_auto
macro_rules | `(tactic| k_lemma) => `(tactic| exact KTr.argGet _ _ _)

theorem KTr.getIndex (v : RVal) (pos : Pos) : KTr e X s0 (getIndex v pos) := by
  unfold Ckl.getIndex; k_auto
macro_rules | `(tactic| k_lemma) => `(tactic| exact KTr.getIndex _ _)

theorem KTr.asStringM (v : RVal) (pos : Pos) : KTr e X s0 (asStringM v pos) := by
  unfold Ckl.asStringM; k_auto
macro_rules | `(tactic| k_lemma) => `(tactic| exact KTr.asStringM _ _)


/-! ### Natives.lean helpers -/

theorem KTr.floatResult (x : Float) (pos : Pos) (w : String) : KTr e X s0 (floatResult x pos w) := by
  unfold Ckl.floatResult; k_auto
macro_rules | `(tactic| k_lemma) => `(tactic| exact KTr.floatResult _ _ _)

theorem KTr.listItems (v : RVal) : KTr e X s0 (listItems v) := by
  unfold Ckl.listItems; k_auto
macro_rules | `(tactic| k_lemma) => `(tactic| exact KTr.listItems _)

theorem KTr.collAsList (c : Cell) : KTr e X s0 (collAsList c) := by
  unfold Ckl.collAsList; k_auto
macro_rules | `(tactic| k_lemma) => `(tactic| exact KTr.collAsList _)

theorem KTr.addSet (xs : List RVal) : KTr e X s0 (addSet xs) := by
  unfold Ckl.addSet; k_auto
macro_rules | `(tactic| k_lemma) => `(tactic| exact KTr.addSet _)

theorem KTr.cmpLt (a b : RVal) : KTr e X s0 (cmpLt a b) := by
  unfold Ckl.cmpLt; k_auto
macro_rules | `(tactic| k_lemma) => `(tactic| exact KTr.cmpLt _ _)

theorem KTr.cmpGt (a b : RVal) : KTr e X s0 (cmpGt a b) := by
  unfold Ckl.cmpGt; k_auto
macro_rules | `(tactic| k_lemma) => `(tactic| exact KTr.cmpGt _ _)

theorem KTr.asListArg (v : RVal) (pos : Pos) : KTr e X s0 (asListArg v pos) := by
  unfold Ckl.asListArg; k_auto
macro_rules | `(tactic| k_lemma) => `(tactic| exact KTr.asListArg _ _)

theorem KTr.asSetArg (v : RVal) (pos : Pos) : KTr e X s0 (asSetArg v pos) := by
  unfold Ckl.asSetArg; k_auto
macro_rules | `(tactic| k_lemma) => `(tactic| exact KTr.asSetArg _ _)

/-! ### Eval.lean helpers -/

theorem KTr.destructure (v : RVal) (n : Nat) (pos : Pos) : KTr e X s0 (destructure v n pos) := by
  unfold Ckl.destructure; k_auto
macro_rules | `(tactic| k_lemma) => `(tactic| exact KTr.destructure _ _ _)

theorem KTr.bindLoopVars (env : EnvId) (ids : List String) (v : RVal) (pos : Pos) :
    KTr e X s0 (bindLoopVars env ids v pos) := by
  unfold Ckl.bindLoopVars; k_auto
macro_rules | `(tactic| k_lemma) => `(tactic| exact KTr.bindLoopVars _ _ _ _)

/-- removing the loop variables at the end of a loop: the exception set grows to `Y` -/
theorem HTr.removeVars {Y H : String → Prop} (env : EnvId) (ids : List String)
    (hXY : ∀ x, x ≠ "" → X x → Y x) (hc : env = e → ∀ x ∈ ids, x = "" ∨ Y x) :
    HTr e X Y H s0 (removeVars env ids) := by
  unfold Ckl.removeVars
  exact HTr.modifyS_gen (fun s hs => Mono.removeAll env ids hc s (hs.weaken hXY))

theorem KTr.spreadValues (v : RVal) (pos : Pos) : KTr e X s0 (spreadValues v pos) := by
  unfold Ckl.spreadValues; k_auto
macro_rules | `(tactic| k_lemma) => `(tactic| exact KTr.spreadValues _ _)

theorem KTr.collectionValues (v : RVal) (w : Option String) (pos : Pos) :
    KTr e X s0 (collectionValues v w pos) := by
  unfold Ckl.collectionValues; k_auto
macro_rules | `(tactic| k_lemma) => `(tactic| exact KTr.collectionValues _ _ _)

/-- NodeDef renames a lambda: the closure cell keeps its kind -/
theorem KTr.renameClosure (v : RVal) (n : String) : KTr e X s0 (renameClosure v n) := by
  refine ⟨fun s hs => ?_⟩
  unfold Ckl.renameClosure
  cases v with
  | closure a =>
    simp only [bind_def, getS_run]
    cases hcell : s.cell a with
    | none => exact hs
    | some c =>
      cases c with
      | closure ce ps ds b nm => exact hs.grow (Grow.setCell hcell rfl)
      | _ => exact hs
  | _ => exact hs
macro_rules | `(tactic| k_lemma) => `(tactic| exact KTr.renameClosure _ _)

theorem KTr.assignAll (env : EnvId) (xs : List String) (items : List RVal) (i : Nat) (last : RVal)
    (pos : Pos) : KTr e X s0 (assignAll env xs items i last pos) := by
  induction xs generalizing i last with
  | nil => unfold Ckl.assignAll; k_auto
  | cons x xs ih => unfold Ckl.assignAll; k_auto
macro_rules | `(tactic| k_lemma) => `(tactic| exact KTr.assignAll _ _ _ _ _ _)

theorem KTr.defAll (env : EnvId) (xs : List String) (items : List RVal) (i : Nat) (last : RVal) :
    KTr e X s0 (defAll env xs items i last) := by
  induction xs generalizing i last with
  | nil => unfold Ckl.defAll; k_auto
  | cons x xs ih => unfold Ckl.defAll; k_auto
macro_rules | `(tactic| k_lemma) => `(tactic| exact KTr.defAll _ _ _ _ _)

theorem KTr.comprResult (k : ComprKind) (out : List (RVal × RVal)) : KTr e X s0 (comprResult k out) := by
  unfold Ckl.comprResult; k_auto
macro_rules | `(tactic| k_lemma) => `(tactic| exact KTr.comprResult _ _)

end Ckl.C10S
