/-
  C08 (decimals inside lists): `C08.roundtrip_data` extended to data values that also contain
  decimals (finite binary64 values): for every value built from NULL, booleans, ints (numerals of
  at most 4300 digits), strings, doubles and arbitrarily nested lists of such values, printing it
  and parsing the text succeeds and yields the literal AST of the value (`roundtrip_dataD`).

  Scanner part: `Lemmas/C08DecListScan.lean` (`IsDataD`, `dataToksD`, `list_tokens_roundtripD`);
  parser part: `Lemmas/C08DecListParse.lean` (`LitToksD`, `LitToksD.parse`).  Here: the bridge
  (a token list whose (value, type) sequence is `dataToksD v` spells the literal of `v`) and the
  final theorem.  `decRepr m e` is never evaluated on variables: everything about it comes from
  `C08D.decRepr_spec` (via `decToks_spec`).
-/
import CklVerif.Lemmas.C08DecListScan
import CklVerif.Lemmas.C08DecListParse
namespace Ckl.C08DL
open Ckl Ckl.Lexer Ckl.Parser Ckl.C08 Ckl.C08D

mutual
  /-- `NodeIsD v n`: `n` is the literal AST of the data value `v`, source positions aside
      (`NULL` is the identifier `NULL`) -/
  def NodeIsD : Val → Node → Prop
    | .null, .ident name _ => name = "NULL"
    | .bool b, .lit (.bool b') _ => b' = b
    | .int k, .lit (.int k') _ => k' = k
    | .dec m e, .lit (.dec m' e') _ => m' = m ∧ e' = e
    | .str s, .lit (.str s') _ => s' = s
    | .list xs, .list ns _ => NodeIsDL xs ns
    | _, _ => False
  def NodeIsDL : List Val → List Node → Prop
    | [], [] => True
    | x :: xs, n :: ns => NodeIsD x n ∧ NodeIsDL xs ns
    | _, _ => False
end

mutual
  /-- every int inside `v` has a numeral of at most 4300 digits (CPython's `int`/`str` limit) -/
  def DigitsOKD : Val → Prop
    | .int n => (Nat.toDigits 10 n.natAbs).length ≤ 4300
    | .list xs => DigitsOKDL xs
    | _ => True
  def DigitsOKDL : List Val → Prop
    | [] => True
    | x :: xs => DigitsOKD x ∧ DigitsOKDL xs
end

theorem scalar_litToksD (v : Val)
    (hv : v = .null ∨ (∃ b, v = .bool b) ∨ (∃ n, v = .int n) ∨ (∃ s, v = .str s)) (hd : DigitsOKD v)
    (l : List Token) (hl : l.map tv = dataToksD v) : ∃ n, LitToksD l n ∧ NodeIsD v n := by
  rcases hv with rfl | ⟨b, rfl⟩ | ⟨n, rfl⟩ | ⟨s, rfl⟩
  · obtain ⟨t, rfl, h1, h2⟩ := map_tv_singleton (by simpa only [dataToksD] using hl)
    exact ⟨_, .ident t h2, by rw [NodeIsD, h1]; rfl⟩
  · cases b with
    | true =>
      obtain ⟨t, rfl, h1, h2⟩ := map_tv_singleton (by simpa only [dataToksD] using hl)
      exact ⟨_, .bool t h2, by rw [NodeIsD, h1]; rfl⟩
    | false =>
      obtain ⟨t, rfl, h1, h2⟩ := map_tv_singleton (by simpa only [dataToksD] using hl)
      exact ⟨_, .bool t h2, by rw [NodeIsD, h1]; rfl⟩
  · have hd' : (Nat.toDigits 10 n.natAbs).length ≤ 4300 := by simpa only [DigitsOKD] using hd
    by_cases hn : n < 0
    · simp only [dataToksD, intToks, hn, if_true] at hl
      cases l with
      | nil => simp at hl
      | cons tm l' =>
        simp only [List.map_cons, List.cons.injEq, tv, Prod.mk.injEq] at hl
        obtain ⟨⟨hm1, hm2⟩, hl'⟩ := hl
        obtain ⟨t, rfl, h1, h2⟩ := map_tv_singleton hl'
        refine ⟨_, .negInt tm t n.natAbs ⟨hm1, hm2⟩ h2 (by rw [h1]; exact parseIntLit_toDigits _ hd'), ?_⟩
        rw [NodeIsD]; omega
    · simp only [dataToksD, intToks, hn, if_false] at hl
      obtain ⟨t, rfl, h1, h2⟩ := map_tv_singleton hl
      refine ⟨_, .int t n.natAbs h2 (by rw [h1]; exact parseIntLit_toDigits _ hd'), ?_⟩
      rw [NodeIsD]; omega
  · obtain ⟨t, rfl, h1, h2⟩ := map_tv_singleton (by simpa only [dataToksD] using hl)
    exact ⟨_, .str t h2, by rw [NodeIsD, h1]⟩

/-- a token list whose (value, type) sequence is `decToks m e` spells the literal of the double
    `m / 2^e`: one `decimal` token that `float()` reads as `|m| / 2^e`, after a `-` when `m < 0` -/
theorem dec_litToksD (m : Int) (e : Nat) (hd : IsDouble m e) (l : List Token)
    (hl : l.map tv = decToks m e) : ∃ n, LitToksD l n ∧ NodeIsD (.dec m e) n := by
  obtain ⟨a, b, _, htoks, _, _, _, hp⟩ := decToks_spec m e hd
  rw [htoks] at hl
  by_cases hm : m < 0
  · simp only [if_pos hm, List.cons_append, List.nil_append] at hl
    cases l with
    | nil => simp at hl
    | cons tm l' =>
      simp only [List.map_cons, List.cons.injEq, tv, Prod.mk.injEq] at hl
      obtain ⟨⟨hm1, hm2⟩, hl'⟩ := hl
      obtain ⟨t, rfl, h1, h2⟩ := map_tv_singleton hl'
      refine ⟨_, .negDec tm t (m.natAbs : Int) e ⟨hm1, hm2⟩ h2 (by rw [h1]; exact hp), ?_⟩
      rw [NodeIsD]; exact ⟨by omega, rfl⟩
  · simp only [if_neg hm, List.nil_append] at hl
    obtain ⟨t, rfl, h1, h2⟩ := map_tv_singleton hl
    refine ⟨_, .dec t (m.natAbs : Int) e h2 (by rw [h1]; exact hp), ?_⟩
    rw [NodeIsD]; exact ⟨by omega, rfl⟩

mutual
  /-- a token list whose (value, type) sequence is `dataToksD v` spells the literal of `v` -/
  theorem data_litToksD : ∀ (v : Val), IsDataD v → DigitsOKD v → ∀ (l : List Token),
      l.map tv = dataToksD v → ∃ n, LitToksD l n ∧ NodeIsD v n
    | .null, _, hd, l, hl => scalar_litToksD .null (Or.inl rfl) hd l hl
    | .bool b, _, hd, l, hl => scalar_litToksD (.bool b) (Or.inr (Or.inl ⟨b, rfl⟩)) hd l hl
    | .int n, _, hd, l, hl => scalar_litToksD (.int n) (Or.inr (Or.inr (Or.inl ⟨n, rfl⟩))) hd l hl
    | .str s, _, hd, l, hl => scalar_litToksD (.str s) (Or.inr (Or.inr (Or.inr ⟨s, rfl⟩))) hd l hl
    | .dec m e, hv, _, l, hl =>
      dec_litToksD m e (by simpa only [IsDataD] using hv) l (by simpa only [dataToksD] using hl)
    | .list xs, hv, hd, l, hl => by
      simp only [dataToksD] at hl
      cases l with
      | nil => simp at hl
      | cons tl l' =>
        simp only [List.map_cons, List.cons.injEq, tv, Prod.mk.injEq] at hl
        obtain ⟨⟨hl1, hl2⟩, hl'⟩ := hl
        obtain ⟨body, lr, rfl, hbody, hlr⟩ := List.map_eq_append_iff.mp hl'
        obtain ⟨tr, rfl, hr1, hr2⟩ := map_tv_singleton hlr
        rcases dataL_litToksD xs (by simpa only [IsDataD] using hv) (by simpa only [DigitsOKD] using hd)
          body hbody with ⟨rfl, rfl⟩ | ⟨ts, rest, n, ns, rfl, hts, hrest, hns⟩
        · exact ⟨_, .nil tl tr ⟨hl1, hl2⟩ ⟨hr1, hr2⟩, by simp [NodeIsD, NodeIsDL]⟩
        · refine ⟨.list (n :: ns) tl.pos, ?_, by rw [NodeIsD]; exact hns⟩
          have := LitToksD.list tl tr ts rest n ns ⟨hl1, hl2⟩ ⟨hr1, hr2⟩ hts hrest
          simpa using this
    | .pat _, hv, _, _, _ => by simp [IsDataD] at hv
    | .date _, hv, _, _, _ => by simp [IsDataD] at hv
    | .set _, hv, _, _, _ => by simp [IsDataD] at hv
    | .map _, hv, _, _, _ => by simp [IsDataD] at hv
  theorem dataL_litToksD : ∀ (xs : List Val), IsDataDL xs → DigitsOKDL xs → ∀ (l : List Token),
      l.map tv = dataToksDL xs →
      (xs = [] ∧ l = []) ∨ ∃ ts rest n ns, l = ts ++ rest ∧ LitToksD ts n ∧ RestToksD rest ns ∧
        NodeIsDL xs (n :: ns)
    | [], _, _, l, hl => Or.inl ⟨rfl, by simpa [dataToksDL] using hl⟩
    | x :: xs, hv, hd, l, hl => by
      obtain ⟨hx, hxs⟩ : IsDataD x ∧ IsDataDL xs := by simpa only [IsDataDL] using hv
      obtain ⟨dx, dxs⟩ : DigitsOKD x ∧ DigitsOKDL xs := by simpa only [DigitsOKDL] using hd
      simp only [dataToksDL] at hl
      obtain ⟨ts, rest, rfl, hts, hrest⟩ := List.map_eq_append_iff.mp hl
      obtain ⟨n, hn, hnn⟩ := data_litToksD x hx dx ts hts
      obtain ⟨ns, hns, hnns⟩ := dataT_litToksD xs hxs dxs rest hrest
      exact Or.inr ⟨ts, rest, n, ns, rfl, hn, hns, by rw [NodeIsDL]; exact ⟨hnn, hnns⟩⟩
  theorem dataT_litToksD : ∀ (ys : List Val), IsDataDL ys → DigitsOKDL ys → ∀ (l : List Token),
      l.map tv = dataToksDT ys → ∃ ns, RestToksD l ns ∧ NodeIsDL ys ns
    | [], _, _, l, hl => by
      have : l = [] := by simpa [dataToksDT] using hl
      subst this; exact ⟨[], .nil, by simp [NodeIsDL]⟩
    | y :: ys, hv, hd, l, hl => by
      obtain ⟨hy, hys⟩ : IsDataD y ∧ IsDataDL ys := by simpa only [IsDataDL] using hv
      obtain ⟨dy, dys⟩ : DigitsOKD y ∧ DigitsOKDL ys := by simpa only [DigitsOKDL] using hd
      simp only [dataToksDT] at hl
      cases l with
      | nil => simp at hl
      | cons tc l' =>
        simp only [List.map_cons, List.cons.injEq, tv, Prod.mk.injEq] at hl
        obtain ⟨⟨hc1, hc2⟩, hl'⟩ := hl
        obtain ⟨ts, rest, rfl, hts, hrest⟩ := List.map_eq_append_iff.mp hl'
        obtain ⟨n, hn, hnn⟩ := data_litToksD y hy dy ts hts
        obtain ⟨ns, hns, hnns⟩ := dataT_litToksD ys hys dys rest hrest
        exact ⟨n :: ns, .cons tc ts rest n ns ⟨hc1, hc2⟩ hn hns, by rw [NodeIsDL]; exact ⟨hnn, hnns⟩⟩
end

/-- **roundtrip_dataD**: for every data value built from NULL, booleans, ints (numerals of at most
    4300 digits), strings, decimals (finite binary64 values `m / 2^e`) and arbitrarily nested lists
    of such values, printing it and parsing the text (alone or followed by whitespace) succeeds
    and yields the literal AST of the value. -/
theorem roundtrip_dataD (file : String) (v : Val) (hv : IsDataD v) (hd : DigitsOKD v) (w : List Char)
    (hw : ∀ c ∈ w, c ∈ [' ', '\t', '\r', '\n']) :
    ∃ n, parseScript (render v ++ w) file = .ok n ∧ NodeIsD v n := by
  have hs := list_tokens_roundtripD file v hv w hw
  unfold scanTV at hs
  cases hsc : scan (render v ++ w) file with
  | error e => rw [hsc] at hs; cases hs
  | ok l =>
    rw [hsc] at hs
    simp only [Option.some.injEq] at hs
    obtain ⟨n, hn, hnn⟩ := data_litToksD v hv hd l hs
    refine ⟨n, ?_, hnn⟩
    rw [parseScript_eq, hsc]
    exact hn.parse _ file

/-- non-vacuity: `[0.1, -0.25, [1, 'a', 1.5, 1e22], NULL]` followed by a newline
    (0.1 = 3602879701896397 / 2^55, -0.25 = -1 / 2^2, 1.5 = 3 / 2^1, 1e22 = 10^22 / 2^0) -/
example : ∃ n, parseScript
      (render (.list [.dec 3602879701896397 55, .dec (-1) 2,
        .list [.int 1, .str ['a'], .dec 3 1, .dec (10 ^ 22) 0], .null]) ++ ['\n']) "f" = .ok n ∧
    NodeIsD (.list [.dec 3602879701896397 55, .dec (-1) 2,
        .list [.int 1, .str ['a'], .dec 3 1, .dec (10 ^ 22) 0], .null]) n := by
  refine roundtrip_dataD "f" _ ?_ ?_ ['\n'] (by decide)
  · simp only [IsDataD, IsDataDL, and_true, true_and]
    refine ⟨?_, ?_, ?_, ?_⟩ <;> decide +kernel
  · simp only [DigitsOKD, DigitsOKDL, and_true, true_and]
    decide

/-- the AST relation is not vacuous either: the literal of `[-0.25, [1.5]]` -/
example (p : Pos) : NodeIsD (.list [.dec (-1) 2, .list [.dec 3 1]])
    (.list [.lit (.dec (-1) 2) p, .list [.lit (.dec 3 1) p] p] p) := by
  simp [NodeIsD, NodeIsDL]

-- tests of the executable model (not theorems): the text and the tokens of the example value
#guard render (.list [.dec 3602879701896397 55, .dec (-1) 2, .list [.int 1, .str ['a'], .dec 3 1], .null])
  = "[0.1, -0.25, [1, 'a', 1.5], NULL]".toList
#guard dataToksD (.list [.dec 3602879701896397 55, .dec (-1) 2, .list [.int 1, .dec 3 1], .null])
  = [(['['], ip), (['0', '.', '1'], .decimal), ([','], ip), (['-'], .operator),
     (['0', '.', '2', '5'], .decimal), ([','], ip), (['['], ip), (['1'], .int), ([','], ip),
     (['1', '.', '5'], .decimal), ([']'], ip), ([','], ip), (['N', 'U', 'L', 'L'], .identifier),
     ([']'], ip)]
#guard scanTV (render (.list [.dec 3602879701896397 55, .dec (-1) 2, .list [.int 1, .dec 3 1], .null])) "f"
  = some (dataToksD (.list [.dec 3602879701896397 55, .dec (-1) 2, .list [.int 1, .dec 3 1], .null]))

/-! ### complements: `IsDataD` extends `C08.IsData`; the AST determines the value -/

mutual
  /-- the decimal-free data values of `C08.roundtrip_data` are data values in the present sense -/
  theorem isDataD_of_isData : ∀ (v : Val), IsData v → IsDataD v
    | .null, _ => by simp only [IsDataD]
    | .bool _, _ => by simp only [IsDataD]
    | .int _, _ => by simp only [IsDataD]
    | .str _, _ => by simp only [IsDataD]
    | .list xs, h => by
      simp only [IsDataD]; exact isDataDL_of_isDataL xs (by simpa only [IsData] using h)
    | .dec _ _, h => by simp [IsData] at h
    | .pat _, h => by simp [IsData] at h
    | .date _, h => by simp [IsData] at h
    | .set _, h => by simp [IsData] at h
    | .map _, h => by simp [IsData] at h
  theorem isDataDL_of_isDataL : ∀ (xs : List Val), IsDataL xs → IsDataDL xs
    | [], _ => by simp only [IsDataDL]
    | x :: xs, h => by
      obtain ⟨hx, hxs⟩ : IsData x ∧ IsDataL xs := by simpa only [IsDataL] using h
      simp only [IsDataDL]; exact ⟨isDataD_of_isData x hx, isDataDL_of_isDataL xs hxs⟩
end

theorem NodeIsD_scalar_inj (v v' : Val) (n : Node) (hv : ∀ xs, v ≠ .list xs)
    (h : NodeIsD v n) (h' : NodeIsD v' n) : v = v' := by
  cases n with
  | lit l p =>
    cases l <;> cases v <;> simp only [NodeIsD] at h <;> cases v' <;> simp only [NodeIsD] at h' <;>
      first
        | (subst h; subst h'; rfl)
        | (obtain ⟨rfl, rfl⟩ := h; obtain ⟨rfl, rfl⟩ := h'; rfl)
  | ident s p =>
    cases v <;> simp only [NodeIsD] at h
    cases v' <;> simp only [NodeIsD] at h'
    rfl
  | list ns p =>
    cases v <;> simp only [NodeIsD] at h
    exact absurd rfl (hv _)
  | _ => cases v <;> simp only [NodeIsD] at h

mutual
  /-- **NodeIsD_inj**: the AST determines the value — two values with the same literal AST are
      equal, so nothing is lost in `roundtrip_dataD` (in particular the decimal read back is the
      same double `m / 2^e`, not merely a close one) -/
  theorem NodeIsD_inj : ∀ (v v' : Val) (n : Node), NodeIsD v n → NodeIsD v' n → v = v'
    | .list xs, v', n, h, h' => by
      cases n <;> simp only [NodeIsD] at h
      rename_i ns p
      cases v' <;> simp only [NodeIsD] at h'
      rename_i ys
      rw [NodeIsDL_inj xs ys ns h h']
    | .null, v', n, h, h' => NodeIsD_scalar_inj _ v' n (by simp) h h'
    | .bool _, v', n, h, h' => NodeIsD_scalar_inj _ v' n (by simp) h h'
    | .int _, v', n, h, h' => NodeIsD_scalar_inj _ v' n (by simp) h h'
    | .dec _ _, v', n, h, h' => NodeIsD_scalar_inj _ v' n (by simp) h h'
    | .str _, v', n, h, h' => NodeIsD_scalar_inj _ v' n (by simp) h h'
    | .pat _, v', n, h, h' => NodeIsD_scalar_inj _ v' n (by simp) h h'
    | .date _, v', n, h, h' => NodeIsD_scalar_inj _ v' n (by simp) h h'
    | .set _, v', n, h, h' => NodeIsD_scalar_inj _ v' n (by simp) h h'
    | .map _, v', n, h, h' => NodeIsD_scalar_inj _ v' n (by simp) h h'
  theorem NodeIsDL_inj : ∀ (xs ys : List Val) (ns : List Node),
      NodeIsDL xs ns → NodeIsDL ys ns → xs = ys
    | [], ys, ns, h, h' => by
      cases ns <;> simp only [NodeIsDL] at h
      cases ys <;> simp only [NodeIsDL] at h'
      rfl
    | x :: xs, ys, ns, h, h' => by
      cases ns <;> simp only [NodeIsDL] at h
      rename_i n ns
      cases ys <;> simp only [NodeIsDL] at h'
      rename_i y ys
      rw [NodeIsD_inj x y n h.1 h'.1, NodeIsDL_inj xs ys ns h.2 h'.2]
end

/-- **roundtrip_dataD_unique**: the text of two data values parses to the same AST only if the
    values are equal (printing is injective on data values, decimals included) -/
theorem roundtrip_dataD_unique (file : String) (v v' : Val) (hv : IsDataD v) (hd : DigitsOKD v)
    (hv' : IsDataD v') (hd' : DigitsOKD v') (w w' : List Char)
    (hw : ∀ c ∈ w, c ∈ [' ', '\t', '\r', '\n']) (hw' : ∀ c ∈ w', c ∈ [' ', '\t', '\r', '\n'])
    (h : parseScript (render v ++ w) file = parseScript (render v' ++ w') file) : v = v' := by
  obtain ⟨n, hn, hnn⟩ := roundtrip_dataD file v hv hd w hw
  obtain ⟨n', hn', hnn'⟩ := roundtrip_dataD file v' hv' hd' w' hw'
  rw [hn, hn'] at h
  cases h
  exact NodeIsD_inj v v' n hnn hnn'

/-- non-vacuity of `roundtrip_dataD_unique`: `[0.1, -0.25]` with different trailing whitespace
    (hypothesis `h` holds by `roundtrip_dataD` only up to positions, so it is instantiated at
    equal whitespace here) -/
example : (Val.list [.dec 3602879701896397 55, .dec (-1) 2]) = .list [.dec 3602879701896397 55, .dec (-1) 2] :=
  roundtrip_dataD_unique "f" _ _
    (by simp only [IsDataD, IsDataDL, and_true]; refine ⟨?_, ?_⟩ <;> decide +kernel)
    (by simp only [DigitsOKD, DigitsOKDL, and_true])
    (by simp only [IsDataD, IsDataDL, and_true]; refine ⟨?_, ?_⟩ <;> decide +kernel)
    (by simp only [DigitsOKD, DigitsOKDL, and_true]) [' '] [' '] (by decide) (by decide) rfl

end Ckl.C08DL
