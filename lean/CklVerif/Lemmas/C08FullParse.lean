/-
  C08 (full data literals) — parser part: token lists that spell a data literal (scalars, and
  list / set / map literals of literals, nested), and the AST `parse_expression` builds from them.
-/
import CklVerif.Lemmas.C08FullDefs
namespace Ckl.C08F
open Ckl Ckl.Parser Ckl.C08
open Ckl.Lexer (tv)

/-- the token lists of scalar literals, and their AST -/
inductive Atom : List Token → Node → Prop
  | int (t : Token) (n : Nat) : t.type = .int → parseIntLit t.value = some n →
      Atom [t] (.lit (.int n) t.pos)
  | negInt (tm t : Token) (n : Nat) : IsTok tm ['-'] .operator → t.type = .int →
      parseIntLit t.value = some n → Atom [tm, t] (.lit (.int (-(n : Int))) t.pos)
  | str (t : Token) : t.type = .string → Atom [t] (.lit (.str t.value) t.pos)
  | bool (t : Token) : t.type = .boolean →
      Atom [t] (.lit (.bool (t.value == ['T', 'R', 'U', 'E'])) t.pos)
  | ident (t : Token) : t.type = .identifier → Atom [t] (.ident (str t.value) t.pos)

mutual
  /-- `Lit ts n`: the token list `ts` spells a data literal — a scalar, or a list `[ … ]`, a set
      `<< … >>` or a map `<<< k => v, … >>>` of data literals — and `n` is its AST (a bare
      identifier as a map key becomes a string literal: `mapKey`) -/
  inductive Lit : List Token → Node → Prop
    | atom {ts : List Token} {n : Node} : Atom ts n → Lit ts n
    | list0 (tl tr : Token) : IsTok tl ['['] .interpunction → IsTok tr [']'] .interpunction →
        Lit [tl, tr] (.list [] tl.pos)
    | list (tl tr : Token) (ts rest : List Token) (n : Node) (ns : List Node) :
        IsTok tl ['['] .interpunction → IsTok tr [']'] .interpunction →
        Lit ts n → Rest rest ns →
        Lit (tl :: (ts ++ (rest ++ [tr]))) (.list (n :: ns) tl.pos)
    | set0 (tl tr : Token) : IsTok tl ['<', '<'] .interpunction → IsTok tr ['>', '>'] .interpunction →
        Lit [tl, tr] (.set [] tl.pos)
    | set (tl tr : Token) (ts rest : List Token) (n : Node) (ns : List Node) :
        IsTok tl ['<', '<'] .interpunction → IsTok tr ['>', '>'] .interpunction →
        Lit ts n → Rest rest ns →
        Lit (tl :: (ts ++ (rest ++ [tr]))) (.set (n :: ns) tl.pos)
    | map0 (tl tr : Token) : IsTok tl ['<', '<', '<'] .interpunction →
        IsTok tr ['>', '>', '>'] .interpunction → Lit [tl, tr] (.map [] [] tl.pos)
    | map (tl tr ta : Token) (ks vs rest : List Token) (kn vn : Node) (kns vns : List Node) :
        IsTok tl ['<', '<', '<'] .interpunction → IsTok tr ['>', '>', '>'] .interpunction →
        IsTok ta ['=', '>'] .interpunction → Lit ks kn → Lit vs vn → RestE rest kns vns →
        Lit (tl :: (ks ++ ta :: (vs ++ (rest ++ [tr])))) (.map (mapKey kn :: kns) (vn :: vns) tl.pos)
  /-- the items after the first: each preceded by a `,` -/
  inductive Rest : List Token → List Node → Prop
    | nil : Rest [] []
    | cons (tc : Token) (ts rest : List Token) (n : Node) (ns : List Node) :
        IsTok tc [','] .interpunction → Lit ts n → Rest rest ns →
        Rest (tc :: (ts ++ rest)) (n :: ns)
  /-- the entries after the first: each preceded by a `,` -/
  inductive RestE : List Token → List Node → List Node → Prop
    | nil : RestE [] [] []
    | cons (tc ta : Token) (ks vs rest : List Token) (kn vn : Node) (kns vns : List Node) :
        IsTok tc [','] .interpunction → IsTok ta ['=', '>'] .interpunction →
        Lit ks kn → Lit vs vn → RestE rest kns vns →
        RestE (tc :: (ks ++ ta :: (vs ++ rest))) (mapKey kn :: kns) (vn :: vns)
end

/-- the first token of a literal: no keyword, and if an interpunction then an opening bracket -/
def HeadOK (t : Token) : Prop :=
  t.type ≠ .keyword ∧
  (t.type = .interpunction → t.value = ['['] ∨ t.value = ['<', '<'] ∨ t.value = ['<', '<', '<'])

theorem Atom.head {ts : List Token} {n : Node} (h : Atom ts n) :
    ∃ t0 ts', ts = t0 :: ts' ∧ HeadOK t0 ∧ ¬ (t0.type = .string ∧ ts' ≠ []) := by
  cases h with
  | int t n ht _ => exact ⟨t, [], rfl, ⟨by simp [ht], by simp [ht]⟩, by simp⟩
  | negInt tm t n hm _ _ => exact ⟨tm, [t], rfl, ⟨by simp [hm.2], by simp [hm.2]⟩, by simp [hm.2]⟩
  | str t ht => exact ⟨t, [], rfl, ⟨by simp [ht], by simp [ht]⟩, by simp⟩
  | bool t ht => exact ⟨t, [], rfl, ⟨by simp [ht], by simp [ht]⟩, by simp⟩
  | ident t ht => exact ⟨t, [], rfl, ⟨by simp [ht], by simp [ht]⟩, by simp⟩

theorem Lit.head {ts : List Token} {n : Node} (h : Lit ts n) :
    ∃ t0 ts', ts = t0 :: ts' ∧ HeadOK t0 ∧ ¬ (t0.type = .string ∧ ts' ≠ []) := by
  cases h with
  | atom ha => exact ha.head
  | list0 tl tr hl _ => exact ⟨tl, [tr], rfl, ⟨by simp [hl.2], fun _ => Or.inl hl.1⟩, by simp [hl.2]⟩
  | list tl tr ts rest n ns hl _ _ _ =>
    exact ⟨tl, _, rfl, ⟨by simp [hl.2], fun _ => Or.inl hl.1⟩, by simp [hl.2]⟩
  | set0 tl tr hl _ =>
    exact ⟨tl, [tr], rfl, ⟨by simp [hl.2], fun _ => Or.inr (Or.inl hl.1)⟩, by simp [hl.2]⟩
  | set tl tr ts rest n ns hl _ _ _ =>
    exact ⟨tl, _, rfl, ⟨by simp [hl.2], fun _ => Or.inr (Or.inl hl.1)⟩, by simp [hl.2]⟩
  | map0 tl tr hl _ =>
    exact ⟨tl, [tr], rfl, ⟨by simp [hl.2], fun _ => Or.inr (Or.inr hl.1)⟩, by simp [hl.2]⟩
  | map tl tr ta ks vs rest kn vn kns vns hl _ _ _ _ _ =>
    exact ⟨tl, _, rfl, ⟨by simp [hl.2], fun _ => Or.inr (Or.inr hl.1)⟩, by simp [hl.2]⟩

/-- the first token of a literal is not the interpunction token `v`, for a closing `v` -/
theorem HeadOK.tokIs_false {t0 : Token} (h : HeadOK t0) (v : List Char) (hv1 : v ≠ ['['])
    (hv2 : v ≠ ['<', '<']) (hv3 : v ≠ ['<', '<', '<']) :
    St.tokIs t0 v (some .interpunction) = false := by
  simp only [St.tokIs]
  rw [Bool.eq_false_iff]; intro hh
  simp only [Bool.and_eq_true, beq_iff_eq] at hh
  rcases h.2 hh.2 with e | e | e <;> rw [hh.1] at e
  · exact hv1 e
  · exact hv2 e
  · exact hv3 e

/-- a closing token: an interpunction token other than `(` and `[` -/
def Closer (t : Token) : Prop := t.type = .interpunction ∧ t.value ≠ ['('] ∧ t.value ≠ ['[']

theorem Closer.stop {tr : Token} (h : Closer tr) (k : List Token) : Stop (tr :: k) :=
  Stop.cons h.1 h.2.1 h.2.2

theorem IsTok.closer {t : Token} {v : List Char} (h : IsTok t v .interpunction) (h1 : v ≠ ['('])
    (h2 : v ≠ ['[']) : Closer t := ⟨h.2, by rw [h.1]; exact h1, by rw [h.1]; exact h2⟩

theorem Rest.stop {rest : List Token} {ns : List Node} (h : Rest rest ns) {tr : Token}
    (htr : Closer tr) (k : List Token) : Stop (rest ++ tr :: k) := by
  cases h with
  | nil => exact htr.stop k
  | cons tc ts rest n ns hc _ _ => exact stop_comma hc _

theorem RestE.stop {rest : List Token} {kns vns : List Node} (h : RestE rest kns vns) {tr : Token}
    (htr : Closer tr) (k : List Token) : Stop (rest ++ tr :: k) := by
  cases h with
  | nil => exact htr.stop k
  | cons tc ta ks vs rest kn vn kns vns hc _ _ _ _ => exact stop_comma hc _

theorem Atom.expr (c : Ctx) {ts : List Token} {n : Node} (h : Atom ts n) (k : List Token)
    (hk : Stop k) : ∃ q, ∀ p, ∃ h, pExpression c ⟨p, ts ++ k⟩ = .ok ⟨n, ⟨q, k⟩, h⟩ := by
  cases h with
  | int t n ht hv => exact ⟨t.pos, expr_int c t n ht hv hk⟩
  | negInt tm t n hm ht hv => exact ⟨t.pos, expr_negInt c tm t n hm ht hv hk⟩
  | str t ht => exact ⟨t.pos, expr_str c t ht hk⟩
  | bool t ht => exact ⟨t.pos, expr_bool c t ht hk⟩
  | ident t ht => exact ⟨t.pos, expr_ident c t ht hk⟩

/-- `<<` … : `parse_primary_expr` hands over to `parse_set_literal` -/
theorem primary_open_set (c : Ctx) (tl : Token) (hl : IsTok tl ['<', '<'] .interpunction)
    (R k : List Token) (e : Node) (q : Pos)
    (hset : ∃ h, pSetLiteral c tl.pos ⟨tl.pos, R⟩ = .ok ⟨e, ⟨q, k⟩, h⟩) :
    ∀ p, ∃ h, pPrimary c false ⟨p, tl :: R⟩ = .ok ⟨e, ⟨q, k⟩, h⟩ := by
  intro p
  obtain ⟨h, hset⟩ := hset
  have hkw : pPrimaryKw c tl ⟨tl.pos, R⟩ = .ok ⟨e, ⟨q, k⟩, Nat.le_of_lt h⟩ := by
    rw [pPrimaryKw]
    simp [hl.1, hl.2, hset, ltLe]
  refine ⟨by simp at h ⊢; omega, ?_⟩
  rw [pPrimary]
  simp [St.hasNext, St.next, hl.1, hl.2, hkw, leLt, bind, Except.bind]

/-- `<<<` … : `parse_primary_expr` hands over to `parse_map_literal` -/
theorem primary_open_map (c : Ctx) (tl : Token) (hl : IsTok tl ['<', '<', '<'] .interpunction)
    (R k : List Token) (e : Node) (q : Pos)
    (hmap : ∃ h, pMapLiteral c tl.pos ⟨tl.pos, R⟩ = .ok ⟨e, ⟨q, k⟩, h⟩) :
    ∀ p, ∃ h, pPrimary c false ⟨p, tl :: R⟩ = .ok ⟨e, ⟨q, k⟩, h⟩ := by
  intro p
  obtain ⟨h, hmap⟩ := hmap
  have hkw : pPrimaryKw c tl ⟨tl.pos, R⟩ = .ok ⟨e, ⟨q, k⟩, Nat.le_of_lt h⟩ := by
    rw [pPrimaryKw]
    simp [hl.1, hl.2, hmap, ltLe]
  refine ⟨by simp at h ⊢; omega, ?_⟩
  rw [pPrimary]
  simp [St.hasNext, St.next, hl.1, hl.2, hkw, leLt, bind, Except.bind]

theorem peekn_head {q : Pos} {t0 : Token} {l : List Token} (v : List Char) (ty : Option TokType) :
    St.peekn ⟨q, t0 :: l⟩ 1 v ty = St.tokIs t0 v ty := by
  simp [St.peekn]

theorem matchIf_head_none {q : Pos} {t0 : Token} {l : List Token} {v : List Char}
    {ty : Option TokType} (h : St.tokIs t0 v ty = false) : St.matchIf ⟨q, t0 :: l⟩ v ty = none := by
  simp [St.matchIf, h]

theorem tokIs_of {t : Token} {v : List Char} {ty : TokType} (h : IsTok t v ty) :
    St.tokIs t v (some ty) = true := by
  simp [St.tokIs, h.1, h.2]

theorem tokIs_ne {t : Token} {v w : List Char} {ty : TokType} (h : IsTok t v ty) (hne : v ≠ w) :
    St.tokIs t w (some .interpunction) = false := by
  simp [St.tokIs, h.1, hne]

mutual
  /-- a literal in front of a stop continuation is consumed by `parse_expression`, which returns
      its AST and stops in front of the continuation -/
  theorem Lit.expr (c : Ctx) : ∀ {ts : List Token} {n : Node}, Lit ts n →
      ∀ (k : List Token), Stop k →
      ∃ q, ∀ p, ∃ h, pExpression c ⟨p, ts ++ k⟩ = .ok ⟨n, ⟨q, k⟩, h⟩
    | _, _, .atom ha, k, hk => ha.expr c k hk
    | _, _, .list0 tl tr hl hr, k, hk => by
      refine ⟨tr.pos, ?_⟩
      apply expr_of_primary c tl (tr :: k) k _ tr.pos (by simp [hl.2]) (by simp [hl.2]) hk
      apply primary_open c tl hl (tr :: k) k _ tr.pos hk
      refine ⟨by simp, ?_⟩
      rw [pListLiteral]
      simp [St.matchIf, St.tokIs, hr.1, hr.2, hk.postfixLoop, leLt]
    | _, _, .list tl tr ts rest n ns hl hr hts hrest, k, hk => by
      refine ⟨tr.pos, ?_⟩
      have hcl : Closer tr := IsTok.closer hr (by decide) (by decide)
      have hk1 : Stop (rest ++ tr :: k) := hrest.stop hcl k
      obtain ⟨q1, he⟩ := Lit.expr c hts (rest ++ tr :: k) hk1
      obtain ⟨h1, he⟩ := he tl.pos
      obtain ⟨q2, h2, hloop⟩ := Rest.listLoop c hrest tr k hr q1 [] n
      obtain ⟨t0, ts', hts0, hok, _⟩ := hts.head
      have hnc' : St.matchIf ⟨tl.pos, ts ++ (rest ++ tr :: k)⟩ [']'] (some .interpunction) = none := by
        rw [hts0]; exact matchIf_head_none (hok.tokIs_false _ (by decide) (by decide) (by decide))
      have e : tl :: (ts ++ (rest ++ [tr])) ++ k = tl :: (ts ++ (rest ++ tr :: k)) := by simp
      rw [e]
      apply expr_of_primary c tl _ k _ tr.pos (by simp [hl.2]) (by simp [hl.2]) hk
      apply primary_open c tl hl _ k _ tr.pos hk
      refine ⟨by simp; omega, ?_⟩
      rw [pListLiteral]
      simp [hnc', he, hk1.matchIf_ty q1 _ .keyword (by decide), hloop, St.expect, hr.1, hr.2,
        hk.postfixLoop, bind, Except.bind, pure, Except.pure]
    | _, _, .set0 tl tr hl hr, k, hk => by
      refine ⟨tr.pos, ?_⟩
      apply expr_of_primary c tl (tr :: k) k _ tr.pos (by simp [hl.2]) (by simp [hl.2]) hk
      apply primary_open_set c tl hl (tr :: k) k _ tr.pos
      refine ⟨by simp, ?_⟩
      rw [pSetLiteral]
      simp [St.matchIf, St.tokIs, hr.1, hr.2, hk.postfixLoop, leLt]
    | _, _, .set tl tr ts rest n ns hl hr hts hrest, k, hk => by
      refine ⟨tr.pos, ?_⟩
      have hcl : Closer tr := IsTok.closer hr (by decide) (by decide)
      have hk1 : Stop (rest ++ tr :: k) := hrest.stop hcl k
      obtain ⟨q1, he⟩ := Lit.expr c hts (rest ++ tr :: k) hk1
      obtain ⟨h1, he⟩ := he tl.pos
      obtain ⟨s2, h2, q2, h3, hsep, hloop⟩ := Rest.setTail c hrest tr k hr q1 [n]
      obtain ⟨t0, ts', hts0, hok, _⟩ := hts.head
      have hnc' : St.matchIf ⟨tl.pos, ts ++ (rest ++ tr :: k)⟩ ['>', '>'] (some .interpunction) = none := by
        rw [hts0]; exact matchIf_head_none (hok.tokIs_false _ (by decide) (by decide) (by decide))
      have e : tl :: (ts ++ (rest ++ [tr])) ++ k = tl :: (ts ++ (rest ++ tr :: k)) := by simp
      rw [e]
      apply expr_of_primary c tl _ k _ tr.pos (by simp [hl.2]) (by simp [hl.2]) hk
      apply primary_open_set c tl hl _ k _ tr.pos
      refine ⟨by simp; omega, ?_⟩
      rw [pSetLiteral]
      simp [hnc', he, hk1.matchIf_ty q1 _ .keyword (by decide), hsep, hloop, St.expect, hr.1, hr.2,
        hk.postfixLoop, bind, Except.bind, pure, Except.pure]
    | _, _, .map0 tl tr hl hr, k, hk => by
      refine ⟨tr.pos, ?_⟩
      apply expr_of_primary c tl (tr :: k) k _ tr.pos (by simp [hl.2]) (by simp [hl.2]) hk
      apply primary_open_map c tl hl (tr :: k) k _ tr.pos
      refine ⟨by simp, ?_⟩
      rw [pMapLiteral]
      simp [St.matchIf, St.tokIs, hr.1, hr.2, hk.postfixLoop, leLt]
    | _, _, .map tl tr ta ks vs rest kn vn kns vns hl hr ha hks hvs hrest, k, hk => by
      refine ⟨tr.pos, ?_⟩
      have hcl : Closer tr := IsTok.closer hr (by decide) (by decide)
      have hca : Closer ta := IsTok.closer ha (by decide) (by decide)
      have hk1 : Stop (rest ++ tr :: k) := hrest.stop hcl k
      have hk0 : Stop (ta :: (vs ++ (rest ++ tr :: k))) := hca.stop _
      obtain ⟨q0, hek⟩ := Lit.expr c hks (ta :: (vs ++ (rest ++ tr :: k))) hk0
      obtain ⟨h0, hek⟩ := hek tl.pos
      obtain ⟨q1, hev⟩ := Lit.expr c hvs (rest ++ tr :: k) hk1
      obtain ⟨h1, hev⟩ := hev ta.pos
      obtain ⟨s2, h2, q2, h3, hsep, hloop⟩ := RestE.mapTail c hrest tr k hr q1 [mapKey kn] [vn]
      obtain ⟨t0, ts', hts0, hok, _⟩ := hks.head
      have hnc' : St.matchIf ⟨tl.pos, ks ++ ta :: (vs ++ (rest ++ tr :: k))⟩ ['>', '>', '>']
          (some .interpunction) = none := by
        rw [hts0]; exact matchIf_head_none (hok.tokIs_false _ (by decide) (by decide) (by decide))
      have e : tl :: (ks ++ ta :: (vs ++ (rest ++ [tr]))) ++ k
          = tl :: (ks ++ ta :: (vs ++ (rest ++ tr :: k))) := by simp
      rw [e]
      apply expr_of_primary c tl _ k _ tr.pos (by simp [hl.2]) (by simp [hl.2]) hk
      apply primary_open_map c tl hl _ k _ tr.pos
      refine ⟨by simp; omega, ?_⟩
      rw [pMapLiteral]
      simp [hnc', hek, hev, hk1.matchIf_ty q1 _ .keyword (by decide), hsep, hloop, St.expect, hr.1, hr.2,
        ha.1, ha.2, hk.postfixLoop, bind, Except.bind, pure, Except.pure]
  /-- the item loop of a list literal -/
  theorem Rest.listLoop (c : Ctx) : ∀ {rest : List Token} {ns : List Node}, Rest rest ns →
      ∀ (tr : Token) (k : List Token), IsTok tr [']'] .interpunction →
      ∀ (q : Pos) (items : List Node) (e : Node),
      ∃ q' h, listLoop c ⟨q, rest ++ tr :: k⟩ items (some e) =
        .ok ⟨items ++ e :: ns, ⟨q', tr :: k⟩, h⟩
    | _, _, .nil, tr, k, hr, q, items, e => by
      refine ⟨q, by simp, ?_⟩
      rw [Parser.listLoop]
      simp [St.peekn, St.tokIs, hr.1, hr.2]
    | _, _, .cons tc ts rest n ns hc hts hrest, tr, k, hr, q, items, e => by
      have hcl : Closer tr := IsTok.closer hr (by decide) (by decide)
      have hk1 : Stop (rest ++ tr :: k) := hrest.stop hcl k
      obtain ⟨q1, he⟩ := Lit.expr c hts (rest ++ tr :: k) hk1
      obtain ⟨h1, he⟩ := he tc.pos
      obtain ⟨q2, h2, hloop⟩ := Rest.listLoop c hrest tr k hr q1 (items ++ [e]) n
      obtain ⟨t0, ts', hts0, hok, _⟩ := hts.head
      have e1 : tc :: (ts ++ rest) ++ tr :: k = tc :: (ts ++ (rest ++ tr :: k)) := by simp
      have hpk1 : St.peekn ⟨q, tc :: (ts ++ (rest ++ tr :: k))⟩ 1 [']'] (some .interpunction) = false := by
        simp [St.peekn, St.tokIs, hc.1]
      have hpk2 : St.peekn ⟨tc.pos, ts ++ (rest ++ tr :: k)⟩ 1 [']'] (some .interpunction) = false := by
        rw [hts0, List.cons_append, peekn_head]; exact hok.tokIs_false _ (by decide) (by decide) (by decide)
      rw [e1]
      refine ⟨q2, by simp at h2 ⊢; omega, ?_⟩
      rw [Parser.listLoop]
      simp [hpk1, St.expect, hc.1, hc.2, hpk2, he, hloop, bind, Except.bind, pure, Except.pure]
  /-- the separator and item loop of a set literal -/
  theorem Rest.setTail (c : Ctx) : ∀ {rest : List Token} {ns : List Node}, Rest rest ns →
      ∀ (tr : Token) (k : List Token), IsTok tr ['>', '>'] .interpunction →
      ∀ (q : Pos) (items : List Node),
      ∃ s2 h2 q' h, sepUnless ⟨q, rest ++ tr :: k⟩ ['>', '>'] = .ok ⟨s2, h2⟩ ∧
        setLoop c s2 items = .ok ⟨items ++ ns, ⟨q', tr :: k⟩, h⟩
    | _, _, .nil, tr, k, hr, q, items => by
      refine ⟨⟨q, tr :: k⟩, Nat.le_refl _, q, Nat.le_refl _, ?_, ?_⟩
      · simp [sepUnless, St.peekn, St.tokIs, hr.1, hr.2]
      · rw [Parser.setLoop]
        simp [St.peekn, St.tokIs, hr.1, hr.2]
    | _, _, .cons tc ts rest n ns hc hts hrest, tr, k, hr, q, items => by
      have hcl : Closer tr := IsTok.closer hr (by decide) (by decide)
      have hk1 : Stop (rest ++ tr :: k) := hrest.stop hcl k
      obtain ⟨q1, he⟩ := Lit.expr c hts (rest ++ tr :: k) hk1
      obtain ⟨h1, he⟩ := he tc.pos
      obtain ⟨s2, h2, q2, h3, hsep, hloop⟩ := Rest.setTail c hrest tr k hr q1 (items ++ [n])
      obtain ⟨t0, ts', hts0, hok, _⟩ := hts.head
      have e1 : tc :: (ts ++ rest) ++ tr :: k = tc :: (ts ++ (rest ++ tr :: k)) := by simp
      have hpk1 : St.peekn ⟨q, tc :: (ts ++ (rest ++ tr :: k))⟩ 1 ['>', '>'] (some .interpunction) = false := by
        simp [St.peekn, St.tokIs, hc.1]
      have hpk2 : St.peekn ⟨tc.pos, ts ++ (rest ++ tr :: k)⟩ 1 ['>', '>'] (some .interpunction) = false := by
        rw [hts0, List.cons_append, peekn_head]; exact hok.tokIs_false _ (by decide) (by decide) (by decide)
      rw [e1]
      refine ⟨⟨tc.pos, ts ++ (rest ++ tr :: k)⟩, by simp, q2, by simp at h3 h2 h1 ⊢; omega, ?_, ?_⟩
      · simp [sepUnless, hpk1, St.expect, hc.1, hc.2]
      · rw [Parser.setLoop]
        simp [hpk2, he, hsep, hloop, bind, Except.bind, pure, Except.pure]
  /-- the separator and entry loop of a map literal -/
  theorem RestE.mapTail (c : Ctx) : ∀ {rest : List Token} {kns vns : List Node}, RestE rest kns vns →
      ∀ (tr : Token) (k : List Token), IsTok tr ['>', '>', '>'] .interpunction →
      ∀ (q : Pos) (ks vs : List Node),
      ∃ s2 h2 q' h, sepUnless ⟨q, rest ++ tr :: k⟩ ['>', '>', '>'] = .ok ⟨s2, h2⟩ ∧
        mapLoop c s2 ks vs = .ok ⟨(ks ++ kns, vs ++ vns), ⟨q', tr :: k⟩, h⟩
    | _, _, _, .nil, tr, k, hr, q, ks, vs => by
      refine ⟨⟨q, tr :: k⟩, Nat.le_refl _, q, Nat.le_refl _, ?_, ?_⟩
      · simp [sepUnless, St.peekn, St.tokIs, hr.1, hr.2]
      · rw [Parser.mapLoop]
        simp [St.peekn, St.tokIs, hr.1, hr.2]
    | _, _, _, .cons tc ta kts vts rest kn vn kns vns hc ha hks hvs hrest, tr, k, hr, q, ks, vs => by
      have hcl : Closer tr := IsTok.closer hr (by decide) (by decide)
      have hca : Closer ta := IsTok.closer ha (by decide) (by decide)
      have hk1 : Stop (rest ++ tr :: k) := hrest.stop hcl k
      have hk0 : Stop (ta :: (vts ++ (rest ++ tr :: k))) := hca.stop _
      obtain ⟨q0, hek⟩ := Lit.expr c hks (ta :: (vts ++ (rest ++ tr :: k))) hk0
      obtain ⟨h0, hek⟩ := hek tc.pos
      obtain ⟨q1, hev⟩ := Lit.expr c hvs (rest ++ tr :: k) hk1
      obtain ⟨h1, hev⟩ := hev ta.pos
      obtain ⟨s2, h2, q2, h3, hsep, hloop⟩ :=
        RestE.mapTail c hrest tr k hr q1 (ks ++ [mapKey kn]) (vs ++ [vn])
      obtain ⟨t0, ts', hts0, hok, _⟩ := hks.head
      have e1 : tc :: (kts ++ ta :: (vts ++ rest)) ++ tr :: k
          = tc :: (kts ++ ta :: (vts ++ (rest ++ tr :: k))) := by simp
      have hpk1 : St.peekn ⟨q, tc :: (kts ++ ta :: (vts ++ (rest ++ tr :: k)))⟩ 1 ['>', '>', '>']
          (some .interpunction) = false := by
        simp [St.peekn, St.tokIs, hc.1]
      have hpk2 : St.peekn ⟨tc.pos, kts ++ ta :: (vts ++ (rest ++ tr :: k))⟩ 1 ['>', '>', '>']
          (some .interpunction) = false := by
        rw [hts0, List.cons_append, peekn_head]; exact hok.tokIs_false _ (by decide) (by decide) (by decide)
      rw [e1]
      refine ⟨⟨tc.pos, kts ++ ta :: (vts ++ (rest ++ tr :: k))⟩, by simp, q2,
        by simp at h3 h2 h1 h0 ⊢; omega, ?_, ?_⟩
      · simp [sepUnless, hpk1, St.expect, hc.1, hc.2]
      · rw [Parser.mapLoop]
        simp [hpk2, hek, hev, St.expect, ha.1, ha.2, hsep, hloop, bind, Except.bind, pure, Except.pure]
end

/-! ### the whole program is one literal -/

theorem Lit.unwrapReturn {ts : List Token} {n : Node} (h : Lit ts n) : unwrapReturn n = n := by
  cases h with
  | atom ha => cases ha <;> rfl
  | _ => rfl

/-- **a program that is one data literal parses to the AST of that literal** -/
theorem Lit.parse (validRe : List Char → Bool) (file : String) {ts : List Token} {n : Node}
    (h : Lit ts n) : parseWith validRe file ts = .ok n := by
  obtain ⟨t0, ts', hts0, hok, hstr⟩ := h.head
  subst hts0
  apply parse_of_expression validRe file t0 ts' n hok.1 hstr _ h.unwrapReturn
  intro c p _
  have hex := Lit.expr c h [] Stop.nil
  rw [List.append_nil] at hex
  obtain ⟨q, hq⟩ := hex
  exact ⟨q, hq p⟩

/-! ### from the (value, type) sequence to the literal -/

theorem mapKey_of_nodeIs {k : Val} {kn : Node} (h : NodeIs k kn) (hk : k ≠ .null) : mapKey kn = kn := by
  cases k with
  | null => exact absurd rfl hk
  | bool b => obtain ⟨p, rfl⟩ := h; rfl
  | int n => obtain ⟨p, rfl⟩ := h; rfl
  | str s => obtain ⟨p, rfl⟩ := h; rfl
  | list xs => obtain ⟨ns, p, rfl, _⟩ := h; rfl
  | set xs => obtain ⟨ns, p, rfl, _⟩ := h; rfl
  | map kvs => obtain ⟨ks, vs, p, rfl, _⟩ := h; rfl
  | dec m e => simp [NodeIs] at h
  | pat s => simp [NodeIs] at h
  | date d => simp [NodeIs] at h

theorem scalar_atom (dr : DecRenderer) (v : Val)
    (hv : v = .null ∨ (∃ b, v = .bool b) ∨ (∃ n, v = .int n) ∨ (∃ s, v = .str s)) (hd : IsData' dr v)
    (l : List Token) (hl : l.map tv = dataToks v) : ∃ n, Atom l n ∧ NodeIs v n := by
  rcases hv with rfl | ⟨b, rfl⟩ | ⟨n, rfl⟩ | ⟨s, rfl⟩
  · obtain ⟨t, rfl, h1, h2⟩ := map_tv_singleton (by simpa [dataToks] using hl)
    exact ⟨_, .ident t h2, ⟨t.pos, by rw [h1]; rfl⟩⟩
  · cases b with
    | true =>
      obtain ⟨t, rfl, h1, h2⟩ := map_tv_singleton (by simpa [dataToks] using hl)
      exact ⟨_, .bool t h2, ⟨t.pos, by rw [h1]; rfl⟩⟩
    | false =>
      obtain ⟨t, rfl, h1, h2⟩ := map_tv_singleton (by simpa [dataToks] using hl)
      exact ⟨_, .bool t h2, ⟨t.pos, by rw [h1]; rfl⟩⟩
  · have hd' : (Nat.toDigits 10 n.natAbs).length ≤ 4300 := by simpa [IsData'] using hd
    by_cases hn : n < 0
    · simp only [dataToks, intToks, hn, if_true] at hl
      cases l with
      | nil => simp at hl
      | cons tm l' =>
        simp only [List.map_cons, List.cons.injEq, tv, Prod.mk.injEq] at hl
        obtain ⟨⟨hm1, hm2⟩, hl'⟩ := hl
        obtain ⟨t, rfl, h1, h2⟩ := map_tv_singleton hl'
        refine ⟨_, .negInt tm t n.natAbs ⟨hm1, hm2⟩ h2 (by rw [h1]; exact parseIntLit_toDigits _ hd'),
          ⟨t.pos, ?_⟩⟩
        congr 2; omega
    · simp only [dataToks, intToks, hn, if_false] at hl
      obtain ⟨t, rfl, h1, h2⟩ := map_tv_singleton hl
      refine ⟨_, .int t n.natAbs h2 (by rw [h1]; exact parseIntLit_toDigits _ hd'), ⟨t.pos, ?_⟩⟩
      congr 2; omega
  · obtain ⟨t, rfl, h1, h2⟩ := map_tv_singleton (by simpa [dataToks] using hl)
    exact ⟨_, .str t h2, ⟨t.pos, by rw [h1]⟩⟩

/-- a token list `tl :: (body ++ [tr])` from its (value, type) sequence -/
theorem split_brackets {l : List Token} {o c : TV} {mid : List TV} (h : l.map tv = o :: (mid ++ [c])) :
    ∃ tl tr body, l = tl :: (body ++ [tr]) ∧ IsTok tl o.1 o.2 ∧ IsTok tr c.1 c.2 ∧ body.map tv = mid := by
  cases l with
  | nil => simp at h
  | cons tl l' =>
    simp only [List.map_cons, List.cons.injEq] at h
    obtain ⟨h1, h2⟩ := h
    obtain ⟨body, lr, rfl, hbody, hlr⟩ := List.map_eq_append_iff.mp h2
    cases lr with
    | nil => simp at hlr
    | cons tr lr' =>
      cases lr' with
      | nil =>
        simp only [List.map_cons, List.map_nil, List.cons.injEq, and_true] at hlr
        refine ⟨tl, tr, body, rfl, ?_, ?_, hbody⟩
        · rw [← h1]; exact ⟨rfl, rfl⟩
        · rw [← hlr]; exact ⟨rfl, rfl⟩
      | cons _ _ => simp at hlr

mutual
  /-- a token list whose (value, type) sequence is `tokensOf v` spells the literal of `v` -/
  theorem lit_val (dr : DecRenderer) : ∀ (v : Val), IsData' dr v → ∀ (l : List Token),
      l.map tv = tokensOf v → ∃ n, Lit l n ∧ NodeIs v n
    | .null, hd, l, hl => by
      obtain ⟨n, h1, h2⟩ := scalar_atom dr .null (Or.inl rfl) hd l hl; exact ⟨n, .atom h1, h2⟩
    | .bool b, hd, l, hl => by
      obtain ⟨n, h1, h2⟩ := scalar_atom dr (.bool b) (Or.inr (Or.inl ⟨b, rfl⟩)) hd l
        (by cases b <;> exact hl)
      exact ⟨n, .atom h1, h2⟩
    | .int k, hd, l, hl => by
      obtain ⟨n, h1, h2⟩ := scalar_atom dr (.int k) (Or.inr (Or.inr (Or.inl ⟨k, rfl⟩))) hd l hl
      exact ⟨n, .atom h1, h2⟩
    | .str s, hd, l, hl => by
      obtain ⟨n, h1, h2⟩ := scalar_atom dr (.str s) (Or.inr (Or.inr (Or.inr ⟨s, rfl⟩))) hd l hl
      exact ⟨n, .atom h1, h2⟩
    | .list [], _, l, hl => by
      simp only [tokensOf, tokensLs, sepToks, List.nil_append] at hl
      obtain ⟨tl, tr, body, rfl, h1, h2, hb⟩ := split_brackets (mid := []) hl
      have : body = [] := by simpa using hb
      subst this
      exact ⟨_, .list0 tl tr h1 h2, ⟨[], tl.pos, rfl, by simp [NodeIsL]⟩⟩
    | .list (x :: xs), hd, l, hl => by
      simp only [IsData', IsDataL'] at hd
      simp only [tokensOf, tokensLs, sepToks] at hl
      obtain ⟨tl, tr, body, rfl, h1, h2, hb⟩ := split_brackets hl
      obtain ⟨ts, rest, rfl, hts, hrest⟩ := List.map_eq_append_iff.mp hb
      obtain ⟨n, hn, hnn⟩ := lit_val dr x hd.1 ts hts
      obtain ⟨ns, hns, hnns⟩ := lit_tail dr xs hd.2 rest hrest
      refine ⟨.list (n :: ns) tl.pos, ?_, ⟨n :: ns, tl.pos, rfl, ?_⟩⟩
      · have := Lit.list tl tr ts rest n ns h1 h2 hn hns
        simpa using this
      · rw [NodeIsL]; exact ⟨n, ns, rfl, hnn, hnns⟩
    | .set [], _, l, hl => by
      simp only [tokensOf, tokensLs, sepToks, List.nil_append] at hl
      obtain ⟨tl, tr, body, rfl, h1, h2, hb⟩ := split_brackets (mid := []) hl
      have : body = [] := by simpa using hb
      subst this
      exact ⟨_, .set0 tl tr h1 h2, ⟨[], tl.pos, rfl, by simp [NodeIsL]⟩⟩
    | .set (x :: xs), hd, l, hl => by
      simp only [IsData', IsDataL'] at hd
      simp only [tokensOf, tokensLs, sepToks] at hl
      obtain ⟨tl, tr, body, rfl, h1, h2, hb⟩ := split_brackets hl
      obtain ⟨ts, rest, rfl, hts, hrest⟩ := List.map_eq_append_iff.mp hb
      obtain ⟨n, hn, hnn⟩ := lit_val dr x hd.1.1 ts hts
      obtain ⟨ns, hns, hnns⟩ := lit_tail dr xs hd.1.2 rest hrest
      refine ⟨.set (n :: ns) tl.pos, ?_, ⟨n :: ns, tl.pos, rfl, ?_⟩⟩
      · have := Lit.set tl tr ts rest n ns h1 h2 hn hns
        simpa using this
      · rw [NodeIsL]; exact ⟨n, ns, rfl, hnn, hnns⟩
    | .map [], _, l, hl => by
      simp only [tokensOf, tokensMs, sepToks, List.nil_append] at hl
      obtain ⟨tl, tr, body, rfl, h1, h2, hb⟩ := split_brackets (mid := []) hl
      have : body = [] := by simpa using hb
      subst this
      exact ⟨_, .map0 tl tr h1 h2, ⟨[], [], tl.pos, rfl, by simp [NodeIsM]⟩⟩
    | .map ((k, v) :: rest), hd, l, hl => by
      simp only [IsData', IsDataM'] at hd
      simp only [tokensOf, tokensMs, sepToks] at hl
      obtain ⟨tl, tr, body, rfl, h1, h2, hb⟩ := split_brackets hl
      obtain ⟨ent, rst, rfl, hent, hrst⟩ := List.map_eq_append_iff.mp hb
      obtain ⟨kts, avts, rfl, hkts, havts⟩ := List.map_eq_append_iff.mp hent
      cases avts with
      | nil => simp at havts
      | cons ta vts =>
        simp only [List.map_cons, List.cons.injEq] at havts
        obtain ⟨ha, hvts⟩ := havts
        have ha' : IsTok ta ['=', '>'] .interpunction := by
          have : tv ta = (['=', '>'], ip) := ha
          simp only [tv, Prod.mk.injEq] at this; exact this
        obtain ⟨kn, hkn, hknn⟩ := lit_val dr k hd.1.2.1 kts hkts
        obtain ⟨vn, hvn, hvnn⟩ := lit_val dr v hd.1.2.2.1 vts hvts
        obtain ⟨kns, vns, hr, hrn⟩ := lit_tailE dr rest hd.1.2.2.2 rst hrst
        have hmk := mapKey_of_nodeIs hknn hd.1.1
        refine ⟨.map (kn :: kns) (vn :: vns) tl.pos, ?_, ⟨kn :: kns, vn :: vns, tl.pos, rfl, ?_⟩⟩
        · have := Lit.map tl tr ta kts vts rst kn vn kns vns h1 h2 ha' hkn hvn hr
          rw [hmk] at this
          simpa using this
        · rw [NodeIsM]; exact ⟨kn, kns, vn, vns, rfl, rfl, hknn, hvnn, hrn⟩
    | .dec _ _, hv, _, _ => by simp [IsData'] at hv
    | .pat _, hv, _, _ => by simp [IsData'] at hv
    | .date _, hv, _, _ => by simp [IsData'] at hv
  theorem lit_tail (dr : DecRenderer) : ∀ (ys : List Val), IsDataL' dr ys → ∀ (l : List Token),
      l.map tv = (tokensLs ys).flatMap (fun y => ([','], ip) :: y) → ∃ ns, Rest l ns ∧ NodeIsL ys ns
    | [], _, l, hl => by
      have : l = [] := by simpa [tokensLs] using hl
      subst this; exact ⟨[], .nil, by simp [NodeIsL]⟩
    | y :: ys, hd, l, hl => by
      simp only [IsDataL'] at hd
      simp only [tokensLs, List.flatMap_cons] at hl
      cases l with
      | nil => simp at hl
      | cons tc l' =>
        simp only [List.map_cons, List.cons_append, List.cons.injEq, tv, Prod.mk.injEq] at hl
        obtain ⟨⟨hc1, hc2⟩, hl'⟩ := hl
        obtain ⟨ts, rest, rfl, hts, hrest⟩ := List.map_eq_append_iff.mp hl'
        obtain ⟨n, hn, hnn⟩ := lit_val dr y hd.1 ts hts
        obtain ⟨ns, hns, hnns⟩ := lit_tail dr ys hd.2 rest hrest
        exact ⟨n :: ns, .cons tc ts rest n ns ⟨hc1, hc2⟩ hn hns, by rw [NodeIsL]; exact ⟨n, ns, rfl, hnn, hnns⟩⟩
  theorem lit_tailE (dr : DecRenderer) : ∀ (kvs : List (Val × Val)), IsDataM' dr kvs →
      ∀ (l : List Token), l.map tv = (tokensMs kvs).flatMap (fun y => ([','], ip) :: y) →
      ∃ kns vns, RestE l kns vns ∧ NodeIsM kvs kns vns
    | [], _, l, hl => by
      have : l = [] := by simpa [tokensMs] using hl
      subst this; exact ⟨[], [], .nil, by simp [NodeIsM]⟩
    | (k, v) :: rest, hd, l, hl => by
      simp only [IsDataM'] at hd
      simp only [tokensMs, List.flatMap_cons] at hl
      cases l with
      | nil => simp at hl
      | cons tc l' =>
        simp only [List.map_cons, List.cons_append, List.cons.injEq, tv, Prod.mk.injEq] at hl
        obtain ⟨⟨hc1, hc2⟩, hl'⟩ := hl
        obtain ⟨ent, rst, rfl, hent, hrst⟩ := List.map_eq_append_iff.mp hl'
        obtain ⟨kts, avts, rfl, hkts, havts⟩ := List.map_eq_append_iff.mp hent
        cases avts with
        | nil => simp at havts
        | cons ta vts =>
          simp only [List.map_cons, List.cons.injEq] at havts
          obtain ⟨ha, hvts⟩ := havts
          have ha' : IsTok ta ['=', '>'] .interpunction := by
            have : tv ta = (['=', '>'], ip) := ha
            simp only [tv, Prod.mk.injEq] at this; exact this
          obtain ⟨kn, hkn, hknn⟩ := lit_val dr k hd.2.1 kts hkts
          obtain ⟨vn, hvn, hvnn⟩ := lit_val dr v hd.2.2.1 vts hvts
          obtain ⟨kns, vns, hr, hrn⟩ := lit_tailE dr rest hd.2.2.2 rst hrst
          have hmk := mapKey_of_nodeIs hknn hd.1
          refine ⟨kn :: kns, vn :: vns, ?_, ?_⟩
          · have := RestE.cons tc ta kts vts rst kn vn kns vns ⟨hc1, hc2⟩ ha' hkn hvn hr
            rw [hmk] at this
            simpa using this
          · rw [NodeIsM]; exact ⟨kn, kns, vn, vns, rfl, rfl, hknn, hvnn, hrn⟩
end

end Ckl.C08F
