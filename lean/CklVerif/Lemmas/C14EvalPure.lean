import CklVerif.Lemmas.C14EvalSeq

/-! C14 (evaluator part) — `callPure` respects similarity: one lemma per built-in -/
namespace Ckl.C14E
open Ckl
set_option linter.unusedSimpArgs false
set_option linter.unusedVariables false

macro_rules | `(tactic| resp_lib) => `(tactic| (apply nativeAdd_resp <;> ers_tac))
macro_rules | `(tactic| resp_lib) => `(tactic| (apply nativeSub_resp <;> ers_tac))
macro_rules | `(tactic| resp_lib) => `(tactic| (apply nativeMul_resp <;> ers_tac))
macro_rules | `(tactic| resp_lib) => `(tactic| (apply nativeDiv_resp <;> ers_tac))
macro_rules | `(tactic| resp_lib) => `(tactic| (apply nativeMod_resp <;> ers_tac))

/-- both calls are handled by `callPure` with similar computations, or both are not -/
def PureSim (o o' : Option (EvalM RVal)) : Prop :=
  match o, o' with
  | some m, some m' => Resp m m'
  | none, none => True
  | _, _ => False

section
variable {args args' : List (String × RVal)} {d d' : Option RVal} {p p' : Pos}
  (ha : ers args = ers args') (hd : ers d = ers d')
include ha hd

theorem callPure_add : PureSim (callPure "add" args d p) (callPure "add" args' d' p') := by
  unfold callPure; simp only [PureSim]; resp!

theorem callPure_sub : PureSim (callPure "sub" args d p) (callPure "sub" args' d' p') := by
  unfold callPure; simp only [PureSim]; resp!

theorem callPure_mul : PureSim (callPure "mul" args d p) (callPure "mul" args' d' p') := by
  unfold callPure; simp only [PureSim]; resp!

theorem callPure_div : PureSim (callPure "div" args d p) (callPure "div" args' d' p') := by
  unfold callPure; simp only [PureSim]; resp!

theorem callPure_mod : PureSim (callPure "mod" args d p) (callPure "mod" args' d' p') := by
  unfold callPure; simp only [PureSim]; resp!

theorem callPure_equals : PureSim (callPure "equals" args d p) (callPure "equals" args' d' p') := by
  unfold callPure; simp only [PureSim]; resp!

theorem callPure_not_equals : PureSim (callPure "not_equals" args d p) (callPure "not_equals" args' d' p') := by
  unfold callPure; simp only [PureSim]; resp!

theorem callPure_less : PureSim (callPure "less" args d p) (callPure "less" args' d' p') := by
  unfold callPure; simp only [PureSim]; resp!

theorem callPure_greater : PureSim (callPure "greater" args d p) (callPure "greater" args' d' p') := by
  unfold callPure; simp only [PureSim]; resp!

theorem callPure_less_equals : PureSim (callPure "less_equals" args d p) (callPure "less_equals" args' d' p') := by
  unfold callPure; simp only [PureSim]; resp!

theorem callPure_greater_equals : PureSim (callPure "greater_equals" args d p) (callPure "greater_equals" args' d' p') := by
  unfold callPure; simp only [PureSim]; resp!

theorem callPure_compare : PureSim (callPure "compare" args d p) (callPure "compare" args' d' p') := by
  unfold callPure; simp only [PureSim]; resp!

theorem callPure_type : PureSim (callPure "type" args d p) (callPure "type" args' d' p') := by
  unfold callPure; simp only [PureSim]; resp!

theorem callPure_identity : PureSim (callPure "identity" args d p) (callPure "identity" args' d' p') := by
  unfold callPure; simp only [PureSim]; resp!

theorem callPure_string : PureSim (callPure "string" args d p) (callPure "string" args' d' p') := by
  unfold callPure; simp only [PureSim]; resp!

theorem callPure_length : PureSim (callPure "length" args d p) (callPure "length" args' d' p') := by
  unfold callPure; simp only [PureSim]; resp!

theorem callPure_is_null : PureSim (callPure "is_null" args d p) (callPure "is_null" args' d' p') := by
  unfold callPure; simp only [PureSim]; resp!

theorem callPure_is_not_null : PureSim (callPure "is_not_null" args d p) (callPure "is_not_null" args' d' p') := by
  unfold callPure; simp only [PureSim]; resp!

theorem callPure_is_empty : PureSim (callPure "is_empty" args d p) (callPure "is_empty" args' d' p') := by
  unfold callPure; simp only [PureSim]; resp!

theorem callPure_if_null : PureSim (callPure "if_null" args d p) (callPure "if_null" args' d' p') := by
  unfold callPure; simp only [PureSim]; resp!

theorem callPure_append : PureSim (callPure "append" args d p) (callPure "append" args' d' p') := by
  unfold callPure; simp only [PureSim]; resp!

theorem callPure_insert_at : PureSim (callPure "insert_at" args d p) (callPure "insert_at" args' d' p') := by
  unfold callPure; simp only [PureSim]; resp!

theorem callPure_delete_at : PureSim (callPure "delete_at" args d p) (callPure "delete_at" args' d' p') := by
  unfold callPure; simp only [PureSim]; resp!

theorem callPure_remove : PureSim (callPure "remove" args d p) (callPure "remove" args' d' p') := by
  unfold callPure; simp only [PureSim]; resp!

theorem callPure_put : PureSim (callPure "put" args d p) (callPure "put" args' d' p') := by
  unfold callPure; simp only [PureSim]; resp!

theorem callPure_list : PureSim (callPure "list" args d p) (callPure "list" args' d' p') := by
  unfold callPure; simp only [PureSim]; resp!

theorem callPure_set : PureSim (callPure "set" args d p) (callPure "set" args' d' p') := by
  unfold callPure; simp only [PureSim]; resp!

theorem callPure_range : PureSim (callPure "range" args d p) (callPure "range" args' d' p') := by
  unfold callPure; simp only [PureSim]; resp!

theorem callPure_sum : PureSim (callPure "sum" args d p) (callPure "sum" args' d' p') := by
  unfold callPure; simp only [PureSim]; resp!
  rename_i h1 h2
  rw [eq_of_all_isInt h2 h1]
  resp

theorem callPure_zip : PureSim (callPure "zip" args d p) (callPure "zip" args' d' p') := by
  unfold callPure; simp only [PureSim]; resp!

theorem callPure_sublist : PureSim (callPure "sublist" args d p) (callPure "sublist" args' d' p') := by
  unfold callPure; simp only [PureSim]; resp!

theorem callPure_substr : PureSim (callPure "substr" args d p) (callPure "substr" args' d' p') := by
  unfold callPure; simp only [PureSim]; resp!

theorem callPure_find : PureSim (callPure "find" args d p) (callPure "find" args' d' p') := by
  unfold callPure; simp only [PureSim]; resp!

theorem callPure_find_last : PureSim (callPure "find_last" args d p) (callPure "find_last" args' d' p') := by
  unfold callPure; simp only [PureSim]; resp!

theorem callPure_contains : PureSim (callPure "contains" args d p) (callPure "contains" args' d' p') := by
  unfold callPure; simp only [PureSim]; resp!

theorem callPure_starts_with : PureSim (callPure "starts_with" args d p) (callPure "starts_with" args' d' p') := by
  unfold callPure; simp only [PureSim]; resp!

theorem callPure_ends_with : PureSim (callPure "ends_with" args d p) (callPure "ends_with" args' d' p') := by
  unfold callPure; simp only [PureSim]; resp!

theorem callPure_chr : PureSim (callPure "chr" args d p) (callPure "chr" args' d' p') := by
  unfold callPure; simp only [PureSim]; resp!

theorem callPure_ord : PureSim (callPure "ord" args d p) (callPure "ord" args' d' p') := by
  unfold callPure; simp only [PureSim]; resp!

theorem callPure_println : PureSim (callPure "println" args d p) (callPure "println" args' d' p') := by
  unfold callPure; simp only [PureSim]; resp!

theorem callPure_print : PureSim (callPure "print" args d p) (callPure "print" args' d' p') := by
  unfold callPure; simp only [PureSim]; resp!

end

end Ckl.C14E
