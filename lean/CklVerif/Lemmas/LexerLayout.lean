/-
  C14 helper lemmas: the token (type, value) sequence does not depend on the position
  counters, and whitespace / comments at a token boundary leave the automaton alone.
-/
import CklVerif.Lemmas.LexerNum
namespace Ckl.Lexer

/-- type and value of a token (what the parser looks at; positions are dropped) -/
def tv (t : Token) : List Char × TokType := (t.value, t.type)

/-- the dispatch result without the column expression -/
def Out.erase (o : Out) : Core × Option (List Char × TokType) × Bool :=
  (o.core, o.emit.map (fun e => (e.1, e.2.1)), o.again)

/-- the dispatch does not look at `column` except to compute the column of an emitted token -/
theorem step_col_indep (k : Core) (col col' : Int) (ch : Char) :
    (step k col ch).map Out.erase = (step k col' ch).map Out.erase := by
  unfold step
  split
  case h_8 | h_12 => rfl
  case h_17 | h_18 =>
    unfold stepRadix
    split
    · rfl
    · split
      · split <;> rfl
      · rfl
  all_goals first
    | rfl
    | (simp only [Except.map]
       unfold_steps
       repeat' split
       all_goals simp [Out.erase])

/-- same automaton variables, same emitted (type, value) sequence -/
def Sim (σ σ' : LexSt) : Prop :=
  σ.core = σ'.core ∧ σ.out.map (fun p => tv p.1) = σ'.out.map (fun p => tv p.1)

theorem Sim.refl (σ : LexSt) : Sim σ σ := ⟨rfl, rfl⟩
theorem Sim.symm {σ σ' : LexSt} (h : Sim σ σ') : Sim σ' σ := ⟨h.1.symm, h.2.symm⟩
theorem Sim.trans {a b c : LexSt} (h : Sim a b) (h' : Sim b c) : Sim a c :=
  ⟨h.1.trans h'.1, h.2.trans h'.2⟩

/-- both fail, or both succeed with similar results -/
def SimE : Except SynErr LexSt → Except SynErr LexSt → Prop
  | .ok a, .ok b => Sim a b
  | .error _, .error _ => True
  | _, _ => False

def SimD : Except SynErr (LexSt × Bool) → Except SynErr (LexSt × Bool) → Prop
  | .ok a, .ok b => Sim a.1 b.1 ∧ a.2 = b.2
  | .error _, .error _ => True
  | _, _ => False

theorem sim_count {σ σ' : LexSt} (h : Sim σ σ') (ch : Char) : Sim (σ.count ch) (σ'.count ch) := by
  obtain ⟨_, _, c3, c4, _, _⟩ := count_fields σ ch
  obtain ⟨_, _, c3', c4', _, _⟩ := count_fields σ' ch
  unfold Sim; rw [c3, c4, c3', c4']; exact h

theorem sim_capture {σ σ' : LexSt} (h : Sim σ σ') : Sim σ.capture σ'.capture := by
  obtain ⟨_, _, k3, k4⟩ := capture_fields σ
  obtain ⟨_, _, k3', k4'⟩ := capture_fields σ'
  unfold Sim; rw [k3, k4, k3', k4']; exact h

theorem sim_next {σ σ' : LexSt} (h : Sim σ σ') :
    Sim { σ with pos := σ.pos + 1 } { σ' with pos := σ'.pos + 1 } := h

theorem sim_dispatch {name : String} {σ σ' : LexSt} (h : Sim σ σ') (ch : Char) :
    SimD (σ.dispatch name ch) (σ'.dispatch name ch) := by
  have hc := step_col_indep σ.core σ.column σ'.column ch
  unfold LexSt.dispatch
  rw [← h.1]
  cases h1 : step σ.core σ.column ch with
  | error e =>
    cases h2 : step σ.core σ'.column ch with
    | error e' => trivial
    | ok o' => rw [h1, h2] at hc; cases hc
  | ok o =>
    cases h2 : step σ.core σ'.column ch with
    | error e' => rw [h1, h2] at hc; cases hc
    | ok o' =>
      rw [h1, h2] at hc
      simp only [Except.map, Except.ok.injEq, Out.erase, Prod.mk.injEq] at hc
      obtain ⟨hcore, hemit, hagain⟩ := hc
      refine ⟨⟨?_, ?_⟩, hagain⟩
      · obtain ⟨_, _, _, _, _, h6⟩ := push_fields name { σ with core := o.core } o.emit
        obtain ⟨_, _, _, _, _, h6'⟩ := push_fields name { σ' with core := o'.core } o'.emit
        rw [h6, h6']; exact hcore
      · cases he : o.emit with
        | none =>
          rw [he] at hemit
          cases he' : o'.emit with
          | none => exact h.2
          | some e' => rw [he'] at hemit; cases hemit
        | some e =>
          rw [he] at hemit
          cases he' : o'.emit with
          | none => rw [he'] at hemit; cases hemit
          | some e' =>
            rw [he'] at hemit
            obtain ⟨v, ty, c⟩ := e
            obtain ⟨v', ty', c'⟩ := e'
            simp only [Option.map_some, Option.some.injEq, Prod.mk.injEq] at hemit
            obtain ⟨rfl, rfl⟩ := hemit
            simp only [LexSt.push, List.map_cons, tv]
            rw [List.cons.injEq]
            exact ⟨rfl, h.2⟩

theorem sim_feed {name : String} {σ σ' : LexSt} (h : Sim σ σ') (ch : Char) :
    SimE (feed name σ ch) (feed name σ' ch) := by
  have h1 := sim_dispatch (name := name) (sim_capture (sim_count h ch)) ch
  unfold feed
  cases hd : (σ.count ch).capture.dispatch name ch with
  | error e =>
    cases hd' : (σ'.count ch).capture.dispatch name ch with
    | error e' => trivial
    | ok r' => rw [hd, hd'] at h1; exact h1.elim
  | ok r =>
    cases hd' : (σ'.count ch).capture.dispatch name ch with
    | error e' => rw [hd, hd'] at h1; exact h1.elim
    | ok r' =>
      rw [hd, hd'] at h1
      obtain ⟨σ2, b⟩ := r
      obtain ⟨σ2', b'⟩ := r'
      obtain ⟨hs, hb⟩ := h1
      simp only at hs hb
      subst hb
      cases b with
      | false => exact sim_next hs
      | true =>
        simp only
        have h2 := sim_dispatch (name := name) (sim_capture hs) ch
        cases hd2 : σ2.capture.dispatch name ch with
        | error e =>
          cases hd2' : σ2'.capture.dispatch name ch with
          | error e' => trivial
          | ok r' => rw [hd2, hd2'] at h2; exact h2.elim
        | ok r =>
          cases hd2' : σ2'.capture.dispatch name ch with
          | error e' => rw [hd2, hd2'] at h2; exact h2.elim
          | ok r' =>
            rw [hd2, hd2'] at h2
            obtain ⟨σ3, b3⟩ := r
            obtain ⟨σ3', b3'⟩ := r'
            exact sim_next h2.1

theorem sim_run {name : String} (l : List Char) : ∀ {σ σ' : LexSt}, Sim σ σ' →
    SimE (run name σ l) (run name σ' l) := by
  induction l with
  | nil => intro σ σ' h; exact h
  | cons c l ih =>
    intro σ σ' h
    have hf := sim_feed (name := name) h c
    cases h1 : feed name σ c with
    | error e =>
      cases h2 : feed name σ' c with
      | error e' => rw [run_cons_error _ h1, run_cons_error _ h2]; trivial
      | ok r' => rw [h1, h2] at hf; exact hf.elim
    | ok r =>
      cases h2 : feed name σ' c with
      | error e' => rw [h1, h2] at hf; exact hf.elim
      | ok r' =>
        rw [h1, h2] at hf
        rw [run_cons_ok _ h1, run_cons_ok _ h2]
        exact ih hf

/-! ### whitespace and comments in state 0 -/

/-- what a whitespace character does in state 0: only counters move -/
def wsStep (σ : LexSt) (ch : Char) : LexSt :=
  { core := σ.core, line := (σ.count ch).line, startline := (σ.count ch).line,
    column := (σ.count ch).column, pos := σ.pos + 1, startOff := σ.pos, out := σ.out }

/-- in state 0 a whitespace character only moves the counters -/
theorem feed_ws {name : String} {σ : LexSt} {ch : Char} (h0 : σ.core.state = .s0)
    (hws : ch ∈ whitespace) : feed name σ ch = .ok (wsStep σ ch) := by
  by_cases hn : ch = '\n'
  · simp [feed, LexSt.count, hn, LexSt.capture, h0, LexSt.dispatch, step_s0, step0_newline,
      LexSt.push, wsStep]
  · simp [feed, LexSt.count, hn, LexSt.capture, h0, LexSt.dispatch, step_s0, step0_ws _ _ hws,
      LexSt.push, wsStep]

/-- in state 9 (comment) any character but a newline only moves the counters -/
theorem feed_comment_body {name : String} {σ : LexSt} {ch : Char} (h9 : σ.core.state = .s9)
    (hc : ch ≠ '\n') :
    ∃ σ', feed name σ ch = .ok σ' ∧ σ'.core = σ.core ∧ σ'.out = σ.out := by
  obtain ⟨_, _, c3, c4, _, _⟩ := count_fields σ ch
  have hst : (σ.count ch).core.state = .s9 := by rw [c4]; exact h9
  have hcap : (σ.count ch).capture = σ.count ch := by
    unfold LexSt.capture; rw [if_neg (by rw [hst]; decide)]
  unfold feed
  rw [hcap]
  unfold LexSt.dispatch step
  simp only [hst, step9, hc, if_false, LexSt.push]
  exact ⟨_, rfl, c4, c3⟩

theorem run_comment_body {name : String} (body : List Char) : ∀ {σ : LexSt},
    σ.core.state = .s9 → '\n' ∉ body →
    ∃ σ', run name σ body = .ok σ' ∧ σ'.core = σ.core ∧ σ'.out = σ.out := by
  induction body with
  | nil => intro σ _ _; exact ⟨σ, rfl, rfl, rfl⟩
  | cons c body ih =>
    intro σ h9 hb
    have hc : c ≠ '\n' := fun h => hb (by simp [h])
    obtain ⟨σ1, hf, hk, ho⟩ := feed_comment_body (name := name) h9 hc
    obtain ⟨σ2, hr, hk2, ho2⟩ := ih (σ := σ1) (by rw [hk]; exact h9)
      (fun h => hb (List.mem_cons_of_mem _ h))
    exact ⟨σ2, by rw [run_cons_ok _ hf]; exact hr, hk2.trans hk, ho2.trans ho⟩

theorem feed_comment_start {name : String} {σ : LexSt} (h0 : σ.core.state = .s0) :
    ∃ σ', feed name σ '#' = .ok σ' ∧ σ'.core = { σ.core with state := .s9 } ∧ σ'.out = σ.out := by
  obtain ⟨_, _, c3, c4, _, _⟩ := count_fields σ '#'
  have hst : (σ.count '#').core.state = .s0 := by rw [c4]; exact h0
  unfold feed LexSt.dispatch
  have hcs : (σ.count '#').capture.core = σ.core := by
    rw [(capture_fields _).2.2.2, c4]
  have hco : (σ.count '#').capture.out = σ.out := by
    rw [(capture_fields _).2.2.1, c3]
  rw [step_s0 _ _ (by rw [hcs]; exact h0)]
  simp only [step0, if_true, LexSt.push]
  exact ⟨_, rfl, by simp [hcs], hco⟩

theorem feed_comment_end {name : String} {σ : LexSt} (h9 : σ.core.state = .s9) :
    ∃ σ', feed name σ '\n' = .ok σ' ∧ σ'.core = { σ.core with state := .s0 } ∧ σ'.out = σ.out := by
  obtain ⟨_, _, c3, c4, _, _⟩ := count_fields σ '\n'
  have hst : (σ.count '\n').core.state = .s9 := by rw [c4]; exact h9
  have hcap : (σ.count '\n').capture = σ.count '\n' := by
    unfold LexSt.capture; rw [if_neg (by rw [hst]; decide)]
  unfold feed
  rw [hcap]
  unfold LexSt.dispatch step
  simp only [hst, step9, if_true, LexSt.push]
  exact ⟨_, rfl, by simp [c4], c3⟩

/-- from state 0, a comment `#…\n` returns to state 0 with the same automaton variables and
    the same emitted tokens -/
theorem run_comment {name : String} {σ : LexSt} {body : List Char} (h0 : σ.core.state = .s0)
    (hb : '\n' ∉ body) :
    ∃ σ', run name σ ('#' :: (body ++ ['\n'])) = .ok σ' ∧ σ'.core = σ.core ∧ σ'.out = σ.out := by
  obtain ⟨σ1, hf1, hk1, ho1⟩ := feed_comment_start (name := name) h0
  have h9 : σ1.core.state = .s9 := by rw [hk1]
  obtain ⟨σ2, hr2, hk2, ho2⟩ := run_comment_body (name := name) body h9 hb
  have h9' : σ2.core.state = .s9 := by rw [hk2]; exact h9
  obtain ⟨σ3, hf3, hk3, ho3⟩ := feed_comment_end (name := name) h9'
  refine ⟨σ3, ?_, ?_, ?_⟩
  · rw [run_cons_ok _ hf1, run_append_ok _ hr2, run_cons_ok _ hf3]; rfl
  · rw [hk3, hk2, hk1]
    cases hσ : σ.core with
    | mk st tok tb => rw [hσ] at h0; simp only at h0; subst h0; rfl
  · rw [ho3, ho2, ho1]

/-- fillers: whitespace characters and complete comments -/
inductive Filler : List Char → Prop
  | nil : Filler []
  | ws {c : Char} {w : List Char} (h : c ∈ whitespace) : Filler w → Filler (c :: w)
  | comment {body w : List Char} (h : '\n' ∉ body) : Filler w → Filler ('#' :: (body ++ '\n' :: w))

/-- whitespace only -/
def AllWs (w : List Char) : Prop := ∀ c ∈ w, c ∈ whitespace

theorem filler_of_allWs {w : List Char} (h : AllWs w) : Filler w := by
  induction w with
  | nil => exact .nil
  | cons c w ih =>
    exact .ws (h c (by simp)) (ih (fun x hx => h x (List.mem_cons_of_mem _ hx)))

theorem run_filler {name : String} {w : List Char} (hw : Filler w) : ∀ {σ : LexSt},
    σ.core.state = .s0 →
    ∃ σ', run name σ w = .ok σ' ∧ σ'.core = σ.core ∧ σ'.out = σ.out := by
  induction hw with
  | nil => intro σ _; exact ⟨σ, rfl, rfl, rfl⟩
  | ws h _ ih =>
    intro σ h0
    rename_i c w _
    have hf := feed_ws (name := name) h0 h
    obtain ⟨σ2, hr, hk, ho⟩ := ih (σ := wsStep σ c) h0
    exact ⟨σ2, by rw [run_cons_ok _ hf]; exact hr, hk, ho⟩
  | comment h _ ih =>
    intro σ h0
    rename_i body w _
    obtain ⟨σ1, hr1, hk1, ho1⟩ := run_comment (name := name) h0 h
    obtain ⟨σ2, hr2, hk2, ho2⟩ := ih (σ := σ1) (by rw [hk1]; exact h0)
    refine ⟨σ2, ?_, hk2.trans hk1, ho2.trans ho1⟩
    have : '#' :: (body ++ '\n' :: w) = ('#' :: (body ++ ['\n'])) ++ w := by simp
    rw [this, run_append_ok _ hr1]; exact hr2

/-- the states inside a string, a pattern or a comment -/
def InText (st : St) : Prop :=
  st = .s3 ∨ st = .s31 ∨ st = .s311 ∨ st = .s312 ∨ st = .s4 ∨ st = .s41 ∨ st = .s411 ∨ st = .s412
    ∨ st = .s6 ∨ st = .s9

instance : DecidablePred InText := fun st => by unfold InText; infer_instance

theorem step_ws_state {k : Core} {col : Int} {ch : Char} {o : Out} (hst : ¬ InText k.state)
    (hws : ch ∈ whitespace) (h : step k col ch = .ok o) : o.core.state = .s0 := by
  unfold step at h
  split at h
  case h_5 | h_6 | h_7 | h_8 | h_9 | h_10 | h_11 | h_12 | h_14 | h_20 =>
    rename_i hs; exact absurd (by simp [InText, hs]) hst
  case h_17 | h_18 =>
    simp only [whitespace, List.mem_cons, List.not_mem_nil, or_false] at hws
    unfold stepRadix at h
    rcases hws with rfl | rfl | rfl | rfl <;> simp [hexDigits, numEnd] at h <;>
      (split at h <;> cases h <;> rfl)
  all_goals
    rename_i hs
    simp only [Except.ok.injEq] at h; subst h
    simp only [whitespace, List.mem_cons, List.not_mem_nil, or_false] at hws
    rcases hws with rfl | rfl | rfl | rfl <;>
      (unfold_steps; simp [wordEnd, numEnd, digits, whitespace, hs]) <;>
      (repeat' split) <;> simp_all

theorem dispatch_core {name : String} {σ σ' : LexSt} {ch : Char} {b : Bool}
    (hd : σ.dispatch name ch = .ok (σ', b)) :
    ∃ o, step σ.core σ.column ch = .ok o ∧ σ'.core = o.core ∧ b = o.again := by
  unfold LexSt.dispatch at hd
  cases hstep : step σ.core σ.column ch with
  | error e => rw [hstep] at hd; cases hd
  | ok o =>
    rw [hstep] at hd
    simp only [Except.ok.injEq, Prod.mk.injEq] at hd
    obtain ⟨rfl, rfl⟩ := hd
    exact ⟨o, rfl, (push_fields name { σ with core := o.core } o.emit).2.2.2.2.2, rfl⟩

/-- outside strings, patterns and comments a whitespace character ends the current token:
    afterwards the automaton is in state 0 -/
theorem feed_ws_state {name : String} {σ σ' : LexSt} {ch : Char} (hst : ¬ InText σ.core.state)
    (hws : ch ∈ whitespace) (hf : feed name σ ch = .ok σ') : σ'.core.state = .s0 := by
  have hcore : (σ.count ch).capture.core = σ.core := by
    rw [(capture_fields _).2.2.2, (count_fields σ ch).2.2.2.1]
  unfold feed at hf
  cases hd : (σ.count ch).capture.dispatch name ch with
  | error e => rw [hd] at hf; cases hf
  | ok r =>
    obtain ⟨σ2, b⟩ := r
    rw [hd] at hf
    obtain ⟨o, hstep, hk, hb⟩ := dispatch_core hd
    have h2 : σ2.core.state = .s0 := by
      rw [hk]; exact step_ws_state (by rw [hcore]; exact hst) hws hstep
    cases b with
    | false => simp only at hf; cases hf; exact h2
    | true =>
      simp only at hf
      cases hd2 : σ2.capture.dispatch name ch with
      | error e => rw [hd2] at hf; cases hf
      | ok r2 =>
        obtain ⟨σ3, b3⟩ := r2
        rw [hd2] at hf; cases hf
        obtain ⟨o2, hstep2, hk2, _⟩ := dispatch_core hd2
        have hc2 : σ2.capture.core = σ2.core := (capture_fields σ2).2.2.2
        show σ3.core.state = .s0
        rw [hk2]
        exact step_ws_state (by rw [hc2, h2]; simp [InText]) hws hstep2

end Ckl.Lexer
