/-
  C20 helper lemmas: the line-counter invariant of the scanner loop.
-/
import CklVerif.Lemmas.LexerBasic
namespace Ckl.Lexer

/-- number of newline characters -/
def nl (l : List Char) : Nat := l.count '\n'

/-- offset `o` holds a character that is not whitespace -/
def Start (s : List Char) (o : Nat) : Prop := ∃ c, s[o]? = some c ∧ c ∉ whitespace

/-- every emitted token carries the line of its first character and the file name, and
    starts at a non-whitespace character -/
def OutOK (name : String) (s : List Char) (out : List (Token × Nat)) : Prop :=
  ∀ p ∈ out, p.1.pos.line = 1 + nl (s.take p.2) ∧ p.1.pos.file = name ∧ Start s p.2

/-- `startline` is the line of the (non-whitespace) character at offset `startOff` -/
def SL (s : List Char) (σ : LexSt) : Prop :=
  σ.startline = 1 + nl (s.take σ.startOff) ∧ Start s σ.startOff

theorem push_out {name : String} {s : List Char} {σ : LexSt} (e : Option Emit)
    (hout : OutOK name s σ.out) (hsl : e ≠ none → SL s σ) : OutOK name s (σ.push name e).out := by
  cases e with
  | none => exact hout
  | some e =>
    obtain ⟨v, ty, col⟩ := e
    intro p hp
    simp only [LexSt.push, List.mem_cons] at hp
    rcases hp with rfl | hp
    · exact ⟨(hsl (by simp)).1, rfl, (hsl (by simp)).2⟩
    · exact hout p hp

theorem push_fields (name : String) (σ : LexSt) (e : Option Emit) :
    (σ.push name e).line = σ.line ∧ (σ.push name e).pos = σ.pos ∧ (σ.push name e).column = σ.column
    ∧ (σ.push name e).startline = σ.startline ∧ (σ.push name e).startOff = σ.startOff
    ∧ (σ.push name e).core = σ.core := by
  cases e with
  | none => simp [LexSt.push]
  | some e => obtain ⟨v, ty, col⟩ := e; simp [LexSt.push]

theorem dispatch_inv {name : String} {s : List Char} {σ σ' : LexSt} {ch : Char} {b : Bool}
    (hd : σ.dispatch name ch = .ok (σ', b))
    (hout : OutOK name s σ.out)
    (hsl : ¬ SL s σ → σ.core.state = .s0 ∧ ch ∈ whitespace) :
    σ'.line = σ.line ∧ σ'.pos = σ.pos ∧ OutOK name s σ'.out
      ∧ (σ'.core.state ≠ .s0 → SL s σ') ∧ (b = true → σ'.core.state = .s0)
      ∧ σ'.startOff = σ.startOff := by
  unfold LexSt.dispatch at hd
  cases hstep : step σ.core σ.column ch with
  | error e => rw [hstep] at hd; cases hd
  | ok o =>
    rw [hstep] at hd
    simp only [Except.ok.injEq, Prod.mk.injEq] at hd
    obtain ⟨rfl, rfl⟩ := hd
    have hf := push_fields name { σ with core := o.core } o.emit
    obtain ⟨h1, h2, _, h4, h5, h6⟩ := hf
    refine ⟨h1, h2, ?_, ?_, ?_, h5⟩
    · apply push_out (σ := { σ with core := o.core }) o.emit hout
      intro hne
      by_cases hS : SL s σ
      · exact hS
      · obtain ⟨h0, hws⟩ := hsl hS
        rw [step_s0 _ _ h0, step0_ws _ _ hws] at hstep
        cases hstep; exact absurd rfl hne
    · intro hst
      by_cases hS : SL s σ
      · unfold SL at hS ⊢; rw [h4, h5]; exact hS
      · obtain ⟨h0, hws⟩ := hsl hS
        rw [step_s0 _ _ h0, step0_ws _ _ hws] at hstep
        cases hstep
        rw [h6] at hst; exact absurd h0 hst
    · intro hb
      rw [h6]; exact step_again_state hstep hb

theorem capture_inv {s : List Char} {σ : LexSt} {ch : Char}
    (hs : s[σ.pos]? = some ch) (hline : σ.line = 1 + nl (s.take (σ.pos + 1)))
    (hsl : σ.core.state ≠ .s0 → SL s σ) :
    ¬ SL s σ.capture → σ.capture.core.state = .s0 ∧ ch ∈ whitespace := by
  unfold LexSt.capture
  split
  · rename_i h0
    intro hS
    refine ⟨h0, ?_⟩
    apply Classical.byContradiction
    intro hne
    apply hS
    have hnl : ch ≠ '\n' := by intro e; apply hne; rw [e]; decide
    refine ⟨?_, ch, hs, hne⟩
    show σ.line = 1 + nl (s.take σ.pos)
    rw [hline, List.take_add_one, hs]
    simp only [Option.toList_some, nl, List.count_append, List.count_cons, List.count_nil]
    have : (ch == '\n') = false := by simpa using hnl
    simp [this]
  · rename_i h0
    intro hS
    exact absurd (hsl h0) hS

theorem capture_fields (σ : LexSt) :
    σ.capture.line = σ.line ∧ σ.capture.pos = σ.pos ∧ σ.capture.out = σ.out ∧ σ.capture.core = σ.core := by
  unfold LexSt.capture; split <;> simp

theorem capture_startOff (σ : LexSt) :
    σ.capture.startOff = σ.startOff ∨ σ.capture.startOff = σ.pos := by
  unfold LexSt.capture; split
  · exact Or.inr rfl
  · exact Or.inl rfl

theorem count_fields (σ : LexSt) (ch : Char) :
    (σ.count ch).line = σ.line + (if ch = '\n' then 1 else 0) ∧ (σ.count ch).pos = σ.pos
      ∧ (σ.count ch).out = σ.out ∧ (σ.count ch).core = σ.core
      ∧ (σ.count ch).startline = σ.startline ∧ (σ.count ch).startOff = σ.startOff := by
  unfold LexSt.count; split <;> simp [*]

/-- the loop invariant -/
structure Inv (name : String) (s : List Char) (σ : LexSt) : Prop where
  line : σ.line = 1 + nl (s.take σ.pos)
  out : OutOK name s σ.out
  sl : σ.core.state ≠ .s0 → SL s σ
  off : σ.startOff ≤ σ.pos

theorem feed_inv {name : String} {s : List Char} {σ σ' : LexSt} {ch : Char}
    (hs : s[σ.pos]? = some ch) (hinv : Inv name s σ) (hf : feed name σ ch = .ok σ') :
    σ'.pos = σ.pos + 1 ∧ Inv name s σ' := by
  obtain ⟨hline, hout, hsl, hoff⟩ := hinv
  obtain ⟨c1, c2, c3, c4, c5, c6⟩ := count_fields σ ch
  have hline1 : (σ.count ch).line = 1 + nl (s.take ((σ.count ch).pos + 1)) := by
    rw [c1, c2, hline, List.take_add_one, hs]
    simp only [Option.toList_some, nl, List.count_append, List.count_cons, List.count_nil]
    by_cases h : ch = '\n' <;> simp [h] <;> omega
  have hsl1 : (σ.count ch).core.state ≠ .s0 → SL s (σ.count ch) := by
    rw [c4]; intro h; have := hsl h; unfold SL at this ⊢; rw [c5, c6]; exact this
  have hcap := capture_inv (by rw [c2]; exact hs) hline1 hsl1
  obtain ⟨k1, k2, k3, k4⟩ := capture_fields (σ.count ch)
  have hoff1 : (σ.count ch).capture.startOff ≤ σ.pos := by
    rcases capture_startOff (σ.count ch) with h | h <;> rw [h] <;> omega
  unfold feed at hf
  cases hd : (σ.count ch).capture.dispatch name ch with
  | error e => rw [hd] at hf; cases hf
  | ok r =>
    obtain ⟨σ2, again⟩ := r
    rw [hd] at hf
    obtain ⟨d1, d2, d3, d4, d5, d6⟩ := dispatch_inv hd (by rw [k3, c3]; exact hout) hcap
    have hp2 : σ2.pos = σ.pos := by rw [d2, k2, c2]
    cases again with
    | false =>
      simp only at hf
      cases hf
      refine ⟨by simp [hp2], ⟨?_, d3, d4, ?_⟩⟩
      · simp only [d1, d2, k1, k2]; exact hline1
      · show σ2.startOff ≤ σ2.pos + 1
        rw [d6, hp2]; omega
    | true =>
      simp only at hf
      cases hd2 : σ2.capture.dispatch name ch with
      | error e => rw [hd2] at hf; cases hf
      | ok r2 =>
        obtain ⟨σ3, b3⟩ := r2
        rw [hd2] at hf
        cases hf
        have hline2 : σ2.line = 1 + nl (s.take (σ2.pos + 1)) := by
          rw [d1, d2, k1, k2]; exact hline1
        have hcap2 := capture_inv (by rw [hp2]; exact hs) hline2 d4
        obtain ⟨m1, m2, m3, m4⟩ := capture_fields σ2
        obtain ⟨e1, e2, e3, e4, _, e6⟩ := dispatch_inv hd2 (by rw [m3]; exact d3) hcap2
        have hoff2 : σ2.capture.startOff ≤ σ.pos := by
          rcases capture_startOff σ2 with h | h <;> rw [h] <;> omega
        refine ⟨by simp [e2, m2, hp2], ⟨?_, e3, e4, ?_⟩⟩
        · simp only [e1, e2, m1, m2]; exact hline2
        · show σ3.startOff ≤ σ3.pos + 1
          rw [e6, e2, m2, hp2]; omega

theorem run_inv {name : String} {s : List Char} (rest : List Char) :
    ∀ (σ σ' : LexSt) (p tail : List Char), s = p ++ (rest ++ tail) → p.length = σ.pos →
      Inv name s σ → run name σ rest = .ok σ' → Inv name s σ' := by
  induction rest with
  | nil => intro σ σ' p tail _ _ hinv hr; cases hr; exact hinv
  | cons c rest ih =>
    intro σ σ' p tail hs hp hinv hr
    cases hf : feed name σ c with
    | error e => rw [run_cons_error _ hf] at hr; cases hr
    | ok σ1 =>
      rw [run_cons_ok _ hf] at hr
      have hget : s[σ.pos]? = some c := by
        rw [hs, ← hp]; simp
      obtain ⟨hpos, hinv1⟩ := feed_inv hget hinv hf
      exact ih σ1 σ' (p ++ [c]) tail (by simp [hs]) (by simp [hp, hpos]) hinv1 hr

theorem run_pos {name : String} (l : List Char) : ∀ {σ σ' : LexSt}, run name σ l = .ok σ' →
    σ'.pos = σ.pos + l.length := by
  induction l with
  | nil => intro σ σ' h; cases h; rfl
  | cons c l ih =>
    intro σ σ' h
    cases hf : feed name σ c with
    | error e => rw [run_cons_error _ hf] at h; cases h
    | ok σ1 =>
      rw [run_cons_ok _ hf] at h
      have h1 : σ1.pos = σ.pos + 1 := by
        unfold feed at hf
        cases hd : (σ.count c).capture.dispatch name c with
        | error e => rw [hd] at hf; cases hf
        | ok r =>
          obtain ⟨σ2, b⟩ := r
          rw [hd] at hf
          have hp2 : σ2.pos = σ.pos := by
            unfold LexSt.dispatch at hd
            cases hstep : step (σ.count c).capture.core (σ.count c).capture.column c with
            | error e => rw [hstep] at hd; cases hd
            | ok o =>
              rw [hstep] at hd; cases hd
              rw [(push_fields _ _ _).2.1]
              show (σ.count c).capture.pos = σ.pos
              rw [(capture_fields _).2.1, (count_fields σ c).2.1]
          cases b with
          | false => simp only at hf; cases hf; simp [hp2]
          | true =>
            simp only at hf
            cases hd2 : σ2.capture.dispatch name c with
            | error e => rw [hd2] at hf; cases hf
            | ok r2 =>
              obtain ⟨σ3, b3⟩ := r2
              rw [hd2] at hf; cases hf
              unfold LexSt.dispatch at hd2
              cases hstep : step σ2.capture.core σ2.capture.column c with
              | error e => rw [hstep] at hd2; cases hd2
              | ok o =>
                rw [hstep] at hd2; cases hd2
                show (LexSt.push name _ o.emit).pos + 1 = σ.pos + 1
                rw [(push_fields _ _ _).2.1]
                show σ2.capture.pos + 1 = σ.pos + 1
                rw [(capture_fields _).2.1, hp2]
      rw [ih h, h1, List.length_cons]; omega

theorem dispatch_error_file {name : String} {σ : LexSt} {ch : Char} {e : SynErr}
    (hd : σ.dispatch name ch = .error e) : e.pos.file = name := by
  unfold LexSt.dispatch at hd
  cases hstep : step σ.core σ.column ch with
  | ok o => rw [hstep] at hd; cases hd
  | error le => rw [hstep] at hd; cases hd; unfold LexSt.synErr; split <;> rfl

theorem feed_error_file {name : String} {σ : LexSt} {ch : Char} {e : SynErr}
    (hf : feed name σ ch = .error e) : e.pos.file = name := by
  unfold feed at hf
  cases hd : (σ.count ch).capture.dispatch name ch with
  | error e1 => rw [hd] at hf; cases hf; exact dispatch_error_file hd
  | ok r =>
    obtain ⟨σ2, b⟩ := r
    rw [hd] at hf
    cases b with
    | false => simp only at hf; cases hf
    | true =>
      simp only at hf
      cases hd2 : σ2.capture.dispatch name ch with
      | error e2 => rw [hd2] at hf; cases hf; exact dispatch_error_file hd2
      | ok r2 => obtain ⟨σ3, b3⟩ := r2; rw [hd2] at hf; cases hf

/-! ### the line of a syntax error -/

theorem run_error_split {name : String} {e : SynErr} (l : List Char) : ∀ {σ : LexSt},
    run name σ l = .error e →
    ∃ p c rest σ1, l = p ++ c :: rest ∧ run name σ p = .ok σ1 ∧ feed name σ1 c = .error e := by
  induction l with
  | nil => intro σ h; cases h
  | cons c l ih =>
    intro σ h
    cases hf : feed name σ c with
    | error e' =>
      rw [run_cons_error _ hf] at h; cases h
      exact ⟨[], c, l, σ, rfl, rfl, hf⟩
    | ok σ1 =>
      rw [run_cons_ok _ hf] at h
      obtain ⟨p, c', rest, σ2, hl, hr, hf2⟩ := ih h
      exact ⟨c :: p, c', rest, σ2, by rw [hl]; rfl, by rw [run_cons_ok _ hf]; exact hr, hf2⟩

theorem dispatch_error_line {name : String} {σ : LexSt} {ch : Char} {e : SynErr}
    (hd : σ.dispatch name ch = .error e) :
    σ.core.state ≠ .s0 ∧ (e.pos.line = σ.line ∨ e.pos.line = σ.startline) := by
  unfold LexSt.dispatch at hd
  cases hstep : step σ.core σ.column ch with
  | ok o => rw [hstep] at hd; cases hd
  | error le =>
    rw [hstep] at hd; cases hd
    refine ⟨?_, ?_⟩
    · intro h0; rw [step_s0 _ _ h0] at hstep; cases hstep
    · unfold LexSt.synErr; split
      · exact Or.inl rfl
      · exact Or.inr rfl

/-- a failing iteration: the error line is the line of the current character (counted after a
    newline) or the line of the character at which the current token started -/
theorem feed_error_line {name : String} {s : List Char} {σ : LexSt} {ch : Char} {e : SynErr}
    (hs : s[σ.pos]? = some ch) (hinv : Inv name s σ) (hf : feed name σ ch = .error e) :
    e.pos.line = 1 + nl (s.take (σ.pos + 1)) ∨ e.pos.line = 1 + nl (s.take σ.startOff) := by
  obtain ⟨hline, hout, hsl, _⟩ := hinv
  obtain ⟨c1, c2, c3, c4, c5, c6⟩ := count_fields σ ch
  have hline1 : (σ.count ch).line = 1 + nl (s.take ((σ.count ch).pos + 1)) := by
    rw [c1, c2, hline, List.take_add_one, hs]
    simp only [Option.toList_some, nl, List.count_append, List.count_cons, List.count_nil]
    by_cases h : ch = '\n' <;> simp [h] <;> omega
  have hsl1 : (σ.count ch).core.state ≠ .s0 → SL s (σ.count ch) := by
    rw [c4]; intro h; have := hsl h; unfold SL at this ⊢; rw [c5, c6]; exact this
  have hcap := capture_inv (by rw [c2]; exact hs) hline1 hsl1
  obtain ⟨k1, k2, k3, k4⟩ := capture_fields (σ.count ch)
  unfold feed at hf
  cases hd : (σ.count ch).capture.dispatch name ch with
  | error e1 =>
    rw [hd] at hf; cases hf
    obtain ⟨hne, hl⟩ := dispatch_error_line hd
    rcases hl with hl | hl
    · left; rw [hl, k1, hline1, c2]
    · right
      have hne' : (σ.count ch).core.state ≠ .s0 := by rw [← k4]; exact hne
      have hcapeq : (σ.count ch).capture = σ.count ch := by
        unfold LexSt.capture; rw [if_neg hne']
      rw [hl, hcapeq, c5]
      have := hsl (by rw [← c4]; exact hne')
      exact this.1
  | ok r =>
    obtain ⟨σ2, again⟩ := r
    rw [hd] at hf
    obtain ⟨d1, d2, d3, d4, d5⟩ := dispatch_inv hd (by rw [k3, c3]; exact hout) hcap
    cases again with
    | false => simp only at hf; cases hf
    | true =>
      simp only at hf
      cases hd2 : σ2.capture.dispatch name ch with
      | ok r2 => obtain ⟨σ3, b3⟩ := r2; rw [hd2] at hf; cases hf
      | error e2 =>
        obtain ⟨hne, _⟩ := dispatch_error_line hd2
        exact absurd (by rw [(capture_fields σ2).2.2.2]; exact d5.1 rfl) hne

theorem inv_init (name : String) (s : List Char) : Inv name s {} :=
  ⟨(by simp [nl]), (fun p hp => nomatch hp), (fun h => absurd rfl h), Nat.le_refl _⟩

theorem nl_take_snoc_space (s : List Char) (o : Nat) : nl ((s ++ [' ']).take o) = nl (s.take o) := by
  rw [List.take_append]
  simp only [nl, List.count_append]
  have : List.count '\n' (List.take (o - s.length) [' ']) = 0 := by
    apply List.count_eq_zero.mpr
    intro h
    have := List.mem_of_mem_take h
    simp at this
  omega

end Ckl.Lexer
