import CklVerif.Lemmas.C13NoHost

/-!
  C20 (evaluator part) — vocabulary.

  * `Node.positions n`       : every position stored in the AST `n` (all sub-terms included)
  * `NodeOK P n`             : every position stored in `n` satisfies `P`
  * `RVal.positions v`       : the positions carried by a runtime value (control values `break` / `continue` /
                               `return v`); `ValOK P v`: all of them satisfy `P`
  * `State.positions s`      : every position stored in the state: in ASTs (closure bodies and parameter defaults
                               of the closure cells of the heap) and in values (elements of list / set / map /
                               object cells, variables of the frames)
  * `StOK P s`               : every such position satisfies `P`
  * `Loader.positions ld`    : every position stored in a module AST of the loader
-/
namespace Ckl

/-! ### positions of an AST -/

mutual
/-- all positions stored in a node, the node's own position first -/
def Node.positions : Node → List Pos
  | .absent => []
  | .catchAll => []
  | .null p => [p]
  | .lit _ p => [p]
  | .ident _ p => [p]
  | .and es p => p :: Node.positionsL es
  | .or es p => p :: Node.positionsL es
  | .not e p => p :: e.positions
  | .assign _ e p => p :: e.positions
  | .assignD _ e p => p :: e.positions
  | .block es ce ch fin _ p =>
      p :: (Node.positionsL es ++ (Node.positionsL ce ++ (Node.positionsL ch ++ Node.positionsL fin)))
  | .brk p => [p]
  | .cont p => [p]
  | .cls _ ms p => p :: Node.positionsL ms
  | .defn _ e _ p => p :: e.positions
  | .defD _ e _ p => p :: e.positions
  | .deref e i d p => p :: (e.positions ++ (i.positions ++ d.positions))
  | .derefAssign e i v p => p :: (e.positions ++ (i.positions ++ v.positions))
  | .derefInvoke o _ _ args p => p :: (o.positions ++ Node.positionsL args)
  | .slice e a b p => p :: (e.positions ++ (a.positions ++ b.positions))
  | .error e p => p :: e.positions
  | .for _ e body _ p => p :: (e.positions ++ body.positions)
  | .call fn _ args p => p :: (fn.positions ++ Node.positionsL args)
  | .ite cs xs els p => p :: (Node.positionsL cs ++ (Node.positionsL xs ++ els.positions))
  | .isIn e c p => p :: (e.positions ++ c.positions)
  | .lambda _ ds body p => p :: (Node.positionsL ds ++ body.positions)
  | .list items p => p :: Node.positionsL items
  | .compr _ _ ve ke _ l1 _ _ l2 _ cond p =>
      p :: (ve.positions ++ (ke.positions ++ (l1.positions ++ (l2.positions ++ cond.positions))))
  | .map ks vs p => p :: (Node.positionsL ks ++ Node.positionsL vs)
  | .object _ vs p => p :: Node.positionsL vs
  | .require spec _ _ _ p => p :: spec.positions
  | .ret e p => p :: e.positions
  | .set items p => p :: Node.positionsL items
  | .spread e p => p :: e.positions
  | .while c body p => p :: (c.positions ++ body.positions)
def Node.positionsL : List Node → List Pos
  | [] => []
  | n :: ns => n.positions ++ Node.positionsL ns
end

mutual
/-- every position stored in the node satisfies `P` -/
def NodeOK (P : Pos → Prop) : Node → Prop
  | .absent => True
  | .catchAll => True
  | .null p => P p
  | .lit _ p => P p
  | .ident _ p => P p
  | .and es p => P p ∧ NodesOK P es
  | .or es p => P p ∧ NodesOK P es
  | .not e p => P p ∧ NodeOK P e
  | .assign _ e p => P p ∧ NodeOK P e
  | .assignD _ e p => P p ∧ NodeOK P e
  | .block es ce ch fin _ p => P p ∧ NodesOK P es ∧ NodesOK P ce ∧ NodesOK P ch ∧ NodesOK P fin
  | .brk p => P p
  | .cont p => P p
  | .cls _ ms p => P p ∧ NodesOK P ms
  | .defn _ e _ p => P p ∧ NodeOK P e
  | .defD _ e _ p => P p ∧ NodeOK P e
  | .deref e i d p => P p ∧ NodeOK P e ∧ NodeOK P i ∧ NodeOK P d
  | .derefAssign e i v p => P p ∧ NodeOK P e ∧ NodeOK P i ∧ NodeOK P v
  | .derefInvoke o _ _ args p => P p ∧ NodeOK P o ∧ NodesOK P args
  | .slice e a b p => P p ∧ NodeOK P e ∧ NodeOK P a ∧ NodeOK P b
  | .error e p => P p ∧ NodeOK P e
  | .for _ e body _ p => P p ∧ NodeOK P e ∧ NodeOK P body
  | .call fn _ args p => P p ∧ NodeOK P fn ∧ NodesOK P args
  | .ite cs xs els p => P p ∧ NodesOK P cs ∧ NodesOK P xs ∧ NodeOK P els
  | .isIn e c p => P p ∧ NodeOK P e ∧ NodeOK P c
  | .lambda _ ds body p => P p ∧ NodesOK P ds ∧ NodeOK P body
  | .list items p => P p ∧ NodesOK P items
  | .compr _ _ ve ke _ l1 _ _ l2 _ cond p =>
      P p ∧ NodeOK P ve ∧ NodeOK P ke ∧ NodeOK P l1 ∧ NodeOK P l2 ∧ NodeOK P cond
  | .map ks vs p => P p ∧ NodesOK P ks ∧ NodesOK P vs
  | .object _ vs p => P p ∧ NodesOK P vs
  | .require spec _ _ _ p => P p ∧ NodeOK P spec
  | .ret e p => P p ∧ NodeOK P e
  | .set items p => P p ∧ NodesOK P items
  | .spread e p => P p ∧ NodeOK P e
  | .while c body p => P p ∧ NodeOK P c ∧ NodeOK P body
def NodesOK (P : Pos → Prop) : List Node → Prop
  | [] => True
  | n :: ns => NodeOK P n ∧ NodesOK P ns
end

/-- unfold `NodeOK` / `NodesOK` on constructor applications in a hypothesis -/
macro "nodeok_at " h:ident : tactic => `(tactic| simp only [NodeOK, NodesOK] at $h:ident)

section
variable (P : Pos → Prop)

local macro "nk" : tactic =>
  `(tactic| simp_all [NodeOK, NodesOK, Node.positions, Node.positionsL, or_imp, forall_and])

mutual
theorem nodeOK_iff : ∀ n : Node, NodeOK P n ↔ ∀ p ∈ n.positions, P p
  | .absent => by nk
  | .catchAll => by nk
  | .null p => by nk
  | .lit _ p => by nk
  | .ident _ p => by nk
  | .and es p => by have := nodesOK_iff es; nk
  | .or es p => by have := nodesOK_iff es; nk
  | .not e p => by have := nodeOK_iff e; nk
  | .assign _ e p => by have := nodeOK_iff e; nk
  | .assignD _ e p => by have := nodeOK_iff e; nk
  | .block es ce ch fin _ p => by
      have := nodesOK_iff es; have := nodesOK_iff ce; have := nodesOK_iff ch; have := nodesOK_iff fin; nk
  | .brk p => by nk
  | .cont p => by nk
  | .cls _ ms p => by have := nodesOK_iff ms; nk
  | .defn _ e _ p => by have := nodeOK_iff e; nk
  | .defD _ e _ p => by have := nodeOK_iff e; nk
  | .deref e i d p => by have := nodeOK_iff e; have := nodeOK_iff i; have := nodeOK_iff d; nk
  | .derefAssign e i v p => by have := nodeOK_iff e; have := nodeOK_iff i; have := nodeOK_iff v; nk
  | .derefInvoke o _ _ args p => by have := nodeOK_iff o; have := nodesOK_iff args; nk
  | .slice e a b p => by have := nodeOK_iff e; have := nodeOK_iff a; have := nodeOK_iff b; nk
  | .error e p => by have := nodeOK_iff e; nk
  | .for _ e body _ p => by have := nodeOK_iff e; have := nodeOK_iff body; nk
  | .call fn _ args p => by have := nodeOK_iff fn; have := nodesOK_iff args; nk
  | .ite cs xs els p => by have := nodesOK_iff cs; have := nodesOK_iff xs; have := nodeOK_iff els; nk
  | .isIn e c p => by have := nodeOK_iff e; have := nodeOK_iff c; nk
  | .lambda _ ds body p => by have := nodesOK_iff ds; have := nodeOK_iff body; nk
  | .list items p => by have := nodesOK_iff items; nk
  | .compr _ _ ve ke _ l1 _ _ l2 _ cond p => by
      have := nodeOK_iff ve; have := nodeOK_iff ke; have := nodeOK_iff l1; have := nodeOK_iff l2
      have := nodeOK_iff cond; nk
  | .map ks vs p => by have := nodesOK_iff ks; have := nodesOK_iff vs; nk
  | .object _ vs p => by have := nodesOK_iff vs; nk
  | .require spec _ _ _ p => by have := nodeOK_iff spec; nk
  | .ret e p => by have := nodeOK_iff e; nk
  | .set items p => by have := nodesOK_iff items; nk
  | .spread e p => by have := nodeOK_iff e; nk
  | .while c body p => by have := nodeOK_iff c; have := nodeOK_iff body; nk
theorem nodesOK_iff : ∀ ns : List Node, NodesOK P ns ↔ ∀ p ∈ Node.positionsL ns, P p
  | [] => by nk
  | n :: ns => by have := nodeOK_iff n; have := nodesOK_iff ns; nk
end

end

theorem NodesOK.mem {P : Pos → Prop} {ns : List Node} (h : NodesOK P ns) {n : Node} (hn : n ∈ ns) :
    NodeOK P n := by
  induction ns with
  | nil => cases hn
  | cons m ms ih =>
    simp only [NodesOK] at h
    rcases List.mem_cons.mp hn with rfl | hm
    · exact h.1
    · exact ih h.2 hm

theorem NodeOK.mono {P Q : Pos → Prop} (hPQ : ∀ p, P p → Q p) {n : Node} (h : NodeOK P n) : NodeOK Q n :=
  (nodeOK_iff Q n).2 (fun p hp => hPQ p ((nodeOK_iff P n).1 h p hp))

/-- the node's own position is the head of `positions` (for every node that has one) -/
theorem Node.own_pos_mem_and (es : List Node) (p : Pos) : p ∈ (Node.and es p).positions := by
  simp [Node.positions]

/-! ### positions held by values, by a state and by the loader -/

/-- positions carried by a runtime value: the control signals `break` / `continue` / `return v` carry the
    position of the node that produced them -/
def RVal.positions : RVal → List Pos
  | .brk p => [p]
  | .cont p => [p]
  | .ret v p => p :: v.positions
  | _ => []

/-- every position carried by the value satisfies `P` -/
def ValOK (P : Pos → Prop) : RVal → Prop
  | .brk p => P p
  | .cont p => P p
  | .ret v p => P p ∧ ValOK P v
  | _ => True

theorem valOK_iff (P : Pos → Prop) : ∀ v : RVal, ValOK P v ↔ ∀ p ∈ v.positions, P p
  | .brk p => by simp [ValOK, RVal.positions]
  | .cont p => by simp [ValOK, RVal.positions]
  | .ret v p => by have := valOK_iff P v; simp_all [ValOK, RVal.positions]
  | .null | .bool _ | .int _ | .dec _ _ | .str _ | .pat _ | .date _ | .ref _ | .closure _ | .native _ _ | .node _ => by
    simp [ValOK, RVal.positions]

theorem ValOK.triv : ∀ v : RVal, ValOK (fun _ => True) v
  | .ret v _ => ⟨trivial, ValOK.triv v⟩
  | .brk _ | .cont _ => trivial
  | .null | .bool _ | .int _ | .dec _ _ | .str _ | .pat _ | .date _ | .ref _ | .closure _ | .native _ _ | .node _ => trivial

/-- lists of values, map entries, and string-keyed dictionaries (object members, bound arguments,
    the variables of a frame) -/
def ValsOK (P : Pos → Prop) (xs : List RVal) : Prop := ∀ x ∈ xs, ValOK P x
def PairsOK (P : Pos → Prop) (kvs : List (RVal × RVal)) : Prop := ∀ kv ∈ kvs, ValOK P kv.1 ∧ ValOK P kv.2
def DictOK (P : Pos → Prop) (kvs : List (String × RVal)) : Prop := ∀ kv ∈ kvs, ValOK P kv.2

/-- positions held by a heap cell: those carried by its elements; body and parameter defaults of a closure -/
def Cell.positions : Cell → List Pos
  | .list xs => xs.flatMap RVal.positions
  | .set xs => xs.flatMap RVal.positions
  | .map kvs => kvs.flatMap (fun kv => kv.1.positions ++ kv.2.positions)
  | .obj kvs _ => kvs.flatMap (fun kv => kv.2.positions)
  | .closure _ _ ds b _ => b.positions ++ Node.positionsL ds

def Frame.positions (f : Frame) : List Pos := f.vars.flatMap (fun kv => kv.2.positions)

/-- every position stored in the state: in the cells of the heap (elements, closure ASTs) and in the
    variables of the frames -/
def State.positions (s : State) : List Pos :=
  s.heap.toList.flatMap Cell.positions ++ s.frames.toList.flatMap Frame.positions

def CellOK (P : Pos → Prop) : Cell → Prop
  | .list xs => ValsOK P xs
  | .set xs => ValsOK P xs
  | .map kvs => PairsOK P kvs
  | .obj kvs _ => DictOK P kvs
  | .closure _ _ ds b _ => NodeOK P b ∧ NodesOK P ds

theorem valsOK_iff (P : Pos → Prop) (xs : List RVal) : ValsOK P xs ↔ ∀ p ∈ xs.flatMap RVal.positions, P p := by
  constructor
  · intro h p hp
    rcases List.mem_flatMap.mp hp with ⟨x, hx, hpx⟩
    exact (valOK_iff P x).1 (h x hx) p hpx
  · intro h x hx
    exact (valOK_iff P x).2 (fun p hp => h p (List.mem_flatMap.mpr ⟨x, hx, hp⟩))

theorem pairsOK_iff (P : Pos → Prop) (kvs : List (RVal × RVal)) :
    PairsOK P kvs ↔ ∀ p ∈ kvs.flatMap (fun kv => kv.1.positions ++ kv.2.positions), P p := by
  constructor
  · intro h p hp
    rcases List.mem_flatMap.mp hp with ⟨x, hx, hpx⟩
    rcases List.mem_append.mp hpx with h1 | h1
    · exact (valOK_iff P x.1).1 (h x hx).1 p h1
    · exact (valOK_iff P x.2).1 (h x hx).2 p h1
  · intro h x hx
    exact ⟨(valOK_iff P x.1).2 (fun p hp => h p (List.mem_flatMap.mpr ⟨x, hx, List.mem_append_left _ hp⟩)),
      (valOK_iff P x.2).2 (fun p hp => h p (List.mem_flatMap.mpr ⟨x, hx, List.mem_append_right _ hp⟩))⟩

theorem dictOK_iff (P : Pos → Prop) (kvs : List (String × RVal)) :
    DictOK P kvs ↔ ∀ p ∈ kvs.flatMap (fun kv => kv.2.positions), P p := by
  constructor
  · intro h p hp
    rcases List.mem_flatMap.mp hp with ⟨x, hx, hpx⟩
    exact (valOK_iff P x.2).1 (h x hx) p hpx
  · intro h x hx
    exact (valOK_iff P x.2).2 (fun p hp => h p (List.mem_flatMap.mpr ⟨x, hx, hp⟩))

theorem cellOK_iff (P : Pos → Prop) (c : Cell) : CellOK P c ↔ ∀ p ∈ c.positions, P p := by
  cases c with
  | closure => simp [CellOK, Cell.positions, nodeOK_iff, nodesOK_iff, or_imp, forall_and]
  | list xs => exact valsOK_iff P xs
  | set xs => exact valsOK_iff P xs
  | map kvs => exact pairsOK_iff P kvs
  | obj kvs m => exact dictOK_iff P kvs

def FrameOK (P : Pos → Prop) (f : Frame) : Prop := DictOK P f.vars

theorem frameOK_iff (P : Pos → Prop) (f : Frame) : FrameOK P f ↔ ∀ p ∈ f.positions, P p :=
  dictOK_iff P f.vars

/-- every position stored in the state satisfies `P` -/
structure StOK (P : Pos → Prop) (s : State) : Prop where
  heap_ok : ∀ (a : Nat) (c : Cell), s.heap[a]? = some c → CellOK P c
  frames_ok : ∀ (i : Nat) (f : Frame), s.frames[i]? = some f → FrameOK P f

theorem forall_mem_array_toList {α} {Q : α → Prop} (xs : Array α) :
    (∀ (i : Nat) (x : α), xs[i]? = some x → Q x) ↔ ∀ x ∈ xs.toList, Q x := by
  constructor
  · intro h x hx
    rcases List.getElem?_of_mem hx with ⟨a, ha⟩
    rw [Array.getElem?_toList] at ha
    exact h a x ha
  · intro h i x hx
    rw [← Array.getElem?_toList] at hx
    exact h x (List.mem_of_getElem? hx)

theorem stOK_iff (P : Pos → Prop) (s : State) : StOK P s ↔ ∀ p ∈ s.positions, P p := by
  constructor
  · intro h p hp
    unfold State.positions at hp
    rcases List.mem_append.mp hp with hp | hp
    · rcases List.mem_flatMap.mp hp with ⟨c, hc, hpc⟩
      exact (cellOK_iff P c).1 ((forall_mem_array_toList _).1 h.heap_ok c hc) p hpc
    · rcases List.mem_flatMap.mp hp with ⟨f, hf, hpf⟩
      exact (frameOK_iff P f).1 ((forall_mem_array_toList _).1 h.frames_ok f hf) p hpf
  · intro h
    constructor
    · refine (forall_mem_array_toList _).2 (fun c hc => (cellOK_iff P c).2 (fun p hp => h p ?_))
      exact List.mem_append_left _ (List.mem_flatMap.mpr ⟨c, hc, hp⟩)
    · refine (forall_mem_array_toList _).2 (fun f hf => (frameOK_iff P f).2 (fun p hp => h p ?_))
      exact List.mem_append_right _ (List.mem_flatMap.mpr ⟨f, hf, hp⟩)

theorem StOK.cell {P : Pos → Prop} {s : State} (h : StOK P s) {a : Nat} {c : Cell} (hc : s.cell a = some c) :
    CellOK P c := h.heap_ok a c hc

theorem StOK.closure {P : Pos → Prop} {s : State} (h : StOK P s) {a : Nat} {e ps ds b n}
    (hc : s.cell a = some (.closure e ps ds b n)) : NodeOK P b ∧ NodesOK P ds := h.cell hc

/-- the invariant depends on the heap and the frames only -/
theorem StOK.of_eq {P : Pos → Prop} {s s' : State} (he : s'.heap = s.heap) (hf : s'.frames = s.frames)
    (h : StOK P s) : StOK P s' := ⟨by rw [he]; exact h.heap_ok, by rw [hf]; exact h.frames_ok⟩

theorem StOK.setCell {P : Pos → Prop} {s : State} (h : StOK P s) (a : Nat) {c : Cell} (hc : CellOK P c) :
    StOK P (s.setCell a c) := by
  refine ⟨fun b d hbd => ?_, h.frames_ok⟩
  unfold State.setCell at hbd
  simp only [Array.getElem?_setIfInBounds] at hbd
  split at hbd
  · split at hbd
    · cases hbd; exact hc
    · cases hbd
  · exact h.heap_ok b d hbd

theorem StOK.alloc {P : Pos → Prop} {s : State} (h : StOK P s) {c : Cell} (hc : CellOK P c) :
    StOK P (s.alloc c).1 := by
  refine ⟨fun b d hbd => ?_, h.frames_ok⟩
  unfold State.alloc at hbd
  simp only [Array.getElem?_push] at hbd
  split at hbd
  · cases hbd; exact hc
  · exact h.heap_ok b d hbd

theorem StOK.empty (P : Pos → Prop) : StOK P {} :=
  ⟨fun a c h => by simp at h, fun i f h => by simp at h⟩

/-- with the trivial set of positions every state satisfies the invariant -/
theorem StOK.triv (s : State) : StOK (fun _ => True) s :=
  (stOK_iff _ s).2 (fun _ _ => trivial)

/-- every position stored in a module AST of the loader -/
def Loader.positions (ld : Loader) : List Pos :=
  (ld.bundled ++ ld.user).flatMap (fun kv => match kv.2 with | .ok ast => ast.positions | .error _ => [])

/-- every module AST the loader can hand out has its positions in `P` -/
def LoaderOK (P : Pos → Prop) (ld : Loader) : Prop :=
  ∀ file ast, ld.find file = some (.ok ast) → NodeOK P ast

theorem lookup_mem {β} (k : String) : ∀ (l : List (String × β)) (v : β), l.lookup k = some v → (k, v) ∈ l
  | [], _, h => by simp [List.lookup] at h
  | (k', v') :: rest, v, h => by
    unfold List.lookup at h
    split at h
    · rename_i heq
      have : k = k' := by simpa using heq
      cases h; subst this; exact List.mem_cons_self
    · exact List.mem_cons_of_mem _ (lookup_mem k rest v h)

theorem loaderOK_of_positions {P : Pos → Prop} {ld : Loader} (h : ∀ p ∈ ld.positions, P p) : LoaderOK P ld := by
  intro file ast hf
  refine (nodeOK_iff P ast).2 (fun p hp => h p ?_)
  unfold Loader.positions
  unfold Loader.find at hf
  split at hf
  · rename_i r hr
    cases hf
    exact List.mem_flatMap.mpr ⟨_, List.mem_append_left _ (lookup_mem _ _ _ hr), hp⟩
  · exact List.mem_flatMap.mpr ⟨_, List.mem_append_right _ (lookup_mem _ _ _ hf), hp⟩

end Ckl
