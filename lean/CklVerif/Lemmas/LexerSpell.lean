/-
  Spelling of number literals: helper lemmas (hex / binary literals are re-spelled in decimal,
  `_` separators are dropped).
-/
import CklVerif.Lemmas.LexerLayout
namespace Ckl.Lexer

/-- what the loop does to the variables other than `core`, `column`, `pos` while it is inside a
    token: nothing -/
structure Frame (σ σ' : LexSt) : Prop where
  out : σ'.out = σ.out
  startline : σ'.startline = σ.startline
  startOff : σ'.startOff = σ.startOff
  line : σ'.line = σ.line

theorem Frame.rfl' (σ : LexSt) : Frame σ σ := ⟨rfl, rfl, rfl, rfl⟩
theorem Frame.trans {a b c : LexSt} (h : Frame a b) (h' : Frame b c) : Frame a c :=
  ⟨h'.out.trans h.out, h'.startline.trans h.startline, h'.startOff.trans h.startOff,
   h'.line.trans h.line⟩

/-- the two radix-literal states -/
structure Radix (st : St) (base : Nat) (al : List Char) (what : String) : Prop where
  step_eq : ∀ (k : Core) (col : Int) (ch : Char), k.state = st →
    step k col ch = stepRadix base al what k col ch
  ne0 : st ≠ .s0
  nonl : '\n' ∉ al
  noUnderscore : '_' ∉ al
  ws : ∀ c ∈ whitespace, c ∉ al

theorem radix16 : Radix .s71 16 hexDigits "hex literal '0x" where
  step_eq k col ch h := by unfold step; rw [h]
  ne0 := by decide
  nonl := by decide
  noUnderscore := by decide
  ws := by decide

theorem radix2 : Radix .s72 2 ['0', '1'] "binary literal '0b" where
  step_eq k col ch h := by unfold step; rw [h]
  ne0 := by decide
  nonl := by decide
  noUnderscore := by decide
  ws := by decide

theorem whitespace_numEnd : ∀ c ∈ whitespace, c ∈ numEnd := by decide

/-- a state `st` in which the characters satisfying `P` are appended to the token buffer -/
structure Accum (st : St) (P : Char → Prop) : Prop where
  step_eq : ∀ (k : Core) (col : Int) (ch : Char), k.state = st → P ch →
    step k col ch = .ok ⟨{ k with token := k.token ++ [ch] }, none, false⟩
  ne0 : st ≠ .s0
  nonl : ¬ P '\n'

theorem accum_radix {st : St} {base : Nat} {al : List Char} {what : String}
    (R : Radix st base al what) : Accum st (· ∈ al) where
  step_eq k col ch hs hc := by
    rw [R.step_eq _ _ _ hs]; simp only [stepRadix, hc, true_or, if_true]
  ne0 := R.ne0
  nonl := R.nonl

theorem accum_s7 : Accum .s7 DigOrU where
  step_eq k col ch hs hc := by
    have h1 : ch ≠ '.' := by
      intro e; subst e; rcases hc with h | h
      · revert h; decide
      · revert h; decide
    have hc' : ch ∈ digits ∨ ch = '_' := hc
    unfold step
    simp only [hs, step7, h1, if_false, hc', if_true]
  ne0 := by decide
  nonl := by
    intro h; rcases h with h | h
    · revert h; decide
    · revert h; decide

theorem feed_accum {name : String} {st : St} {P : Char → Prop} (A : Accum st P) {σ : LexSt}
    {c : Char} (hs : σ.core.state = st) (hc : P c) :
    ∃ σ', feed name σ c = .ok σ' ∧ σ'.core = { σ.core with token := σ.core.token ++ [c] } ∧
      Frame σ σ' := by
  have hn : c ≠ '\n' := fun e => A.nonl (e ▸ hc)
  have h0 : σ.core.state ≠ .s0 := by rw [hs]; exact A.ne0
  have hstep := A.step_eq σ.core (σ.column + 1) c hs hc
  simp only [feed, LexSt.count, hn, if_false, LexSt.capture, h0, LexSt.dispatch, hstep, LexSt.push]
  exact ⟨_, rfl, rfl, ⟨rfl, rfl, rfl, rfl⟩⟩

theorem run_accum {name : String} {st : St} {P : Char → Prop} (A : Accum st P)
    (ds : List Char) : ∀ {σ : LexSt}, σ.core.state = st → (∀ c ∈ ds, P c) →
    ∃ σ', run name σ ds = .ok σ' ∧ σ'.core = { σ.core with token := σ.core.token ++ ds } ∧
      Frame σ σ' := by
  induction ds with
  | nil => intro σ _ _; exact ⟨σ, rfl, by simp, Frame.rfl' σ⟩
  | cons c ds ih =>
    intro σ hs hd
    obtain ⟨σ1, hf, hk, hfr⟩ := feed_accum (name := name) A hs (hd c (by simp))
    obtain ⟨σ2, hr, hk2, hfr2⟩ := ih (σ := σ1) (by rw [hk]; exact hs)
      (fun x hx => hd x (List.mem_cons_of_mem _ hx))
    refine ⟨σ2, by rw [run_cons_ok _ hf]; exact hr, ?_, hfr.trans hfr2⟩
    rw [hk2, hk]; simp

theorem feed_radix_end {name : String} {st : St} {base : Nat} {al : List Char} {what : String}
    (R : Radix st base al what) {σ : LexSt} {t : Char} {v : List Char} (hs : σ.core.state = st)
    (ht : t ∈ whitespace) (hv : respell base σ.core.token = some v) :
    ∃ σ' col, feed name σ t = .ok σ' ∧ σ'.core = { σ.core with token := [], state := .s0 } ∧
      σ'.out = (⟨v, .int, ⟨name, σ.startline, col⟩⟩, σ.startOff) :: σ.out := by
  have h0 : σ.core.state ≠ .s0 := by rw [hs]; exact R.ne0
  have hal : t ∉ al := R.ws t ht
  have hu : t ≠ '_' := by intro e; subst e; revert ht; decide
  have hend : t ∈ numEnd := whitespace_numEnd t ht
  by_cases hn : t = '\n'
  · subst hn
    have hstep := R.step_eq σ.core 0 '\n' hs
    simp only [feed, LexSt.count, if_true, LexSt.capture, h0, if_false, LexSt.dispatch, hstep,
      stepRadix, hal, hu, or_self, hend, hv, LexSt.push, step_s0, step0_newline]
    exact ⟨_, _, rfl, rfl, rfl⟩
  · have hstep := R.step_eq σ.core (σ.column + 1) t hs
    simp only [feed, LexSt.count, hn, if_false, LexSt.capture, h0, LexSt.dispatch, hstep,
      stepRadix, hal, hu, or_self, hend, if_true, hv, LexSt.push, step_s0, step0_ws _ _ ht]
    exact ⟨_, _, rfl, rfl, rfl⟩

theorem feed_s7_end {name : String} {σ : LexSt} {t : Char} (hs : σ.core.state = .s7)
    (ht : t ∈ whitespace) :
    ∃ σ' col, feed name σ t = .ok σ' ∧ σ'.core = { σ.core with token := [], state := .s0 } ∧
      σ'.out = (⟨dropUnderscores σ.core.token, .int, ⟨name, σ.startline, col⟩⟩, σ.startOff) :: σ.out := by
  have h0 : σ.core.state ≠ .s0 := by rw [hs]; decide
  have hdot : t ≠ '.' := by intro e; subst e; revert ht; decide
  have hdig : ¬ (t ∈ digits ∨ t = '_') := by
    intro h; rcases h with h | h
    · revert h; revert ht; generalize t = x; revert x; decide
    · subst h; revert ht; decide
  have hend : t ∈ numEnd := whitespace_numEnd t ht
  have hstep : ∀ col, step σ.core col t = .ok (step7 σ.core col t) := by
    intro col; unfold step; rw [hs]
  by_cases hn : t = '\n'
  · subst hn
    simp only [feed, LexSt.count, if_true, LexSt.capture, h0, if_false, LexSt.dispatch, hstep,
      step7, hdot, hdig, hend, LexSt.push, step_s0, step0_newline]
    exact ⟨_, _, rfl, rfl, rfl⟩
  · simp only [feed, LexSt.count, hn, if_false, LexSt.capture, h0, LexSt.dispatch, hstep,
      step7, hdot, hdig, hend, if_true, LexSt.push, step_s0, step0_ws _ _ ht]
    exact ⟨_, _, rfl, rfl, rfl⟩

/-- leaving state 0 with a character that starts a token without emitting -/
theorem feed_start {name : String} {σ : LexSt} {c : Char} {k' : Core} (h0 : σ.core.state = .s0)
    (hn : c ≠ '\n') (hstep : ∀ col, step0 σ.core col c = ⟨k', none, false⟩) :
    ∃ σ', feed name σ c = .ok σ' ∧ σ'.core = k' ∧ σ'.out = σ.out ∧ σ'.startline = σ.line ∧
      σ'.startOff = σ.pos ∧ σ'.line = σ.line := by
  simp only [feed, LexSt.count, hn, if_false, LexSt.capture, h0, if_true, LexSt.dispatch,
    step_s0, hstep, LexSt.push]
  exact ⟨_, rfl, rfl, rfl, rfl, rfl, rfl⟩

/-- a transition inside a token that neither emits nor unreads -/
theorem feed_inner {name : String} {σ : LexSt} {c : Char} {k' : Core} (h0 : σ.core.state ≠ .s0)
    (hn : c ≠ '\n') (hstep : ∀ col, step σ.core col c = .ok ⟨k', none, false⟩) :
    ∃ σ', feed name σ c = .ok σ' ∧ σ'.core = k' ∧ Frame σ σ' := by
  simp only [feed, LexSt.count, hn, if_false, LexSt.capture, h0, LexSt.dispatch, hstep, LexSt.push]
  exact ⟨_, rfl, rfl, ⟨rfl, rfl, rfl, rfl⟩⟩

theorem respell_valid {base : Nat} {ds : List Char} (hne : ds ≠ []) (hu : '_' ∉ ds)
    (hlim : (Nat.toDigits 10 (ofDigits base ds)).length ≤ maxStrDigits) :
    respell base ds = some (Nat.toDigits 10 (ofDigits base ds)) := by
  have hd : dropUnderscores ds = ds := by
    unfold dropUnderscores
    apply List.filter_eq_self.mpr
    intro c hc
    simp only [ne_eq, decide_eq_true_eq]
    intro e; exact hu (e ▸ hc)
  unfold respell
  simp only [hd, hne, if_false]
  rw [if_neg (by omega)]

/-- generic radix literal `0` `p` digits terminator, started in state 0 with an empty buffer -/
theorem run_radix_literal {name : String} {st : St} {base : Nat} {al : List Char} {what : String}
    (R : Radix st base al what) (p : Char) (hpn : p ≠ '\n')
    (hp : ∀ (k : Core) (col : Int), k.state = .s70 → step k col p = .ok ⟨{ k with state := st }, none, false⟩)
    {σ : LexSt} (h0 : σ.core.state = .s0) (htok : σ.core.token = [])
    {ds : List Char} (hne : ds ≠ []) (hd : ∀ c ∈ ds, c ∈ al)
    (hlim : (Nat.toDigits 10 (ofDigits base ds)).length ≤ maxStrDigits)
    {t : Char} (ht : t ∈ whitespace) :
    ∃ σ' col, run name σ ('0' :: p :: (ds ++ [t])) = .ok σ' ∧ σ'.core = σ.core ∧
      σ'.out = (⟨Nat.toDigits 10 (ofDigits base ds), .int, ⟨name, σ.line, col⟩⟩, σ.pos) :: σ.out := by
  obtain ⟨σ1, hf1, hk1, ho1, hsl1, hso1, _⟩ := feed_start (name := name) (c := '0')
    (k' := { σ.core with state := .s70 }) h0 (by decide) (by intro col; simp [step0])
  obtain ⟨σ2, hf2, hk2, hfr2⟩ := feed_inner (name := name) (σ := σ1) (c := p)
    (k' := { σ1.core with state := st }) (by rw [hk1]; simp) hpn
    (fun col => hp _ col (by rw [hk1]))
  have hs2 : σ2.core.state = st := by rw [hk2]
  obtain ⟨σ3, hr3, hk3, hfr3⟩ := run_accum (name := name) (accum_radix R) ds hs2 hd
  have hs3 : σ3.core.state = st := by rw [hk3]; exact hs2
  have htok3 : σ3.core.token = ds := by rw [hk3, hk2, hk1]; simp [htok]
  have hu : '_' ∉ ds := fun h => R.noUnderscore (hd _ h)
  obtain ⟨σ4, col, hf4, hk4, ho4⟩ := feed_radix_end (name := name) R hs3 ht
    (v := Nat.toDigits 10 (ofDigits base ds)) (by rw [htok3]; exact respell_valid hne hu hlim)
  refine ⟨σ4, col, ?_, ?_, ?_⟩
  · rw [run_cons_ok _ hf1, run_cons_ok _ hf2, run_append_ok _ hr3, run_cons_ok _ hf4]; rfl
  · rw [hk4, hk3, hk2, hk1]
    cases hσ : σ.core with
    | mk s tk tb =>
      rw [hσ] at h0 htok; simp only at h0 htok; subst h0; subst htok; rfl
  · rw [ho4, (hfr2.trans hfr3).out, (hfr2.trans hfr3).startline, (hfr2.trans hfr3).startOff,
      ho1, hsl1, hso1]

/-- state 70 pushes a character other than `x` / `b` back into state 7 -/
theorem feed_s70_push {name : String} {σ : LexSt} {c : Char} (hs : σ.core.state = .s70)
    (hx : c ≠ 'x') (hb : c ≠ 'b') :
    feed name σ c =
      feed name { σ with core := { σ.core with token := σ.core.token ++ ['0'], state := .s7 } } c := by
  have h0 : σ.core.state ≠ .s0 := by rw [hs]; decide
  have hstep : ∀ col, step σ.core col c =
      .ok (step7 { σ.core with token := σ.core.token ++ ['0'], state := .s7 } col c) := by
    intro col
    unfold step
    simp only [hs, step70, hx, hb, if_false]
  by_cases hn : c = '\n'
  · subst hn
    simp only [feed, LexSt.count, if_true, LexSt.capture, h0, if_false, LexSt.dispatch, hstep]
    rfl
  · simp only [feed, LexSt.count, hn, if_false, LexSt.capture, h0, LexSt.dispatch, hstep]
    rfl

theorem digOrU_ne_xb {c : Char} (h : DigOrU c) : c ≠ 'x' ∧ c ≠ 'b' := by
  rcases h with h | h
  · constructor <;> (intro e; subst e; revert h; decide)
  · subst h; decide

theorem ws_ne_xb {c : Char} (h : c ∈ whitespace) : c ≠ 'x' ∧ c ≠ 'b' := by
  constructor <;> (intro e; subst e; revert h; decide)

/-- from state 7 with buffer `tk`: digits and underscores, then a whitespace terminator -/
theorem run_s7_literal {name : String} {σ : LexSt} (hs : σ.core.state = .s7) {rest : List Char}
    (hrest : ∀ c ∈ rest, DigOrU c) {t : Char} (ht : t ∈ whitespace) :
    ∃ σ' col, run name σ (rest ++ [t]) = .ok σ' ∧
      σ'.core = { σ.core with token := [], state := .s0 } ∧
      σ'.out = (⟨dropUnderscores (σ.core.token ++ rest), .int, ⟨name, σ.startline, col⟩⟩, σ.startOff)
        :: σ.out := by
  obtain ⟨σ1, hr1, hk1, hfr1⟩ := run_accum (name := name) accum_s7 rest hs hrest
  have hs1 : σ1.core.state = .s7 := by rw [hk1]; exact hs
  obtain ⟨σ2, col, hf2, hk2, ho2⟩ := feed_s7_end (name := name) hs1 ht
  refine ⟨σ2, col, ?_, ?_, ?_⟩
  · rw [run_append_ok _ hr1, run_cons_ok _ hf2]; rfl
  · rw [hk2, hk1]
  · rw [ho2, hfr1.out, hfr1.startline, hfr1.startOff, hk1]

/-- decimal int literal started in state 0 with an empty buffer -/
theorem run_int_literal {name : String} {σ : LexSt} (h0 : σ.core.state = .s0)
    (htok : σ.core.token = []) {d : Char} (hd : d ∈ digits) {rest : List Char}
    (hrest : ∀ c ∈ rest, DigOrU c) {t : Char} (ht : t ∈ whitespace) :
    ∃ σ' col, run name σ (d :: (rest ++ [t])) = .ok σ' ∧ σ'.core = σ.core ∧
      σ'.out = (⟨dropUnderscores (d :: rest), .int, ⟨name, σ.line, col⟩⟩, σ.pos) :: σ.out := by
  have hcore : ({ σ.core with token := [], state := .s0 } : Core) = σ.core := by
    cases hσ : σ.core with
    | mk s tk tb => rw [hσ] at h0 htok; simp only at h0 htok; subst h0; subst htok; rfl
  by_cases hz : d = '0'
  · subst hz
    obtain ⟨σ1, hf1, hk1, ho1, hsl1, hso1, _⟩ := feed_start (name := name) (c := '0')
      (k' := { σ.core with state := .s70 }) h0 (by decide) (by intro col; simp [step0])
    have hs1 : σ1.core.state = .s70 := by rw [hk1]
    have hpush : run name σ1 (rest ++ [t]) =
        run name { σ1 with core := { σ1.core with token := σ1.core.token ++ ['0'], state := .s7 } }
          (rest ++ [t]) := by
      cases rest with
      | nil =>
        obtain ⟨hx, hb⟩ := ws_ne_xb ht
        simp only [List.nil_append, run]; rw [feed_s70_push hs1 hx hb]
      | cons r rs =>
        obtain ⟨hx, hb⟩ := digOrU_ne_xb (hrest r (by simp))
        simp only [List.cons_append, run]; rw [feed_s70_push hs1 hx hb]
    obtain ⟨σ2, col, hr2, hk2, ho2⟩ := run_s7_literal (name := name)
      (σ := { σ1 with core := { σ1.core with token := σ1.core.token ++ ['0'], state := .s7 } })
      rfl hrest ht
    refine ⟨σ2, col, ?_, ?_, ?_⟩
    · rw [run_cons_ok _ hf1, hpush]; exact hr2
    · rw [hk2]; simp only [hk1]; exact hcore
    · rw [ho2]; simp only [hk1, htok, ho1, hsl1, hso1, List.nil_append, List.cons_append]
  · have hstart : ∀ col, step0 σ.core col d =
        ⟨{ σ.core with token := σ.core.token ++ [d], state := .s7 }, none, false⟩ := by
      intro col
      simp only [digits, List.mem_cons, List.not_mem_nil, or_false] at hd
      rcases hd with rfl | rfl | rfl | rfl | rfl | rfl | rfl | rfl | rfl | rfl <;>
        first | exact absurd rfl hz | simp [step0, digits]
    have hn : d ≠ '\n' := by intro e; subst e; revert hd; decide
    obtain ⟨σ1, hf1, hk1, ho1, hsl1, hso1, _⟩ := feed_start (name := name) h0 hn hstart
    obtain ⟨σ2, col, hr2, hk2, ho2⟩ := run_s7_literal (name := name) (σ := σ1) (by rw [hk1])
      hrest ht
    refine ⟨σ2, col, ?_, ?_, ?_⟩
    · rw [run_cons_ok _ hf1]; exact hr2
    · rw [hk2]; simp only [hk1]; exact hcore
    · rw [ho2]; simp only [hk1, htok, ho1, hsl1, hso1, List.nil_append, List.cons_append]

end Ckl.Lexer
