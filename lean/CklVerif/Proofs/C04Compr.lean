import CklVerif.Lemmas.C04ComprLoop
import CklVerif.Proofs.C06Eval

/-!
  C04Compr — property C04 (part): "a list, set or map comprehension yields the same elements as the equivalent explicit loop".

  This file: the COMPREHENSION side (list, set, map; any single source) for pure filter / key / element expressions, and the
  order of the effects of one step for expressions that are not pure.  The loop side and the comparison are in
  `Proofs/C04ComprFor.lean`.

  Purity is stated as families of `Ev` facts (`Ev ld k env n s r`: evaluating `n` in frame `env` of state `s` yields `r` for ALL
  fuel above `k`): for every item `v` of the source, in the state in which the comprehension's own frame (a NEW child frame
  `s.frames.size` of the current frame) binds the variable to `v`,
    * the filter yields the boolean `c v` and leaves the state as it is,
    * for the items with `c v = true` ONLY, the element expression yields `g v` (for maps the key expression `kf v`) and leaves
      the state as it is.
  Nothing is asked about the element expression on items that fail the filter (`[10 / x for x in [0, 1, 2] if x != 0]`).
-/
namespace Ckl.C04Compr
open Ckl Ckl.C03 Ckl.C19Src Ckl.C06E Ckl.C06Eval
variable (ld : Loader)

/-! ## 1. comprehension = filter, then map -/

/-- **any kind, any source**: the comprehension node evaluates to `comprResult` of the filtered-mapped entries, in the state
    whose only difference to the state after the evaluation of the source is that the child frame binds the variable to the
    last item -/
theorem compr_filter_map {k kc kk kv : Nat} {env : EnvId} {kind : ComprKind} {x : String} {ve ke l1 l2 cond : Node}
    {w1 w2 : Option String} {id2 : String} {pos : Pos} {s s1 : State} {c1 : RVal} {xs : List RVal}
    (c : RVal → Bool) (kf g : RVal → RVal)
    (he : Ev ld k env l1 (s.newEnv env).1 (.ok c1 s1))
    (hvals : collectionValues c1 w1 pos s1 = .ok xs s1)
    (hcond : ∀ v ∈ xs, Ev ld kc s.frames.size cond (s1.put s.frames.size x v) (.ok (.bool (c v)) (s1.put s.frames.size x v)))
    (hke : kind = .map → ∀ v ∈ xs, c v = true →
      Ev ld kk s.frames.size ke (s1.put s.frames.size x v) (.ok (kf v) (s1.put s.frames.size x v)))
    (hve : ∀ v ∈ xs, c v = true →
      Ev ld kv s.frames.size ve (s1.put s.frames.size x v) (.ok (g v) (s1.put s.frames.size x v))) :
    Ev ld (max k (max kc (max kk kv) + xs.length + 3) + 1) env (.compr kind .single ve ke x l1 w1 id2 l2 w2 cond pos) s
      (comprResult kind ((xs.filter c).map (fun v => (keyOf kind (kf v), g v))) (bindLast s1 s.frames.size x xs)) := by
  have hstep : ∀ v ∈ xs, ∀ f, max kc (max kk kv) + 1 < f →
      comprStep ld f s.frames.size kind ve ke cond pos (s1.put s.frames.size x v) =
        .ok (if c v then some ((fun v => (keyOf kind (kf v), g v)) v) else none) (s1.put s.frames.size x v) := by
    intro v hv
    exact comprStep_pure ld (hcond v hv) (fun hb hk => hke hk v hv hb) (fun hb => hve v hv hb)
  have hloop := comprLoop_pure ld xs c (fun v => (keyOf kind (kf v), g v)) hstep xs [] s1 (fun _ h => h) (fun _ => rfl)
  simp only [List.nil_append] at hloop
  exact Ev.mono ld (Ev.comprSingle ld (kl := max kc (max kk kv) + 1 + xs.length + 1) he hvals hloop) (by omega)

/-- **`[ve for x in e if cond]` over a list cell holding `xs`** evaluates to a FRESH list cell (its address is the old heap size)
    holding `(xs.filter c).map g`; the final state is explicit: the state after evaluating `e`, the variable bound to the last
    item in the child frame, the new cell -/
theorem list_compr_filter_map {k kc kv : Nat} {env : EnvId} {x : String} {ve ke l1 l2 cond : Node}
    {w1 w2 : Option String} {id2 : String} {pos : Pos} {s s1 : State} {a : Nat} {xs : List RVal}
    (c : RVal → Bool) (g : RVal → RVal)
    (he : Ev ld k env l1 (s.newEnv env).1 (.ok (.ref a) s1)) (hc : s1.cell a = some (.list xs))
    (hcond : ∀ v ∈ xs, Ev ld kc s.frames.size cond (s1.put s.frames.size x v) (.ok (.bool (c v)) (s1.put s.frames.size x v)))
    (hve : ∀ v ∈ xs, c v = true →
      Ev ld kv s.frames.size ve (s1.put s.frames.size x v) (.ok (g v) (s1.put s.frames.size x v))) :
    Ev ld (max k (max kc kv + xs.length + 3) + 1) env (.compr .list .single ve ke x l1 w1 id2 l2 w2 cond pos) s
      (.ok (.ref s1.heap.size) ((bindLast s1 s.frames.size x xs).alloc (.list ((xs.filter c).map g))).1) := by
  have h := compr_filter_map ld (kind := .list) (kk := 0) (ke := ke) (w2 := w2) (id2 := id2) (l2 := l2) c (fun _ => .null) g he
    (collectionValues_list w1 pos hc) hcond (fun h => by cases h) hve
  rw [comprResult_list, List.map_map, bindLast_heap] at h
  exact Ev.mono ld h (by omega)

/-- what the comprehension leaves behind, spelled out: every cell that existed is unchanged, the result cell is new, the output is
    unchanged, every frame other than the child frame is unchanged, and the child frame is a NEW frame (it did not exist in `s`).
    (`t` is the state after the evaluation of the source `e`.) -/
theorem compr_final_state (t : State) (lenv : EnvId) (x : String) (xs : List RVal) (cell : Cell) :
    let s' := ((bindLast t lenv x xs).alloc cell).1
    s'.cell t.heap.size = some cell ∧ s'.heap.size = t.heap.size + 1 ∧ (∀ b, b < t.heap.size → s'.cell b = t.cell b) ∧
      s'.out = t.out ∧ s'.frames.size = t.frames.size ∧ (∀ e, e ≠ lenv → s'.frame e = t.frame e) := by
  intro s'
  have hh : (bindLast t lenv x xs).heap.size = t.heap.size := by rw [bindLast_heap]
  refine ⟨?_, ?_, ?_, ?_, ?_, ?_⟩
  · have := cell_alloc_new (bindLast t lenv x xs) cell
    rwa [hh] at this
  · show ((bindLast t lenv x xs).alloc cell).1.heap.size = _
    rw [heap_size_alloc, hh]
  · intro b hb
    show ((bindLast t lenv x xs).alloc cell).1.cell b = _
    rw [cell_alloc_old _ _ (by rw [hh]; exact hb)]
    show (bindLast t lenv x xs).heap[b]? = t.heap[b]?
    rw [bindLast_heap]
  · exact bindLast_out t lenv x xs
  · exact bindLast_frames_size t lenv x xs
  · intro e he
    show (bindLast t lenv x xs).frame e = _
    exact bindLast_frame_other t x xs he

/-! ## 3. set and map comprehensions -/

theorem reify_bindLast (s : State) (lenv : EnvId) (x : String) (xs : List RVal) : reify (bindLast s lenv x xs) = reify s := by
  funext v; unfold reify; rw [bindLast_heap]

theorem heapOK_bindLast {s : State} (wf : HeapOK s) (lenv : EnvId) (x : String) (xs : List RVal) :
    HeapOK (bindLast s lenv x xs) := by
  intro a cl h
  rw [reify_bindLast]
  rw [bindLast_heap] at h
  exact wf a cl h

/-- **`<<ve for x in e if cond>>`** = the `setAdd` fold (the fold of the set literal and of `set()`) of the filtered-mapped list,
    in a fresh set cell -/
theorem set_compr_filter_map {k kc kv : Nat} {env : EnvId} {x : String} {ve ke l1 l2 cond : Node}
    {w1 w2 : Option String} {id2 : String} {pos : Pos} {s s1 : State} {c1 : RVal} {xs : List RVal}
    (c : RVal → Bool) (g : RVal → RVal)
    (he : Ev ld k env l1 (s.newEnv env).1 (.ok c1 s1)) (hvals : collectionValues c1 w1 pos s1 = .ok xs s1)
    (hcond : ∀ v ∈ xs, Ev ld kc s.frames.size cond (s1.put s.frames.size x v) (.ok (.bool (c v)) (s1.put s.frames.size x v)))
    (hve : ∀ v ∈ xs, c v = true →
      Ev ld kv s.frames.size ve (s1.put s.frames.size x v) (.ok (g v) (s1.put s.frames.size x v))) :
    Ev ld (max k (max kc kv + xs.length + 3) + 1) env (.compr .set .single ve ke x l1 w1 id2 l2 w2 cond pos) s
      (.ok (.ref s1.heap.size) ((bindLast s1 s.frames.size x xs).alloc
        (.set (((xs.filter c).map g).foldl (fun acc y => setAdd (bindLast s1 s.frames.size x xs) y acc) []))).1) := by
  have h := compr_filter_map ld (kind := .set) (kk := 0) (ke := ke) (w2 := w2) (id2 := id2) (l2 := l2) c (fun _ => .null) g he
    hvals hcond (fun h => by cases h) hve
  rw [comprResult_set, List.map_map, bindLast_heap] at h
  exact Ev.mono ld h (by omega)

/-- … and through C06Eval's bridge: when the filtered-mapped items are data (`I` their reified values) the new cell reifies to
    `mkSet` of them — the value of the set LITERAL with these elements -/
theorem set_compr_mkSet {k kc kv : Nat} {env : EnvId} {x : String} {ve ke l1 l2 cond : Node}
    {w1 w2 : Option String} {id2 : String} {pos : Pos} {s s1 : State} {c1 : RVal} {xs : List RVal}
    (c : RVal → Bool) (g : RVal → RVal)
    (he : Ev ld k env l1 (s.newEnv env).1 (.ok c1 s1)) (hvals : collectionValues c1 w1 pos s1 = .ok xs s1)
    (hcond : ∀ v ∈ xs, Ev ld kc s.frames.size cond (s1.put s.frames.size x v) (.ok (.bool (c v)) (s1.put s.frames.size x v)))
    (hve : ∀ v ∈ xs, c v = true →
      Ev ld kv s.frames.size ve (s1.put s.frames.size x v) (.ok (g v) (s1.put s.frames.size x v)))
    (wf : HeapOK s1) {I : List Val} (hI : ((xs.filter c).map g).mapM (reify s1) = some I) :
    ∃ s', Ev ld (max k (max kc kv + xs.length + 3) + 1) env (.compr .set .single ve ke x l1 w1 id2 l2 w2 cond pos) s
        (.ok (.ref s1.heap.size) s') ∧ reify s' (.ref s1.heap.size) = some (mkSet decRepr I) := by
  refine ⟨_, set_compr_filter_map ld (ke := ke) (w2 := w2) (id2 := id2) (l2 := l2) c g he hvals hcond hve, ?_⟩
  have hI' : ((xs.filter c).map g).mapM (reify (bindLast s1 s.frames.size x xs)) = some I := by rw [reify_bindLast]; exact hI
  obtain ⟨L, h1, _, _, h4⟩ := addSet_spec (heapOK_bindLast wf s.frames.size x xs) hI'
  rw [addSet_eq] at h1
  have hL : L = ((xs.filter c).map g).foldl (fun acc y => setAdd (bindLast s1 s.frames.size x xs) y acc) [] := by
    injection h1 with _ h1
    have := congrArg (fun st => st.cell (bindLast s1 s.frames.size x xs).heap.size) h1
    simp only [cell_alloc_new] at this
    injection this with this
    injection this with this
    exact this.symm
  rw [← hL]
  have hsz : (bindLast s1 s.frames.size x xs).heap.size = s1.heap.size := by rw [bindLast_heap]
  rw [← hsz]
  exact h4

/-- **`<<<ke => ve for x in e if cond>>>`** = the `mapPut` fold (the fold of the map literal) of the filtered list of
    (key, value) pairs, in a fresh map cell; per item the key is evaluated before the value -/
theorem map_compr_filter_map {k kc kk kv : Nat} {env : EnvId} {x : String} {ve ke l1 l2 cond : Node}
    {w1 w2 : Option String} {id2 : String} {pos : Pos} {s s1 : State} {c1 : RVal} {xs : List RVal}
    (c : RVal → Bool) (kf g : RVal → RVal)
    (he : Ev ld k env l1 (s.newEnv env).1 (.ok c1 s1)) (hvals : collectionValues c1 w1 pos s1 = .ok xs s1)
    (hcond : ∀ v ∈ xs, Ev ld kc s.frames.size cond (s1.put s.frames.size x v) (.ok (.bool (c v)) (s1.put s.frames.size x v)))
    (hke : ∀ v ∈ xs, c v = true →
      Ev ld kk s.frames.size ke (s1.put s.frames.size x v) (.ok (kf v) (s1.put s.frames.size x v)))
    (hve : ∀ v ∈ xs, c v = true →
      Ev ld kv s.frames.size ve (s1.put s.frames.size x v) (.ok (g v) (s1.put s.frames.size x v))) :
    Ev ld (max k (max kc (max kk kv) + xs.length + 3) + 1) env (.compr .map .single ve ke x l1 w1 id2 l2 w2 cond pos) s
      (.ok (.ref s1.heap.size) ((bindLast s1 s.frames.size x xs).alloc
        (.map (((xs.filter c).map (fun v => (kf v, g v))).foldl
          (fun acc e => mapPut (bindLast s1 s.frames.size x xs) e.1 e.2 acc) []))).1) := by
  have h := compr_filter_map ld (kind := .map) (w2 := w2) (id2 := id2) (l2 := l2) c kf g he hvals hcond (fun _ => hke) hve
  rw [comprResult_map, bindLast_heap] at h
  exact h

/-- … and through C06Eval's bridge: the new cell reifies to `mkMap` of the reified entries — the value of the map LITERAL with
    these entries (a later entry with an equal key replaces the value of the earlier one) -/
theorem map_compr_mkMap {k kc kk kv : Nat} {env : EnvId} {x : String} {ve ke l1 l2 cond : Node}
    {w1 w2 : Option String} {id2 : String} {pos : Pos} {s s1 : State} {c1 : RVal} {xs : List RVal}
    (c : RVal → Bool) (kf g : RVal → RVal)
    (he : Ev ld k env l1 (s.newEnv env).1 (.ok c1 s1)) (hvals : collectionValues c1 w1 pos s1 = .ok xs s1)
    (hcond : ∀ v ∈ xs, Ev ld kc s.frames.size cond (s1.put s.frames.size x v) (.ok (.bool (c v)) (s1.put s.frames.size x v)))
    (hke : ∀ v ∈ xs, c v = true →
      Ev ld kk s.frames.size ke (s1.put s.frames.size x v) (.ok (kf v) (s1.put s.frames.size x v)))
    (hve : ∀ v ∈ xs, c v = true →
      Ev ld kv s.frames.size ve (s1.put s.frames.size x v) (.ok (g v) (s1.put s.frames.size x v)))
    (wf : HeapOK s1) {I : List (Val × Val)}
    (hI : ((xs.filter c).map (fun v => (kf v, g v))).mapM (pairF (reify s1)) = some I) :
    ∃ s', Ev ld (max k (max kc (max kk kv) + xs.length + 3) + 1) env (.compr .map .single ve ke x l1 w1 id2 l2 w2 cond pos) s
        (.ok (.ref s1.heap.size) s') ∧ reify s' (.ref s1.heap.size) = some (mkMap decRepr I) := by
  refine ⟨_, map_compr_filter_map ld (w2 := w2) (id2 := id2) (l2 := l2) c kf g he hvals hcond hke hve, ?_⟩
  have hI' : ((xs.filter c).map (fun v => (kf v, g v))).mapM (pairF (reify (bindLast s1 s.frames.size x xs))) = some I := by
    rw [reify_bindLast]; exact hI
  have hsz : (bindLast s1 s.frames.size x xs).heap.size = s1.heap.size := by rw [bindLast_heap]
  rw [← hsz, reify_new_map (mapM_forall2 (foldl_mapPut_bridge (heapOK_bindLast wf s.frames.size x xs) hI'))]
  unfold mkMap
  rw [assocOfList_idem]

/-! ## 4. the order of the effects of one step, for expressions that need not be pure -/

/-- **`comprStep_order`**: one step of any comprehension is `stepOut` of the evaluator — per item
    * the filter is evaluated once and first; its error (or failure) is the outcome of the step;
    * FALSE: nothing else is evaluated, the state is the state the filter left;
    * a non-boolean value: the runtime error `Condition must be boolean but got <type>` at the position of the comprehension;
    * TRUE: for a map comprehension the key, then the value in the state the key left; otherwise the value; the first error is
      the outcome of the step. -/
theorem comprStep_order (f : Nat) (lenv : EnvId) (kind : ComprKind) (ve ke cond : Node) (pos : Pos) (s : State) :
    comprStep ld (f + 1) lenv kind ve ke cond pos s = stepOut (eval ld f lenv) kind ve ke cond pos s :=
  comprStep_eq ld f lenv kind ve ke cond pos s

/-- the readable cases of `comprStep_order` for a comprehension with a filter -/
theorem comprStep_order_cases (f : Nat) (lenv : EnvId) (kind : ComprKind) (ve ke cond : Node) (pos : Pos) (s : State)
    (hc : cond ≠ .absent) :
    (∀ v m p t s1, eval ld f lenv cond s = .err v m p t s1 →
      comprStep ld (f + 1) lenv kind ve ke cond pos s = .err v m p t s1) ∧
    (∀ s1, eval ld f lenv cond s = .ok (.bool false) s1 → comprStep ld (f + 1) lenv kind ve ke cond pos s = .ok none s1) ∧
    (∀ s1, eval ld f lenv cond s = .ok (.bool true) s1 → kind ≠ .map →
      (∀ v s2, eval ld f lenv ve s1 = .ok v s2 → comprStep ld (f + 1) lenv kind ve ke cond pos s = .ok (some (.null, v)) s2) ∧
      (∀ v m p t s2, eval ld f lenv ve s1 = .err v m p t s2 →
        comprStep ld (f + 1) lenv kind ve ke cond pos s = .err v m p t s2)) ∧
    (∀ s1, eval ld f lenv cond s = .ok (.bool true) s1 → kind = .map →
      (∀ v m p t s2, eval ld f lenv ke s1 = .err v m p t s2 →
        comprStep ld (f + 1) lenv kind ve ke cond pos s = .err v m p t s2) ∧
      (∀ k s2, eval ld f lenv ke s1 = .ok k s2 →
        (∀ v s3, eval ld f lenv ve s2 = .ok v s3 → comprStep ld (f + 1) lenv kind ve ke cond pos s = .ok (some (k, v)) s3) ∧
        (∀ v m p t s3, eval ld f lenv ve s2 = .err v m p t s3 →
          comprStep ld (f + 1) lenv kind ve ke cond pos s = .err v m p t s3))) := by
  refine ⟨fun v m p t s1 h => comprStep_filter_err ld hc h, fun s1 h => comprStep_filter_false ld hc h,
    fun s1 h hk => ⟨fun v s2 h2 => ?_, fun v m p t s2 h2 => ?_⟩,
    fun s1 h hk => ⟨fun v m p t s2 h2 => ?_, fun k s2 h2 => ⟨fun v s3 h3 => ?_, fun v m p t s3 h3 => ?_⟩⟩⟩
  · rw [comprStep_filter_true ld hc h]; exact comprStep_elem_ok ld hk h2
  · rw [comprStep_filter_true ld hc h]; exact comprStep_elem_err ld hk h2
  · subst hk; rw [comprStep_filter_true ld hc h]; exact comprStep_key_err ld h2
  · subst hk; rw [comprStep_filter_true ld hc h]; exact comprStep_key_value ld h2 h3
  · subst hk; rw [comprStep_filter_true ld hc h]; exact comprStep_value_err ld h2 h3

end Ckl.C04Compr
