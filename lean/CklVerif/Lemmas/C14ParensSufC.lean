/-
  C14 (redundant parentheses) — suffix lemmas, part C: functions, calls, dereferences
  (`pFn`, `paramsLoop`, `invokeBody`, `argsLoop`, `derefArrow`, `derefBracket`, `postfixLoop`).
-/
import CklVerif.Lemmas.C14ParensSufHyp
namespace Ckl.C14X
open Ckl Ckl.Parser

local notation "kw" => (some TokType.keyword)
local notation "ip" => (some TokType.interpunction)
local notation "op" => (some TokType.operator)
local notation "idt" => (some TokType.identifier)

set_option linter.unusedSimpArgs false
set_option linter.unusedVariables false

variable {ts : List Token}

theorem suf_pFn (c : Ctx) (pos : Pos) (st : St) (H : Suf (st.toks.length * 16 + 0)) (hs : st.toks <:+ ts) :
    SufP (fun o => o.st.toks <:+ ts) (pFn c pos st) := by
  rw [pFn]
  sbs (expect_suf hs _ _) with s1 h1 hs1
  sbh2 (H.paramsLoop c s1 _ _ (by omega)) hs1 with ps ds s2 h2 hs2
  sb (blockOrExpr_suf H c s2 hs2 (by omega)) with b s3 h3 hs3
  sok hs3

theorem suf_paramsLoop (c : Ctx) (st : St) (ps : List String) (ds : List Node)
    (H : Suf (st.toks.length * 16 + 0)) (hs : st.toks <:+ ts) :
    SufP (fun o => o.st.toks <:+ ts) (paramsLoop c st ps ds) := by
  rw [paramsLoop]
  smif hs c!")" ip with s1 h1 hs1
  · sb (next_suf hs) with t s1 h1 hs1
    sany u1
    sany u2
    sbrLe ts with dv s2 h2 hs2
    · smif hs1 c!"=" op with s h hs'
      · sok hs1
      · exact suf_ltLe (SufLt.to (H.pExpression c s (by omega)) hs')
    sif hb : (c!"...".isSuffixOf t.value && !s2.peekn 1 c!")" ip)
    · serr
    · sbs (sepUnless_suf hs2 _) with s3 h3 hs3
      sbh (H.paramsLoop c s3 _ _ (by omega)) hs3 with r s4 h4 hs4
      sok hs4
  · sok hs1

theorem suf_argsLoop (c : Ctx) (st : St) (names : List (Option String)) (args : List Node)
    (H : Suf (st.toks.length * 16 + 11)) (hs : st.toks <:+ ts) :
    SufP (fun o => o.st.toks <:+ ts) (argsLoop c st names args) := by
  rw [argsLoop]
  smif hs c!")" ip with s1 h1 hs1
  · sany t
    sif hb : (t.type == .identifier && st.peekn 2 c!"=" op)
    · sb (matchIdentifier_suf hs) with name s1 h1 hs1
      sbs (expect_suf hs1 _ _) with s2 h2 hs2
      sbh (H.pExpression c s2 (by omega)) hs2 with e s3 h3 hs3
      sbs (sepUnless_suf hs3 _) with s4 h4 hs4
      sbh (H.argsLoop c s4 _ _ (by omega)) hs4 with r s5 h5 hs5
      sok hs5
    · sbh (H.pExpression c st (by omega)) hs with e s1 h1 hs1
      sbs (sepUnless_suf hs1 _) with s2 h2 hs2
      sbh (H.argsLoop c s2 _ _ (by omega)) hs2 with r s3 h3 hs3
      sok hs3
  · sok hs1

theorem suf_invokeBody (c : Ctx) (node : Node) (st : St) (H : Suf (st.toks.length * 16 + 0))
    (hs : st.toks <:+ ts) : SufP (fun o => o.st.toks <:+ ts) (invokeBody c node st) := by
  rw [invokeBody]
  sbrLt ts with fn s1 h1 hs1
  · smif2 hs c!"(" ip c!"fn" kw with sa ha hsa
    · sb (matchIdentifier_suf hs) with name sa ha hsa
      sb (derefChain_suf _ sa _ ts rfl hsa) with fn0 sb hb hsb
      sok hsb
    · sbh (H.pFn c _ sa (by omega)) hsa with fn0 sb hb hsb
      sbs (expect_suf hsb _ _) with sc hc hsc
      sok hsc
  sbs (expect_suf hs1 _ _) with s2 h2 hs2
  sbh2 (H.argsLoop c s2 _ _ (by omega)) hs2 with names args s3 h3 hs3
  sok hs3

theorem suf_derefArrow (c : Ctx) (node : Node) (st : St) (H : Suf (st.toks.length * 16 + 0))
    (hs : st.toks <:+ ts) : SufP (fun o => o.st.toks <:+ ts) (derefArrow c node st) := by
  rw [derefArrow]
  sb (matchIdentifier_suf hs) with ident s1 h1 hs1
  smif hs1 c!"=" op with s2 h2 hs2
  · smif hs1 c!"(" ip with s2 h2 hs2
    · stab (matchOpTable_suf hs1 compoundOps) with fn s2 h2 hs2
      · sok hs1
      · sbh (H.pExpression c s2 (by omega)) hs2 with v s3 h3 hs3
        sok hs3
    · sbh2 (H.argsLoop c s2 _ _ (by omega)) hs2 with names args s3 h3 hs3
      sok hs3
  · sbh (H.pExpression c s2 (by omega)) hs2 with v s3 h3 hs3
    sok hs3

theorem suf_derefBracket (c : Ctx) (node : Node) (st : St) (H : Suf (st.toks.length * 16 + 11))
    (hs : st.toks <:+ ts) : SufP (fun o => o.st.toks <:+ ts) (derefBracket c node st) := by
  rw [derefBracket]
  sbh (H.pExpression c st (by omega)) hs with index s1 h1 hs1
  smif hs1 c!"to" idt with s2 h2 hs2
  · sbrLe ts with dv s2 h2 hs2
    · smif hs1 c!"," ip with s h hs'
      · sok hs1
      · exact suf_ltLe (SufLt.to (H.pExpression c s (by omega)) hs')
    smif2 hs2 c!"]" ip c!"=" op with s3 h3 hs3
    · stab (matchBracketCompound_suf hs2) with fn s3 h3 hs3
      · sbs (expect_suf hs2 _ _) with s3 h3 hs3
        sok hs3
      · sbh (H.pExpression c s3 (by omega)) hs3 with v s4 h4 hs4
        sok hs4
    · sbh (H.pExpression c s3 (by omega)) hs3 with v s4 h4 hs4
      sok hs4
  · sbrLe ts with stop s3 h3 hs3
    · smif hs2 c!"*" op with s h hs'
      · exact suf_ltLe (SufLt.to (H.pExpression c s2 (by omega)) hs2)
      · sok hs'
    sbs (expect_suf hs3 _ _) with s4 h4 hs4
    sok hs4

theorem suf_postfixLoop (c : Ctx) (ac ad : Bool) (st : St) (node : Node)
    (H : Suf (st.toks.length * 16 + 0)) (hs : st.toks <:+ ts) :
    SufP (fun o => o.st.toks <:+ ts) (postfixLoop c ac ad st node) := by
  rw [postfixLoop]
  smif hs c!"!>" op with s1 h1 hs1
  · smifg ac hs c!"(" ip with s1 h1 hs1
    · smifg ad hs c!"->" op with s1 h1 hs1
      · smifg ad hs c!"[" ip with s1 h1 hs1
        · sok hs
        · sbh2 (H.derefBracket c _ s1 (by omega)) hs1 with n interrupt s2 h2 hs2
          sif hi : interrupt
          · sok hs2
          · sbh (H.postfixLoop c ac ad s2 _ (by omega)) hs2 with r s3 h3 hs3
            sok hs3
      · sbh2 (H.derefArrow c _ s1 (by omega)) hs1 with n interrupt s2 h2 hs2
        sif hi : interrupt
        · sok hs2
        · sbh (H.postfixLoop c ac ad s2 _ (by omega)) hs2 with r s3 h3 hs3
          sok hs3
    · sbh2 (H.argsLoop c s1 _ _ (by omega)) hs1 with names args s2 h2 hs2
      sbh (H.postfixLoop c ac ad s2 _ (by omega)) hs2 with r s3 h3 hs3
      sok hs3
  · sbh (H.invokeBody c _ s1 (by omega)) hs1 with n s2 h2 hs2
    sbh (H.postfixLoop c ac ad s2 _ (by omega)) hs2 with r s3 h3 hs3
    sok hs3

end Ckl.C14X
