/-
  C06 — value equality (`veq`, the model of `__eq__`) is an equivalence relation that the set / map
  machinery respects.  All statements hold for all values (arbitrary nesting depth).
-/
import CklVerif.Lemmas.C06Coll

namespace Ckl.C06
open Ckl

/-! ### 1–3: equivalence -/

theorem veq_refl : ∀ a : Val, veq a a = true := veq_refl'
theorem veqL_refl : ∀ xs : List Val, veqL xs xs = true := veqL_refl'
theorem veqM_refl : ∀ xs : List (Val × Val), veqM xs xs = true := veqM_refl'

theorem veq_symm : ∀ a b : Val, veq a b = veq b a := veq_symm'
theorem veqL_symm : ∀ xs ys : List Val, veqL xs ys = veqL ys xs := veqL_symm'
theorem veqM_symm : ∀ xs ys : List (Val × Val), veqM xs ys = veqM ys xs := veqM_symm'

theorem veq_trans : ∀ a b c : Val, veq a b = true → veq b c = true → veq a c = true := veq_trans'
theorem veqL_trans : ∀ xs ys zs : List Val,
    veqL xs ys = true → veqL ys zs = true → veqL xs zs = true := veqL_trans'
theorem veqM_trans : ∀ xs ys zs : List (Val × Val),
    veqM xs ys = true → veqM ys zs = true → veqM xs zs = true := veqM_trans'

-- non-vacuity: a nested instance with int/decimal mixing (1 == 1.0 == 2/2)
example : veq (.list [.int 1, .set [.dec 3 1]]) (.list [.dec 2 1, .set [.dec 6 2]]) = true ∧
    veq (.list [.dec 2 1, .set [.dec 6 2]]) (.list [.dec 4 2, .set [.dec 12 3]]) = true := by
  decide

/-- equal values are interchangeable on either side of `veq` -/
theorem veq_congr_left {a b : Val} (h : veq a b = true) (c : Val) : veq a c = veq b c :=
  Ckl.veq_congr_left h c
theorem veq_congr_right {a b : Val} (h : veq a b = true) (c : Val) : veq c a = veq c b :=
  Ckl.veq_congr_right h c

example : veq (.int 1) (.dec 2 1) = true := by decide

/-! ### 4: values of different kinds are never equal -/

/-- the kind of a value; `int` and `decimal` are one numeric kind -/
inductive Kind where
  | null | bool | num | str | pat | date | list | set | map
deriving DecidableEq, Repr

def kindOf : Val → Kind
  | .null => .null
  | .bool _ => .bool
  | .int _ => .num
  | .dec _ _ => .num
  | .str _ => .str
  | .pat _ => .pat
  | .date _ => .date
  | .list _ => .list
  | .set _ => .set
  | .map _ => .map

theorem veq_cross_kind_false {a b : Val} (h : kindOf a ≠ kindOf b) : veq a b = false := by
  cases a <;> cases b <;> first | (exfalso; exact h rfl) | simp [veq]

example : kindOf (.str ['1']) ≠ kindOf (.int 1) := by decide
example : kindOf (.list []) ≠ kindOf (.set []) := by decide

/-- conversely, equal values have the same kind -/
theorem kindOf_eq_of_veq {a b : Val} (h : veq a b = true) : kindOf a = kindOf b := by
  by_contra hk
  rw [veq_cross_kind_false hk] at h
  exact Bool.false_ne_true h

/-! ### 5: numeric equality is exact rational equality -/

theorem veq_int_int_iff (a b : Int) : veq (.int a) (.int b) = true ↔ a = b := by
  simp [veq]

theorem veq_int_dec_iff (a m : Int) (e : Nat) :
    veq (.int a) (.dec m e) = true ↔ (a : ℚ) = (m : ℚ) / 2 ^ e := by
  simp only [veq]
  rw [numEq_iff, qOf_zero_exp, qOf]

theorem veq_dec_int_iff (m : Int) (e : Nat) (b : Int) :
    veq (.dec m e) (.int b) = true ↔ (m : ℚ) / 2 ^ e = (b : ℚ) := by
  simp only [veq]
  rw [numEq_iff, qOf_zero_exp, qOf]

theorem veq_dec_dec_iff (m : Int) (e : Nat) (m' : Int) (e' : Nat) :
    veq (.dec m e) (.dec m' e') = true ↔ (m : ℚ) / 2 ^ e = (m' : ℚ) / 2 ^ e' := by
  simp only [veq]
  rw [numEq_iff, qOf, qOf]

/-! ### 6: sets and maps respect `veq` -/

theorem memV_congr {a b : Val} (h : veq a b = true) (xs : List Val) : memV a xs = memV b xs :=
  memV_congr' h xs

example : veq (.int 2) (.dec 4 1) = true ∧ memV (.dec 4 1) [.int 1, .int 2] = true := by decide

theorem lookupM_congr {a b : Val} (h : veq a b = true) (m : List (Val × Val)) :
    lookupM a m = lookupM b m := lookupM_congr' h m

theorem dedup_pairwise (xs : List Val) :
    (dedupKeepFirst xs).Pairwise (fun x y => veq x y = false) := dedup_pairwise' xs

theorem dedup_mem (x : Val) (xs : List Val) : memV x (dedupKeepFirst xs) = memV x xs :=
  dedup_mem' x xs

/-- a list that has no `veq`-duplicates is not changed by `dedupKeepFirst` -/
theorem dedup_id_of_pairwise {xs : List Val} (h : xs.Pairwise (fun x y => veq x y = false)) :
    dedupKeepFirst xs = xs := dedup_of_pairwise h

example : [Val.int 1, .dec 3 1, .str []].Pairwise (fun x y => veq x y = false) := by decide

theorem assocPut_lookup_same (k v : Val) (m : List (Val × Val)) :
    lookupM k (assocPut k v m) = some v := assocPut_lookup_same' k v m

theorem assocPut_lookup_other {k k' : Val} (h : veq k k' = false) (v : Val)
    (m : List (Val × Val)) : lookupM k' (assocPut k v m) = lookupM k' m :=
  assocPut_lookup_other' h v m

example : veq (.int 1) (.dec 3 1) = false := by decide

/-- the keys of a map built by successive `dict[k] = v` are pairwise different w.r.t. `veq` -/
theorem assocOfList_keys_pairwise (kvs : List (Val × Val)) :
    ((assocOfList kvs).map Prod.fst).Pairwise (fun x y => veq x y = false) :=
  foldl_assocPut_keys_pairwise kvs [] List.Pairwise.nil

/-- `assocPut` keeps the resident key object: the key list only ever grows at the end -/
theorem assocPut_keys (k v : Val) (m : List (Val × Val)) :
    (assocPut k v m).map Prod.fst =
      if memV k (m.map Prod.fst) then m.map Prod.fst else m.map Prod.fst ++ [k] :=
  keysOf_assocPut k v m

/-! ### 7: equal numbers have equal hash payloads -/

theorem normNum_congr {m : Int} {e : Nat} {m' : Int} {e' : Nat}
    (h : numEq m e m' e' = true) : normNum m e = normNum m' e' := normNum_congr' h

example : numEq 12 3 3 1 = true ∧ normNum 12 3 = (3, 1) := by decide

/-- `normNum` does not change the number, and its result is canonical -/
theorem normNum_sound (m : Int) (e : Nat) :
    numEq m e (normNum m e).1 (normNum m e).2 = true ∧
      ((normNum m e).2 = 0 ∨ (normNum m e).1 % 2 = 1) :=
  ⟨normNum_numEq m e, normNum_isNorm m e⟩

/-- the converse of `normNum_congr`: the normal form determines the number -/
theorem normNum_inj {m : Int} {e : Nat} {m' : Int} {e' : Nat}
    (h : normNum m e = normNum m' e') : numEq m e m' e' = true := by
  have h1 := normNum_numEq m e
  have h2 := normNum_numEq m' e'
  rw [h] at h1
  rw [numEq_symm] at h2
  exact numEq_trans h1 h2

end Ckl.C06
