import CklVerif.Model.Str
import CklVerif.Proofs.C15
import Mathlib.Data.List.DropRight

/-!
  C18 helper lemmas: occurrences as boolean prefix tests, `reverse`, `trim`, ASCII case maps,
  `chr`/`ord`.
-/
namespace Ckl.C18
open Ckl.Seq Ckl.Str Ckl.C15

/-! ## occurrences of a non-empty pattern as prefix tests on suffixes -/

theorem isPrefixB_iff_prefix (t s : S) : isPrefixB t s = true ↔ t <+: s := by
  rw [isPrefixB_iff, List.prefix_iff_eq_take]
  exact eq_comm

theorem isPrefixB_append_self (t r : S) : isPrefixB t (t ++ r) = true :=
  (isPrefixB_iff_prefix t (t ++ r)).mpr (List.prefix_append t r)

/-- for a non-empty pattern, "occurs at `p`" is the prefix test on the suffix from `p` -/
theorem occursAt_iff_isPrefixB {s a : S} (ha : a ≠ []) (p : Nat) :
    OccursAt s a p ↔ isPrefixB a (s.drop p) = true := by
  rw [isPrefixB_iff]
  unfold OccursAt
  constructor
  · exact fun h => h.1
  · intro h
    refine ⟨h, ?_⟩
    have hl := congrArg List.length h
    simp only [List.length_take, List.length_drop] at hl
    have : 0 < a.length := List.length_pos_iff.mpr ha
    omega

/-- the prefix test only looks at the first `|t|` characters -/
theorem isPrefixB_append_of_le (t u r : S) (h : t.length ≤ u.length) :
    isPrefixB t (u ++ r) = isPrefixB t u := by
  induction t generalizing u with
  | nil => simp [isPrefixB]
  | cons c t ih =>
    cases u with
    | nil => simp at h
    | cons d u =>
      simp only [List.cons_append, isPrefixB]
      rw [ih u (by simpa using h)]

/-! ## `reverse` -/

theorem foldl_cons_eq (s acc : S) :
    s.foldl (fun result ch => ch :: result) acc = s.reverse ++ acc := by
  induction s generalizing acc with
  | nil => rfl
  | cons c cs ih => simp [ih]

/-! ## `trim` -/

theorem trimM_eq (s : S) : trimM s = (s.dropWhile pyIsSpace).rdropWhile pyIsSpace := rfl

/-- stripping trailing characters keeps "the head is not a space" -/
theorem dropWhile_rdropWhile_dropWhile (p : Char → Bool) (s : S) :
    ((s.dropWhile p).rdropWhile p).dropWhile p = (s.dropWhile p).rdropWhile p := by
  rw [List.dropWhile_eq_self_iff]
  intro hl
  have hpre : (s.dropWhile p).rdropWhile p <+: s.dropWhile p := List.rdropWhile_prefix p _
  have hpos : 0 < (s.dropWhile p).length := Nat.lt_of_lt_of_le hl hpre.length_le
  have h0 : ((s.dropWhile p).rdropWhile p)[0]'hl = (s.dropWhile p)[0]'hpos := hpre.getElem hl
  rw [h0]
  have hne : s.dropWhile p ≠ [] := List.ne_nil_of_length_pos hpos
  have := List.head_dropWhile_not p hne
  rw [List.head_eq_getElem] at this
  simpa using this

/-! ## ASCII case maps -/

theorem toNat_ofNat_of_lt (n : Nat) (h : n < 0xD800) : (Char.ofNat n).toNat = n := by
  have hv : n.isValidChar := Or.inl h
  simp [Char.ofNat, hv, Char.toNat, Char.ofNatAux]

theorem upperC_toNat (c : Char) :
    (upperC c).toNat = if 97 ≤ c.toNat ∧ c.toNat ≤ 122 then c.toNat - 32 else c.toNat := by
  unfold upperC
  split
  · rw [toNat_ofNat_of_lt _ (by omega)]
  · rfl

theorem lowerC_toNat (c : Char) :
    (lowerC c).toNat = if 65 ≤ c.toNat ∧ c.toNat ≤ 90 then c.toNat + 32 else c.toNat := by
  unfold lowerC
  split
  · rw [toNat_ofNat_of_lt _ (by omega)]
  · rfl

theorem char_ext_toNat {c d : Char} (h : c.toNat = d.toNat) : c = d := by
  rw [← Char.ofNat_toNat c, ← Char.ofNat_toNat d, h]

theorem upperC_idem (c : Char) : upperC (upperC c) = upperC c := by
  apply char_ext_toNat
  rw [upperC_toNat (upperC c), upperC_toNat c]
  (repeat' split) <;> omega

theorem lowerC_idem (c : Char) : lowerC (lowerC c) = lowerC c := by
  apply char_ext_toNat
  rw [lowerC_toNat (lowerC c), lowerC_toNat c]
  (repeat' split) <;> omega

theorem lowerC_upperC_lowerC (c : Char) : lowerC (upperC (lowerC c)) = lowerC c := by
  apply char_ext_toNat
  rw [lowerC_toNat (upperC (lowerC c)), upperC_toNat (lowerC c), lowerC_toNat c]
  (repeat' split) <;> omega

theorem upperC_lowerC_upperC (c : Char) : upperC (lowerC (upperC c)) = upperC c := by
  apply char_ext_toNat
  rw [upperC_toNat (lowerC (upperC c)), lowerC_toNat (upperC c), upperC_toNat c]
  (repeat' split) <;> omega

/-- on letters the two maps are mutually inverse -/
theorem lowerC_upperC_of_lower (c : Char) (h : 97 ≤ c.toNat ∧ c.toNat ≤ 122) :
    lowerC (upperC c) = c := by
  apply char_ext_toNat
  rw [lowerC_toNat (upperC c), upperC_toNat c]
  (repeat' split) <;> omega

/-! ## `chr` / `ord` -/

theorem toNat_ofNat_of_valid (n : Nat) (h : n.isValidChar) : (Char.ofNat n).toNat = n := by
  simp [Char.ofNat, h, Char.toNat, Char.ofNatAux]

end Ckl.C18
