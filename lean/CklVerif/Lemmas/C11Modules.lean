/-
  C11 — a module is evaluated at most once and the cached instance is never replaced:
  instance of the generic logic.
-/
import CklVerif.Lemmas.C10GenMain
namespace Ckl.C11
open Ckl Ckl.C05 Ckl.Gen

/-- counter of key `k` (0 when absent) -/
def cntS : List (String × Nat) → String → Nat
  | [], _ => 0
  | (q, n) :: rest, k => if k = q then n else cntS rest k

theorem cntS_bumpS (l : List (String × Nat)) (k q : String) :
    cntS (bumpS k l) q = cntS l q + (if q = k then 1 else 0) := by
  induction l with
  | nil => simp [bumpS, cntS]
  | cons hd tl ih =>
    obtain ⟨r, n⟩ := hd
    simp only [bumpS]
    by_cases hkr : k = r
    · subst hkr
      simp only [if_true, cntS]
      by_cases hq : q = k <;> simp [hq]
    · simp only [hkr, if_false, cntS]
      by_cases hq : q = r
      · have : q ≠ k := fun h => hkr (h ▸ hq)
        simp [hq]; intro h; exact absurd h.symm hkr
      · simp [hq, ih]

/-- how often the module `id` was evaluated (ghost counter `moduleEvals`) -/
def evals (s : State) (id : String) : Nat := cntS s.ghost.moduleEvals id

/-- the module cache and the evaluation counters agree: a module was evaluated exactly once if
    it is cached and never otherwise -/
def ModInv (s : State) : Prop :=
  ∀ id, evals s id = if (s.modules.lookup id).isSome then 1 else 0

theorem ModInv.congr {a a' : State} (h2 : a'.modules = a.modules)
    (h3 : a'.ghost.moduleEvals = a.ghost.moduleEvals) : ModInv a' ↔ ModInv a := by
  unfold ModInv evals; rw [h2, h3]

/-- the invariant as a preorder: the load stack is kept, `ModInv` is preserved, cached modules
    stay cached with the same frame, and modules that are being loaded (they are on the load
    stack) are not cached behind the loader's back -/
def RMod (s s' : State) : Prop :=
  s'.modstack = s.modstack ∧
  (ModInv s → ModInv s') ∧
  (∀ id e, s.modules.lookup id = some e → s'.modules.lookup id = some e) ∧
  (∀ id, id ∈ s.modstack → s.modules.lookup id = none → s'.modules.lookup id = none)

theorem RMod.refl (s : State) : RMod s s := ⟨rfl, id, fun _ _ h => h, fun _ _ h => h⟩

theorem RMod.trans {a b c : State} (h1 : RMod a b) (h2 : RMod b c) : RMod a c :=
  ⟨h2.1.trans h1.1, fun h => h2.2.1 (h1.2.1 h), fun id e h => h2.2.2.1 id e (h1.2.2.1 id e h),
   fun id hm h => h2.2.2.2 id (h1.1 ▸ hm) (h1.2.2.2 id hm h)⟩

/-- only the load stack, the cache and the counters matter, on either side -/
theorem RMod.congr {a a' b b' : State}
    (ha1 : a'.modstack = a.modstack) (ha2 : a'.modules = a.modules)
    (ha3 : a'.ghost.moduleEvals = a.ghost.moduleEvals)
    (hb1 : b'.modstack = b.modstack) (hb2 : b'.modules = b.modules)
    (hb3 : b'.ghost.moduleEvals = b.ghost.moduleEvals)
    (h : RMod a b) : RMod a' b' := by
  obtain ⟨h1, h2, h3, h4⟩ := h
  refine ⟨by rw [hb1, ha1, h1], ?_, ?_, ?_⟩
  · intro hi
    exact (ModInv.congr hb2 hb3).mpr (h2 ((ModInv.congr ha2 ha3).mp hi))
  · intro id e he; rw [hb2]; exact h3 id e (ha2 ▸ he)
  · intro id hm he; rw [hb2]; exact h4 id (ha1 ▸ hm) (ha2 ▸ he)

def IMod : Rel where
  R := RMod
  refl := RMod.refl
  trans := RMod.trans
  keep := fun h1 h2 =>
    RMod.congr rfl rfl rfl (congrArg Obs.modstack h2) (congrArg Obs.modules h2)
      (congrArg (fun o => o.ghost.moduleEvals) h2) h1
  block := fun {_ s s1 s2 pos} h0 h1 h2 =>
    h0.trans ((RMod.congr (a := ghostEnter s pos) (b := s1) rfl rfl rfl rfl rfl rfl h1).trans
      (RMod.congr (a := ghostFin s1 pos) (b := s2) rfl rfl rfl rfl rfl rfl h2))

/-- hypothesis on the unmodelled natives: they leave the load stack, the module cache and the
    evaluation counters alone (whenever they return a value, a runtime error or a hard failure) -/
def NativeKeepsModules (ld : Loader) : Prop :=
  ∀ name args s, GPost IMod s (ld.nativeSem name args s)

/-- drop the top of the load stack -/
def pop (s : State) : State := { s with modstack := s.modstack.dropLast }

theorem RMod.pop {a b : State} (h : RMod a b) : RMod (pop a) (pop b) := by
  obtain ⟨h1, h2, h3, h4⟩ := h
  refine ⟨by show b.modstack.dropLast = a.modstack.dropLast; rw [h1], h2, h3, ?_⟩
  intro id hm he
  exact h4 id (List.dropLast_subset _ hm) he

/-- the specification of `loadModule`: called the way `evalRequire` calls it — the module on
    top of the load stack and nowhere else on it — it satisfies the invariant for the stack
    without the top entry (the module itself does get cached) -/
def LS (ld : Loader) (fuel : Nat) : Prop :=
  ∀ env ident file pos s ms, s.modstack = ms ++ [ident] → ident ∉ ms →
    GPost IMod (pop s) (match loadModule ld fuel env ident file pos s with
      | .ok e s2 => .ok e (pop s2)
      | .err v m p t s2 => .err v m p t (pop s2)
      | .fail f s2 => .fail f (pop s2))

theorem ls_zero (ld : Loader) : LS ld 0 := by
  intro env ident file pos s ms _ _
  simp only [loadModule, Ckl.failM]
  exact fun h => h.elim

theorem pop_push (s : State) (ident : String) :
    pop { s with modstack := s.modstack ++ [ident] } = s := by
  cases s; simp [pop]

theorem frag (ld : Loader) (fuel : Nat) (h : LS ld fuel) : Frag IMod ld fuel := by
  intro s0 env ident file pos k hk s hs hc
  have hnot : ident ∉ s.modstack := by
    intro hm; exact hc (List.contains_iff_mem.mpr hm)
  have hl := h env ident file pos ({ s with modstack := s.modstack ++ [ident] } : State) s.modstack rfl hnot
  rw [pop_push] at hl
  rw [bind_def]
  show GPost IMod s0 (((fun s1 => _) >>= k) _)
  rw [bind_def]
  revert hl
  cases loadModule ld fuel env ident file pos { s with modstack := s.modstack ++ [ident] } with
  | ok e s2 => intro hl; exact (hk e).run _ (RMod.trans hs hl)
  | err v m p t s2 => intro hl; exact RMod.trans hs hl
  | fail f s2 => intro hl hf; exact RMod.trans hs (hl hf)

/-- registration of a freshly evaluated module -/
def addModule (s : State) (ident : String) (menv : EnvId) : State :=
  { s with modules := s.modules ++ [(ident, menv)],
           ghost := { s.ghost with moduleEvals := bumpS ident s.ghost.moduleEvals } }

theorem lookup_add_self {l : List (String × EnvId)} {ident : String} {menv : EnvId}
    (h : l.lookup ident = none) : (l ++ [(ident, menv)]).lookup ident = some menv := by
  rw [List.lookup_append, h]; simp

theorem lookup_add_ne {l : List (String × EnvId)} {ident id : String} {menv : EnvId}
    (h : id ≠ ident) : (l ++ [(ident, menv)]).lookup id = l.lookup id := by
  rw [List.lookup_append]
  have hb : (id == ident) = false := by simpa using h
  have : ([(ident, menv)] : List (String × EnvId)).lookup id = none := by
    simp [List.lookup_cons, hb]
  rw [this]; simp

theorem lookup_add_some {l : List (String × EnvId)} {ident id : String} {menv e : EnvId}
    (h : l.lookup id = some e) : (l ++ [(ident, menv)]).lookup id = some e := by
  rw [List.lookup_append, h]; rfl

/-- the heart of C11: the module was not cached before its body ran, it is on the load stack,
    so (by the invariant) it is still not cached after the body ran, and registering it keeps
    cache and counters in agreement -/
theorem rmod_addModule {s s1 s2 : State} {ident : String} {ms : List String} {menv : EnvId}
    (hst : s.modstack = ms ++ [ident]) (hni : ident ∉ ms)
    (hlk : s.modules.lookup ident = none)
    (e1 : s1.modstack = s.modstack) (e2 : s1.modules = s.modules)
    (e3 : s1.ghost.moduleEvals = s.ghost.moduleEvals)
    (h12 : RMod s1 s2) : RMod (pop s) (pop (addModule s2 ident menv)) := by
  obtain ⟨h1, h2, h3, h4⟩ := h12
  have hin : ident ∈ s1.modstack := by rw [e1, hst]; simp
  have hnone2 : s2.modules.lookup ident = none := h4 ident hin (by rw [e2]; exact hlk)
  refine ⟨?_, ?_, ?_, ?_⟩
  · show s2.modstack.dropLast = s.modstack.dropLast
    rw [h1, e1]
  · intro hi
    have hi1 : ModInv s1 := (ModInv.congr e2 e3).mpr hi
    have hi2 := h2 hi1
    intro id
    show cntS (bumpS ident s2.ghost.moduleEvals) id
      = if ((s2.modules ++ [(ident, menv)]).lookup id).isSome then 1 else 0
    rw [cntS_bumpS]
    by_cases hid : id = ident
    · subst hid
      have h0 := hi2 id
      unfold evals at h0
      rw [hnone2] at h0
      rw [lookup_add_self hnone2, h0]; simp
    · have h0 := hi2 id
      unfold evals at h0
      rw [lookup_add_ne hid, h0]; simp [hid]
  · intro id e he
    show (s2.modules ++ [(ident, menv)]).lookup id = some e
    exact lookup_add_some (h3 id e (by rw [e2]; exact he))
  · intro id hm he
    have hm' : id ∈ ms := by
      have : (pop s).modstack = ms := by show s.modstack.dropLast = ms; rw [hst]; simp
      rw [this] at hm; exact hm
    have hne : id ≠ ident := fun h => hni (h ▸ hm')
    show (s2.modules ++ [(ident, menv)]).lookup id = none
    rw [lookup_add_ne hne]
    refine h4 id ?_ (by rw [e2]; exact he)
    rw [e1, hst]; exact List.mem_append_left _ hm'

theorem rmod_same {s s1 : State} (e1 : s1.modstack = s.modstack) (e2 : s1.modules = s.modules)
    (e3 : s1.ghost.moduleEvals = s.ghost.moduleEvals) : RMod (pop s) (pop s1) :=
  RMod.congr (a := pop s) (b := pop s) rfl rfl rfl
    (by show s1.modstack.dropLast = s.modstack.dropLast; rw [e1]) e2 e3 (RMod.refl _)

theorem load_step (ld : Loader) (fuel : Nat) (ih : AllG IMod ld (LS ld) fuel) : LS ld (fuel + 1) := by
  have ihEval := ih.eval
  intro env ident file pos s ms hst hni
  simp only [loadModule]
  rw [bind_ok (getS_run s)]
  cases hlk : List.lookup ident s.modules with
  | some e => exact RMod.refl _
  | none =>
    dsimp only
    rw [bind_ok (show setS (s.newEnv (s.base env)).fst s = .ok () (s.newEnv (s.base env)).fst from rfl)]
    have hsame : RMod (pop s) (pop (s.newEnv (s.base env)).fst) := rmod_same rfl rfl rfl
    cases hf : ld.find file with
    | none =>
      dsimp only
      by_cases hb : ld.bundledNames.contains file.toLower = true
      · rw [if_pos hb]; exact fun (h : False) => h.elim
      · rw [if_neg hb]; exact hsame
    | some r =>
      cases r with
      | error e => exact fun _ => hsame
      | ok ast =>
        dsimp only
        have hE := (ihEval (s.newEnv (s.base env)).fst (s.newEnv (s.base env)).snd ast).run _ (RMod.refl _)
        rw [bind_def]
        revert hE
        cases eval ld fuel (s.newEnv (s.base env)).snd ast (s.newEnv (s.base env)).fst with
        | ok v s2 =>
          intro hE
          exact rmod_addModule hst hni hlk rfl rfl rfl hE
        | err v m p t s2 =>
          intro hE
          exact RMod.trans hsame (RMod.pop hE)
        | fail f s2 =>
          intro hE hf
          exact RMod.trans hsame (RMod.pop (hE hf))


theorem allMod {ld : Loader} (hNat : NativeKeepsModules ld) : ∀ fuel, AllG IMod ld (LS ld) fuel :=
  allG (fun s0 name args => GTr.of_post (hNat name args) s0) (ls_zero ld) (frag ld) (load_step ld)

end Ckl.C11
