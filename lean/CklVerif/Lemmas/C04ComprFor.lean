import CklVerif.Lemmas.C04ComprLoop
import CklVerif.Lemmas.C19SrcAppend

/-! C04Compr — the explicit loop `def r = []; for x in e do if cond then append(r, ve) end; r` (as an AST of exactly that shape)
    over a list cell, for pure `cond` / `ve`: the states the loop goes through are explicit (`loopSt`). -/
namespace Ckl.C04Compr
open Ckl Ckl.C03 Ckl.C19Src
variable (ld : Loader)

/-- the AST the parser makes of `def r = []; for x in e do if cond then append(r, ve) end; r` (all positions free) -/
def forAppend (r x : String) (e cond ve : Node) (info what : String) (b : Bool) (p0 p1 p2 p3 p4 p5 p6 p7 p8 p9 : Pos) : Node :=
  .block [.defn r (.list [] p1) info p2,
          .for [x] e (.ite [cond] [.call (.ident "append" p3) [none, none] [.ident r p4, ve] p5] (.lit (.bool true) p6) p7)
            what p8,
          .ident r p9] [] [] [] b p0

/-- the state of the loop program while the result cell (address `s.heap.size`, bound to `r` in the CURRENT frame `env`) holds
    `L`, the loop variable not bound -/
def loopSt (s : State) (env : EnvId) (r : String) (p0 : Pos) (L : List RVal) : State :=
  ((ghostEnter s p0).alloc (.list L)).1.put env r (.ref s.heap.size)

theorem loopSt_setCell (s : State) (env : EnvId) (r x : String) (p0 : Pos) (L L' : List RVal) (v : RVal) :
    ((loopSt s env r p0 L).put env x v).setCell s.heap.size (.list L') = (loopSt s env r p0 L').put env x v := by
  unfold loopSt State.put State.setCell State.alloc ghostEnter
  simp only [State.mk.injEq, and_true, true_and]
  apply Array.ext
  · simp
  · intro i h1 h2
    by_cases hi : i = s.heap.size
    · subst hi; simp
    · have : i < s.heap.size := by simp at h2; omega
      grind

theorem loopSt_cell_new (s : State) (env : EnvId) (r : String) (p0 : Pos) (L : List RVal) :
    (loopSt s env r p0 L).cell s.heap.size = some (.list L) :=
  cell_alloc_new (ghostEnter s p0) (.list L)

theorem loopSt_cell_old (s : State) (env : EnvId) (r : String) (p0 : Pos) (L : List RVal) {a : Nat} (h : a < s.heap.size) :
    (loopSt s env r p0 L).cell a = s.cell a :=
  cell_alloc_old (ghostEnter s p0) (.list L) h

theorem loopSt_heap_size (s : State) (env : EnvId) (r : String) (p0 : Pos) (L : List RVal) :
    (loopSt s env r p0 L).heap.size = s.heap.size + 1 :=
  heap_size_alloc (ghostEnter s p0) (.list L)

theorem loopSt_frames_size (s : State) (env : EnvId) (r : String) (p0 : Pos) (L : List RVal) :
    (loopSt s env r p0 L).frames.size = s.frames.size := by
  unfold loopSt; rw [frames_size_put]; rfl

theorem loopSt_frame_other (s : State) {env e : EnvId} (r : String) (p0 : Pos) (L : List RVal) (h : e ≠ env) :
    (loopSt s env r p0 L).frame e = s.frame e := by
  unfold loopSt; rw [frame_put_other _ _ _ h]; rfl

theorem loopSt_vars (s : State) {env : EnvId} (r : String) (p0 : Pos) (L : List RVal) (h : env < s.frames.size) :
    ((loopSt s env r p0 L).frame env).vars = dictPut r (.ref s.heap.size) (s.frame env).vars := by
  unfold loopSt; rw [vars_put_same _ _ _ (show env < ((ghostEnter s p0).alloc (.list L)).1.frames.size from h)]; rfl

theorem loopSt_out (s : State) (env : EnvId) (r : String) (p0 : Pos) (L : List RVal) : (loopSt s env r p0 L).out = s.out := rfl

theorem lookup_put_other_name (s : State) (e e' : EnvId) {x y : String} (v : RVal) (h : x ≠ y) :
    (s.put e x v).lookup e' y = s.lookup e' y := by
  unfold State.lookup; rw [frames_size_put, lookupF_put_other_name s e v h]

theorem loopSt_lookup_r (s : State) {env : EnvId} (r : String) (p0 : Pos) (L : List RVal) (h : env < s.frames.size) :
    (loopSt s env r p0 L).lookup env r = some (.ref s.heap.size) := by
  unfold State.lookup loopSt
  exact lookupF_put_same _ r _ (show env < ((ghostEnter s p0).alloc (.list L)).1.frames.size from h) _

theorem lookupF_frames {s s' : State} (h : s'.frames = s.frames) (y : String) :
    ∀ (n : Nat) (e : EnvId), s'.lookupF n e y = s.lookupF n e y := by
  intro n
  induction n with
  | zero => intro e; rfl
  | succ n ih =>
    intro e
    simp only [State.lookupF, State.frame, h]
    split
    · rfl
    · split
      · exact ih _
      · rfl

theorem loopSt_lookup_other (s : State) (env e' : EnvId) {r y : String} (p0 : Pos) (L : List RVal) (h : r ≠ y) :
    (loopSt s env r p0 L).lookup e' y = s.lookup e' y := by
  unfold loopSt; rw [lookup_put_other_name _ _ _ _ h]
  unfold State.lookup
  exact lookupF_frames (s := s) (s' := ((ghostEnter s p0).alloc (.list L)).1) rfl y _ _

/-! ### binding and removing a variable that was not bound -/

theorem dictDel_dictPut {β} (x : String) (v : β) (l : List (String × β)) (h : dictGet x l = none) :
    dictDel x (dictPut x v l) = l := by
  induction l with
  | nil => simp [dictPut, dictDel]
  | cons a l ih =>
    obtain ⟨k, w⟩ := a
    simp only [dictGet] at h
    by_cases hk : x = k
    · simp [hk] at h
    · simp only [hk, if_false] at h
      simp [dictPut, dictDel, hk, ih h]

/-- `for` binds its variable in the current frame and removes it at the end: when the name was not bound there before, the frame
    is as before -/
theorem remove_put (s : State) (e : EnvId) (x : String) (v : RVal) (h : dictGet x (s.frame e).vars = none) :
    (s.put e x v).remove e x = s := by
  by_cases he : e < s.frames.size
  · rw [frame_of_lt s he] at h
    unfold State.put State.remove
    simp only []
    have : (s.frames.modify e fun f => { f with vars := dictPut x v f.vars }).modify e
        (fun f => { f with vars := dictDel x f.vars }) = s.frames := by
      apply Array.ext
      · simp
      · intro i h1 h2
        simp [Array.getElem_modify]
        split
        · subst e; simp [dictDel_dictPut x v _ h]
        · rfl
    rw [this]
  · rw [put_out_of_range s x v (Nat.le_of_not_lt he)]
    unfold State.remove
    have : s.frames.modify e (fun f => { f with vars := dictDel x f.vars }) = s.frames := by
      apply Array.ext
      · simp
      · intro i h1 h2
        have : e ≠ i := by intro hh; subst hh; simp at h1; exact he h1
        simp [Array.getElem_modify, this]
    rw [this]

theorem bindLast_put (s : State) (e : EnvId) (x : String) (ys : List RVal) (v : RVal) :
    (bindLast s e x ys).put e x v = s.put e x v := by
  unfold bindLast; cases ys.getLast? with
  | none => rfl
  | some w => exact put_put _ _ _ _ _

theorem bindLast_snoc (s : State) (e : EnvId) (x : String) (ys : List RVal) (v : RVal) :
    bindLast s e x (ys ++ [v]) = s.put e x v := by
  unfold bindLast; simp

/-- the content of the result cell before the iteration with index `i` -/
def done (xs : List RVal) (c : RVal → Bool) (g : RVal → RVal) (i : Nat) : List RVal := ((xs.take i).filter c).map g

theorem done_succ {xs : List RVal} (c : RVal → Bool) (g : RVal → RVal) {i : Nat} {v : RVal} (hv : xs[i]? = some v) :
    done xs c g (i + 1) = if c v then done xs c g i ++ [g v] else done xs c g i := by
  unfold done
  rw [List.take_add_one, hv]
  cases hcv : c v <;> simp [List.filter_append, hcv]

/-! ### the loop program -/

/-- **the explicit loop** over a list cell `a` holding `xs`, for a filter and an element expression that are pure in the states
    the loop goes through (`r` bound to the result cell in the CURRENT frame, `x` bound in the CURRENT frame): the value is the
    FRESH cell `s.heap.size`, and the final state is `loopSt … ((xs.filter c).map g)` up to the ghost counter — the current frame
    has gained `r`; the loop variable, which was not bound before, is removed again. -/
theorem for_append_ev {k kc kv : Nat} {env : EnvId} {r x : String} {e cond ve : Node} {info what : String} {b : Bool}
    {p0 p1 p2 p3 p4 p5 p6 p7 p8 p9 : Pos} {s : State} {a i0 : Nat} {xs : List RVal}
    (c : RVal → Bool) (g : RVal → RVal)
    (henv : env < s.frames.size) (hrx : r ≠ x) (hra : r ≠ "append") (hxa : x ≠ "append")
    (hx : dictGet x (s.frame env).vars = none)
    (happ : s.lookup env "append" = some (.native "append" i0))
    (hns : NotSpread ve)
    (he : Ev ld k env e (loopSt s env r p0 []) (.ok (.ref a) (loopSt s env r p0 [])))
    (hca : s.cell a = some (.list xs))
    (hcond : ∀ i v, xs[i]? = some v → Ev ld kc env cond ((loopSt s env r p0 (done xs c g i)).put env x v)
      (.ok (.bool (c v)) ((loopSt s env r p0 (done xs c g i)).put env x v)))
    (hve : ∀ i v, xs[i]? = some v → c v = true → Ev ld kv env ve ((loopSt s env r p0 (done xs c g i)).put env x v)
      (.ok (g v) ((loopSt s env r p0 (done xs c g i)).put env x v))) :
    Ev ld (max k (max kc kv) + xs.length + 16) env (forAppend r x e cond ve info what b p0 p1 p2 p3 p4 p5 p6 p7 p8 p9) s
      (.ok (.ref s.heap.size) (ghostFin (loopSt s env r p0 ((xs.filter c).map g)) p0)) := by
  have halt : a < s.heap.size := cell_lt hca
  have hab : a ≠ s.heap.size := Nat.ne_of_lt halt
  generalize hK : max k (max kc kv) + xs.length + 12 = K
  let body : Node := .ite [cond] [.call (.ident "append" p3) [none, none] [.ident r p4, ve] p5] (.lit (.bool true) p6) p7
  -- statement 1
  have S1 : Ev ld K env (.defn r (.list [] p1) info p2) (ghostEnter s p0) (.ok (.ref s.heap.size) (loopSt s env r p0 [])) :=
    Ev.mono ld (Ev.defn ld (k := 1) (by intro a h; cases h) (Ev.listNil ld (k := 0))) (by omega)
  -- the loop
  have hstep : ∀ i (r0 : RVal) st v,
      (isCtl r0 = false ∧ st = bindLast (loopSt s env r p0 (done xs c g i)) env x (xs.take i)) → xs[i]? = some v →
      ∃ r' s', Ev ld (max kc kv + 6) env body (st.put env x v) (.ok r' s') ∧ isCtl r' = false ∧
        (isCtl r' = false ∧ s' = bindLast (loopSt s env r p0 (done xs c g (i + 1))) env x (xs.take (i + 1))) := by
    intro i r0 st v hI hv
    obtain ⟨_, rfl⟩ := hI
    rw [bindLast_put, List.take_add_one, hv]
    simp only [Option.toList_some, bindLast_snoc, done_succ c g hv]
    have hc1 := hcond i v hv
    cases hcv : c v with
    | false =>
      rw [hcv] at hc1
      simp only [Bool.false_eq_true, if_false]
      exact ⟨_, _, Ev.mono ld (Ev.ite ld (EvIf.false ld (Ev.mono ld hc1 (Nat.le_succ kc)) (EvIf.else ld (Ev.litBool ld (k := kc))))) (by omega), rfl, rfl, rfl⟩
    | true =>
      rw [hcv] at hc1
      simp only [if_true]
      have hv1 := hve i v hv hcv
      have hlk : ((loopSt s env r p0 (done xs c g i)).put env x v).lookup env "append" = some (.native "append" i0) := by
        rw [lookup_put_other_name _ _ _ _ hxa, loopSt_lookup_other _ _ _ _ _ hra]; exact happ
      have hlr : ((loopSt s env r p0 (done xs c g i)).put env x v).lookup env r = some (.ref s.heap.size) := by
        rw [lookup_put_other_name _ _ _ _ (Ne.symm hrx)]; exact loopSt_lookup_r s r p0 _ henv
      have hcb : ((loopSt s env r p0 (done xs c g i)).put env x v).cell s.heap.size = some (.list (done xs c g i)) := by
        rw [cell_put]; exact loopSt_cell_new s env r p0 _
      obtain ⟨mm, hm1, hm2⟩ := append_list s.heap.size _ (g v)
        (div0Value ((loopSt s env r p0 (done xs c g i)).put env x v) env) p5 _ hcb
      have A := Ev.nat2 ld (k := kv) (p := p3) (pos := p5) hlk (by rfl) (by decide) (by decide) (by trivial) hns
        (Ev.ident ld (p := p4) hlr) hv1 hm1 hm2
      rw [wrapCall_ok, loopSt_setCell] at A
      exact ⟨_, _, Ev.mono ld (Ev.ite ld (EvIf.true ld (Ev.mono ld hc1 (show kc ≤ max kc (kv + 4) by omega))
        (Ev.mono ld A (by omega)))) (by omega), rfl, rfl, rfl⟩
  have hcellI : ∀ i (r0 : RVal) st,
      (isCtl r0 = false ∧ st = bindLast (loopSt s env r p0 (done xs c g i)) env x (xs.take i)) →
      st.cell a = some (.list xs) := by
    intro i r0 st hI
    obtain ⟨_, rfl⟩ := hI
    show (bindLast _ env x _).heap[a]? = _
    rw [bindLast_heap]
    exact (loopSt_cell_old s env r p0 _ halt).trans hca
  obtain ⟨r', st, ⟨hctl, hst⟩, hloop⟩ := forListLive_inv ld (kb := max kc kv + 6) (env := env) (x := x) (a := a) (body := body)
    (pos := p8) xs (fun i r0 st => isCtl r0 = false ∧ st = bindLast (loopSt s env r p0 (done xs c g i)) env x (xs.take i))
    hcellI (fun i r0 st v hI hv => hstep i r0 st v hI hv) xs.length 0 (.bool true) (loopSt s env r p0 [])
    (by omega) ⟨rfl, by simp [done, bindLast_nil]⟩
  have hdone : done xs c g xs.length = (xs.filter c).map g := by unfold done; rw [List.take_length]
  rw [List.take_length, hdone] at hst
  have hhid : dictGet x ((loopSt s env r p0 []).frame env).vars = none := by
    rw [loopSt_vars s r p0 [] henv, dictGet_dictPut_other hrx]; exact hx
  have hF := Ev.forList ld (k := k) (kl := max kc kv + 6 + xs.length + 1) (what := what) (x := x) (pos := p8) (body := body)
    hhid he ((loopSt_cell_old s env r p0 _ halt).trans hca) hloop (hcellI _ r' st ⟨hctl, by rw [List.take_length, hdone]; exact hst⟩)
  -- the state after the loop is `loopSt` of the final content
  have hfin : (if xs.isEmpty then st else st.remove env x) = loopSt s env r p0 ((xs.filter c).map g) := by
    subst hst
    cases hxs : xs with
    | nil => rfl
    | cons y ys =>
      simp only [List.isEmpty_cons, Bool.false_eq_true, if_false]
      unfold bindLast
      cases hl : (y :: ys).getLast? with
      | none => simp at hl
      | some w =>
        simp only []
        refine remove_put _ _ _ _ ?_
        rw [loopSt_vars s r p0 _ henv, dictGet_dictPut_other hrx]; exact hx
  rw [hfin] at hF
  have S3 : Ev ld K env (.ident r p9) (loopSt s env r p0 ((xs.filter c).map g))
      (.ok (.ref s.heap.size) (loopSt s env r p0 ((xs.filter c).map g))) :=
    Ev.ident ld (loopSt_lookup_r s r p0 _ henv)
  unfold forAppend
  exact Ev.mono ld (k := K + 2 + 1 + 1) (Ev.block ld (b := b) (pos := p0)
    (EvBody.cons ld (Ev.mono ld S1 (show K ≤ K + 2 by omega)) rfl
      (EvBody.cons ld (Ev.mono ld hF (show _ ≤ K + 1 by omega)) hctl
        (EvBody.cons ld S3 rfl (EvBody.nil ld))))) (by omega)

end Ckl.C04Compr
