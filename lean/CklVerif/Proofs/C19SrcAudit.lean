import CklVerif.Gen.LibSrcCheck
import CklVerif.Proofs.C19Src

#print axioms Ckl.C19Src.def_creates_isSrc
#print axioms Ckl.C19Src.libEnv_satisfiable
#print axioms Ckl.C19Src.is_int_src
#print axioms Ckl.C19Src.is_decimal_src
#print axioms Ckl.C19Src.is_list_src
#print axioms Ckl.C19Src.is_numeric_src
#print axioms Ckl.C19Src.abs_src_int
#print axioms Ckl.C19Src.abs_src_eq_mirror
#print axioms Ckl.C19Src.abs_src_null
#print axioms Ckl.C19Src.sign_src_int
#print axioms Ckl.C19Src.sign_src_eq_mirror
#print axioms Ckl.C19Src.sign_src_null
#print axioms Ckl.C19Src.abs_src_not_numeric
#print axioms Ckl.C19Src.sign_src_not_numeric
#print axioms Ckl.C19Src.rest_src
#print axioms Ckl.C19Src.abs_call_node
#print axioms Ckl.C19Src.sign_call_node
