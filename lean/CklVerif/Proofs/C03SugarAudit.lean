import CklVerif.Proofs.C03Sugar

/-! axiom audit for C03Sugar: every theorem must depend only on propext, Classical.choice, Quot.sound -/
open Ckl Ckl.C03S

/-! ### 1. pipeline, parser level -/
#print axioms Ckl.C03S.pipeline_step_desugars
#print axioms Ckl.C03S.pipeline_desugars
#print axioms Ckl.C03S.pipeline_desugars_ident
#print axioms Ckl.C03S.pipeline_chain_desugars
#print axioms Ckl.C03S.pipeline_program_desugars
#print axioms Ckl.C03S.parseWith_of_primary
#print axioms Ckl.C03S.pExpression_call1_arg
#print axioms Ckl.C03S.pipeline_int_literal
#print axioms Ckl.C03S.pipeline_no_call
#print axioms Ckl.C03S.pipeline_no_call_eof
#print axioms Ckl.C03S.pipeline_lambda
#print axioms Ckl.C03S.postfixLoop_pipe
#print axioms Ckl.C03S.postfixLoop_call
#print axioms Ckl.C03S.invokeBody_ident
#print axioms Ckl.C03S.invokeBody_lambda
#print axioms Ckl.C03S.invokeBody_no_call
#print axioms Ckl.C03S.invokeBody_no_call_eof
#print axioms Ckl.C03S.invokeBody_no_function
#print axioms Ckl.C03S.argsLoop_close
#print axioms Ckl.C03S.argsLoop_positional
#print axioms Ckl.C03S.argsLoop_named
#print axioms Ckl.C03S.postfixLoop_sim
#print axioms Ckl.C03S.argsLoop_sim
#print axioms Ckl.C03S.pExpression_sim
#print axioms Ckl.C03S.invokeBody_sim
#print axioms Ckl.C03S.pExpression_of_primary
#print axioms Ckl.C03S.pPrimary_ident_postfix
#print axioms Ckl.C03S.pPrimary_int_postfix
#print axioms Ckl.C03S.pPrimary_string_postfix
#print axioms Ckl.C03S.pPrimary_paren_postfix
#print axioms Ckl.C03S.pExpression_ident_arg
/-! ### 2. pipeline, evaluator level -/
#print axioms Ckl.C03S.pipeline_binds_first
#print axioms Ckl.C03S.setArgs_first_positional
#print axioms Ckl.C03S.bindSpec_first_positional
#print axioms Ckl.C03S.invoke_closure
#print axioms Ckl.C03S.invoke_args_err
#print axioms Ckl.C03S.setArgs_cell
/-! ### 3. method call -/
#print axioms Ckl.C03S.method_call_passes_receiver
#print axioms Ckl.C03S.findOwnerF_iff
#print axioms Ckl.C03S.findOwner_iff
#print axioms Ckl.C03S.findOwner_self
#print axioms Ckl.C03S.findOwner_not_obj
#print axioms Ckl.C03S.OwnerAt.has
#print axioms Ckl.C03S.derefInvoke_object
#print axioms Ckl.C03S.derefInvoke_module
#print axioms Ckl.C03S.derefInvoke_not_found
#print axioms Ckl.C03S.derefInvoke_not_function
#print axioms Ckl.C03S.derefInvoke_map
#print axioms Ckl.C03S.derefInvoke_map_not_found
#print axioms Ckl.C03S.derefInvoke_map_not_function
#print axioms Ckl.C03S.derefInvoke_other
/-! ### 4. spread arguments -/
#print axioms Ckl.C03S.evalArgs_step
#print axioms Ckl.C03S.evalArgs_step_err
#print axioms Ckl.C03S.evalArgs_spec
#print axioms Ckl.C03S.evalArgs_plain
#print axioms Ckl.C03S.evalArgs_spread
#print axioms Ckl.C03S.contrib_plain
#print axioms Ckl.C03S.contrib_list
#print axioms Ckl.C03S.contrib_set
#print axioms Ckl.C03S.contrib_map
#print axioms Ckl.C03S.contrib_bad
#print axioms Ckl.C03S.expandAll_mixed
/-! ### 5. fresh parameter bindings per call -/
#print axioms Ckl.C03S.call_frame_persists
#print axioms Ckl.C03S.successive_calls_fresh_frames
#print axioms Ckl.C03S.bindParams_all_bound
#print axioms Ckl.C03S.inner_call_keeps_caller_frames
#print axioms Ckl.C03S.lookupF_put_above
#print axioms Ckl.C03S.lookup_put_unrelated_frame
#print axioms Ckl.C03S.putParams_other_frame
/-! ### 6. examples -/
#print axioms Ckl.C03S.exS_pure
#print axioms Ckl.C03S.exO_call
#print axioms Ckl.C03S.ex_prim
