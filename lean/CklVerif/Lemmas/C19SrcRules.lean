import CklVerif.Lemmas.C19SrcType

/-!
  C19Src — the rest of the `Ev` calculus: indexing, blocks (several statements, local `def`s, `return`), assignment,
  empty list / set literals, lambda values, `for` over a list cell (invariant rule over the LIVE cell), `while`
  (invariant + variant), two-argument calls of library functions.
-/
namespace Ckl.C19Src
open Ckl Ckl.C03
variable (ld : Loader)

/-! ### indexing `e[i]` on a list cell -/

/-- `xs[i]` as the evaluator computes it: the element, or the runtime error `Index out of bounds` at the node's position -/
def derefOut (xs : List RVal) (i : Int) (pos : Pos) (s : State) : Out RVal :=
  match Seq.deref xs i with
  | some x => .ok x s
  | none => throwE "Index out of bounds" pos s

theorem Ev.derefList {k env e idxN pos s i s1 a s2 xs}
    (hi : Ev ld k env idxN s (.ok (.int i) s1)) (he : Ev ld k env e s1 (.ok (.ref a) s2))
    (hc : s2.cell a = some (.list xs)) :
    Ev ld (k + 1) env (.deref e idxN .absent pos) s (derefOut xs i pos s2) := by
  intro f hf; obtain ⟨g, rfl, hg⟩ := succ_of_lt hf
  rw [eval]
  simp only [EvalM.bind_apply, hi g (by omega), he g (by omega)]
  have h1 : cellOf (.ref a) s2 = .ok (some (.list xs)) s2 := by simp [cellOf, hc]
  simp [RVal.isNull, EvalM.bind_apply, h1, getIndex]
  unfold derefOut
  cases Seq.deref xs i <;> rfl

/-! ### blocks -/

/-- the statements of a block yield `r` for all fuel `> k` -/
def EvBody (k : Nat) (env : EnvId) (es : List Node) (last : RVal) (s : State) (r : Out RVal) : Prop :=
  ∀ f, k < f → evalBody ld f env es last s = r

theorem EvBody.mono {k k' env es last s r} (h : EvBody ld k env es last s r) (hk : k ≤ k') :
    EvBody ld k' env es last s r := fun f hf => h f (by omega)

/-- the value is one of the control signals `return v`, `break`, `continue` -/
def isCtl (v : RVal) : Bool := v.isReturn || v.isBreak || v.isContinue

theorem EvBody.nil {k env last s} : EvBody ld k env [] last s (.ok last s) := by
  intro f hf; obtain ⟨g, rfl, _⟩ := succ_of_lt hf; rw [evalBody]; rfl

theorem EvBody.cons {k env n ns last s v s1 r} (hn : Ev ld k env n s (.ok v s1)) (hv : isCtl v = false)
    (hr : EvBody ld k env ns v s1 r) : EvBody ld (k + 1) env (n :: ns) last s r := by
  intro f hf; obtain ⟨g, rfl, hg⟩ := succ_of_lt hf
  rw [evalBody, EvalM.bind_apply, hn g (by omega)]
  unfold isCtl at hv
  simp only [hv, Bool.false_eq_true, if_false]
  exact hr g (by omega)

/-- a statement that yields a control signal ends the block with that signal -/
theorem EvBody.stop {k env n ns last s v s1} (hn : Ev ld k env n s (.ok v s1)) (hv : isCtl v = true) :
    EvBody ld (k + 1) env (n :: ns) last s (.ok v s1) := by
  intro f hf; obtain ⟨g, rfl, hg⟩ := succ_of_lt hf
  rw [evalBody, EvalM.bind_apply, hn g (by omega)]
  unfold isCtl at hv
  simp only [hv, if_true]; rfl

theorem EvBody.err {k env n ns last s v m p t s1} (hn : Ev ld k env n s (.err v m p t s1)) :
    EvBody ld (k + 1) env (n :: ns) last s (.err v m p t s1) := by
  intro f hf; obtain ⟨g, rfl, hg⟩ := succ_of_lt hf
  rw [evalBody, EvalM.bind_apply, hn g (by omega)]

/-- `do … end` without `catch` / `finally`: the value of the statement list; the ghost counters of the block are bumped -/
theorem Ev.block {k env es b pos s v s1} (h : EvBody ld k env es (.bool true) (ghostEnter s pos) (.ok v s1)) :
    Ev ld (k + 1) env (.block es [] [] [] b pos) s (.ok v (ghostFin s1 pos)) := by
  intro f hf; obtain ⟨g, rfl, hg⟩ := succ_of_lt hf
  obtain ⟨g1, rfl, _⟩ := succ_of_lt (show 0 < g by omega)
  rw [eval]
  simp only [h (g1 + 1) (by omega)]
  rw [evalFinally]; rfl

theorem Ev.block_err {k env es b pos s v m p t s1}
    (h : EvBody ld k env es (.bool true) (ghostEnter s pos) (.err v m p t s1)) :
    Ev ld (k + 1) env (.block es [] [] [] b pos) s (.err v m p t (ghostFin s1 pos)) := by
  intro f hf; obtain ⟨g, rfl, hg⟩ := succ_of_lt hf
  obtain ⟨g1, rfl, _⟩ := succ_of_lt (show 0 < g by omega)
  rw [eval]
  simp only [h (g1 + 1) (by omega)]
  rw [tryHandlers]
  · simp only []
    rw [evalFinally]; rfl
  · intro _ _ _ _ h; cases h

/-! ### local definitions, assignment, literals -/

/-- `def x = e` for a value that is not a lambda (no renaming) -/
theorem Ev.defn {k env name e info pos s v s1} (hv : ∀ a, v ≠ .closure a) (h : Ev ld k env e s (.ok v s1)) :
    Ev ld (k + 1) env (.defn name e info pos) s (.ok v (s1.put env name v)) := by
  intro f hf; obtain ⟨g, rfl, hg⟩ := succ_of_lt hf
  rw [eval, EvalM.bind_apply, h g (by omega)]
  simp only [EvalM.bind_apply, modifyS]
  cases v with
  | closure a => exact absurd rfl (hv a)
  | _ => rfl

/-- `x = e` for a variable of the frame the statement runs in -/
theorem Ev.assignLocal {k env name e pos s v s1} (hdef : s.isDefined env name = true)
    (h : Ev ld k env e s (.ok v s1)) (hhas : dictHas name (s1.frame env).vars = true) :
    Ev ld (k + 1) env (.assign name e pos) s (.ok v (s1.put env name v)) := by
  intro f hf; obtain ⟨g, rfl, hg⟩ := succ_of_lt hf
  have hlt : env < s1.frames.size := lt_size_of_dictHas hhas
  have hset : s1.set env name v = some (s1.put env name v) := by
    unfold State.set; rw [State.setF]; simp only [hhas, if_true]
  have hl : (s1.put env name v).lookup env name = some v := by
    unfold State.lookup; exact lookupF_put_same s1 name v hlt _
  rw [eval]
  simp only [EvalM.bind_apply, getS, hdef, Bool.not_true, Bool.false_eq_true, if_false, h g (by omega), hset, setS, hl]
  rfl

theorem Ev.listNil {k env pos s} : Ev ld (k + 1) env (.list [] pos) s (.ok (.ref s.heap.size) (s.alloc (.list [])).1) := by
  intro f hf; obtain ⟨g, rfl, hg⟩ := succ_of_lt hf
  obtain ⟨g1, rfl, _⟩ := succ_of_lt (show 0 < g by omega)
  rw [eval, EvalM.bind_apply, evalItems]; rfl

theorem Ev.setNil {k env pos s} : Ev ld (k + 1) env (.set [] pos) s (.ok (.ref s.heap.size) (s.alloc (.set [])).1) := by
  intro f hf; obtain ⟨g, rfl, hg⟩ := succ_of_lt hf
  obtain ⟨g1, rfl, _⟩ := succ_of_lt (show 0 < g by omega)
  rw [eval, EvalM.bind_apply, evalSeq]; rfl

/-- `fn(params) body`: a new function value closed over the current frame -/
theorem Ev.lambda {k env ps ds body pos s} :
    Ev ld k env (.lambda ps ds body pos) s (.ok (.closure s.heap.size) (s.alloc (.closure env ps ds body "lambda")).1) := by
  intro f hf; obtain ⟨g, rfl, _⟩ := succ_of_lt hf; rw [eval]; rfl

/-! ### `for x in <list cell> do body` -/

/-- **Invariant rule for the loop over a live list cell.**  `I i r s`: the invariant before the iteration with index `i`,
    `r` the value of the previous iteration.  The invariant must imply that the cell iterated over holds the fixed list `xs`
    (the model reads the LIVE cell before every iteration); every iteration whose body ends normally (no control signal)
    re-establishes it for `i + 1`.  Then the loop from index `i` ends in a state satisfying `I xs.length`. -/
theorem forListLive_inv {kb : Nat} {env : EnvId} {x : String} {a : Nat} {body : Node} {pos : Pos} (xs : List RVal)
    (I : Nat → RVal → State → Prop)
    (hcell : ∀ i r s, I i r s → s.cell a = some (.list xs))
    (hstep : ∀ i r s v, I i r s → xs[i]? = some v →
      ∃ r' s', Ev ld kb env body (s.put env x v) (.ok r' s') ∧ isCtl r' = false ∧ I (i + 1) r' s') :
    ∀ (n i : Nat) (r : RVal) (s : State), i + n = xs.length → I i r s →
      ∃ r' s', I xs.length r' s' ∧
        ∀ f, kb + n + 1 < f → forListLive ld f env [x] a i body r pos s = .ok r' s' := by
  intro n
  induction n with
  | zero =>
    intro i r s hi hI
    refine ⟨r, s, by rw [← hi]; simpa using hI, fun f hf => ?_⟩
    obtain ⟨g, rfl, _⟩ := succ_of_lt hf
    rw [forListLive, EvalM.bind_apply]
    simp only [getS, hcell i r s hI]
    have : xs[i]? = none := by rw [List.getElem?_eq_none_iff]; omega
    simp only [this]; rfl
  | succ n ih =>
    intro i r s hi hI
    have hlt : i < xs.length := by omega
    obtain ⟨r1, s1, hb, hctl, hI1⟩ := hstep i r s xs[i] hI (List.getElem?_eq_getElem hlt)
    obtain ⟨r2, s2, hI2, hloop⟩ := ih (i + 1) r1 s1 (by omega) hI1
    refine ⟨r2, s2, hI2, fun f hf => ?_⟩
    obtain ⟨g, rfl, hg⟩ := succ_of_lt hf
    rw [forListLive, EvalM.bind_apply]
    simp only [getS, hcell i r s hI, List.getElem?_eq_getElem hlt]
    simp only [EvalM.bind_apply, bindLoopVars, modifyS, hb g (by omega)]
    unfold isCtl at hctl
    simp only [Bool.or_eq_false_iff] at hctl
    simp only [hctl.1.2, hctl.1.1, hctl.2, Bool.false_eq_true, if_false]
    exact hloop g (by omega)

/-- the `for` node over a list cell, given the loop proper: the loop variable (not bound in the frame before) is removed at the
    end unless the list is empty -/
theorem Ev.forList {k kl env x e body what pos s a s1 xs r s2 ys}
    (hhid : dictGet x (s.frame env).vars = none)
    (he : Ev ld k env e s (.ok (.ref a) s1)) (hc : s1.cell a = some (.list xs))
    (hloop : ∀ f, kl < f → forListLive ld f env [x] a 0 body (.bool true) pos s1 = .ok r s2)
    (hc2 : s2.cell a = some (.list ys)) :
    Ev ld (max k kl + 2) env (.for [x] e body what pos) s
      (.ok r (if ys.isEmpty then s2 else s2.remove env x)) := by
  intro f hf; obtain ⟨g, rfl, hg⟩ := succ_of_lt hf
  obtain ⟨g1, rfl, hg1⟩ := succ_of_lt (show max k kl < g by omega)
  rw [eval]
  have hh : hiddenVars s env [x] = [] := by simp [hiddenVars, hhid]
  have : evalFor ld (g1 + 1) env [x] e body what pos s = .ok r (if ys.isEmpty then s2 else s2.remove env x) := by
    rw [evalFor, EvalM.bind_apply, he g1 (by omega)]
    simp only [EvalM.bind_apply, cellOf, hc, hloop g1 (by omega), hc2]
    cases ys with
    | nil => rfl
    | cons y ys => rfl
  simp only [this, hh, restoreVars, List.foldl_nil]

/-! ### `while c do body` -/

/-- **Invariant rule for `while`**: `I` holds when the condition is about to be tested, `μ` is a variant.  If the condition is
    TRUE under `I` the body ends normally and re-establishes `I` with a smaller variant; then from any state satisfying `I` the
    loop `whileLoop` (entered after a TRUE test) … is covered by `Ev.while` below. -/
theorem whileLoop_inv {kc kb : Nat} {env : EnvId} {c body : Node} {pos : Pos}
    (I : RVal → State → Prop) (μ : State → Nat)
    (hcond : ∀ r s, I r s → ∃ b s1, Ev ld kc env c s (.ok (.bool b) s1) ∧
      (b = false → I r s1) ∧
      (b = true → ∃ r' s2, Ev ld kb env body s1 (.ok r' s2) ∧ isCtl r' = false ∧ I r' s2 ∧ μ s2 < μ s)) :
    ∀ (n : Nat) (r : RVal) (s : State), μ s ≤ n → I r s →
      ∃ r' s', I r' s' ∧ (∃ s0, Ev ld kc env c s0 (.ok (.bool false) s')) ∧
        ∀ f, max kc kb + 2 * n + 2 < f →
          (do match ← eval ld f env c with
              | .bool b => if b then whileLoop ld f env c body pos else pure r
              | v => do throwE ("Expected boolean condition but got " ++ (← typeOf v)) pos) s = .ok r' s' := by
  intro n
  induction n with
  | zero =>
    intro r s hμ hI
    obtain ⟨b, s1, hc, hf, ht⟩ := hcond r s hI
    cases b with
    | false =>
      refine ⟨r, s1, ?_, ⟨s, hc⟩, fun f hf' => ?_⟩
      · exact hf rfl
      · simp only [EvalM.bind_apply, hc f (by omega)]; rfl
    | true =>
      obtain ⟨r', s2, _, _, _, hlt⟩ := ht rfl
      omega
  | succ n ih =>
    intro r s hμ hI
    obtain ⟨b, s1, hc, hf, ht⟩ := hcond r s hI
    cases b with
    | false =>
      refine ⟨r, s1, ?_, ⟨s, hc⟩, fun f hf' => ?_⟩
      · exact hf rfl
      · simp only [EvalM.bind_apply, hc f (by omega)]; rfl
    | true =>
      obtain ⟨r1, s2, hb, hctl, hI2, hlt⟩ := ht rfl
      obtain ⟨r', s', hI', hex, hloop⟩ := ih r1 s2 (by omega) hI2
      refine ⟨r', s', hI', hex, fun f hf' => ?_⟩
      obtain ⟨g, rfl, hg⟩ := succ_of_lt hf'
      simp only [EvalM.bind_apply, hc (g + 1) (by omega), if_true]
      rw [whileLoop, EvalM.bind_apply, hb g (by omega)]
      unfold isCtl at hctl
      simp only [Bool.or_eq_false_iff] at hctl
      simp only [hctl.1.2, hctl.1.1, hctl.2, Bool.false_eq_true, if_false]
      have := hloop g (by omega)
      simp only [EvalM.bind_apply] at this ⊢
      exact this

/-- the `while` node: from a state satisfying the invariant (with previous value TRUE) the loop ends in a state that satisfies the
    invariant and in which the condition has just evaluated to FALSE; fuel bound `max kc kb + 2 * μ s + 3` -/
theorem Ev.while {kc kb : Nat} {env : EnvId} {c body : Node} {pos : Pos}
    (I : RVal → State → Prop) (μ : State → Nat)
    (hcond : ∀ r s, I r s → ∃ b s1, Ev ld kc env c s (.ok (.bool b) s1) ∧
      (b = false → I r s1) ∧
      (b = true → ∃ r' s2, Ev ld kb env body s1 (.ok r' s2) ∧ isCtl r' = false ∧ I r' s2 ∧ μ s2 < μ s))
    (s : State) (h0 : I (.bool true) s) :
    ∃ r' s', I r' s' ∧ (∃ s0, Ev ld kc env c s0 (.ok (.bool false) s')) ∧
      Ev ld (max kc kb + 2 * μ s + 3) env (.while c body pos) s (.ok r' s') := by
  obtain ⟨r', s', hI, hex, hl⟩ := whileLoop_inv ld (pos := pos) I μ hcond (μ s) (.bool true) s (Nat.le_refl _) h0
  refine ⟨r', s', hI, hex, fun f hf => ?_⟩
  obtain ⟨g, rfl, hg⟩ := succ_of_lt hf
  rw [eval]
  exact hl g (by omega)

/-! ### calls of two-parameter library functions -/

/-- `f(a, b)` where `f` resolves to a function value made from a two-parameter library definition -/
theorem Ev.callSrc2 {k env fname p a b pos s x s1 y s2 fn src m q1 q2 r}
    (hfn : s.lookup env fname = some fn) (hsrc : IsSrc s2 fn src m)
    (hps : lamParams src = [q1, q2]) (hq1 : ¬ ("...".toList <:+ q1.toList)) (hq2 : ¬ ("...".toList <:+ q2.toList))
    (hne : q1 ≠ q2)
    (hna : NotSpread a) (hnb : NotSpread b)
    (ha : Ev ld k env a s (.ok x s1)) (hb : Ev ld k env b s1 (.ok y s2))
    (hcall : Calls ld (k + 2) fn [(q1, x), (q2, y)] env pos s2 r) :
    Ev ld (k + 4) env (.call (.ident fname p) [none, none] [a, b] pos) s (wrapCall fn pos r) := by
  obtain ⟨c, nm, rfl, hcell⟩ := hsrc
  rw [hps] at hcell
  exact Ev.callClosure ld (k := k + 2) hfn
    (EvArgs.cons ld hna (Ev.mono ld ha (Nat.le_succ k)) (EvArgs.cons ld hnb hb (EvArgs.nil ld))) hcell
    (setArgs_pos2 hne (addArgs_plain' _ (by
      intro p hp; simp at hp; rcases hp with rfl | rfl
      · exact hq1
      · exact hq2))) hcall

/-- `f(a, b)`, `f` a pure built-in taking its first two parameters positionally -/
theorem Ev.nat2 {k env fname p a b pos s nm i q1 q2 rest x s1 y s2 m r}
    (hfn : s.lookup env fname = some (.native nm i)) (hps : nativeArgNames nm = some (q1 :: q2 :: rest))
    (hsp : ∀ p ∈ q1 :: q2 :: rest, ¬ ("...".toList <:+ p.toList)) (hne : q1 ≠ q2)
    (hna : NotSpread a) (hnb : NotSpread b)
    (ha : Ev ld k env a s (.ok x s1)) (hb : Ev ld k env b s1 (.ok y s2))
    (hpure : callPure nm [(q1, x), (q2, y)] (div0Value s2 env) pos = some m) (hm : m s2 = r) :
    Ev ld (k + 4) env (.call (.ident fname p) [none, none] [a, b] pos) s (wrapCall (.native nm i) pos r) :=
  hm ▸ Ev.callNative ld (k := k + 2) hfn
    (EvArgs.cons ld hna (Ev.mono ld ha (Nat.le_succ k)) (EvArgs.cons ld hnb hb (EvArgs.nil ld))) hps
    (setArgs_pos2 hne (addArgs_plain' _ hsp)) hpure

/-- `f(a, b, c)`, `f` a pure built-in taking three parameters positionally -/
theorem Ev.nat3 {k env fname p a b c pos s nm i q1 q2 q3 rest x s1 y s2 z s3 m r}
    (hfn : s.lookup env fname = some (.native nm i)) (hps : nativeArgNames nm = some (q1 :: q2 :: q3 :: rest))
    (hsp : ∀ p ∈ q1 :: q2 :: q3 :: rest, ¬ ("...".toList <:+ p.toList)) (h12 : q1 ≠ q2) (h13 : q1 ≠ q3) (h23 : q2 ≠ q3)
    (hna : NotSpread a) (hnb : NotSpread b) (hnc : NotSpread c)
    (ha : Ev ld k env a s (.ok x s1)) (hb : Ev ld k env b s1 (.ok y s2)) (hc : Ev ld k env c s2 (.ok z s3))
    (hpure : callPure nm [(q1, x), (q2, y), (q3, z)] (div0Value s3 env) pos = some m) (hm : m s3 = r) :
    Ev ld (k + 5) env (.call (.ident fname p) [none, none, none] [a, b, c] pos) s (wrapCall (.native nm i) pos r) :=
  hm ▸ Ev.callNative ld (k := k + 3) hfn
    (EvArgs.cons ld hna (Ev.mono ld ha (by omega))
      (EvArgs.cons ld hnb (Ev.mono ld hb (by omega)) (EvArgs.cons ld hnc hc (EvArgs.nil ld)))) hps
    (setArgs_pos3 h12 h13 h23 (addArgs_plain' _ hsp)) hpure

/-! ### small facts about states used by the function proofs -/

theorem callFrame_self {s : State} {c m : EnvId} (hp : (s.frame c).parent = some m) (hlt : m < c) :
    CallFrame s c m (s.frame c).vars := ⟨rfl, hp, hlt⟩

theorem cell_lt {s : State} {a : Nat} {c : Cell} (h : s.cell a = some c) : a < s.heap.size := by
  refine Nat.lt_of_not_le (fun hn => ?_)
  simp [State.cell, Array.getElem?_eq_none hn] at h

theorem cell_alloc_new (s : State) (c : Cell) : (s.alloc c).1.cell s.heap.size = some c := by
  simp [State.alloc, State.cell]

theorem cell_alloc_old (s : State) (c : Cell) {a : Nat} (h : a < s.heap.size) : (s.alloc c).1.cell a = s.cell a := by
  simp [State.alloc, State.cell, Array.getElem?_push, Nat.ne_of_lt h]

theorem cell_setCell_same (s : State) {a : Nat} (c : Cell) (h : a < s.heap.size) : (s.setCell a c).cell a = some c := by
  simp [State.setCell, State.cell, h]

theorem cell_setCell_other (s : State) {a b : Nat} (c : Cell) (h : a ≠ b) : (s.setCell a c).cell b = s.cell b := by
  simp [State.setCell, State.cell, h]

end Ckl.C19Src
