/-
  C02 (syntactic half) — the recursion over the expression tree: every tree, printed at any level
  `k` (in parentheses iff it binds weaker than `k`), parses at level `k` to `toNode e`.
-/
import CklVerif.Lemmas.C02ParseCases
namespace Ckl.C02P
open Ckl Ckl.Parser

/-! ### the first token of a rendering -/

def atomHead (s : Sp) : Prop := s.2 = .identifier ∨ s.2 = .int ∨ s.2 = .boolean ∨ s = LP

/-- the first token of the rendering of a tree of binding strength `j` -/
def HeadSpec (j : Nat) (S : List Sp) : Prop :=
  Head (fun s => atomHead s ∨ (s = minusSp ∧ j ≤ 6) ∨ (s = notSp ∧ j ≤ 2)) S

theorem HeadSpec.mono {j k : Nat} {S : List Sp} (h : HeadSpec k S) (hjk : j ≤ k) : HeadSpec j S :=
  h.imp fun s hs => by
    rcases hs with hs | ⟨hs, hk⟩ | ⟨hs, hk⟩
    · exact Or.inl hs
    · exact Or.inr (Or.inl ⟨hs, by omega⟩)
    · exact Or.inr (Or.inr ⟨hs, by omega⟩)

theorem headSpec_wrap (k : Nat) (e : E) (h : HeadSpec (prec e) (render e)) : HeadSpec k (wrap k e (render e)) := by
  unfold wrap
  split
  · exact ⟨LP, _, rfl, Or.inl (Or.inr (Or.inr (Or.inr rfl)))⟩
  · exact h.mono (by omega)

theorem render_head : (e : E) → HeadSpec (prec e) (render e)
  | .atom a => by
    refine ⟨a.sp, [], by simp [render], Or.inl ?_⟩
    cases a with
    | ident name => exact Or.inl rfl
    | int d n h => exact Or.inr (Or.inl rfl)
    | bool b => cases b <;> exact Or.inr (Or.inr (Or.inl rfl))
  | .or a b more => by
    simp only [render, prec]
    exact ((HeadSpec.mono (j := 0) (headSpec_wrap 1 a (render_head a)) (by omega)).append _).append _
  | .and a b more => by
    simp only [render, prec]
    exact ((HeadSpec.mono (j := 1) (headSpec_wrap 2 a (render_head a)) (by omega)).append _).append _
  | .not e => ⟨notSp, wrap 3 e (render e), by simp [render], Or.inr (Or.inr ⟨rfl, by simp [prec]⟩)⟩
  | .cmp a o b more => by
    simp only [render, prec]
    exact ((HeadSpec.mono (j := 3) (headSpec_wrap 4 a (render_head a)) (by omega)).append _).append _
  | .add o l r => by
    simp only [render, prec]
    exact (HeadSpec.mono (j := 4) (headSpec_wrap 4 l (render_head l)) (by omega)).append _
  | .mul o l r => by
    simp only [render, prec]
    exact (HeadSpec.mono (j := 5) (headSpec_wrap 5 l (render_head l)) (by omega)).append _
  | .neg e => ⟨minusSp, wrap 7 e (render e), by simp [render], Or.inr (Or.inl ⟨rfl, by simp [prec]⟩)⟩
  | .paren e => ⟨LP, render e ++ [RP], by simp [render], Or.inl (Or.inr (Or.inr (Or.inr rfl)))⟩

theorem HeadSpec.exprHead {j : Nat} {S : List Sp} (h : HeadSpec j S) : Head (fun s => exprHeadSp s = true) S :=
  h.imp fun s hs => by
    rcases hs with (hs | hs | hs | hs) | ⟨hs, _⟩ | ⟨hs, _⟩
    · simp [exprHeadSp, hs]
    · simp [exprHeadSp, hs]
    · simp [exprHeadSp, hs]
    · subst hs; rfl
    · subst hs; rfl
    · subst hs; rfl

theorem HeadSpec.ne_not {j : Nat} {S : List Sp} (h : HeadSpec j S) (hj : 3 ≤ j) : Head (fun s => s ≠ notSp) S :=
  h.imp fun s hs => by
    rcases hs with (hs | hs | hs | hs) | ⟨hs, _⟩ | ⟨hs, _⟩
    · intro h; subst h; simp [notSp] at hs
    · intro h; subst h; simp [notSp] at hs
    · intro h; subst h; simp [notSp] at hs
    · subst hs; decide
    · subst hs; decide
    · omega

theorem HeadSpec.no_op {S : List Sp} (h : HeadSpec 7 S) : Head (fun s => s.2 ≠ .operator ∧ s ≠ notSp) S :=
  h.imp fun s hs => by
    rcases hs with (hs | hs | hs | hs) | ⟨hs, _⟩ | ⟨hs, _⟩
    · exact ⟨by simp [hs], by intro h; subst h; simp [notSp] at hs⟩
    · exact ⟨by simp [hs], by intro h; subst h; simp [notSp] at hs⟩
    · exact ⟨by simp [hs], by intro h; subst h; simp [notSp] at hs⟩
    · subst hs; exact ⟨by decide, by decide⟩
    · omega
    · omega

/-! ### the statement proved by recursion over the tree -/

/-- `e`, printed at any level `k` (in parentheses iff it binds weaker than `k`), parses at level `k`
    to `toNode e` up to positions; and the continuation forms for the two left-associative loops -/
def Good (e : E) : Prop :=
  (∀ k, k ≤ 7 → ClosedRaw k (wrap k e (render e)) (toNode e)) ∧
  ContAddRaw (wrap 4 e (render e)) (toNode e) ∧ ContMulRaw (wrap 5 e (render e)) (toNode e)

theorem good_of_tower (e : E) (ht : Tower (prec e) (render e) (toNode e)) : Good e := by
  have hd := render_head e
  have hp := paren_closed (ht.1 0 (Nat.zero_le _)) hd.exprHead
  have tp := tower_7 hp ⟨LP, _, rfl, by decide, by decide⟩
  refine ⟨fun k hk => ?_, ?_, ?_⟩
  · unfold wrap; split
    · exact tp.1 k hk
    · exact ht.1 k (by omega)
  · unfold wrap; split
    · exact tp.2.1 (by omega)
    · exact ht.2.1 (by omega)
  · unfold wrap; split
    · exact tp.2.2 (by omega)
    · exact ht.2.2 (by omega)

theorem good_atom (a : Atom) : Good (.atom a) :=
  good_of_tower _ (tower_7 (by simpa [render, toNode] using atom_closed a) (render_head (.atom a)).no_op)

theorem good_paren (e : E) (h : Good e) : Good (.paren e) := by
  apply good_of_tower
  have h0 := h.1 0 (Nat.zero_le _)
  have hw : wrap 0 e (render e) = render e := by simp [wrap]
  rw [hw] at h0
  have := paren_closed h0 (render_head e).exprHead
  exact tower_7 (by simpa [render, toNode] using this) (render_head (.paren e)).no_op

theorem good_neg (e : E) (h : Good e) : Good (.neg e) := by
  apply good_of_tower
  refine tower_6 ?_ ((render_head (.neg e)).ne_not (by simp [prec]))
  have h7 := h.1 7 (Nat.le_refl _)
  have generic : Head (fun s => s.2 ≠ .int ∧ s.2 ≠ .decimal) (wrap 7 e (render e)) →
      negNode e (toNode e) = subZero (toNode e) →
      ClosedRaw 6 (render (.neg e)) (toNode (.neg e)) := by
    intro hd hn
    have := neg_closed h7 hd
    simpa [render, toNode, hn] using this
  have hLP : ∀ S : List Sp, Head (fun s => s.2 ≠ .int ∧ s.2 ≠ .decimal) (LP :: S) :=
    fun S => ⟨LP, S, rfl, by decide, by decide⟩
  cases e with
  | atom a =>
    cases a with
    | ident name =>
      exact generic ⟨(Atom.ident name).sp, [], by simp [wrap, prec, render], by simp [Atom.sp], by simp [Atom.sp]⟩ rfl
    | bool b =>
      exact generic ⟨(Atom.bool b).sp, [], by simp [wrap, prec, render], by cases b <;> simp [Atom.sp],
        by cases b <;> simp [Atom.sp]⟩ rfl
    | int d n hd =>
      have := neg_int_closed d n hd
      simpa [render, toNode, wrap, prec, negNode, Atom.sp] using this
  | paren e => exact generic (by simp only [wrap, prec, Nat.lt_irrefl, if_false, render]; exact hLP _) rfl
  | neg e => exact generic (by simp only [wrap, prec]; exact hLP _) rfl
  | mul o l r => exact generic (by simp only [wrap, prec]; exact hLP _) rfl
  | add o l r => exact generic (by simp only [wrap, prec]; exact hLP _) rfl
  | cmp a o b more => exact generic (by simp only [wrap, prec]; exact hLP _) rfl
  | not e => exact generic (by simp only [wrap, prec]; exact hLP _) rfl
  | and a b more => exact generic (by simp only [wrap, prec]; exact hLP _) rfl
  | or a b more => exact generic (by simp only [wrap, prec]; exact hLP _) rfl

theorem good_mul (o : MulOp) (l r : E) (hl : Good l) (hr : Good r) : Good (.mul o l r) := by
  apply good_of_tower
  refine tower_5 ?_ ((render_head (.mul o l r)).ne_not (by simp [prec]))
  have := mul_cont o hl.2.2 (hr.1 6 (by omega))
  simpa [render, toNode] using this

theorem good_add (o : AddOp) (l r : E) (hl : Good l) (hr : Good r) : Good (.add o l r) := by
  apply good_of_tower
  refine tower_4 ?_ ((render_head (.add o l r)).ne_not (by simp [prec]))
  have := add_cont o hl.2.1 (hr.1 5 (by omega))
  simpa [render, toNode] using this

theorem good_not (e : E) (h : Good e) : Good (.not e) := by
  apply good_of_tower
  refine tower_2 ?_
  have := not_closed (h.1 3 (by omega))
  simpa [render, toNode] using this

theorem good_cmp (a : E) (o : RelOp) (b : E) (more : List (RelOp × E)) (ha : Good a) (hb : Good b)
    (hm : ∀ x ∈ more, Good x.2) : Good (.cmp a o b more) := by
  apply good_of_tower
  refine tower_3 ?_ ((render_head (.cmp a o b more)).ne_not (by simp [prec]))
  refine cmp_closed a o b more (ha.1 4 (by omega)) ?_
  intro x hx
  rcases List.mem_cons.1 hx with rfl | hx
  · exact hb.1 4 (by omega)
  · exact (hm x hx).1 4 (by omega)

theorem good_and (a b : E) (more : List E) (ha : Good a) (hb : Good b) (hm : ∀ x ∈ more, Good x) :
    Good (.and a b more) := by
  apply good_of_tower
  refine tower_1 (and_closed a b more (ha.1 2 (by omega)) ?_)
  intro x hx
  rcases List.mem_cons.1 hx with rfl | hx
  · exact hb.1 2 (by omega)
  · exact (hm x hx).1 2 (by omega)

theorem good_or (a b : E) (more : List E) (ha : Good a) (hb : Good b) (hm : ∀ x ∈ more, Good x) :
    Good (.or a b more) := by
  apply good_of_tower
  refine tower_0 (or_closed a b more (ha.1 1 (by omega)) ?_)
  intro x hx
  rcases List.mem_cons.1 hx with rfl | hx
  · exact hb.1 1 (by omega)
  · exact (hm x hx).1 1 (by omega)

mutual
/-- every expression tree is `Good` -/
theorem good_all : (e : E) → Good e
  | .atom a => good_atom a
  | .or a b more => good_or a b more (good_all a) (good_all b) (good_allL more)
  | .and a b more => good_and a b more (good_all a) (good_all b) (good_allL more)
  | .not e => good_not e (good_all e)
  | .cmp a o b more => good_cmp a o b more (good_all a) (good_all b) (good_allC more)
  | .add o l r => good_add o l r (good_all l) (good_all r)
  | .mul o l r => good_mul o l r (good_all l) (good_all r)
  | .neg e => good_neg e (good_all e)
  | .paren e => good_paren e (good_all e)
theorem good_allL : (es : List E) → ∀ x ∈ es, Good x
  | [] => fun _ h => by cases h
  | e :: es => fun x h =>
    (List.mem_cons.1 h).elim (fun hx => hx ▸ good_all e) (fun hx => good_allL es x hx)
theorem good_allC : (cs : List (RelOp × E)) → ∀ x ∈ cs, Good x.2
  | [] => fun _ h => by cases h
  | (_, e) :: cs => fun x h =>
    (List.mem_cons.1 h).elim (fun hx => hx ▸ good_all e) (fun hx => good_allC cs x hx)
end

end Ckl.C02P
