/-
  C12 helper lemmas: sorting by an optional data key (`sortedR`, `sortedEntriesR`) does not depend
  on the order of the input when the keys are totally ordered.
-/
import CklVerif.Proofs.C07
import CklVerif.Model.Eval
namespace Ckl

/-! generic: `mapM` into `Option` -/

theorem mapM_option_some {α β} {f : α → Option β} {g : α → β} {xs : List α}
    (h : ∀ x ∈ xs, f x = some (g x)) : xs.mapM f = some (xs.map g) := by
  induction xs with
  | nil => simp
  | cons x xs ih =>
    rw [List.mapM_cons, h x (by simp), ih (fun y hy => h y (by simp [hy]))]
    rfl

theorem mapM_option_none {α β} {f : α → Option β} {xs : List α} {x : α}
    (hx : x ∈ xs) (h : f x = none) : xs.mapM f = none := by
  induction xs with
  | nil => simp at hx
  | cons y xs ih =>
    rw [List.mapM_cons]
    rcases List.mem_cons.mp hx with rfl | hx
    · rw [h]; rfl
    · rw [ih hx]; cases f y <;> rfl

/-- sort the elements by an optional data key -/
def sortKeyed {α} (key : α → Option Val) (xs : List α) : Option (List α) := do
  let keyed ← xs.mapM (fun x => do let v ← key x; pure (v, x))
  pure ((sortBy (fun a b => vlt a.1 b.1) keyed).map (·.2))

theorem sortedR_eq (s : State) (xs : List RVal) : sortedR s xs = sortKeyed (reify s) xs := rfl
theorem sortedEntriesR_eq (s : State) (kvs : List (RVal × RVal)) :
    sortedEntriesR s kvs = sortKeyed (fun kv => reify s kv.1) kvs := rfl
end Ckl
namespace Ckl

/-- the keys exist, are pairwise of one ordered kind and pairwise different (`veq`) -/
structure TotalKey {α} (key : α → Option Val) (xs : List α) : Prop where
  keyed : ∀ x ∈ xs, ∃ v, key x = some v
  kind : xs.Pairwise (fun x y => ∀ v w, key x = some v → key y = some w → SameKind v w)
  distinct : xs.Pairwise (fun x y => ∀ v w, key x = some v → key y = some w → veq v w = false)

theorem TotalKey.perm {α} {key : α → Option Val} {xs ys : List α} (h : TotalKey key xs)
    (hp : xs.Perm ys) : TotalKey key ys where
  keyed x hx := h.keyed x (hp.mem_iff.mpr hx)
  kind := (hp.pairwise_iff (fun {x y} hxy v w hv hw => SameKind_symm _ _ (hxy w v hw hv))).mp h.kind
  distinct := (hp.pairwise_iff (fun {x y} hxy v w hv hw => by rw [veq_symm']; exact hxy w v hw hv)).mp h.distinct

theorem TotalKey.map {α β} {key : β → Option Val} {g : α → β} {xs : List α}
    (h : TotalKey (fun x => key (g x)) xs) : TotalKey key (xs.map g) where
  keyed y hy := by
    obtain ⟨x, hx, rfl⟩ := List.mem_map.mp hy
    exact h.keyed x hx
  kind := by rw [List.pairwise_map]; exact h.kind
  distinct := by rw [List.pairwise_map]; exact h.distinct

theorem TotalKey.all {α} {key : α → Option Val} {xs : List α} (h : TotalKey key xs) :
    xs.all (fun x => (key x).isSome) = true := by
  rw [List.all_eq_true]
  intro x hx
  obtain ⟨v, hv⟩ := h.keyed x hx
  simp [hv]

/-- the decorated list `sortKeyed` sorts -/
def decorate {α} (key : α → Option Val) (xs : List α) : List (Val × α) :=
  xs.map (fun x => ((key x).getD .null, x))

theorem sortKeyed_of_total {α} {key : α → Option Val} {xs : List α} (h : TotalKey key xs) :
    sortKeyed key xs = some ((sortBy (fun a b => vlt a.1 b.1) (decorate key xs)).map (·.2)) := by
  unfold sortKeyed
  have : xs.mapM (fun x => do let v ← key x; pure (v, x)) = some (decorate key xs) := by
    apply mapM_option_some
    intro x hx
    obtain ⟨v, hv⟩ := h.keyed x hx
    simp [hv]
  rw [this]; rfl

/-- on a list of pairs whose first components are pairwise of one kind and pairwise different,
    comparing first components is a strict total order -/
theorem fst_strictTotal (dr : DecRenderer) {β} {l : List (Val × β)}
    (hpw : l.Pairwise (fun a b => SameKind a.1 b.1 ∧ veq a.1 b.1 = false)) :
    StrictTotalOn (· ∈ l) (fun a b : Val × β => vltWith dr a.1 b.1) := by
  have key' : ∀ a ∈ l, ∀ b ∈ l,
      a = b ∨ (SameKind a.1 b.1 ∧ SameKind b.1 a.1 ∧ veq a.1 b.1 = false) := by
    intro a ha b hb
    rcases C07.pairwise_mem_cases hpw ha hb with h | ⟨h1, h2⟩ | ⟨h1, h2⟩
    · left; exact h
    · right; exact ⟨h1, SameKind_symm _ _ h1, h2⟩
    · right; exact ⟨SameKind_symm _ _ h1, h1, by rw [veq_symm']; exact h2⟩
  refine ⟨fun a _ => vlt_irrefl_all dr a.1, ?_, ?_⟩
  · intro a b c ha hb hc h1 h2
    rcases key' a ha b hb with rfl | ⟨kab, kba, -⟩
    · simp only [vlt_irrefl_all] at h1; exact absurd h1 Bool.false_ne_true
    rcases key' b hb c hc with rfl | ⟨kbc, -, -⟩
    · simp only [vlt_irrefl_all] at h2; exact absurd h2 Bool.false_ne_true
    rcases key' a ha c hc with rfl | ⟨kac, -, -⟩
    · rw [vlt_asymm' dr a.1 b.1 kab h1] at h2; exact absurd h2 Bool.false_ne_true
    exact vlt_trans' dr a.1 b.1 c.1 kab kac kbc h1 h2
  · intro a b ha hb
    rcases key' a ha b hb with rfl | ⟨kab, -, hne⟩
    · right; left; rfl
    · cases h : vltWith dr a.1 b.1 with
      | true => left; rfl
      | false => right; right; exact vlt_total' dr a.1 b.1 kab hne h

theorem decorate_pairwise {α} {key : α → Option Val} {xs : List α} (h : TotalKey key xs) :
    (decorate key xs).Pairwise (fun a b => SameKind a.1 b.1 ∧ veq a.1 b.1 = false) := by
  unfold decorate
  rw [List.pairwise_map]
  refine (h.kind.and h.distinct).imp_of_mem ?_
  intro x y hx hy hxy
  obtain ⟨v, hv⟩ := h.keyed x hx
  obtain ⟨w, hw⟩ := h.keyed y hy
  simp only [hv, hw, Option.getD_some]
  exact ⟨hxy.1 v w hv hw, hxy.2 v w hv hw⟩

theorem decorate_strictTotal {α} {key : α → Option Val} {xs : List α} (h : TotalKey key xs) :
    StrictTotalOn (· ∈ decorate key xs) (fun a b : Val × α => vlt a.1 b.1) :=
  fst_strictTotal decRepr (decorate_pairwise h)

/-- **core lemma**: sorting by key does not depend on the order of the input -/
theorem sortKeyed_perm {α} {key : α → Option Val} {xs ys : List α} (h : TotalKey key xs)
    (hp : xs.Perm ys) : sortKeyed key xs = sortKeyed key ys := by
  rw [sortKeyed_of_total h, sortKeyed_of_total (h.perm hp)]
  congr 2
  exact C07.sortBy_perm_invariant (decorate_strictTotal h) (hp.map _)

end Ckl
