/-
  C10 (sessions) — the ghost counters of the model (`State.ghost`: block entries, finally runs,
  module evaluations — bookkeeping for C05 / C11 that has no counterpart in the implementation)
  are write-only: no function of the evaluator reads them.  Relational program logic:

  `R2 m m'` : run from two states that agree on everything but the ghost counters, `m` and `m'`
              produce the same outcome (value / error value, message, position, trace / failure)
              in states that again agree on everything but the ghost counters.
-/
import CklVerif.Lemmas.C05Tr
namespace Ckl.C10S
open Ckl Ckl.C05

/-- the state with its ghost counters replaced -/
def wg (s : State) (γ : Ghost) : State := { s with ghost := γ }

/-- the state without ghost counters -/
def er (s : State) : State := { s with ghost := {} }

/-- an outcome with the ghost counters of its final state erased -/
def erO {α} : Out α → Out α
  | .ok a s => .ok a (er s)
  | .err v m p t s => .err v m p t (er s)
  | .fail k s => .fail k (er s)

theorem er_wg (s : State) (γ : Ghost) : er (wg s γ) = er s := rfl
theorem er_er (s : State) : er (er s) = er s := rfl

theorem eq_wg_of_er {s s' : State} (h : er s = er s') : s' = wg s s'.ghost := by
  cases s; cases s'
  simp only [er, wg, State.mk.injEq] at h ⊢
  obtain ⟨h1, h2, h3, h4, h5, h6, h7, _⟩ := h
  exact ⟨h1.symm, h2.symm, h3.symm, h4.symm, h5.symm, h6.symm, h7.symm, trivial⟩

structure R2 {α} (m m' : EvalM α) : Prop where
  run : ∀ s s', er s = er s' → erO (m s) = erO (m' s')

/-- a definitional equation stated so that `simp` uses it as a rewrite rule proper (with the
    congruence handling of `Decidable` instances), not as a `dsimp` rule -/
theorem nrfl {α : Sort _} {a b : α} (h : a = b) : a = b := h

/-- the diagonal: `m` does not read the ghost counters -/
abbrev GI {α} (m : EvalM α) : Prop := R2 m m

/-! ### projections of `wg` -/

@[simp] theorem wg_frames (s : State) (γ : Ghost) : (wg s γ).frames = s.frames := nrfl rfl
@[simp] theorem wg_heap (s : State) (γ : Ghost) : (wg s γ).heap = s.heap := nrfl rfl
@[simp] theorem wg_modules (s : State) (γ : Ghost) : (wg s γ).modules = s.modules := nrfl rfl
@[simp] theorem wg_modstack (s : State) (γ : Ghost) : (wg s γ).modstack = s.modstack := nrfl rfl
@[simp] theorem wg_out (s : State) (γ : Ghost) : (wg s γ).out = s.out := nrfl rfl
@[simp] theorem wg_nextInst (s : State) (γ : Ghost) : (wg s γ).nextInst = s.nextInst := nrfl rfl
@[simp] theorem wg_secure (s : State) (γ : Ghost) : (wg s γ).secure = s.secure := nrfl rfl

namespace R2
variable {α β : Type}

theorem pure (a : α) : R2 (pure a : EvalM α) (Pure.pure a) := ⟨fun s s' h => by
  show Out.ok a (er s) = Out.ok a (er s'); rw [h]⟩

theorem bind {m m' : EvalM α} {f f' : α → EvalM β} (hm : R2 m m') (hf : ∀ a, R2 (f a) (f' a)) :
    R2 (m >>= f) (m' >>= f') := by
  refine ⟨fun s s' h => ?_⟩
  have h1 := hm.run s s' h
  rw [bind_def, bind_def]
  cases hr : m s with
  | ok a s1 =>
    rw [hr] at h1
    cases hr' : m' s' with
    | ok a' s1' =>
      rw [hr'] at h1
      simp only [erO, Out.ok.injEq] at h1
      obtain ⟨rfl, h2⟩ := h1
      exact (hf a).run s1 s1' h2
    | err v msg p t s1' => rw [hr'] at h1; cases h1
    | fail k s1' => rw [hr'] at h1; cases h1
  | err v msg p t s1 =>
    rw [hr] at h1
    cases hr' : m' s' with
    | ok a' s1' => rw [hr'] at h1; cases h1
    | err v' msg' p' t' s1' =>
      rw [hr'] at h1
      simp only [erO, Out.err.injEq] at h1 ⊢
      exact h1
    | fail k s1' => rw [hr'] at h1; cases h1
  | fail k s1 =>
    rw [hr] at h1
    cases hr' : m' s' with
    | ok a' s1' => rw [hr'] at h1; cases h1
    | err v' msg' p' t' s1' => rw [hr'] at h1; cases h1
    | fail k' s1' =>
      rw [hr'] at h1
      simp only [erO, Out.fail.injEq] at h1 ⊢
      exact h1

/-- `let s ← getS`: the two continuations receive states that differ in the ghost counters only -/
theorem getS_bind {f f' : State → EvalM β} (hf : ∀ s γ, R2 (f s) (f' (wg s γ))) :
    R2 (getS >>= f) (getS >>= f') := by
  refine ⟨fun s s' h => ?_⟩
  have h' := eq_wg_of_er h
  have := (hf s s'.ghost).run s s' h
  rw [← h'] at this
  exact this

theorem setS {a b : State} (h : er a = er b) : R2 (setS a) (setS b) := ⟨fun _ _ _ => by
  show Out.ok () (er a) = Out.ok () (er b); rw [h]⟩

theorem modifyS {g g' : State → State} (h : ∀ s γ, er (g s) = er (g' (wg s γ))) :
    R2 (modifyS g) (modifyS g') := ⟨fun s s' hs => by
  show Out.ok () (er (g s)) = Out.ok () (er (g' s'))
  rw [eq_wg_of_er hs, h s s'.ghost]⟩

theorem throwV (v : RVal) (msg : String) (pos : Pos) : R2 (throwV v msg pos : EvalM α) (Ckl.throwV v msg pos) :=
  ⟨fun s s' h => by show Out.err v msg pos [] (er s) = Out.err v msg pos [] (er s'); rw [h]⟩
theorem throwE (msg : String) (pos : Pos) : R2 (throwE msg pos : EvalM α) (Ckl.throwE msg pos) := throwV _ _ _
theorem failM (f : Fail) : R2 (failM f : EvalM α) (Ckl.failM f) :=
  ⟨fun s s' h => by show Out.fail f (er s) = Out.fail f (er s'); rw [h]⟩
theorem unsupported (w : String) : R2 (unsupported w : EvalM α) (Ckl.unsupported w) := failM _

/-- a program given as a function of the state: it suffices to compare it on `s` and `wg s γ` -/
theorem of_wg {m m' : EvalM α} (h : ∀ s γ, erO (m s) = erO (m' (wg s γ))) : R2 m m' :=
  ⟨fun s s' hs => by rw [eq_wg_of_er hs]; exact h s s'.ghost⟩

theorem allocM (c : Cell) : R2 (allocM c) (Ckl.allocM c) := of_wg (fun _ _ => rfl)
theorem newList (xs : List RVal) : R2 (newList xs) (Ckl.newList xs) := allocM _
theorem cellOf (v : RVal) : R2 (cellOf v) (Ckl.cellOf v) := of_wg (fun s γ => by cases v <;> rfl)

theorem mapM_loop {γ} (f f' : γ → EvalM α) (hf : ∀ x, R2 (f x) (f' x)) (as : List γ) (bs : List α) :
    R2 (List.mapM.loop f as bs) (List.mapM.loop f' as bs) := by
  induction as generalizing bs with
  | nil => exact pure _
  | cons a as ih => exact bind (hf a) (fun b => ih (b :: bs))

theorem mapM {γ} (f f' : γ → EvalM α) (hf : ∀ x, R2 (f x) (f' x)) (as : List γ) :
    R2 (as.mapM f) (as.mapM f') := mapM_loop f f' hf as []

end R2

/-! ### the functions that read the state do not read the ghost counters -/

theorem frame_wg (s : State) (γ : Ghost) (e : EnvId) : (wg s γ).frame e = s.frame e := nrfl rfl
theorem cell_wg (s : State) (γ : Ghost) (a : Nat) : (wg s γ).cell a = s.cell a := nrfl rfl
theorem localSymbols_wg (s : State) (γ : Ghost) (e : EnvId) : (wg s γ).localSymbols e = s.localSymbols e := nrfl rfl
theorem reify_wg (s : State) (γ : Ghost) (v : RVal) : reify (wg s γ) v = reify s v := nrfl rfl
theorem rveq_wg (s : State) (γ : Ghost) (a b : RVal) : rveq (wg s γ) a b = rveq s a b := nrfl rfl
theorem memR_wg (s : State) (γ : Ghost) (x : RVal) (xs : List RVal) : memR (wg s γ) x xs = memR s x xs := nrfl rfl
theorem rvlt_wg (s : State) (γ : Ghost) (a b : RVal) : rvlt (wg s γ) a b = rvlt s a b := nrfl rfl
theorem sortedR_wg (s : State) (γ : Ghost) (xs : List RVal) : sortedR (wg s γ) xs = sortedR s xs := nrfl rfl
theorem sortedEntriesR_wg (s : State) (γ : Ghost) (kvs : List (RVal × RVal)) :
    sortedEntriesR (wg s γ) kvs = sortedEntriesR s kvs := nrfl rfl
theorem setAdd_wg (s : State) (γ : Ghost) (x : RVal) (xs : List RVal) : setAdd (wg s γ) x xs = setAdd s x xs := nrfl rfl

theorem typeName_wg (s : State) (γ : Ghost) (v : RVal) : typeName (wg s γ) v = typeName s v := by
  cases v <;> rfl
theorem isModuleObj_wg (s : State) (γ : Ghost) (v : RVal) : isModuleObj (wg s γ) v = isModuleObj s v := by
  cases v <;> rfl
theorem fnName_wg (s : State) (γ : Ghost) (v : RVal) : fnName (wg s γ) v = fnName s v := by
  cases v <;> rfl
theorem fnParams_wg (s : State) (γ : Ghost) (v : RVal) : fnParams (wg s γ) v = fnParams s v := by
  cases v <;> rfl

theorem mapGet_wg (s : State) (γ : Ghost) (k : RVal) (l : List (RVal × RVal)) :
    mapGet (wg s γ) k l = mapGet s k l := by
  induction l with
  | nil => rfl
  | cons hd tl ih => obtain ⟨k', v⟩ := hd; simp only [mapGet, rveq_wg, ih]
theorem mapPut_wg (s : State) (γ : Ghost) (k v : RVal) (l : List (RVal × RVal)) :
    mapPut (wg s γ) k v l = mapPut s k v l := by
  induction l with
  | nil => rfl
  | cons hd tl ih => obtain ⟨k', v'⟩ := hd; simp only [mapPut, rveq_wg, ih]
theorem mapDel_wg (s : State) (γ : Ghost) (k : RVal) (l : List (RVal × RVal)) :
    mapDel (wg s γ) k l = mapDel s k l := by
  induction l with
  | nil => rfl
  | cons hd tl ih => obtain ⟨k', v'⟩ := hd; simp only [mapDel, rveq_wg, ih]

theorem lookupF_wg (s : State) (γ : Ghost) : ∀ (n : Nat) (e : EnvId) (x : String),
    (wg s γ).lookupF n e x = s.lookupF n e x := by
  intro n
  induction n with
  | zero => intro e x; rfl
  | succ n ih => intro e x; simp only [State.lookupF, frame_wg, ih]
theorem lookup_wg (s : State) (γ : Ghost) (e : EnvId) (x : String) : (wg s γ).lookup e x = s.lookup e x :=
  lookupF_wg s γ _ e x
theorem isDefined_wg (s : State) (γ : Ghost) (e : EnvId) (x : String) :
    (wg s γ).isDefined e x = s.isDefined e x := by simp only [State.isDefined, lookup_wg]
theorem div0Value_wg (s : State) (γ : Ghost) (e : EnvId) : div0Value (wg s γ) e = div0Value s e := by
  simp only [div0Value, lookup_wg]

theorem baseF_wg (s : State) (γ : Ghost) : ∀ (n : Nat) (e : EnvId), (wg s γ).baseF n e = s.baseF n e := by
  intro n
  induction n with
  | zero => intro e; rfl
  | succ n ih => intro e; simp only [State.baseF, frame_wg, ih]
theorem base_wg (s : State) (γ : Ghost) (e : EnvId) : (wg s γ).base e = s.base e := baseF_wg s γ _ e

theorem put_wg (s : State) (γ : Ghost) (e : EnvId) (x : String) (v : RVal) :
    (wg s γ).put e x v = wg (s.put e x v) γ := rfl
theorem remove_wg (s : State) (γ : Ghost) (e : EnvId) (x : String) :
    (wg s γ).remove e x = wg (s.remove e x) γ := rfl
theorem setCell_wg (s : State) (γ : Ghost) (a : Nat) (c : Cell) :
    (wg s γ).setCell a c = wg (s.setCell a c) γ := rfl
theorem write_wg (s : State) (γ : Ghost) (t : List Char) : (wg s γ).write t = wg (s.write t) γ := rfl

theorem setF_wg (s : State) (γ : Ghost) : ∀ (n : Nat) (e : EnvId) (x : String) (v : RVal),
    (wg s γ).setF n e x v = (s.setF n e x v).map (fun t => wg t γ) := by
  intro n
  induction n with
  | zero => intro e x v; rfl
  | succ n ih =>
    intro e x v
    simp only [State.setF, frame_wg, ih]
    split
    · rfl
    · split <;> rfl
theorem set_wg (s : State) (γ : Ghost) (e : EnvId) (x : String) (v : RVal) :
    (wg s γ).set e x v = (s.set e x v).map (fun t => wg t γ) := setF_wg s γ _ e x v

theorem findOwnerF_wg (s : State) (γ : Ghost) : ∀ (n : Nat) (v : RVal) (key : String) (seen : List Nat),
    findOwnerF (wg s γ) n v key seen = findOwnerF s n v key seen := by
  intro n
  induction n with
  | zero => intro v key seen; rfl
  | succ n ih =>
    intro v key seen
    cases v <;> simp only [findOwnerF, cell_wg, ih]
theorem findOwner_wg (s : State) (γ : Ghost) (v : RVal) (key : String) :
    findOwner (wg s γ) v key = findOwner s v key := findOwnerF_wg s γ _ v key []

theorem rrenderF_wg (s : State) (γ : Ghost) : ∀ n, rrenderF (wg s γ) n = rrenderF s n := by
  intro n
  induction n with
  | zero => funext v; cases v <;> simp only [rrenderF, cell_wg]
  | succ n ih => funext v; cases v <;> simp only [rrenderF, cell_wg, reify_wg, ih]
theorem rrender_wg (s : State) (γ : Ghost) (v : RVal) : rrender (wg s γ) v = rrender s v := by
  simp only [rrender, rrenderF_wg, wg_heap]

theorem R2.typeOf (v : RVal) : GI (typeOf v) :=
  R2.of_wg (fun s γ => by show Out.ok (typeName s v) (er s) = Out.ok (typeName (wg s γ) v) (er (wg s γ)); rw [typeName_wg]; rfl)

/-- folding state changes that commute with `wg` -/
theorem foldl_wg {δ} (f : State → δ → State) (hf : ∀ s γ x, f (wg s γ) x = wg (f s x) γ) (l : List δ)
    (s : State) (γ : Ghost) : l.foldl f (wg s γ) = wg (l.foldl f s) γ := by
  induction l generalizing s with
  | nil => rfl
  | cons x xs ih => simp only [List.foldl_cons, hf, ih]

/-! ### automation -/

/-- rewriting `g (wg s γ)` into `g s` (readers) resp. `wg (g s) γ` (writers) -/
macro "wg_simp" : tactic => `(tactic|
  try simp only [frame_wg, cell_wg, localSymbols_wg, reify_wg, rveq_wg, memR_wg, rvlt_wg, sortedR_wg,
    sortedEntriesR_wg, setAdd_wg, typeName_wg, isModuleObj_wg, fnName_wg, fnParams_wg, mapGet_wg, mapPut_wg,
    mapDel_wg, lookup_wg, isDefined_wg, div0Value_wg, base_wg, findOwner_wg, rrender_wg,
    set_wg, State.newEnv, wg_frames, wg_heap, wg_modules, wg_modstack, wg_out, wg_nextInst, wg_secure])

syntax "r2_lemma" : tactic
macro_rules | `(tactic| r2_lemma) => `(tactic| exact R2.pure _)
macro_rules | `(tactic| r2_lemma) => `(tactic| exact R2.throwE _ _)
macro_rules | `(tactic| r2_lemma) => `(tactic| exact R2.throwV _ _ _)
macro_rules | `(tactic| r2_lemma) => `(tactic| exact R2.unsupported _)
macro_rules | `(tactic| r2_lemma) => `(tactic| exact R2.failM _)
macro_rules | `(tactic| r2_lemma) => `(tactic| exact R2.allocM _)
macro_rules | `(tactic| r2_lemma) => `(tactic| exact R2.newList _)
macro_rules | `(tactic| r2_lemma) => `(tactic| exact R2.cellOf _)
macro_rules | `(tactic| r2_lemma) => `(tactic| exact R2.typeOf _)
macro_rules | `(tactic| r2_lemma) => `(tactic| exact R2.setS rfl)

/-- side goals `er (g s) = er (g' (wg s γ))` of `modifyS` -/
macro "r2_side" : tactic => `(tactic| first
  | rfl
  | (rw [foldl_wg _ (by intro _ _ _; first | rfl | (split <;> rfl))]; rfl))

open Lean Elab Tactic Meta in
/-- apply a hypothesis whose conclusion is an `R2` statement (induction hypotheses) -/
elab "r2_hyp" : tactic => withMainContext do
  let g ← getMainGoal
  let lctx ← getLCtx
  for d in lctx do
    if d.isImplementationDetail then continue
    let ty ← instantiateMVars d.type
    if ty.getForallBody.getAppFn.isConstOf ``Ckl.C10S.R2 || ty.getForallBody.getAppFn.isConstOf ``Ckl.C10S.GI then
      if let some gs ← observing? (withReducible (g.apply d.toExpr)) then
        replaceMainGoal gs
        return
  throwError "r2_hyp: no applicable hypothesis"

open Lean Elab Tactic Meta in
/-- case distinction on the first `State.set …` application in the goal (both programs contain it,
    one of them under `Option.map`) -/
elab "cases_set" : tactic => withMainContext do
  let g ← getMainGoal
  let t ← instantiateMVars (← g.getType)
  let some e := t.find? (fun e => e.isAppOfArity ``Ckl.State.set 4 && !e.hasLooseBVars)
    | throwError "cases_set: no State.set application"
  let (_, g') ← g.generalize #[{ expr := e, xName? := some `oset, hName? := some `hset }]
  replaceMainGoal [g']
  evalTactic (← `(tactic| (rename_i oset hset; cases oset <;> simp only [Option.map_some, Option.map_none])))

macro "r2_step" : tactic => `(tactic| first
  | with_reducible r2_lemma
  | ((with_reducible apply R2.modifyS); intro _ _; r2_side)
  | r2_hyp
  | ((with_reducible apply R2.getS_bind); intro _ _; wg_simp)
  | with_reducible apply R2.bind
  | ((with_reducible apply R2.mapM); intro _)
  | tr_beta
  | intro _
  | (cases_set <;> wg_simp)
  | split)

macro "r2_auto" : tactic => `(tactic| repeat' r2_step)

end Ckl.C10S
