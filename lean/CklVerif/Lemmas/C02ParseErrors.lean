/-
  C02 (syntactic half) — two things the parser model rejects: `not not …` and `- - …`
  (`parse_not_expr` calls `parse_rel_expr`, `parse_unary_expr` calls `parse_pred_expr`).
-/
import CklVerif.Lemmas.C02ParseLevels
namespace Ckl.C02P
open Ckl Ckl.Parser

/-- the error of `parse_primary_expr` for a token that starts no primary expression -/
def invalidAt (t : Token) : PErr := mkErr ("Invalid syntax at '" ++ tokRepr t ++ "'") t.pos

theorem pPrimary_not (c : Ctx) (um : Bool) (p : Pos) (t : Token) (tl : List Token) (ht : sp t = notSp) :
    plain (pPrimary c um ⟨p, t :: tl⟩) = .error (invalidAt t) := by
  simp only [sp, notSp, Prod.mk.injEq] at ht
  rw [pPrimary]
  simp [St.hasNext, St.next, ht.1, ht.2, bind, Except.bind]
  rw [pPrimaryKw]
  simp [ht.1, ht.2, invalidAt]

theorem pPrimary_minus (c : Ctx) (um : Bool) (p : Pos) (t : Token) (tl : List Token) (ht : sp t = minusSp) :
    plain (pPrimary c um ⟨p, t :: tl⟩) = .error (invalidAt t) := by
  simp only [sp, minusSp, Prod.mk.injEq] at ht
  rw [pPrimary]
  simp [St.hasNext, St.next, ht.1, ht.2, bind, Except.bind]
  rw [pPrimaryKw]
  simp [ht.2, invalidAt]

theorem pPred_error (c : Ctx) (um : Bool) (st : St) (e : PErr) (h : plain (pPrimary c um st) = .error e) :
    plain (pPred c um st) = .error e := by
  rw [pPred]
  cases hp : pPrimary c um st with
  | ok o => rw [hp] at h; cases h
  | error e' => rw [hp] at h; simp at h; subst h; simp [bind, Except.bind]

/-- an error of `parse_unary_expr` goes up unchanged to `parse_rel_expr` -/
theorem pRel_error (c : Ctx) (st : St) (e : PErr) (h : plain (pUnary c st) = .error e) :
    plain (pRel c st) = .error e := by
  rw [pRel_plain, pAdd_plain, pMul_plain, h]; rfl

/-- an error of `parse_not_expr` goes up unchanged to `parse_or_expr` -/
theorem pOr_error (c : Ctx) (st : St) (e : PErr) (h : plain (pNot c st) = .error e) :
    plain (pOr c st) = .error e := by
  rw [pOr_plain, pAnd_plain, h]; rfl

theorem parseWith_error_of_or (validRe : List Char → Bool) (file : String) (t : Token) (tl : List Token)
    (e : PErr) (ht : exprHead t = true)
    (hor : plain (pOr ⟨endPosOf file (t :: tl), validRe⟩ ⟨t.pos, t :: tl⟩) = .error e) :
    parseWith validRe file (t :: tl) = .error e.val := by
  rw [← pStatement_plain _ _ _ _ ht] at hor
  have hs : pStatement ⟨endPosOf file (t :: tl), validRe⟩ ⟨t.pos, t :: tl⟩ = .error e := by
    cases hp : pStatement ⟨endPosOf file (t :: tl), validRe⟩ ⟨t.pos, t :: tl⟩ with
    | ok o => rw [hp] at hor; cases hor
    | error e' => rw [hp] at hor; simp at hor; rw [hor]
  have hdo : St.peekn ⟨t.pos, t :: tl⟩ 1 ['d', 'o'] (some .keyword) = false := by
    rw [peekn_cons]; exact exprHead_kw ht (by decide)
  have hb : pBareBlock ⟨endPosOf file (t :: tl), validRe⟩ true ⟨t.pos, t :: tl⟩ = .error e := by
    rw [pBareBlock]; simp [hdo, hs, bind, Except.bind]
  simp [parseWith, parseCore, hb]

end Ckl.C02P
