"""Shared helpers of the property checks."""
import json

from harness import core, proto


def fresh_interpreter(secure=True, legacy=False):
    from ckl.interpreter import Interpreter
    from ckl.values import StringInput, StringOutput
    it = Interpreter(secure, legacy)
    out = StringOutput()
    it.setStandardOutput(out)
    it.setStandardInput(StringInput(""))
    return it, out


def run_program(it, src, name="prog", limit=5):
    """outcome of one interpret call: ('val', text) | ('rt', error-value text, msg) | ('syn', msg) |
    ('host', class name, msg) | ('timeout',)"""
    from ckl.errors import CklRuntimeError, CklSyntaxError
    try:
        with core.time_limit(limit):
            v = it.interpret(src, name)
            return ('val', str(v), v)
    except core.Timeout:
        return ('timeout',)
    except CklRuntimeError as e:
        try:
            txt = str(e.value)
        except Exception as e2:  # noqa
            txt = "<unrenderable %s>" % type(e2).__name__
        return ('rt', txt, str(e.msg), e)
    except CklSyntaxError as e:
        return ('syn', str(e.msg), e)
    except RecursionError:
        return ('host', 'RecursionError', '')
    except Exception as e:  # noqa
        return ('host', type(e).__name__, str(e)[:200])


def replay_known(ctx):
    """re-run the witness of every open known finding of this property on the implementation;
    a finding that still reproduces is reported as KNOWN-FINDING (never as a violation)"""
    for k in ctx.known:
        if k.get("status", "open") != "open":
            continue
        w = k.get("witness", {})
        if w.get("kind") == "program":
            it, _ = fresh_interpreter(True, w.get("legacy", False))
            out = run_program(it, w["src"], "known")
            got = out[1] if out[0] in ('val', 'rt') else out[0]
            if got != w["property_holds_if"]:
                ctx.known_hits[k["key"]] = k["what"]
        elif w.get("kind") == "hashseed":
            # the witness program gives different results under different PYTHONHASHSEED values
            import os
            import subprocess
            import sys
            code = ("import sys; sys.path.insert(0, %r)\n"
                    "from ckl.interpreter import Interpreter\n"
                    "print(str(Interpreter(True, True).interpret(%r, 'w')))\n") % (os.path.join(core.REPO, "src"), w["src"])
            outs = set()
            for sd in range(12):
                env = dict(os.environ, PYTHONHASHSEED=str(sd))
                r = subprocess.run([sys.executable, "-c", code], capture_output=True, text=True, env=env, timeout=120)
                outs.add(r.stdout.strip())
            if len(outs) > 1:
                ctx.known_hits[k["key"]] = k["what"]


def generic_replay(ctx, payload):
    print(json.dumps(payload, indent=1, default=str))
    rp = payload.get("replay", payload)
    if "src" in rp:
        it, _ = fresh_interpreter(True, rp.get("legacy", False))
        print("re-run:", run_program(it, rp["src"])[:3])
    return 0


def independence_cases():
    """(program, expected rendering): a value produced by a non-mutating operation is independent of the operation's inputs — changing the
    result in place does not reach the input or a later result of the same operation, and changing the input afterwards does not reach the
    result. Strings count too: `c[0] = 'z'` changes a string in place. Every form that hands out a part or a copy."""
    cases = []
    # strings: one-character results of indexing / iteration / slicing, then changed in place
    for take in ("s[1]", "s[-2]", "s[1 to 2]", "substr(s, 1, 2)", "(fn() do def r_ = ''; for ch in s do if ch == 'b' then r_ = ch end; r_ end)()",
                 "[ch for ch in s][1]", "s[1] + ''", "sublist([s[1]], 0)[0]"):
        cases.append((f"def s = 'abc'; def c = {take}; c[0] = 'z'; [s, s[1], 'xbx'[1], 'b', {take}, c]", ('text', "['abc', 'b', 'b', 'b', 'b', 'z']")))
        cases.append((f"def s = 'abc'; def c = {take}; def d = {take}; c[0] = 'z'; [c, d]", ('text', "['z', 'b']")))
    cases.append(("def l = ['ab', 'cd']; def c = l[0][1]; c[0] = 'z'; [l, 'b', 'abc'[1]]", ('text', "[['ab', 'cd'], 'b', 'b']")))
    cases.append(("def r = []; for ch in 'aba' do append(r, ch) end; r[0][0] = 'z'; [r, 'a', 'xa'[1]]", ('text', "[['z', 'b', 'a'], 'a', 'a']")))
    # conversions and copies of collections: change the result, then look at the input and at a second result; change the input, look at the result
    for make, conv, grow in (("<<3, 1, 2>>", "list(s)", "append(r, 9)"), ("<<3, 1, 2>>", "[...s]", "append(r, 9)"), ("<<3, 1, 2>>", "sorted(s)", "append(r, 9)"),
                             ("<<3, 1, 2>>", "[x for x in s]", "delete_at(r, 0)"), ("<<3, 1, 2>>", "list(s)", "delete_at(r, 0)"), ("<<3, 1, 2>>", "list(s)", "r[0] = 7"),
                             ("<<3, 1, 2>>", "list(s)", "insert_at(r, 0, 0)"), ("[3, 1, 2]", "set(s)", "append(r, 9)"), ("[3, 1, 2]", "set(s)", "remove(r, 1)"),
                             ("[3, 1, 2]", "sorted(s)", "r[0] = 7"), ("[3, 1, 2]", "sublist(s, 0)", "r[0] = 7"), ("[3, 1, 2]", "s[0 to *]", "append(r, 9)"),
                             ("[3, 1, 2]", "s + []", "append(r, 9)"), ("[3, 1, 2]", "[] + s", "append(r, 9)"), ("[3, 1, 2]", "s * 1", "r[0] = 7"),
                             ("<<<'b' => 1, 'a' => 2>>>", "[...s]", "append(r, 'z')"), ("<<<'b' => 1, 'a' => 2>>>", "[k for k in keys s]", "delete_at(r, 0)"),
                             ("<<<'b' => 1, 'a' => 2>>>", "[e for e in entries s]", "delete_at(r, 0)"), ("<<<'b' => 1, 'a' => 2>>>", "set(s)", "append(r, 'z')")):
        cases.append((f"def s = {make}; def before = string(s); def r = {conv}; def r0 = string(r); {grow}; def r2 = {conv}; "
                      f"[string(s) == before, string(r2) == r0, string(r) != r0, [x for x in s] == [x for x in {make}], length(s) == length({make})]",
                      ('text', "[TRUE, TRUE, TRUE, TRUE, TRUE]")))
    for make, conv, change in (("<<3, 1, 2>>", "list(s)", "append(s, 0)"), ("<<3, 1, 2>>", "[...s]", "remove(s, 1)"), ("[3, 1, 2]", "set(s)", "append(s, 0)"),
                               ("[3, 1, 2]", "sorted(s)", "s[0] = 9"), ("[3, 1, 2]", "sublist(s, 0)", "delete_at(s, 0)"), ("[3, 1, 2]", "s + []", "append(s, 0)"),
                               ("<<<'b' => 1, 'a' => 2>>>", "[...s]", "s['c'] = 3"), ("<<<'b' => 1, 'a' => 2>>>", "set(s)", "remove(s, 'a')")):
        cases.append((f"def s = {make}; def r = {conv}; def r0 = string(r); {change}; string(r) == r0", ('text', "TRUE")))
    # mutators change exactly the container they are given: an object's prototype (and its sibling instances) is another container
    cases.append(("def p = <*inh = 1, m = fn(self) self->own*>; def o = <*_proto_ = p, own = 2*>; def sib = <*_proto_ = p, own = 3*>; "
                  "do remove(o, 'inh') catch all 0 end; do remove(o, 'own') catch all 0 end; o->inh = 5; o->extra = 6; "
                  "[p->inh, sib->inh, sib->m(), string(p) == string(<*inh = 1, m = p->m*>), o->inh]", ('text', "[1, 1, 3, TRUE, 5]")))
    cases.append(("def p = <*l = [1]*>; def o = <*_proto_ = p*>; o->l = [9]; o['k'] = 1; [p->l, o->l, 'k' in p]", ('text', "[[1], [9], FALSE]")))
    # parameter defaults: every call that omits the argument gets its own value
    for dflt, grow in (("[]", "append(acc, x)"), ("<<>>", "append(acc, x)"), ("<<<>>>", "acc[x] = x"), ("[[]]", "append(acc[0], x)"), ("[1]", "append(acc, x)"),
                       ("<*n = 0*>", "acc->n = acc->n + x")):
        cases.append((f"def f(x, acc = {dflt}) do {grow}; string(acc) end; def a = f(1); def b = f(1); def g = fn(x, acc = {dflt}) do {grow}; string(acc) end; "
                      f"def c = g(1); def d = g(1); [a == b, c == d, a == c]", ('text', "[TRUE, TRUE, TRUE]")))
        cases.append((f"def mk() fn(x, acc = {dflt}) do {grow}; string(acc) end; def p = mk(); def q = mk(); [p(1) == p(1), p(1) == q(1)]", ('text', "[TRUE, TRUE]")))
        cases.append((f"def o = <*m = fn(self, x, acc = {dflt}) do {grow}; string(acc) end*>; [o->m(1) == o->m(1)]", ('text', "[TRUE]")))
    return cases
