/-
  C14 / C20 (parser half) — assembling the 49 simulation lemmas by well-founded induction on the
  parser's own termination measure, and the resulting equivariance of `parseCore` / `parseWith`.
-/
import CklVerif.Lemmas.C14ParseSimA
import CklVerif.Lemmas.C14ParseSimB
import CklVerif.Lemmas.C14ParseSimC
import CklVerif.Lemmas.C14ParseSimD
namespace Ckl.C14P
open Ckl Ckl.Parser

/-- every production of the parser is equivariant under every renaming of positions -/
theorem hyp_all (f : Pos → Pos) : ∀ k, Hyp f k := by
  intro k
  induction k using Nat.strongRecOn with
  | _ k ih =>
    exact {
      pBareBlock := fun tl hc hs hk => sim_pBareBlock tl (ih _ hk) hc hs
      bareLoop := fun hc hs ha hk => sim_bareLoop (ih _ hk) hc hs ha
      pBlock := fun hc hs hk => sim_pBlock (ih _ hk) hc hs
      blockLoop := fun hc hs ha hk => sim_blockLoop (ih _ hk) hc hs ha
      catchLoop := fun hc hs he hh hk => sim_catchLoop (ih _ hk) hc hs he hh
      finallyLoop := fun hc hs ha hk => sim_finallyLoop (ih _ hk) hc hs ha
      pStatement := fun hc hs hk => sim_pStatement (ih _ hk) hc hs
      pDef := fun comment hc hs hk => sim_pDef comment (ih _ hk) hc hs
      pDefTail := fun name comment pos hc hs hk => sim_pDefTail name comment pos (ih _ hk) hc hs
      classLoop := fun comment hc hs ha hk => sim_classLoop comment (ih _ hk) hc hs ha
      pExpression := fun hc hs hk => sim_pExpression (ih _ hk) hc hs
      ifClause := fun hc hs hk => sim_ifClause (ih _ hk) hc hs
      ifLoop := fun hc hs hcs hes hk => sim_ifLoop (ih _ hk) hc hs hcs hes
      pOr := fun hc hs hk => sim_pOr (ih _ hk) hc hs
      orLoop := fun hc hs ha hk => sim_orLoop (ih _ hk) hc hs ha
      pAnd := fun hc hs hk => sim_pAnd (ih _ hk) hc hs
      andLoop := fun hc hs ha hk => sim_andLoop (ih _ hk) hc hs ha
      pNot := fun hc hs hk => sim_pNot (ih _ hk) hc hs
      pRel := fun hc hs hk => sim_pRel (ih _ hk) hc hs
      relLoop := fun hc hs hl ha hk => sim_relLoop (ih _ hk) hc hs hl ha
      pAdd := fun hc hs hk => sim_pAdd (ih _ hk) hc hs
      addLoop := fun hc hs he hk => sim_addLoop (ih _ hk) hc hs he
      pMul := fun hc hs hk => sim_pMul (ih _ hk) hc hs
      mulLoop := fun hc hs he hk => sim_mulLoop (ih _ hk) hc hs he
      pUnary := fun hc hs hk => sim_pUnary (ih _ hk) hc hs
      pPred := fun um hc hs hk => sim_pPred um (ih _ hk) hc hs
      applyIsPred := fun p pos hc hs he hk => sim_applyIsPred p pos (ih _ hk) hc hs he
      pCollectMinMax := fun fn pos hc hs he hk => sim_pCollectMinMax fn pos (ih _ hk) hc hs he
      optPrimary := fun word hc hs hd hk => sim_optPrimary word (ih _ hk) hc hs hd
      pPrimary := fun um hc hs hk => sim_pPrimary um (ih _ hk) hc hs
      pPrimaryKw := fun t hc hs hk => sim_pPrimaryKw t (ih _ hk) hc hs
      pListLiteral := fun tpos hc hs hk => sim_pListLiteral tpos (ih _ hk) hc hs
      listLoop := fun hc hs hi hk => sim_listLoop (ih _ hk) hc hs hi
      comprClause := fun hc hs hk => sim_comprClause (ih _ hk) hc hs
      pComprRest := fun kind multi closer tpos hc hs hv hke hk =>
        sim_pComprRest kind multi closer tpos (ih _ hk) hc hs hv hke
      comprFinish := fun closer hc hs hm hk => sim_comprFinish closer (ih _ hk) hc hs hm
      pSetLiteral := fun tpos hc hs hk => sim_pSetLiteral tpos (ih _ hk) hc hs
      setLoop := fun hc hs hi hk => sim_setLoop (ih _ hk) hc hs hi
      pMapLiteral := fun tpos hc hs hk => sim_pMapLiteral tpos (ih _ hk) hc hs
      mapLoop := fun hc hs hks hvs hk => sim_mapLoop (ih _ hk) hc hs hks hvs
      pObjectLiteral := fun tpos hc hs hk => sim_pObjectLiteral tpos (ih _ hk) hc hs
      objLoop := fun ks hc hs hv hk => sim_objLoop ks (ih _ hk) hc hs hv
      pFn := fun pos hc hs hk => sim_pFn pos (ih _ hk) hc hs
      paramsLoop := fun ps hc hs hd hk => sim_paramsLoop ps (ih _ hk) hc hs hd
      invokeBody := fun hc hs hn hk => sim_invokeBody (ih _ hk) hc hs hn
      argsLoop := fun names hc hs ha hk => sim_argsLoop names (ih _ hk) hc hs ha
      derefArrow := fun hc hs hn hk => sim_derefArrow (ih _ hk) hc hs hn
      derefBracket := fun hc hs hn hk => sim_derefBracket (ih _ hk) hc hs hn
      postfixLoop := fun ac ad hc hs hn hk => sim_postfixLoop ac ad (ih _ hk) hc hs hn }

/-- the induction hypothesis with no bound: usable for every lexer state -/
theorem hyp_at (f : Pos → Pos) (n : Nat) : Hyp f (n * 16 + 16) := hyp_all f _

theorem endPosOf_map (f : Pos → Pos) (file : String) (t0 : Token) (tl : List Token) :
    endPosOf file ((t0 :: tl).map (tokMap f)) = f (endPosOf file (t0 :: tl)) := by
  unfold endPosOf
  rw [List.getLast?_map]
  cases h : (t0 :: tl).getLast? with
  | none => simp at h
  | some t => rfl

/-- the end of `parseCore`: all tokens must be consumed; a trailing `return` is unwrapped -/
def finish {n : Nat} (r : R Node n) : Except PErr Node :=
  match r with
  | .error e => .error e
  | .ok ⟨r, s1, _⟩ =>
    match s1.toks with
    | t :: _ => .error (mkErr ("Expected end of input but got '" ++ tokRepr t ++ "'") t.pos)
    | [] => .ok (unwrapReturn r)

theorem parseCore_cons (validRe : List Char → Bool) (file : String) (t0 : Token) (tl : List Token) :
    parseCore validRe file (t0 :: tl) =
      finish (pBareBlock ⟨endPosOf file (t0 :: tl), validRe⟩ true ⟨t0.pos, t0 :: tl⟩) := by
  unfold parseCore finish
  dsimp only
  generalize pBareBlock _ true _ = r
  cases r with
  | error e => rfl
  | ok o => obtain ⟨r, ⟨p, ts⟩, h1⟩ := o; cases ts <;> rfl

theorem finish_rel {f : Pos → Pos} {n m : Nat} {r : R Node n} {r' : R Node m} (h : ERel f (OLt f (NR f)) r r') :
    ERel f (NR f) (finish r) (finish r') := by
  cases r with
  | error e => cases r' with
    | error e' => exact h
    | ok o' => exact h.elim
  | ok o => cases r' with
    | error e' => exact h.elim
    | ok o' =>
      obtain ⟨n, s1, h1⟩ := o
      obtain ⟨n', s1', h1'⟩ := o'
      obtain ⟨hn, hs1⟩ := h
      dsimp only at hn hs1
      subst hn
      unfold finish
      dsimp only
      refine hs1.elim_cases (fun p => ?_) (fun p t rest => ?_)
      · simp [NR, mapPos_unwrapReturn]
      · exact mkErr_rel f _ _

/-- `parseCore` on a non-empty token list is equivariant -/
theorem parseCore_rel (f : Pos → Pos) (validRe : List Char → Bool) (file : String) (t0 : Token)
    (tl : List Token) :
    ERel f (NR f) (parseCore validRe file (t0 :: tl)) (parseCore validRe file ((t0 :: tl).map (tokMap f))) := by
  have hc : CRel f ⟨endPosOf file (t0 :: tl), validRe⟩ ⟨endPosOf file ((t0 :: tl).map (tokMap f)), validRe⟩ :=
    ⟨endPosOf_map f file t0 tl, rfl⟩
  have hs : SRel f ⟨t0.pos, t0 :: tl⟩ ⟨(tokMap f t0).pos, (t0 :: tl).map (tokMap f)⟩ := ⟨rfl, rfl⟩
  have h := (hyp_at f (t0 :: tl).length).pBareBlock true hc hs (by simp)
  rw [List.map_cons] at h ⊢
  rw [parseCore_cons, parseCore_cons]
  exact finish_rel h

/-- the `SynErr` of the first run with its position renamed -/
def mapErr (f : Pos → Pos) (e : SynErr) : SynErr := ⟨e.msg, f e.pos, e.eof⟩

/-- **equivariance of the parser**: renaming the positions of the tokens renames the positions
    of the AST (or of the syntax error) and changes nothing else.  For the empty token list the
    AST is `null` at the start position `⟨file, 1, 1⟩` of the file, which `f` must then fix. -/
theorem parseWith_equivariant (f : Pos → Pos) (validRe : List Char → Bool) (file : String) (toks : List Token)
    (h0 : toks = [] → f ⟨file, 1, 1⟩ = ⟨file, 1, 1⟩) :
    parseWith validRe file (toks.map (tokMap f)) =
      match parseWith validRe file toks with
      | .ok n => .ok (mapPos f n)
      | .error e => .error (mapErr f e) := by
  cases toks with
  | nil => simp [parseWith, parseCore, mapPos, h0 rfl]
  | cons t0 tl =>
    have h := parseCore_rel f validRe file t0 tl
    unfold parseWith
    revert h
    generalize parseCore validRe file (t0 :: tl) = r
    generalize parseCore validRe file ((t0 :: tl).map (tokMap f)) = r'
    intro h
    cases r with
    | error e => cases r' with
      | error e' =>
        obtain ⟨hm, hp⟩ := h
        have he := PRel.eof ⟨hm, hp⟩
        obtain ⟨⟨m', p', b'⟩, _⟩ := e'
        simp only at hm hp he
        subst hm hp he
        rfl
      | ok o' => exact h.elim
    | ok n => cases r' with
      | error e' => exact h.elim
      | ok n' => simp only [NR, ERel_ok] at h; subst h; rfl

end Ckl.C14P
