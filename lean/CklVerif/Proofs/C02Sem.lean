/-
  C02 (semantic half, and the composition with the parser half) — the VALUE of an expression.

  `Proofs/C02Parse.lean` proves that every token list spelled `render e` parses to `toNode e` (up to
  positions); `Proofs/C02.lean` proves laws of the built-ins `add` … `mod` in isolation.  This file
  closes the gap: the evaluator, run on the parsed AST, computes the value the language defines.

  * `denote d0 ρ e : Res` (`Lemmas/C02SemDefs.lean`, written from the property text, it does not mention
    the evaluator): values NULL / booleans / unbounded ints; `+ - *` on `Int`, `/` = `Int.tdiv`,
    `%` = `Int.fmod`; NULL operand ⇒ NULL; division / modulo by zero, a non-boolean under
    `not`/`and`/`or`, a boolean under an arithmetic operator, an unbound identifier ⇒ THE runtime error
    (`Res.error`, i.e. `CklRuntimeError` with value `'ERROR'`); operands left to right, first error wins;
    `and` / `or` short-circuit; a comparison chain is the short-circuit conjunction of its adjacent pairs.
    DECIMALS ARE NOT COVERED (the model computes them with `Float`, opaque to the kernel): every
    identifier of `e` is bound to NULL, a boolean or an int (or is unbound).
  * `eval_toNode` / `eval_positioned`: for EVERY tree `e`, every state `s` and frame `env` with
      (a) `∀ x ∈ idents e, Bound ld s env ρ x` — the identifiers of `e` have the values of the valuation,
      (b) `OpsBound s env` — `add sub mul div mod equals not_equals less less_equals greater
          greater_equals` resolve to the built-ins of these names (not shadowed),
      (c) `Div0 s env d0` — `DIV_0_VALUE` is undefined (`d0 = none`) or bound to the value `d0`,
    and every `fuel ≥ need e` (`need e ≤ 5 * size e`): `eval ld fuel env n s` IS `denote d0 ρ e` — the
    outcome is `.ok v s` resp. `.err 'ERROR' msg pos trace s` — IN THE SAME STATE `s`: frames, heap,
    module table, output (nothing is printed), instance counter and ghost counters are all unchanged.
  * `interpret_expression`: parse ∘ eval on every token list spelled `render e` gives `denote d0 ρ e`:
    precedence, associativity, chains, short-circuit and exact arithmetic in one statement.
  * the corollaries in the words of the property, and concrete big-int instances.
-/
import CklVerif.Lemmas.C02SemCheck
import CklVerif.Lemmas.C02SemScan
import CklVerif.Proofs.C02Parse
import CklVerif.Proofs.C14EndToEnd

set_option linter.unusedSimpArgs false
namespace Ckl.C02S
open Ckl Ckl.C02P Ckl.Parser

/-! ## 0. reading `Is` -/

theorem is_val_iff {o : Out RVal} {v : V} {s : State} : Is o (.val v) s ↔ o = .ok v.toR s := Iff.rfl

theorem is_error_iff {o : Out RVal} {s : State} :
    Is o .error s ↔ ∃ msg pos trace, o = .err (.str ['E', 'R', 'R', 'O', 'R']) msg pos trace s := Iff.rfl

/-- the state an outcome ends in -/
def outState : Out RVal → State
  | .ok _ s => s
  | .err _ _ _ _ s => s
  | .fail _ s => s

/-- `Is o r s` excludes the out-of-fuel / unsupported / host-exception outcomes, and pins the final
    state: the WHOLE state (frames, heap, output, counters) is `s` -/
theorem is_state {o : Out RVal} {r : Res} {s : State} (h : Is o r s) :
    outState o = s ∧ ∀ f s', o ≠ .fail f s' := by
  cases r with
  | val v => simp only [Is] at h; subst h; exact ⟨rfl, fun _ _ h => by cases h⟩
  | error => obtain ⟨m, p, t, rfl⟩ := h; exact ⟨rfl, fun _ _ h => by cases h⟩

/-- a result determines the outcome up to message, position and trace of the error -/
theorem is_unique {o : Out RVal} {r r' : Res} {s : State} (h : Is o r s) (h' : Is o r' s) : r = r' := by
  cases r with
  | val v =>
    cases r' with
    | val v' =>
      simp only [Is] at h h'; rw [h] at h'
      cases v <;> cases v' <;> simp [V.toR] at h' <;> simp [h']
    | error => obtain ⟨m, p, t, h'⟩ := h'; simp only [Is] at h; rw [h] at h'; cases h'
  | error =>
    cases r' with
    | val v' => obtain ⟨m, p, t, h⟩ := h; simp only [Is] at h'; rw [h'] at h; cases h
    | error => rfl

section
variable (ld : Loader) (d0 : Option V) (ρ : Valuation) (s : State) (env : EnvId)

/-! ## 1. the evaluator computes the denotation -/

/-- **`eval_toNode`, positioned form.**  `n` is any AST that equals `toNode e` up to source positions
    (what the parser produces from any token list spelled `render e`). -/
theorem eval_positioned (hops : OpsBound s env) (hd : Div0 s env d0) (e : E)
    (hb : ∀ x ∈ idents e, Bound ld s env ρ x) (n : Node) (hn : erase n = toNode e)
    (fuel : Nat) (hf : need e ≤ fuel) :
    Is (eval ld fuel env n s) (denote d0 ρ e) s :=
  eval_main ld d0 ρ s env hops hd e hb n hn fuel hf

/-- **`eval_toNode`.**  For every expression tree `e` (any depth), every state and frame in which the
    identifiers of `e` have the values of `ρ`, the operator names resolve to the built-ins and
    `DIV_0_VALUE` is `d0`, and every fuel ≥ `need e`: evaluating the prescribed AST gives exactly
    `denote d0 ρ e` — the value, or the runtime error `'ERROR'` — and the state is unchanged. -/
theorem eval_toNode (hops : OpsBound s env) (hd : Div0 s env d0) (e : E)
    (hb : ∀ x ∈ idents e, Bound ld s env ρ x) (fuel : Nat) (hf : need e ≤ fuel) :
    Is (eval ld fuel env (toNode e) s) (denote d0 ρ e) s :=
  eval_positioned ld d0 ρ s env hops hd e hb (toNode e) (erase_toNode e) fuel hf

/-- the same with the fuel bound in closed form: five units per constructor of the tree -/
theorem eval_toNode_size (hops : OpsBound s env) (hd : Div0 s env d0) (e : E)
    (hb : ∀ x ∈ idents e, Bound ld s env ρ x) (fuel : Nat) (hf : 5 * size e ≤ fuel) :
    Is (eval ld fuel env (toNode e) s) (denote d0 ρ e) s :=
  eval_toNode ld d0 ρ s env hops hd e hb fuel (Nat.le_trans (need_le_size e) hf)

/-- spelled out: the outcome is `.ok v s` or `.err 'ERROR' … s`; never out of fuel / unsupported; the
    final state is `s` (in particular `s.out`: nothing is printed, and `s.heap`, `s.ghost`) -/
theorem eval_toNode_outcome (hops : OpsBound s env) (hd : Div0 s env d0) (e : E)
    (hb : ∀ x ∈ idents e, Bound ld s env ρ x) (fuel : Nat) (hf : need e ≤ fuel) :
    (∀ v, denote d0 ρ e = .val v → eval ld fuel env (toNode e) s = .ok v.toR s) ∧
    (denote d0 ρ e = .error →
      ∃ msg pos trace, eval ld fuel env (toNode e) s = .err (.str ['E', 'R', 'R', 'O', 'R']) msg pos trace s) ∧
    outState (eval ld fuel env (toNode e) s) = s := by
  have h := eval_toNode ld d0 ρ s env hops hd e hb fuel hf
  refine ⟨fun v hv => ?_, fun he => ?_, (is_state h).1⟩
  · rw [hv] at h; exact h
  · rw [he] at h; exact h

/-- `Interpreter.interpret` on the AST (it unwraps `return`, rejects stray `break` / `continue`): the same -/
theorem interpretProg_is {n : Node} {fuel : Nat} {r : Res} (h : Is (eval ld fuel env n s) r s) :
    Is (interpretProg ld fuel env n s) r s := by
  unfold interpretProg
  rw [EvalM.bind_apply]
  cases r with
  | val v => simp only [Is] at h ⊢; rw [h]; cases v <;> rfl
  | error => obtain ⟨m, p, t, h⟩ := h; rw [h]; exact ⟨m, p, t, rfl⟩

/-! ## 2. end to end: parse, then evaluate -/

/-- the token list `ts` parses (as a whole program), and for every fuel ≥ `k` evaluating the parsed AST
    in frame `env` of state `s` — with `eval`, and with `Interpreter.interpret` — gives the result `r`
    and leaves `s` unchanged -/
def Evaluates (file : String) (ts : List Token) (k : Nat) (r : Res) : Prop :=
  ∃ n, parse file ts = .ok n ∧ ∀ fuel, k ≤ fuel →
    Is (eval ld fuel env n s) r s ∧ Is (interpretProg ld fuel env n s) r s

variable (hops : OpsBound s env) (hd : Div0 s env d0)
include hops hd

/-- **`interpret_expression`.**  For every expression tree `e` and every token list spelled `render e`
    (any positions): the parser accepts it, and the evaluator computes `denote d0 ρ e` from the parsed
    AST.  Since `render` puts parentheses exactly where a child binds weaker than its position
    (or 0 < and 1 < not 2 < comparison 3 < additive 4 < multiplicative 5 < unary 6) and `denote` follows
    the tree, this is: precedence, left associativity, chains, short-circuit, NULL propagation and exact
    integer arithmetic, in one statement. -/
theorem interpret_expression (file : String) (e : E) (ts : List Token) (hts : ts.map sp = C02P.render e)
    (hb : ∀ x ∈ idents e, Bound ld s env ρ x) :
    Evaluates ld s env file ts (need e) (denote d0 ρ e) := by
  obtain ⟨n, hp, hn⟩ := parse_render_tokens file e ts hts
  refine ⟨n, hp, fun fuel hf => ?_⟩
  have h := eval_positioned ld d0 ρ s env hops hd e hb n hn fuel hf
  exact ⟨h, interpretProg_is ld s env h⟩

/-- the same, naming the result -/
theorem evaluates_of (file : String) (e : E) (ts : List Token) (hts : ts.map sp = C02P.render e)
    (hb : ∀ x ∈ idents e, Bound ld s env ρ x) {r : Res} (hr : denote d0 ρ e = r) :
    Evaluates ld s env file ts (need e) r :=
  hr ▸ interpret_expression ld d0 ρ s env hops hd file e ts hts hb

omit hops hd in
/-- explicit redundant parentheses change neither the AST nor the value -/
theorem parens_irrelevant (e : E) : denote d0 ρ (.paren e) = denote d0 ρ e := by
  simp only [denote]

/-! ## 3. the corollaries, in the words of the property

  `A`, `B`, `C` below are the results of the sub-trees `a`, `b`, `c`. -/

/-- **`a - b - c` is `(a - b) - c`** (left associativity, as a value) -/
theorem sub_assoc_value (file : String) (a b c : E) (ts : List Token)
    (hts : ts.map sp = renderAt 4 a ++ minusSp :: renderAt 5 b ++ minusSp :: renderAt 5 c)
    (hb : ∀ x ∈ idents a ++ (idents b ++ idents c), Bound ld s env ρ x) :
    Evaluates ld s env file ts (need (.add .sub (.add .sub a b) c))
      (subSem (subSem (denote d0 ρ a) (denote d0 ρ b)) (denote d0 ρ c)) :=
  evaluates_of ld d0 ρ s env hops hd file (.add .sub (.add .sub a b) c) ts
    (by rw [hts]; simp [C02P.render, wrap, prec, AddOp.sp, AddOp.txt, minusSp])
    (by simpa [idents] using hb) (by simp only [denote, addOpSem])

/-- … on ints: `x - y - z`, not `x - (y - z)` -/
theorem sub_assoc_int (file : String) (a b c : E) (x y z : Int) (ts : List Token)
    (hts : ts.map sp = renderAt 4 a ++ minusSp :: renderAt 5 b ++ minusSp :: renderAt 5 c)
    (hb : ∀ x ∈ idents a ++ (idents b ++ idents c), Bound ld s env ρ x)
    (ha : denote d0 ρ a = .val (.int x)) (hb' : denote d0 ρ b = .val (.int y)) (hc : denote d0 ρ c = .val (.int z)) :
    Evaluates ld s env file ts (need (.add .sub (.add .sub a b) c)) (.val (.int (x - y - z))) := by
  have h := sub_assoc_value ld d0 ρ s env hops hd file a b c ts hts hb
  rw [ha, hb', hc] at h; exact h

/-- **`a + b * c` is `a + (b * c)`** (`*` binds tighter than `+`) -/
theorem mul_binds_tighter (file : String) (a b c : E) (ts : List Token)
    (hts : ts.map sp = renderAt 4 a ++ plusSp :: renderAt 5 b ++ starSp :: renderAt 6 c)
    (hb : ∀ x ∈ idents a ++ (idents b ++ idents c), Bound ld s env ρ x) :
    Evaluates ld s env file ts (need (.add .add a (.mul .mul b c)))
      (addSem (denote d0 ρ a) (mulSem (denote d0 ρ b) (denote d0 ρ c))) :=
  evaluates_of ld d0 ρ s env hops hd file (.add .add a (.mul .mul b c)) ts
    (by rw [hts]; simp [C02P.render, wrap, prec, AddOp.sp, AddOp.txt, MulOp.sp, MulOp.txt, plusSp, starSp])
    (by simpa [idents] using hb) (by simp only [denote, addOpSem, mulOpSem])

theorem mul_binds_tighter_int (file : String) (a b c : E) (x y z : Int) (ts : List Token)
    (hts : ts.map sp = renderAt 4 a ++ plusSp :: renderAt 5 b ++ starSp :: renderAt 6 c)
    (hb : ∀ x ∈ idents a ++ (idents b ++ idents c), Bound ld s env ρ x)
    (ha : denote d0 ρ a = .val (.int x)) (hb' : denote d0 ρ b = .val (.int y)) (hc : denote d0 ρ c = .val (.int z)) :
    Evaluates ld s env file ts (need (.add .add a (.mul .mul b c))) (.val (.int (x + y * z))) := by
  have h := mul_binds_tighter ld d0 ρ s env hops hd file a b c ts hts hb
  rw [ha, hb', hc] at h; exact h

/-- `a or b and c` is `a or (b and c)`; `not a == b` is `not (a == b)` -/
theorem or_and_not_prec_value (file : String) (a b c : E) (ts : List Token)
    (hts : ts.map sp = renderAt 1 a ++ orSp :: renderAt 2 b ++ andSp :: renderAt 2 c)
    (hb : ∀ x ∈ idents a ++ (idents b ++ idents c), Bound ld s env ρ x) :
    Evaluates ld s env file ts (need (.or a (.and b c []) []))
      (orSem [denote d0 ρ a, andSem [denote d0 ρ b, denote d0 ρ c]]) :=
  evaluates_of ld d0 ρ s env hops hd file (.or a (.and b c []) []) ts
    (by rw [hts]; simp [C02P.render, C02P.renderL, wrap, prec])
    (by simpa [idents, identsL] using hb) (by simp only [denote, denoteL])

theorem not_cmp_prec_value (file : String) (a b : E) (ts : List Token)
    (hts : ts.map sp = notSp :: renderAt 4 a ++ eqSp :: renderAt 4 b)
    (hb : ∀ x ∈ idents a ++ idents b, Bound ld s env ρ x) :
    Evaluates ld s env file ts (need (.not (.cmp a .eq b [])))
      (notSem (relSem .eq (denote d0 ρ a) (denote d0 ρ b))) :=
  evaluates_of ld d0 ρ s env hops hd file (.not (.cmp a .eq b [])) ts
    (by rw [hts]; simp [C02P.render, renderC, wrap, prec, RelOp.sp, RelOp.txt, eqSp])
    (by simpa [idents, identsC] using hb) (by simp only [denote, denoteC, andSem_rel_single])

omit hops hd in
/-- a chain denotes what the explicit conjunction of its adjacent pairs denotes -/
theorem chain_denote (a b c : E) (o1 o2 : RelOp) :
    denote d0 ρ (.cmp a o1 b [(o2, c)]) = denote d0 ρ (.and (.cmp a o1 b []) (.cmp b o2 c []) []) := by
  simp only [denote, denoteC, denoteL, andSem_rel_single]

/-- **a comparison chain is the conjunction of its adjacent pairs**: `a op₁ b op₂ c` evaluates to the
    short-circuit conjunction of `a op₁ b` and `b op₂ c` — the value `(a op₁ b) and (b op₂ c)` evaluates
    to.  (The parser builds `NodeAnd [op₁(a, b), op₂(b, c)]`: `b` is evaluated twice when `a op₁ b` is
    TRUE, once otherwise; without side effects this is invisible in the result.) -/
theorem chain_is_conjunction (file : String) (a b c : E) (o1 o2 : RelOp) (ts ts' : List Token)
    (hts : ts.map sp = renderAt 4 a ++ o1.sp :: renderAt 4 b ++ o2.sp :: renderAt 4 c)
    (hts' : ts'.map sp = C02P.render (.and (.cmp a o1 b []) (.cmp b o2 c []) []))
    (hb : ∀ x ∈ idents a ++ (idents b ++ idents c), Bound ld s env ρ x) :
    Evaluates ld s env file ts (need (.cmp a o1 b [(o2, c)]))
      (andSem [relSem o1 (denote d0 ρ a) (denote d0 ρ b), relSem o2 (denote d0 ρ b) (denote d0 ρ c)]) ∧
    Evaluates ld s env file ts' (need (.and (.cmp a o1 b []) (.cmp b o2 c []) []))
      (andSem [relSem o1 (denote d0 ρ a) (denote d0 ρ b), relSem o2 (denote d0 ρ b) (denote d0 ρ c)]) := by
  constructor
  · exact evaluates_of ld d0 ρ s env hops hd file (.cmp a o1 b [(o2, c)]) ts
      (by rw [hts]; simp [C02P.render, renderC]) (by simpa [idents, identsC] using hb)
      (by simp only [denote, denoteC])
  · refine evaluates_of ld d0 ρ s env hops hd file _ ts' hts' ?_
      (by simp only [denote, denoteC, denoteL, andSem_rel_single])
    intro x hx
    simp only [idents, identsC, identsL, List.mem_append, List.append_nil, List.not_mem_nil, or_false] at hx
    apply hb x
    simp only [List.mem_append]
    rcases hx with (h | h) | (h | h) <;> simp [h]

/-- on ints: `x < y <= z` is `x < y ∧ y ≤ z` -/
theorem chain_int (file : String) (a b c : E) (x y z : Int) (ts : List Token)
    (hts : ts.map sp = renderAt 4 a ++ ltSp :: renderAt 4 b ++ leSp :: renderAt 4 c)
    (hb : ∀ x ∈ idents a ++ (idents b ++ idents c), Bound ld s env ρ x)
    (ha : denote d0 ρ a = .val (.int x)) (hb' : denote d0 ρ b = .val (.int y)) (hc : denote d0 ρ c = .val (.int z)) :
    Evaluates ld s env file ts (need (.cmp a .lt b [(.le, c)])) (.val (.bool (decide (x < y ∧ y ≤ z)))) := by
  have h := evaluates_of ld d0 ρ s env hops hd file (.cmp a .lt b [(.le, c)]) ts
    (by rw [hts]; simp [C02P.render, renderC, RelOp.sp, RelOp.txt, ltSp, leSp]) (by simpa [idents, identsC] using hb) rfl
  have e : denote d0 ρ (.cmp a .lt b [(.le, c)]) = .val (.bool (decide (x < y ∧ y ≤ z))) := by
    have e1 : (decide (y < z) || decide (y = z)) = decide (y ≤ z) := by
      rw [Bool.eq_iff_iff]; simp only [Bool.or_eq_true, decide_eq_true_eq]; omega
    simp only [denote, denoteC, ha, hb', hc, relSem, lift2, relV, V.lt, V.eq, e1]
    by_cases h1 : x < y <;> by_cases h2 : y ≤ z <;> simp [andSem, h1, h2]
  rw [e] at h; exact h

/-- **`and` short-circuits**: `FALSE and x` is FALSE for ANY `x` — even one whose evaluation fails (division
    by zero, unbound identifier, type error) — and likewise with more clauses after it -/
theorem and_short_circuits_error (file : String) (x : E) (more : List E) (ts : List Token)
    (hts : ts.map sp = C02P.render (.and (.atom (.bool false)) x more))
    (hb : ∀ y ∈ idents x ++ identsL more, Bound ld s env ρ y) :
    Evaluates ld s env file ts (need (.and (.atom (.bool false)) x more)) (.val (.bool false)) :=
  evaluates_of ld d0 ρ s env hops hd file _ ts hts (by simpa [idents] using hb) rfl

/-- **`or` short-circuits**: `TRUE or x` is TRUE for any `x` -/
theorem or_short_circuits_error (file : String) (x : E) (more : List E) (ts : List Token)
    (hts : ts.map sp = C02P.render (.or (.atom (.bool true)) x more))
    (hb : ∀ y ∈ idents x ++ identsL more, Bound ld s env ρ y) :
    Evaluates ld s env file ts (need (.or (.atom (.bool true)) x more)) (.val (.bool true)) :=
  evaluates_of ld d0 ρ s env hops hd file _ ts hts (by simpa [idents] using hb) rfl

/-- … while an error to the LEFT of the deciding operand wins: `x and FALSE` is the error if `x` fails -/
theorem and_error_left (file : String) (x : E) (ts : List Token)
    (hts : ts.map sp = C02P.render (.and x (.atom (.bool false)) []))
    (hb : ∀ y ∈ idents x, Bound ld s env ρ y) (hx : denote d0 ρ x = .error) :
    Evaluates ld s env file ts (need (.and x (.atom (.bool false)) [])) .error :=
  evaluates_of ld d0 ρ s env hops hd file _ ts hts (by simpa [idents, identsL] using hb)
    (by simp only [denote, hx]; rfl)

/-- **`and` / `or` accept only booleans**: a clause that is reached and is not a boolean — NULL or an int —
    is the runtime error, in first position (`1 and TRUE`) and behind a TRUE (`TRUE and 1`) -/
theorem and_rejects_nonbool (file : String) (a b : E) (v : V) (hv : ∀ t, v ≠ .bool t) (ts ts' : List Token)
    (hts : ts.map sp = C02P.render (.and a b [])) (hts' : ts'.map sp = C02P.render (.and (.atom (.bool true)) a []))
    (hb : ∀ y ∈ idents a ++ idents b, Bound ld s env ρ y) (ha : denote d0 ρ a = .val v) :
    Evaluates ld s env file ts (need (.and a b [])) .error ∧
    Evaluates ld s env file ts' (need (.and (.atom (.bool true)) a [])) .error := by
  have hand : ∀ rs, andSem (.val v :: rs) = .error := by
    intro rs; cases v with
    | bool t => exact absurd rfl (hv t)
    | null => rfl
    | int n => rfl
  constructor
  · exact evaluates_of ld d0 ρ s env hops hd file _ ts hts (by simpa [idents, identsL] using hb)
      (by simp only [denote, ha, hand])
  · refine evaluates_of ld d0 ρ s env hops hd file _ ts' hts' ?_ ?_
    · intro y hy; apply hb y; simp only [idents, identsL, List.nil_append, List.append_nil] at hy; simp [hy]
    · simp only [denote, denoteAtom, denoteL, ha]; exact hand []

theorem or_rejects_nonbool (file : String) (a b : E) (v : V) (hv : ∀ t, v ≠ .bool t) (ts ts' : List Token)
    (hts : ts.map sp = C02P.render (.or a b [])) (hts' : ts'.map sp = C02P.render (.or (.atom (.bool false)) a []))
    (hb : ∀ y ∈ idents a ++ idents b, Bound ld s env ρ y) (ha : denote d0 ρ a = .val v) :
    Evaluates ld s env file ts (need (.or a b [])) .error ∧
    Evaluates ld s env file ts' (need (.or (.atom (.bool false)) a [])) .error := by
  have hor : ∀ rs, orSem (.val v :: rs) = .error := by
    intro rs; cases v with
    | bool t => exact absurd rfl (hv t)
    | null => rfl
    | int n => rfl
  constructor
  · exact evaluates_of ld d0 ρ s env hops hd file _ ts hts (by simpa [idents, identsL] using hb)
      (by simp only [denote, ha, hor])
  · refine evaluates_of ld d0 ρ s env hops hd file _ ts' hts' ?_ ?_
    · intro y hy; apply hb y; simp only [idents, identsL, List.nil_append, List.append_nil] at hy; simp [hy]
    · simp only [denote, denoteAtom, denoteL, ha]; exact hor []

/-- `not` accepts only booleans -/
theorem not_rejects_nonbool (file : String) (a : E) (v : V) (hv : ∀ t, v ≠ .bool t) (ts : List Token)
    (hts : ts.map sp = C02P.render (.not a)) (hb : ∀ y ∈ idents a, Bound ld s env ρ y) (ha : denote d0 ρ a = .val v) :
    Evaluates ld s env file ts (need (.not a)) .error := by
  refine evaluates_of ld d0 ρ s env hops hd file _ ts hts (by simpa [idents] using hb) ?_
  simp only [denote, ha]
  cases v with
  | bool t => exact absurd rfl (hv t)
  | null => rfl
  | int n => rfl

/-! ### arithmetic -/

/-- the five arithmetic operators as trees -/
inductive Arith | add | sub | mul | div | mod
deriving DecidableEq, Repr

def Arith.tree : Arith → E → E → E
  | .add, l, r => .add .add l r
  | .sub, l, r => .add .sub l r
  | .mul, l, r => .mul .mul l r
  | .div, l, r => .mul .div l r
  | .mod, l, r => .mul .mod l r

omit hops hd in
theorem arith_idents (o : Arith) (l r : E) : idents (o.tree l r) = idents l ++ idents r := by
  cases o <;> rfl

/-- **arithmetic on NULL gives NULL**: for each of `+ - * / %`, if one operand is NULL and the other
    evaluates to any value (an int, a boolean, NULL — also the int zero under `/` and `%`), the result is
    NULL.  (Both operands are evaluated first: if the other operand FAILS, the result is that error.) -/
theorem null_arith (file : String) (o : Arith) (l r : E) (v : V) (ts : List Token)
    (hts : ts.map sp = C02P.render (o.tree l r)) (hb : ∀ y ∈ idents l ++ idents r, Bound ld s env ρ y)
    (h : (denote d0 ρ l = .val .null ∧ denote d0 ρ r = .val v) ∨ (denote d0 ρ l = .val v ∧ denote d0 ρ r = .val .null)) :
    Evaluates ld s env file ts (need (o.tree l r)) (.val .null) := by
  refine evaluates_of ld d0 ρ s env hops hd file _ ts hts (by rw [arith_idents]; exact hb) ?_
  rcases h with ⟨h1, h2⟩ | ⟨h1, h2⟩ <;> cases o <;>
    simp only [Arith.tree, denote, h1, h2, addOpSem, mulOpSem, addSem, subSem, mulSem, divSem, modSem, lift2] <;>
    cases v <;> rfl

/-- **`+ - *` are exact on ints of any magnitude** -/
theorem add_sub_mul_exact (file : String) (l r : E) (x y : Int) (ts₁ ts₂ ts₃ : List Token)
    (h₁ : ts₁.map sp = C02P.render (.add .add l r)) (h₂ : ts₂.map sp = C02P.render (.add .sub l r))
    (h₃ : ts₃.map sp = C02P.render (.mul .mul l r))
    (hb : ∀ y ∈ idents l ++ idents r, Bound ld s env ρ y)
    (hl : denote d0 ρ l = .val (.int x)) (hr : denote d0 ρ r = .val (.int y)) :
    Evaluates ld s env file ts₁ (need (.add .add l r)) (.val (.int (x + y))) ∧
    Evaluates ld s env file ts₂ (need (.add .sub l r)) (.val (.int (x - y))) ∧
    Evaluates ld s env file ts₃ (need (.mul .mul l r)) (.val (.int (x * y))) :=
  ⟨evaluates_of ld d0 ρ s env hops hd file _ ts₁ h₁ hb (by simp only [denote, hl, hr]; rfl),
   evaluates_of ld d0 ρ s env hops hd file _ ts₂ h₂ hb (by simp only [denote, hl, hr]; rfl),
   evaluates_of ld d0 ρ s env hops hd file _ ts₃ h₃ hb (by simp only [denote, hl, hr]; rfl)⟩

/-- **`/` on ints truncates toward zero, exactly, at any magnitude**: the result is the int `q` with
    `|x − q·y| < |y|` whose remainder `x − q·y` is zero or has the sign of the dividend -/
theorem div_exact (file : String) (l r : E) (x y : Int) (hy : y ≠ 0) (ts : List Token)
    (hts : ts.map sp = C02P.render (.mul .div l r)) (hb : ∀ y ∈ idents l ++ idents r, Bound ld s env ρ y)
    (hl : denote d0 ρ l = .val (.int x)) (hr : denote d0 ρ r = .val (.int y)) :
    Evaluates ld s env file ts (need (.mul .div l r)) (.val (.int (Int.tdiv x y))) ∧
    (x - Int.tdiv x y * y).natAbs < y.natAbs ∧
    (x - Int.tdiv x y * y = 0 ∨ (x - Int.tdiv x y * y).sign = x.sign) := by
  refine ⟨evaluates_of ld d0 ρ s env hops hd file _ ts hts hb ?_, ?_, ?_⟩
  · simp only [denote, hl, hr, mulOpSem, divSem, lift2, arithV, divInt, if_neg hy]
  · rw [sub_tdiv_mul]; exact tmod_natAbs_lt x hy
  · rw [sub_tdiv_mul]; exact tmod_zero_or_sign x y

/-- **`%` on ints**: the result `m` satisfies `|m| < |y|`, `y ∣ x − m`, and `m` is zero or has the sign of
    the divisor (the floored modulus `Int.fmod`, Python's `%`), at any magnitude -/
theorem mod_spec (file : String) (l r : E) (x y : Int) (hy : y ≠ 0) (ts : List Token)
    (hts : ts.map sp = C02P.render (.mul .mod l r)) (hb : ∀ y ∈ idents l ++ idents r, Bound ld s env ρ y)
    (hl : denote d0 ρ l = .val (.int x)) (hr : denote d0 ρ r = .val (.int y)) :
    Evaluates ld s env file ts (need (.mul .mod l r)) (.val (.int (Int.fmod x y))) ∧
    (Int.fmod x y).natAbs < y.natAbs ∧ y ∣ x - Int.fmod x y ∧
    (Int.fmod x y = 0 ∨ (Int.fmod x y).sign = y.sign) := by
  refine ⟨evaluates_of ld d0 ρ s env hops hd file _ ts hts hb ?_, fmod_natAbs_lt x hy, dvd_sub_fmod x y,
    fmod_zero_or_sign x hy⟩
  simp only [denote, hl, hr, mulOpSem, modSem, lift2, arithV, modInt, if_neg hy]

/-- **division by zero**: the runtime error when `DIV_0_VALUE` is not configured, the configured value
    otherwise; **modulo by zero** is the runtime error in both cases -/
theorem div_zero_error (file : String) (l r : E) (x : Int) (ts ts' : List Token)
    (hts : ts.map sp = C02P.render (.mul .div l r)) (hts' : ts'.map sp = C02P.render (.mul .mod l r))
    (hb : ∀ y ∈ idents l ++ idents r, Bound ld s env ρ y)
    (hl : denote d0 ρ l = .val (.int x)) (hr : denote d0 ρ r = .val (.int 0)) :
    Evaluates ld s env file ts (need (.mul .div l r)) (match d0 with | none => .error | some v => .val v) ∧
    Evaluates ld s env file ts' (need (.mul .mod l r)) .error :=
  ⟨evaluates_of ld d0 ρ s env hops hd file _ ts hts hb
      (by simp only [denote, hl, hr, mulOpSem, divSem, lift2, arithV, divInt, if_true]; cases d0 <;> rfl),
   evaluates_of ld d0 ρ s env hops hd file _ ts' hts' hb
      (by simp only [denote, hl, hr, mulOpSem, modSem, lift2, arithV, modInt, if_true])⟩

/-- a boolean operand of an arithmetic operator (the other operand not NULL) is the runtime error -/
theorem arith_rejects_bool (file : String) (o : Arith) (l r : E) (t : Bool) (v : V) (hv : v ≠ .null) (ts : List Token)
    (hts : ts.map sp = C02P.render (o.tree l r)) (hb : ∀ y ∈ idents l ++ idents r, Bound ld s env ρ y)
    (h : (denote d0 ρ l = .val (.bool t) ∧ denote d0 ρ r = .val v) ∨ (denote d0 ρ l = .val v ∧ denote d0 ρ r = .val (.bool t))) :
    Evaluates ld s env file ts (need (o.tree l r)) .error := by
  refine evaluates_of ld d0 ρ s env hops hd file _ ts hts (by rw [arith_idents]; exact hb) ?_
  rcases h with ⟨h1, h2⟩ | ⟨h1, h2⟩ <;> cases o <;>
    simp only [Arith.tree, denote, h1, h2, addOpSem, mulOpSem, addSem, subSem, mulSem, divSem, modSem, lift2] <;>
    cases v <;> first | rfl | exact absurd rfl hv

end

/-! ### the kind of the result -/

def V.isInt : V → Bool
  | .int _ => true
  | _ => false

/-- **the result is an int exactly when both operands are ints** (restricted to the kinds modelled here:
    NULL, booleans, ints; `DIV_0_VALUE` not configured): whenever `l op r` has a value `v` for operand
    values `x`, `y`, `v` is an int iff `x` and `y` are — otherwise `v` is NULL.  (With a configured
    `DIV_0_VALUE` the statement holds for `+ - * %`, and for `/` unless the divisor is zero.) -/
theorem int_result_iff_int_operands (ρ : Valuation) (o : Arith) (l r : E) (x y v : V)
    (hl : denote none ρ l = .val x) (hr : denote none ρ r = .val y) (hv : denote none ρ (o.tree l r) = .val v) :
    (v.isInt = true ↔ (x.isInt = true ∧ y.isInt = true)) ∧ (v.isInt = false → v = .null) := by
  cases o <;>
    simp only [Arith.tree, denote, hl, hr, addOpSem, mulOpSem, addSem, subSem, mulSem, divSem, modSem, lift2] at hv <;>
    cases x <;> cases y <;> simp only [arithV, divInt, modInt] at hv <;>
    first
    | (cases hv; simp [V.isInt])
    | (split at hv <;> first | (cases hv; simp [V.isInt]) | cases hv)
    | cases hv

/-- the same for `+ - * %` under any `DIV_0_VALUE` configuration -/
theorem int_result_iff_int_operands_cfg (d0 : Option V) (ρ : Valuation) (o : Arith) (ho : o ≠ .div) (l r : E) (x y v : V)
    (hl : denote d0 ρ l = .val x) (hr : denote d0 ρ r = .val y) (hv : denote d0 ρ (o.tree l r) = .val v) :
    (v.isInt = true ↔ (x.isInt = true ∧ y.isInt = true)) ∧ (v.isInt = false → v = .null) := by
  cases o <;> first | exact absurd rfl ho | skip
  all_goals
    simp only [Arith.tree, denote, hl, hr, addOpSem, mulOpSem, addSem, subSem, mulSem, divSem, modSem, lift2] at hv
    cases x <;> cases y <;> simp only [arithV, divInt, modInt] at hv <;>
    first
    | (cases hv; simp [V.isInt])
    | (split at hv <;> first | (cases hv; simp [V.isInt]) | cases hv)
    | cases hv

/-! ### comparisons on ints and booleans are the mathematical relations -/

theorem relSem_int (op : RelOp) (x y : Int) :
    relSem op (.val (.int x)) (.val (.int y)) = .val (.bool (match op with
      | .eq => decide (x = y) | .ne => decide (x ≠ y) | .ne2 => decide (x ≠ y) | .lt => decide (x < y)
      | .le => decide (x ≤ y) | .gt => decide (x > y) | .ge => decide (x ≥ y))) := by
  cases op <;> simp only [relSem, lift2, relV, V.lt, V.eq, Res.val.injEq, V.bool.injEq] <;>
    by_cases h1 : x < y <;> by_cases h2 : x = y <;> simp [h1, h2] <;> omega

/-- FALSE < TRUE -/
theorem relSem_bool (op : RelOp) (x y : Bool) :
    relSem op (.val (.bool x)) (.val (.bool y)) = .val (.bool (match op with
      | .eq => x == y | .ne => x != y | .ne2 => x != y | .lt => !x && y
      | .le => !x || y | .gt => x && !y | .ge => x || !y)) := by
  cases op <;> cases x <;> cases y <;> rfl

/-- NULL equals only NULL; values of different kinds are never equal -/
theorem relSem_eq_kinds :
    relSem .eq (.val .null) (.val .null) = .val (.bool true) ∧
    (∀ n, relSem .eq (.val .null) (.val (.int n)) = .val (.bool false)) ∧
    (∀ b, relSem .eq (.val .null) (.val (.bool b)) = .val (.bool false)) ∧
    (∀ b n, relSem .eq (.val (.bool b)) (.val (.int n)) = .val (.bool false)) :=
  ⟨rfl, fun _ => rfl, fun _ => rfl, fun _ _ => rfl⟩

/-! ## 4. from the source text -/

/-- the scanner turns the text `src` into tokens spelled like the rendering of `e` -/
def ScanSpells (src : List Char) (file : String) (e : E) : Prop :=
  ∃ ts, Lexer.scan src file = .ok ts ∧ ts.map sp = C02P.render e

/-- **`interpret_source`.**  `Interpreter.interpret(src)` — scan, parse, evaluate (`C14X.interpretSource`) —
    of any text that scans to tokens spelled `render e` gives `denote d0 ρ e`, in the unchanged state. -/
theorem interpret_source (ld : Loader) (d0 : Option V) (ρ : Valuation) (s : State) (env : EnvId)
    (hops : OpsBound s env) (hd : Div0 s env d0) (src : List Char) (file : String) (e : E)
    (hsrc : ScanSpells src file e) (hb : ∀ x ∈ idents e, Bound ld s env ρ x) (fuel : Nat) (hf : need e ≤ fuel) :
    Is (C14X.interpretSource ld fuel env src file s) (denote d0 ρ e) s := by
  obtain ⟨ts, hscan, hts⟩ := hsrc
  obtain ⟨n, hp, h⟩ := interpret_expression ld d0 ρ s env hops hd file e ts hts hb
  have hps : parseScript src file = .ok n := by
    simp only [parseScript, parseScriptWith, hscan, bind, Except.bind]
    exact hp
  simp only [C14X.interpretSource, hps]
  exact (h fuel hf).2

/-- Boolean checker for `ScanSpells` on a concrete text (run by the kernel: the scanner is a fold) -/
def scanSpellsB (src : List Char) (file : String) (sps : List Sp) : Bool :=
  match Lexer.scan src file with
  | .ok ts => ts.map sp == sps
  | .error _ => false

theorem scanSpells_of_B {src : List Char} {file : String} {e : E} (h : scanSpellsB src file (C02P.render e) = true) :
    ScanSpells src file e := by
  unfold scanSpellsB at h
  split at h
  · rename_i ts hs; exact ⟨ts, hs, by simpa using h⟩
  · cases h

/-- **`interpret_source_canonical`** — from source text, for ALL expressions: the canonical spelling of `e`
    (`spell (render e)`: every token of the rendering followed by one blank) is scanned, parsed and evaluated to
    `denote d0 ρ e`, provided the atoms of `e` are scannable (`AtomsOK`: identifiers are words that are not
    keywords, numerals consist of decimal digits). -/
theorem interpret_source_canonical (ld : Loader) (d0 : Option V) (ρ : Valuation) (s : State) (env : EnvId)
    (hops : OpsBound s env) (hd : Div0 s env d0) (file : String) (e : E) (hat : AtomsOK e)
    (hb : ∀ x ∈ idents e, Bound ld s env ρ x) (fuel : Nat) (hf : need e ≤ fuel) :
    Is (C14X.interpretSource ld fuel env (spell (C02P.render e)) file s) (denote d0 ρ e) s :=
  interpret_source ld d0 ρ s env hops hd _ file e (scan_render file e hat) hb fuel hf

/-! ## 5. non-vacuity: the hypotheses hold in the initial state, and concrete instances -/

/-- the state of a fresh interpreter (`Driver/EvalCmd.lean`): base frame 0 with the built-ins and
    `NULL`, session frame 1 -/
def s0 : State := (initialState true modelledNatives).1
def env0 : EnvId := (initialState true modelledNatives).2

example : env0 = 1 := by decide +kernel

/-- (b) holds in the initial state: the operator names resolve to the built-ins -/
theorem opsBound_s0 : OpsBound s0 env0 := opsBound_of_B (by decide +kernel)
/-- (c) `DIV_0_VALUE` is not defined in the initial state -/
theorem div0_s0 : Div0 s0 env0 none := div0_of_B (by decide +kernel)

/-- the initial state plus three session variables `x = 2^64`, `t = TRUE`, `u = NULL` -/
def sx : State := ((s0.put env0 "x" (.int 18446744073709551616)).put env0 "t" (.bool true)).put env0 "u" .null
/-- … and with `DIV_0_VALUE = 0` configured -/
def sd : State := sx.put env0 "DIV_0_VALUE" (.int 0)

/-- the valuation: `x`, `t`, `u` as above, `NULL` (an ordinary identifier of the base frame) is NULL,
    everything else has no value -/
def ρx : Valuation := fun x =>
  if x = ['x'] then some (.int 18446744073709551616)
  else if x = ['t'] then some (.bool true)
  else if x = ['u'] then some .null
  else if x = ['N', 'U', 'L', 'L'] then some .null
  else none

theorem opsBound_sx : OpsBound sx env0 := opsBound_of_B (by decide +kernel)
theorem div0_sx : Div0 sx env0 none := div0_of_B (by decide +kernel)
theorem opsBound_sd : OpsBound sd env0 := opsBound_of_B (by decide +kernel)
theorem div0_sd : Div0 sd env0 (some (.int 0)) := div0_of_B (by decide +kernel)

/-- (a) for the identifiers used below, among them the unbound `nope` -/
theorem bound_sx : ∀ x ∈ [['x'], ['t'], ['u'], ['N', 'U', 'L', 'L'], ['n', 'o', 'p', 'e']], Bound {} sx env0 ρx x :=
  bound_all_of_B (by decide +kernel)
theorem bound_sd : ∀ x ∈ [['x'], ['t'], ['u'], ['N', 'U', 'L', 'L'], ['n', 'o', 'p', 'e']], Bound {} sd env0 ρx x :=
  bound_all_of_B (by decide +kernel)

def lit (ds : List Char) (n : Nat) (h : parseIntLit ds = some n := by decide +kernel) : E := .atom (.int ds n h)
def X : E := .atom (.ident ['x'])
def two64 : E := lit ['1','8','4','4','6','7','4','4','0','7','3','7','0','9','5','5','1','6','1','6'] 18446744073709551616
def n0 : E := lit ['0'] 0
def n1 : E := lit ['1'] 1
def n2 : E := lit ['2'] 2
def n3 : E := lit ['3'] 3
def n4 : E := lit ['4'] 4
def n7 : E := lit ['7'] 7
def n10 : E := lit ['1', '0'] 10
def TT : E := .atom (.bool true)
def FF : E := .atom (.bool false)

/-- `(2^64 + 1) * (2^64 - 1) / 3 % -7` -/
def bigE : E := .mul .mod (.mul .div (.mul .mul (.add .add two64 n1) (.add .sub two64 n1)) n3) (.neg n7)

example : denote none ρx bigE = .val (.int (-6)) := by decide +kernel
example : need bigE = 17 := by decide

/-- the big-int example through PARSE + EVAL, on explicit tokens with real positions:
    `(18446744073709551616 + 1) * (18446744073709551616 - 1) / 3 % -7` is `-6`
    (`(2^128 − 1) / 3 = 113427455640312821154458202477256070485`, floored modulus by `−7`) -/
def bigToks : List Token :=
  [ipT '(' 1, intT ['1','8','4','4','6','7','4','4','0','7','3','7','0','9','5','5','1','6','1','6'] 2,
   opT ['+'] 23, intT ['1'] 25, ipT ')' 26, opT ['*'] 28,
   ipT '(' 30, intT ['1','8','4','4','6','7','4','4','0','7','3','7','0','9','5','5','1','6','1','6'] 31,
   opT ['-'] 52, intT ['1'] 54, ipT ')' 55, opT ['/'] 57, intT ['3'] 59, opT ['%'] 61, opT ['-'] 63, intT ['7'] 64]

example : ∃ n, parse "f" bigToks = .ok n ∧
    eval {} 17 env0 n s0 = .ok (.int (-6)) s0 ∧ interpretProg {} 17 env0 n s0 = .ok (.int (-6)) s0 := by
  obtain ⟨n, hp, h⟩ := interpret_expression {} none ρx s0 env0 opsBound_s0 div0_s0 "f" bigE bigToks rfl
    (by intro x hx; simp [bigE, idents, two64, n1, n3, n7, lit] at hx)
  exact ⟨n, hp, h 17 (by decide)⟩


/-- … and the same from the SOURCE TEXT, through the scanner -/
example : C14X.interpretSource {} 17 env0 "(18446744073709551616 + 1) * (18446744073709551616 - 1) / 3 % -7".toList "f" s0 =
    .ok (.int (-6)) s0 :=
  interpret_source {} none ρx s0 env0 opsBound_s0 div0_s0 _ "f" bigE (scanSpells_of_B (by decide +kernel))
    (by intro x hx; simp [bigE, idents, two64, n1, n3, n7, lit] at hx) 17 (by decide)

/-- the canonical spelling of the big-int example is `( 18446744073709551616 + 1 ) * ( … - 1 ) / 3 % - 7 ` -/
example : spell (C02P.render (.add .add two64 n1)) = "18446744073709551616 + 1 ".toList := by decide +kernel

theorem atomsOK_bigE : AtomsOK bigE := by
  simp [bigE, AtomsOK, AtomOK, two64, n1, n3, n7, lit, Lexer.digits]

example : C14X.interpretSource {} 17 env0 (spell (C02P.render bigE)) "f" s0 = .ok (.int (-6)) s0 :=
  interpret_source_canonical {} none ρx s0 env0 opsBound_s0 div0_s0 "f" bigE atomsOK_bigE
    (by intro x hx; simp [bigE, idents, two64, n1, n3, n7, lit] at hx) 17 (by decide)

/-- an identifier atom: `x` is a word and not a keyword -/
example : AtomsOK (.mul .mul X X) := by
  refine ⟨⟨'x', [], rfl, by decide, by simp, by decide⟩, ⟨'x', [], rfl, by decide, by simp, by decide⟩⟩

/-- the runtime error `'ERROR'` as an outcome in state `s` -/
def IsError (o : Out RVal) (s : State) : Prop := ∃ msg pos trace, o = .err (.str ['E', 'R', 'R', 'O', 'R']) msg pos trace s

/-- the identifiers that have a binding hypothesis (`bound_sx`, `bound_sd`) -/
def knownIds : List (List Char) := [['x'], ['t'], ['u'], ['N', 'U', 'L', 'L'], ['n', 'o', 'p', 'e']]

/-- scan + parse + eval of a source text in the state `sx` (helpers for the instances below) -/
theorem run_sx (src : String) (e : E) (fuel : Nat) (v : V)
    (hscan : scanSpellsB src.toList "f" (C02P.render e) = true)
    (hid : (idents e).all (fun x => decide (x ∈ knownIds)) = true)
    (hf : need e ≤ fuel) (hr : denote none ρx e = .val v) :
    C14X.interpretSource {} fuel env0 src.toList "f" sx = .ok v.toR sx := by
  have h := interpret_source {} none ρx sx env0 opsBound_sx div0_sx _ "f" e (scanSpells_of_B hscan)
    (fun x hx => bound_sx x (by simpa [knownIds] using List.all_eq_true.1 hid x hx)) fuel hf
  rw [hr] at h; exact h

theorem run_sx_err (src : String) (e : E) (fuel : Nat)
    (hscan : scanSpellsB src.toList "f" (C02P.render e) = true)
    (hid : (idents e).all (fun x => decide (x ∈ knownIds)) = true)
    (hf : need e ≤ fuel) (hr : denote none ρx e = .error) :
    IsError (C14X.interpretSource {} fuel env0 src.toList "f" sx) sx := by
  have h := interpret_source {} none ρx sx env0 opsBound_sx div0_sx _ "f" e (scanSpells_of_B hscan)
    (fun x hx => bound_sx x (by simpa [knownIds] using List.all_eq_true.1 hid x hx)) fuel hf
  rw [hr] at h; exact h

/-- … and in the state `sd` where `DIV_0_VALUE = 0` -/
theorem run_sd (src : String) (e : E) (fuel : Nat) (v : V)
    (hscan : scanSpellsB src.toList "f" (C02P.render e) = true)
    (hid : (idents e).all (fun x => decide (x ∈ knownIds)) = true)
    (hf : need e ≤ fuel) (hr : denote (some (.int 0)) ρx e = .val v) :
    C14X.interpretSource {} fuel env0 src.toList "f" sd = .ok v.toR sd := by
  have h := interpret_source {} (some (.int 0)) ρx sd env0 opsBound_sd div0_sd _ "f" e (scanSpells_of_B hscan)
    (fun x hx => bound_sd x (by simpa [knownIds] using List.all_eq_true.1 hid x hx)) fuel hf
  rw [hr] at h; exact h

theorem run_sd_err (src : String) (e : E) (fuel : Nat)
    (hscan : scanSpellsB src.toList "f" (C02P.render e) = true)
    (hid : (idents e).all (fun x => decide (x ∈ knownIds)) = true)
    (hf : need e ≤ fuel) (hr : denote (some (.int 0)) ρx e = .error) :
    IsError (C14X.interpretSource {} fuel env0 src.toList "f" sd) sd := by
  have h := interpret_source {} (some (.int 0)) ρx sd env0 opsBound_sd div0_sd _ "f" e (scanSpells_of_B hscan)
    (fun x hx => bound_sd x (by simpa [knownIds] using List.all_eq_true.1 hid x hx)) fuel hf
  rw [hr] at h; exact h

/-- exact arithmetic with a variable: `x * x - 1 == (x + 1) * (x - 1)` at `x = 2^64` -/
example : C14X.interpretSource {} 40 env0 "x * x - 1 == (x + 1) * (x - 1)".toList "f" sx = .ok (.bool true) sx :=
  run_sx _ (.cmp (.add .sub (.mul .mul X X) n1) .eq (.mul .mul (.add .add X n1) (.add .sub X n1)) []) 40 (.bool true)
    (by decide +kernel) (by decide +kernel) (by decide) (by decide +kernel)

/-- `x * x` is `2^128` exactly -/
example : C14X.interpretSource {} 40 env0 "x * x".toList "f" sx = .ok (.int 340282366920938463463374607431768211456) sx :=
  run_sx _ (.mul .mul X X) 40 (.int 340282366920938463463374607431768211456) (by decide +kernel) (by decide +kernel) (by decide) (by decide +kernel)

/-- left associativity: `10 - 4 - 3` is `3`, not `9`; `a - (b - c)` needs its parentheses -/
example : C14X.interpretSource {} 40 env0 "10 - 4 - 3".toList "f" sx = .ok (.int 3) sx :=
  run_sx _ (.add .sub (.add .sub n10 n4) n3) 40 (.int 3) (by decide +kernel) (by decide +kernel) (by decide) (by decide +kernel)
example : C14X.interpretSource {} 40 env0 "10 - (4 - 3)".toList "f" sx = .ok (.int 9) sx :=
  run_sx _ (.add .sub n10 (.add .sub n4 n3)) 40 (.int 9) (by decide +kernel) (by decide +kernel) (by decide) (by decide +kernel)

/-- precedence: `1 + 2 * 3` is `7`; `(1 + 2) * 3` is `9`; `-2 * 3 + 10 % 4` is `-4` -/
example : C14X.interpretSource {} 40 env0 "1 + 2 * 3".toList "f" sx = .ok (.int 7) sx :=
  run_sx _ (.add .add n1 (.mul .mul n2 n3)) 40 (.int 7) (by decide +kernel) (by decide +kernel) (by decide) (by decide +kernel)
example : C14X.interpretSource {} 40 env0 "(1 + 2) * 3".toList "f" sx = .ok (.int 9) sx :=
  run_sx _ (.mul .mul (.add .add n1 n2) n3) 40 (.int 9) (by decide +kernel) (by decide +kernel) (by decide) (by decide +kernel)
example : C14X.interpretSource {} 40 env0 "-2 * 3 + 10 % 4".toList "f" sx = .ok (.int (-4)) sx :=
  run_sx _ (.add .add (.mul .mul (.neg n2) n3) (.mul .mod n10 n4)) 40 (.int (-4))
    (by decide +kernel) (by decide +kernel) (by decide) (by decide +kernel)

/-- truncation toward zero and the floored modulus: `-7 / 2 = -3`, `-7 % 2 = 1`, `7 % -2 = -1`, `-x / 3`, `-x % 3` -/
example : C14X.interpretSource {} 40 env0 "-7 / 2".toList "f" sx = .ok (.int (-3)) sx :=
  run_sx _ (.mul .div (.neg n7) n2) 40 (.int (-3)) (by decide +kernel) (by decide +kernel) (by decide) (by decide +kernel)
example : C14X.interpretSource {} 40 env0 "-7 % 2".toList "f" sx = .ok (.int 1) sx :=
  run_sx _ (.mul .mod (.neg n7) n2) 40 (.int 1) (by decide +kernel) (by decide +kernel) (by decide) (by decide +kernel)
example : C14X.interpretSource {} 40 env0 "7 % -2".toList "f" sx = .ok (.int (-1)) sx :=
  run_sx _ (.mul .mod n7 (.neg n2)) 40 (.int (-1)) (by decide +kernel) (by decide +kernel) (by decide) (by decide +kernel)
example : C14X.interpretSource {} 40 env0 "-x / 3".toList "f" sx = .ok (.int (-6148914691236517205)) sx :=
  run_sx _ (.mul .div (.neg X) n3) 40 (.int (-6148914691236517205)) (by decide +kernel) (by decide +kernel) (by decide) (by decide +kernel)
example : C14X.interpretSource {} 40 env0 "-x % 3".toList "f" sx = .ok (.int 2) sx :=
  run_sx _ (.mul .mod (.neg X) n3) 40 (.int 2) (by decide +kernel) (by decide +kernel) (by decide) (by decide +kernel)

/-- short-circuit is visible through errors: `FALSE and (1 / 0 == 1)` is FALSE, `(1 / 0 == 1) and FALSE` is the
    error, `TRUE or nope` is TRUE although `nope` is not defined -/
example : C14X.interpretSource {} 40 env0 "FALSE and (1 / 0 == 1)".toList "f" sx = .ok (.bool false) sx :=
  run_sx _ (.and FF (.paren (.cmp (.mul .div n1 n0) .eq n1 [])) []) 40 (.bool false)
    (by decide +kernel) (by decide +kernel) (by decide) (by decide +kernel)
example : IsError (C14X.interpretSource {} 40 env0 "(1 / 0 == 1) and FALSE".toList "f" sx) sx :=
  run_sx_err _ (.and (.paren (.cmp (.mul .div n1 n0) .eq n1 [])) FF []) 40
    (by decide +kernel) (by decide +kernel) (by decide) (by decide +kernel)
example : C14X.interpretSource {} 40 env0 "TRUE or nope".toList "f" sx = .ok (.bool true) sx :=
  run_sx _ (.or TT (.atom (.ident ['n', 'o', 'p', 'e'])) []) 40 (.bool true)
    (by decide +kernel) (by decide +kernel) (by decide) (by decide +kernel)
example : IsError (C14X.interpretSource {} 40 env0 "nope or TRUE".toList "f" sx) sx :=
  run_sx_err _ (.or (.atom (.ident ['n', 'o', 'p', 'e'])) TT []) 40
    (by decide +kernel) (by decide +kernel) (by decide) (by decide +kernel)

/-- `and` / `or` / `not` accept only booleans -/
example : IsError (C14X.interpretSource {} 40 env0 "1 and TRUE".toList "f" sx) sx :=
  run_sx_err _ (.and n1 TT []) 40 (by decide +kernel) (by decide +kernel) (by decide) (by decide +kernel)
example : IsError (C14X.interpretSource {} 40 env0 "TRUE and 1".toList "f" sx) sx :=
  run_sx_err _ (.and TT n1 []) 40 (by decide +kernel) (by decide +kernel) (by decide) (by decide +kernel)
example : IsError (C14X.interpretSource {} 40 env0 "t and u".toList "f" sx) sx :=
  run_sx_err _ (.and (.atom (.ident ['t'])) (.atom (.ident ['u'])) []) 40
    (by decide +kernel) (by decide +kernel) (by decide) (by decide +kernel)
example : IsError (C14X.interpretSource {} 40 env0 "not 0".toList "f" sx) sx :=
  run_sx_err _ (.not n0) 40 (by decide +kernel) (by decide +kernel) (by decide) (by decide +kernel)

/-- division / modulo by zero: the runtime error; with `DIV_0_VALUE = 0` configured `x / 0` is `0` and `x % 0`
    is still the error -/
example : IsError (C14X.interpretSource {} 40 env0 "x / 0".toList "f" sx) sx :=
  run_sx_err _ (.mul .div X n0) 40 (by decide +kernel) (by decide +kernel) (by decide) (by decide +kernel)
example : IsError (C14X.interpretSource {} 40 env0 "x % 0".toList "f" sx) sx :=
  run_sx_err _ (.mul .mod X n0) 40 (by decide +kernel) (by decide +kernel) (by decide) (by decide +kernel)
example : C14X.interpretSource {} 40 env0 "x / 0 + 1".toList "f" sd = .ok (.int 1) sd :=
  run_sd _ (.add .add (.mul .div X n0) n1) 40 (.int 1) (by decide +kernel) (by decide +kernel) (by decide) (by decide +kernel)
example : IsError (C14X.interpretSource {} 40 env0 "x % 0".toList "f" sd) sd :=
  run_sd_err _ (.mul .mod X n0) 40 (by decide +kernel) (by decide +kernel) (by decide) (by decide +kernel)

/-- NULL: `NULL + 1`, `x * u`, `NULL / 0`, `u % TRUE` are NULL; `TRUE + 1` is the error; `NULL + 1 / 0` is the error
    (both operands are evaluated before the NULL test) -/
example : C14X.interpretSource {} 40 env0 "NULL + 1".toList "f" sx = .ok .null sx :=
  run_sx _ (.add .add (.atom (.ident ['N', 'U', 'L', 'L'])) n1) 40 .null
    (by decide +kernel) (by decide +kernel) (by decide) (by decide +kernel)
example : C14X.interpretSource {} 40 env0 "x * u".toList "f" sx = .ok .null sx :=
  run_sx _ (.mul .mul X (.atom (.ident ['u']))) 40 .null (by decide +kernel) (by decide +kernel) (by decide) (by decide +kernel)
example : C14X.interpretSource {} 40 env0 "NULL / 0".toList "f" sx = .ok .null sx :=
  run_sx _ (.mul .div (.atom (.ident ['N', 'U', 'L', 'L'])) n0) 40 .null
    (by decide +kernel) (by decide +kernel) (by decide) (by decide +kernel)
example : C14X.interpretSource {} 40 env0 "u % TRUE".toList "f" sx = .ok .null sx :=
  run_sx _ (.mul .mod (.atom (.ident ['u'])) TT) 40 .null (by decide +kernel) (by decide +kernel) (by decide) (by decide +kernel)
example : IsError (C14X.interpretSource {} 40 env0 "TRUE + 1".toList "f" sx) sx :=
  run_sx_err _ (.add .add TT n1) 40 (by decide +kernel) (by decide +kernel) (by decide) (by decide +kernel)
example : IsError (C14X.interpretSource {} 40 env0 "NULL + 1 / 0".toList "f" sx) sx :=
  run_sx_err _ (.add .add (.atom (.ident ['N', 'U', 'L', 'L'])) (.mul .div n1 n0)) 40
    (by decide +kernel) (by decide +kernel) (by decide) (by decide +kernel)

/-- chains: `1 < 2 <= 2` is TRUE; `3 < 2 <= 1 / 0` is FALSE (the second pair is not evaluated); `1 < 2 <= 1 / 0` is
    the error; `1 < x != x + 1 > 7` has three pairs -/
example : C14X.interpretSource {} 40 env0 "1 < 2 <= 2".toList "f" sx = .ok (.bool true) sx :=
  run_sx _ (.cmp n1 .lt n2 [(.le, n2)]) 40 (.bool true) (by decide +kernel) (by decide +kernel) (by decide) (by decide +kernel)
example : C14X.interpretSource {} 40 env0 "3 < 2 <= 1 / 0".toList "f" sx = .ok (.bool false) sx :=
  run_sx _ (.cmp n3 .lt n2 [(.le, .mul .div n1 n0)]) 40 (.bool false)
    (by decide +kernel) (by decide +kernel) (by decide) (by decide +kernel)
example : IsError (C14X.interpretSource {} 40 env0 "1 < 2 <= 1 / 0".toList "f" sx) sx :=
  run_sx_err _ (.cmp n1 .lt n2 [(.le, .mul .div n1 n0)]) 40
    (by decide +kernel) (by decide +kernel) (by decide) (by decide +kernel)
example : C14X.interpretSource {} 40 env0 "1 < x != x + 1 > 7".toList "f" sx = .ok (.bool true) sx :=
  run_sx _ (.cmp n1 .lt X [(.ne, .add .add X n1), (.gt, n7)]) 40 (.bool true)
    (by decide +kernel) (by decide +kernel) (by decide) (by decide +kernel)

/-- `not` below `or`, `and` below `or`, comparison below `not`: `not 1 == 2 or FALSE and nope` is TRUE -/
example : C14X.interpretSource {} 40 env0 "not 1 == 2 or FALSE and nope".toList "f" sx = .ok (.bool true) sx :=
  run_sx _ (.or (.not (.cmp n1 .eq n2 [])) (.and FF (.atom (.ident ['n', 'o', 'p', 'e'])) []) []) 40 (.bool true)
    (by decide +kernel) (by decide +kernel) (by decide) (by decide +kernel)

/-- comparisons across kinds: `NULL == 0` is FALSE, `TRUE != 1` is TRUE; the order across kinds is the order of
    the texts: `1 < TRUE` (`'1' < 'T'`), `x < NULL` (`'1…' < 'N'`) -/
example : C14X.interpretSource {} 40 env0 "NULL == 0 or TRUE != 1 and 1 < TRUE and x < NULL".toList "f" sx =
    .ok (.bool true) sx :=
  run_sx _ (.or (.cmp (.atom (.ident ['N', 'U', 'L', 'L'])) .eq n0 [])
      (.and (.cmp TT .ne n1 []) (.cmp n1 .lt TT []) [.cmp X .lt (.atom (.ident ['N', 'U', 'L', 'L'])) []]) []) 40 (.bool true)
    (by decide +kernel) (by decide +kernel) (by decide) (by decide +kernel)

/-! the executable model agrees (run by `#guard`, not proofs): scanner + parser + evaluator on source texts -/

#guard (match C14X.interpretSource {} 100 env0 "(18446744073709551616 + 1) * (18446744073709551616 - 1) / 3 % -7".toList "f" s0 with
  | .ok (.int n) _ => n == -6 | _ => false)
#guard (match C14X.interpretSource {} 100 env0 "(18446744073709551616 + 1) * (18446744073709551616 - 1) / 3".toList "f" s0 with
  | .ok (.int n) _ => n == 113427455640312821154458202477256070485 | _ => false)
#guard (match C14X.interpretSource {} 100 env0 "FALSE and (1 / 0 == 1)".toList "f" s0 with
  | .ok (.bool b) _ => b == false | _ => false)
#guard (match C14X.interpretSource {} 100 env0 "(1 / 0 == 1) and FALSE".toList "f" s0 with
  | .err (.str v) _ _ _ _ => v == "ERROR".toList | _ => false)
#guard (match C14X.interpretSource {} 100 env0 "1 and TRUE".toList "f" s0 with
  | .err (.str v) _ _ _ _ => v == "ERROR".toList | _ => false)

/-! ## 6. extras -/

/-- **short-circuit at the level of ASTs**: behind a FALSE clause of `and` (a TRUE clause of `or`) may stand ANY
    nodes — with side effects, non-terminating, unsupported — they are not evaluated: no hypothesis on them, on the
    state or on the loader is needed, and three units of fuel suffice -/
theorem and_short_circuits_any (ld : Loader) (F : Nat) (env : EnvId) (p pos : Pos) (rest : List Node) (s : State) :
    eval ld (F + 3) env (.and (.lit (.bool false) p :: rest) pos) s = .ok (.bool false) s := by
  rw [eval_and_node, evalAnd, EvalM.bind_apply, eval]; rfl

theorem or_short_circuits_any (ld : Loader) (F : Nat) (env : EnvId) (p pos : Pos) (rest : List Node) (s : State) :
    eval ld (F + 3) env (.or (.lit (.bool true) p :: rest) pos) s = .ok (.bool true) s := by
  rw [eval_or_node, evalOr, EvalM.bind_apply, eval]; rfl

example : eval {} 3 env0 (.and [.lit (.bool false) {}, .while (.lit (.bool true) {}) (.lit (.int 1) {}) {}] {}) s0 =
    .ok (.bool false) s0 := and_short_circuits_any {} 0 env0 {} {} _ s0

/-- hypothesis (b) is needed: where `add` is shadowed by a user variable, `1 + 2` is not `3` but the runtime error
    ("Expected def but got int") — `+` is resolved through the environment at run time -/
def sShadow : State := s0.put env0 "add" (.int 5)

example : denote none ρx (.add .add n1 n2) = .val (.int 3) ∧
    IsError (eval {} 5 env0 (toNode (.add .add n1 n2)) sShadow) sShadow := by
  refine ⟨rfl, ?_⟩
  have h : sShadow.lookup env0 "add" = some (.int 5) := by
    exact isV_spec (o := sShadow.lookup env0 "add") (v := some (.int 5)) (by decide +kernel)
  show IsError (eval {} 5 env0 (.call (.ident "add" default) [some "a", some "b"] [toNode n1, toNode n2] default) sShadow) sShadow
  rw [eval, EvalM.bind_apply, eval_ident_some {} h]
  exact ⟨_, _, _, rfl⟩

end Ckl.C02S
