import CklVerif.Lemmas.C19SrcAppend
import CklVerif.Model.Lib

/-!
  C19Src — set.ckl, part 1: scalar data values as runtime values (`liftV`), the state-independent meaning of `rveq` / `memR` /
  `setAdd` / `sortedR` on them (connection to the mirrors `Lib.setAdd`, `memV`, `sortedItems` of Model/Lib.lean / Model/Coll.lean),
  collections as arguments (`Coll`: a list cell or a set cell together with its ENUMERATION).
-/
namespace Ckl.C19Src
open Ckl Ckl.C03

/-! ### scalar data values -/

/-- a data value without sub-values: NULL, boolean, int, decimal, string, pattern, date -/
def ScalarV : Val → Prop
  | .list _ | .set _ | .map _ => False
  | _ => True

instance : DecidablePred ScalarV := fun v => by cases v <;> unfold ScalarV <;> infer_instance

/-- the runtime value of a scalar data value (the container constructors are never lifted: every statement using `liftV`
    carries `ScalarV`) -/
def liftV : Val → RVal
  | .null => .null
  | .bool b => .bool b
  | .int n => .int n
  | .dec m e => .dec m e
  | .str t => .str t
  | .pat t => .pat t
  | .date d => .date d
  | .list _ | .set _ | .map _ => .null

def ScalarL (vs : List Val) : Prop := ∀ v ∈ vs, ScalarV v

theorem ScalarL.nil : ScalarL [] := fun _ h => by cases h

theorem ScalarL.append {a b : List Val} (ha : ScalarL a) (hb : ScalarL b) : ScalarL (a ++ b) := by
  intro v hv; rcases List.mem_append.mp hv with h | h
  · exact ha v h
  · exact hb v h

theorem ScalarL.sub {a b : List Val} (hb : ScalarL b) (h : ∀ v ∈ a, v ∈ b) : ScalarL a := fun v hv => hb v (h v hv)

theorem reify_liftV (s : State) {v : Val} (h : ScalarV v) : reify s (liftV v) = some v := by
  cases v with
  | list _ | set _ | map _ => exact False.elim h
  | _ => rfl

theorem rveq_liftV (s : State) {a b : Val} (ha : ScalarV a) (hb : ScalarV b) :
    rveq s (liftV a) (liftV b) = veq a b := by
  unfold rveq
  cases a with
  | list _ | set _ | map _ => exact False.elim ha
  | _ =>
    cases b with
    | list _ | set _ | map _ => exact False.elim hb
    | _ => simp [liftV, rveqF, veq]

theorem memR_liftV (s : State) {x : Val} {vs : List Val} (hx : ScalarV x) (hvs : ScalarL vs) :
    memR s (liftV x) (vs.map liftV) = memV x vs := by
  unfold memR memV
  induction vs with
  | nil => rfl
  | cons v vs ih =>
    simp only [List.map_cons, List.any_cons]
    rw [rveq_liftV s hx (hvs v (by simp)), ih (fun w hw => hvs w (by simp [hw]))]

theorem setAdd_liftV (s : State) {x : Val} {vs : List Val} (hx : ScalarV x) (hvs : ScalarL vs) :
    setAdd s (liftV x) (vs.map liftV) = (Lib.setAdd vs x).map liftV := by
  unfold setAdd Lib.setAdd
  rw [memR_liftV s hx hvs]
  cases memV x vs <;> simp

theorem scalarL_setAdd {x : Val} {vs : List Val} (hx : ScalarV x) (hvs : ScalarL vs) : ScalarL (Lib.setAdd vs x) := by
  unfold Lib.setAdd
  split
  · exact hvs
  · exact hvs.append (fun v hv => by simp at hv; subst hv; exact hx)

/-! ### the enumeration order of a set of scalars -/

theorem insertBy_map {α β} (lt : β → β → Bool) (g : α → β) (x : α) (xs : List α) :
    (insertBy (fun a b => lt (g a) (g b)) x xs).map g = insertBy lt (g x) (xs.map g) := by
  induction xs with
  | nil => rfl
  | cons y ys ih =>
    simp only [insertBy, List.map_cons]
    split
    · rfl
    · simp [ih]

theorem sortBy_map {α β} (lt : β → β → Bool) (g : α → β) (xs : List α) :
    (sortBy (fun a b => lt (g a) (g b)) xs).map g = sortBy lt (xs.map g) := by
  induction xs with
  | nil => rfl
  | cons y ys ih => simp only [sortBy, List.map_cons]; rw [insertBy_map, ih]

theorem mem_insertBy {α} (lt : α → α → Bool) (x y : α) (xs : List α) : y ∈ insertBy lt x xs ↔ y = x ∨ y ∈ xs := by
  induction xs with
  | nil => simp [insertBy]
  | cons z zs ih =>
    simp only [insertBy]
    split
    · simp
    · simp only [List.mem_cons, ih]
      constructor
      · rintro (h | h | h)
        · exact Or.inr (Or.inl h)
        · exact Or.inl h
        · exact Or.inr (Or.inr h)
      · rintro (h | h | h)
        · exact Or.inr (Or.inl h)
        · exact Or.inl h
        · exact Or.inr (Or.inr h)

theorem mem_sortBy {α} (lt : α → α → Bool) (y : α) (xs : List α) : y ∈ sortBy lt xs ↔ y ∈ xs := by
  induction xs with
  | nil => simp [sortBy]
  | cons z zs ih => simp [sortBy, mem_insertBy, ih]

theorem scalarL_sortedItems {vs : List Val} (h : ScalarL vs) : ScalarL (sortedItems decRepr vs) :=
  fun v hv => h v ((mem_sortBy _ v vs).mp hv)

theorem mapM_reify_liftV (s : State) {vs : List Val} (h : ScalarL vs) :
    (vs.map liftV).mapM (fun x => do let v ← reify s x; pure (v, x)) = some (vs.map (fun v => (v, liftV v))) := by
  induction vs with
  | nil => rfl
  | cons v vs ih =>
    rw [List.map_cons, List.mapM_cons, reify_liftV s (h v (by simp)), ih (fun w hw => h w (by simp [hw]))]
    rfl

/-- **`sorted(set)` on scalars is the mirror's enumeration order `sortedItems`** -/
theorem sortedR_liftV (s : State) {vs : List Val} (h : ScalarL vs) :
    sortedR s (vs.map liftV) = some ((sortedItems decRepr vs).map liftV) := by
  unfold sortedR
  rw [mapM_reify_liftV s h]
  show some _ = some _
  congr 1
  have h1 := sortBy_map (α := Val) (β := Val × RVal) (fun a b => vlt a.1 b.1) (fun v => (v, liftV v)) vs
  simp only [] at h1
  rw [← h1, List.map_map]
  unfold sortedItems
  rfl

/-! ### collections as arguments -/

/-- the value `v` is a reference to a list cell or a set cell of scalars, and `en` is its ENUMERATION (what `for x in v` and
    `list(v)` visit): the items of the list in order; the elements of the set in sorted order -/
def Coll (s : State) (v : RVal) (en : List Val) : Prop :=
  ScalarL en ∧ ∃ a, v = .ref a ∧
    (s.cell a = some (.list (en.map liftV)) ∨
     ∃ els, ScalarL els ∧ s.cell a = some (.set (els.map liftV)) ∧ en = sortedItems decRepr els)

theorem Coll.ext {s s' v en} (h : Coll s v en) (e : Ext s s') : Coll s' v en := by
  obtain ⟨hs, a, rfl, h⟩ := h
  refine ⟨hs, a, rfl, ?_⟩
  rcases h with h | ⟨els, h1, h2, h3⟩
  · left; rw [e.cell a (cell_lt h)]; exact h
  · right; exact ⟨els, h1, by rw [e.cell a (cell_lt h2)]; exact h2, h3⟩

theorem Coll.ofList {s : State} {a : Nat} {en : List Val} (hs : ScalarL en) (h : s.cell a = some (.list (en.map liftV))) :
    Coll s (.ref a) en := ⟨hs, a, rfl, Or.inl h⟩

theorem Coll.ofSet {s : State} {a : Nat} {els : List Val} (hs : ScalarL els) (h : s.cell a = some (.set (els.map liftV))) :
    Coll s (.ref a) (sortedItems decRepr els) := ⟨scalarL_sortedItems hs, a, rfl, Or.inr ⟨els, hs, h, rfl⟩⟩

end Ckl.C19Src
