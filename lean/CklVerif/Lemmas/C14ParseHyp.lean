/-
  C14 / C20 (parser half) — the induction hypothesis of the simulation proof.

  `Hyp f k` says: every production of the parser is equivariant under the position renaming `f`
  on all lexer states whose measure `16 * (remaining tokens) + rank` is below `k` (the parser's
  own termination measure `(remaining tokens, rank)`, flattened).
-/
import CklVerif.Lemmas.C14ParseHelpers2
namespace Ckl.C14P
open Ckl Ckl.Parser

/-! ### value relations -/

@[reducible] def NNR (f : Pos → Pos) (a a' : Node × Node) : Prop := a' = (mapPos f a.1, mapPos f a.2)
@[reducible] def LLR (f : Pos → Pos) (a a' : List Node × List Node) : Prop := a' = (mapPosL f a.1, mapPosL f a.2)
@[reducible] def XLR {X : Type} (f : Pos → Pos) (a a' : X × List Node) : Prop := a' = (a.1, mapPosL f a.2)
@[reducible] def NBR (f : Pos → Pos) (a a' : Node × Bool) : Prop := a' = (mapPos f a.1, a.2)
@[reducible] def CCR (f : Pos → Pos) (a a' : String × Option String × Node) : Prop :=
  a' = (a.1, a.2.1, mapPos f a.2.2)


/-- the node constructor handed to `comprFinish` commutes with the renaming -/
def MkR (f : Pos → Pos) (mk mk' : Node → Node) : Prop := ∀ n, mk' (mapPos f n) = mapPos f (mk n)

theorem matchIf_guard_cases {f : Pos → Pos} (b : Bool) {s s' : St} (h : SRel f s s') (v : List Char)
    (ty : Option TokType) :
    ((if b then s.matchIf v ty else none) = none ∧ (if b then s'.matchIf v ty else none) = none) ∨
    (∃ a a', (if b then s.matchIf v ty else none) = some a ∧ (if b then s'.matchIf v ty else none) = some a' ∧
      SRel f a.1 a'.1) := by
  cases b
  · exact Or.inl ⟨rfl, rfl⟩
  · exact matchIf_cases h v ty

theorem matchIf2_guard_cases {f : Pos → Pos} (b : Bool) {s s' : St} (h : SRel f s s') (v : List Char)
    (ty : Option TokType) (v2 : List Char) (ty2 : Option TokType) :
    ((if b then s.matchIf2 v ty v2 ty2 else none) = none ∧ (if b then s'.matchIf2 v ty v2 ty2 else none) = none) ∨
    (∃ a a', (if b then s.matchIf2 v ty v2 ty2 else none) = some a ∧
      (if b then s'.matchIf2 v ty v2 ty2 else none) = some a' ∧ SRel f a.1 a'.1) := by
  cases b
  · exact Or.inl ⟨rfl, rfl⟩
  · exact matchIf2_cases h v ty v2 ty2

theorem mkAssign_rel' {f : Pos → Pos} {e e' : Node} (name : List Char) (p : Pos) (he : NR f e e') :
    ERel f (NR f) (mkAssign name e p) (mkAssign name e' (f p)) := by
  subst he; exact mkAssign_rel f name e p

theorem mkAssignD_rel' {f : Pos → Pos} {e e' : Node} (names : List String) (p : Pos) (he : NR f e e') :
    ERel f (NR f) (mkAssignD names e p) (mkAssignD names e' (f p)) := by
  subst he; exact mkAssignD_rel f names e p

/-! ### tactic abbreviations for the simulation proofs -/

/-- case split on `matchIf` in both runs at once -/
macro "mif " hs:term:max v:term:max ty:term:max " with " s1:ident h1:ident s1':ident h1':ident hs1:ident : tactic =>
  `(tactic| rcases matchIf_cases $hs $v $ty with
      ⟨e1, e2⟩ | ⟨⟨$s1:ident, $h1:ident⟩, ⟨$s1':ident, $h1':ident⟩, e1, e2, $hs1:ident⟩ <;> rw [e1, e2] <;>
      (try dsimp only at $hs1:ident) <;> (try dsimp only))

macro "mif2 " hs:term:max v:term:max ty:term:max v2:term:max ty2:term:max " with "
    s1:ident h1:ident s1':ident h1':ident hs1:ident : tactic =>
  `(tactic| rcases matchIf2_cases $hs $v $ty $v2 $ty2 with
      ⟨e1, e2⟩ | ⟨⟨$s1:ident, $h1:ident⟩, ⟨$s1':ident, $h1':ident⟩, e1, e2, $hs1:ident⟩ <;> rw [e1, e2] <;>
      (try dsimp only at $hs1:ident) <;> (try dsimp only))

/-- case split on a table of `matchIf` alternatives (`matchOpTable`, `isPredTable`, …) -/
macro "mtab " t:term:max " with " fn:ident s1:ident h1:ident s1':ident h1':ident hs1:ident : tactic =>
  `(tactic| rcases ($t) with
      ⟨e1, e2⟩ | ⟨$fn:ident, ⟨$s1:ident, $h1:ident⟩, ⟨$s1':ident, $h1':ident⟩, e1, e2, $hs1:ident⟩ <;> rw [e1, e2] <;>
      (try dsimp only at $hs1:ident) <;> (try dsimp only))

/-- decide an `if` whose (Boolean) condition is the same in both runs: first goal `true`, second `false` -/
macro "bif " hb:ident " : " c:term : tactic =>
  `(tactic| by_cases $hb:ident : ($c : Bool) = true <;> simp only [$hb:ident, if_true, if_false, Bool.false_eq_true])

/-- one monadic step of a production returning `OutLt` / `OutLe` with a value related by equality-like `NR`/`LR`/… -/
macro "ebind " t:term:max " with " e:ident s1:ident h1:ident s1':ident h1':ident hs1:ident : tactic =>
  `(tactic| (refine ERel.bind $t ?_
             rintro ⟨$e:ident, $s1:ident, $h1:ident⟩ ⟨e', $s1':ident, $h1':ident⟩ ⟨he, $hs1:ident⟩
             dsimp only at he
             subst e'
             (try dsimp only at $hs1:ident)
             (try dsimp only)))

/-- `ebind` for a production returning a pair -/
macro "ebind2 " t:term:max " with " a:ident b:ident s1:ident h1:ident s1':ident h1':ident hs1:ident : tactic =>
  `(tactic| (refine ERel.bind $t ?_
             rintro ⟨⟨$a:ident, $b:ident⟩, $s1:ident, $h1:ident⟩ ⟨e', $s1':ident, $h1':ident⟩ ⟨he, $hs1:ident⟩
             dsimp only at he
             subst e'
             (try dsimp only at $hs1:ident)
             (try dsimp only)))

/-- `ebind` where the relatedness of the first step is left as the first goal -/
macro "ebindr " r:term:max " with " e:ident s1:ident h1:ident s1':ident h1':ident hs1:ident : tactic =>
  `(tactic| (refine ERel.bind (r := $r) ?_ ?_
             rotate_left
             rintro ⟨$e:ident, $s1:ident, $h1:ident⟩ ⟨e', $s1':ident, $h1':ident⟩ ⟨he, $hs1:ident⟩
             dsimp only at he
             subst e'
             (try dsimp only at $hs1:ident)
             (try dsimp only)
             rotate_left))

/-- `mif` for `if b then st.matchIf v ty else none` -/
macro "mifg " b:term:max hs:term:max v:term:max ty:term:max " with "
    s1:ident h1:ident s1':ident h1':ident hs1:ident : tactic =>
  `(tactic| rcases matchIf_guard_cases $b $hs $v $ty with
      ⟨e1, e2⟩ | ⟨⟨$s1:ident, $h1:ident⟩, ⟨$s1':ident, $h1':ident⟩, e1, e2, $hs1:ident⟩ <;> rw [e1, e2] <;>
      (try dsimp only at $hs1:ident) <;> (try dsimp only))

macro "mifg2 " b:term:max hs:term:max v:term:max ty:term:max v2:term:max ty2:term:max " with "
    s1:ident h1:ident s1':ident h1':ident hs1:ident : tactic =>
  `(tactic| rcases matchIf2_guard_cases $b $hs $v $ty $v2 $ty2 with
      ⟨e1, e2⟩ | ⟨⟨$s1:ident, $h1:ident⟩, ⟨$s1':ident, $h1':ident⟩, e1, e2, $hs1:ident⟩ <;> rw [e1, e2] <;>
      (try dsimp only at $hs1:ident) <;> (try dsimp only))

/-- destructure `matchWhat` in both runs -/
macro "mwhat " hs:term:max " with " w:ident s1:ident h1:ident s1':ident h1':ident hs1:ident : tactic =>
  `(tactic| (obtain ⟨hw, $hs1:ident⟩ := matchWhat_rel $hs
             revert hw $hs1:ident
             generalize matchWhat _ = mw
             generalize matchWhat _ = mw'
             obtain ⟨$w:ident, $s1:ident, $h1:ident⟩ := mw
             obtain ⟨w', $s1':ident, $h1':ident⟩ := mw'
             intro hw $hs1:ident
             dsimp only at hw $hs1:ident
             subst w'
             (try dsimp only)))

/-- destructure `takeComment` in both runs -/
macro "mcomment " hs:term:max " with " w:ident s1:ident h1:ident s1':ident h1':ident hs1:ident : tactic =>
  `(tactic| (obtain ⟨hw, $hs1:ident⟩ := takeComment_rel $hs
             revert hw $hs1:ident
             generalize takeComment _ = mw
             generalize takeComment _ = mw'
             obtain ⟨$w:ident, $s1:ident, $h1:ident⟩ := mw
             obtain ⟨w', $s1':ident, $h1':ident⟩ := mw'
             intro hw $hs1:ident
             dsimp only at hw $hs1:ident
             subst w'
             (try dsimp only)))

/-- destructure `skipIf` in both runs -/
macro "mskip " hs:term:max v:term:max ty:term:max " with " s1:ident h1:ident s1':ident h1':ident hs1:ident : tactic =>
  `(tactic| (have $hs1:ident := skipIf_rel $hs $v $ty
             revert $hs1:ident
             generalize St.skipIf _ _ _ = mw
             generalize St.skipIf _ _ _ = mw'
             obtain ⟨$s1:ident, $h1:ident⟩ := mw
             obtain ⟨$s1':ident, $h1':ident⟩ := mw'
             intro $hs1:ident
             dsimp only at $hs1:ident
             (try dsimp only)))

/-- one monadic step of a helper returning a lexer state in a subtype (`expect`, `sepUnless`) -/
macro "sbind " t:term:max " with " s1:ident h1:ident s1':ident h1':ident hs1:ident : tactic =>
  `(tactic| (refine ERel.bind $t ?_
             rintro ⟨$s1:ident, $h1:ident⟩ ⟨$s1':ident, $h1':ident⟩ $hs1:ident
             (try dsimp only [SSub] at $hs1:ident)
             (try dsimp only)))

structure Hyp (f : Pos → Pos) (k : Nat) : Prop where
  pBareBlock : ∀ {c c' : Ctx} {st st' : St} (tl : Bool), CRel f c c' → SRel f st st' →
    st.toks.length * 16 + 12 < k → ERel f (OLt f (NR f)) (pBareBlock c tl st) (pBareBlock c' tl st')
  bareLoop : ∀ {c c' : Ctx} {st st' : St} {acc acc' : List Node}, CRel f c c' → SRel f st st' → LR f acc acc' →
    st.toks.length * 16 + 0 < k → ERel f (OLe f (LR f)) (bareLoop c st acc) (bareLoop c' st' acc')
  pBlock : ∀ {c c' : Ctx} {st st' : St}, CRel f c c' → SRel f st st' →
    st.toks.length * 16 + 0 < k → ERel f (OLt f (NR f)) (pBlock c st) (pBlock c' st')
  blockLoop : ∀ {c c' : Ctx} {st st' : St} {acc acc' : List Node}, CRel f c c' → SRel f st st' → LR f acc acc' →
    st.toks.length * 16 + 12 < k → ERel f (OLe f (LR f)) (blockLoop c st acc) (blockLoop c' st' acc')
  catchLoop : ∀ {c c' : Ctx} {st st' : St} {e e' h h' : List Node}, CRel f c c' → SRel f st st' →
    LR f e e' → LR f h h' →
    st.toks.length * 16 + 0 < k → ERel f (OLe f (LLR f)) (catchLoop c st e h) (catchLoop c' st' e' h')
  finallyLoop : ∀ {c c' : Ctx} {st st' : St} {acc acc' : List Node}, CRel f c c' → SRel f st st' → LR f acc acc' →
    st.toks.length * 16 + 12 < k → ERel f (OLe f (LR f)) (finallyLoop c st acc) (finallyLoop c' st' acc')
  pStatement : ∀ {c c' : Ctx} {st st' : St}, CRel f c c' → SRel f st st' →
    st.toks.length * 16 + 11 < k → ERel f (OLt f (NR f)) (pStatement c st) (pStatement c' st')
  pDef : ∀ {c c' : Ctx} {st st' : St} (comment : String), CRel f c c' → SRel f st st' →
    st.toks.length * 16 + 0 < k → ERel f (OLt f (NR f)) (pDef c comment st) (pDef c' comment st')
  pDefTail : ∀ {c c' : Ctx} {st st' : St} (name : List Char) (comment : String) (pos : Pos),
    CRel f c c' → SRel f st st' → st.toks.length * 16 + 1 < k →
    ERel f (OLt f (NR f)) (pDefTail c name comment pos st) (pDefTail c' name comment (f pos) st')
  classLoop : ∀ {c c' : Ctx} {st st' : St} {acc acc' : List Node} (comment : String), CRel f c c' → SRel f st st' →
    LR f acc acc' → st.toks.length * 16 + 0 < k →
    ERel f (OLe f (LR f)) (classLoop c comment st acc) (classLoop c' comment st' acc')
  pExpression : ∀ {c c' : Ctx} {st st' : St}, CRel f c c' → SRel f st st' →
    st.toks.length * 16 + 10 < k → ERel f (OLt f (NR f)) (pExpression c st) (pExpression c' st')
  ifClause : ∀ {c c' : Ctx} {st st' : St}, CRel f c c' → SRel f st st' →
    st.toks.length * 16 + 10 < k → ERel f (OLt f (NNR f)) (ifClause c st) (ifClause c' st')
  ifLoop : ∀ {c c' : Ctx} {st st' : St} {cs cs' es es' : List Node}, CRel f c c' → SRel f st st' →
    LR f cs cs' → LR f es es' →
    st.toks.length * 16 + 0 < k → ERel f (OLe f (LLR f)) (ifLoop c st cs es) (ifLoop c' st' cs' es')
  pOr : ∀ {c c' : Ctx} {st st' : St}, CRel f c c' → SRel f st st' →
    st.toks.length * 16 + 9 < k → ERel f (OLt f (NR f)) (pOr c st) (pOr c' st')
  orLoop : ∀ {c c' : Ctx} {st st' : St} {acc acc' : List Node}, CRel f c c' → SRel f st st' → LR f acc acc' →
    st.toks.length * 16 + 0 < k → ERel f (OLe f (LR f)) (orLoop c st acc) (orLoop c' st' acc')
  pAnd : ∀ {c c' : Ctx} {st st' : St}, CRel f c c' → SRel f st st' →
    st.toks.length * 16 + 8 < k → ERel f (OLt f (NR f)) (pAnd c st) (pAnd c' st')
  andLoop : ∀ {c c' : Ctx} {st st' : St} {acc acc' : List Node}, CRel f c c' → SRel f st st' → LR f acc acc' →
    st.toks.length * 16 + 0 < k → ERel f (OLe f (LR f)) (andLoop c st acc) (andLoop c' st' acc')
  pNot : ∀ {c c' : Ctx} {st st' : St}, CRel f c c' → SRel f st st' →
    st.toks.length * 16 + 7 < k → ERel f (OLt f (NR f)) (pNot c st) (pNot c' st')
  pRel : ∀ {c c' : Ctx} {st st' : St}, CRel f c c' → SRel f st st' →
    st.toks.length * 16 + 6 < k → ERel f (OLt f (NR f)) (pRel c st) (pRel c' st')
  relLoop : ∀ {c c' : Ctx} {st st' : St} {lhs lhs' : Node} {acc acc' : List Node}, CRel f c c' → SRel f st st' →
    NR f lhs lhs' → LR f acc acc' →
    st.toks.length * 16 + 0 < k → ERel f (OLe f (LR f)) (relLoop c st lhs acc) (relLoop c' st' lhs' acc')
  pAdd : ∀ {c c' : Ctx} {st st' : St}, CRel f c c' → SRel f st st' →
    st.toks.length * 16 + 5 < k → ERel f (OLt f (NR f)) (pAdd c st) (pAdd c' st')
  addLoop : ∀ {c c' : Ctx} {st st' : St} {e e' : Node}, CRel f c c' → SRel f st st' → NR f e e' →
    st.toks.length * 16 + 0 < k → ERel f (OLe f (NR f)) (addLoop c st e) (addLoop c' st' e')
  pMul : ∀ {c c' : Ctx} {st st' : St}, CRel f c c' → SRel f st st' →
    st.toks.length * 16 + 4 < k → ERel f (OLt f (NR f)) (pMul c st) (pMul c' st')
  mulLoop : ∀ {c c' : Ctx} {st st' : St} {e e' : Node}, CRel f c c' → SRel f st st' → NR f e e' →
    st.toks.length * 16 + 0 < k → ERel f (OLe f (NR f)) (mulLoop c st e) (mulLoop c' st' e')
  pUnary : ∀ {c c' : Ctx} {st st' : St}, CRel f c c' → SRel f st st' →
    st.toks.length * 16 + 3 < k → ERel f (OLt f (NR f)) (pUnary c st) (pUnary c' st')
  pPred : ∀ {c c' : Ctx} {st st' : St} (um : Bool), CRel f c c' → SRel f st st' →
    st.toks.length * 16 + 2 < k → ERel f (OLt f (NR f)) (pPred c um st) (pPred c' um st')
  applyIsPred : ∀ {c c' : Ctx} {st st' : St} {e e' : Node} (p : IsPred) (pos : Pos), CRel f c c' → SRel f st st' →
    NR f e e' → st.toks.length * 16 + 14 < k →
    ERel f (OLe f (NR f)) (applyIsPred c p e pos st) (applyIsPred c' p e' (f pos) st')
  pCollectMinMax : ∀ {c c' : Ctx} {st st' : St} {e e' : Node} (fn : String) (pos : Pos), CRel f c c' →
    SRel f st st' → NR f e e' → st.toks.length * 16 + 13 < k →
    ERel f (OLe f (NR f)) (pCollectMinMax c fn e pos st) (pCollectMinMax c' fn e' (f pos) st')
  optPrimary : ∀ {c c' : Ctx} {st st' : St} {d d' : Node} (word : List Char), CRel f c c' → SRel f st st' →
    NR f d d' → st.toks.length * 16 + 12 < k →
    ERel f (OLe f (NR f)) (optPrimary c word d st) (optPrimary c' word d' st')
  pPrimary : ∀ {c c' : Ctx} {st st' : St} (um : Bool), CRel f c c' → SRel f st st' →
    st.toks.length * 16 + 1 < k → ERel f (OLt f (NR f)) (pPrimary c um st) (pPrimary c' um st')
  pPrimaryKw : ∀ {c c' : Ctx} {st st' : St} (t : Token), CRel f c c' → SRel f st st' →
    st.toks.length * 16 + 15 < k → ERel f (OLe f (NR f)) (pPrimaryKw c t st) (pPrimaryKw c' (tokMap f t) st')
  pListLiteral : ∀ {c c' : Ctx} {st st' : St} (tpos : Pos), CRel f c c' → SRel f st st' →
    st.toks.length * 16 + 11 < k → ERel f (OLt f (NR f)) (pListLiteral c tpos st) (pListLiteral c' (f tpos) st')
  listLoop : ∀ {c c' : Ctx} {st st' : St} {items items' : List Node} {pending : Option Node}, CRel f c c' →
    SRel f st st' → LR f items items' → st.toks.length * 16 + 0 < k →
    ERel f (OLe f (LR f)) (listLoop c st items pending) (listLoop c' st' items' (pending.map (mapPos f)))
  comprClause : ∀ {c c' : Ctx} {st st' : St}, CRel f c c' → SRel f st st' →
    st.toks.length * 16 + 0 < k → ERel f (OLt f (CCR f)) (comprClause c st) (comprClause c' st')
  pComprRest : ∀ {c c' : Ctx} {st st' : St} {v v' ke ke' : Node} (kind : ComprKind) (multi : Bool)
    (closer : List Char) (tpos : Pos), CRel f c c' → SRel f st st' → NR f v v' → NR f ke ke' →
    st.toks.length * 16 + 1 < k →
    ERel f (OLt f (NR f)) (pComprRest c kind multi closer tpos v ke st)
      (pComprRest c' kind multi closer (f tpos) v' ke' st')
  comprFinish : ∀ {c c' : Ctx} {st st' : St} {mk mk' : Node → Node} (closer : List Char), CRel f c c' →
    SRel f st st' → MkR f mk mk' → st.toks.length * 16 + 0 < k →
    ERel f (OLt f (NR f)) (comprFinish c mk closer st) (comprFinish c' mk' closer st')
  pSetLiteral : ∀ {c c' : Ctx} {st st' : St} (tpos : Pos), CRel f c c' → SRel f st st' →
    st.toks.length * 16 + 11 < k → ERel f (OLt f (NR f)) (pSetLiteral c tpos st) (pSetLiteral c' (f tpos) st')
  setLoop : ∀ {c c' : Ctx} {st st' : St} {items items' : List Node}, CRel f c c' → SRel f st st' →
    LR f items items' → st.toks.length * 16 + 11 < k →
    ERel f (OLe f (LR f)) (setLoop c st items) (setLoop c' st' items')
  pMapLiteral : ∀ {c c' : Ctx} {st st' : St} (tpos : Pos), CRel f c c' → SRel f st st' →
    st.toks.length * 16 + 11 < k → ERel f (OLt f (NR f)) (pMapLiteral c tpos st) (pMapLiteral c' (f tpos) st')
  mapLoop : ∀ {c c' : Ctx} {st st' : St} {ks ks' vs vs' : List Node}, CRel f c c' → SRel f st st' →
    LR f ks ks' → LR f vs vs' → st.toks.length * 16 + 11 < k →
    ERel f (OLe f (LLR f)) (mapLoop c st ks vs) (mapLoop c' st' ks' vs')
  pObjectLiteral : ∀ {c c' : Ctx} {st st' : St} (tpos : Pos), CRel f c c' → SRel f st st' →
    st.toks.length * 16 + 1 < k →
    ERel f (OLt f (NR f)) (pObjectLiteral c tpos st) (pObjectLiteral c' (f tpos) st')
  objLoop : ∀ {c c' : Ctx} {st st' : St} {vs vs' : List Node} (ks : List String), CRel f c c' → SRel f st st' →
    LR f vs vs' → st.toks.length * 16 + 0 < k →
    ERel f (OLe f (XLR f)) (objLoop c st ks vs) (objLoop c' st' ks vs')
  pFn : ∀ {c c' : Ctx} {st st' : St} (pos : Pos), CRel f c c' → SRel f st st' →
    st.toks.length * 16 + 0 < k → ERel f (OLt f (NR f)) (pFn c pos st) (pFn c' (f pos) st')
  paramsLoop : ∀ {c c' : Ctx} {st st' : St} {ds ds' : List Node} (ps : List String), CRel f c c' → SRel f st st' →
    LR f ds ds' → st.toks.length * 16 + 0 < k →
    ERel f (OLe f (XLR f)) (paramsLoop c st ps ds) (paramsLoop c' st' ps ds')
  invokeBody : ∀ {c c' : Ctx} {st st' : St} {node node' : Node}, CRel f c c' → SRel f st st' → NR f node node' →
    st.toks.length * 16 + 0 < k → ERel f (OLt f (NR f)) (invokeBody c node st) (invokeBody c' node' st')
  argsLoop : ∀ {c c' : Ctx} {st st' : St} {args args' : List Node} (names : List (Option String)), CRel f c c' →
    SRel f st st' → LR f args args' → st.toks.length * 16 + 11 < k →
    ERel f (OLt f (XLR f)) (argsLoop c st names args) (argsLoop c' st' names args')
  derefArrow : ∀ {c c' : Ctx} {st st' : St} {node node' : Node}, CRel f c c' → SRel f st st' → NR f node node' →
    st.toks.length * 16 + 0 < k → ERel f (OLt f (NBR f)) (derefArrow c node st) (derefArrow c' node' st')
  derefBracket : ∀ {c c' : Ctx} {st st' : St} {node node' : Node}, CRel f c c' → SRel f st st' → NR f node node' →
    st.toks.length * 16 + 11 < k → ERel f (OLt f (NBR f)) (derefBracket c node st) (derefBracket c' node' st')
  postfixLoop : ∀ {c c' : Ctx} {st st' : St} {node node' : Node} (ac ad : Bool), CRel f c c' → SRel f st st' →
    NR f node node' → st.toks.length * 16 + 0 < k →
    ERel f (OLe f (NR f)) (postfixLoop c ac ad st node) (postfixLoop c' ac ad st' node')

local notation "kw" => (some TokType.keyword)

theorem blockOrStmt_rel {f : Pos → Pos} {k : Nat} (H : Hyp f k) {c c' : Ctx} {s s' : St} (hc : CRel f c c')
    (hs : SRel f s s') (hk : s.toks.length * 16 + 11 < k) :
    ERel f (OLt f (NR f)) (if s.peekn 1 c!"do" kw then pBlock c s else pStatement c s)
      (if s'.peekn 1 c!"do" kw then pBlock c' s' else pStatement c' s') := by
  rw [peekn_rel hs]
  bif hb : s.peekn 1 c!"do" kw
  · exact H.pBlock hc hs (by omega)
  · exact H.pStatement hc hs (by omega)

theorem blockOrExpr_rel {f : Pos → Pos} {k : Nat} (H : Hyp f k) {c c' : Ctx} {s s' : St} (hc : CRel f c c')
    (hs : SRel f s s') (hk : s.toks.length * 16 + 10 < k) :
    ERel f (OLt f (NR f)) (if s.peekn 1 c!"do" kw then pBlock c s else pExpression c s)
      (if s'.peekn 1 c!"do" kw then pBlock c' s' else pExpression c' s') := by
  rw [peekn_rel hs]
  bif hb : s.peekn 1 c!"do" kw
  · exact H.pBlock hc hs (by omega)
  · exact H.pExpression hc hs (by omega)

end Ckl.C14P
