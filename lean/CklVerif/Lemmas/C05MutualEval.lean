/-
  C05 — the induction step for `eval` itself (one case per node kind).
-/
import CklVerif.Lemmas.C05Mutual
namespace Ckl.C05
open Ckl

/-- `for`: on an error the loop variables are removed (monomorphic copy of `Tr.wrapErr`) -/
theorem wrapErrR {s0 : State} {m : EvalM RVal} (hm : Tr s0 m) (g : State → State)
    (hg : ∀ s, GEq s (g s)) :
    Tr s0 (fun s1 =>
      match m s1 with
      | .err v msg p t s2 => .err v msg p t (g s2)
      | other => other) := by
  refine ⟨fun s1 hs1 => ?_⟩
  have h := hm.run s1 hs1
  revert h
  cases m s1 with
  | ok a s2 => exact id
  | err v msg p t s2 => exact fun h => h.geq (hg s2)
  | fail f s2 => exact id

theorem geq_restoreVars (env : EnvId) (hidden : List (String × RVal)) (s : State) : GEq s (restoreVars env hidden s) := by
  unfold restoreVars
  exact geq_foldl (fun s (xv : String × RVal) => s.put env xv.1 xv.2) (fun s xv => geq_put s env xv.1 xv.2) hidden s

/-- the wrapper of the `for` node: the final state of a value outcome and of an error outcome is post-processed by a
    function of the start state and the final state that leaves the ghost counters alone -/
theorem wrapForR {s0 : State} {m : EvalM RVal} (hm : Tr s0 m) (h g : State → State → State)
    (hh : ∀ s1 s, GEq s (h s1 s)) (hg : ∀ s1 s, GEq s (g s1 s)) :
    Tr s0 (fun s1 =>
      match m s1 with
      | .ok v s2 => .ok v (h s1 s2)
      | .err v msg p t s2 => .err v msg p t (g s1 s2)
      | .fail (.syn e) s2 => .fail (.syn e) (g s1 s2)
      | other => other) := by
  refine ⟨fun s1 hs1 => ?_⟩
  have h' := hm.run s1 hs1
  revert h'
  cases m s1 with
  | ok a s2 => exact fun h' => h'.geq (hh s1 s2)
  | err v msg p t s2 => exact fun h' => h'.geq (hg s1 s2)
  | fail f s2 =>
    cases f with
    | syn e => exact fun h' hf => (h' hf).geq (hg s1 s2)
    | oof => exact id
    | unsupported w => exact id
    | host k => exact id

/-- the finally stage of a block: one entry and one finally run at `pos` cancel -/
theorem Post.block {α} {s0 s s1 : State} {pos : Pos} {o : Out α}
    (hs : Balanced s0 s) (h1 : Balanced (ghostEnter s pos) s1) (ho : Post (ghostFin s1 pos) o) :
    Post s0 o := by
  cases o with
  | ok a s3 => exact Balanced.block hs h1 ho
  | err v m p t s3 => exact Balanced.block hs h1 ho
  | fail f s3 => exact fun hf => Balanced.block hs h1 (ho hf)

section
variable {ld : Loader} {fuel : Nat}

theorem step_eval (ih : AllBal ld fuel) : ∀ s0 env n, Tr s0 (eval ld (fuel+1) env n) := by
  have ihEval := ih.eval; have ihAnd := ih.evalAnd; have ihOr := ih.evalOr; have ihIf := ih.evalIf
  have ihSeq := ih.evalSeq; have ihItems := ih.evalItems; have ihPairs := ih.evalPairs
  have ihBody := ih.evalBody; have ihFin := ih.evalFinally; have ihTry := ih.tryHandlers
  have ihInvoke := ih.invoke; have ihFor := ih.evalFor; have ihWhile := ih.whileLoop
  have ihCL := ih.comprLoop; have ihCP := ih.comprProduct; have ihCPar := ih.comprParallel
  have ihReq := ih.evalRequire
  intro s0 env n
  cases n with
  | lit v pos => cases v <;> simp only [Ckl.eval] <;> tr_auto
  | block es ce ch fin tl pos =>
    simp only [Ckl.eval]
    refine ⟨fun s hs => ?_⟩
    have hB := (ihBody (ghostEnter s pos) env es (.bool true)).run _ (Balanced.refl _)
    have hT := fun v msg p t s' (h : Balanced (ghostEnter s pos) s') =>
      (ihTry (ghostEnter s pos) env ce ch v msg p t).run s' h
    -- the finally stage: started after the matching `ghostFin`, it ends balanced w.r.t. `s0`
    have hF : ∀ s1, Balanced (ghostEnter s pos) s1 →
        Post s0 (evalFinally ld fuel env fin (ghostFin s1 pos)) := fun s1 h1 =>
      Post.block hs h1 ((ihFin (ghostFin s1 pos) env fin).run _ (Balanced.refl _))
    revert hB
    cases evalBody ld fuel env es (.bool true) (ghostEnter s pos) with
    | ok v s1 =>
      intro hB
      dsimp only
      have hf := hF s1 hB; revert hf
      cases evalFinally ld fuel env fin (ghostFin s1 pos) <;> exact id
    | err v msg p t s1 =>
      intro hB
      dsimp only
      have ht := hT v msg p t s1 hB; revert ht
      cases tryHandlers ld fuel env ce ch v msg p t s1 with
      | ok hv s2 =>
        intro ht
        dsimp only
        have hf := hF s2 ht; revert hf
        cases evalFinally ld fuel env fin (ghostFin s2 pos) <;> exact id
      | err v' m' p' t' s2 =>
        intro ht
        dsimp only
        have hf := hF s2 ht; revert hf
        cases evalFinally ld fuel env fin (ghostFin s2 pos) <;> exact id
      | fail f s2 =>
        cases f with
        | oof => exact fun _ h => h.elim
        | unsupported w => exact fun _ h => h.elim
        | host k =>
          intro ht
          dsimp only
          have hf := hF s2 (ht trivial); revert hf
          cases evalFinally ld fuel env fin (ghostFin s2 pos) <;> first | exact id | exact fun h _ => h
        | syn e =>
          intro ht
          dsimp only
          have hf := hF s2 (ht trivial); revert hf
          cases evalFinally ld fuel env fin (ghostFin s2 pos) <;> first | exact id | exact fun h _ => h
    | fail f s1 =>
      cases f with
      | oof => exact fun _ h => h.elim
      | unsupported w => exact fun _ h => h.elim
      | host k =>
        intro hB
        dsimp only
        have hf := hF s1 (hB trivial); revert hf
        cases evalFinally ld fuel env fin (ghostFin s1 pos) <;> first | exact id | exact fun h _ => h
      | syn e =>
        intro hB
        dsimp only
        have hf := hF s1 (hB trivial); revert hf
        cases evalFinally ld fuel env fin (ghostFin s1 pos) <;> first | exact id | exact fun h _ => h
  | «for» ids e body what pos =>
    simp only [Ckl.eval]
    exact wrapForR (ihFor _ _ _ _ _ _ _)
      (fun s1 s => restoreVars env (hiddenVars s1 env ids) s)
      (fun s1 s => restoreVars env (hiddenVars s1 env ids) (ids.foldl (fun s x => s.remove env x) s))
      (fun s1 s => geq_restoreVars env _ s)
      (fun s1 s => (geq_foldl _ (fun s x => geq_remove s env x) ids s).trans (geq_restoreVars env _ _))
  | lambda ps ds body pos =>
    simp only [Ckl.eval]
    exact ⟨fun s hs => hs.geq ⟨rfl, rfl⟩⟩
  | compr kind shape ve ke id1 l1 w1 id2 l2 w2 cond pos =>
    cases shape <;> simp only [Ckl.eval] <;> tr_auto
  | slice e a b pos =>
    by_cases hb : b = Node.absent
    · subst hb; simp only [Ckl.eval]; tr_auto
    · simp only [Ckl.eval]; tr_auto
  | ret e pos =>
    by_cases hb : e = Node.absent
    · subst hb; simp only [Ckl.eval]; tr_auto
    · simp only [Ckl.eval]; tr_auto
  | deref e i d pos =>
    by_cases hb : d = Node.absent
    · subst hb; simp only [Ckl.eval]; tr_auto
    · simp only [Ckl.eval]; tr_auto
  | _ => simp only [Ckl.eval] <;> tr_auto

end
end Ckl.C05
