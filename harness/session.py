"""Run session histories (sequences of interpret calls) on the implementation and on the model evaluator."""
import os
import shutil
import tempfile

from harness import core, proto, astdump


# ------------------------------------------------------------------ value dumps (runtime values incl. objects / functions)

def dump_rval(v, depth=8):
    """implementation value -> comparable nested tuple; sets sorted by dump text, maps/objects in insertion order"""
    from ckl import values as V
    import ckl.functions as F
    if isinstance(v, V.ValueControlBreak):
        return ('ctl', 'break')
    if isinstance(v, V.ValueControlContinue):
        return ('ctl', 'continue')
    if isinstance(v, V.ValueControlReturn):
        return ('ctl', 'return', dump_rval(v.value, depth))
    if isinstance(v, V.ValueFunc):
        return ('fn', v.name)
    if isinstance(v, V.ValueNode):
        return ('node',)
    if depth == 0:
        return ('deep',)
    if isinstance(v, V.ValueList):
        return ('l', tuple(dump_rval(x, depth - 1) for x in v.value))
    if isinstance(v, V.ValueSet):
        return ('S', tuple(sorted((dump_rval(x, depth - 1) for x in v.value), key=repr)))
    if isinstance(v, V.ValueMap):
        return ('m', tuple((dump_rval(k, depth - 1), dump_rval(x, depth - 1)) for k, x in v.value.items()))
    if isinstance(v, V.ValueObject):
        return ('module' if v.isModule else 'obj', tuple((k, dump_rval(x, depth - 1)) for k, x in v.value.items()))
    if isinstance(v, (V.ValueInput, V.ValueOutput)):
        return ('stream',)
    try:
        return proto.enum_form(proto.from_ckl(v))
    except proto.NotData as e:
        return ('notdata', str(e))


def rval_from_sx(x):
    """model value (parsed sexp) -> the same comparable form"""
    if x == "null":
        return ('null',)
    h = x[0]
    if h == 'fn':
        return ('fn', proto.dec_str(x[1][2:]))
    if h == 'node':
        return ('node',)
    if h == 'ctl':
        return ('ctl', x[1]) if len(x) == 2 else ('ctl', x[1], rval_from_sx(x[2]))
    if h == 'l':
        return ('l', tuple(rval_from_sx(v) for v in x[1:]))
    if h == 'S':
        return ('S', tuple(sorted((rval_from_sx(v) for v in x[1:]), key=repr)))
    if h == 'm':
        return ('m', tuple((rval_from_sx(k), rval_from_sx(v)) for k, v in x[1:]))
    if h in ('obj', 'module'):
        return (h, tuple((proto.dec_str(k[2:]), rval_from_sx(v)) for k, v in x[1:]))
    if h in ('deep', 'dangling'):
        return (h,)
    return proto.enum_form(proto.from_sx(x))


# ------------------------------------------------------------------ implementation side

ORIG_CWD = os.getcwd()
ORIG_HOME = os.environ.get("HOME")


class ImplSession:
    """one Interpreter with string stdin/stdout, a private $HOME holding user modules, a scratch cwd"""

    def __init__(self, mods=None, secure=True, legacy=False, share_with=None, explicit_env=False):
        """explicit_env: every call goes through `interpret(src, name, environment)` with ONE caller-owned environment (the way the
        project's own tests and embedding code call the interpreter) instead of the interpreter's own session frame"""
        from ckl.interpreter import Interpreter
        from ckl.values import StringInput, StringOutput
        self.env = None
        if explicit_env:
            from ckl.functions import get_none_environment
            self.env = get_none_environment()
        self.shared = share_with is not None
        if self.shared:
            self.home = share_with.home
        else:
            self.home = tempfile.mkdtemp(prefix="cklhome")
            os.makedirs(os.path.join(self.home, ".ckl", "modules"))
            os.makedirs(os.path.join(self.home, "cwd"))
            for name, src in (mods or {}).items():
                with open(os.path.join(self.home, ".ckl", "modules", name), "w", encoding="utf-8") as fh:
                    fh.write(src)
        os.environ["HOME"] = self.home
        os.chdir(os.path.join(self.home, "cwd"))
        self.it = Interpreter(secure, legacy)
        self.out = StringOutput()
        self.it.setStandardOutput(self.out)
        self.it.setStandardInput(StringInput(""))

    def frame(self):
        """the environment in which the session's top-level definitions land"""
        return self.it.environment if self.env is None else self.env

    def run(self, src, name="f", limit=5):
        from ckl.errors import CklRuntimeError, CklSyntaxError
        self.out.output = ""
        try:
            with core.time_limit(limit):
                v = self.it.interpret(src, name) if self.env is None else self.it.interpret(src, name, self.env)
                outcome = ('val', dump_rval(v))
        except core.Timeout:
            outcome = ('timeout',)
        except CklRuntimeError as e:
            outcome = ('rt', dump_rval(e.value), e.pos.line if e.pos else None)
        except CklSyntaxError as e:
            outcome = ('syn',)
        except RecursionError:
            outcome = ('host', 'RecursionError')
        except Exception as e:  # noqa
            outcome = ('host', type(e).__name__ + ": " + str(e)[:120])
        syms = tuple((self.it.environment if self.env is None else self.env).map.keys())
        return outcome, self.out.output, syms

    def close(self):
        os.chdir(ORIG_CWD)
        if ORIG_HOME is None:
            os.environ.pop("HOME", None)
        else:
            os.environ["HOME"] = ORIG_HOME
        if not self.shared:
            shutil.rmtree(self.home, ignore_errors=True)


# ------------------------------------------------------------------ model side

_native_cache = {}


def native_tables(legacy=False):
    """(known native names, effectful native names, base symbol names) from the current tree"""
    key = "t_legacy" if legacy else "t"
    if key not in _native_cache:
        from harness.extract import natives
        tab = natives.extract()
        known = sorted(tab["names"])
        eff = sorted(n for n, info in tab["natives"].items() if not info["secure"])
        from ckl.interpreter import Interpreter
        base = sorted(Interpreter(False, legacy).base_environment.getSymbols())
        _native_cache[key] = (known, eff, base)
    return _native_cache[key]


def ast_or_syn(src, name="f"):
    from ckl.parser import parse_script
    from ckl.errors import CklSyntaxError
    try:
        with core.time_limit(10):
            return astdump.dump(parse_script(src, name), True)
    except CklSyntaxError:
        return "(syn)"


def model_request(progs, mods=None, secure=True, fuel=20000, legacy=False):
    known, eff, base = native_tables(legacy)
    s_ = lambda xs: "".join(" s:" + proto.enc_str(x) for x in xs)   # noqa
    ms = []
    for fname, src in (mods or {}).items():
        ms.append(f"(s:{proto.enc_str(fname)} user {ast_or_syn(src, 'mod:' + fname[:-4])})")
    return ("(session (flags " + ("secure" if secure else "insecure") + f" {fuel}) (mods{''.join(' ' + m for m in ms)}) (base{s_(base)}) "
            f"(eff{s_(eff)}) (known{s_(known)})" + "".join(f" (prog {ast_or_syn(p)})" for p in progs) + ")")


def parse_model_session(line):
    """-> (list of (outcome, out_text, syms), ghost dict)"""
    x = proto.parse_sx(line)
    if x[0] != "session":
        raise RuntimeError("driver: " + line[:300])
    res = []
    ghost = {}
    for r in x[1:]:
        if r[0] == "ghost":
            for g in r[1:]:
                ghost[g[0]] = g[1:]
            continue
        o = r[1]
        if o[0] == "val":
            outcome = ('val', rval_from_sx(o[1]))
        elif o[0] == "rt":
            outcome = ('rt', rval_from_sx(o[1]), int(o[2]))
        elif o[0] == "syn":
            outcome = ('syn',)
        elif o[0] == "fail":
            outcome = ('fail', o[1], proto.dec_str(o[2][2:]) if len(o) > 2 else "")
        else:
            outcome = (o[0],)
        out = proto.dec_str(r[2][1][2:]) if len(r) > 2 else ""
        syms = tuple(proto.dec_str(a[2:]) for a in r[3][1:]) if len(r) > 3 else ()
        res.append((outcome, out, syms))
    return res, ghost


def compare(impl, model, check_line=False):
    """impl/model: (outcome, out, syms).  Returns None when they agree (or the model abstains), else a description."""
    io, iout, isyms = impl
    mo, mout, msyms = model
    if mo[0] == 'fail' and mo[1] == 'unsupported':
        return None
    if mo[0] == 'fail' and mo[1] == 'oof':
        return None if io[0] in ('timeout', 'host') else f"model ran out of fuel, implementation {io[:2]}"
    if io[0] != mo[0]:
        return f"outcome class: implementation {io[:2]}, model {mo[:2]}"
    if io[0] in ('val', 'rt') and io[1] != mo[1]:
        return f"value: implementation {io[1]}, model {mo[1]}"
    if check_line and io[0] == 'rt' and io[2] is not None and io[2] != mo[2]:
        return f"error line: implementation {io[2]}, model {mo[2]}"
    if iout != mout:
        return f"output: implementation {iout!r}, model {mout!r}"
    if set(isyms) != set(msyms):
        return f"session symbols: implementation {sorted(isyms)}, model {sorted(msyms)}"
    return None


# ------------------------------------------------------------------ the repository's own library source inside the model evaluator

def lib_setup_request(legacy=True, secure=True, fuel=300000):
    """one request that makes the driver build the REAL base environment: constants + bind_native, then the bundled base.ckl /
    legacy.ckl evaluated by the model evaluator, every bundled module handed over as the AST of its current source text"""
    known, eff, _ = native_tables(legacy)
    s_ = lambda xs: "".join(" s:" + proto.enc_str(x) for x in xs)   # noqa
    moddir = os.path.join(core.REPO, "src", "ckl", "modules")
    ms = []
    for n in sorted(os.listdir(moddir)):
        if n.endswith(".ckl"):
            src = open(os.path.join(moddir, n), encoding="utf-8").read()
            ms.append(f"(s:{proto.enc_str(n)} bundled {ast_or_syn(src, 'mod:' + n[:-4])})")
    return (f"(libsetup (flags {'secure' if secure else 'insecure'} {fuel} {'legacy' if legacy else 'modules'}) (mods" + "".join(" " + m for m in ms)
            + f") (eff{s_(eff)}) (known{s_(known)}))")


def lib_session_request(progs):
    return "(libsession" + "".join(f" (prog {ast_or_syn(p)})" for p in progs) + ")"


def run_lib_sessions(programs, legacy=True, secure=True, fuel=300000):
    """programs: list of lists of program texts (one session each).  Returns per session the parsed model outcomes, or None
    when the base environment could not be built in the model (then the first element of the result is the driver's reason)"""
    resp = core.run_driver([lib_setup_request(legacy, secure, fuel)] + [lib_session_request(ps) for ps in programs])
    if resp[0] != "(libsetup ok)":
        return None, resp[0]
    return [parse_model_session(r)[0] for r in resp[1:]], None


_const_re = []


def uses_constant_native(src):
    """does the program mention a constant bound through bind_native (E, PI, PS, FS, …) or a bundled function whose source uses one?
    The evaluator model binds every known native name as a FUNCTION value, so it has no answer for those programs: the lib-session
    correspondences skip them."""
    import re
    if not _const_re:
        from harness.extract import natives
        tab = natives.extract()
        consts = [k for k, v in tab["natives"].items() if v["class"] is None]
        names = set(consts)
        moddir = os.path.join(core.REPO, "src", "ckl", "modules")
        for n in sorted(os.listdir(moddir)):
            if n.endswith(".ckl"):
                text = open(os.path.join(moddir, n), encoding="utf-8").read()
                for m in re.finditer(r"^def (\w+)\(.*?(?=^def |\Z)", text, flags=re.S | re.M):
                    body = m.group(0).split("\n", 1)[-1]
                    if any(re.search(r"\b" + re.escape(c) + r"\b", body) for c in consts):
                        names.add(m.group(1))
        _const_re.append(re.compile(r"\b(" + "|".join(sorted(re.escape(x) for x in names)) + r")\b"))
    return _const_re[0].search(src) is not None
