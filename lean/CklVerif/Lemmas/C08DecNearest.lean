/-
  C08Dec — `nearestDouble` is round-to-nearest-even: `nearestDouble_of_inside`: a rational in the
  rounding interval of a double (the interval `shortestDigits` uses) reads back as that double.
-/
import CklVerif.Lemmas.C08DecRat
import CklVerif.Lemmas.C08DecIsDouble
namespace Ckl.C08D
open Ckl Ckl.Parser

theorem two_ne : (2 : ℚ) ≠ 0 := by norm_num
theorem one_lt_two : (1 : ℚ) < 2 := by norm_num

/-! ## the exponent `fl = ⌊log₂ (num / den)⌋` -/

theorem ndGe_iff (num den : Nat) (hden : 0 < den) (k : Int) :
    ndGe num den k = true ↔ (2 : ℚ) ^ k ≤ (num : ℚ) / den := by
  have hd : (0 : ℚ) < den := by exact_mod_cast hden
  unfold ndGe
  rw [le_div_iff₀ hd]
  split
  · rename_i hk
    rw [decide_eq_true_iff, ← two_pow_toNat k hk, mul_comm]
    exact_mod_cast Iff.rfl
  · rename_i hk
    have hp : (0 : ℚ) < (2 : ℚ) ^ (-k).toNat := by positivity
    have e : (2 : ℚ) ^ k = ((2 : ℚ) ^ (-k).toNat)⁻¹ := by
      rw [two_pow_toNat (-k) (by omega), zpow_neg, inv_inv]
    rw [decide_eq_true_iff, e, inv_mul_le_iff₀ hp, mul_comm]
    exact_mod_cast Iff.rfl

theorem log2_bracket (n : Nat) (hn : 0 < n) :
    (2 : ℚ) ^ (Nat.log2 n : ℤ) ≤ n ∧ (n : ℚ) < (2 : ℚ) ^ ((Nat.log2 n : ℤ) + 1) := by
  constructor
  · rw [zpow_natCast]; exact_mod_cast Nat.log2_self_le (by omega)
  · have : (n : ℚ) < (2 : ℚ) ^ (Nat.log2 n + 1) := by exact_mod_cast (Nat.lt_log2_self (n := n))
    rw [← zpow_natCast] at this; exact_mod_cast this

/-- the model's `fl` brackets `num / den` between consecutive powers of two -/
theorem ndFl_bracket (num den : Nat) (hnum : 0 < num) (hden : 0 < den) :
    (2 : ℚ) ^ ndFl num den ≤ (num : ℚ) / den ∧ (num : ℚ) / den < (2 : ℚ) ^ (ndFl num den + 1) := by
  have hd : (0 : ℚ) < den := by exact_mod_cast hden
  obtain ⟨n1, n2⟩ := log2_bracket num hnum
  obtain ⟨d1, d2⟩ := log2_bracket den hden
  have hup : (num : ℚ) / den < (2 : ℚ) ^ (ndD num den + 1) := by
    rw [div_lt_iff₀ hd]
    have : (2 : ℚ) ^ (ndD num den + 1) * (2 : ℚ) ^ (Nat.log2 den : ℤ) = (2 : ℚ) ^ ((Nat.log2 num : ℤ) + 1) := by
      rw [← zpow_add₀ two_ne]; congr 1; unfold ndD; omega
    calc (num : ℚ) < (2 : ℚ) ^ ((Nat.log2 num : ℤ) + 1) := n2
      _ = (2 : ℚ) ^ (ndD num den + 1) * (2 : ℚ) ^ (Nat.log2 den : ℤ) := this.symm
      _ ≤ (2 : ℚ) ^ (ndD num den + 1) * den := by
          apply mul_le_mul_of_nonneg_left d1; positivity
  have hlow : (2 : ℚ) ^ (ndD num den - 1) ≤ (num : ℚ) / den := by
    rw [le_div_iff₀ hd]
    have : (2 : ℚ) ^ (ndD num den - 1) * (2 : ℚ) ^ ((Nat.log2 den : ℤ) + 1) = (2 : ℚ) ^ (Nat.log2 num : ℤ) := by
      rw [← zpow_add₀ two_ne]; congr 1; unfold ndD; omega
    calc (2 : ℚ) ^ (ndD num den - 1) * den ≤ (2 : ℚ) ^ (ndD num den - 1) * (2 : ℚ) ^ ((Nat.log2 den : ℤ) + 1) := by
          apply mul_le_mul_of_nonneg_left (le_of_lt d2); positivity
      _ = (2 : ℚ) ^ (Nat.log2 num : ℤ) := this
      _ ≤ num := n1
  unfold ndFl
  split
  · rename_i hge
    exact ⟨(ndGe_iff num den hden _).1 hge, hup⟩
  · rename_i hge
    have : ¬ (2 : ℚ) ^ ndD num den ≤ (num : ℚ) / den := fun h => hge ((ndGe_iff num den hden _).2 h)
    refine ⟨hlow, ?_⟩
    rw [sub_add_cancel]; exact not_le.1 this

theorem fl_unique (c : ℚ) (f f' : Int) (h1 : (2 : ℚ) ^ f ≤ c) (h2 : c < (2 : ℚ) ^ (f + 1))
    (h1' : (2 : ℚ) ^ f' ≤ c) (h2' : c < (2 : ℚ) ^ (f' + 1)) : f = f' := by
  have a1 : f < f' + 1 := (zpow_lt_zpow_iff_right₀ one_lt_two).1 (lt_of_le_of_lt h1 h2')
  have a2 : f' < f + 1 := (zpow_lt_zpow_iff_right₀ one_lt_two).1 (lt_of_le_of_lt h1' h2)
  omega

/-! ## the scaled quotient and its rounding -/

theorem ndAB (num den : Nat) (hden : 0 < den) :
    0 < ndB num den ∧ (ndA num den : ℚ) / ndB num den = (num : ℚ) / den * (2 : ℚ) ^ (-ndX num den) := by
  have hd : (den : ℚ) ≠ 0 := by exact_mod_cast hden.ne'
  unfold ndA ndB
  split
  · rename_i hx
    refine ⟨hden, ?_⟩
    rw [Nat.cast_mul, Nat.cast_pow, Nat.cast_ofNat, two_pow_toNat _ (by omega)]
    ring
  · rename_i hx
    refine ⟨Nat.mul_pos hden (Nat.pow_pos (by decide)), ?_⟩
    rw [Nat.cast_mul, Nat.cast_pow, Nat.cast_ofNat, two_pow_toNat _ (by omega), zpow_neg]
    field_simp

/-- round-half-even is the only integer within 1/2 of the quotient (ties: the even one) -/
theorem divRoundEven_unique (a b q : Nat) (hb : 0 < b) (h1 : 2 * q * b ≤ 2 * a + b)
    (h2 : 2 * a ≤ 2 * q * b + b) (h3 : q % 2 = 1 → 2 * q * b < 2 * a + b ∧ 2 * a < 2 * q * b + b) :
    divRoundEven a b = q := by
  have hdm : b * (a / b) + a % b = a := Nat.div_add_mod a b
  have hr : a % b < b := Nat.mod_lt a hb
  generalize a / b = q0 at *
  generalize a % b = r at *
  subst hdm
  -- q ∈ {q0, q0 + 1}
  have hq1 : q ≤ q0 + 1 := by
    by_contra hc
    have : q0 + 2 ≤ q := by omega
    have : 2 * (q0 + 2) * b ≤ 2 * q * b := Nat.mul_le_mul_right b (by omega)
    have e : 2 * (q0 + 2) * b = 2 * (b * q0) + 4 * b := by ring
    omega
  have hq2 : q0 ≤ q := by
    by_contra hc
    have : q + 1 ≤ q0 := by omega
    have : 2 * (b * (q + 1)) ≤ 2 * (b * q0) := Nat.mul_le_mul_left 2 (Nat.mul_le_mul_left b this)
    have e : 2 * (b * (q + 1)) = 2 * q * b + 2 * b := by ring
    omega
  have hdiv : (b * q0 + r) / b = q0 := by
    rw [Nat.mul_add_div hb, Nat.div_eq_of_lt hr]; omega
  have hmod : (b * q0 + r) % b = r := by
    rw [Nat.mul_add_mod]; exact Nat.mod_eq_of_lt hr
  unfold divRoundEven
  simp only [hdiv, hmod]
  rcases Nat.lt_or_ge q (q0 + 1) with hlt | hge
  · have hq : q = q0 := by omega
    subst hq
    have e : 2 * q * b = 2 * (b * q) := by ring
    have h2r : 2 * r ≤ b := by omega
    have hcond : ¬ ((decide (2 * r > b) || (2 * r == b && q % 2 == 1)) = true) := by
      simp only [Bool.or_eq_true, decide_eq_true_eq, Bool.and_eq_true, beq_iff_eq]
      rintro (h | ⟨h, ho⟩)
      · omega
      · have := (h3 ho).2; omega
    rw [if_neg hcond]
  · have hq : q = q0 + 1 := by omega
    subst hq
    have e : 2 * (q0 + 1) * b = 2 * (b * q0) + 2 * b := by ring
    have h2r : b ≤ 2 * r := by omega
    have hcond : (decide (2 * r > b) || (2 * r == b && q0 % 2 == 1)) = true := by
      simp only [Bool.or_eq_true, decide_eq_true_eq, Bool.and_eq_true, beq_iff_eq]
      rcases Nat.lt_or_ge b (2 * r) with h | h
      · exact Or.inl h
      · refine Or.inr ⟨by omega, ?_⟩
        by_contra ho
        have : (q0 + 1) % 2 = 1 := by omega
        have := (h3 this).1; omega
    rw [if_pos hcond]

/-- the model's rounded quotient is the integer `q` whenever `num/den · 2^(-x)` is within 1/2 of `q`
    (strictly, if `q` is odd) -/
theorem ndQ_eq (num den q : Nat) (hden : 0 < den)
    (h1 : (q : ℚ) - 1 / 2 ≤ (num : ℚ) / den * (2 : ℚ) ^ (-ndX num den))
    (h2 : (num : ℚ) / den * (2 : ℚ) ^ (-ndX num den) ≤ (q : ℚ) + 1 / 2)
    (h3 : q % 2 = 1 → (q : ℚ) - 1 / 2 < (num : ℚ) / den * (2 : ℚ) ^ (-ndX num den) ∧
      (num : ℚ) / den * (2 : ℚ) ^ (-ndX num den) < (q : ℚ) + 1 / 2) :
    ndQ num den = q := by
  obtain ⟨hb, hab⟩ := ndAB num den hden
  rw [← hab] at h1 h2 h3
  have hb' : (0 : ℚ) < ndB num den := by exact_mod_cast hb
  unfold ndQ
  generalize ndA num den = A at *
  generalize ndB num den = B at *
  rw [le_div_iff₀ hb'] at h1
  rw [div_le_iff₀ hb'] at h2
  apply divRoundEven_unique _ _ _ hb
  · have : (2 * q * B : ℚ) ≤ 2 * A + B := by linarith
    exact_mod_cast this
  · have : (2 * A : ℚ) ≤ 2 * q * B + B := by linarith
    exact_mod_cast this
  · intro ho
    obtain ⟨s1, s2⟩ := h3 ho
    rw [lt_div_iff₀ hb'] at s1
    rw [div_lt_iff₀ hb'] at s2
    constructor
    · have : (2 * q * B : ℚ) < 2 * A + B := by linarith
      exact_mod_cast this
    · have : (2 * A : ℚ) < 2 * q * B + B := by linarith
      exact_mod_cast this

/-- two normal forms of the same dyadic are equal -/
theorem norm_unique (a e m f : Nat) (h : a * 2 ^ f = m * 2 ^ e) (ha : a % 2 = 1 ∨ e = 0)
    (hm : m % 2 = 1 ∨ f = 0) : a = m ∧ e = f := by
  rcases Nat.lt_trichotomy e f with hlt | heq | hgt
  · -- f > e ≥ 0: m odd, but m * 2^e = a * 2^f forces m even
    exfalso
    have hm1 : m % 2 = 1 := by omega
    have : f = e + (f - e - 1) + 1 := by omega
    rw [this, Nat.pow_add, Nat.pow_add, Nat.pow_one] at h
    have h' : (a * 2 ^ (f - e - 1) * 2) * 2 ^ e = m * 2 ^ e := by rw [← h]; ring
    have := Nat.eq_of_mul_eq_mul_right (Nat.pow_pos (by decide)) h'
    omega
  · subst heq
    exact ⟨Nat.eq_of_mul_eq_mul_right (Nat.pow_pos (by decide)) h, rfl⟩
  · exfalso
    have ha1 : a % 2 = 1 := by omega
    have : e = f + (e - f - 1) + 1 := by omega
    rw [this, Nat.pow_add, Nat.pow_add, Nat.pow_one] at h
    have h' : a * 2 ^ f = (m * 2 ^ (e - f - 1) * 2) * 2 ^ f := by rw [h]; ring
    have := Nat.eq_of_mul_eq_mul_right (Nat.pow_pos (by decide)) h'
    omega

/-! ## the result of `nearestDouble` from the exponent and the rounded quotient -/

theorem nd_result (num den : Nat) (hnum : 0 < num) (a e : Nat) (hnorm : a % 2 = 1 ∨ e = 0)
    (ha1024 : e = 0 → a < 2 ^ 1024) (x : ℤ) (q : ℕ) (hx : ndX num den = x) (hq : ndQ num den = q)
    (hval : (a : ℚ) / 2 ^ e = (q : ℚ) * (2 : ℚ) ^ x) : nearestDouble num den = some (a, e) := by
  have h2e : ((2 : ℚ) ^ e) ≠ 0 := by positivity
  rw [nearestDouble_eq, hx, hq]
  have hn0 : (num == 0) = false := by
    rw [beq_eq_false_iff_ne]; omega
  rw [hn0]
  simp only [Bool.false_eq_true, if_false]
  by_cases hx0 : x ≥ 0
  · rw [if_pos hx0]
    rw [← two_pow_toNat x hx0, div_eq_iff h2e] at hval
    have hnat : a * 2 ^ 0 = (q * 2 ^ x.toNat) * 2 ^ e := by
      rw [Nat.pow_zero, Nat.mul_one]; exact_mod_cast hval
    obtain ⟨h1, h2⟩ := norm_unique a e (q * 2 ^ x.toNat) 0 hnat hnorm (Or.inr rfl)
    subst h2
    rw [← h1, if_neg (by have := ha1024 rfl; omega)]
  · rw [if_neg hx0]
    have hxn : (0 : ℤ) ≤ -x := by omega
    cases hnd : normDyadic q (-x).toNat with
    | mk m' e' =>
      obtain ⟨_, _, hm', hmq⟩ := normDyadic_spec (-x).toNat q m' e' hnd
      have hp : ((2 : ℚ) ^ (-x).toNat) ≠ 0 := by positivity
      have hxx : (2 : ℚ) ^ x = ((2 : ℚ) ^ (-x).toNat)⁻¹ := by
        rw [two_pow_toNat (-x) hxn, zpow_neg, inv_inv]
      rw [hxx, ← div_eq_mul_inv, div_eq_div_iff h2e hp] at hval
      have hnat : a * 2 ^ (-x).toNat = q * 2 ^ e := by exact_mod_cast hval
      have : (a * 2 ^ e') * 2 ^ (-x).toNat = (m' * 2 ^ e) * 2 ^ (-x).toNat := by
        calc (a * 2 ^ e') * 2 ^ (-x).toNat = (a * 2 ^ (-x).toNat) * 2 ^ e' := by ring
          _ = (q * 2 ^ e') * 2 ^ e := by rw [hnat]; ring
          _ = (m' * 2 ^ e) * 2 ^ (-x).toNat := by rw [← hmq]; ring
      have h' := Nat.eq_of_mul_eq_mul_right (Nat.pow_pos (by decide)) this
      obtain ⟨h1, h2⟩ := norm_unique a e m' e' h' hnorm hm'
      rw [h1, h2]

/-! ## round-to-nearest-even reads every point of the rounding interval back as the double -/

/-- the exponent / quotient pair the model computes for a rational `c` in the rounding interval
    of `M · 2^E` -/
theorem nd_x_q (num den : Nat) (hnum : 0 < num) (hden : 0 < den) (M : Nat) (E : ℤ) (hE : -1074 ≤ E)
    (hM0 : 0 < M) (hM53 : M < 2 ^ 53) (hMn : 2 ^ 52 ≤ M ∨ E = -1074)
    (hin : dLo M E ≤ (num : ℚ) / den ∧ (num : ℚ) / den ≤ dHi M E)
    (hodd : M % 2 = 1 → dLo M E < (num : ℚ) / den ∧ (num : ℚ) / den < dHi M E) :
    ∃ (x : ℤ) (q : ℕ), ndX num den = x ∧ ndQ num den = q ∧ (q : ℚ) * (2 : ℚ) ^ x = (M : ℚ) * (2 : ℚ) ^ E := by
  obtain ⟨b1, b2⟩ := ndFl_bracket num den hnum hden
  have hP : (0 : ℚ) < (2 : ℚ) ^ E := by positivity
  have hM53' : (M : ℚ) + 1 ≤ 2 ^ 53 := by exact_mod_cast hM53
  have hM0' : (1 : ℚ) ≤ M := by exact_mod_cast hM0
  -- c = r · 2^E
  have hc : (num : ℚ) / den = ((num : ℚ) / den * (2 : ℚ) ^ (-E)) * (2 : ℚ) ^ E := by
    rw [mul_assoc, ← zpow_add₀ two_ne]; simp
  generalize hr : (num : ℚ) / den * (2 : ℚ) ^ (-E) = r at hc
  have hhi : r ≤ (M : ℚ) + 1 / 2 := by
    have := hin.2; unfold dHi at this; rw [hc] at this
    exact le_of_mul_le_mul_right this hP
  have hhi' : M % 2 = 1 → r < (M : ℚ) + 1 / 2 := by
    intro ho; have := (hodd ho).2; unfold dHi at this; rw [hc] at this
    exact lt_of_mul_lt_mul_right this hP.le
  have e53 : (2 : ℚ) ^ (E + 53) = 2 ^ 53 * (2 : ℚ) ^ E := by
    rw [zpow_add₀ two_ne, mul_comm]; norm_num
  have e52 : (2 : ℚ) ^ (E + 52) = 2 ^ 52 * (2 : ℚ) ^ E := by
    rw [zpow_add₀ two_ne, mul_comm]; norm_num
  have e51 : (2 : ℚ) ^ (E + 51) = 2 ^ 51 * (2 : ℚ) ^ E := by
    rw [zpow_add₀ two_ne, mul_comm]; norm_num
  have hclt : (num : ℚ) / den < (2 : ℚ) ^ (E + 53) := by
    rw [hc, e53]; apply mul_lt_mul_of_pos_right _ hP; linarith
  have hfl53 : ndFl num den < E + 53 :=
    (zpow_lt_zpow_iff_right₀ one_lt_two).1 (lt_of_le_of_lt b1 hclt)
  by_cases hbd : M = 2 ^ 52 ∧ E > -1074
  · -- power-of-two boundary: the interval reaches into the binade below
    obtain ⟨hM, hE'⟩ := hbd
    have hlo : (2 : ℚ) ^ 52 - 1 / 4 ≤ r := by
      have := hin.1; unfold dLo at this; rw [if_pos ⟨hM, hE'⟩, hc] at this
      exact le_of_mul_le_mul_right this hP
    have hMq : (M : ℚ) = 2 ^ 52 := by exact_mod_cast hM
    by_cases hge : (2 : ℚ) ^ 52 ≤ r
    · -- same binade
      have hfl : ndFl num den = E + 52 := by
        apply fl_unique _ _ _ b1 b2
        · rw [hc, e52]; exact mul_le_mul_of_nonneg_right hge hP.le
        · rw [show E + 52 + 1 = E + 53 by ring]; exact hclt
      refine ⟨E, M, by unfold ndX; rw [hfl]; omega, ?_, rfl⟩
      have hX : ndX num den = E := by unfold ndX; rw [hfl]; omega
      apply ndQ_eq num den M hden
      · rw [hX, hr]; linarith
      · rw [hX, hr]; exact hhi
      · intro ho; rw [hX, hr]; exact ⟨by linarith, hhi' ho⟩
    · -- the binade below: the quotient rounds up to 2^53
      have hlt : r < (2 : ℚ) ^ 52 := not_le.1 hge
      have hfl : ndFl num den = E + 51 := by
        apply fl_unique _ _ _ b1 b2
        · rw [hc, e51]; apply mul_le_mul_of_nonneg_right _ hP.le; linarith
        · rw [show E + 51 + 1 = E + 52 by ring, hc, e52]; exact mul_lt_mul_of_pos_right hlt hP
      have hX : ndX num den = E - 1 := by unfold ndX; rw [hfl]; omega
      have hr2 : (num : ℚ) / den * (2 : ℚ) ^ (-(E - 1)) = 2 * r := by
        rw [← hr, show -(E - 1) = -E + 1 by ring, zpow_add₀ two_ne]; ring
      refine ⟨E - 1, 2 ^ 53, hX, ?_, ?_⟩
      · apply ndQ_eq num den (2 ^ 53) hden
        · rw [hX, hr2]; push_cast; linarith
        · rw [hX, hr2]; push_cast; linarith
        · intro ho; norm_num at ho
      · rw [hMq, zpow_sub₀ two_ne]; push_cast; ring
  · -- ordinary case: the interval is symmetric, `x = E`, `q = M`
    have hlo : (M : ℚ) - 1 / 2 ≤ r := by
      have := hin.1; unfold dLo at this; rw [if_neg hbd, hc] at this
      exact le_of_mul_le_mul_right this hP
    have hlo' : M % 2 = 1 → (M : ℚ) - 1 / 2 < r := by
      intro ho; have := (hodd ho).1; unfold dLo at this; rw [if_neg hbd, hc] at this
      exact lt_of_mul_lt_mul_right this hP.le
    have hX : ndX num den = E := by
      by_cases hE' : E = -1074
      · unfold ndX; omega
      · have hM52 : 2 ^ 52 ≤ M := by omega
        have hM52' : (2 : ℚ) ^ 52 + 1 ≤ M := by
          have : 2 ^ 52 + 1 ≤ M := by omega
          exact_mod_cast this
        have hfl : ndFl num den = E + 52 := by
          apply fl_unique _ _ _ b1 b2
          · rw [hc, e52]; apply mul_le_mul_of_nonneg_right _ hP.le; linarith
          · rw [show E + 52 + 1 = E + 53 by ring]; exact hclt
        unfold ndX; rw [hfl]; omega
    refine ⟨E, M, hX, ?_, rfl⟩
    apply ndQ_eq num den M hden
    · rw [hX, hr]; exact hlo
    · rw [hX, hr]; exact hhi
    · intro ho; rw [hX, hr]; exact ⟨hlo' ho, hhi' ho⟩

/-- **nearestDouble_of_inside**: a positive rational `num / den` that lies in the rounding interval
    of the positive double `a / 2^e` (closed if the 53-bit mantissa is even, open if it is odd;
    below a power of two the lower half-gap is half as wide; subnormals included) reads back as
    exactly that double. -/
theorem nearestDouble_of_inside (a e : Nat) (ha : 0 < a) (hd : IsDoubleN a e) (num den : Nat)
    (hden : 0 < den) (hin : inside a e (num, den) = true) : nearestDouble num den = some (a, e) := by
  obtain ⟨hv, hE, hM0, hM53, hMn⟩ := toBin64_spec a e ha hd
  obtain ⟨h1, h2⟩ := (inside_iff a e ha hd (num, den) hden).1 hin
  have hrv : rv (num, den) = (num : ℚ) / den := rfl
  rw [hrv] at h1 h2
  generalize (toBin64 a e).1 = M at *
  generalize (toBin64 a e).2 = E at *
  have hlopos : 0 < dLo M E := by
    have hP : (0 : ℚ) < (2 : ℚ) ^ E := by positivity
    have hM0' : (1 : ℚ) ≤ M := by exact_mod_cast hM0
    unfold dLo; split
    · apply mul_pos _ hP; norm_num
    · apply mul_pos _ hP; linarith
  have hnum : 0 < num := by
    rcases Nat.eq_zero_or_pos num with h0 | h0
    · subst h0; simp at h1; linarith [h1.1]
    · exact h0
  obtain ⟨x, q, hx, hq, hval⟩ := nd_x_q num den hnum hden M E hE hM0 hM53 hMn h1 h2
  apply nd_result num den hnum a e _ _ x q hx hq (by rw [hv, hval])
  · rcases hd with ⟨h, _, _⟩ | ⟨_, _, h, _⟩
    · exact Or.inr h
    · exact Or.inl h
  · intro he
    rcases hd with ⟨_, h, _⟩ | ⟨h, _, _, _⟩
    · exact h
    · omega

end Ckl.C08D
