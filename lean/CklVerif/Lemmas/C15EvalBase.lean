/-
  C15Eval — how PROGRAMS reach the sequence model `Ckl.Seq`: the `deref` and `slice` node cases of `eval`,
  one unfolding step each, in terms of the outcomes of their sub-nodes.
-/
import CklVerif.Proofs.C15
import CklVerif.Proofs.C16
import CklVerif.Lemmas.C19SrcCall
set_option linter.unusedSimpArgs false
namespace Ckl.C15Eval
open Ckl

variable (ld : Loader)

/-- the value carried by every runtime error the interpreter raises itself: the string 'ERROR' -/
abbrev ERR : RVal := .str ['E', 'R', 'R', 'O', 'R']

theorem throwE_apply {α} (msg : String) (pos : Pos) (s : State) :
    (throwE msg pos : EvalM α) s = .err ERR msg pos [] s := rfl

/-! ### `getIndex` -/

theorem getIndex_int (n : Int) (pos : Pos) (s : State) : getIndex (.int n) pos s = .ok n s := rfl
theorem getIndex_bool (b : Bool) (pos : Pos) (s : State) :
    getIndex (.bool b) pos s = .ok (if b then 1 else 0) s := rfl
theorem getIndex_dec (m : Int) (e : Nat) (pos : Pos) (s : State) :
    getIndex (.dec m e) pos s = .ok (Int.tdiv m ((2 : Int) ^ e)) s := rfl

/-- the index values on which `getIndex` raises the runtime error -/
def BadIndex : RVal → Prop
  | .int _ | .bool _ | .dec _ _ | .str _ | .pat _ => False
  | _ => True

theorem getIndex_bad {idx : RVal} (h : BadIndex idx) (pos : Pos) (s : State) :
    getIndex idx pos s = .err ERR ("Invalid index " ++ typeName s idx) pos [] s := by
  cases idx <;> first | exact absurd h id | rfl

/-! ### outcomes threaded through a continuation -/

/-- `Out.andThen o k`: continue with `k` on success, propagate the runtime error / failure otherwise
    (the `bind` of `EvalM`, applied) -/
def Out.andThen {α β} (o : Out α) (k : α → State → Out β) : Out β :=
  match o with
  | .ok a s => k a s
  | .err v m p t s => .err v m p t s
  | .fail f s => .fail f s

@[simp] theorem Out.andThen_ok {α β} (a : α) (s : State) (k : α → State → Out β) :
    Out.andThen (.ok a s) k = k a s := rfl
@[simp] theorem Out.andThen_err {α β} (v m p t) (s : State) (k : α → State → Out β) :
    Out.andThen (.err v m p t s : Out α) k = .err v m p t s := rfl
@[simp] theorem Out.andThen_fail {α β} (f) (s : State) (k : α → State → Out β) :
    Out.andThen (.fail f s : Out α) k = .fail f s := rfl

theorem bind_andThen {α β} (m : EvalM α) (f : α → EvalM β) (s : State) :
    (m >>= f) s = Out.andThen (m s) (fun a s' => f a s') := by
  rw [EvalM.bind_apply]; cases m s <;> rfl

/-- `xs[i]` of the model as an outcome: the element, or the runtime error 'ERROR' "Index out of bounds" at `pos` -/
def derefOut {α} (wrap : α → RVal) (xs : List α) (pos : Pos) (i : Int) (s : State) : Out RVal :=
  match Seq.deref xs i with
  | some c => .ok (wrap c) s
  | none => .err ERR "Index out of bounds" pos [] s

theorem isAbsent_of_ne {d : Node} (h : d ≠ .absent) : (d matches .absent) = false := by
  cases d <;> first | exact absurd rfl h | rfl

/-! ### the `deref` node -/

/-- `NULL[i]` is NULL whatever the index (and the default) is -/
theorem eval_deref_null {fuel : Nat} {env : EnvId} {e idxN dflt : Node} {pos : Pos} {s s1 s2 : State}
    {idx : RVal}
    (hi : eval ld fuel env idxN s = .ok idx s1) (he : eval ld fuel env e s1 = .ok .null s2) :
    eval ld (fuel + 1) env (.deref e idxN dflt pos) s = .ok .null s2 := by
  unfold Ckl.eval
  simp only [EvalM.bind_apply, hi, he, RVal.isNull, if_true]
  rfl

theorem eval_deref_str {fuel : Nat} {env : EnvId} {e idxN : Node} {pos : Pos} {s s1 s2 : State}
    {idx : RVal} {cs : List Char}
    (hi : eval ld fuel env idxN s = .ok idx s1) (he : eval ld fuel env e s1 = .ok (.str cs) s2) :
    eval ld (fuel + 1) env (.deref e idxN .absent pos) s =
      Out.andThen (getIndex idx pos s2) (derefOut (fun c => .str [c]) cs pos) := by
  unfold Ckl.eval
  simp only [EvalM.bind_apply, hi, he, RVal.isNull, Bool.false_eq_true, if_false, Bool.not_true]
  cases getIndex idx pos s2 with
  | ok i s3 => simp only [Out.andThen_ok, derefOut]; cases Seq.deref cs i <;> rfl
  | err => rfl
  | fail => rfl

theorem eval_deref_str_dflt {fuel : Nat} {env : EnvId} {e idxN dflt : Node} {pos : Pos} {s s1 s2 : State}
    {idx : RVal} {cs : List Char} (hd : dflt ≠ .absent)
    (hi : eval ld fuel env idxN s = .ok idx s1) (he : eval ld fuel env e s1 = .ok (.str cs) s2) :
    eval ld (fuel + 1) env (.deref e idxN dflt pos) s =
      .err ERR "Default value not allowed in string dereference" pos [] s2 := by
  unfold Ckl.eval
  simp only [EvalM.bind_apply, hi, he, RVal.isNull, Bool.false_eq_true, if_false]
  cases dflt <;> first | exact absurd rfl hd | rfl

theorem eval_deref_list {fuel : Nat} {env : EnvId} {e idxN : Node} {pos : Pos} {s s1 s2 : State}
    {idx : RVal} {a : Nat} {xs : List RVal}
    (hi : eval ld fuel env idxN s = .ok idx s1) (he : eval ld fuel env e s1 = .ok (.ref a) s2)
    (hc : s2.cell a = some (.list xs)) :
    eval ld (fuel + 1) env (.deref e idxN .absent pos) s =
      Out.andThen (getIndex idx pos s2) (derefOut id xs pos) := by
  unfold Ckl.eval
  simp only [EvalM.bind_apply, hi, he, RVal.isNull, Bool.false_eq_true, if_false, Bool.not_true, cellOf, hc]
  cases getIndex idx pos s2 with
  | ok i s3 => simp only [Out.andThen_ok, derefOut]; cases Seq.deref xs i <;> rfl
  | err => rfl
  | fail => rfl

theorem eval_deref_list_dflt {fuel : Nat} {env : EnvId} {e idxN dflt : Node} {pos : Pos} {s s1 s2 : State}
    {idx : RVal} {a : Nat} {xs : List RVal} (hd : dflt ≠ .absent)
    (hi : eval ld fuel env idxN s = .ok idx s1) (he : eval ld fuel env e s1 = .ok (.ref a) s2)
    (hc : s2.cell a = some (.list xs)) :
    eval ld (fuel + 1) env (.deref e idxN dflt pos) s =
      .err ERR "Default value not allowed in list dereference" pos [] s2 := by
  unfold Ckl.eval
  simp only [EvalM.bind_apply, hi, he, RVal.isNull, Bool.false_eq_true, if_false, cellOf, hc]
  cases dflt <;> first | exact absurd rfl hd | rfl

/-- map cell: lookup by key (`mapGet`, i.e. by `equals`); a missing key without default is the runtime error,
    with a default the default expression is evaluated (only then) -/
theorem eval_deref_map_hit {fuel : Nat} {env : EnvId} {e idxN dflt : Node} {pos : Pos} {s s1 s2 : State}
    {k x : RVal} {a : Nat} {kvs : List (RVal × RVal)}
    (hi : eval ld fuel env idxN s = .ok k s1) (he : eval ld fuel env e s1 = .ok (.ref a) s2)
    (hc : s2.cell a = some (.map kvs)) (hg : mapGet s2 k kvs = some x) :
    eval ld (fuel + 1) env (.deref e idxN dflt pos) s = .ok x s2 := by
  unfold Ckl.eval
  simp only [EvalM.bind_apply, hi, he, RVal.isNull, Bool.false_eq_true, if_false, cellOf, hc, getS, hg]
  rfl

theorem eval_deref_map_miss {fuel : Nat} {env : EnvId} {e idxN : Node} {pos : Pos} {s s1 s2 : State}
    {k : RVal} {a : Nat} {kvs : List (RVal × RVal)}
    (hi : eval ld fuel env idxN s = .ok k s1) (he : eval ld fuel env e s1 = .ok (.ref a) s2)
    (hc : s2.cell a = some (.map kvs)) (hg : mapGet s2 k kvs = none) :
    eval ld (fuel + 1) env (.deref e idxN .absent pos) s = .err ERR "Map does not contain key" pos [] s2 := by
  unfold Ckl.eval
  simp only [EvalM.bind_apply, hi, he, RVal.isNull, Bool.false_eq_true, if_false, cellOf, hc, getS, hg]
  rfl

theorem eval_deref_map_dflt {fuel : Nat} {env : EnvId} {e idxN dflt : Node} {pos : Pos} {s s1 s2 : State}
    {k : RVal} {a : Nat} {kvs : List (RVal × RVal)} (hd : dflt ≠ .absent)
    (hi : eval ld fuel env idxN s = .ok k s1) (he : eval ld fuel env e s1 = .ok (.ref a) s2)
    (hc : s2.cell a = some (.map kvs)) (hg : mapGet s2 k kvs = none) :
    eval ld (fuel + 1) env (.deref e idxN dflt pos) s = eval ld fuel env dflt s2 := by
  obtain ⟨R, hR⟩ : ∃ R, R = eval ld fuel env dflt s2 := ⟨_, rfl⟩
  rw [← hR]
  unfold Ckl.eval
  simp only [EvalM.bind_apply, hi, he, RVal.isNull, Bool.false_eq_true, if_false, cellOf, hc, getS, hg]
  cases dflt <;> first | exact absurd rfl hd | exact hR.symm

/-- the values that cannot be dereferenced at all -/
def NotIndexable (s : State) : RVal → Prop
  | .null | .str _ => False
  | .ref a => match s.cell a with
    | some (.list _) | some (.map _) | some (.obj _ _) => False
    | _ => True
  | _ => True

theorem eval_deref_other {fuel : Nat} {env : EnvId} {e idxN dflt : Node} {pos : Pos} {s s1 s2 : State}
    {idx v : RVal} (hv : NotIndexable s2 v)
    (hi : eval ld fuel env idxN s = .ok idx s1) (he : eval ld fuel env e s1 = .ok v s2) :
    eval ld (fuel + 1) env (.deref e idxN dflt pos) s = .err ERR "Cannot dereference value" pos [] s2 := by
  unfold Ckl.eval
  simp only [EvalM.bind_apply, hi, he]
  cases v with
  | null => exact absurd hv id
  | str _ => exact absurd hv id
  | ref a =>
    simp only [NotIndexable] at hv
    have h0 : (RVal.ref a).isNull = false := rfl
    simp only [h0, Bool.false_eq_true, if_false, cellOf, EvalM.bind_apply]
    cases hc : s2.cell a with
    | none => rfl
    | some c => cases c <;> first | (rw [hc] at hv; exact absurd hv id) | rfl
  | _ => rfl

/-- an error or failure of the index expression is the outcome of the node: the operand is not evaluated -/
theorem eval_deref_idx_err {fuel : Nat} {env : EnvId} {e idxN dflt : Node} {pos : Pos} {s s1 : State}
    {v m p t} (hi : eval ld fuel env idxN s = .err v m p t s1) :
    eval ld (fuel + 1) env (.deref e idxN dflt pos) s = .err v m p t s1 := by
  unfold Ckl.eval
  simp only [EvalM.bind_apply, hi]

/-! ### the `slice` node -/

/-- the bounds of `s[a to b]` / `s[a to *]` (`stop = none`) through `getIndex` -/
def sliceBounds (st : RVal) (en : Option RVal) (pos : Pos) : EvalM (Int × Option Int) := do
  let a ← getIndex st pos
  match en with
  | some x => do pure (a, some (← getIndex x pos))
  | none => pure (a, none)

theorem sliceBounds_int_some (a b : Int) (pos : Pos) (s : State) :
    sliceBounds (.int a) (some (.int b)) pos s = .ok (a, some b) s := rfl
theorem sliceBounds_int_none (a : Int) (pos : Pos) (s : State) :
    sliceBounds (.int a) none pos s = .ok (a, none) s := rfl

theorem sliceBounds_some (st en : RVal) (pos : Pos) (s : State) :
    sliceBounds st (some en) pos s =
      Out.andThen (getIndex st pos s) (fun a s' => Out.andThen (getIndex en pos s') (fun b s'' => .ok (a, some b) s'')) := by
  simp only [sliceBounds, bind_andThen]; rfl

theorem sliceBounds_none (st : RVal) (pos : Pos) (s : State) :
    sliceBounds st none pos s = Out.andThen (getIndex st pos s) (fun a s' => .ok (a, none) s') := by
  simp only [sliceBounds, bind_andThen]; rfl

/-- the values that cannot be sliced -/
def NotSliceable (s : State) : RVal → Prop
  | .null | .str _ => False
  | .ref a => match s.cell a with
    | some (.list _) => False
    | _ => True
  | _ => True

section to
variable {fuel : Nat} {env : EnvId} {e startN stopN : Node} {pos : Pos} {s s1 s2 s3 : State} {st en : RVal}

/-- `s[a to b]`: the three sub-nodes are evaluated in the order operand, start, stop; NULL slices to NULL -/
theorem eval_slice_null_to (hne : stopN ≠ .absent)
    (he : eval ld fuel env e s = .ok .null s1) (hs : eval ld fuel env startN s1 = .ok st s2)
    (hp : eval ld fuel env stopN s2 = .ok en s3) :
    eval ld (fuel + 1) env (.slice e startN stopN pos) s = .ok .null s3 := by
  unfold Ckl.eval
  simp only [EvalM.bind_apply, he, hs, hp, EvalM.pure_apply, RVal.isNull, if_true, Bool.false_eq_true, if_false]

theorem eval_slice_str_to {cs : List Char} (hne : stopN ≠ .absent)
    (he : eval ld fuel env e s = .ok (.str cs) s1) (hs : eval ld fuel env startN s1 = .ok st s2)
    (hp : eval ld fuel env stopN s2 = .ok en s3) :
    eval ld (fuel + 1) env (.slice e startN stopN pos) s =
      Out.andThen (sliceBounds st (some en) pos s3) (fun ab s4 => .ok (.str (Seq.slice cs ab.1 ab.2)) s4) := by
  unfold Ckl.eval
  simp only [EvalM.bind_apply, he, hs, hp, EvalM.pure_apply, RVal.isNull, Bool.false_eq_true, if_false]
  unfold sliceBounds
  simp only [EvalM.bind_apply, EvalM.pure_apply]
  cases getIndex st pos s3 with
  | ok a s4 => simp only [Out.andThen]; cases getIndex en pos s4 <;> rfl
  | err => rfl
  | fail => rfl

theorem eval_slice_list_to {c : Nat} {xs : List RVal} (hne : stopN ≠ .absent)
    (he : eval ld fuel env e s = .ok (.ref c) s1) (hs : eval ld fuel env startN s1 = .ok st s2)
    (hp : eval ld fuel env stopN s2 = .ok en s3) (hc : s3.cell c = some (.list xs)) :
    eval ld (fuel + 1) env (.slice e startN stopN pos) s =
      Out.andThen (sliceBounds st (some en) pos s3) (fun ab s4 => newList (Seq.slice xs ab.1 ab.2) s4) := by
  unfold Ckl.eval
  simp only [EvalM.bind_apply, he, hs, hp, EvalM.pure_apply, RVal.isNull, Bool.false_eq_true, if_false, cellOf, hc]
  unfold sliceBounds
  simp only [EvalM.bind_apply, EvalM.pure_apply]
  cases getIndex st pos s3 with
  | ok a s4 => simp only [Out.andThen]; cases getIndex en pos s4 <;> rfl
  | err => rfl
  | fail => rfl

theorem eval_slice_other_to {v : RVal} (hne : stopN ≠ .absent)
    (he : eval ld fuel env e s = .ok v s1) (hs : eval ld fuel env startN s1 = .ok st s2)
    (hp : eval ld fuel env stopN s2 = .ok en s3) (hv : NotSliceable s3 v) :
    eval ld (fuel + 1) env (.slice e startN stopN pos) s = .err ERR "Cannot slice" pos [] s3 := by
  unfold Ckl.eval
  simp only [EvalM.bind_apply, he, hs, hp, EvalM.pure_apply]
  cases v with
  | null => exact absurd hv id
  | str _ => exact absurd hv id
  | ref a =>
    simp only [NotSliceable] at hv
    have h0 : (RVal.ref a).isNull = false := rfl
    simp only [h0, Bool.false_eq_true, if_false, cellOf, EvalM.bind_apply, hp, EvalM.pure_apply]
    cases hc : s3.cell a with
    | none => rfl
    | some c => cases c <;> first | (rw [hc] at hv; exact absurd hv id) | rfl
  | _ => simp only [RVal.isNull, Bool.false_eq_true, if_false, EvalM.bind_apply, hp, EvalM.pure_apply, cellOf]; rfl

end to

section star
variable {fuel : Nat} {env : EnvId} {e startN : Node} {pos : Pos} {s s1 s2 : State} {st : RVal}

/-- `s[a to *]`: operand, then start -/
theorem eval_slice_null_star
    (he : eval ld fuel env e s = .ok .null s1) (hs : eval ld fuel env startN s1 = .ok st s2) :
    eval ld (fuel + 1) env (.slice e startN .absent pos) s = .ok .null s2 := by
  unfold Ckl.eval
  simp only [EvalM.bind_apply, he, hs, EvalM.pure_apply, RVal.isNull, if_true]

theorem eval_slice_str_star {cs : List Char}
    (he : eval ld fuel env e s = .ok (.str cs) s1) (hs : eval ld fuel env startN s1 = .ok st s2) :
    eval ld (fuel + 1) env (.slice e startN .absent pos) s =
      Out.andThen (sliceBounds st none pos s2) (fun ab s4 => .ok (.str (Seq.slice cs ab.1 ab.2)) s4) := by
  unfold Ckl.eval
  simp only [EvalM.bind_apply, he, hs, EvalM.pure_apply, RVal.isNull, Bool.false_eq_true, if_false, if_true]
  unfold sliceBounds
  simp only [EvalM.bind_apply, EvalM.pure_apply]
  cases getIndex st pos s2 <;> rfl

theorem eval_slice_list_star {c : Nat} {xs : List RVal}
    (he : eval ld fuel env e s = .ok (.ref c) s1) (hs : eval ld fuel env startN s1 = .ok st s2)
    (hc : s2.cell c = some (.list xs)) :
    eval ld (fuel + 1) env (.slice e startN .absent pos) s =
      Out.andThen (sliceBounds st none pos s2) (fun ab s4 => newList (Seq.slice xs ab.1 ab.2) s4) := by
  unfold Ckl.eval
  simp only [EvalM.bind_apply, he, hs, EvalM.pure_apply, RVal.isNull, Bool.false_eq_true, if_false, if_true, cellOf, hc]
  unfold sliceBounds
  simp only [EvalM.bind_apply, EvalM.pure_apply]
  cases getIndex st pos s2 <;> rfl

theorem eval_slice_other_star {v : RVal}
    (he : eval ld fuel env e s = .ok v s1) (hs : eval ld fuel env startN s1 = .ok st s2)
    (hv : NotSliceable s2 v) :
    eval ld (fuel + 1) env (.slice e startN .absent pos) s = .err ERR "Cannot slice" pos [] s2 := by
  unfold Ckl.eval
  simp only [EvalM.bind_apply, he, hs, EvalM.pure_apply, if_true]
  cases v with
  | null => exact absurd hv id
  | str _ => exact absurd hv id
  | ref a =>
    simp only [NotSliceable] at hv
    have h0 : (RVal.ref a).isNull = false := rfl
    simp only [h0, Bool.false_eq_true, if_false, if_true, cellOf, EvalM.bind_apply, EvalM.pure_apply]
    cases hc : s2.cell a with
    | none => rfl
    | some c => cases c <;> first | (rw [hc] at hv; exact absurd hv id) | rfl
  | _ => simp only [RVal.isNull, Bool.false_eq_true, if_false, if_true, EvalM.bind_apply, EvalM.pure_apply, cellOf]; rfl

end star

end Ckl.C15Eval
