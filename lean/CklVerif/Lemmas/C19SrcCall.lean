import CklVerif.Lemmas.C19SrcBase
import CklVerif.Lemmas.C04Loops

/-! C19Src — calls: `invoke`, natives, closures -/
namespace Ckl.C19Src
open Ckl
variable (ld : Loader)

theorem notRest (p : String) (h : ¬ ("...".toList <:+ p.toList)) : p.endsWith "..." = false := by
  cases hb : p.endsWith "..." with
  | false => rfl
  | true =>
    exfalso; apply h
    have : p.toSlice.endsWith "..." = true := hb
    rw [String.Slice.endsWith_string_iff] at this
    simpa using this

theorem wrap_eq (fn : RVal) (pos : Pos) (o : Out RVal) :
    (match o with
      | .err v m p t s2 => .err v m p (t ++ [(fnName s2 fn, pos)]) s2
      | .fail (.syn e) s2 => .err (.str "ERROR".toList) e.msg pos [] s2
      | .fail (.host k) s2 => .err (.str "ERROR".toList) (fnName s2 fn ++ " failed: " ++ k) pos [] s2
      | other => other) = wrapCall fn pos o := by
  cases o with
  | ok => rfl
  | err => rfl
  | fail f s => cases f <;> rfl

theorem invoke_native {g nm i names args env pos s ns vs s1 ps bound s2}
    (hargs : evalArgs ld g env names args pos s = .ok (ns, vs) s1)
    (hps : nativeArgNames nm = some ps)
    (hset : setArgs ps ns vs pos s1 = .ok bound s2) :
    invoke ld (g+1) (.native nm i) [] names args env pos s
      = wrapCall (.native nm i) pos (callFn ld g (.native nm i) bound env pos s2) := by
  rw [invoke, EvalM.bind_apply, hargs]
  simp only [EvalM.bind_apply, getS, hps, EvalM.pure_apply, List.map_nil, List.nil_append, hset]
  exact wrap_eq _ _ _

theorem invoke_closure {g c names args env pos s ns vs s1 cenv ps ds body nm bound s2}
    (hargs : evalArgs ld g env names args pos s = .ok (ns, vs) s1)
    (hcell : s1.cell c = some (.closure cenv ps ds body nm))
    (hset : setArgs ps ns vs pos s1 = .ok bound s2) :
    invoke ld (g+1) (.closure c) [] names args env pos s
      = wrapCall (.closure c) pos (callFn ld g (.closure c) bound env pos s2) := by
  rw [invoke, EvalM.bind_apply, hargs]
  simp only [EvalM.bind_apply, getS, hcell, EvalM.pure_apply, List.map_nil, List.nil_append, hset]
  exact wrap_eq _ _ _

theorem callFn_pure {g nm i bound env pos s m}
    (hpure : callPure nm bound (div0Value s env) pos = some m) :
    callFn ld (g+1) (.native nm i) bound env pos s = m s := by
  rw [callFn, EvalM.bind_apply]; simp only [getS, hpure]

/-- call of a pure (modelled, non-calling-back) native through an identifier -/
theorem Ev.callNative {k env fname p names args pos s nm i ns vs s1 ps bound s2 m}
    (hfn : s.lookup env fname = some (.native nm i))
    (hargs : EvArgs ld k env names args pos s (.ok (ns, vs) s1))
    (hps : nativeArgNames nm = some ps)
    (hset : setArgs ps ns vs pos s1 = .ok bound s2)
    (hpure : callPure nm bound (div0Value s2 env) pos = some m) :
    Ev ld (k+2) env (.call (.ident fname p) names args pos) s (wrapCall (.native nm i) pos (m s2)) := by
  intro f hf; obtain ⟨g, rfl, hg⟩ := succ_of_lt hf
  obtain ⟨g1, rfl, hg1⟩ := succ_of_lt (show k + 1 < g by omega)
  obtain ⟨g2, rfl, hg2⟩ := succ_of_lt (show 0 < g1 by omega)
  rw [eval, EvalM.bind_apply, Ev.ident ld hfn (k := 0) _ (by omega)]
  simp only [RVal.isFunc, Bool.not_true, Bool.false_eq_true, if_false]
  rw [invoke_native ld (hargs _ (by omega)) hps hset, callFn_pure ld hpure]

/-- `fn.execute` of a closure whose parameters are all bound: a fresh frame under the closure's frame, the
    parameters put into it in order, the body evaluated there, `return v` unwrapped -/
def postCall : Out RVal → Out RVal
  | .ok (.ret v _) s' => .ok v s'
  | .ok (.brk p) s' => throwE "Cannot use break without surrounding loop" p s'
  | .ok (.cont p) s' => throwE "Cannot use continue without surrounding loop" p s'
  | .ok v s' => .ok v s'
  | .err v m p t s' => .err v m p t s'
  | .fail f s' => .fail f s'

/-- the callee frame: a new frame under `cenv` with the bound parameters put in declaration order -/
def calleeState (s : State) (cenv : EnvId) (ps : List String) (bound : List (String × RVal)) : State :=
  ps.foldl (fun st p => match dictGet p bound with | some v => st.put s.frames.size p v | none => st) (s.newEnv cenv).1

theorem bindParams_all {g : Nat} {lenv : EnvId} {bound : List (String × RVal)} {pos : Pos} :
    ∀ (ps : List String) (ds : List Node) (s : State), ps.length = ds.length → ps.length ≤ g →
      (∀ p ∈ ps, (dictGet p bound).isSome) →
      bindParams ld (g + 1) lenv ps ds bound pos s
        = .ok () (ps.foldl (fun st p => match dictGet p bound with | some v => st.put lenv p v | none => st) s) := by
  induction g with
  | zero =>
    intro ps ds s hl hg _
    cases ps with
    | nil => cases ds with
      | nil => rw [bindParams]; rfl; intro _ _ _ _ h; cases h
      | cons => cases hl
    | cons => simp at hg
  | succ g ih =>
    intro ps ds s hl hg hb
    cases ps with
    | nil => cases ds with
      | nil => rw [bindParams]; rfl; intro _ _ _ _ h; cases h
      | cons => cases hl
    | cons p ps => cases ds with
      | nil => cases hl
      | cons d ds =>
        have hp := hb p (by simp)
        cases hd : dictGet p bound with
        | none => rw [hd] at hp; cases hp
        | some v =>
          by_cases hda : d = .absent
          · subst hda
            rw [bindParams]
            simp only [EvalM.bind_apply, modifyS, List.foldl_cons, hd]
            exact ih ps ds _ (by simpa using hl) (by simp at hg; omega) (fun q hq => hb q (by simp [hq]))
          · rw [bindParams]
            · simp only [EvalM.bind_apply, modifyS, List.foldl_cons, hd]
              exact ih ps ds _ (by simpa using hl) (by simp at hg; omega) (fun q hq => hb q (by simp [hq]))
            · exact hda

theorem Calls.closure {k c bound env pos s cenv ps ds body nm r}
    (hcell : s.cell c = some (.closure cenv ps ds body nm))
    (hlen : ps.length = ds.length) (hk : ps.length ≤ k)
    (hb : ∀ p ∈ ps, (dictGet p bound).isSome)
    (hbody : Ev ld k s.frames.size body (calleeState s cenv ps bound) r) :
    Calls ld (k + 1) (.closure c) bound env pos s (postCall r) := by
  intro f hf; obtain ⟨g, rfl, hg⟩ := succ_of_lt hf
  obtain ⟨g1, rfl, hg1⟩ := succ_of_lt (show k < g by omega)
  rw [C04.callFn_closure ld hcell (bindParams_all ld ps ds _ hlen (by omega) hb)]
  have := hbody (g1 + 1) (by omega)
  unfold calleeState at this
  rw [this]
  cases r with
  | ok v s' => cases v <;> rfl
  | err => rfl
  | fail => rfl

/-- call of a closure through an identifier, given what `fn.execute` does -/
theorem Ev.callClosure {k env fname p names args pos s c ns vs s1 cenv ps ds body nm bound s2 r}
    (hfn : s.lookup env fname = some (.closure c))
    (hargs : EvArgs ld k env names args pos s (.ok (ns, vs) s1))
    (hcell : s1.cell c = some (.closure cenv ps ds body nm))
    (hset : setArgs ps ns vs pos s1 = .ok bound s2)
    (hcall : Calls ld k (.closure c) bound env pos s2 r) :
    Ev ld (k+2) env (.call (.ident fname p) names args pos) s (wrapCall (.closure c) pos r) := by
  intro f hf; obtain ⟨g, rfl, hg⟩ := succ_of_lt hf
  obtain ⟨g1, rfl, hg1⟩ := succ_of_lt (show k + 1 < g by omega)
  rw [eval, EvalM.bind_apply, Ev.ident ld hfn (k := 0) _ (by omega)]
  simp only [RVal.isFunc, Bool.not_true, Bool.false_eq_true, if_false]
  rw [invoke_closure ld (hargs _ (by omega)) hcell hset, hcall _ (by omega)]

end Ckl.C19Src
