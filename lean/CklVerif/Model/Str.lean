/-
  Layer 1 — the STRING library (property C18).  Strings are lists of code
  points (`List Char`).  Mirrors

  * the built-ins of functions.py: `contains` (string case), `starts_with`,
    `ends_with`, `find`, `length`, `add` (string + string), `trim`, `upper`,
    `lower` (ASCII only, see below), `chr`, `ord`, `escape_pattern`,
    `split` + `splitValue` (LITERAL patterns only, see below) and `s`
    (string interpolation);
  * the `in` operator of nodes.py on strings;
  * the functions written in the language itself: `reverse`, `replace`,
    `join` (modules/string.ckl), `unlines`, `unwords` (modules/core.ckl).

  Loops of the code are mirrored as structural recursions; the two
  non-structural recursions (`replace`, the scanning loop of `s`) and the
  left-to-right scan of `re.split` carry explicit FUEL (`length + 1`), and
  `Proofs/C18.lean` proves that the fuel always suffices.

  Restrictions of the model (everything else answers `Res.unsup`):
  * `upper`/`lower`: only ASCII letters are mapped; the model leaves every
    other character unchanged, so it agrees with Python only on ASCII input
    (the driver answers `unsupported` for non-ASCII input).
  * `split`: the separator is a regular expression in the code.  Only patterns
    that denote a LITERAL are modelled: a sequence of non-metacharacters and of
    backslash-escaped special characters (the image of `re.escape`).
  * `s`: the expression inside `{…}` is evaluated by a PARAMETER `ev`
    (`ok` rendered string, `err` = the evaluation raises, `unsup` = not modelled); width / digits must be
    plain ASCII digit strings; `#…x` (hex) is modelled for values that are
    ASCII digit strings; `.digits` rounding is delegated to a parameter `rnd`.
  * `chr`: surrogate code points cannot be represented by `Char`.
  * `replace` recurses once per occurrence in the real code: CPython's recursion limit makes the
    real function raise (RecursionError, reported as runtime error) from 198 occurrences on;
    the model has no such bound.
-/
import CklVerif.Model.Seq
namespace Ckl.Str

abbrev S := List Char

/-- three-valued result: value, runtime error of the language, outside the modelled domain -/
inductive Res (α : Type) where
  | ok (a : α)
  | err
  | unsup
deriving DecidableEq, Repr

/-! ## searching -/

/-- `find(str, part, start = start)` on strings -/
def findM (s t : S) (start : Int) : Int := Seq.find s t start

/-- `contains(str, part)`: `text.find(part) != -1` -/
def containsM (s t : S) : Bool := decide (Seq.find s t 0 ≠ -1)

/-- `part in str` (NodeIn, string container): `container.value.find(value.value) != -1` -/
def inM (s t : S) : Bool := decide (Seq.find s t 0 ≠ -1)

/-- `starts_with(str, part)`: Python `str.startswith` -/
def startsWithM (s t : S) : Bool := Seq.isPrefixB t s

/-- `ends_with(str, part)`: Python `str.endswith` = the last `len(part)` characters are `part` -/
def endsWithM (s t : S) : Bool :=
  decide (t.length ≤ s.length) && (s.drop (s.length - t.length) == t)

/-- `length(str)` -/
def lengthM (s : S) : Int := s.length

/-- `a + b` on two strings -/
def concat (a b : S) : S := a ++ b

/-! ## `replace` (modules/string.ckl) -/

/-- one unfolding of the recursive definition per unit of fuel:
    `if a == '' then return s; pos = find(s, a, start = start); if pos == -1 then return s;
     return replace(substr(s, 0, pos) + b + substr(s, pos + length(a)), a, b, start = pos + length(b))` -/
def replaceFuel : Nat → S → S → S → Int → S
  | 0, s, _, _, _ => s
  | fuel + 1, s, a, b, start =>
    if a = [] then s
    else
      let pos := Seq.find s a start
      if pos = -1 then s
      else
        replaceFuel fuel
          (Seq.substr s 0 (some pos) ++ b ++ Seq.substr s (pos + a.length) none) a b
          (pos + b.length)

/-- `replace(s, a, b, start)`; `Ckl.C18.replaceFuel_stable` shows more fuel changes nothing -/
def replaceM (s a b : S) (start : Int) : S := replaceFuel (s.length + 1) s a b start

/-! ## `join`, `unlines`, `unwords` -/

/-- `join(lst, sep)` on a list of strings:
    `result = ""; for element in lst: result = result + sep + element; substr(result, length(sep))` -/
def joinM (sep : S) (xs : List S) : S :=
  Seq.substr (xs.foldl (fun result element => result ++ sep ++ element) []) sep.length none

def unlinesM (xs : List S) : S := joinM ['\n'] xs
def unwordsM (xs : List S) : S := joinM [' '] xs

/-! ## `reverse` (modules/string.ckl), `trim`, `upper`, `lower`, `chr`, `ord` -/

/-- `result = ""; for ch in str: result = ch + result` -/
def reverseM (s : S) : S := s.foldl (fun result ch => ch :: result) []

/-- Python `str.isspace` for one character -/
def pyIsSpace (c : Char) : Bool :=
  let n := c.toNat
  (9 ≤ n && n ≤ 13) || (28 ≤ n && n ≤ 32) || n = 0x85 || n = 0xA0 || n = 0x1680 ||
  (0x2000 ≤ n && n ≤ 0x200A) || n = 0x2028 || n = 0x2029 || n = 0x202F || n = 0x205F || n = 0x3000

/-- `trim(str)`: Python `str.strip()` -/
def trimM (s : S) : S :=
  ((s.dropWhile pyIsSpace).reverse.dropWhile pyIsSpace).reverse

def upperC (c : Char) : Char :=
  if 97 ≤ c.toNat ∧ c.toNat ≤ 122 then Char.ofNat (c.toNat - 32) else c

def lowerC (c : Char) : Char :=
  if 65 ≤ c.toNat ∧ c.toNat ≤ 90 then Char.ofNat (c.toNat + 32) else c

/-- `upper(str)` restricted to ASCII: non-ASCII characters are left unchanged by the MODEL
    (Python maps e.g. `ß` to `SS`); only ASCII inputs are covered -/
def upperM (s : S) : S := s.map upperC
def lowerM (s : S) : S := s.map lowerC

def isAscii (s : S) : Bool := s.all (fun c => c.toNat < 128)

/-- `chr(n)`: `ValueError` (reported as the runtime error) outside `range(0x110000)`;
    surrogates are outside the model -/
def chrM (n : Int) : Res S :=
  if n < 0 ∨ n ≥ 0x110000 then .err
  else if 0xD800 ≤ n ∧ n ≤ 0xDFFF then .unsup
  else .ok [Char.ofNat n.toNat]

/-- `ord(ch)`: code point of the FIRST character; `IndexError` (runtime error) on the empty string -/
def ordM : S → Res Int
  | [] => .err
  | c :: _ => .ok c.toNat

/-! ## `escape_pattern` and `split` with a literal separator -/

/-- the characters escaped by Python's `re.escape`: `()[]{}?*+-|^$\.&~# \t\n\r\v\f` -/
def reSpecial : S :=
  ['(', ')', '[', ']', '{', '}', '?', '*', '+', '-', '|', '^', '$', '\\', '.', '&', '~', '#',
   ' ', '\t', '\n', '\r', Char.ofNat 11, Char.ofNat 12]

/-- `escape_pattern(s)` = `re.escape(s)` -/
def escapeM : S → S
  | [] => []
  | c :: cs => if reSpecial.contains c then '\\' :: c :: escapeM cs else c :: escapeM cs

/-- regular-expression metacharacters (outside character classes, no VERBOSE flag) -/
def reMeta : S := ['.', '^', '$', '*', '+', '?', '{', '}', '[', ']', '\\', '|', '(', ')']

/-- the literal denoted by a pattern made of non-metacharacters and of `\c` with `c` a
    special character of `re.escape`; `none` = a genuine regular expression (not modelled) -/
def patLiteral? : S → Option S
  | [] => some []
  | '\\' :: c :: cs => if reSpecial.contains c then (patLiteral? cs).map (c :: ·) else none
  | c :: cs => if reMeta.contains c then none else (patLiteral? cs).map (c :: ·)

/-- prepend a character to the first piece -/
def consHead (c : Char) : List S → List S
  | [] => [[c]]
  | p :: ps => (c :: p) :: ps

/-- Python `re.split(sep, s)` for a literal non-empty `sep`: cut at the non-overlapping
    occurrences found left to right (fuel: one unit per step, `length s + 1` suffices) -/
def splitFuel (sep : S) : Nat → S → List S
  | 0, _ => [[]]
  | _ + 1, [] => [[]]
  | fuel + 1, c :: cs =>
    if Seq.isPrefixB sep (c :: cs) then [] :: splitFuel sep fuel ((c :: cs).drop sep.length)
    else consHead c (splitFuel sep fuel cs)

/-- `splitValue(value, delim)` for the literal `sep` -/
def splitLit (s sep : S) : List S :=
  if s = [] then []
  else if sep = [] then s.map (fun ch => [ch])
  else splitFuel sep (s.length + 1) s

/-- `split(str, delim)` where the pattern text `pat` denotes a literal -/
def splitM (s pat : S) : Res (List S) :=
  match patLiteral? pat with
  | some sep => .ok (splitLit s sep)
  | none => .unsup

/-! ## `s(template)`: string interpolation -/

def isDigitC (c : Char) : Bool := 48 ≤ c.toNat && c.toNat ≤ 57

/-- value of an ASCII digit string (most significant first), accumulator style -/
def digitsVal : S → Nat → Nat
  | [], acc => acc
  | c :: cs, acc => digitsVal cs (acc * 10 + (c.toNat - 48))

/-- `int(spec or "0")` for plain ASCII digit strings; `none` = not modelled
    (Python accepts signs, blanks, underscores, other digits; or raises `ValueError`) -/
def natOfDigits? (s : S) : Option Nat :=
  if s.all isDigitC then some (digitsVal s 0) else none

def hexDigitC (n : Nat) : Char := if n < 10 then Char.ofNat (48 + n) else Char.ofNat (87 + n)

/-- lower-case hexadecimal digits of `n`, fuel = a bound on the number of digits -/
def hexFuel : Nat → Nat → S → S
  | 0, _, acc => acc
  | fuel + 1, n, acc => if n < 16 then hexDigitC n :: acc else hexFuel fuel (n / 16) (hexDigitC (n % 16) :: acc)

/-- `f"{n:x}"` for `n ≥ 0` -/
def toHex (n : Nat) : S := hexFuel (n + 1) n []

/-- `f"{int(value):x}"` when `value` is a non-empty ASCII digit string -/
def hexOf (value : S) : Res S :=
  if value ≠ [] ∧ value.all isDigitC then .ok (toHex (digitsVal value 0)) else .unsup

/-- format specification after `#` -/
structure Spec where
  width : Nat := 0
  zeroes : Bool := false
  leading : Bool := true
  digits : Option Nat := none
  hex : Bool := false
deriving DecidableEq, Repr

def stripPrefixC (c : Char) : S → Option S
  | d :: ds => if d = c then some ds else none
  | [] => none

/-- the parsing of `spec` in `FuncS.execute` -/
def parseSpec (spec : S) : Option Spec :=
  let (leading, spec) := match stripPrefixC '-' spec with
    | some r => (false, r)
    | none => (true, spec)
  let (zeroes, leading, spec) := match stripPrefixC '0' spec with
    | some r => (true, false, r)
    | none => (false, leading, spec)
  let (hex, spec) := if spec.getLast? = some 'x' then (true, spec.dropLast) else (false, spec)
  let idx4 := Seq.find spec ['.'] 0
  if idx4 = -1 then
    (natOfDigits? spec).map fun w => { width := w, zeroes, leading, digits := none, hex }
  else
    match natOfDigits? (spec.drop (idx4.toNat + 1)), natOfDigits? (spec.take idx4.toNat) with
    | some d, some w => some { width := w, zeroes, leading, digits := some d, hex }
    | _, _ => none

/-- `n` rounds of the body of `while len(value) < width` -/
def padLoop (leading zeroes : Bool) : Nat → S → S
  | 0, v => v
  | n + 1, v =>
    padLoop leading zeroes n
      (if leading then ' ' :: v else if zeroes then '0' :: v else v ++ [' '])

/-- the padding loop: it runs `width - len(value)` times -/
def padM (sp : Spec) (value : S) : S :=
  padLoop sp.leading sp.zeroes (sp.width - value.length) value

/-- split `variable` at the first `#` into expression text and parsed spec -/
def splitVar (var : S) : Option (S × Spec) :=
  let idx3 := Seq.find var ['#'] 0
  if idx3 = -1 then some (var, {})
  else (parseSpec (var.drop (idx3.toNat + 1))).map fun sp => (var.take idx3.toNat, sp)

/-- conversion of the rendered value: hex, rounding (parameter), or unchanged -/
def convertM (rnd : S → Nat → Res S) (sp : Spec) (value : S) : Res S :=
  if sp.hex then hexOf value
  else match sp.digits with
    | some d => rnd value d
    | none => .ok value

/-- the `while True` loop of `FuncS.execute`; one placeholder per unit of fuel -/
def sLoop (ev : S → Res S) (rnd : S → Nat → Res S) : Nat → S → Int → Res S
  | 0, s, _ => .ok s
  | fuel + 1, s, start =>
    let idx1 := Seq.find s ['{'] start
    if idx1 = -1 then .ok s
    else
      let idx2 := Seq.find s ['}'] (idx1 + 1)
      if idx2 = -1 then .ok s
      else
        match splitVar (Seq.pySlice s (idx1 + 1) idx2) with
        | none => .unsup
        | some (var, sp) =>
          match ev var with
          | .err => .err
          | .unsup => .unsup
          | .ok value =>
            match convertM rnd sp value with
            | .ok value =>
              let value := padM sp value
              sLoop ev rnd fuel (s.take idx1.toNat ++ value ++ s.drop (idx2.toNat + 1))
                (idx1 + value.length)
            | .err => .err
            | .unsup => .unsup

/-- no rounding support: `.digits` answers `unsup` -/
def noRound : S → Nat → Res S := fun _ _ => .unsup

/-- `s(template)` (start = 0) -/
def sM (ev : S → Res S) (rnd : S → Nat → Res S) (template : S) : Res S :=
  sLoop ev rnd (template.length + 1) template 0

end Ckl.Str
