/- driver handler: the scanner model (`(scan s:HEX)`) -/
import CklVerif.Driver.AstCodec
import CklVerif.Model.Lexer
namespace Ckl
open Sx

/-- `(scan s:HEX)` → `(toks (tok TYPE s:HEX LINE COL)…)` or `(syn s:HEX LINE)`;
    the scanner is run with the file name `f` like the harness does -/
def handleLexer : Sx → Option Sx
  | .list [.atom "scan", .atom a] => do
      let src ← if a.startsWith "s:" then decodeStr (a.drop 2).toString else none
      match Lexer.scan src "f" with
      | .ok toks => some (.list (.atom "toks" :: toks.map encodeToken))
      | .error e => some (.list [.atom "syn", .atom ("s:" ++ encodeStr e.msg.toList), .atom (toString e.pos.line)])
  | _ => none

end Ckl
