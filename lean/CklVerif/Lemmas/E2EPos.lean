/-
  E2E — the two `positions` functions agree: `Node.positions` (evaluator proofs, `Lemmas/C20EvalPos.lean`: own
  position first) and `C14P.positions` (parser proofs, `Lemmas/C14ParsePositions.lean`: own position last) list the
  same positions.
-/
import CklVerif.Lemmas.C20EvalPos
import CklVerif.Lemmas.C14ParsePositions
namespace Ckl.E2E
set_option linter.unusedSimpArgs false
open Ckl

mutual
theorem mem_positions_bridge : ∀ (n : Node) (q : Pos), q ∈ n.positions ↔ q ∈ C14P.positions n
  | .absent, q => Iff.rfl
  | .catchAll, q => Iff.rfl
  | .null x0, q => by simp only [Node.positions, C14P.positions, List.mem_cons, List.mem_append, List.mem_singleton, List.not_mem_nil, or_false, false_or]
  | .lit x0 x1, q => by simp only [Node.positions, C14P.positions, List.mem_cons, List.mem_append, List.mem_singleton, List.not_mem_nil, or_false, false_or]
  | .ident x0 x1, q => by simp only [Node.positions, C14P.positions, List.mem_cons, List.mem_append, List.mem_singleton, List.not_mem_nil, or_false, false_or]
  | .and x0 x1, q => by
    simp only [Node.positions, C14P.positions, List.mem_cons, List.mem_append, List.mem_singleton, List.not_mem_nil, or_false, false_or, mem_positionsL_bridge x0 q]
    simp only [or_comm, or_left_comm, or_assoc]
  | .or x0 x1, q => by
    simp only [Node.positions, C14P.positions, List.mem_cons, List.mem_append, List.mem_singleton, List.not_mem_nil, or_false, false_or, mem_positionsL_bridge x0 q]
    simp only [or_comm, or_left_comm, or_assoc]
  | .not x0 x1, q => by
    simp only [Node.positions, C14P.positions, List.mem_cons, List.mem_append, List.mem_singleton, List.not_mem_nil, or_false, false_or, mem_positions_bridge x0 q]
    simp only [or_comm, or_left_comm, or_assoc]
  | .assign x0 x1 x2, q => by
    simp only [Node.positions, C14P.positions, List.mem_cons, List.mem_append, List.mem_singleton, List.not_mem_nil, or_false, false_or, mem_positions_bridge x1 q]
    simp only [or_comm, or_left_comm, or_assoc]
  | .assignD x0 x1 x2, q => by
    simp only [Node.positions, C14P.positions, List.mem_cons, List.mem_append, List.mem_singleton, List.not_mem_nil, or_false, false_or, mem_positions_bridge x1 q]
    simp only [or_comm, or_left_comm, or_assoc]
  | .block x0 x1 x2 x3 x4 x5, q => by
    simp only [Node.positions, C14P.positions, List.mem_cons, List.mem_append, List.mem_singleton, List.not_mem_nil, or_false, false_or, mem_positionsL_bridge x0 q, mem_positionsL_bridge x1 q, mem_positionsL_bridge x2 q, mem_positionsL_bridge x3 q]
    simp only [or_comm, or_left_comm, or_assoc]
  | .brk x0, q => by simp only [Node.positions, C14P.positions, List.mem_cons, List.mem_append, List.mem_singleton, List.not_mem_nil, or_false, false_or]
  | .cont x0, q => by simp only [Node.positions, C14P.positions, List.mem_cons, List.mem_append, List.mem_singleton, List.not_mem_nil, or_false, false_or]
  | .cls x0 x1 x2, q => by
    simp only [Node.positions, C14P.positions, List.mem_cons, List.mem_append, List.mem_singleton, List.not_mem_nil, or_false, false_or, mem_positionsL_bridge x1 q]
    simp only [or_comm, or_left_comm, or_assoc]
  | .defn x0 x1 x2 x3, q => by
    simp only [Node.positions, C14P.positions, List.mem_cons, List.mem_append, List.mem_singleton, List.not_mem_nil, or_false, false_or, mem_positions_bridge x1 q]
    simp only [or_comm, or_left_comm, or_assoc]
  | .defD x0 x1 x2 x3, q => by
    simp only [Node.positions, C14P.positions, List.mem_cons, List.mem_append, List.mem_singleton, List.not_mem_nil, or_false, false_or, mem_positions_bridge x1 q]
    simp only [or_comm, or_left_comm, or_assoc]
  | .deref x0 x1 x2 x3, q => by
    simp only [Node.positions, C14P.positions, List.mem_cons, List.mem_append, List.mem_singleton, List.not_mem_nil, or_false, false_or, mem_positions_bridge x0 q, mem_positions_bridge x1 q, mem_positions_bridge x2 q]
    simp only [or_comm, or_left_comm, or_assoc]
  | .derefAssign x0 x1 x2 x3, q => by
    simp only [Node.positions, C14P.positions, List.mem_cons, List.mem_append, List.mem_singleton, List.not_mem_nil, or_false, false_or, mem_positions_bridge x0 q, mem_positions_bridge x1 q, mem_positions_bridge x2 q]
    simp only [or_comm, or_left_comm, or_assoc]
  | .derefInvoke x0 x1 x2 x3 x4, q => by
    simp only [Node.positions, C14P.positions, List.mem_cons, List.mem_append, List.mem_singleton, List.not_mem_nil, or_false, false_or, mem_positions_bridge x0 q, mem_positionsL_bridge x3 q]
    simp only [or_comm, or_left_comm, or_assoc]
  | .slice x0 x1 x2 x3, q => by
    simp only [Node.positions, C14P.positions, List.mem_cons, List.mem_append, List.mem_singleton, List.not_mem_nil, or_false, false_or, mem_positions_bridge x0 q, mem_positions_bridge x1 q, mem_positions_bridge x2 q]
    simp only [or_comm, or_left_comm, or_assoc]
  | .error x0 x1, q => by
    simp only [Node.positions, C14P.positions, List.mem_cons, List.mem_append, List.mem_singleton, List.not_mem_nil, or_false, false_or, mem_positions_bridge x0 q]
    simp only [or_comm, or_left_comm, or_assoc]
  | .for x0 x1 x2 x3 x4, q => by
    simp only [Node.positions, C14P.positions, List.mem_cons, List.mem_append, List.mem_singleton, List.not_mem_nil, or_false, false_or, mem_positions_bridge x1 q, mem_positions_bridge x2 q]
    simp only [or_comm, or_left_comm, or_assoc]
  | .call x0 x1 x2 x3, q => by
    simp only [Node.positions, C14P.positions, List.mem_cons, List.mem_append, List.mem_singleton, List.not_mem_nil, or_false, false_or, mem_positions_bridge x0 q, mem_positionsL_bridge x2 q]
    simp only [or_comm, or_left_comm, or_assoc]
  | .ite x0 x1 x2 x3, q => by
    simp only [Node.positions, C14P.positions, List.mem_cons, List.mem_append, List.mem_singleton, List.not_mem_nil, or_false, false_or, mem_positionsL_bridge x0 q, mem_positionsL_bridge x1 q, mem_positions_bridge x2 q]
    simp only [or_comm, or_left_comm, or_assoc]
  | .isIn x0 x1 x2, q => by
    simp only [Node.positions, C14P.positions, List.mem_cons, List.mem_append, List.mem_singleton, List.not_mem_nil, or_false, false_or, mem_positions_bridge x0 q, mem_positions_bridge x1 q]
    simp only [or_comm, or_left_comm, or_assoc]
  | .lambda x0 x1 x2 x3, q => by
    simp only [Node.positions, C14P.positions, List.mem_cons, List.mem_append, List.mem_singleton, List.not_mem_nil, or_false, false_or, mem_positionsL_bridge x1 q, mem_positions_bridge x2 q]
    simp only [or_comm, or_left_comm, or_assoc]
  | .list x0 x1, q => by
    simp only [Node.positions, C14P.positions, List.mem_cons, List.mem_append, List.mem_singleton, List.not_mem_nil, or_false, false_or, mem_positionsL_bridge x0 q]
    simp only [or_comm, or_left_comm, or_assoc]
  | .compr x0 x1 x2 x3 x4 x5 x6 x7 x8 x9 x10 x11, q => by
    simp only [Node.positions, C14P.positions, List.mem_cons, List.mem_append, List.mem_singleton, List.not_mem_nil, or_false, false_or, mem_positions_bridge x2 q, mem_positions_bridge x3 q, mem_positions_bridge x5 q, mem_positions_bridge x8 q, mem_positions_bridge x10 q]
    simp only [or_comm, or_left_comm, or_assoc]
  | .map x0 x1 x2, q => by
    simp only [Node.positions, C14P.positions, List.mem_cons, List.mem_append, List.mem_singleton, List.not_mem_nil, or_false, false_or, mem_positionsL_bridge x0 q, mem_positionsL_bridge x1 q]
    simp only [or_comm, or_left_comm, or_assoc]
  | .object x0 x1 x2, q => by
    simp only [Node.positions, C14P.positions, List.mem_cons, List.mem_append, List.mem_singleton, List.not_mem_nil, or_false, false_or, mem_positionsL_bridge x1 q]
    simp only [or_comm, or_left_comm, or_assoc]
  | .require x0 x1 x2 x3 x4, q => by
    simp only [Node.positions, C14P.positions, List.mem_cons, List.mem_append, List.mem_singleton, List.not_mem_nil, or_false, false_or, mem_positions_bridge x0 q]
    simp only [or_comm, or_left_comm, or_assoc]
  | .ret x0 x1, q => by
    simp only [Node.positions, C14P.positions, List.mem_cons, List.mem_append, List.mem_singleton, List.not_mem_nil, or_false, false_or, mem_positions_bridge x0 q]
    simp only [or_comm, or_left_comm, or_assoc]
  | .set x0 x1, q => by
    simp only [Node.positions, C14P.positions, List.mem_cons, List.mem_append, List.mem_singleton, List.not_mem_nil, or_false, false_or, mem_positionsL_bridge x0 q]
    simp only [or_comm, or_left_comm, or_assoc]
  | .spread x0 x1, q => by
    simp only [Node.positions, C14P.positions, List.mem_cons, List.mem_append, List.mem_singleton, List.not_mem_nil, or_false, false_or, mem_positions_bridge x0 q]
    simp only [or_comm, or_left_comm, or_assoc]
  | .while x0 x1 x2, q => by
    simp only [Node.positions, C14P.positions, List.mem_cons, List.mem_append, List.mem_singleton, List.not_mem_nil, or_false, false_or, mem_positions_bridge x0 q, mem_positions_bridge x1 q]
    simp only [or_comm, or_left_comm, or_assoc]
theorem mem_positionsL_bridge : ∀ (ns : List Node) (q : Pos), q ∈ Node.positionsL ns ↔ q ∈ C14P.positionsL ns
  | [], q => Iff.rfl
  | n :: ns, q => by
    simp only [Node.positionsL, C14P.positionsL, List.mem_append, mem_positions_bridge n q, mem_positionsL_bridge ns q]
end

end Ckl.E2E
