"""Table extractors: regenerate lean/CklVerif/Gen/*.lean from /repo on every run."""
import importlib
import os

EXTRACTORS = ["natives", "predtable", "syntaxtab", "libsrc"]   # module names under harness.extract, each with generate() -> (path, text, problems)


def regenerate_all():
    problems = []
    for name in EXTRACTORS:
        mod = importlib.import_module(f"harness.extract.{name}")
        path, text, probs = mod.generate()
        problems += probs
        old = None
        if os.path.exists(path):
            old = open(path, encoding="utf-8").read()
        if old != text:
            os.makedirs(os.path.dirname(path), exist_ok=True)
            with open(path, "w", encoding="utf-8") as fh:
                fh.write(text)
    return problems
