import CklVerif.Model.Seq

/-!
  C15 helper lemmas: clamped bounds of slices, closed form of `slice` / `substr`.
-/
namespace Ckl.C15
open Ckl.Seq

variable {α : Type}

/-- index adjusted once by the length when negative -/
def adj (n i : Int) : Int := if i < 0 then i + n else i

/-- clamped lower bound of `s[a to b]` for a sequence of length `n` -/
def sliceLo (n a : Int) : Int := max 0 (adj n a)

/-- clamped upper bound of `s[a to b]` for a sequence of length `n` (`none` = `to *`) -/
def sliceHi (n : Int) (b : Option Int) : Int := min n (max 0 (adj n (b.getD n)))

theorem sliceLo_nonneg (n a : Int) : 0 ≤ sliceLo n a := by
  unfold sliceLo; omega

theorem sliceHi_nonneg (n : Int) (hn : 0 ≤ n) (b : Option Int) : 0 ≤ sliceHi n b := by
  unfold sliceHi; omega

theorem sliceHi_le (n : Int) (b : Option Int) : sliceHi n b ≤ n := by
  unfold sliceHi; omega

theorem sliceHi_none (n : Int) (hn : 0 ≤ n) : sliceHi n none = n := by
  unfold sliceHi adj; simp only [Option.getD_none]; split <;> omega

/-- closed form of `slice` -/
theorem slice_eq (s : List α) (a : Int) (b : Option Int) :
    slice s a b =
      (s.drop (sliceLo s.length a).toNat).take
        ((sliceHi s.length b).toNat - (sliceLo s.length a).toNat) := by
  unfold slice pySlice sliceLo sliceHi adj
  simp only []
  have e1 : (if (if a < 0 then a + (s.length : Int) else a) < 0 then 0
      else (if a < 0 then a + (s.length : Int) else a))
      = max 0 (if a < 0 then a + (s.length : Int) else a) := by
    split <;> omega
  generalize (b.getD (s.length : Int)) = e
  have e2 : (if (if (if e < 0 then e + (s.length : Int) else e) < 0 then 0
        else (if e < 0 then e + (s.length : Int) else e)) > (s.length : Int) then (s.length : Int)
      else (if (if e < 0 then e + (s.length : Int) else e) < 0 then 0
        else (if e < 0 then e + (s.length : Int) else e)))
      = min (s.length : Int) (max 0 (if e < 0 then e + (s.length : Int) else e)) := by
    (repeat' split) <;> omega
  rw [e1, e2]

/-- closed form of `substr`: the same as `slice` -/
theorem substr_eq_slice (s : List α) (a : Int) (b : Option Int) :
    substr s a b = slice s a b := by
  rw [slice_eq]
  unfold substr pySlice sliceLo sliceHi adj
  simp only []
  generalize (b.getD (s.length : Int)) = e
  have e1 : (if (if a < 0 then (s.length : Int) + a else a) < 0 then 0
      else (if a < 0 then (s.length : Int) + a else a))
      = max 0 (if a < 0 then a + (s.length : Int) else a) := by
    (repeat' split) <;> omega
  rw [e1]
  by_cases h : max 0 (if a < 0 then a + (s.length : Int) else a) > (s.length : Int)
  · rw [if_pos h, List.drop_eq_nil_of_le (by omega)]
    exact List.take_nil.symm
  · rw [if_neg h]
    have e2 : (if (if (if e < 0 then (s.length : Int) + e else e) < 0 then 0
          else (if e < 0 then (s.length : Int) + e else e)) > (s.length : Int) then (s.length : Int)
        else (if (if e < 0 then (s.length : Int) + e else e) < 0 then 0
          else (if e < 0 then (s.length : Int) + e else e)))
        = min (s.length : Int) (max 0 (if e < 0 then e + (s.length : Int) else e)) := by
      (repeat' split) <;> omega
    rw [e2]

/-- a `take` of a `drop` is a contiguous infix -/
theorem drop_take_infix (s : List α) (i k : Nat) :
    ∃ p q, s = p ++ (s.drop i).take k ++ q :=
  ⟨s.take i, (s.drop i).drop k, by
    rw [List.append_assoc, List.take_append_drop, List.take_append_drop]⟩

end Ckl.C15
