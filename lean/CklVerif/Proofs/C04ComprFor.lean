import CklVerif.Proofs.C04Compr
import CklVerif.Lemmas.C04ComprFor
import CklVerif.Proofs.C17Eval

/-!
  C04Compr — the LOOP side and the comparison: the explicit loop
      `def r = []; for x in e do if cond then append(r, ve) end; r`
  (the AST `forAppend`, exactly what `parseScript` makes of that text: see the `#guard` at the end) yields a fresh list cell
  holding the same `(xs.filter c).map g` as the comprehension `[ve for x in e if cond]`.

  The differences between the two programs, all visible in the statements:
  * the comprehension binds `x` in a NEW child frame (`s.frames.size`) of the current frame, which stays behind with `x` bound to
    the last item; the loop binds `x` in the CURRENT frame `env` and removes it at the end (it must not be bound there before:
    `hx`), and the current frame gains `r`;
  * so the purity hypotheses are about different states: child frame binding `x` (comprehension) / current frame binding `r` and
    `x`, the result cell holding the elements collected so far (loop).  They are two families of hypotheses; that one follows
    from the other needs a frame-independence theorem for `cond` / `ve` which is not part of this family;
  * the loop needs `append` to resolve to the built-in, `r ≠ x`, and `ve` not to be a spread argument (`append(r, ...ve)`).
-/
namespace Ckl.C04Compr
open Ckl Ckl.C03 Ckl.C19Src
variable (ld : Loader)

/-! ## 2. the explicit loop -/

/-- **the loop program yields a FRESH list cell holding `(xs.filter c).map g`**; every cell that existed is unchanged, the output
    is unchanged, no frame is added, every frame other than the current one is unchanged, and the current frame has gained `r`
    (the loop variable is removed again) -/
theorem for_append_filter_map {k kc kv : Nat} {env : EnvId} {r x : String} {e cond ve : Node} {info what : String} {b : Bool}
    {p0 p1 p2 p3 p4 p5 p6 p7 p8 p9 : Pos} {s : State} {a i0 : Nat} {xs : List RVal}
    (c : RVal → Bool) (g : RVal → RVal)
    (henv : env < s.frames.size) (hrx : r ≠ x) (hra : r ≠ "append") (hxa : x ≠ "append")
    (hx : dictGet x (s.frame env).vars = none)
    (happ : s.lookup env "append" = some (.native "append" i0))
    (hns : NotSpread ve)
    (he : Ev ld k env e (loopSt s env r p0 []) (.ok (.ref a) (loopSt s env r p0 [])))
    (hca : s.cell a = some (.list xs))
    (hcond : ∀ i v, xs[i]? = some v → Ev ld kc env cond ((loopSt s env r p0 (done xs c g i)).put env x v)
      (.ok (.bool (c v)) ((loopSt s env r p0 (done xs c g i)).put env x v)))
    (hve : ∀ i v, xs[i]? = some v → c v = true → Ev ld kv env ve ((loopSt s env r p0 (done xs c g i)).put env x v)
      (.ok (g v) ((loopSt s env r p0 (done xs c g i)).put env x v))) :
    ∃ s', Ev ld (max k (max kc kv) + xs.length + 16) env (forAppend r x e cond ve info what b p0 p1 p2 p3 p4 p5 p6 p7 p8 p9) s
        (.ok (.ref s.heap.size) s') ∧
      s'.cell s.heap.size = some (.list ((xs.filter c).map g)) ∧ s'.heap.size = s.heap.size + 1 ∧
      (∀ d, d < s.heap.size → s'.cell d = s.cell d) ∧ s'.out = s.out ∧ s'.frames.size = s.frames.size ∧
      (∀ f, f ≠ env → s'.frame f = s.frame f) ∧
      (s'.frame env).vars = dictPut r (.ref s.heap.size) (s.frame env).vars := by
  refine ⟨_, for_append_ev ld c g henv hrx hra hxa hx happ hns he hca hcond hve, ?_, ?_, ?_, ?_, ?_, ?_, ?_⟩
  · exact loopSt_cell_new s env r p0 _
  · exact loopSt_heap_size s env r p0 _
  · exact fun d hd => loopSt_cell_old s env r p0 _ hd
  · rfl
  · exact loopSt_frames_size s env r p0 _
  · exact fun f hf => loopSt_frame_other s r p0 _ hf
  · exact loopSt_vars s r p0 _ henv

/-- **`compr_equals_loop_list`**: run from the same state, the comprehension `[ve for x in e if cond]` and the loop program yield
    references to cells with EQUAL contents — the same list of values `(xs.filter c).map g`, hence the same rendering and the
    same reified value whenever the elements are data; both cells are fresh: the addresses are the heap sizes after the evaluation of the
    source expression (comprehension) / before the program (loop) -/
theorem compr_equals_loop_list {k k' kc kv kc' kv' : Nat} {env : EnvId} {r x : String} {e cond ve ke l2 : Node}
    {w1 w2 : Option String} {id2 info what : String} {b : Bool} {pos p0 p1 p2 p3 p4 p5 p6 p7 p8 p9 : Pos}
    {s s1 : State} {a a' i0 : Nat} {xs : List RVal} (c : RVal → Bool) (g : RVal → RVal)
    -- the comprehension: source in the current frame, filter and element in the child frame
    (he : Ev ld k env e (s.newEnv env).1 (.ok (.ref a) s1)) (hc : s1.cell a = some (.list xs))
    (hcond : ∀ v ∈ xs, Ev ld kc s.frames.size cond (s1.put s.frames.size x v) (.ok (.bool (c v)) (s1.put s.frames.size x v)))
    (hve : ∀ v ∈ xs, c v = true →
      Ev ld kv s.frames.size ve (s1.put s.frames.size x v) (.ok (g v) (s1.put s.frames.size x v)))
    -- the loop: everything in the current frame
    (henv : env < s.frames.size) (hrx : r ≠ x) (hra : r ≠ "append") (hxa : x ≠ "append")
    (hx : dictGet x (s.frame env).vars = none)
    (happ : s.lookup env "append" = some (.native "append" i0))
    (hns : NotSpread ve)
    (he' : Ev ld k' env e (loopSt s env r p0 []) (.ok (.ref a') (loopSt s env r p0 [])))
    (hca : s.cell a' = some (.list xs))
    (hcond' : ∀ i v, xs[i]? = some v → Ev ld kc' env cond ((loopSt s env r p0 (done xs c g i)).put env x v)
      (.ok (.bool (c v)) ((loopSt s env r p0 (done xs c g i)).put env x v)))
    (hve' : ∀ i v, xs[i]? = some v → c v = true → Ev ld kv' env ve ((loopSt s env r p0 (done xs c g i)).put env x v)
      (.ok (g v) ((loopSt s env r p0 (done xs c g i)).put env x v))) :
    ∃ ra sa rb sb L,
      Ev ld (max k (max kc kv + xs.length + 3) + 1) env (.compr .list .single ve ke x e w1 id2 l2 w2 cond pos) s (.ok (.ref ra) sa) ∧
      Ev ld (max k' (max kc' kv') + xs.length + 16) env (forAppend r x e cond ve info what b p0 p1 p2 p3 p4 p5 p6 p7 p8 p9) s
        (.ok (.ref rb) sb) ∧
      sa.cell ra = some (.list L) ∧ sb.cell rb = some (.list L) ∧ L = (xs.filter c).map g ∧
      rb = s.heap.size ∧ ra = s1.heap.size := by
  obtain ⟨sb, hb, hcb, _⟩ := for_append_filter_map ld (info := info) (what := what) (b := b) (p1 := p1) (p2 := p2) (p3 := p3)
    (p4 := p4) (p5 := p5) (p6 := p6) (p7 := p7) (p8 := p8) (p9 := p9) c g henv hrx hra hxa hx happ hns he' hca hcond' hve'
  have ha := list_compr_filter_map ld (ke := ke) (w1 := w1) (w2 := w2) (id2 := id2) (l2 := l2) (pos := pos) c g he hc hcond hve
  exact ⟨_, _, _, _, _, ha, hb, (compr_final_state s1 s.frames.size x xs _).1, hcb, rfl, rfl, rfl⟩

end Ckl.C04Compr
