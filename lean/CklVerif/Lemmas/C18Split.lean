import CklVerif.Lemmas.C18Find
import CklVerif.Lemmas.C18Replace

/-!
  C18 helper lemmas for `join` and the literal `split`.
-/
namespace Ckl.C18
open Ckl.Seq Ckl.Str Ckl.C15

/-! ## `join` -/

theorem foldl_join (sep : S) (xs : List S) (acc : S) :
    xs.foldl (fun result element => result ++ sep ++ element) acc
      = acc ++ (xs.map (sep ++ ·)).flatten := by
  induction xs generalizing acc with
  | nil => simp
  | cons x xs ih => simp [List.append_assoc]

theorem joinM_nil (sep : S) : Str.joinM sep [] = [] := by
  unfold Str.joinM substr pySlice
  simp

theorem joinM_cons (sep x : S) (xs : List S) :
    Str.joinM sep (x :: xs) = x ++ (xs.map (sep ++ ·)).flatten := by
  unfold Str.joinM
  rw [foldl_join, substr_nat_none _ _ (by simp)]
  simp

theorem joinM_singleton (sep x : S) : Str.joinM sep [x] = x := by
  rw [joinM_cons]; simp

theorem joinM_cons_cons (sep x y : S) (ys : List S) :
    Str.joinM sep (x :: y :: ys) = x ++ sep ++ Str.joinM sep (y :: ys) := by
  rw [joinM_cons, joinM_cons]; simp [List.append_assoc]

/-- `join` is the library `intercalate` -/
theorem joinM_eq_intercalate (sep : S) (xs : List S) : Str.joinM sep xs = sep.intercalate xs := by
  induction xs with
  | nil => rw [joinM_nil]; rfl
  | cons x xs ih =>
    cases xs with
    | nil => rw [joinM_singleton]; simp [List.intercalate]
    | cons y ys =>
      rw [joinM_cons_cons, ih]
      simp [List.intercalate, List.intersperse, List.append_assoc]

theorem joinM_nil_sep (xs : List S) : Str.joinM [] xs = xs.flatten := by
  cases xs with
  | nil => rw [joinM_nil]; rfl
  | cons x xs => rw [joinM_cons]; simp

theorem joinM_nil_cons (sep : S) (p : S) (ps : List S) :
    Str.joinM sep ([] :: p :: ps) = sep ++ Str.joinM sep (p :: ps) := by
  rw [joinM_cons_cons]; simp

theorem joinM_consHead (sep : S) (c : Char) (ps : List S) (h : ps ≠ []) :
    Str.joinM sep (consHead c ps) = c :: Str.joinM sep ps := by
  cases ps with
  | nil => exact absurd rfl h
  | cons p ps => simp [consHead, joinM_cons]

/-! ## `split` at a literal non-empty separator -/

theorem consHead_ne_nil (c : Char) (ps : List S) : consHead c ps ≠ [] := by
  cases ps <;> simp [consHead]

theorem splitFuel_ne_nil (sep : S) (n : Nat) (s : S) : splitFuel sep n s ≠ [] := by
  cases n with
  | zero => simp [splitFuel]
  | succ n =>
    cases s with
    | nil => simp [splitFuel]
    | cons c cs =>
      rw [splitFuel]
      split
      · simp
      · exact consHead_ne_nil _ _

/-- more fuel than characters: the result does not depend on the fuel -/
theorem splitFuel_stable (sep : S) (hsep : sep ≠ []) (n m : Nat) (s : S)
    (hn : s.length < n) (hm : s.length < m) : splitFuel sep n s = splitFuel sep m s := by
  induction n generalizing m s with
  | zero => omega
  | succ n ih =>
    cases m with
    | zero => omega
    | succ m =>
      cases s with
      | nil => simp [splitFuel]
      | cons c cs =>
        have hpos : 0 < sep.length := List.length_pos_iff.mpr hsep
        simp only [List.length_cons] at hn hm
        rw [splitFuel, splitFuel]
        split
        · rw [ih m _ (by simp only [List.length_drop, List.length_cons]; omega)
            (by simp only [List.length_drop, List.length_cons]; omega)]
        · rw [ih m cs (by omega) (by omega)]

/-- the split with exactly enough fuel -/
def splitNE (sep s : S) : List S := splitFuel sep (s.length + 1) s

theorem splitNE_nil (sep : S) : splitNE sep [] = [[]] := rfl

theorem splitNE_of_prefix (sep s : S) (hsep : sep ≠ []) (h : isPrefixB sep s = true) :
    splitNE sep s = [] :: splitNE sep (s.drop sep.length) := by
  have hpos : 0 < sep.length := List.length_pos_iff.mpr hsep
  cases s with
  | nil =>
    cases sep with
    | nil => exact absurd rfl hsep
    | cons _ _ => simp [isPrefixB] at h
  | cons c cs =>
    unfold splitNE
    rw [List.length_cons, splitFuel, if_pos h]
    congr 1
    exact splitFuel_stable sep hsep _ _ _
      (by simp only [List.length_drop, List.length_cons]; omega) (by omega)

theorem splitNE_of_not_prefix (sep : S) (_hsep : sep ≠ []) (c : Char) (cs : S)
    (h : isPrefixB sep (c :: cs) = false) :
    splitNE sep (c :: cs) = consHead c (splitNE sep cs) := by
  unfold splitNE
  rw [List.length_cons, splitFuel, if_neg (by simp [h])]

theorem splitNE_ne_nil (sep s : S) : splitNE sep s ≠ [] := splitFuel_ne_nil _ _ _

/-- joining the pieces with the separator gives the string back -/
theorem join_splitNE (sep : S) (hsep : sep ≠ []) (s : S) : Str.joinM sep (splitNE sep s) = s := by
  generalize hn : s.length = n
  induction n using Nat.strong_induction_on generalizing s with
  | _ n ih =>
    cases s with
    | nil => rw [splitNE_nil, joinM_singleton]
    | cons c cs =>
      have hpos : 0 < sep.length := List.length_pos_iff.mpr hsep
      by_cases h : isPrefixB sep (c :: cs) = true
      · rw [splitNE_of_prefix sep _ hsep h]
        obtain ⟨p, ps, hp⟩ := List.exists_cons_of_ne_nil (splitNE_ne_nil sep ((c :: cs).drop sep.length))
        rw [hp, joinM_nil_cons, ← hp,
          ih _ (by rw [← hn]; simp only [List.length_drop, List.length_cons]; omega) _ rfl]
        have := (isPrefixB_iff sep (c :: cs)).mp h
        conv => rhs; rw [← List.take_append_drop sep.length (c :: cs), this]
      · have h' : isPrefixB sep (c :: cs) = false := by simpa using h
        rw [splitNE_of_not_prefix sep hsep c cs h', joinM_consHead _ _ _ (splitNE_ne_nil _ _),
          ih cs.length (by rw [← hn]; simp) cs rfl]

/-- a piece `x` followed by the separator, when the separator does not start earlier -/
theorem splitNE_append_sep (sep : S) (hsep : sep ≠ []) (x r : S)
    (h : ∀ j, j < x.length → isPrefixB sep ((x ++ sep).drop j) = false) :
    splitNE sep (x ++ sep ++ r) = x :: splitNE sep r := by
  induction x with
  | nil =>
    rw [List.nil_append, splitNE_of_prefix sep _ hsep (isPrefixB_append_self sep r), List.drop_left]
  | cons c x ih =>
    have h0 := h 0 (by simp)
    rw [List.drop_zero] at h0
    have h0' : isPrefixB sep (c :: (x ++ sep ++ r)) = false := by
      have := isPrefixB_append_of_le sep (c :: x ++ sep) r
        (by simp only [List.cons_append, List.length_cons, List.length_append]; omega)
      simp only [List.cons_append] at this h0
      rw [this, h0]
    simp only [List.cons_append]
    rw [splitNE_of_not_prefix sep hsep c _ h0', ih (fun j hj => by
      have := h (j + 1) (by simp; omega)
      simpa using this)]
    rfl

/-- the last piece: the separator does not occur in it -/
theorem splitNE_no_occurrence (sep x : S) (hsep : sep ≠ [])
    (h : ∀ j, isPrefixB sep (x.drop j) = false) : splitNE sep x = [x] := by
  induction x with
  | nil => rfl
  | cons c x ih =>
    have h0 := h 0
    rw [List.drop_zero] at h0
    rw [splitNE_of_not_prefix sep hsep c x h0, ih (fun j => by simpa using h (j + 1))]
    rfl

/-! ## the side conditions in terms of `find` / `contains` -/

theorem no_early_of_find (sep x : S) (hsep : sep ≠ [])
    (h : find (x ++ sep) sep 0 = (x.length : Int)) :
    ∀ j, j < x.length → isPrefixB sep ((x ++ sep).drop j) = false := by
  intro j hj
  have := ((find_spec (x ++ sep) sep 0 x.length).mp h).2.2 j (by omega) hj
  rw [occursAt_iff_isPrefixB hsep] at this
  simpa using this

theorem no_occ_of_not_contains (sep x : S) (hsep : sep ≠ []) (h : containsM x sep = false) :
    ∀ j, isPrefixB sep (x.drop j) = false := by
  intro j
  have hf : find x sep 0 = -1 := by
    unfold containsM at h
    simpa using h
  have := (find_eq_neg_one_iff x sep 0).mp hf j (by omega)
  rw [occursAt_iff_isPrefixB hsep] at this
  simpa using this

theorem flatten_map_singleton (s : S) : (s.map (fun ch => [ch])).flatten = s := by
  induction s with
  | nil => rfl
  | cons c cs ih => simp [ih]

end Ckl.C18

namespace Ckl.C18
open Ckl.Seq Ckl.Str Ckl.C15

/-! ## converse direction: what a split result says about the string -/

theorem consHead_eq_cons (c : Char) (ps : List S) (x : S) (rest : List S) (hps : ps ≠ [])
    (h : consHead c ps = x :: rest) : ∃ x', x = c :: x' ∧ ps = x' :: rest := by
  cases ps with
  | nil => exact absurd rfl hps
  | cons p ps =>
    simp only [consHead, List.cons.injEq] at h
    exact ⟨p, h.1.symm, by rw [h.2]⟩

theorem isPrefixB_nil_right (sep : S) (hsep : sep ≠ []) : isPrefixB sep [] = false := by
  cases sep with
  | nil => exact absurd rfl hsep
  | cons _ _ => rfl

/-- a single piece: the separator does not occur -/
theorem splitNE_singleton_inv (sep : S) (hsep : sep ≠ []) (s x : S) (h : splitNE sep s = [x]) :
    x = s ∧ ∀ j, isPrefixB sep (s.drop j) = false := by
  induction s generalizing x with
  | nil =>
    rw [splitNE_nil] at h
    simp only [List.cons.injEq, and_true] at h
    exact ⟨h.symm, fun j => by simp [isPrefixB_nil_right sep hsep]⟩
  | cons c cs ih =>
    by_cases hp : isPrefixB sep (c :: cs) = true
    · rw [splitNE_of_prefix sep _ hsep hp] at h
      simp only [List.cons.injEq] at h
      exact absurd h.2 (splitNE_ne_nil _ _)
    · have hp' : isPrefixB sep (c :: cs) = false := by simpa using hp
      rw [splitNE_of_not_prefix sep hsep c cs hp'] at h
      obtain ⟨x', hx, hps⟩ := consHead_eq_cons c _ x [] (splitNE_ne_nil _ _) h
      obtain ⟨e, hno⟩ := ih x' hps
      refine ⟨by rw [hx, e], ?_⟩
      intro j
      cases j with
      | zero => simpa using hp'
      | succ j => simpa using hno j

/-- at least two pieces: the string is `x ++ sep ++ r`, the separator does not start inside `x`,
    and the other pieces are the split of `r` -/
theorem splitNE_cons_cons_inv (sep : S) (hsep : sep ≠ []) (s x y : S) (ys : List S)
    (h : splitNE sep s = x :: y :: ys) :
    ∃ r, s = x ++ sep ++ r ∧ splitNE sep r = y :: ys ∧
      ∀ j, j < x.length → isPrefixB sep ((x ++ sep).drop j) = false := by
  induction s generalizing x with
  | nil => rw [splitNE_nil] at h; simp at h
  | cons c cs ih =>
    by_cases hp : isPrefixB sep (c :: cs) = true
    · rw [splitNE_of_prefix sep _ hsep hp] at h
      simp only [List.cons.injEq] at h
      obtain ⟨rfl, h2⟩ := h
      refine ⟨(c :: cs).drop sep.length, ?_, h2, fun j hj => by simp at hj⟩
      have := (isPrefixB_iff sep (c :: cs)).mp hp
      conv => lhs; rw [← List.take_append_drop sep.length (c :: cs), this]
      simp
    · have hp' : isPrefixB sep (c :: cs) = false := by simpa using hp
      rw [splitNE_of_not_prefix sep hsep c cs hp'] at h
      obtain ⟨x', hx, hps⟩ := consHead_eq_cons c _ x (y :: ys) (splitNE_ne_nil _ _) h
      obtain ⟨r, hs, hr, hno⟩ := ih x' hps
      subst hx
      refine ⟨r, by rw [hs]; simp, hr, ?_⟩
      intro j hj
      cases j with
      | zero =>
        rw [List.drop_zero]
        have := isPrefixB_append_of_le sep (c :: x' ++ sep) r
          (by simp only [List.cons_append, List.length_cons, List.length_append]; omega)
        rw [hs] at hp'
        simp only [List.cons_append, List.append_assoc] at this hp' ⊢
        rw [← this]; exact hp'
      | succ j =>
        have := hno j (by simpa using hj)
        simpa using this

theorem find_of_no_early (sep x : S) (hsep : sep ≠ [])
    (h : ∀ j, j < x.length → isPrefixB sep ((x ++ sep).drop j) = false) :
    find (x ++ sep) sep 0 = (x.length : Int) := by
  rw [find_spec]
  refine ⟨?_, by omega, ?_⟩
  · have := occursAt_iff_append (s := x ++ sep) (t := sep) (p := x.length)
    exact this.mpr ⟨x, [], by simp, rfl⟩
  · intro q _ hq
    rw [occursAt_iff_isPrefixB hsep, h q hq]
    simp

theorem not_contains_of_no_occ (sep x : S) (hsep : sep ≠ [])
    (h : ∀ j, isPrefixB sep (x.drop j) = false) : containsM x sep = false := by
  have hf : find x sep 0 = -1 := by
    rw [find_eq_neg_one_iff]
    intro q _
    rw [occursAt_iff_isPrefixB hsep, h q]
    simp
  unfold containsM
  rw [hf]; rfl

end Ckl.C18
