/-
  C02 (semantic half) — the modelled built-ins `add` … `greater_equals` on NULL / booleans / ints
  compute the operations of `Lemmas/C02SemDefs.lean`, and leave the state untouched.
-/
import CklVerif.Lemmas.C02SemDefs
import CklVerif.Lemmas.C13NoHost
import CklVerif.Lemmas.C02Int
set_option linter.unusedSimpArgs false
namespace Ckl.C02S
open Ckl Ckl.C02P

theorem textLt_eq_strLt : ∀ a b, textLt a b = strLt a b
  | [], [] => rfl
  | [], _ :: _ => rfl
  | _ :: _, [] => rfl
  | a :: as, b :: bs => by simp only [textLt, strLt, textLt_eq_strLt as bs]

def V.toVal : V → Val
  | .null => .null
  | .bool b => .bool b
  | .int n => .int n

theorem reify_toR (s : State) (v : V) : reify s v.toR = some v.toVal := by
  cases v <;> rfl

theorem render_toVal (v : V) : render v.toVal = v.text := by
  cases v with
  | null => rfl
  | bool b => cases b <;> rfl
  | int n => rfl

theorem vlt_toVal (a b : V) : vlt a.toVal b.toVal = a.lt b := by
  cases a <;> cases b <;> simp only [V.toVal, V.lt, vlt, vltWith, textLt_eq_strLt, ← render_toVal] <;> rfl

theorem rvlt_toR (s : State) (a b : V) : rvlt s a.toR b.toR = some (a.lt b) := by
  simp only [rvlt, reify_toR, bind, Option.bind, pure, vlt_toVal]

theorem rveq_toR (s : State) (a b : V) : rveq s a.toR b.toR = a.eq b := by
  cases a <;> cases b <;> rfl

theorem cmpLt_toR (s : State) (a b : V) : cmpLt a.toR b.toR s = .ok (a.lt b) s := by
  simp only [cmpLt, EvalM.bind_apply, getS, rvlt_toR]; rfl

/-- the outcome of a built-in called at `pos`: the value, or the runtime error raised at `pos` with an
    empty call trace, in the unchanged state -/
def IsN (o : Out RVal) (r : Res) (pos : Pos) (s : State) : Prop :=
  match r with
  | .val v => o = .ok v.toR s
  | .error => ∃ msg, o = .err ERR msg pos [] s

theorem nativeAdd_V (a b : V) (pos : Pos) (s : State) :
    IsN (nativeAdd a.toR b.toR pos s) (arithV (fun a b => .val (.int (a + b))) a b) pos s := by
  cases a <;> cases b <;> first | rfl | exact ⟨_, rfl⟩

theorem nativeSub_V (a b : V) (pos : Pos) (s : State) :
    IsN (nativeSub a.toR b.toR pos s) (arithV (fun a b => .val (.int (a - b))) a b) pos s := by
  cases a <;> cases b <;> first | rfl | exact ⟨_, rfl⟩

theorem nativeMul_V (a b : V) (pos : Pos) (s : State) :
    IsN (nativeMul a.toR b.toR pos s) (arithV (fun a b => .val (.int (a * b))) a b) pos s := by
  cases a <;> cases b <;> first | rfl | exact ⟨_, rfl⟩

theorem nativeDiv_V (d0 : Option V) (a b : V) (pos : Pos) (s : State) :
    IsN (nativeDiv a.toR b.toR (d0.map V.toR) pos s) (arithV (divInt d0) a b) pos s := by
  cases a <;> cases b <;> first | rfl | exact ⟨_, rfl⟩ | skip
  rename_i x y
  by_cases hy : y = 0
  · subst hy
    cases d0 with
    | none => exact ⟨_, rfl⟩
    | some v => simp only [arithV, divInt, if_true]; rfl
  · simp only [arithV, divInt, if_neg hy, IsN]
    rw [← truncDiv_eq_tdiv]
    show (if y = 0 then _ else _ : EvalM RVal) s = _
    rw [if_neg hy]; rfl

theorem nativeMod_V (a b : V) (pos : Pos) (s : State) :
    IsN (nativeMod a.toR b.toR pos s) (arithV modInt a b) pos s := by
  cases a <;> cases b <;> first | rfl | exact ⟨_, rfl⟩ | skip
  rename_i x y
  by_cases hy : y = 0
  · subst hy; exact ⟨_, rfl⟩
  · simp only [arithV, modInt, if_neg hy, IsN]
    show (if y = 0 then _ else _ : EvalM RVal) s = _
    rw [if_neg hy]; rfl

theorem div0Value_eq {s : State} {env : EnvId} {d0 : Option V} (h : Div0 s env d0) :
    div0Value s env = d0.map V.toR := by
  unfold div0Value; rw [h]; cases d0 <;> rfl

variable (ld : Loader)

theorem callFn_native (F : Nat) (name : String) (inst : Nat) (bound : List (String × RVal)) (env : EnvId) (pos : Pos)
    (s : State) (m : EvalM RVal) (h : callPure name bound (div0Value s env) pos = some m) :
    callFn ld (F + 1) (.native name inst) bound env pos s = m s := by
  rw [callFn, EvalM.bind_apply]
  simp only [getS, h]

/-- the bound arguments of a binary operator call -/
def args2 (a b : RVal) : List (String × RVal) := [("a", a), ("b", b)]

/-- what the operator functions compute on values -/
def addOpV : AddOp → V → V → Res
  | .add => arithV fun a b => .val (.int (a + b))
  | .sub => arithV fun a b => .val (.int (a - b))

def mulOpV (d0 : Option V) : MulOp → V → V → Res
  | .mul => arithV fun a b => .val (.int (a * b))
  | .div => arithV (divInt d0)
  | .mod => arithV modInt

theorem callFn_addop (op : AddOp) (F inst env pos) (s : State) (a b : V) :
    IsN (callFn ld (F + 1) (.native op.fn inst) (args2 a.toR b.toR) env pos s) (addOpV op a b) pos s := by
  cases op
  · show IsN (callFn ld (F + 1) (.native "add" inst) _ env pos s) _ pos s
    rw [callFn_native ld F "add" inst _ env pos s (nativeAdd a.toR b.toR pos) rfl]; exact nativeAdd_V a b pos s
  · show IsN (callFn ld (F + 1) (.native "sub" inst) _ env pos s) _ pos s
    rw [callFn_native ld F "sub" inst _ env pos s (nativeSub a.toR b.toR pos) rfl]; exact nativeSub_V a b pos s

theorem callFn_mulop (d0 : Option V) (op : MulOp) (F inst env pos) (s : State) (hd : Div0 s env d0) (a b : V) :
    IsN (callFn ld (F + 1) (.native op.fn inst) (args2 a.toR b.toR) env pos s) (mulOpV d0 op a b) pos s := by
  cases op
  · show IsN (callFn ld (F + 1) (.native "mul" inst) _ env pos s) _ pos s
    rw [callFn_native ld F "mul" inst _ env pos s (nativeMul a.toR b.toR pos) rfl]; exact nativeMul_V a b pos s
  · show IsN (callFn ld (F + 1) (.native "div" inst) _ env pos s) _ pos s
    rw [callFn_native ld F "div" inst _ env pos s (nativeDiv a.toR b.toR (d0.map V.toR) pos)
      (by rw [div0Value_eq hd]; rfl)]
    exact nativeDiv_V d0 a b pos s
  · show IsN (callFn ld (F + 1) (.native "mod" inst) _ env pos s) _ pos s
    rw [callFn_native ld F "mod" inst _ env pos s (nativeMod a.toR b.toR pos) rfl]; exact nativeMod_V a b pos s

theorem argGet_a (a b : RVal) (pos : Pos) : argGet (args2 a b) "a" pos = pure a := by
  simp [argGet, args2, dictGet]

theorem argGet_b (a b : RVal) (pos : Pos) : argGet (args2 a b) "b" pos = pure b := by
  simp [argGet, args2, dictGet]

theorem callFn_relop (op : RelOp) (F inst env pos) (s : State) (a b : V) :
    callFn ld (F + 1) (.native op.fn inst) (args2 a.toR b.toR) env pos s = .ok (.bool (relV op a b)) s := by
  cases op
  · show callFn ld (F + 1) (.native "equals" inst) _ env pos s = _
    rw [callFn_native ld F "equals" inst _ env pos s _ rfl]
    simp only [argGet_a, argGet_b, EvalM.bind_apply, EvalM.pure_apply, getS, rveq_toR, boolV, relV]
  · show callFn ld (F + 1) (.native "not_equals" inst) _ env pos s = _
    rw [callFn_native ld F "not_equals" inst _ env pos s _ rfl]
    simp only [argGet_a, argGet_b, EvalM.bind_apply, EvalM.pure_apply, getS, rveq_toR, boolV, relV]
  · show callFn ld (F + 1) (.native "not_equals" inst) _ env pos s = _
    rw [callFn_native ld F "not_equals" inst _ env pos s _ rfl]
    simp only [argGet_a, argGet_b, EvalM.bind_apply, EvalM.pure_apply, getS, rveq_toR, boolV, relV]
  · show callFn ld (F + 1) (.native "less" inst) _ env pos s = _
    rw [callFn_native ld F "less" inst _ env pos s _ rfl]
    simp only [argGet_a, argGet_b, EvalM.bind_apply, EvalM.pure_apply, getS, rveq_toR, cmpLt_toR, boolV, relV]
  · show callFn ld (F + 1) (.native "less_equals" inst) _ env pos s = _
    rw [callFn_native ld F "less_equals" inst _ env pos s _ rfl]
    simp only [argGet_a, argGet_b, EvalM.bind_apply, EvalM.pure_apply, getS, rveq_toR, cmpLt_toR, boolV, relV]
  · show callFn ld (F + 1) (.native "greater" inst) _ env pos s = _
    rw [callFn_native ld F "greater" inst _ env pos s _ rfl]
    simp only [argGet_a, argGet_b, EvalM.bind_apply, EvalM.pure_apply, getS, rveq_toR, cmpLt_toR, cmpGt, boolV, relV]
  · show callFn ld (F + 1) (.native "greater_equals" inst) _ env pos s = _
    rw [callFn_native ld F "greater_equals" inst _ env pos s _ rfl]
    simp only [argGet_a, argGet_b, EvalM.bind_apply, EvalM.pure_apply, getS, rveq_toR, cmpLt_toR, boolV, relV]

end Ckl.C02S
