/-
  C14 (scanner side, strengthened for the parser corollary): when two similar scanner states both
  fail on the same input, they fail with the same message — the scanner's error messages do not
  mention positions either.
-/
import CklVerif.Lemmas.LexerLayout
namespace Ckl.Lexer

/-- both fail with the same message, or both succeed with similar results -/
def SimM : Except SynErr LexSt → Except SynErr LexSt → Prop
  | .ok a, .ok b => Sim a b
  | .error e, .error e' => e.msg = e'.msg
  | _, _ => False

theorem synErr_msg (name : String) (σ : LexSt) (e : LexErr) : (σ.synErr name e).msg = e.msg := by
  unfold LexSt.synErr
  cases e.line <;> rfl

theorem dispatch_err_msg {name : String} {σ σ' : LexSt} {ch : Char} {e e' : SynErr} (h : Sim σ σ')
    (h1 : σ.dispatch name ch = .error e) (h2 : σ'.dispatch name ch = .error e') : e.msg = e'.msg := by
  have hc := step_col_indep σ.core σ.column σ'.column ch
  unfold LexSt.dispatch at h1 h2
  rw [← h.1] at h2
  cases hs1 : step σ.core σ.column ch with
  | ok o => rw [hs1] at h1; cases h1
  | error le =>
    cases hs2 : step σ.core σ'.column ch with
    | ok o => rw [hs2] at h2; cases h2
    | error le' =>
      rw [hs1, hs2] at hc
      simp only [Except.map, Except.error.injEq] at hc
      subst hc
      rw [hs1] at h1
      rw [hs2] at h2
      cases h1
      cases h2
      rw [synErr_msg, synErr_msg]

theorem sim_feed_msg {name : String} {σ σ' : LexSt} (h : Sim σ σ') (ch : Char) :
    SimM (feed name σ ch) (feed name σ' ch) := by
  have hE := sim_feed (name := name) h ch
  cases hf : feed name σ ch with
  | ok r =>
    cases hf' : feed name σ' ch with
    | ok r' => rw [hf, hf'] at hE; exact hE
    | error e' => rw [hf, hf'] at hE; exact hE.elim
  | error e =>
    cases hf' : feed name σ' ch with
    | ok r' => rw [hf, hf'] at hE; exact hE.elim
    | error e' =>
      show e.msg = e'.msg
      have h1 := sim_dispatch (name := name) (sim_capture (sim_count h ch)) ch
      unfold feed at hf hf'
      cases hd : (σ.count ch).capture.dispatch name ch with
      | error e1 =>
        cases hd' : (σ'.count ch).capture.dispatch name ch with
        | error e1' =>
          rw [hd] at hf
          rw [hd'] at hf'
          cases hf
          cases hf'
          exact dispatch_err_msg (sim_capture (sim_count h ch)) hd hd'
        | ok r' => rw [hd, hd'] at h1; exact h1.elim
      | ok r =>
        cases hd' : (σ'.count ch).capture.dispatch name ch with
        | error e1' => rw [hd, hd'] at h1; exact h1.elim
        | ok r' =>
          rw [hd, hd'] at h1
          obtain ⟨σ2, b⟩ := r
          obtain ⟨σ2', b'⟩ := r'
          obtain ⟨hs, hb⟩ := h1
          simp only at hs hb
          subst hb
          rw [hd] at hf
          rw [hd'] at hf'
          cases b with
          | false => cases hf
          | true =>
            simp only at hf hf'
            cases hd2 : σ2.capture.dispatch name ch with
            | ok r2 => rw [hd2] at hf; cases hf
            | error e2 =>
              cases hd2' : σ2'.capture.dispatch name ch with
              | ok r2' => rw [hd2'] at hf'; cases hf'
              | error e2' =>
                rw [hd2] at hf
                rw [hd2'] at hf'
                cases hf
                cases hf'
                exact dispatch_err_msg (sim_capture hs) hd2 hd2'

theorem sim_run_msg {name : String} (l : List Char) : ∀ {σ σ' : LexSt}, Sim σ σ' →
    SimM (run name σ l) (run name σ' l) := by
  induction l with
  | nil => intro σ σ' h; exact h
  | cons c l ih =>
    intro σ σ' h
    have hf := sim_feed_msg (name := name) h c
    cases h1 : feed name σ c with
    | error e =>
      cases h2 : feed name σ' c with
      | error e' => rw [run_cons_error _ h1, run_cons_error _ h2]; rw [h1, h2] at hf; exact hf
      | ok r' => rw [h1, h2] at hf; exact hf.elim
    | ok r =>
      cases h2 : feed name σ' c with
      | error e' => rw [h1, h2] at hf; exact hf.elim
      | ok r' =>
        rw [h1, h2] at hf
        rw [run_cons_ok _ h1, run_cons_ok _ h2]
        exact ih hf

/-- the outcome of a scan as the parser sees it: the (value, type) sequence, or the message of
    the scanner's syntax error -/
def scanTV (r : Except SynErr (List Token)) : Except String (List (List Char × TokType)) :=
  match r with
  | .ok l => .ok (l.map tv)
  | .error e => .error e.msg

def runTVm (r : Except SynErr LexSt) : Except String (List (List Char × TokType)) :=
  match r with
  | .ok σ => .ok (σ.out.reverse.map fun p => tv p.1)
  | .error e => .error e.msg

theorem scanTV_scan (s : List Char) (name : String) :
    scanTV (scan s name) = runTVm (run name {} (s ++ [' '])) := by
  unfold scan scanWithOffsets
  cases run name {} (s ++ [' ']) with
  | error e => rfl
  | ok σ => simp [scanTV, runTVm, List.map_map, Function.comp_def]

theorem runTVm_of_simM {r r' : Except SynErr LexSt} (h : SimM r r') : runTVm r = runTVm r' := by
  cases r with
  | error e => cases r' with
    | error e' => simp only [runTVm]; rw [show e.msg = e'.msg from h]
    | ok σ' => exact h.elim
  | ok σ => cases r' with
    | error e' => exact h.elim
    | ok σ' =>
      simp only [runTVm, Except.ok.injEq, List.map_reverse]
      rw [(show Sim σ σ' from h).2]

/-- **layout insertion, with messages**: a filler `w` (whitespace, complete comments) inserted
    where the automaton is in state 0 changes neither the (value, type) sequence of the tokens
    nor the message of a scanner error -/
theorem layout_insertion_msg (name : String) (u w v : List Char)
    (hu : ∀ σ, run name {} u = .ok σ → σ.core.state = .s0) (hw : Filler w) :
    scanTV (scan (u ++ w ++ v) name) = scanTV (scan (u ++ v) name) := by
  rw [scanTV_scan, scanTV_scan]
  have e1 : u ++ w ++ v ++ [' '] = u ++ (w ++ (v ++ [' '])) := by simp
  have e2 : u ++ v ++ [' '] = u ++ (v ++ [' ']) := by simp
  rw [e1, e2]
  cases hr : run name {} u with
  | error e => rw [run_append_error _ hr, run_append_error _ hr]
  | ok σu =>
    have h0 := hu σu hr
    rw [run_append_ok _ hr, run_append_ok _ hr]
    obtain ⟨σw, hrw, hk, ho⟩ := run_filler (name := name) hw h0
    rw [run_append_ok _ hrw]
    exact runTVm_of_simM (sim_run_msg _ ⟨hk, by rw [ho]⟩)

end Ckl.Lexer
