import CklVerif.Proofs.C14Parse
open Ckl.C14P
#print axioms parse_equivariant
#print axioms production_equivariant
#print axioms outcome_eq
#print axioms parse_pos_irrelevant
#print axioms parse_layout_irrelevant
#print axioms parseScript_layout
#print axioms positions_from_tokens
#print axioms error_position_from_tokens
#print axioms production_positions
#print axioms parse_single_ident
#print axioms ex_tokSim
#print axioms hyp_all
#print axioms parseWith_equivariant
#print axioms erase_eq_mapPos
#print axioms positions_fixed
#print axioms Ckl.Lexer.layout_insertion_msg
