import CklVerif.Lemmas.C14EvalStep5

/-! C14 (evaluator part) — induction step for `eval`: one lemma per node kind -/
namespace Ckl.C14E
open Ckl
set_option linter.unusedVariables false

variable {ld : Loader} {fuel : Nat}

/-- `resp!` that uses contradictory / decomposable hypotheses eagerly -/
macro "resp!!" : tactic => `(tactic| repeat' (first | inj_heq | ers_inj | contra_hyp | resp_step!))

theorem map_ers_congr {γ : Type} (g : Node → γ) (hg : ∀ a, g (ers a) = g a) (l : List Node) :
    List.map g (ers l) = List.map g l := by
  induction l with
  | nil => rfl
  | cons a l ih => simp only [ers_cons, List.map_cons, hg, ih]

theorem eval_absent_step1 (ih : SAll ld fuel) (env : EnvId)  :
    Resp (eval ld (fuel + 1) env (Node.absent )) (eval ld (fuel + 1) env (ers (Node.absent ))) := by
  ih_intro ih
  simp only [ers_simp]
  unfold Ckl.eval
  resp!

theorem eval_catchAll_step1 (ih : SAll ld fuel) (env : EnvId)  :
    Resp (eval ld (fuel + 1) env (Node.catchAll )) (eval ld (fuel + 1) env (ers (Node.catchAll ))) := by
  ih_intro ih
  simp only [ers_simp]
  unfold Ckl.eval
  resp!

theorem eval_null_step1 (ih : SAll ld fuel) (env : EnvId) {x0} :
    Resp (eval ld (fuel + 1) env (Node.null x0)) (eval ld (fuel + 1) env (ers (Node.null x0))) := by
  ih_intro ih
  simp only [ers_simp]
  unfold Ckl.eval
  resp!

theorem eval_lit_step1 (ih : SAll ld fuel) (env : EnvId) {x0} {x1} :
    Resp (eval ld (fuel + 1) env (Node.lit x0 x1)) (eval ld (fuel + 1) env (ers (Node.lit x0 x1))) := by
  ih_intro ih
  simp only [ers_simp]
  unfold Ckl.eval
  resp!

theorem eval_ident_step1 (ih : SAll ld fuel) (env : EnvId) {x0} {x1} :
    Resp (eval ld (fuel + 1) env (Node.ident x0 x1)) (eval ld (fuel + 1) env (ers (Node.ident x0 x1))) := by
  ih_intro ih
  simp only [ers_simp]
  unfold Ckl.eval
  resp!

theorem eval_and_step1 (ih : SAll ld fuel) (env : EnvId) {x0} {x1} :
    Resp (eval ld (fuel + 1) env (Node.and x0 x1)) (eval ld (fuel + 1) env (ers (Node.and x0 x1))) := by
  ih_intro ih
  simp only [ers_simp]
  unfold Ckl.eval
  resp!

theorem eval_or_step1 (ih : SAll ld fuel) (env : EnvId) {x0} {x1} :
    Resp (eval ld (fuel + 1) env (Node.or x0 x1)) (eval ld (fuel + 1) env (ers (Node.or x0 x1))) := by
  ih_intro ih
  simp only [ers_simp]
  unfold Ckl.eval
  resp!

theorem eval_not_step1 (ih : SAll ld fuel) (env : EnvId) {x0} {x1} :
    Resp (eval ld (fuel + 1) env (Node.not x0 x1)) (eval ld (fuel + 1) env (ers (Node.not x0 x1))) := by
  ih_intro ih
  simp only [ers_simp]
  unfold Ckl.eval
  resp!

theorem eval_assign_step1 (ih : SAll ld fuel) (env : EnvId) {x0} {x1} {x2} :
    Resp (eval ld (fuel + 1) env (Node.assign x0 x1 x2)) (eval ld (fuel + 1) env (ers (Node.assign x0 x1 x2))) := by
  ih_intro ih
  simp only [ers_simp]
  unfold Ckl.eval
  resp!

theorem eval_assignD_step1 (ih : SAll ld fuel) (env : EnvId) {x0} {x1} {x2} :
    Resp (eval ld (fuel + 1) env (Node.assignD x0 x1 x2)) (eval ld (fuel + 1) env (ers (Node.assignD x0 x1 x2))) := by
  ih_intro ih
  simp only [ers_simp]
  unfold Ckl.eval
  resp!

theorem eval_brk_step1 (ih : SAll ld fuel) (env : EnvId) {x0} :
    Resp (eval ld (fuel + 1) env (Node.brk x0)) (eval ld (fuel + 1) env (ers (Node.brk x0))) := by
  ih_intro ih
  simp only [ers_simp]
  unfold Ckl.eval
  resp!

theorem eval_cont_step1 (ih : SAll ld fuel) (env : EnvId) {x0} :
    Resp (eval ld (fuel + 1) env (Node.cont x0)) (eval ld (fuel + 1) env (ers (Node.cont x0))) := by
  ih_intro ih
  simp only [ers_simp]
  unfold Ckl.eval
  resp!

theorem eval_cls_step1 (ih : SAll ld fuel) (env : EnvId) {x0} {x1} {x2} :
    Resp (eval ld (fuel + 1) env (Node.cls x0 x1 x2)) (eval ld (fuel + 1) env (ers (Node.cls x0 x1 x2))) := by
  ih_intro ih
  simp only [ers_simp]
  unfold Ckl.eval
  resp!
  have key : ∀ (g : Node → String), (∀ a, g (ers a) = g a) → List.map g (ers x1) = List.map g x1 :=
    fun g hg => map_ers_congr g hg x1
  rw [key]
  · resp
  · intro a; cases a <;> rfl

theorem eval_defn_step1 (ih : SAll ld fuel) (env : EnvId) {x0} {x1} {x2} {x3} :
    Resp (eval ld (fuel + 1) env (Node.defn x0 x1 x2 x3)) (eval ld (fuel + 1) env (ers (Node.defn x0 x1 x2 x3))) := by
  ih_intro ih
  simp only [ers_simp]
  unfold Ckl.eval
  resp!

theorem eval_defD_step1 (ih : SAll ld fuel) (env : EnvId) {x0} {x1} {x2} {x3} :
    Resp (eval ld (fuel + 1) env (Node.defD x0 x1 x2 x3)) (eval ld (fuel + 1) env (ers (Node.defD x0 x1 x2 x3))) := by
  ih_intro ih
  simp only [ers_simp]
  unfold Ckl.eval
  resp!

theorem eval_deref_step1 (ih : SAll ld fuel) (env : EnvId) {x0} {x1} {x2} {x3} :
    Resp (eval ld (fuel + 1) env (Node.deref x0 x1 x2 x3)) (eval ld (fuel + 1) env (ers (Node.deref x0 x1 x2 x3))) := by
  ih_intro ih
  simp only [ers_simp]
  unfold Ckl.eval
  resp!

theorem eval_derefAssign_step1 (ih : SAll ld fuel) (env : EnvId) {x0} {x1} {x2} {x3} :
    Resp (eval ld (fuel + 1) env (Node.derefAssign x0 x1 x2 x3)) (eval ld (fuel + 1) env (ers (Node.derefAssign x0 x1 x2 x3))) := by
  ih_intro ih
  simp only [ers_simp]
  unfold Ckl.eval
  resp!

theorem eval_derefInvoke_step1 (ih : SAll ld fuel) (env : EnvId) {x0} {x1} {x2} {x3} {x4} :
    Resp (eval ld (fuel + 1) env (Node.derefInvoke x0 x1 x2 x3 x4)) (eval ld (fuel + 1) env (ers (Node.derefInvoke x0 x1 x2 x3 x4))) := by
  ih_intro ih
  simp only [ers_simp]
  unfold Ckl.eval
  resp!

theorem eval_slice_step1 (ih : SAll ld fuel) (env : EnvId) {x0} {x1} {x2} {x3} :
    Resp (eval ld (fuel + 1) env (Node.slice x0 x1 x2 x3)) (eval ld (fuel + 1) env (ers (Node.slice x0 x1 x2 x3))) := by
  ih_intro ih
  simp only [ers_simp]
  unfold Ckl.eval
  resp!!

theorem eval_error_step1 (ih : SAll ld fuel) (env : EnvId) {x0} {x1} :
    Resp (eval ld (fuel + 1) env (Node.error x0 x1)) (eval ld (fuel + 1) env (ers (Node.error x0 x1))) := by
  ih_intro ih
  simp only [ers_simp]
  unfold Ckl.eval
  resp!

theorem eval_call_step1 (ih : SAll ld fuel) (env : EnvId) {x0} {x1} {x2} {x3} :
    Resp (eval ld (fuel + 1) env (Node.call x0 x1 x2 x3)) (eval ld (fuel + 1) env (ers (Node.call x0 x1 x2 x3))) := by
  ih_intro ih
  simp only [ers_simp]
  unfold Ckl.eval
  resp!

theorem eval_ite_step1 (ih : SAll ld fuel) (env : EnvId) {x0} {x1} {x2} {x3} :
    Resp (eval ld (fuel + 1) env (Node.ite x0 x1 x2 x3)) (eval ld (fuel + 1) env (ers (Node.ite x0 x1 x2 x3))) := by
  ih_intro ih
  simp only [ers_simp]
  unfold Ckl.eval
  resp!

theorem eval_isIn_step1 (ih : SAll ld fuel) (env : EnvId) {x0} {x1} {x2} :
    Resp (eval ld (fuel + 1) env (Node.isIn x0 x1 x2)) (eval ld (fuel + 1) env (ers (Node.isIn x0 x1 x2))) := by
  ih_intro ih
  simp only [ers_simp]
  unfold Ckl.eval
  resp!

theorem eval_list_step1 (ih : SAll ld fuel) (env : EnvId) {x0} {x1} :
    Resp (eval ld (fuel + 1) env (Node.list x0 x1)) (eval ld (fuel + 1) env (ers (Node.list x0 x1))) := by
  ih_intro ih
  simp only [ers_simp]
  unfold Ckl.eval
  resp!

theorem eval_compr_step1 (ih : SAll ld fuel) (env : EnvId) {x0} {x1} {x2} {x3} {x4} {x5} {x6} {x7} {x8} {x9} {x10} {x11} :
    Resp (eval ld (fuel + 1) env (Node.compr x0 x1 x2 x3 x4 x5 x6 x7 x8 x9 x10 x11)) (eval ld (fuel + 1) env (ers (Node.compr x0 x1 x2 x3 x4 x5 x6 x7 x8 x9 x10 x11))) := by
  ih_intro ih
  simp only [ers_simp]
  unfold Ckl.eval
  resp!

theorem eval_map_step1 (ih : SAll ld fuel) (env : EnvId) {x0} {x1} {x2} :
    Resp (eval ld (fuel + 1) env (Node.map x0 x1 x2)) (eval ld (fuel + 1) env (ers (Node.map x0 x1 x2))) := by
  ih_intro ih
  simp only [ers_simp]
  unfold Ckl.eval
  resp!

theorem eval_object_step1 (ih : SAll ld fuel) (env : EnvId) {x0} {x1} {x2} :
    Resp (eval ld (fuel + 1) env (Node.object x0 x1 x2)) (eval ld (fuel + 1) env (ers (Node.object x0 x1 x2))) := by
  ih_intro ih
  simp only [ers_simp]
  unfold Ckl.eval
  resp!

theorem eval_require_step1 (ih : SAll ld fuel) (env : EnvId) {x0} {x1} {x2} {x3} {x4} :
    Resp (eval ld (fuel + 1) env (Node.require x0 x1 x2 x3 x4)) (eval ld (fuel + 1) env (ers (Node.require x0 x1 x2 x3 x4))) := by
  ih_intro ih
  simp only [ers_simp]
  unfold Ckl.eval
  resp!

theorem eval_ret_step1 (ih : SAll ld fuel) (env : EnvId) {x0} {x1} :
    Resp (eval ld (fuel + 1) env (Node.ret x0 x1)) (eval ld (fuel + 1) env (ers (Node.ret x0 x1))) := by
  ih_intro ih
  simp only [ers_simp]
  unfold Ckl.eval
  resp!

theorem eval_set_step1 (ih : SAll ld fuel) (env : EnvId) {x0} {x1} :
    Resp (eval ld (fuel + 1) env (Node.set x0 x1)) (eval ld (fuel + 1) env (ers (Node.set x0 x1))) := by
  ih_intro ih
  simp only [ers_simp]
  unfold Ckl.eval
  resp!

theorem eval_spread_step1 (ih : SAll ld fuel) (env : EnvId) {x0} {x1} :
    Resp (eval ld (fuel + 1) env (Node.spread x0 x1)) (eval ld (fuel + 1) env (ers (Node.spread x0 x1))) := by
  ih_intro ih
  simp only [ers_simp]
  unfold Ckl.eval
  resp!

theorem eval_while_step1 (ih : SAll ld fuel) (env : EnvId) {x0} {x1} {x2} :
    Resp (eval ld (fuel + 1) env (Node.while x0 x1 x2)) (eval ld (fuel + 1) env (ers (Node.while x0 x1 x2))) := by
  ih_intro ih
  simp only [ers_simp]
  unfold Ckl.eval
  resp!

end Ckl.C14E
