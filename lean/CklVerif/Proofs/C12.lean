/-
  C12 — independence from the storage (hash) order of sets and maps.

  A set cell stores its elements in STORAGE order (the model of CPython's hash order); a map cell
  stores its entries in insertion order.  Every observable operation enumerates such a cell through
  `sortedR` / `sortedEntriesR` (sorting by the reified key), tests membership with `List.any`, or
  reifies it to a canonical data value (`mkSet` / `mkMap`).  This file proves that none of these
  depends on the storage order, provided the keys are totally ordered (`TotalOn`: they are data,
  pairwise of one ordered kind and pairwise different) — the precondition under which CPython's
  `sorted` is deterministic, too.

  `PermAt a s s'`: the states `s` and `s'` differ only in the storage order of the set (or map)
  cell `a`.  The results have the form `f … s' = (f … s).mapS (·.setCell a c')`: running in the
  permuted state gives the same value / error, and the permuted final state.
-/
import CklVerif.Lemmas.C12Heap
import CklVerif.Proofs.C04

set_option linter.unusedSimpArgs false

namespace Ckl.C12
open Ckl

/-! ### the relation -/

/-- the elements reify to data values that are pairwise of one ordered kind and pairwise
    different: the hypotheses of `Ckl.C07.vlt_strictTotalOn` -/
def TotalOn (s : State) (xs : List RVal) : Prop := TotalKey (reify s) xs

/-- the same for the keys of map entries -/
def TotalOnKeys (s : State) (kvs : List (RVal × RVal)) : Prop := TotalKey (fun kv => reify s kv.1) kvs

/-- `c'` is `c` in another storage order, and the keys of `c` are totally ordered in `s` -/
def PermCell (s : State) : Cell → Cell → Prop
  | .set xs, .set ys => xs.Perm ys ∧ TotalOn s xs
  | .map kvs, .map kvs' => kvs.Perm kvs' ∧ TotalOnKeys s kvs
  | _, _ => False

/-- `s'` is `s` with the set / map cell `a` stored in another order -/
def PermAt (a : Nat) (s s' : State) : Prop :=
  ∃ c c', s.cell a = some c ∧ PermCell s c c' ∧ s' = s.setCell a c'

theorem PermCell.cellPerm {s : State} {c c' : Cell} (h : PermCell s c c') : CellPerm c c' := by
  cases c <;> cases c' <;> simp only [PermCell] at h <;> exact h.1

theorem permCell_set {s : State} {xs ys : List RVal} (hp : xs.Perm ys) (ht : TotalOn s xs) :
    PermCell s (.set xs) (.set ys) := ⟨hp, ht⟩

theorem permAt_set {a : Nat} {s : State} {xs ys : List RVal} (hc : s.cell a = some (.set xs))
    (hp : xs.Perm ys) (ht : TotalOn s xs) : PermAt a s (s.setCell a (.set ys)) :=
  ⟨_, _, hc, permCell_set hp ht, rfl⟩

/-- a concrete instance: the set `<<2, 1>>` stored as `[2, 1]` or as `[1, 2]` -/
def sA : State := { heap := #[.set [.int 2, .int 1]] }
def sB : State := { heap := #[.set [.int 1, .int 2]] }

theorem totalOn_ints (s : State) : TotalOn s [.int 2, .int 1] where
  keyed x hx := by
    simp only [List.mem_cons, List.not_mem_nil, or_false] at hx
    rcases hx with rfl | rfl <;> exact ⟨_, rfl⟩
  kind := by
    refine List.Pairwise.cons ?_ (List.Pairwise.cons (by simp) List.Pairwise.nil)
    intro y hy v w hv hw
    simp only [List.mem_cons, List.not_mem_nil, or_false] at hy
    subst hy
    cases hv; cases hw; simp [SameKind]
  distinct := by
    refine List.Pairwise.cons ?_ (List.Pairwise.cons (by simp) List.Pairwise.nil)
    intro y hy v w hv hw
    simp only [List.mem_cons, List.not_mem_nil, or_false] at hy
    subst hy
    cases hv; cases hw; decide

theorem totalOn_sA : TotalOn sA [.int 2, .int 1] := totalOn_ints sA

theorem permAt_sA_sB : PermAt 0 sA sB :=
  ⟨.set [.int 2, .int 1], .set [.int 1, .int 2], rfl, ⟨List.Perm.swap _ _ _, totalOn_sA⟩, rfl⟩

/-! ### 1: the core lemma -/

/-- **sortedR_perm**: the enumeration order of a set does not depend on its storage order -/
theorem sortedR_perm {s : State} {xs ys : List RVal} (h : TotalOn s xs) (hp : xs.Perm ys) :
    sortedR s xs = sortedR s ys := sortKeyed_perm h hp

theorem sortedEntriesR_perm {s : State} {kvs kvs' : List (RVal × RVal)} (h : TotalOnKeys s kvs)
    (hp : kvs.Perm kvs') : sortedEntriesR s kvs = sortedEntriesR s kvs' := sortKeyed_perm h hp

example : sortedR sA [.int 2, .int 1] = sortedR sA [.int 1, .int 2] :=
  sortedR_perm totalOn_sA (List.Perm.swap _ _ _)

/-- a date used in the counterexample below -/
def D0 : DT := { y := 2024, mo := 1, d := 1, h := 0, mi := 0, s := 0, us := 0 }

/-- `TotalOn` cannot be dropped: across kinds `<` compares the rendered text, which is cyclic
    together with the numeric order (`3 < 2024` as numbers, `"2024" < "20240101000000" < "3"` as
    text).  For the mixed set `<<3, 2024, date 2024-01-01>>` the enumeration depends on the storage
    order — in the model and in the real interpreter (observed under different hash seeds). -/
theorem totalOn_necessary :
    sortedR {} [.int 3, .int 2024, .date D0] = some [.int 3, .int 2024, .date D0] ∧
    sortedR {} [.int 2024, .date D0, .int 3] = some [.int 2024, .date D0, .int 3] ∧
    [RVal.int 3, .int 2024, .date D0].Perm [.int 2024, .date D0, .int 3] :=
  ⟨rfl, rfl, List.perm_append_comm (l₁ := [RVal.int 3]) (l₂ := [.int 2024, .date D0])⟩

/-- under `TotalOn` the enumeration exists, is a permutation of the elements … -/
theorem sortedR_some {s : State} {xs : List RVal} (h : TotalOn s xs) :
    ∃ zs, sortedR s xs = some zs ∧ zs.Perm xs := by
  refine ⟨_, sortKeyed_of_total h, ?_⟩
  have := (C07.sortBy_perm (fun a b : Val × RVal => vlt a.1 b.1) (decorate (reify s) xs)).map (·.2)
  refine this.trans ?_
  unfold decorate
  rw [List.map_map]
  have : ((fun x : Val × RVal => x.2) ∘ fun x => ((reify s x).getD Val.null, x)) = id := rfl
  rw [this, List.map_id]


theorem sortedEntriesR_some {s : State} {kvs : List (RVal × RVal)} (h : TotalOnKeys s kvs) :
    ∃ es, sortedEntriesR s kvs = some es ∧ es.Perm kvs := by
  refine ⟨_, sortKeyed_of_total h, ?_⟩
  have := (C07.sortBy_perm (fun a b : Val × (RVal × RVal) => vlt a.1 b.1)
    (decorate (fun kv => reify s kv.1) kvs)).map (·.2)
  refine this.trans ?_
  unfold decorate
  rw [List.map_map]
  have : ((fun x : Val × (RVal × RVal) => x.2) ∘ fun x => ((reify s x.1).getD Val.null, x)) = id := rfl
  rw [this, List.map_id]

/-! ### 2a: a permuted state is indistinguishable for reification, equality, order, type -/

theorem cell_lt {s : State} {a : Nat} {c : Cell} (hc : s.cell a = some c) : a < s.heap.size := by
  rcases Nat.lt_or_ge a s.heap.size with h1 | h1
  · exact h1
  · simp only [State.cell] at hc; rw [Array.getElem?_eq_none h1] at hc; cases hc

theorem setCell_cell_self {s : State} {a : Nat} {c : Cell} (c' : Cell) (hc : s.cell a = some c) :
    (s.setCell a c').cell a = some c' := by
  simp only [State.cell, State.setCell]
  exact Array.getElem?_setIfInBounds_self_of_lt (cell_lt hc)

theorem setCell_cell_ne (s : State) {a b : Nat} (c' : Cell) (hb : b ≠ a) :
    (s.setCell a c').cell b = s.cell b := by
  simp only [State.cell, State.setCell]
  exact Array.getElem?_setIfInBounds_ne (Ne.symm hb)

theorem setCell_heap_size (s : State) (a : Nat) (c' : Cell) :
    (s.setCell a c').heap.size = s.heap.size := by
  simp [State.setCell]

/-- **reify_perm**: the data value of every runtime value is the same in the permuted state -/
theorem reify_perm {a : Nat} {s s' : State} (h : PermAt a s s') (v : RVal) :
    reify s' v = reify s v := by
  obtain ⟨c, c', hc, hpc, rfl⟩ := h
  unfold reify
  rw [setCell_heap_size]
  simp only [State.setCell]
  apply reifyF_swap decRepr s.heap hc
  intro n
  cases c <;> cases c' <;> simp only [PermCell] at hpc
  · exact cellVal_set_perm decRepr s.heap hpc.1 hpc.2 n
  · exact cellVal_map_perm decRepr s.heap hpc.1 hpc.2 n

example : reify sB (.ref 0) = reify sA (.ref 0) := reify_perm permAt_sA_sB _

/-- deep equality `==` is the same in the permuted state (no hypothesis on the elements needed) -/
theorem rveq_perm {a : Nat} {s s' : State} (h : PermAt a s s') (u v : RVal) :
    rveq s' u v = rveq s u v := by
  obtain ⟨c, c', hc, hpc, rfl⟩ := h
  unfold rveq
  rw [setCell_heap_size]
  exact rveqF_swap hc hpc.cellPerm _ u v

/-- `<` is the same in the permuted state -/
theorem rvlt_perm {a : Nat} {s s' : State} (h : PermAt a s s') (u v : RVal) :
    rvlt s' u v = rvlt s u v := by
  unfold rvlt; rw [reify_perm h, reify_perm h]

theorem typeName_perm {a : Nat} {s s' : State} (h : PermAt a s s') (v : RVal) :
    typeName s' v = typeName s v := by
  obtain ⟨c, c', hc, hpc, rfl⟩ := h
  cases v <;> try rfl
  rename_i b
  simp only [typeName]
  by_cases hb : b = a
  · subst hb
    rw [setCell_cell_self c' hc, hc]
    cases c <;> cases c' <;> simp only [PermCell] at hpc <;> rfl
  · rw [setCell_cell_ne s c' hb]

/-- the enumeration of ANY element list is the same in the permuted state -/
theorem sortedR_state {a : Nat} {s s' : State} (h : PermAt a s s') (zs : List RVal) :
    sortedR s' zs = sortedR s zs := by
  rw [sortedR_eq, sortedR_eq, funext (reify_perm h)]

theorem sortedEntriesR_state {a : Nat} {s s' : State} (h : PermAt a s s') (kvs : List (RVal × RVal)) :
    sortedEntriesR s' kvs = sortedEntriesR s kvs := by
  rw [sortedEntriesR_eq, sortedEntriesR_eq]
  congr 1
  funext kv
  exact reify_perm h kv.1

theorem totalOn_state {a : Nat} {s s' : State} (h : PermAt a s s') {zs : List RVal}
    (hz : TotalOn s zs) : TotalOn s' zs := by
  unfold TotalOn at *; rw [funext (reify_perm h)]; exact hz

theorem setIfInBounds_same {h : Array Cell} {a : Nat} {c : Cell} (hc : h[a]? = some c) :
    h.setIfInBounds a c = h := by
  apply Array.ext_getElem?
  intro i
  by_cases hi : i = a
  · subst hi
    rw [Array.getElem?_setIfInBounds_self_of_lt, hc]
    rcases Nat.lt_or_ge i h.size with h1 | h1
    · exact h1
    · rw [Array.getElem?_eq_none h1] at hc; cases hc
  · rw [Array.getElem?_setIfInBounds_ne (Ne.symm hi)]

/-- the relation is symmetric -/
theorem PermAt.symm {a : Nat} {s s' : State} (h : PermAt a s s') : PermAt a s' s := by
  have h0 := h
  obtain ⟨c, c', hc, hpc, rfl⟩ := h
  refine ⟨c', c, setCell_cell_self c' hc, ?_, ?_⟩
  · match c, c', hpc with
    | .set xs, .set ys, hpc =>
      exact ⟨hpc.1.symm, totalOn_state h0 (hpc.2.perm hpc.1)⟩
    | .map kvs, .map kvs', hpc =>
      refine ⟨hpc.1.symm, ?_⟩
      have := hpc.2.perm hpc.1
      unfold TotalOnKeys at *
      have e : (fun kv : RVal × RVal => reify (s.setCell a (.map kvs')) kv.1) = fun kv => reify s kv.1 := by
        funext kv; exact reify_perm h0 kv.1
      rw [e]; exact this
  · cases s
    simp only [State.setCell, State.cell] at hc ⊢
    rw [Array.setIfInBounds_setIfInBounds, setIfInBounds_same hc]

example : PermAt 0 sB sA := permAt_sA_sB.symm

/-- the enumeration of the permuted cell itself: same list in both states -/
theorem sortedR_cell {a : Nat} {s : State} {xs ys : List RVal} (hc : s.cell a = some (.set xs))
    (hp : xs.Perm ys) (ht : TotalOn s xs) :
    sortedR (s.setCell a (.set ys)) ys = sortedR s xs := by
  have h : PermAt a s (s.setCell a (.set ys)) := ⟨.set xs, .set ys, hc, ⟨hp, ht⟩, rfl⟩
  rw [sortedR_state h, ← sortedR_perm ht hp]

/-- **memR_perm**: membership (`in`, `contains`) does not depend on the storage order -/
theorem memR_perm (s : State) (x : RVal) {xs ys : List RVal} (hp : xs.Perm ys) :
    memR s x xs = memR s x ys := hp.any_eq

theorem memR_state {a : Nat} {s s' : State} (h : PermAt a s s') (x : RVal) (zs : List RVal) :
    memR s' x zs = memR s x zs := by
  unfold memR; rw [funext (rveq_perm h x)]


/-! ### 2b: the helper programs of the evaluator commute with the permutation

  `o.mapS g`: the outcome `o` with `g` applied to its final state.  Each theorem says: run in the
  permuted state, the program gives the same value (or the same error / failure) and ends in the
  permuted final state. -/

/-- apply `g` to the final state of an outcome -/
def _root_.Ckl.Out.mapS {α} (g : State → State) : Out α → Out α
  | .ok v s => .ok v (g s)
  | .err v m p t s => .err v m p t (g s)
  | .fail f s => .fail f (g s)

theorem push_setIfInBounds (h : Array Cell) {a : Nat} (c' d : Cell) (ha : a < h.size) :
    (h.setIfInBounds a c').push d = (h.push d).setIfInBounds a c' := by
  apply Array.ext_getElem?
  intro i
  by_cases hi : i = a
  · subst hi
    rw [Array.getElem?_setIfInBounds_self_of_lt (by simp; omega),
      Array.getElem?_push_lt (by simp; exact ha), Array.getElem_setIfInBounds_self]
  · rw [Array.getElem?_setIfInBounds_ne (Ne.symm hi), Array.getElem?_push, Array.getElem?_push]
    simp only [Array.size_setIfInBounds]
    split
    · rfl
    · rw [Array.getElem?_setIfInBounds_ne (Ne.symm hi)]

theorem allocM_setCell (s : State) {a : Nat} (c' d : Cell) (ha : a < s.heap.size) :
    allocM d (s.setCell a c') = (allocM d s).mapS (·.setCell a c') := by
  simp only [allocM, State.alloc, State.setCell, Out.mapS, Array.size_setIfInBounds,
    push_setIfInBounds _ _ _ ha]

theorem mapM_allocM_setCell {β} (f : β → Cell) (l : List β) (s : State) {a : Nat} (c' : Cell)
    (ha : a < s.heap.size) :
    (l.mapM (fun x => allocM (f x))) (s.setCell a c') =
      ((l.mapM (fun x => allocM (f x))) s).mapS (·.setCell a c') := by
  induction l generalizing s with
  | nil => rfl
  | cons x l ih =>
    rw [List.mapM_cons, EvalM.bind_apply, EvalM.bind_apply, allocM_setCell s c' _ ha]
    have hs : allocM (f x) s = .ok (.ref s.heap.size) (s.alloc (f x)).1 := rfl
    rw [hs]
    simp only [Out.mapS]
    rw [EvalM.bind_apply, EvalM.bind_apply, ih (s.alloc (f x)).1 (by simp [State.alloc]; omega)]
    cases (l.mapM (fun x => allocM (f x))) (s.alloc (f x)).1 <;> rfl

theorem collectionValues_perm {a : Nat} {s : State} {c c' : Cell} (hc : s.cell a = some c)
    (hpc : PermCell s c c') (v : RVal) (w : Option String) (pos : Pos) :
    collectionValues v w pos (s.setCell a c') =
      (collectionValues v w pos s).mapS (·.setCell a c') := by
  have hP : PermAt a s (s.setCell a c') := ⟨c, c', hc, hpc, rfl⟩
  have ha := cell_lt hc
  unfold collectionValues
  simp only [bind, EvalM.bind', getS]
  cases v with
  | ref b =>
    simp only [EvalM.bind', cellOf, typeName_perm hP, sortedR_state hP, sortedEntriesR_state hP]
    by_cases hb : b = a
    · subst hb
      rw [setCell_cell_self c' hc, hc]
      match c, c', hpc with
      | .set xs, .set ys, hpc =>
        simp only
        rw [← sortedR_perm hpc.2 hpc.1]
        cases sortedR s xs <;> rfl
      | .map kvs, .map kvs', hpc =>
        simp only
        rw [← sortedEntriesR_perm hpc.2 hpc.1]
        cases sortedEntriesR s kvs with
        | none => rfl
        | some es =>
          simp only
          split
          · rfl
          · split
            · rfl
            · exact mapM_allocM_setCell (fun kv : RVal × RVal => Cell.list [kv.1, kv.2]) es s _ ha
    · rw [setCell_cell_ne s c' hb]
      cases hcb : s.cell b with
      | none => rfl
      | some d =>
        cases d with
        | list xs => rfl
        | set xs => simp only; cases sortedR s xs <;> rfl
        | map kvs =>
          simp only
          cases sortedEntriesR s kvs with
          | none => rfl
          | some es =>
            simp only
            split
            · rfl
            · split
              · rfl
              · exact mapM_allocM_setCell (fun kv : RVal × RVal => Cell.list [kv.1, kv.2]) es s _ ha
        | obj kvs m =>
          simp only
          split
          · rfl
          · split
            · exact mapM_allocM_setCell (fun kv : String × RVal => Cell.list [.str kv.1.toList, kv.2]) kvs s _ ha
            · rfl
        | closure _ _ _ _ _ => rfl
  | _ => rfl

example : collectionValues (.ref 0) none {} sB = (collectionValues (.ref 0) none {} sA).mapS (·.setCell 0 (.set [.int 1, .int 2])) :=
  collectionValues_perm (s := sA) (a := 0) (c := .set [.int 2, .int 1]) rfl (permCell_set (List.Perm.swap _ _ _) totalOn_sA) _ _ _

theorem spreadValues_perm {a : Nat} {s : State} {c c' : Cell} (hc : s.cell a = some c)
    (hpc : PermCell s c c') (v : RVal) (pos : Pos) :
    spreadValues v pos (s.setCell a c') = (spreadValues v pos s).mapS (·.setCell a c') := by
  have hP : PermAt a s (s.setCell a c') := ⟨c, c', hc, hpc, rfl⟩
  unfold spreadValues
  simp only [bind, EvalM.bind', getS]
  cases v with
  | ref b =>
    simp only [EvalM.bind', cellOf, typeName_perm hP, sortedR_state hP]
    by_cases hb : b = a
    · subst hb
      rw [setCell_cell_self c' hc, hc]
      match c, c', hpc with
      | .set xs, .set ys, hpc =>
        simp only
        rw [← sortedR_perm hpc.2 hpc.1]
        cases sortedR s xs <;> rfl
      | .map kvs, .map kvs', hpc =>
        simp only
        have : sortedR s (kvs'.map (·.1)) = sortedR s (kvs.map (·.1)) := by
          symm
          apply sortedR_perm _ (hpc.1.map _)
          exact TotalKey.map (g := fun kv : RVal × RVal => kv.1) hpc.2
        rw [this]
        cases sortedR s (kvs.map (·.1)) <;> rfl
    · rw [setCell_cell_ne s c' hb]
      cases hcb : s.cell b with
      | none => rfl
      | some d =>
        cases d with
        | list xs => rfl
        | set xs => simp only; cases sortedR s xs <;> rfl
        | map kvs => simp only; cases sortedR s (kvs.map (·.1)) <;> rfl
        | obj kvs m => rfl
        | closure _ _ _ _ _ => rfl
  | _ => rfl

example : spreadValues (.ref 0) {} sB = (spreadValues (.ref 0) {} sA).mapS (·.setCell 0 (.set [.int 1, .int 2])) :=
  spreadValues_perm (s := sA) (a := 0) (c := .set [.int 2, .int 1]) rfl (permCell_set (List.Perm.swap _ _ _) totalOn_sA) _ _

theorem destructure_perm {a : Nat} {s : State} {c c' : Cell} (hc : s.cell a = some c)
    (hpc : PermCell s c c') (v : RVal) (count : Nat) (pos : Pos) :
    destructure v count pos (s.setCell a c') = (destructure v count pos s).mapS (·.setCell a c') := by
  have hP : PermAt a s (s.setCell a c') := ⟨c, c', hc, hpc, rfl⟩
  unfold destructure
  simp only [bind, EvalM.bind', getS]
  cases v with
  | ref b =>
    simp only [EvalM.bind', cellOf, typeOf, typeName_perm hP, sortedR_state hP]
    by_cases hb : b = a
    · subst hb
      rw [setCell_cell_self c' hc, hc]
      match c, c', hpc with
      | .set xs, .set ys, hpc =>
        simp only [EvalM.bind', getS, sortedR_state hP]
        rw [← sortedR_perm hpc.2 hpc.1]
        cases sortedR s xs <;> rfl
      | .map kvs, .map kvs', hpc =>
        simp only [EvalM.bind', typeOf, typeName_perm hP]; rfl
    · rw [setCell_cell_ne s c' hb]
      cases hcb : s.cell b with
      | none => simp only [EvalM.bind', typeOf, typeName_perm hP]; rfl
      | some d =>
        cases d with
        | list xs => rfl
        | set xs => simp only [EvalM.bind', getS, sortedR_state hP]; cases sortedR s xs <;> rfl
        | map kvs => simp only [EvalM.bind', typeOf, typeName_perm hP]; rfl
        | obj kvs m => simp only [EvalM.bind', typeOf, typeName_perm hP]; rfl
        | closure _ _ _ _ _ => simp only [EvalM.bind', typeOf, typeName_perm hP]; rfl
  | _ => rfl


example : destructure (.ref 0) 2 {} sB = (destructure (.ref 0) 2 {} sA).mapS (·.setCell 0 (.set [.int 1, .int 2])) :=
  destructure_perm (s := sA) (a := 0) (c := .set [.int 2, .int 1]) rfl (permCell_set (List.Perm.swap _ _ _) totalOn_sA) _ _ _

/-- sequencing: if the first program commutes with `g`, and the continuation does so from every
    state the first program can end in, the composition commutes with `g` -/
theorem bind_mapS {α β} {m m' : EvalM α} {f : α → EvalM β} {g : State → State} {s : State}
    (hm : m' (g s) = (m s).mapS g)
    (hf : ∀ v s1, m s = .ok v s1 → f v (g s1) = (f v s1).mapS g) :
    (m' >>= f) (g s) = ((m >>= f) s).mapS g := by
  rw [EvalM.bind_apply, EvalM.bind_apply, hm]
  cases hms : m s with
  | ok v s1 => exact hf v s1 hms
  | err _ _ _ _ _ => rfl
  | fail _ _ => rfl

theorem collAsList_ok_state {c : Cell} {s s1 : State} {zs : List RVal}
    (h : collAsList c s = .ok zs s1) : s1 = s := by
  unfold collAsList at h
  cases c with
  | list xs => cases h; rfl
  | set xs =>
    simp only [bind, EvalM.bind', getS] at h
    cases hs : sortedR s xs with
    | none => rw [hs] at h; cases h
    | some ys => rw [hs] at h; cases h; rfl
  | _ => cases h

/-- `asList()` of a list / set cell (operands of `list + set`, `list - set`, `list(set)`):
    the permuted cell enumerates to the same list -/
theorem collAsList_perm {a : Nat} {s : State} {xs ys : List RVal} (hc : s.cell a = some (.set xs))
    (hp : xs.Perm ys) (ht : TotalOn s xs) :
    collAsList (.set ys) (s.setCell a (.set ys)) =
      (collAsList (.set xs) s).mapS (·.setCell a (.set ys)) := by
  have hP := permAt_set hc hp ht
  unfold collAsList
  simp only [bind, EvalM.bind', getS, sortedR_state hP]
  rw [← sortedR_perm ht hp]
  cases sortedR s xs <;> rfl

example : collAsList (.set [.int 1, .int 2]) sB =
    (collAsList (.set [.int 2, .int 1]) sA).mapS (·.setCell 0 (.set [.int 1, .int 2])) :=
  collAsList_perm (s := sA) (a := 0) rfl (List.Perm.swap _ _ _) totalOn_sA

/-- … and every other cell enumerates as before -/
theorem collAsList_state {a : Nat} {s : State} {c c' : Cell} (hc : s.cell a = some c)
    (hpc : PermCell s c c') (d : Cell) :
    collAsList d (s.setCell a c') = (collAsList d s).mapS (·.setCell a c') := by
  have hP : PermAt a s (s.setCell a c') := ⟨c, c', hc, hpc, rfl⟩
  unfold collAsList
  cases d with
  | set zs =>
    simp only [bind, EvalM.bind', getS, sortedR_state hP]
    cases sortedR s zs <;> rfl
  | _ => rfl

/-- `list(x)` when the permuted cell is a set (`list(set)` and every other argument) -/
theorem asListArg_perm {a : Nat} {s : State} {xs ys : List RVal} (hc : s.cell a = some (.set xs))
    (hp : xs.Perm ys) (ht : TotalOn s xs) (v : RVal) (pos : Pos) :
    asListArg v pos (s.setCell a (.set ys)) =
      (asListArg v pos s).mapS (·.setCell a (.set ys)) := by
  have hP := permAt_set hc hp ht
  have ha := cell_lt hc
  unfold asListArg
  cases v with
  | ref b =>
    dsimp only
    rw [EvalM.bind_apply, EvalM.bind_apply, C04.cellOf_ref, C04.cellOf_ref]
    simp only
    by_cases hb : b = a
    · subst hb
      rw [setCell_cell_self _ hc, hc]
      simp only
      refine bind_mapS (g := (·.setCell b (.set ys))) (collAsList_perm hc hp ht) ?_
      intro zs s1 h1
      rw [collAsList_ok_state h1]
      exact allocM_setCell s _ _ ha
    · rw [setCell_cell_ne s _ hb]
      cases hcb : s.cell b with
      | none => rfl
      | some d =>
        cases d with
        | list zs => rfl
        | set zs =>
          simp only
          refine bind_mapS (g := (·.setCell a (.set ys))) (collAsList_state hc (permCell_set hp ht) _) ?_
          intro zs s1 h1
          rw [collAsList_ok_state h1]
          exact allocM_setCell s _ _ ha
        | map kvs =>
          simp only [bind, EvalM.bind', getS, sortedR_state hP]
          cases sortedR s (kvs.map (·.2)) with
          | none => rfl
          | some zs => exact allocM_setCell s _ _ ha
        | obj _ _ => rfl
        | closure _ _ _ _ _ => rfl
  | bool _ => exact allocM_setCell s _ _ ha
  | date _ => exact allocM_setCell s _ _ ha
  | dec _ _ => exact allocM_setCell s _ _ ha
  | int _ => exact allocM_setCell s _ _ ha
  | pat _ => exact allocM_setCell s _ _ ha
  | str _ => exact allocM_setCell s _ _ ha
  | _ => rfl


example : asListArg (.ref 0) {} sB = (asListArg (.ref 0) {} sA).mapS (·.setCell 0 (.set [.int 1, .int 2])) :=
  asListArg_perm (s := sA) (a := 0) rfl (List.Perm.swap _ _ _) totalOn_sA _ _

/-- membership in the permuted cell, tested in the permuted state -/
theorem memR_cell {a : Nat} {s : State} {xs ys : List RVal} (hc : s.cell a = some (.set xs))
    (hp : xs.Perm ys) (ht : TotalOn s xs) (x : RVal) :
    memR (s.setCell a (.set ys)) x ys = memR s x xs := by
  rw [memR_state (permAt_set hc hp ht), ← memR_perm s x hp]

example : memR sB (.int 1) [.int 1, .int 2] = memR sA (.int 1) [.int 2, .int 1] :=
  memR_cell (s := sA) (a := 0) rfl (List.Perm.swap _ _ _) totalOn_sA _

theorem permAt_map {a : Nat} {s : State} {kvs kvs' : List (RVal × RVal)}
    (hc : s.cell a = some (.map kvs)) (hp : kvs.Perm kvs') (ht : TotalOnKeys s kvs) :
    PermAt a s (s.setCell a (.map kvs')) :=
  ⟨.map kvs, .map kvs', hc, (show kvs.Perm kvs' ∧ TotalOnKeys s kvs from ⟨hp, ht⟩), rfl⟩

/-! ### 2c: construction -/

/-- no two of the items are equal (`==`), in either direction -/
def Distinct (s : State) (items : List RVal) : Prop :=
  items.Pairwise (fun x y => rveq s x y = false ∧ rveq s y x = false)

theorem Distinct.perm {s : State} {xs ys : List RVal} (h : Distinct s xs) (hp : xs.Perm ys) :
    Distinct s ys :=
  (hp.pairwise_iff (fun hxy => ⟨hxy.2, hxy.1⟩)).mp h

theorem foldl_setAdd_fresh (s : State) (items acc : List RVal)
    (h : (acc ++ items).Pairwise (fun x y => rveq s y x = false)) :
    items.foldl (fun acc x => setAdd s x acc) acc = acc ++ items := by
  induction items generalizing acc with
  | nil => simp
  | cons x items ih =>
    simp only [List.foldl_cons]
    have hfresh : memR s x acc = false := by
      unfold memR
      rw [List.any_eq_false]
      intro y hy
      rw [List.pairwise_append] at h
      simpa using h.2.2 y hy x (by simp)
    have e : acc ++ [x] ++ items = acc ++ x :: items := by simp
    have e2 : setAdd s x acc = acc ++ [x] := by simp [setAdd, hfresh]
    rw [e2, ih (acc ++ [x]) (by rw [e]; exact h), e]

/-- `addSet` of pairwise different items stores them as given … -/
theorem addSet_distinct {s : State} {items : List RVal} (h : Distinct s items) :
    addSet items s = .ok (.ref s.heap.size) (s.alloc (.set items)).1 := by
  unfold addSet
  simp only [bind, EvalM.bind', getS]
  rw [foldl_setAdd_fresh s items [] (by simpa using h.imp (fun h => h.2))]
  rfl

/-- … so permuted inputs give the same reference and states that differ only in the storage
    order of the new cell: the relation `PermAt` is what set construction produces.
    (Without `Distinct` the stored lists need not be permutations of each other: `<<1, 1.0>>`
    stores `[1]` and `<<1.0, 1>>` stores `[1.0]`; they are still equal as sets.) -/
theorem addSet_perm {s : State} {items items' : List RVal} (h : Distinct s items)
    (hp : items.Perm items') :
    ∃ s1, addSet items s = .ok (.ref s.heap.size) s1 ∧
      s1.cell s.heap.size = some (.set items) ∧
      addSet items' s = .ok (.ref s.heap.size) (s1.setCell s.heap.size (.set items')) := by
  refine ⟨_, addSet_distinct h, ?_, ?_⟩
  · simp [State.alloc, State.cell]
  · rw [addSet_distinct (h.perm hp)]
    congr 1
    simp only [State.alloc, State.setCell]
    congr 1
    apply Array.ext_getElem?
    intro i
    by_cases hi : i = s.heap.size
    · subst hi; simp
    · rw [Array.getElem?_setIfInBounds_ne (Ne.symm hi), Array.getElem?_push, Array.getElem?_push]
      simp [hi]

theorem distinct_ints : Distinct {} [.int 2, .int 1] := by
  unfold Distinct
  refine List.Pairwise.cons ?_ (List.Pairwise.cons (by simp) List.Pairwise.nil)
  intro y hy
  simp only [List.mem_cons, List.not_mem_nil, or_false] at hy
  subst hy
  exact ⟨by simp [rveq, rveqF], by simp [rveq, rveqF]⟩

example := addSet_perm distinct_ints (List.Perm.swap (RVal.int 1) (.int 2) [])

/-! ### 2d: the items a `for` loop iterates -/

/-- **evalFor_items_perm** (sets): if the collection expression evaluates to the same set cell in
    two runs whose states differ only in the storage order of that cell, both `for` loops hand the
    same item list `zs` to `forItems` -/
theorem evalFor_items_perm (ld : Loader) {fuel env ids e body what pos s s' a s1 xs ys}
    (he : eval ld fuel env e s = .ok (.ref a) s1)
    (hc : s1.cell a = some (.set xs)) (hp : xs.Perm ys) (ht : TotalOn s1 xs)
    (he' : eval ld fuel env e s' = .ok (.ref a) (s1.setCell a (.set ys))) :
    ∃ zs, zs.Perm xs ∧
      evalFor ld (fuel+1) env ids e body what pos s =
        (do let r ← forItems ld fuel env ids zs body (.bool true) pos
            if zs.isEmpty then pure () else removeVars env ids
            pure r) s1 ∧
      evalFor ld (fuel+1) env ids e body what pos s' =
        (do let r ← forItems ld fuel env ids zs body (.bool true) pos
            if zs.isEmpty then pure () else removeVars env ids
            pure r) (s1.setCell a (.set ys)) := by
  obtain ⟨zs, hzs, hperm⟩ := sortedR_some ht
  refine ⟨zs, hperm, C04.for_set_sorted ld he hc hzs,
    C04.for_set_sorted ld he' (setCell_cell_self _ hc) ?_⟩
  rw [sortedR_cell hc hp ht, hzs]

example : ∃ zs, zs.Perm [.int 2, .int 1] ∧
    evalFor C04.ld0 2 0 ["y"] (.ident "x" {}) C04.T "" {} C04.sSet =
      (do let r ← forItems C04.ld0 1 0 ["y"] zs C04.T (.bool true) {}
          if zs.isEmpty then pure () else removeVars 0 ["y"]
          pure r) C04.sSet ∧
    evalFor C04.ld0 2 0 ["y"] (.ident "x" {}) C04.T "" {} (C04.sSet.setCell 0 (.set [.int 1, .int 2])) =
      (do let r ← forItems C04.ld0 1 0 ["y"] zs C04.T (.bool true) {}
          if zs.isEmpty then pure () else removeVars 0 ["y"]
          pure r) (C04.sSet.setCell 0 (.set [.int 1, .int 2])) :=
  evalFor_items_perm C04.ld0 C04.sSet_x rfl (List.Perm.swap _ _ _) (totalOn_ints _)
    (by rw [eval]; rfl)

/-- maps, selector `keys` -/
theorem evalFor_items_perm_keys (ld : Loader) {fuel env ids e body pos s s' a s1 kvs kvs'}
    (he : eval ld fuel env e s = .ok (.ref a) s1)
    (hc : s1.cell a = some (.map kvs)) (hp : kvs.Perm kvs') (ht : TotalOnKeys s1 kvs)
    (he' : eval ld fuel env e s' = .ok (.ref a) (s1.setCell a (.map kvs'))) :
    ∃ es : List (RVal × RVal), es.Perm kvs ∧
      evalFor ld (fuel+1) env ids e body "keys" pos s =
        (do let r ← forItems ld fuel env ids (es.map Prod.fst) body (.bool true) pos
            if es.isEmpty then pure () else removeVars env ids
            pure r) s1 ∧
      evalFor ld (fuel+1) env ids e body "keys" pos s' =
        (do let r ← forItems ld fuel env ids (es.map Prod.fst) body (.bool true) pos
            if es.isEmpty then pure () else removeVars env ids
            pure r) (s1.setCell a (.map kvs')) := by
  obtain ⟨es, hes, hperm⟩ := sortedEntriesR_some ht
  have hP : PermAt a s1 (s1.setCell a (.map kvs')) := permAt_map hc hp ht
  refine ⟨es, hperm, C04.for_map_keys ld he hc hes,
    C04.for_map_keys ld he' (setCell_cell_self _ hc) ?_⟩
  rw [sortedEntriesR_state hP, ← sortedEntriesR_perm ht hp, hes]

theorem totalOnKeys_sMap : TotalOnKeys C04.sMap [(.int 2, .str ['b']), (.int 1, .str ['a'])] where
  keyed x hx := by
    simp only [List.mem_cons, List.not_mem_nil, or_false] at hx
    rcases hx with rfl | rfl <;> exact ⟨_, rfl⟩
  kind := by
    refine List.Pairwise.cons ?_ (List.Pairwise.cons (by simp) List.Pairwise.nil)
    intro y hy v w hv hw
    simp only [List.mem_cons, List.not_mem_nil, or_false] at hy
    subst hy
    cases hv; cases hw; simp [SameKind]
  distinct := by
    refine List.Pairwise.cons ?_ (List.Pairwise.cons (by simp) List.Pairwise.nil)
    intro y hy v w hv hw
    simp only [List.mem_cons, List.not_mem_nil, or_false] at hy
    subst hy
    cases hv; cases hw; decide

example := evalFor_items_perm_keys C04.ld0 (ids := ["y"]) (body := C04.T) (pos := {})
  (s' := C04.sMap.setCell 0 (.map [(.int 1, .str ['a']), (.int 2, .str ['b'])])) C04.sMap_x rfl
  (List.Perm.swap (RVal.int 1, RVal.str ['a']) (.int 2, .str ['b']) []) totalOnKeys_sMap
  (by rw [eval]; rfl)

/-- maps, selector `values` (and every selector other than `keys` / `entries`) -/
theorem evalFor_items_perm_values (ld : Loader) {fuel env ids e body what pos s s' a s1 kvs kvs'}
    (hw1 : what ≠ "keys") (hw2 : what ≠ "entries")
    (he : eval ld fuel env e s = .ok (.ref a) s1)
    (hc : s1.cell a = some (.map kvs)) (hp : kvs.Perm kvs') (ht : TotalOnKeys s1 kvs)
    (he' : eval ld fuel env e s' = .ok (.ref a) (s1.setCell a (.map kvs'))) :
    ∃ es : List (RVal × RVal), es.Perm kvs ∧
      evalFor ld (fuel+1) env ids e body what pos s =
        (do let r ← forItems ld fuel env ids (es.map Prod.snd) body (.bool true) pos
            if es.isEmpty then pure () else removeVars env ids
            pure r) s1 ∧
      evalFor ld (fuel+1) env ids e body what pos s' =
        (do let r ← forItems ld fuel env ids (es.map Prod.snd) body (.bool true) pos
            if es.isEmpty then pure () else removeVars env ids
            pure r) (s1.setCell a (.map kvs')) := by
  obtain ⟨es, hes, hperm⟩ := sortedEntriesR_some ht
  have hP : PermAt a s1 (s1.setCell a (.map kvs')) := permAt_map hc hp ht
  refine ⟨es, hperm, C04.for_map_values ld hw1 hw2 he hc hes,
    C04.for_map_values ld hw1 hw2 he' (setCell_cell_self _ hc) ?_⟩
  rw [sortedEntriesR_state hP, ← sortedEntriesR_perm ht hp, hes]

example := evalFor_items_perm_values C04.ld0 (ids := ["y"]) (body := C04.T) (pos := {}) (what := "values")
  (s' := C04.sMap.setCell 0 (.map [(.int 1, .str ['a']), (.int 2, .str ['b'])])) (by decide) (by decide)
  C04.sMap_x rfl
  (List.Perm.swap (RVal.int 1, RVal.str ['a']) (.int 2, .str ['b']) []) totalOnKeys_sMap
  (by rw [eval]; rfl)

/-! ### 2e: rendering -/

theorem rrenderF_perm {a : Nat} {s s' : State} (h : PermAt a s s') :
    ∀ (n : Nat) (v : RVal), rrenderF s' n v = rrenderF s n v := by
  have h0 := h
  obtain ⟨c, c', hc, hpc, rfl⟩ := h
  have hcell : ∀ b, b ≠ a → (s.setCell a c').cell b = s.cell b := fun b hb => setCell_cell_ne s c' hb
  have hself : (s.setCell a c').cell a = some c' := setCell_cell_self c' hc
  intro n
  induction n with
  | zero =>
    intro v
    cases v with
    | closure b =>
      simp only [rrenderF]
      by_cases hb : b = a
      · subst hb
        rw [hself, hc]
        cases c <;> cases c' <;> simp only [PermCell] at hpc <;> rfl
      · rw [hcell b hb]
    | _ => simp [rrenderF, reify_perm h0]
  | succ n ih =>
    intro v
    cases v with
    | closure b =>
      simp only [rrenderF]
      by_cases hb : b = a
      · subst hb
        rw [hself, hc]
        cases c <;> cases c' <;> simp only [PermCell] at hpc <;> rfl
      · rw [hcell b hb]
    | ret v p => simp only [rrenderF, ih]
    | ref b =>
      simp only [rrenderF]
      by_cases hb : b = a
      · subst hb
        rw [hself, hc, reify_perm h0]
        cases c <;> cases c' <;> simp only [PermCell] at hpc <;> rfl
      · rw [hcell b hb, reify_perm h0, funext ih]
    | _ => simp [rrenderF, reify_perm h0]

/-- **rendering** (`string(x)`, `print`) is the same in the permuted state -/
theorem rrender_perm {a : Nat} {s s' : State} (h : PermAt a s s') (v : RVal) :
    rrender s' v = rrender s v := by
  unfold rrender
  have : s'.heap.size = s.heap.size := by
    obtain ⟨c, c', hc, hpc, rfl⟩ := h
    exact setCell_heap_size s a c'
  rw [this, rrenderF_perm h]


example : rrender sB (.ref 0) = rrender sA (.ref 0) := rrender_perm permAt_sA_sB _

/-- `string(x)` / the text `print` writes -/
theorem asStringM_perm {a : Nat} {s : State} {c c' : Cell} (hc : s.cell a = some c)
    (hpc : PermCell s c c') (v : RVal) (pos : Pos) :
    asStringM v pos (s.setCell a c') = (asStringM v pos s).mapS (·.setCell a c') := by
  have hP : PermAt a s (s.setCell a c') := ⟨c, c', hc, hpc, rfl⟩
  unfold asStringM
  cases v <;> try rfl
  all_goals
    simp only [bind, EvalM.bind', getS, rrender_perm hP]
    generalize rrender s _ = r
    cases r <;> rfl

example : asStringM (.ref 0) {} sB = (asStringM (.ref 0) {} sA).mapS (·.setCell 0 (.set [.int 1, .int 2])) :=
  asStringM_perm (s := sA) (a := 0) (c := .set [.int 2, .int 1]) rfl
    (permCell_set (List.Perm.swap _ _ _) totalOn_sA) _ _


/-! ### non-vacuity of the state-level lemmas: the instance `permAt_sA_sB` -/

example := rveq_perm permAt_sA_sB (.ref 0) (.ref 0)
example := rvlt_perm permAt_sA_sB (.ref 0) (.int 1)
example := typeName_perm permAt_sA_sB (.ref 0)
example := sortedR_state permAt_sA_sB [.int 2, .int 1]
example := sortedEntriesR_state permAt_sA_sB [(.int 2, .null), (.int 1, .null)]
example := totalOn_state permAt_sA_sB totalOn_sA
example := sortedR_cell (s := sA) (a := 0) rfl (List.Perm.swap (RVal.int 1) (.int 2) []) totalOn_sA
example := memR_perm sA (.int 1) (List.Perm.swap (RVal.int 1) (.int 2) [])
example := memR_state permAt_sA_sB (.int 1) [.int 1]
example := sortedR_some totalOn_sA
example := sortedEntriesR_some totalOnKeys_sMap
example := sortedEntriesR_perm totalOnKeys_sMap
  (List.Perm.swap (RVal.int 1, RVal.str ['a']) (.int 2, .str ['b']) [])
example := collAsList_state (s := sA) (a := 0) (c := .set [.int 2, .int 1]) rfl
  (permCell_set (List.Perm.swap _ _ _) totalOn_sA) (.list [.int 1])

/-! ### 3: determinism

  `eval`, and hence the interpreter entry point, is a Lean *function* of the loader, the fuel, the
  environment, the program and the state: the same inputs give the same outcome by `rfl`.  All
  nondeterminism of the real interpreter that the model admits is the storage order treated above
  (and the interpretation `Loader.nativeSem` of the unmodelled natives, which is a parameter). -/

theorem eval_deterministic (ld : Loader) (fuel : Nat) (env : EnvId) (n : Node) (s : State)
    {o1 o2 : Out RVal} (h1 : eval ld fuel env n s = o1) (h2 : eval ld fuel env n s = o2) : o1 = o2 :=
  h1.symm.trans h2

end Ckl.C12

