"""./check entry point."""
import importlib
import json
import os
import sys
import time
import traceback

from harness import core


def usage():
    print("usage: check <ID> quick|thorough | check <ID> --replay FILE | check --setup", file=sys.stderr)
    sys.exit(2)


def setup():
    os.makedirs(core.CACHE, exist_ok=True)
    with core.build_lock():
        probs = core.run_gen()
        rc, log = core.lake_build()
    sys.stdout.write(log[-4000:])
    if probs:
        print("extractor problems:", probs)
    stamp = os.path.join(core.CACHE, "build.json")
    if os.path.exists(stamp):
        os.unlink(stamp)
    sys.exit(0 if rc == 0 else 2)


def main():
    args = sys.argv[1:]
    if not args:
        usage()
    if args[0] == "--setup":
        setup()
    prop = args[0]
    if len(args) >= 3 and args[1] == "--replay":
        mode, replay = "replay", args[2]
        tier = "quick"
    elif len(args) >= 2 and args[1] in ("quick", "thorough"):
        mode, replay, tier = "check", None, args[1]
    else:
        usage()
    tier = os.environ.get("VERIF_TIER", tier) if mode == "check" and len(args) < 2 else tier
    seed = int(os.environ.get("VERIF_SEED", "1"))
    core.use_repo()
    ctx = core.Ctx(prop, tier, seed)
    if mode == "check" and os.path.isdir(core.REPLAYS):
        for f in os.listdir(core.REPLAYS):
            if f.startswith(f"{prop}-{seed}-"):
                os.unlink(os.path.join(core.REPLAYS, f))
    try:
        mod = importlib.import_module(f"harness.props.{prop.lower()}")
    except ModuleNotFoundError:
        print(f"no check for {prop}", file=sys.stderr)
        sys.exit(2)
    try:
        ctx.build = core.build_and_audit(prop, thorough=(tier == 'thorough'))
        if mode == "replay":
            rc = mod.replay(ctx, json.load(open(replay)))
            sys.exit(rc)
        if not ctx.build.ok:
            # the model does not build: nothing is shown. Still run the oracle side.
            ctx.notes.append("lake build failed: " + ctx.build.log[-1500:])
        mod.run(ctx)
    except Exception:
        traceback.print_exc()
        print(f"INFRASTRUCTURE FAILURE in check {prop}", file=sys.stderr)
        sys.exit(2)
    finish(ctx)


def finish(ctx):
    b = ctx.build
    n = 0
    # broken proof obligations / build: search already done by the property module
    # (its oracle ran on the implementation); report what is not shown.
    lines = []
    oracle = [v for v in ctx.violations if v["kind"] != "correspondence"]
    corr = [v for v in ctx.violations if v["kind"] == "correspondence"]
    for v in oracle[:10]:
        n += 1
        path = core.write_replay(ctx, n, {"property": ctx.prop, "seed": ctx.seed, "tier": ctx.tier, **v})
        lines.append(f"VIOLATION property={ctx.prop} replay={path}")
    if len(oracle) > 10 or ctx.suppressed:
        print(f"({len(oracle) - 10 + ctx.suppressed} further failing inputs not listed)")
    have_input = bool(oracle)
    if corr:
        # the model and the implementation disagree although the property's oracle accepts the
        # implementation's behaviour on these inputs: the correspondence no longer checks
        n += 1
        path = core.write_replay(ctx, n, {"property": ctx.prop, "seed": ctx.seed, "tier": ctx.tier, "kind": "correspondence",
                                          "note": "model and implementation disagree; the property oracle found no failing input among the disagreeing inputs" if not have_input else "model and implementation disagree",
                                          "disagreements": corr[:20]})
        lines.append(f"VIOLATION property={ctx.prop} replay={path}" + ("" if have_input else " no-failing-input-found"))
    if b and (b.failed or not b.ok or b.gen_problems):
        n += 1
        payload = {"property": ctx.prop, "kind": "proof-obligation",
                   "failed": [f"{t}: {r}" for t, r in b.failed], "extractor_problems": b.gen_problems,
                   "build_log_tail": b.log[-3000:] if not b.ok else "",
                   "note": "a theorem / regenerated-table obligation of this property no longer checks"}
        path = core.write_replay(ctx, n, payload)
        if have_input:
            lines.append(f"VIOLATION property={ctx.prop} replay={path}")
        else:
            lines.append(f"VIOLATION property={ctx.prop} replay={path} no-failing-input-found")
    for key, what in ctx.known_hits.items():
        print(f"KNOWN-FINDING: property={ctx.prop} {what}")
    core.write_evidence(ctx)
    for ln in lines:
        print(ln)
    print(f"{ctx.prop} {ctx.tier} seed={ctx.seed}: evaluations={ctx.evaluations} distinct_nontrivial={len(ctx.nontrivial)} "
          f"theorems={len(b.discharged) if b else 0}/{len(b.obligations) if b else 0} violations={len(lines)} wall={ctx.elapsed():.1f}s")
    sys.exit(1 if lines else 0)


if __name__ == "__main__":
    main()
