import CklVerif.Proofs.C03Gen
open Ckl.C03G
#print axioms argnames_agree
#print axioms modelled_are_declared
