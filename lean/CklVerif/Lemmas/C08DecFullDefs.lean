/-
  C08 (all containers, decimals included) — definitions: the data values `IsDataP` (NULL, booleans,
  ints, strings, DECIMALS (finite binary64 values), and lists, sets and maps of them, nested to any
  depth; no ordering condition on set elements / map keys: the scanner and the parser do not need
  one), the token sequence `tokensOfP v` their text scans to, and the literal AST relation
  `NodeIsP v n`.
-/
import CklVerif.Lemmas.C08FullDefs
import CklVerif.Lemmas.C08DecListScan
namespace Ckl.C08DF
open Ckl Ckl.Lexer Ckl.C08 Ckl.C08D Ckl.C08F

mutual
  /-- the data values: NULL, booleans, ints whose numeral has at most 4300 digits, strings,
      decimals `.dec m e` that are finite binary64 values in normal form (`IsDouble m e`), and
      lists, sets and maps of data values nested to any depth; no key of a map is NULL (the literal
      `<<<NULL => 1>>>` has the STRING key `'NULL'`).  No condition on the order of the elements of
      a set / the keys of a map.  Patterns and dates are not included. -/
  def IsDataP : Val → Prop
    | .null => True
    | .bool _ => True
    | .int n => (Nat.toDigits 10 n.natAbs).length ≤ 4300
    | .str _ => True
    | .dec m e => IsDouble m e
    | .list xs => IsDataPL xs
    | .set xs => IsDataPL xs
    | .map kvs => IsDataPM kvs
    | _ => False
  def IsDataPL : List Val → Prop
    | [] => True
    | x :: xs => IsDataP x ∧ IsDataPL xs
  def IsDataPM : List (Val × Val) → Prop
    | [] => True
    | (k, v) :: rest => k ≠ .null ∧ IsDataP k ∧ IsDataP v ∧ IsDataPM rest
end

mutual
  /-- the decimal-free canonical data values of `C08F` are data values in the present sense -/
  theorem isDataP_of_isData' : ∀ (v : Val), IsData' decRepr v → IsDataP v
    | .null, _ => by simp only [IsDataP]
    | .bool _, _ => by simp only [IsDataP]
    | .int _, h => by simpa only [IsDataP, IsData'] using h
    | .str _, _ => by simp only [IsDataP]
    | .list xs, h => by
      simp only [IsDataP]; exact isDataPL_of_isDataL' xs (by simpa only [IsData'] using h)
    | .set xs, h => by
      simp only [IsData'] at h
      simp only [IsDataP]; exact isDataPL_of_isDataL' xs h.1
    | .map kvs, h => by
      simp only [IsData'] at h
      simp only [IsDataP]; exact isDataPM_of_isDataM' kvs h.1
    | .dec _ _, h => by simp [IsData'] at h
    | .pat _, h => by simp [IsData'] at h
    | .date _, h => by simp [IsData'] at h
  theorem isDataPL_of_isDataL' : ∀ (xs : List Val), IsDataL' decRepr xs → IsDataPL xs
    | [], _ => by simp only [IsDataPL]
    | x :: xs, h => by
      simp only [IsDataL'] at h
      simp only [IsDataPL]; exact ⟨isDataP_of_isData' x h.1, isDataPL_of_isDataL' xs h.2⟩
  theorem isDataPM_of_isDataM' : ∀ (kvs : List (Val × Val)), IsDataM' decRepr kvs → IsDataPM kvs
    | [], _ => by simp only [IsDataPM]
    | (k, v) :: rest, h => by
      simp only [IsDataM'] at h
      simp only [IsDataPM]
      exact ⟨h.1, isDataP_of_isData' k h.2.1, isDataP_of_isData' v h.2.2.1,
        isDataPM_of_isDataM' rest h.2.2.2⟩
end

/-! ### expected tokens -/

mutual
  /-- the tokens (value, type) that the text of a data value scans to (`C08F.tokensOf` plus the
      decimal case `C08DL.decToks`) -/
  def tokensOfP : Val → List TV
    | .null => [(['N', 'U', 'L', 'L'], .identifier)]
    | .bool true => [(['T', 'R', 'U', 'E'], .boolean)]
    | .bool false => [(['F', 'A', 'L', 'S', 'E'], .boolean)]
    | .int n => intToks n
    | .str s => [(s, .string)]
    | .dec m e => C08DL.decToks m e
    | .list xs => (['['], ip) :: (sepToks (tokensLsP xs) ++ [([']'], ip)])
    | .set xs => (['<', '<'], ip) :: (sepToks (tokensLsP xs) ++ [(['>', '>'], ip)])
    | .map kvs => (['<', '<', '<'], ip) :: (sepToks (tokensMsP kvs) ++ [(['>', '>', '>'], ip)])
    | _ => []
  def tokensLsP : List Val → List (List TV)
    | [] => []
    | x :: xs => tokensOfP x :: tokensLsP xs
  def tokensMsP : List (Val × Val) → List (List TV)
    | [] => []
    | (k, v) :: rest => (tokensOfP k ++ (['=', '>'], ip) :: tokensOfP v) :: tokensMsP rest
end

/-! ### the literal AST -/

mutual
  /-- `NodeIsP v n`: `n` is the literal AST of the data value `v`, source positions aside: a tree
      of `.list` / `.set` / `.map` nodes with `.lit` leaves, NULL being the identifier `NULL` -/
  def NodeIsP : Val → Node → Prop
    | .null, n => ∃ p, n = .ident "NULL" p
    | .bool b, n => ∃ p, n = .lit (.bool b) p
    | .int k, n => ∃ p, n = .lit (.int k) p
    | .str s, n => ∃ p, n = .lit (.str s) p
    | .dec m e, n => ∃ p, n = .lit (.dec m e) p
    | .list xs, n => ∃ ns p, n = .list ns p ∧ NodeIsPL xs ns
    | .set xs, n => ∃ ns p, n = .set ns p ∧ NodeIsPL xs ns
    | .map kvs, n => ∃ ks vs p, n = .map ks vs p ∧ NodeIsPM kvs ks vs
    | _, _ => False
  def NodeIsPL : List Val → List Node → Prop
    | [], ns => ns = []
    | x :: xs, ns => ∃ n ns', ns = n :: ns' ∧ NodeIsP x n ∧ NodeIsPL xs ns'
  def NodeIsPM : List (Val × Val) → List Node → List Node → Prop
    | [], ks, vs => ks = [] ∧ vs = []
    | (k, v) :: rest, ks, vs => ∃ kn ks' vn vs', ks = kn :: ks' ∧ vs = vn :: vs' ∧
        NodeIsP k kn ∧ NodeIsP v vn ∧ NodeIsPM rest ks' vs'
end

mutual
  /-- **NodeIsP_inj**: the AST determines the value (in particular the decimal read back is the
      same double `m / 2^e`, not merely a close one) -/
  theorem NodeIsP_inj : ∀ (v v' : Val) (n : Node), NodeIsP v n → NodeIsP v' n → v = v'
    | .null, v', n, h, h' => by
      obtain ⟨p, rfl⟩ := h
      cases v' <;> simp [NodeIsP] at h' ⊢
    | .bool b, v', n, h, h' => by
      obtain ⟨p, rfl⟩ := h
      cases v' <;> simp [NodeIsP] at h' ⊢
      exact h'
    | .int k, v', n, h, h' => by
      obtain ⟨p, rfl⟩ := h
      cases v' <;> simp [NodeIsP] at h' ⊢
      exact h'
    | .str s, v', n, h, h' => by
      obtain ⟨p, rfl⟩ := h
      cases v' <;> simp [NodeIsP] at h' ⊢
      exact h'
    | .dec m e, v', n, h, h' => by
      obtain ⟨p, rfl⟩ := h
      cases v' <;> simp [NodeIsP] at h' ⊢
      exact h'
    | .list xs, v', n, h, h' => by
      obtain ⟨ns, p, rfl, hns⟩ := h
      cases v' <;> simp only [NodeIsP, Node.list.injEq, reduceCtorEq, false_and, exists_false] at h'
      obtain ⟨ns', p', ⟨rfl, rfl⟩, hns'⟩ := h'
      rw [NodeIsPL_inj xs _ ns hns hns']
    | .set xs, v', n, h, h' => by
      obtain ⟨ns, p, rfl, hns⟩ := h
      cases v' <;> simp only [NodeIsP, Node.set.injEq, reduceCtorEq, false_and, exists_false] at h'
      obtain ⟨ns', p', ⟨rfl, rfl⟩, hns'⟩ := h'
      rw [NodeIsPL_inj xs _ ns hns hns']
    | .map kvs, v', n, h, h' => by
      obtain ⟨ks, vs, p, rfl, hns⟩ := h
      cases v' <;> simp only [NodeIsP, Node.map.injEq, reduceCtorEq, false_and, exists_false] at h'
      obtain ⟨ks', vs', p', ⟨rfl, rfl, rfl⟩, hns'⟩ := h'
      rw [NodeIsPM_inj kvs _ ks vs hns hns']
    | .pat _, _, _, h, _ => by simp [NodeIsP] at h
    | .date _, _, _, h, _ => by simp [NodeIsP] at h
  theorem NodeIsPL_inj : ∀ (xs ys : List Val) (ns : List Node),
      NodeIsPL xs ns → NodeIsPL ys ns → xs = ys
    | [], ys, ns, h, h' => by
      simp only [NodeIsPL] at h; subst h
      cases ys with
      | nil => rfl
      | cons y ys => simp [NodeIsPL] at h'
    | x :: xs, ys, ns, h, h' => by
      obtain ⟨n, ns', rfl, hn, hns⟩ := h
      cases ys with
      | nil => simp [NodeIsPL] at h'
      | cons y ys =>
        obtain ⟨n', ns'', e, hn', hns'⟩ := h'
        simp only [List.cons.injEq] at e
        obtain ⟨rfl, rfl⟩ := e
        rw [NodeIsP_inj x y n hn hn', NodeIsPL_inj xs ys ns' hns hns']
  theorem NodeIsPM_inj : ∀ (kvs kvs' : List (Val × Val)) (ks vs : List Node),
      NodeIsPM kvs ks vs → NodeIsPM kvs' ks vs → kvs = kvs'
    | [], kvs', ks, vs, h, h' => by
      simp only [NodeIsPM] at h; obtain ⟨rfl, rfl⟩ := h
      cases kvs' with
      | nil => rfl
      | cons y ys => obtain ⟨k, v⟩ := y; simp [NodeIsPM] at h'
    | (k, v) :: rest, kvs', ks, vs, h, h' => by
      obtain ⟨kn, ks', vn, vs', rfl, rfl, hk, hv, hr⟩ := h
      cases kvs' with
      | nil => simp [NodeIsPM] at h'
      | cons y ys =>
        obtain ⟨k', v'⟩ := y
        obtain ⟨kn', ks'', vn', vs'', e1, e2, hk', hv', hr'⟩ := h'
        simp only [List.cons.injEq] at e1 e2
        obtain ⟨rfl, rfl⟩ := e1
        obtain ⟨rfl, rfl⟩ := e2
        rw [NodeIsP_inj k k' kn hk hk', NodeIsP_inj v v' vn hv hv', NodeIsPM_inj rest ys ks' vs' hr hr']
end

end Ckl.C08DF
