import CklVerif.Lemmas.C20EvalM

/-!
  C20 (evaluator part) — the invariant for every helper program that does not evaluate nodes:
  the helpers of `Eval.lean` and the modelled built-ins of `Natives.lean`.

  Every error these programs raise carries the position they were given (`pos`); the only other
  position is the default `{}` in `assignAll`.
-/
namespace Ckl
set_option linter.unusedSectionVars false

macro_rules | `(tactic| posok_lib) => `(tactic| exact PosOK.argGet _ _ (by eok))
macro_rules | `(tactic| posok_lib) => `(tactic| exact PosOK.getIndex _ (by eok))
macro_rules | `(tactic| posok_lib) => `(tactic| exact PosOK.asStringM _ (by eok))
macro_rules | `(tactic| posok_lib) => `(tactic| exact PosOK.setArgs _ _ _ (by eok))

section
variable {E : String → Pos → List (String × Pos) → Prop} {S : State → Prop} [StInv S]

namespace PosOK

theorem addSet (items : List RVal) : PosOK E S (addSet items) := by
  unfold Ckl.addSet; posok

theorem destructure (v : RVal) (count : Nat) {pos : Pos} (h : ∀ msg, E msg pos []) : PosOK E S (destructure v count pos) := by
  unfold Ckl.destructure; posok

theorem bindLoopVars (env : EnvId) (ids : List String) (v : RVal) {pos : Pos} (h : ∀ msg, E msg pos []) :
    PosOK E S (bindLoopVars env ids v pos) := by
  unfold Ckl.bindLoopVars
  have := fun n => destructure (S := S) v n h
  posok
  all_goals exact this _

theorem removeVars (env : EnvId) (ids : List String) : PosOK E S (removeVars env ids) := by
  unfold Ckl.removeVars; posok

theorem spreadValues (v : RVal) {pos : Pos} (h : ∀ msg, E msg pos []) : PosOK E S (spreadValues v pos) := by
  unfold Ckl.spreadValues; posok

theorem collectionValues (v : RVal) (what : Option String) {pos : Pos} (h : ∀ msg, E msg pos []) :
    PosOK E S (collectionValues v what pos) := by
  unfold Ckl.collectionValues; posok

theorem renameClosure (v : RVal) (name : String) : PosOK E S (renameClosure v name) := by
  constructor
  intro s hs
  cases v with
  | closure a =>
    simp only [Ckl.renameClosure, EvalM.bind_apply, Ckl.getS]
    cases hc : s.cell a with
    | none => exact hs
    | some c =>
      cases c with
      | closure e ps ds b n => exact StInv.rename s a e ps ds b n name hc hs
      | _ => exact hs
  | _ => exact hs

theorem assignAll (env : EnvId) (xs : List String) (items : List RVal) (i : Nat) (last : RVal) {pos : Pos}
    (h : ∀ msg, E msg pos []) (h0 : ∀ x : String, E (x ++ " is not defined") {} []) : PosOK E S (assignAll env xs items i last pos) := by
  induction xs generalizing i last with
  | nil => unfold Ckl.assignAll; exact pure _
  | cons x xs ih =>
    unfold Ckl.assignAll
    posok
    all_goals exact ih _ _

theorem defAll (env : EnvId) (xs : List String) (items : List RVal) (i : Nat) (last : RVal) :
    PosOK E S (defAll env xs items i last) := by
  induction xs generalizing i last with
  | nil => unfold Ckl.defAll; exact pure _
  | cons x xs ih =>
    unfold Ckl.defAll
    have := fun v n => renameClosure (E := E) (S := S) v n
    posok
    all_goals first | exact ih _ _ | exact this _ _

theorem comprResult (kind : ComprKind) (out : List (RVal × RVal)) : PosOK E S (comprResult kind out) := by
  unfold Ckl.comprResult
  have := fun xs => addSet (E := E) (S := S) xs
  posok
  all_goals exact this _

end PosOK
end

macro_rules | `(tactic| posok_lib) => `(tactic| exact PosOK.addSet _)
macro_rules | `(tactic| posok_lib) => `(tactic| exact PosOK.destructure _ _ (by eok))
macro_rules | `(tactic| posok_lib) => `(tactic| exact PosOK.bindLoopVars _ _ _ (by eok))
macro_rules | `(tactic| posok_lib) => `(tactic| exact PosOK.removeVars _ _)
macro_rules | `(tactic| posok_lib) => `(tactic| exact PosOK.spreadValues _ (by eok))
macro_rules | `(tactic| posok_lib) => `(tactic| exact PosOK.collectionValues _ _ (by eok))
macro_rules | `(tactic| posok_lib) => `(tactic| exact PosOK.renameClosure _ _)
macro_rules | `(tactic| posok_lib) => `(tactic| exact PosOK.assignAll _ _ _ _ _ (by eok) (by eok))
macro_rules | `(tactic| posok_lib) => `(tactic| exact PosOK.defAll _ _ _ _ _)
macro_rules | `(tactic| posok_lib) => `(tactic| exact PosOK.comprResult _ _)

end Ckl
