import CklVerif.Lemmas.C19SrcSet

/-! C19Src — list.ckl `append_all` on a SET cell (items a list cell or a set cell), set.ckl `union` (`require List import
    [append_all]` with the module already loaded) and `symmetric_diff` -/
namespace Ckl.C19Src
open Ckl Ckl.C03 Ckl.Gen.LibSrc
variable (ld : Loader)

/-- from a body that mutates the cell `a` to `fn.execute`, two parameters, module cache tracked -/
theorem calls_of_body2BM {src : Node} {q1 q2 : String} {body : Node} {k : Nat} {r : State → Out RVal} {Q : State → Prop}
    {a : Nat}
    (hps : lamParams src = [q1, q2]) (hds : lamDefaults src = [.absent, .absent]) (hbody : lamBody src = body)
    (hk : 2 ≤ k) (hne : q1 ≠ q2)
    {s : State} {M nats srcs fn m} (h : LibEnv s M nats srcs) (hm : M m) (hsrc : IsSrc s fn src m)
    (v1 v2 : RVal)
    (hb : ∀ s0, Ctx s0 M nats srcs s.frames.size m [(q1, v1), (q2, v2)] → Ext s s0 → SameMods s s0 →
      ∃ s', ExtBut a s s' ∧ Ev ld k s.frames.size body s0 (r s') ∧ Q s') :
    ∃ s', ExtBut a s s' ∧ Q s' ∧ ∀ env pos, Calls ld (k + 1) fn [(q1, v1), (q2, v2)] env pos s (postCall (r s')) := by
  obtain ⟨c, nm, rfl, hcell⟩ := hsrc
  rw [hps, hds, hbody] at hcell
  obtain ⟨s', e', hev, hQ⟩ := hb _ (Ctx.callee2 h hm q1 q2 v1 v2 hne) (calleeState_ext s m [(q1, v1), (q2, v2)] [q1, q2])
    (calleeState_mods s m [(q1, v1), (q2, v2)] [q1, q2])
  refine ⟨s', e', hQ, fun env pos => ?_⟩
  have hqp : ¬ q2 = q1 := fun h => hne h.symm
  exact Calls.closure ld hcell rfl hk
    (by intro p hp; simp at hp; rcases hp with rfl | rfl <;> simp [dictGet, hqp]) hev

theorem appendAllSet_take_succ (acc en : List Val) (i : Nat) (x : Val) (h : en[i]? = some x) :
    Lib.appendAllSet acc (en.take (i + 1)) = Lib.setAdd (Lib.appendAllSet acc (en.take i)) x := by
  unfold Lib.appendAllSet
  rw [List.take_add_one, h]
  simp [List.foldl_append]

theorem scalarL_appendAllSet {acc en : List Val} (ha : ScalarL acc) (he : ScalarL en) : ScalarL (Lib.appendAllSet acc en) := by
  unfold Lib.appendAllSet
  induction en generalizing acc with
  | nil => exact ha
  | cons x xs ih =>
    rw [List.foldl_cons]
    exact ih (scalarL_setAdd (he x (by simp)) ha) (fun v hv => he v (List.mem_cons_of_mem _ hv))

/-! ### list.ckl `append_all` on a set cell -/

def appendSetNats : List String := ["list", "sublist", "append"]

structure AppSetInv (s : State) (c m : EnvId) (a : Nat) (vb : RVal) (d : Nat) (acc en : List Val) (i : Nat) (st : State) :
    Prop where
  ext : ExtBut a s st
  mods : SameMods s st
  cella : st.cell a = some (.set ((Lib.appendAllSet acc (en.take i)).map liftV))
  celld : st.cell d = some (.list (en.map liftV))
  parent : (st.frame c).parent = some m
  clt : c < st.frames.size
  vars : (st.frame c).vars = [("lst", .ref a), ("items", vb)] ∨
    ∃ w, (st.frame c).vars = [("lst", .ref a), ("items", vb), ("item", w)]

/-- the iterated expression `sublist(list(items), 0)` for a collection argument: a FRESH list cell with the enumeration -/
theorem items_copy {u : State} {M nats srcs c m vars} {vb : RVal} {en : List Val} {p1 p2 p3 p4 p5 p6 : Pos}
    (cu : Ctx u M nats srcs c m vars) (hn : ∀ x ∈ appendSetNats, x ∈ nats) (CB : Coll u vb en)
    (hi : dictGet "items" vars = some vb) (h1 : dictGet "list" vars = none) (h2 : dictGet "sublist" vars = none) :
    ∃ d t1, Ev ld 7 c
      (.call (.ident "sublist" p1) [none, none]
        [.call (.ident "list" p2) [none] [.ident "items" p3] p4, .lit (.int 0) p5] p6) u (.ok (.ref d) t1) ∧
      Ext u t1 ∧ SameMods u t1 ∧ u.heap.size ≤ d ∧ t1.cell d = some (.list (en.map liftV)) ∧
      (∀ e, t1.frame e = u.frame e) ∧ t1.frames.size = u.frames.size := by
  obtain ⟨j1, hl1⟩ := cu.nat (x := "list") (hn _ (by decide)) h1
  obtain ⟨j2, hl2⟩ := cu.nat (x := "sublist") (hn _ (by decide)) h2
  obtain ⟨b, rfl, hblt, hc⟩ := CB.enum
  rcases hc with hc | ⟨els, hc, hsort⟩
  · obtain ⟨mm, hm1, hm2⟩ := list_of_list b _ (div0Value u c) p4 _ hc
    have A := Ev.nat1 ld (k := 0) (p := p2) (pos := p4) hl1 (by rfl) (by decide) (by trivial)
      (Ev.ident ld (p := p3) (cu.var hi)) hm1 hm2
    rw [wrapCall_ok] at A
    have B := Ev.nat2 ld (k := 3) (p := p1) (pos := p6) hl2 (by rfl) (by decide) (by decide) (by trivial) (by trivial)
      A (Ev.litInt ld (p := p5) (n := 0)) rfl
      (sublist_from' b _ 0 (div0Value u c) p6 _ hc _ rfl)
    rw [wrapCall_ok, substr_zero_none] at B
    exact ⟨_, _, B, (Ext.refl u).alloc _, SameMods.refl u, Nat.le_refl _, cell_alloc_new _ _, fun e => rfl, rfl⟩
  · obtain ⟨mm, hm1, hm2⟩ := list_of_set b els _ (div0Value u c) p4 _ hc hsort
    have A := Ev.nat1 ld (k := 0) (p := p2) (pos := p4) hl1 (by rfl) (by decide) (by trivial)
      (Ev.ident ld (p := p3) (cu.var hi)) hm1 hm2
    rw [wrapCall_ok] at A
    have hc1 : (u.alloc (.list (en.map liftV))).1.cell u.heap.size = some (.list (en.map liftV)) := cell_alloc_new _ _
    have B := Ev.nat2 ld (k := 3) (p := p1) (pos := p6) hl2 (by rfl) (by decide) (by decide) (by trivial) (by trivial)
      A (Ev.litInt ld (p := p5) (n := 0)) rfl
      (sublist_from' u.heap.size _ 0 (div0Value (u.alloc (.list (en.map liftV))).1 c) p6 _ hc1 _ rfl)
    rw [wrapCall_ok, substr_zero_none] at B
    refine ⟨_, _, B, ((Ext.refl u).alloc _).alloc _, SameMods.refl u, ?_, cell_alloc_new _ _, fun e => rfl, rfl⟩
    rw [heap_size_alloc]; exact Nat.le_succ _

/-- the body of `append_all` on a set cell and a collection of scalars -/
theorem append_all_set_body {s s0 : State} {M nats srcs m} {a : Nat} {vb : RVal} {acc en : List Val}
    {p1 p2 p3 p4 p5 p6 q1 q2 q3 q4 p7 p8 bp : Pos} {what : String} {b0 : Bool}
    (h : LibEnv s M nats srcs) (hm : M m)
    (ctx : Ctx s0 M nats srcs s.frames.size m [("lst", .ref a), ("items", vb)]) (e0 : Ext s s0) (m0 : SameMods s s0)
    (hn : ∀ x ∈ appendSetNats, x ∈ nats) (hacc : ScalarL acc) (hca : s.cell a = some (.set (acc.map liftV)))
    (CB : Coll s vb en) :
    ∃ s', ExtBut a s s' ∧ Ev ld (en.length + 13) s.frames.size
      (.block [.for ["item"] (.call (.ident "sublist" p1) [none, none]
            [.call (.ident "list" p2) [none] [.ident "items" p3] p4, .lit (.int 0) p5] p6)
          (.call (.ident "append" q1) [none, none] [.ident "lst" q2, .ident "item" q3] q4) what p7,
        .ident "lst" p8] [] [] [] b0 bp) s0 (.ok (.ref a) s') ∧
      (SameMods s s' ∧ s'.cell a = some (.set ((Lib.appendAllSet acc en).map liftV))) := by
  generalize hK : en.length + 10 = K
  have ha : a < s.heap.size := cell_lt hca
  have hl : ∃ xs, s.cell a = some (.set xs) := ⟨_, hca⟩
  have hcge : s.frames.size ≤ s.frames.size := Nat.le_refl _
  have hsE : ScalarL en := CB.1
  have ctx0 : Ctx (ghostEnter s0 bp) M nats srcs s.frames.size m [("lst", .ref a), ("items", vb)] :=
    ctx.ext ((Ext.refl s0).ghostEnter _)
  have e0' : Ext s (ghostEnter s0 bp) := e0.ghostEnter _
  have hca0 : (ghostEnter s0 bp).cell a = some (.set (acc.map liftV)) := by rw [e0'.cell a ha]; exact hca
  obtain ⟨d, t1, SE, E1, M1, hdge, hcd, hfr1, hfs1⟩ := items_copy ld (p1 := p1) (p2 := p2) (p3 := p3) (p4 := p4) (p5 := p5)
    (p6 := p6) ctx0 hn (CB.ext e0') (by rfl) (by rfl) (by rfl)
  have hdge' : s.heap.size ≤ d := Nat.le_trans e0'.hsize hdge
  have hda : d ≠ a := by omega
  have hvars1 : (t1.frame s.frames.size).vars = [("lst", .ref a), ("items", vb)] := by rw [hfr1]; exact ctx0.fr.vars
  have inv0 : AppSetInv s s.frames.size m a vb d acc en 0 t1 := by
    refine ⟨ExtBut.ofExt (e0'.trans E1), m0.trans M1, ?_, hcd, ?_, ?_, Or.inl hvars1⟩
    · rw [E1.cell a (Nat.lt_of_lt_of_le ha e0'.hsize), hca0]; rfl
    · rw [hfr1]; exact ctx0.fr.parent
    · rw [hfs1]; exact ctx0.clt
  -- one iteration
  have hstep : ∀ i (r : RVal) st v, AppSetInv s s.frames.size m a vb d acc en i st → (en.map liftV)[i]? = some v →
      ∃ r' s', Ev ld 4 s.frames.size (.call (.ident "append" q1) [none, none]
          [.ident "lst" q2, .ident "item" q3] q4) (st.put s.frames.size "item" v) (.ok r' s') ∧
        isCtl r' = false ∧ AppSetInv s s.frames.size m a vb d acc en (i + 1) s' := by
    intro i r st v inv hv
    obtain ⟨x, hx, rfl⟩ : ∃ x, en[i]? = some x ∧ v = liftV x := by
      rw [List.getElem?_map] at hv
      cases hxi : en[i]? with
      | none => rw [hxi] at hv; cases hv
      | some x => rw [hxi] at hv; exact ⟨x, rfl, by cases hv; rfl⟩
    have hxs : ScalarV x := hsE x (List.mem_of_getElem? hx)
    have hvars : ((st.put s.frames.size "item" (liftV x)).frame s.frames.size).vars =
        [("lst", .ref a), ("items", vb), ("item", liftV x)] := by
      rw [vars_put_same _ _ _ inv.clt]
      rcases inv.vars with h | ⟨w, h⟩ <;> rw [h] <;> simp [dictPut]
    have hpar : ((st.put s.frames.size "item" (liftV x)).frame s.frames.size).parent = some m := by
      rw [parent_put]; exact inv.parent
    have eu : ExtBut a s (st.put s.frames.size "item" (liftV x)) := inv.ext.put hcge _ _
    have cu : Ctx (st.put s.frames.size "item" (liftV x)) M nats srcs s.frames.size m
        [("lst", .ref a), ("items", vb), ("item", liftV x)] :=
      Ctx.ofExtButSet h hm eu hl hvars hpar (by rw [frames_size_put]; exact inv.clt)
    obtain ⟨j, hlk⟩ := cu.nat (x := "append") (hn _ (by decide)) (by rfl)
    have hcu : (st.put s.frames.size "item" (liftV x)).cell a =
        some (.set ((Lib.appendAllSet acc (en.take i)).map liftV)) := by
      rw [cell_put]; exact inv.cella
    have hsacc : ScalarL (Lib.appendAllSet acc (en.take i)) :=
      scalarL_appendAllSet hacc (hsE.sub (fun v hv => List.mem_of_mem_take hv))
    obtain ⟨mm, hm1, hm2⟩ := append_set a _ (liftV x) (div0Value (st.put s.frames.size "item" (liftV x)) s.frames.size) q4 _ hcu
    have A := Ev.nat2 ld (k := 0) (p := q1) (pos := q4) hlk (by rfl) (by decide) (by decide) (by trivial) (by trivial)
      (Ev.ident ld (p := q2) (cu.var (x := "lst") (by rfl)))
      (Ev.ident ld (p := q3) (cu.var (x := "item") (by rfl))) hm1 hm2
    rw [wrapCall_ok, setAdd_liftV _ hxs hsacc] at A
    have halt : a < (st.put s.frames.size "item" (liftV x)).heap.size := cell_lt hcu
    refine ⟨_, _, A, rfl, ⟨eu.setCell_same _, inv.mods, ?_, ?_, ?_, ?_, Or.inr ⟨liftV x, ?_⟩⟩⟩
    · rw [cell_setCell_same _ _ halt, appendAllSet_take_succ acc en i x hx]
    · rw [cell_setCell_other _ _ (Ne.symm hda), cell_put]; exact inv.celld
    · rw [frame_setCell]; exact hpar
    · show _ < (st.put s.frames.size "item" (liftV x)).frames.size
      rw [frames_size_put]; exact inv.clt
    · rw [frame_setCell]; exact hvars
  -- statement 1: the loop
  obtain ⟨r, st, ⟨hctl, inv⟩, hloop⟩ := forListLive_inv ld (kb := 4) (env := s.frames.size) (x := "item") (a := d)
    (pos := p7) (en.map liftV) (fun i r st => isCtl r = false ∧ AppSetInv s s.frames.size m a vb d acc en i st)
    (fun i r st hI => hI.2.celld)
    (fun i r st v hI hv => by
      obtain ⟨r', s', h1, h2, h3⟩ := hstep i r st v hI.2 hv
      exact ⟨r', s', h1, h2, h2, h3⟩)
    (en.map liftV).length 0 (.bool true) t1 (by omega) ⟨rfl, inv0⟩
  have hF := Ev.forList ld (k := 7) (kl := 4 + (en.map liftV).length + 1) (what := what) (x := "item") (pos := p7)
    (by rw [ctx0.fr.vars]; rfl) SE inv0.celld hloop inv.celld
  rw [List.length_map] at hF inv
  have hcx : st.cell a = some (.set ((Lib.appendAllSet acc en).map liftV)) := by
    have := inv.cella; rwa [List.take_length] at this
  have hfin : ∃ t3, t3 = (if (en.map liftV).isEmpty then st else st.remove s.frames.size "item") ∧
      ExtBut a s t3 ∧ SameMods s t3 ∧ t3.cell a = some (.set ((Lib.appendAllSet acc en).map liftV)) ∧
      ∃ vars, CallFrame t3 s.frames.size m vars ∧ dictGet "lst" vars = some (.ref a) := by
    refine ⟨_, rfl, ?_⟩
    cases hys : (en.map liftV).isEmpty with
    | true =>
      simp only [if_true]
      refine ⟨inv.ext, inv.mods, hcx, (st.frame s.frames.size).vars, callFrame_self inv.parent (h.lt m hm), ?_⟩
      rcases inv.vars with h | ⟨w, h⟩ <;> rw [h] <;> rfl
    | false =>
      simp only [Bool.false_eq_true, if_false]
      refine ⟨inv.ext.remove hcge _, inv.mods, by rw [cell_remove]; exact hcx,
        ((st.remove s.frames.size "item").frame s.frames.size).vars,
        callFrame_self (by rw [frame_remove_same _ _ inv.clt]; exact inv.parent) (h.lt m hm), ?_⟩
      rw [frame_remove_same _ _ inv.clt]
      rcases inv.vars with h | ⟨w, h⟩ <;> rw [h] <;> rfl
  obtain ⟨t3, ht3, E3, M3, hcx3, vars3, hfr3, hres3⟩ := hfin
  rw [← ht3] at hF
  have S2 : Ev ld K s.frames.size (.ident "lst" p8) t3 (.ok (.ref a) t3) := Ev.ident ld (lookup_local hfr3 hres3)
  refine ⟨ghostFin t3 bp, E3.ghostFin _, ?_, M3, hcx3⟩
  exact Ev.mono ld (k := K + 2 + 1) (Ev.block ld (b := b0) (pos := bp)
    (EvBody.cons ld (Ev.mono ld hF (show max 7 (4 + en.length + 1) + 2 ≤ K + 1 by omega)) hctl
      (EvBody.cons ld S2 rfl (EvBody.nil ld)))) (by omega)

/-- **`append_all(lst = a SET cell, items = a list cell or a set cell)`**: the value is the first argument; its cell holds the
    set with the items added in enumeration order (`Lib.appendAllSet`); everything else that existed is unchanged -/
theorem append_all_calls_set {s : State} {M nats srcs fn m} (h : LibEnv s M nats srcs) (hn : ∀ x ∈ appendSetNats, x ∈ nats)
    (hm : M m) (hsrc : IsSrc s fn list_append_all m) (a : Nat) (vb : RVal) (acc en : List Val)
    (hacc : ScalarL acc) (hca : s.cell a = some (.set (acc.map liftV))) (CB : Coll s vb en) :
    ∃ s', ExtBut a s s' ∧ (SameMods s s' ∧ s'.cell a = some (.set ((Lib.appendAllSet acc en).map liftV))) ∧
      ∀ env pos, Calls ld (en.length + 14) fn [("lst", .ref a), ("items", vb)] env pos s (.ok (.ref a) s') :=
  calls_of_body2BM ld (src := list_append_all) (r := fun s' => .ok (.ref a) s') rfl rfl rfl
    (by omega) (by decide) h hm hsrc (.ref a) vb
    (fun _ ctx e0 m0 => append_all_set_body ld h hm ctx e0 m0 hn hacc hca CB)

/-! ### the hypothesis about the module `List` -/

/-- the name `x` is not bound on the chain from the module frame `m` (`m` itself, then the base frame 0, whose parent is none) -/
def Unres (s : State) (m : EnvId) (x : String) : Prop :=
  dictGet x (s.frame m).vars = none ∧
  ((s.frame m).parent = none ∨
   ((s.frame m).parent = some 0 ∧ dictGet x (s.frame 0).vars = none ∧ (s.frame 0).parent = none))

theorem Unres.ext {s s' m x} (h : Unres s m x) (hm : m < s.frames.size) (e : Ext s s') : Unres s' m x := by
  have h0 : 0 < s.frames.size := Nat.lt_of_le_of_lt (Nat.zero_le _) hm
  obtain ⟨h1, h2⟩ := h
  refine ⟨by rw [e.frame m hm]; exact h1, ?_⟩
  rw [e.frame m hm, e.frame 0 h0]; exact h2

theorem lookup_unres {s c m vars x} (h : CallFrame s c m vars) (hx : dictGet x vars = none) (hu : Unres s m x)
    (hc : c < s.frames.size) : s.lookup c x = none := by
  unfold State.lookup
  have hpos : 0 < s.frames.size := Nat.lt_of_le_of_lt (Nat.zero_le c) hc
  obtain ⟨n, hn⟩ : ∃ n, s.frames.size = n + 1 := ⟨s.frames.size - 1, by omega⟩
  rw [hn, State.lookupF]; simp only [h.vars, hx, h.parent]
  obtain ⟨h1, h2⟩ := hu
  rw [State.lookupF]; simp only [h1]
  rcases h2 with h2 | ⟨h2, h3, h4⟩
  · simp only [h2]
  · simp only [h2]
    cases n with
    | zero => rw [State.lookupF]
    | succ n => rw [State.lookupF]; simp only [h3, h4]

/-- **The hypothesis of `union` about the module `List`**: it is in the module cache (under the key the evaluator computes for the
    identifier `List`), it is not being loaded, its frame `ml` binds `append_all` to a function value made from the generated
    definition of list.ckl `append_all` (closed over a frame of `M`), and the identifier `List` itself is not bound on the chain
    from any frame of `M` (so `require List …` names the module, not a variable). -/
def ListMod (s : State) (M : EnvId → Prop) : Prop :=
  ∃ ml fnv mf, s.modules.lookup (modKey "List") = some ml ∧ s.modstack.contains (modKey "List") = false ∧
    dictGet "append_all" (s.frame ml).vars = some fnv ∧ IsSrc s fnv list_append_all mf ∧ M mf ∧
    ∀ m, M m → Unres s m "List"

theorem ListMod.ext {s s' M} (h : ListMod s M) (hlt : ∀ m, M m → m < s.frames.size) (e : Ext s s') (hm : SameMods s s') :
    ListMod s' M := by
  obtain ⟨ml, fnv, mf, h1, h2, h3, h4, h5, h6⟩ := h
  have hml : ml < s.frames.size := by
    refine Nat.lt_of_not_le (fun hc => ?_)
    rw [frame_of_ge s hc] at h3; cases h3
  exact ⟨ml, fnv, mf, by rw [hm.1]; exact h1, by rw [hm.2]; exact h2, by rw [e.frame ml hml]; exact h3, h4.ext e, h5,
    fun m hM => (h6 m hM).ext (hlt m hM) e⟩

/-! ### set.ckl `union` -/

theorem unionM_eq (a b : List Val) : Lib.appendAllSet (Lib.appendAllSet [] a) b = Lib.unionM a b := rfl

local notation "bp" => blockPos (lamBody set_union)

/-- the body of `union` on two collections of scalars -/
theorem union_body {s s0 : State} {M nats srcs m} {va vb : RVal} {enA enB : List Val}
    (h : LibEnv s M nats srcs) (hm : M m) (LM : ListMod s M)
    (ctx : Ctx s0 M nats srcs s.frames.size m [("seta", va), ("setb", vb)]) (e0 : Ext s s0) (m0 : SameMods s s0)
    (hn : ∀ x ∈ appendSetNats, x ∈ nats) (CA : Coll s va enA) (CB : Coll s vb enB) :
    ∃ r s', Ev ld (enA.length + enB.length + 24) s.frames.size (lamBody set_union) s0 (.ok (.ref r) s') ∧
      (Ext s s' ∧ SameMods s s' ∧ s.heap.size ≤ r ∧ s'.cell r = some (.set ((Lib.unionM enA enB).map liftV))) := by
  unfold lamBody set_union
  simp only []
  generalize hK : enA.length + enB.length + 18 = K
  have hcge : s.frames.size ≤ s.frames.size := Nat.le_refl _
  have ctx0 : Ctx (ghostEnter s0 bp) M nats srcs s.frames.size m [("seta", va), ("setb", vb)] :=
    ctx.ext ((Ext.refl s0).ghostEnter _)
  have e0' : Ext s (ghostEnter s0 bp) := e0.ghostEnter _
  have hclt0 : s.frames.size < (ghostEnter s0 bp).frames.size := ctx0.clt
  -- statement 0: `require List import [append_all]`
  obtain ⟨ml, fnv, mf, hcacheS, hstackS, hvalS, hsrcS, hmf, hunresS⟩ := LM
  have hml : ml < s.frames.size := by
    refine Nat.lt_of_not_le (fun hc => ?_)
    rw [frame_of_ge s hc] at hvalS; cases hvalS
  have hcache : (ghostEnter s0 bp).modules.lookup (modKey "List") = some ml := by
    show s0.modules.lookup _ = _; rw [m0.1]; exact hcacheS
  have hstack : (ghostEnter s0 bp).modstack.contains (modKey "List") = false := by
    show s0.modstack.contains _ = _; rw [m0.2]; exact hstackS
  have hval : dictGet "append_all" ((ghostEnter s0 bp).frame ml).vars = some fnv := by rw [e0'.frame ml hml]; exact hvalS
  have hunres : ∀ m, M m → Unres (ghostEnter s0 bp) m "List" := fun m hM => (hunresS m hM).ext (h.lt m hM) e0'
  let t0 := (ghostEnter s0 bp).put s.frames.size "append_all" fnv
  have S0 : ∀ pr1 pr2 name, Ev ld K s.frames.size
      (.require (.ident "List" pr1) name false (some [("append_all", "append_all")]) pr2) (ghostEnter s0 bp) (.ok .null t0) := by
    intro pr1 pr2 name
    exact Ev.mono ld (Ev.requireCached ld (k := 0)
      (lookup_unres ctx0.fr (by rfl) (hunres m hm) ctx0.clt) hstack hcache hval startsWith_underscore_append_all) (by omega)
  have E0 : Ext s t0 := e0'.put hcge _ _
  -- statement 1: `def result = <<>>`
  let b := t0.heap.size
  let t1 := (t0.alloc (.set [])).1.put s.frames.size "result" (.ref b)
  have S1 : ∀ p1 info p2, Ev ld K s.frames.size (.defn "result" (.set [] p1) info p2) t0 (.ok (.ref b) t1) := by
    intro p1 info p2
    exact Ev.mono ld (Ev.defn ld (k := 1) (by intro a h; cases h) (Ev.setNil ld (k := 0))) (by omega)
  have hclt0' : s.frames.size < t0.frames.size := by
    show _ < ((ghostEnter s0 bp).put _ _ _).frames.size
    rw [frames_size_put]; exact hclt0
  have E1 : Ext s t1 := (E0.alloc _).put hcge _ _
  have M1 : SameMods s t1 := m0
  have hbge : s.heap.size ≤ b := e0'.hsize
  have hvars1 : (t1.frame s.frames.size).vars =
      [("seta", va), ("setb", vb), ("append_all", fnv), ("result", .ref b)] := by
    show (((t0.alloc (.set [])).1.put _ _ _).frame _).vars = _
    rw [vars_put_same (t0.alloc (.set [])).1 "result" (.ref b) hclt0', frame_alloc]
    show dictPut _ _ ((((ghostEnter s0 bp).put _ _ _).frame _)).vars = _
    rw [vars_put_same _ _ _ hclt0, ctx0.fr.vars]; rfl
  have hpar1 : (t1.frame s.frames.size).parent = some m := by
    show (((t0.alloc (.set [])).1.put _ _ _).frame _).parent = _
    rw [parent_put, frame_alloc]
    show ((((ghostEnter s0 bp).put _ _ _).frame _)).parent = _
    rw [parent_put]; exact ctx0.fr.parent
  have hclt1 : s.frames.size < t1.frames.size := by
    show _ < ((t0.alloc (.set [])).1.put _ _ _).frames.size
    rw [frames_size_put]; exact hclt0'
  have fr1 : CallFrame t1 s.frames.size m [("seta", va), ("setb", vb), ("append_all", fnv), ("result", .ref b)] :=
    ⟨hvars1, hpar1, h.lt m hm⟩
  have hcb1 : t1.cell b = some (.set (([] : List Val).map liftV)) := by
    show ((t0.alloc (.set [])).1.put _ _ _).cell b = _
    rw [cell_put, cell_alloc_new]; rfl
  have hsrc1 : IsSrc t1 fnv list_append_all mf := hsrcS.ext E1
  -- statement 2: `result !> append_all(seta)`
  obtain ⟨t2, B2, ⟨M2, hcb2⟩, C2⟩ := append_all_calls_set ld (h.ext E1) hn hmf hsrc1 b va [] enA ScalarL.nil hcb1 (CA.ext E1)
  have S2 : ∀ q1 q2 q3 q4, Ev ld K s.frames.size
      (.call (.ident "append_all" q1) [none, none] [.ident "result" q2, .ident "seta" q3] q4) t1 (.ok (.ref b) t2) := by
    intro q1 q2 q3 q4
    have A := Ev.callSrc2 ld (k := enA.length + 12) (p := q1) (pos := q4) (lookup_local (x := "append_all") fr1 (by rfl)) hsrc1
      rfl (by decide) (by decide) (by decide) (by trivial) (by trivial)
      (Ev.ident ld (p := q2) (lookup_local (x := "result") fr1 (by rfl)))
      (Ev.ident ld (p := q3) (lookup_local (x := "seta") fr1 (by rfl))) (C2 s.frames.size q4)
    rw [wrapCall_ok] at A
    exact Ev.mono ld A (by omega)
  have E2 : Ext s t2 := Ext.ofExtBut_fresh E1 B2 hbge
  have fr2 : CallFrame t2 s.frames.size m [("seta", va), ("setb", vb), ("append_all", fnv), ("result", .ref b)] := by
    refine ⟨?_, ?_, h.lt m hm⟩
    · rw [B2.frame _ hclt1]; exact hvars1
    · rw [B2.frame _ hclt1]; exact hpar1
  have hsrc2 : IsSrc t2 fnv list_append_all mf := hsrc1.extButSet B2 ⟨_, hcb1⟩
  -- statement 3: `result !> append_all(setb)`
  obtain ⟨t3, B3, ⟨M3, hcb3⟩, C3⟩ := append_all_calls_set ld (h.ext E2) hn hmf hsrc2 b vb _ enB
    (scalarL_appendAllSet ScalarL.nil CA.1) hcb2 (CB.ext E2)
  have S3 : ∀ q1 q2 q3 q4, Ev ld K s.frames.size
      (.call (.ident "append_all" q1) [none, none] [.ident "result" q2, .ident "setb" q3] q4) t2 (.ok (.ref b) t3) := by
    intro q1 q2 q3 q4
    have A := Ev.callSrc2 ld (k := enB.length + 12) (p := q1) (pos := q4) (lookup_local (x := "append_all") fr2 (by rfl)) hsrc2
      rfl (by decide) (by decide) (by decide) (by trivial) (by trivial)
      (Ev.ident ld (p := q2) (lookup_local (x := "result") fr2 (by rfl)))
      (Ev.ident ld (p := q3) (lookup_local (x := "setb") fr2 (by rfl))) (C3 s.frames.size q4)
    rw [wrapCall_ok] at A
    exact Ev.mono ld A (by omega)
  have E3 : Ext s t3 := Ext.ofExtBut_fresh E2 B3 hbge
  have hclt2 : s.frames.size < t2.frames.size := Nat.lt_of_lt_of_le hclt1 B2.fsize
  have fr3 : CallFrame t3 s.frames.size m [("seta", va), ("setb", vb), ("append_all", fnv), ("result", .ref b)] := by
    refine ⟨?_, ?_, h.lt m hm⟩
    · rw [B3.frame _ hclt2]; exact fr2.vars
    · rw [B3.frame _ hclt2]; exact fr2.parent
  have S4 : ∀ p, Ev ld K s.frames.size (.ident "result" p) t3 (.ok (.ref b) t3) :=
    fun p => Ev.ident ld (lookup_local (x := "result") fr3 (by rfl))
  refine ⟨b, ghostFin t3 bp, ?_, E3.ghostFin _, (M1.trans M2).trans M3, hbge, ?_⟩
  · exact Ev.mono ld (k := K + 5 + 1) (Ev.block ld (b := false) (pos := bp)
      (EvBody.cons ld (Ev.mono ld (S0 _ _ _) (show K ≤ K + 4 by omega)) rfl
        (EvBody.cons ld (Ev.mono ld (S1 _ _ _) (show K ≤ K + 3 by omega)) rfl
          (EvBody.cons ld (Ev.mono ld (S2 _ _ _ _) (show K ≤ K + 2 by omega)) rfl
            (EvBody.cons ld (Ev.mono ld (S3 _ _ _ _) (show K ≤ K + 1 by omega)) rfl
              (EvBody.cons ld (S4 _) rfl (EvBody.nil ld))))))) (by omega)
  · show t3.cell b = _
    rw [hcb3]; rfl

def unionNats : List String := appendSetNats

theorem union_calls {s : State} {M nats srcs fn m} (h : LibEnv s M nats srcs) (hn : ∀ x ∈ unionNats, x ∈ nats)
    (LM : ListMod s M) (hm : M m) (hsrc : IsSrc s fn set_union m) (va vb : RVal) (enA enB : List Val)
    (CA : Coll s va enA) (CB : Coll s vb enB) :
    ∃ r s', (Ext s s' ∧ SameMods s s' ∧ s.heap.size ≤ r ∧
        s'.cell r = some (.set ((Lib.unionM enA enB).map liftV))) ∧
      ∀ env pos, Calls ld (enA.length + enB.length + 25) fn [("seta", va), ("setb", vb)] env pos s (.ok (.ref r) s') :=
  calls_of_body2E ld (src := set_union) rfl rfl rfl (by omega) (by decide) h hm hsrc va vb
    (fun s0 ctx e0 m0 => union_body ld h hm LM ctx e0 m0 hn CA CB)

end Ckl.C19Src
