import CklVerif.Proofs.C04ComprFor

/-!
  C04Compr — non-vacuity.
  1. programs through `parseScript` + `interpretProg` (`#guard`: executed, tests of instances — not theorems);
  2. the shape of the loop AST: `parseScript` of the loop text IS a `forAppend` node;
  3. a concrete instance of the hypotheses of `compr_equals_loop_list` (a theorem about one concrete state).
-/
namespace Ckl.C04Compr
open Ckl Ckl.C03 Ckl.C19Src Ckl.C17Eval

/-- rendered value of a run in the session frame of an interpreter with the modelled built-ins -/
def render (src : String) : Option String :=
  match runSrc src with
  | .ok v s => (rrender s v).map String.ofList
  | _ => none

/-- text written to stdout by a run -/
def printed (src : String) : Option String :=
  match runSrc src with
  | .ok _ s => some (String.ofList s.out)
  | _ => none

-- the repaired order: the element expression is NOT evaluated for items that fail the filter (no division by zero)
#guard render "[10 / x for x in [0, 1, 2] if x != 0]" == some "[10, 5]"
-- the equivalent explicit loop
#guard render "def r = []; for x in [0, 1, 2] do if x != 0 then append(r, 10 / x) end; r" == some "[10, 5]"
-- both in one run: `equals` TRUE
#guard render "def l = [0, 1, 2]; def r = []; for x in l do if x != 0 then append(r, 10 / x) end; r == [10 / x for x in l if x != 0]"
  == some "TRUE"
-- without the filter the element expression fails on the first item
#guard (match runSrc "[10 / x for x in [0, 1, 2]]" with | .err _ _ _ _ _ => true | _ => false)
-- a logging element expression: evaluated for the passing items only, in order
#guard render "[println(x) for x in [0, 1, 2] if x != 0]" == some "[NULL, NULL]"
#guard printed "[println(x) for x in [0, 1, 2] if x != 0]" == some "1\n2\n"
-- a logging filter: evaluated once per item, before the element of that item
#guard printed "[println('e' + x) for x in [0, 1, 2] if println('c' + x) == NULL and x != 0]" == some "c0\nc1\ne1\nc2\ne2\n"
-- set and map forms; for maps the key before the value
#guard render "<<x % 2 for x in [0, 1, 2, 3] if x != 0>>" == some "<<0, 1>>"
#guard render "<<<x => 10 / x for x in [0, 1, 2] if x != 0>>>" == some "<<<1 => 10, 2 => 5>>>"
#guard printed "<<<println('k' + x) => println('v' + x) for x in [1, 2]>>>" == some "k1\nv1\nk2\nv2\n"
-- sources that are a set (sorted enumeration) and a string
#guard render "[x * 2 for x in <<3, 1, 2>> if x != 2]" == some "[2, 6]"
#guard render "[c for c in 'abc' if c != 'b']" == some "['a', 'c']"

/-- the parser makes exactly a `forAppend` node of the loop text -/
def isForAppend : Node → Bool
  | .block [.defn r (.list [] _) _ _,
            .for [_] _ (.ite [_] [.call (.ident "append" _) [none, none] [.ident r' _, _] _] (.lit (.bool true) _) _) _ _,
            .ident r'' _] [] [] [] _ _ => r == r' && r == r''
  | _ => false

#guard (match parseScript "def r = []; for x in e do if c(x) then append(r, f(x)) end; r".toList "f" with
  | .ok n => isForAppend n | _ => false)

example (r x e cond ve info what b p0 p1 p2 p3 p4 p5 p6 p7 p8 p9) :
    isForAppend (forAppend r x e cond ve info what b p0 p1 p2 p3 p4 p5 p6 p7 p8 p9) = true := by
  simp [isForAppend, forAppend]

/-! ### a concrete instance of `compr_equals_loop_list`: `[x for x in lst if not x]` and its loop on `lst = [TRUE, FALSE, FALSE]` -/

def exS : State :=
  { frames := #[{ vars := [("append", .native "append" 0), ("lst", .ref 0)], parent := none }],
    heap := #[.list [.bool true, .bool false, .bool false]] }

def exXs : List RVal := [.bool true, .bool false, .bool false]

def exC : RVal → Bool
  | .bool b => !b
  | _ => false

theorem lookup_put_same' (s : State) {e : Nat} (x : String) (v : RVal) (h : e < s.frames.size) :
    (s.put e x v).lookup e x = some v := by
  unfold State.lookup; exact lookupF_put_same s x v h _

theorem exXs_bool {v : RVal} (hv : v ∈ exXs) : ∃ b, v = .bool b := by
  simp [exXs] at hv
  rcases hv with rfl | rfl <;> exact ⟨_, rfl⟩

/-- the hypotheses of `compr_equals_loop_list` hold on a concrete state, and its conclusion there: both programs yield a cell
    holding `[FALSE, FALSE]` -/
theorem compr_equals_loop_instance (ld : Loader) (p0 : Pos) :
    ∃ ra sa rb sb,
      Ev ld (max 0 (max 1 0 + exXs.length + 3) + 1) 0
        (.compr .list .single (.ident "x" {}) .absent "x" (.ident "lst" {}) none "" .absent none (.not (.ident "x" {}) {}) {}) exS
        (.ok (.ref ra) sa) ∧
      Ev ld (max 0 (max 1 0) + exXs.length + 16) 0
        (forAppend "r" "x" (.ident "lst" {}) (.not (.ident "x" {}) {}) (.ident "x" {}) "" "values" true p0 {} {} {} {} {} {} {} {} {})
        exS (.ok (.ref rb) sb) ∧
      sa.cell ra = some (.list [.bool false, .bool false]) ∧ sb.cell rb = some (.list [.bool false, .bool false]) := by
  have h1 : (1 : Nat) < ((exS.newEnv 0).1).frames.size := by decide
  obtain ⟨ra, sa, rb, sb, L, ha, hb, hca, hcb, hL, _, _⟩ := compr_equals_loop_list ld (env := 0) (r := "r") (x := "x")
    (e := .ident "lst" {}) (cond := .not (.ident "x" {}) {}) (ve := .ident "x" {}) (ke := .absent) (l2 := .absent)
    (w1 := none) (w2 := none) (id2 := "") (info := "") (what := "values") (b := true) (pos := {}) (p0 := p0)
    (p1 := {}) (p2 := {}) (p3 := {}) (p4 := {}) (p5 := {}) (p6 := {}) (p7 := {}) (p8 := {}) (p9 := {})
    (s := exS) (s1 := (exS.newEnv 0).1) (a := 0) (a' := 0) (i0 := 0) (xs := exXs) (k := 0) (k' := 0) (kc := 1) (kv := 0)
    (kc' := 1) (kv' := 0) exC id
    (Ev.ident ld (by rfl)) (by rfl)
    (by
      intro v hv
      obtain ⟨b, rfl⟩ := exXs_bool hv
      exact Ev.not ld (Ev.ident ld (lookup_put_same' _ _ _ h1)))
    (by
      intro v hv _
      exact Ev.ident ld (lookup_put_same' _ _ _ h1))
    (by decide) (by decide) (by decide) (by decide) (by rfl) (by rfl) (by trivial)
    (Ev.ident ld (by rw [loopSt_lookup_other _ _ _ _ _ (by decide)]; rfl)) (by rfl)
    (by
      intro i v hv
      obtain ⟨b, rfl⟩ := exXs_bool (List.mem_of_getElem? hv)
      exact Ev.not ld (Ev.ident ld (lookup_put_same' _ _ _ (by rw [loopSt_frames_size]; decide))))
    (by
      intro i v hv _
      exact Ev.ident ld (lookup_put_same' _ _ _ (by rw [loopSt_frames_size]; decide)))
  have hL' : L = [.bool false, .bool false] := by subst hL; rfl
  subst hL'
  exact ⟨ra, sa, rb, sb, ha, hb, hca, hcb⟩

/-- the hypotheses of `set_compr_filter_map` / `map_compr_filter_map` on the same state: `<<x for x in lst if not x>>`,
    `<<<x => x for x in lst if not x>>>` -/
example (ld : Loader) : ∃ r,
    Ev ld (max 0 (max 1 0 + exXs.length + 3) + 1) 0
      (.compr .set .single (.ident "x" {}) .absent "x" (.ident "lst" {}) none "" .absent none (.not (.ident "x" {}) {}) {}) exS r := by
  have h1 : (1 : Nat) < ((exS.newEnv 0).1).frames.size := by decide
  exact ⟨_, set_compr_filter_map ld (s := exS) (s1 := (exS.newEnv 0).1) (c1 := .ref 0) (xs := exXs) exC id
    (Ev.ident ld (by rfl)) (collectionValues_list none {} (by rfl))
    (by
      intro v hv
      obtain ⟨b, rfl⟩ := exXs_bool hv
      exact Ev.not ld (Ev.ident ld (lookup_put_same' _ _ _ h1)))
    (by
      intro v hv _
      exact Ev.ident ld (lookup_put_same' _ _ _ h1))⟩

example (ld : Loader) : ∃ r,
    Ev ld (max 0 (max 1 (max 0 0) + exXs.length + 3) + 1) 0
      (.compr .map .single (.ident "x" {}) (.ident "x" {}) "x" (.ident "lst" {}) none "" .absent none (.not (.ident "x" {}) {}) {})
      exS r := by
  have h1 : (1 : Nat) < ((exS.newEnv 0).1).frames.size := by decide
  exact ⟨_, map_compr_filter_map ld (s := exS) (s1 := (exS.newEnv 0).1) (c1 := .ref 0) (xs := exXs) exC id id
    (Ev.ident ld (by rfl)) (collectionValues_list none {} (by rfl))
    (by
      intro v hv
      obtain ⟨b, rfl⟩ := exXs_bool hv
      exact Ev.not ld (Ev.ident ld (lookup_put_same' _ _ _ h1)))
    (by
      intro v hv _
      exact Ev.ident ld (lookup_put_same' _ _ _ h1))
    (by
      intro v hv _
      exact Ev.ident ld (lookup_put_same' _ _ _ h1))⟩

/-- `comprStep_order` on a concrete step: a filter that fails aborts the step with the filter's error, whatever `ve` is -/
example (ld : Loader) (ve : Node) (s : State) (f : Nat) :
    comprStep ld (f + 2 + 1) 0 .list ve .absent (.error (.lit (.int 1) {}) {}) {} s = .err (.int 1) "" {} [] s := by
  rw [comprStep_order]
  have : eval ld (f + 2) 0 (.error (.lit (.int 1) {}) {}) s = .err (.int 1) "" {} [] s :=
    Ev.error ld (k := 0) (Ev.litInt ld (k := 0)) (f + 2) (by omega)
  simp [stepOut, this]

end Ckl.C04Compr
