/-
  C19Src — theorems about the SOURCE of the bundled library (src/ckl/modules/*.ckl).

  `Gen/LibSrc.lean` is regenerated on every run by `harness/extract/libsrc.py`: it contains, for chosen library functions,
  the AST the real parser builds for the current text of the module, as a term of the model's `Node` type
  (`Ckl.Gen.LibSrc.math_abs`, …).  The theorems below are about THOSE terms, evaluated by the model evaluator `eval` /
  `callFn` (`Model/Eval.lean`): no hand-written mirror of the function is involved.  If the source of a function changes so
  that the statement becomes false (e.g. `n < 0` to `n <= 0` in `abs`), this file stops building.

  Reading guide.
  * `IsSrc s fn src m`: `fn` is a function value whose parameter list, defaults and body are those of the generated definition
    `src`, closed over frame `m` — what evaluating the node `src` in frame `m` creates (`def_creates_isSrc`).
  * `LibEnv s M nats srcs` (the hypothesis on the state): from every module frame in `M`, `NULL` is NULL, each name in `nats`
    resolves to the built-in of that name and each `(name, src)` in `srcs` to a function made from `src`, closed over a frame of `M`.
    `mathNats`/`mathSrcs` are the lists `abs` and `sign` need.  `exState_libEnv` exhibits a state satisfying it.
  * `Ext s s'`: every frame, heap cell and the output of `s` are unchanged in `s'` (the call only adds frames / cells).
  * The fuel bound is explicit: the statements hold for every fuel above the given constant.
-/
import CklVerif.Lemmas.C19SrcSetup
import CklVerif.Lemmas.C19Int
import CklVerif.Lemmas.C19SrcList
import CklVerif.Lemmas.C19List
import CklVerif.Lemmas.C19SrcMisc
import CklVerif.Lemmas.C19SrcLoad
import CklVerif.Lemmas.C19SrcAppend
import CklVerif.Lemmas.C19SrcReduce
namespace Ckl.C19Src
open Ckl Ckl.Lib Ckl.Gen.LibSrc
variable (ld : Loader)

/-! ## 0  the hypothesis is about the right objects and is satisfiable -/

/-- Evaluating a generated definition in a module frame creates a function value that satisfies `IsSrc`, bound to its name. -/
theorem def_creates_isSrc {name : String} {ps : List String} {ds : List Node} {body : Node} {lp dp : Pos} {info : String}
    (s : State) (m : EnvId) (hm : m < s.frames.size) :
    ∃ s', (∀ fuel, 1 < fuel → eval ld fuel m (.defn name (.lambda ps ds body lp) info dp) s = .ok (.closure s.heap.size) s') ∧
      IsSrc s' (.closure s.heap.size) (.defn name (.lambda ps ds body lp) info dp) m ∧
      dictGet name (s'.frame m).vars = some (.closure s.heap.size) := eval_def_isSrc ld s m hm

/-- a concrete state (base frame with NULL and seven built-ins, one module frame with five library functions) satisfies the
    environment hypothesis of the `abs` / `sign` theorems -/
theorem libEnv_satisfiable : LibEnv exState (· = 1) mathNats mathSrcs ∧ IsSrc exState (.closure 3) math_abs 1 ∧
    IsSrc exState (.closure 4) math_sign 1 := ⟨exState_libEnv, exState_abs, exState_sign⟩

/-! ## 1  type.ckl -/

/-- `is_int(v)`: TRUE exactly for ints — for every value `v` -/
theorem is_int_src {s : State} {M nats srcs fn m} (h : LibEnv s M nats srcs) (hn : ∀ x ∈ typeNats, x ∈ nats) (hm : M m)
    (hsrc : IsSrc s fn type_is_int m) (v : RVal) :
    ∃ s', Ext s s' ∧ ∀ fuel env pos, 7 < fuel → callFn ld fuel fn [("obj", v)] env pos s = .ok (.bool v.isInt) s' :=
  let ⟨s', e, c⟩ := is_int_calls ld h hn hm hsrc v; ⟨s', e, fun fuel env pos hf => c env pos fuel hf⟩

/-- `is_decimal(v)` -/
theorem is_decimal_src {s : State} {M nats srcs fn m} (h : LibEnv s M nats srcs) (hn : ∀ x ∈ typeNats, x ∈ nats) (hm : M m)
    (hsrc : IsSrc s fn type_is_decimal m) (v : RVal) :
    ∃ s', Ext s s' ∧ ∀ fuel env pos, 7 < fuel → callFn ld fuel fn [("obj", v)] env pos s = .ok (.bool v.isDecimal) s' :=
  let ⟨s', e, c⟩ := is_decimal_calls ld h hn hm hsrc v; ⟨s', e, fun fuel env pos hf => c env pos fuel hf⟩

/-- `is_list(v)`: TRUE exactly for references to list cells -/
theorem is_list_src {s : State} {M nats srcs fn m} (h : LibEnv s M nats srcs) (hn : ∀ x ∈ typeNats, x ∈ nats) (hm : M m)
    (hsrc : IsSrc s fn type_is_list m) (v : RVal) :
    ∃ s', Ext s s' ∧ ∀ fuel env pos, 7 < fuel → callFn ld fuel fn [("obj", v)] env pos s = .ok (.bool (isListR s v)) s' :=
  let ⟨s', e, c⟩ := is_list_calls ld h hn hm hsrc v; ⟨s', e, fun fuel env pos hf => c env pos fuel hf⟩

/-- `is_numeric(v) = is_int(v) or is_decimal(v)`: calls the two library functions above through the environment -/
theorem is_numeric_src {s : State} {M nats srcs fn m} (h : LibEnv s M nats srcs) (hn : ∀ x ∈ typeNats, x ∈ nats)
    (hs : ∀ p ∈ numericSrcs, p ∈ srcs) (hm : M m) (hsrc : IsSrc s fn type_is_numeric m) (v : RVal) :
    ∃ s', Ext s s' ∧ ∀ fuel env pos, 13 < fuel → callFn ld fuel fn [("obj", v)] env pos s = .ok (.bool v.isNumerical) s' :=
  let ⟨s', e, c⟩ := is_numeric_calls ld h hn hs hm hsrc v; ⟨s', e, fun fuel env pos hf => c env pos fuel hf⟩

/-! ## 2  math.ckl: `abs`, `sign` -/

/-- **The source of `abs` computes |n|** on every int `n`, for every fuel above 21, in every state satisfying the environment
    hypothesis; nothing that existed before the call is changed. -/
theorem abs_src_int {s : State} {M nats srcs fn m} (h : LibEnv s M nats srcs) (hn : ∀ x ∈ mathNats, x ∈ nats)
    (hs : ∀ p ∈ mathSrcs, p ∈ srcs) (hm : M m) (hsrc : IsSrc s fn math_abs m) (n : Int) :
    ∃ s', Ext s s' ∧ ∀ fuel env pos, 21 < fuel →
      callFn ld fuel fn [("n", .int n)] env pos s = .ok (.int (n.natAbs : Int)) s' :=
  let ⟨s', e, c⟩ := abs_calls_int ld h hn hs hm hsrc n; ⟨s', e, fun fuel env pos hf => c env pos fuel hf⟩

/-- … which is the hand-written mirror `Lib.absM` of C19 (`C19.absM_spec`) -/
theorem abs_src_eq_mirror {s : State} {M nats srcs fn m} (h : LibEnv s M nats srcs) (hn : ∀ x ∈ mathNats, x ∈ nats)
    (hs : ∀ p ∈ mathSrcs, p ∈ srcs) (hm : M m) (hsrc : IsSrc s fn math_abs m) (n : Int) :
    ∃ s', Ext s s' ∧ ∀ fuel env pos, 21 < fuel →
      callFn ld fuel fn [("n", .int n)] env pos s = .ok (.int (absM n)) s' := by
  rw [C19.absM_eq_natAbs]; exact abs_src_int ld h hn hs hm hsrc n

/-- `abs(NULL) = NULL` -/
theorem abs_src_null {s : State} {M nats srcs fn m} (h : LibEnv s M nats srcs) (hn : ∀ x ∈ mathNats, x ∈ nats)
    (hm : M m) (hsrc : IsSrc s fn math_abs m) :
    ∃ s', Ext s s' ∧ ∀ fuel env pos, 21 < fuel → callFn ld fuel fn [("n", .null)] env pos s = .ok .null s' :=
  let ⟨s', e, c⟩ := abs_calls_null ld h hn hm hsrc; ⟨s', e, fun fuel env pos hf => c env pos fuel hf⟩

/-- **The source of `sign` computes sgn n** on every int -/
theorem sign_src_int {s : State} {M nats srcs fn m} (h : LibEnv s M nats srcs) (hn : ∀ x ∈ mathNats, x ∈ nats)
    (hs : ∀ p ∈ mathSrcs, p ∈ srcs) (hm : M m) (hsrc : IsSrc s fn math_sign m) (n : Int) :
    ∃ s', Ext s s' ∧ ∀ fuel env pos, 21 < fuel →
      callFn ld fuel fn [("n", .int n)] env pos s = .ok (.int n.sign) s' :=
  let ⟨s', e, c⟩ := sign_calls_int ld h hn hs hm hsrc n; ⟨s', e, fun fuel env pos hf => c env pos fuel hf⟩

theorem sign_src_eq_mirror {s : State} {M nats srcs fn m} (h : LibEnv s M nats srcs) (hn : ∀ x ∈ mathNats, x ∈ nats)
    (hs : ∀ p ∈ mathSrcs, p ∈ srcs) (hm : M m) (hsrc : IsSrc s fn math_sign m) (n : Int) :
    ∃ s', Ext s s' ∧ ∀ fuel env pos, 21 < fuel →
      callFn ld fuel fn [("n", .int n)] env pos s = .ok (.int (signM n)) s' := by
  rw [C19.signM_eq_sign]; exact sign_src_int ld h hn hs hm hsrc n

/-- `sign(NULL) = NULL` -/
theorem sign_src_null {s : State} {M nats srcs fn m} (h : LibEnv s M nats srcs) (hn : ∀ x ∈ mathNats, x ∈ nats)
    (hm : M m) (hsrc : IsSrc s fn math_sign m) :
    ∃ s', Ext s s' ∧ ∀ fuel env pos, 21 < fuel → callFn ld fuel fn [("n", .null)] env pos s = .ok .null s' :=
  let ⟨s', e, c⟩ := sign_calls_null ld h hn hm hsrc; ⟨s', e, fun fuel env pos hf => c env pos fuel hf⟩

/-- **`abs` of a value that is neither NULL nor a number** (a string, a boolean, a list, a function, …): the runtime error
    raised by `error(...)`, whose VALUE is the text `argument is not numerical (<type>)` and whose position is that of the
    `error` node in the source; no `ok` outcome, no out-of-fuel, no `unsupported`. -/
theorem abs_src_not_numeric {s : State} {M nats srcs fn m} (h : LibEnv s M nats srcs) (hn : ∀ x ∈ mathNats, x ∈ nats)
    (hs : ∀ p ∈ mathSrcs, p ∈ srcs) (hm : M m) (hsrc : IsSrc s fn math_abs m)
    (v : RVal) (h0 : v.isNull = false) (h1 : v.isNumerical = false) :
    ∃ s', Ext s s' ∧ ∀ fuel env pos, 21 < fuel → callFn ld fuel fn [("n", v)] env pos s =
      .err (.str (notNumericalMsg (typeName s' v))) "" (errPos (lamBody math_abs)) [] s' :=
  let ⟨s', e, c⟩ := abs_calls_err ld h hn hs hm hsrc v h0 h1; ⟨s', e, fun fuel env pos hf => c env pos fuel hf⟩

theorem sign_src_not_numeric {s : State} {M nats srcs fn m} (h : LibEnv s M nats srcs) (hn : ∀ x ∈ mathNats, x ∈ nats)
    (hs : ∀ p ∈ mathSrcs, p ∈ srcs) (hm : M m) (hsrc : IsSrc s fn math_sign m)
    (v : RVal) (h0 : v.isNull = false) (h1 : v.isNumerical = false) :
    ∃ s', Ext s s' ∧ ∀ fuel env pos, 21 < fuel → callFn ld fuel fn [("n", v)] env pos s =
      .err (.str (notNumericalMsg (typeName s' v))) "" (errPos (lamBody math_sign)) [] s' :=
  let ⟨s', e, c⟩ := sign_calls_err ld h hn hs hm hsrc v h0 h1; ⟨s', e, fun fuel env pos hf => c env pos fuel hf⟩

/-- non-vacuity of the error case: a string argument; the message text for it -/
example : (RVal.str ['x']).isNull = false ∧ (RVal.str ['x']).isNumerical = false := ⟨rfl, rfl⟩
example (s : State) : notNumericalMsg (typeName s (.str ['x'])) = "argument is not numerical (string)".toList := by
  show notNumericalMsg "string" = _; decide

/-! ## 2b  list.ckl: `rest` -/

/-- **The source of `rest` returns the tail**: called on (a reference to) a list cell holding `xs`, it returns a reference to a
    FRESH cell (address = old heap size) that holds `xs.tail`; the argument cell and everything else is unchanged (`Ext`). -/
theorem rest_src {s : State} {M nats srcs fn m} (h : LibEnv s M nats srcs) (hn : ∀ x ∈ listNats, x ∈ nats)
    (hm : M m) (hsrc : IsSrc s fn list_rest m) (a : Nat) (xs : List RVal) (hc : s.cell a = some (.list xs)) :
    ∃ s', Ext s s' ∧ s'.cell s.heap.size = some (.list xs.tail) ∧
      ∀ fuel env pos, 6 < fuel → callFn ld fuel fn [("lst", .ref a)] env pos s = .ok (.ref s.heap.size) s' := by
  obtain ⟨s', e, hcell, c⟩ := rest_calls ld h hn hm hsrc a xs hc
  rw [C19.restM_eq] at hcell
  exact ⟨s', e, hcell, fun fuel env pos hf => c env pos fuel hf⟩

/-- a concrete state for `rest_src`: `sublist` in the base frame, `rest` (cell 0) in the module frame, a list cell (1) -/
def exState2 : State where
  frames := #[{ vars := [("NULL", .null), ("sublist", .native "sublist" 0)], parent := none },
              { vars := [("rest", .closure 0)], parent := some 0 }]
  heap := #[.closure 1 (lamParams list_rest) (lamDefaults list_rest) (lamBody list_rest) "rest",
            .list [.int 1, .int 2, .int 3]]

example : LibEnv exState2 (· = 1) listNats [] ∧ IsSrc exState2 (.closure 0) list_rest 1 ∧
    exState2.cell 1 = some (.list [.int 1, .int 2, .int 3]) := by
  refine ⟨⟨?_, ?_, ?_, ?_⟩, ⟨0, _, rfl, rfl⟩, rfl⟩
  · intro m hm; subst hm; decide
  · intro m hm; subst hm; exact Or.inr ⟨rfl, rfl, rfl⟩
  · intro m hm x hx; subst hm
    simp [listNats] at hx; subst hx; exact ⟨_, Or.inr ⟨rfl, rfl, rfl⟩⟩
  · intro m hm p hp; cases hp

/-! ## 3  the same as CALL NODES -/

/-- `abs(a)` as a node, evaluated in any frame `env` in which the identifier `abs` resolves to the function made from the
    generated source: if the argument node `a` evaluates to the int `n` (without changing the state: an identifier, a literal),
    the call evaluates to |n| for every fuel above `k + 23` (`k` = fuel bound of the argument). -/
theorem abs_call_node {s : State} {M nats srcs fn m} (h : LibEnv s M nats srcs) (hn : ∀ x ∈ mathNats, x ∈ nats)
    (hs : ∀ p ∈ mathSrcs, p ∈ srcs) (hm : M m) (hsrc : IsSrc s fn math_abs m)
    {env : EnvId} {fname : String} (hfn : s.lookup env fname = some fn)
    {a : Node} (hns : NotSpread a) {k : Nat} {n : Int} (ha : ∀ f, k < f → eval ld f env a s = .ok (.int n) s) (p pos : Pos) :
    ∃ s', Ext s s' ∧ ∀ fuel, k + 23 < fuel →
      eval ld fuel env (.call (.ident fname p) [none] [a] pos) s = .ok (.int (n.natAbs : Int)) s' := by
  obtain ⟨s', e, c⟩ := abs_calls_int ld h hn hs hm hsrc n
  refine ⟨s', e, ?_⟩
  exact eval_call1 ld (k := k + 20) hfn hsrc rfl (by decide) hns (fun f hf => ha f (by omega))
    (fun env pos => Calls.mono ld (c env pos) (by omega))

theorem sign_call_node {s : State} {M nats srcs fn m} (h : LibEnv s M nats srcs) (hn : ∀ x ∈ mathNats, x ∈ nats)
    (hs : ∀ p ∈ mathSrcs, p ∈ srcs) (hm : M m) (hsrc : IsSrc s fn math_sign m)
    {env : EnvId} {fname : String} (hfn : s.lookup env fname = some fn)
    {a : Node} (hns : NotSpread a) {k : Nat} {n : Int} (ha : ∀ f, k < f → eval ld f env a s = .ok (.int n) s) (p pos : Pos) :
    ∃ s', Ext s s' ∧ ∀ fuel, k + 23 < fuel →
      eval ld fuel env (.call (.ident fname p) [none] [a] pos) s = .ok (.int n.sign) s' := by
  obtain ⟨s', e, c⟩ := sign_calls_int ld h hn hs hm hsrc n
  refine ⟨s', e, ?_⟩
  exact eval_call1 ld (k := k + 20) hfn hsrc rfl (by decide) hns (fun f hf => ha f (by omega))
    (fun env pos => Calls.mono ld (c env pos) (by omega))

/-- non-vacuity: in the concrete state `exState` (where `x` is −5 in the module frame) the program `abs(x)` evaluates to 5 and
    `sign(x)` to −1, for every fuel above 23 -/
example : ∃ s', Ext exState s' ∧ ∀ fuel, 23 < fuel →
    eval ld fuel 1 (.call (.ident "abs" {}) [none] [.ident "x" {}] {}) exState = .ok (.int 5) s' :=
  abs_call_node ld (n := -5) exState_libEnv (fun _ h => h) (fun _ h => h) rfl exState_abs (env := 1) (fname := "abs") rfl
    (a := .ident "x" {}) trivial (k := 0) (Ev.ident ld (v := .int (-5)) rfl) {} {}

example : ∃ s', Ext exState s' ∧ ∀ fuel, 23 < fuel →
    eval ld fuel 1 (.call (.ident "sign" {}) [none] [.ident "x" {}] {}) exState = .ok (.int (-1)) s' :=
  sign_call_node ld (n := -5) exState_libEnv (fun _ h => h) (fun _ h => h) rfl exState_sign (env := 1) (fname := "sign") rfl
    (a := .ident "x" {}) trivial (k := 0) (Ev.ident ld (v := .int (-5)) rfl) {} {}

/-! ## 4  list.ckl: `first`, `last` (indexing) -/

/-- **The source of `first` returns the head**: on a list cell holding `xs` with `xs.head? = some x` it returns `x`; nothing that
    existed is changed (`Ext`, so in particular the argument cell).  (`x` must not be one of the control signals `return`/`break`/
    `continue`, which are values of the model but never elements of a list the interpreter builds: `fn.execute` would unwrap them.) -/
theorem first_src {s : State} {M nats srcs fn m} (h : LibEnv s M nats srcs) (hn : ∀ x ∈ firstNats, x ∈ nats)
    (hs : ∀ p ∈ firstSrcs, p ∈ srcs) (hm : M m) (hsrc : IsSrc s fn list_first m) (a : Nat) (xs : List RVal)
    (hc : s.cell a = some (.list xs)) (x : RVal) (hx : xs.head? = some x) (hctl : isCtl x = false) :
    ∃ s', Ext s s' ∧ ∀ fuel env pos, 14 < fuel → callFn ld fuel fn [("lst", .ref a)] env pos s = .ok x s' := by
  obtain ⟨s', e, c⟩ := first_calls_list ld h hn hs hm hsrc a xs hc
  have hd : Seq.deref xs 0 = some x := by rw [← hx, ← C19.firstM_eq]; rfl
  refine ⟨s', e, fun fuel env pos hf => ?_⟩
  have := c env pos fuel hf
  simpa only [derefOut, hd, postCall_ok_of_not_ctl hctl] using this

/-- `first([])`: the runtime error `Index out of bounds`, raised at the indexing node of the source -/
theorem first_src_empty {s : State} {M nats srcs fn m} (h : LibEnv s M nats srcs) (hn : ∀ x ∈ firstNats, x ∈ nats)
    (hs : ∀ p ∈ firstSrcs, p ∈ srcs) (hm : M m) (hsrc : IsSrc s fn list_first m) (a : Nat)
    (hc : s.cell a = some (.list [])) :
    ∃ s', Ext s s' ∧ ∀ fuel env pos, 14 < fuel → callFn ld fuel fn [("lst", .ref a)] env pos s =
      .err (.str ['E', 'R', 'R', 'O', 'R']) "Index out of bounds" (elsePos (lamBody list_first)) [] s' :=
  let ⟨s', e, c⟩ := first_calls_list ld h hn hs hm hsrc a [] hc; ⟨s', e, fun fuel env pos hf => c env pos fuel hf⟩

theorem first_src_null {s : State} {M nats srcs fn m} (h : LibEnv s M nats srcs) (hn : ∀ x ∈ firstNats, x ∈ nats)
    (hm : M m) (hsrc : IsSrc s fn list_first m) :
    ∃ s', Ext s s' ∧ ∀ fuel env pos, 14 < fuel → callFn ld fuel fn [("lst", .null)] env pos s = .ok .null s' :=
  let ⟨s', e, c⟩ := first_calls_null ld h hn hm hsrc; ⟨s', e, fun fuel env pos hf => c env pos fuel hf⟩

/-- **The source of `last` returns the last element** (`List.getLast?`) -/
theorem last_src {s : State} {M nats srcs fn m} (h : LibEnv s M nats srcs) (hn : ∀ x ∈ firstNats, x ∈ nats)
    (hs : ∀ p ∈ firstSrcs, p ∈ srcs) (hm : M m) (hsrc : IsSrc s fn list_last m) (a : Nat) (xs : List RVal)
    (hc : s.cell a = some (.list xs)) (x : RVal) (hx : xs.getLast? = some x) (hctl : isCtl x = false) :
    ∃ s', Ext s s' ∧ ∀ fuel env pos, 14 < fuel → callFn ld fuel fn [("lst", .ref a)] env pos s = .ok x s' := by
  obtain ⟨s', e, c⟩ := last_calls_list ld h hn hs hm hsrc a xs hc
  have hd : Seq.deref xs (-1) = some x := by rw [← hx, ← C19.lastM_eq]; rfl
  refine ⟨s', e, fun fuel env pos hf => ?_⟩
  have := c env pos fuel hf
  simpa only [derefOut, hd, postCall_ok_of_not_ctl hctl] using this

theorem last_src_empty {s : State} {M nats srcs fn m} (h : LibEnv s M nats srcs) (hn : ∀ x ∈ firstNats, x ∈ nats)
    (hs : ∀ p ∈ firstSrcs, p ∈ srcs) (hm : M m) (hsrc : IsSrc s fn list_last m) (a : Nat)
    (hc : s.cell a = some (.list [])) :
    ∃ s', Ext s s' ∧ ∀ fuel env pos, 14 < fuel → callFn ld fuel fn [("lst", .ref a)] env pos s =
      .err (.str ['E', 'R', 'R', 'O', 'R']) "Index out of bounds" (elsePos (lamBody list_last)) [] s' :=
  let ⟨s', e, c⟩ := last_calls_list ld h hn hs hm hsrc a [] hc; ⟨s', e, fun fuel env pos hf => c env pos fuel hf⟩

theorem last_src_null {s : State} {M nats srcs fn m} (h : LibEnv s M nats srcs) (hn : ∀ x ∈ firstNats, x ∈ nats)
    (hm : M m) (hsrc : IsSrc s fn list_last m) :
    ∃ s', Ext s s' ∧ ∀ fuel env pos, 14 < fuel → callFn ld fuel fn [("lst", .null)] env pos s = .ok .null s' :=
  let ⟨s', e, c⟩ := last_calls_null ld h hn hm hsrc; ⟨s', e, fun fuel env pos hf => c env pos fuel hf⟩

/-- non-vacuity: `[1, 2, 3]` has head 1 and last element 3, neither a control signal -/
example : ([RVal.int 1, .int 2, .int 3]).head? = some (.int 1) ∧ ([RVal.int 1, .int 2, .int 3]).getLast? = some (.int 3) ∧
    isCtl (.int 1) = false := ⟨rfl, rfl, rfl⟩

/-! ## 5  math.ckl: `is_even`, `is_odd` (block with a guard that `return`s) -/

/-- **The source of `is_even` decides `2 ∣ n`** on every int -/
theorem is_even_src_int {s : State} {M nats srcs fn m} (h : LibEnv s M nats srcs) (hn : ∀ x ∈ evenNats, x ∈ nats)
    (hs : ∀ p ∈ mathSrcs, p ∈ srcs) (hm : M m) (hsrc : IsSrc s fn math_is_even m) (n : Int) :
    ∃ s', Ext s s' ∧ ∀ fuel env pos, 25 < fuel →
      callFn ld fuel fn [("n", .int n)] env pos s = .ok (.bool (decide (2 ∣ n))) s' := by
  obtain ⟨s', e, c⟩ := is_even_calls_int ld h hn hs hm hsrc n
  have : Lib.isEvenM n = decide (2 ∣ n) := by
    rw [Bool.eq_iff_iff]; simp [C19.isEvenM_iff]
  rw [this] at c
  exact ⟨s', e, fun fuel env pos hf => c env pos fuel hf⟩

theorem is_even_src_eq_mirror {s : State} {M nats srcs fn m} (h : LibEnv s M nats srcs) (hn : ∀ x ∈ evenNats, x ∈ nats)
    (hs : ∀ p ∈ mathSrcs, p ∈ srcs) (hm : M m) (hsrc : IsSrc s fn math_is_even m) (n : Int) :
    ∃ s', Ext s s' ∧ ∀ fuel env pos, 25 < fuel →
      callFn ld fuel fn [("n", .int n)] env pos s = .ok (.bool (isEvenM n)) s' :=
  let ⟨s', e, c⟩ := is_even_calls_int ld h hn hs hm hsrc n; ⟨s', e, fun fuel env pos hf => c env pos fuel hf⟩

/-- **The source of `is_odd`**: TRUE exactly when `2 ∤ n` -/
theorem is_odd_src_int {s : State} {M nats srcs fn m} (h : LibEnv s M nats srcs) (hn : ∀ x ∈ evenNats, x ∈ nats)
    (hs : ∀ p ∈ mathSrcs, p ∈ srcs) (hm : M m) (hsrc : IsSrc s fn math_is_odd m) (n : Int) :
    ∃ s', Ext s s' ∧ ∀ fuel env pos, 25 < fuel →
      callFn ld fuel fn [("n", .int n)] env pos s = .ok (.bool (!decide (2 ∣ n))) s' := by
  obtain ⟨s', e, c⟩ := is_odd_calls_int ld h hn hs hm hsrc n
  have : Lib.isOddM n = !decide (2 ∣ n) := by
    rw [C19.isOddM_eq_not_isEvenM]; congr 1
    rw [Bool.eq_iff_iff]; simp [C19.isEvenM_iff]
  rw [this] at c
  exact ⟨s', e, fun fuel env pos hf => c env pos fuel hf⟩

/-- a non-numeric argument (string, list, NULL, …): the guard `return`s FALSE -/
theorem is_even_src_not_numeric {s : State} {M nats srcs fn m} (h : LibEnv s M nats srcs) (hn : ∀ x ∈ evenNats, x ∈ nats)
    (hs : ∀ p ∈ mathSrcs, p ∈ srcs) (hm : M m) (hsrc : IsSrc s fn math_is_even m) (v : RVal) (h1 : v.isNumerical = false) :
    ∃ s', Ext s s' ∧ ∀ fuel env pos, 25 < fuel → callFn ld fuel fn [("n", v)] env pos s = .ok (.bool false) s' :=
  let ⟨s', e, c⟩ := is_even_calls_nonnum ld h hn hs hm hsrc v h1; ⟨s', e, fun fuel env pos hf => c env pos fuel hf⟩

theorem is_odd_src_not_numeric {s : State} {M nats srcs fn m} (h : LibEnv s M nats srcs) (hn : ∀ x ∈ evenNats, x ∈ nats)
    (hs : ∀ p ∈ mathSrcs, p ∈ srcs) (hm : M m) (hsrc : IsSrc s fn math_is_odd m) (v : RVal) (h1 : v.isNumerical = false) :
    ∃ s', Ext s s' ∧ ∀ fuel env pos, 25 < fuel → callFn ld fuel fn [("n", v)] env pos s = .ok (.bool false) s' :=
  let ⟨s', e, c⟩ := is_odd_calls_nonnum ld h hn hs hm hsrc v h1; ⟨s', e, fun fuel env pos hf => c env pos fuel hf⟩

/-! ## 6  predicate.ckl: `is_zero`, `is_negative`, `is_positive` — for EVERY value -/

/-- `is_zero(v)`: `isZeroV v` (`n = 0` on ints, numeric equality with 0 on decimals, FALSE on everything else) -/
theorem is_zero_src {s : State} {M nats srcs fn m} (h : LibEnv s M nats srcs) (hn : ∀ x ∈ mathNats, x ∈ nats)
    (hs : ∀ p ∈ mathSrcs, p ∈ srcs) (hm : M m) (hsrc : IsSrc s fn predicate_is_zero m) (v : RVal) :
    ∃ s', Ext s s' ∧ ∀ fuel env pos, 20 < fuel → callFn ld fuel fn [("obj", v)] env pos s = .ok (.bool (isZeroV v)) s' :=
  let ⟨s', e, c⟩ := is_zero_calls ld h hn hs hm hsrc v; ⟨s', e, fun fuel env pos hf => c env pos fuel hf⟩

/-- `is_negative(v)`: `n < 0` on ints, the exact dyadic comparison on decimals, FALSE on everything else -/
theorem is_negative_src {s : State} {M nats srcs fn m} (h : LibEnv s M nats srcs) (hn : ∀ x ∈ mathNats, x ∈ nats)
    (hs : ∀ p ∈ mathSrcs, p ∈ srcs) (hm : M m) (hsrc : IsSrc s fn predicate_is_negative m) (v : RVal) :
    ∃ s', Ext s s' ∧ ∀ fuel env pos, 20 < fuel → callFn ld fuel fn [("obj", v)] env pos s = .ok (.bool (isNegativeV v)) s' :=
  let ⟨s', e, c⟩ := is_negative_calls ld h hn hs hm hsrc v; ⟨s', e, fun fuel env pos hf => c env pos fuel hf⟩

/-- `is_positive(v)`: `0 < n` on ints, `not (v < 0) and v != 0` on decimals, FALSE on everything else -/
theorem is_positive_src {s : State} {M nats srcs fn m} (h : LibEnv s M nats srcs) (hn : ∀ x ∈ mathNats, x ∈ nats)
    (hs : ∀ p ∈ mathSrcs, p ∈ srcs) (hm : M m) (hsrc : IsSrc s fn predicate_is_positive m) (v : RVal) :
    ∃ s', Ext s s' ∧ ∀ fuel env pos, 20 < fuel → callFn ld fuel fn [("obj", v)] env pos s = .ok (.bool (isPositiveVal v)) s' :=
  let ⟨s', e, c⟩ := is_positive_calls_all ld h hn hs hm hsrc v; ⟨s', e, fun fuel env pos hf => c env pos fuel hf⟩

/-- the three value functions on ints are the textbook predicates; on strings they are FALSE -/
example (n : Int) : isZeroV (.int n) = decide (n = 0) ∧ isNegativeV (.int n) = decide (n < 0) ∧
    isPositiveVal (.int n) = decide (0 < n) ∧ isZeroV (.str ['0']) = false := ⟨rfl, rfl, rfl, rfl⟩

/-! ## 7  core.ckl one-liners: `non_empty`, `const`, `non_zero` -/

/-- `non_empty(a, b)`: `b` when `a` is the empty string, else `a` — for all (non-control) values -/
theorem non_empty_src {s : State} {M nats srcs fn m} (h : LibEnv s M nats srcs) (hn : "equals" ∈ nats)
    (hm : M m) (hsrc : IsSrc s fn core_non_empty m) (a b : RVal) (ha : isCtl a = false) (hb : isCtl b = false) :
    ∃ s', Ext s s' ∧ ∀ fuel env pos, 7 < fuel →
      callFn ld fuel fn [("a", a), ("b", b)] env pos s = .ok (if isEmptyStr a then b else a) s' := by
  obtain ⟨s', e, c⟩ := non_empty_calls ld h hn hm hsrc a b
  rw [postCall_ok_of_not_ctl (by cases isEmptyStr a <;> simp [ha, hb])] at c
  exact ⟨s', e, fun fuel env pos hf => c env pos fuel hf⟩

/-- **`const(val)` returns a function that returns `val`**: the call returns a fresh function value `f` (cell `s.heap.size`), and
    calling `f` on ANY argument `x` (in the state after the first call) returns `val`, for every fuel above 2 -/
theorem const_src {s : State} {M nats srcs fn m} (h : LibEnv s M nats srcs) (hm : M m) (hsrc : IsSrc s fn core_const m)
    (val : RVal) (hval : isCtl val = false) :
    ∃ s', Ext s s' ∧
      (∀ fuel env pos, 2 < fuel → callFn ld fuel fn [("val", val)] env pos s = .ok (.closure s.heap.size) s') ∧
      ∀ x : RVal, ∃ s'', Ext s' s'' ∧
        ∀ fuel env pos, 2 < fuel → callFn ld fuel (.closure s.heap.size) [("a", x)] env pos s' = .ok val s'' := by
  obtain ⟨s', e, ⟨hcell, hvars, hlt⟩, c⟩ := const_calls ld h hm hsrc val
  refine ⟨s', e, fun fuel env pos hf => c env pos fuel hf, fun x => ?_⟩
  obtain ⟨s'', e'', c''⟩ := const_inner_calls ld val x hcell rfl hvars hlt
  rw [postCall_ok_of_not_ctl hval] at c''
  exact ⟨s'', e'', fun fuel env pos hf => c'' env pos fuel hf⟩

/-- `non_zero(a, b)` on an int `a`.  PARTIAL: the source calls `int(a)`, and `int` is not one of the built-ins the evaluator model
    interprets (`callPure "int" … = none`; its meaning is the loader parameter `nativeSem`).  Full statement wanted: the same without
    `hint`.  What is missing: a model of `FuncInt` inside `callPure` (the driver's `driverNativeSem` has one, outside `Model/`). -/
theorem non_zero_src_partial {s : State} {M nats srcs fn m} (h : LibEnv s M nats srcs)
    (hn : ∀ x ∈ ["int", "equals"], x ∈ nats) (hm : M m) (hsrc : IsSrc s fn core_non_zero m) (n : Int) (b : RVal)
    (hb : isCtl b = false) (hint : ∀ s, ld.nativeSem "int" [("obj", .int n)] s = .ok (.int n) s) :
    ∃ s', Ext s s' ∧ ∀ fuel env pos, 10 < fuel →
      callFn ld fuel fn [("a", .int n), ("b", b)] env pos s = .ok (if n = 0 then b else .int n) s' := by
  obtain ⟨s', e, c⟩ := non_zero_calls_int ld h hn hm hsrc n b hint
  rw [postCall_ok_of_not_ctl (by
    by_cases h0 : n = 0
    · simp [h0, hb]
    · simp only [h0, if_false]; rfl)] at c
  exact ⟨s', e, fun fuel env pos hf => c env pos fuel hf⟩

/-- the hypothesis `hint` is satisfiable: a loader whose `nativeSem` returns its int argument -/
example (n : Int) : ∃ ld : Loader, ∀ s, ld.nativeSem "int" [("obj", .int n)] s = .ok (.int n) s :=
  ⟨{ nativeSem := fun _ _ s => .ok (.int n) s }, fun _ => rfl⟩

/-! ## 8  list.ckl: `reverse_list` (a `for` loop over a list cell) -/

/-- **The source of `reverse_list` computes `List.reverse`**: called on a list cell holding `xs` it returns a reference to a FRESH
    cell `b` (`s.heap.size ≤ b`: the address did not exist before the call) that holds `xs.reverse`; the argument cell and everything
    else that existed is unchanged (`Ext`); explicit fuel bound `xs.length + 18`. -/
theorem reverse_list_src {s : State} {M nats srcs fn m} (h : LibEnv s M nats srcs) (hn : ∀ x ∈ reverseNats, x ∈ nats)
    (hs : ∀ p ∈ firstSrcs, p ∈ srcs) (hm : M m) (hsrc : IsSrc s fn list_reverse_list m) (a : Nat) (xs : List RVal)
    (hc : s.cell a = some (.list xs)) :
    ∃ s' b, Ext s s' ∧ s.heap.size ≤ b ∧ s'.cell b = some (.list xs.reverse) ∧ s'.cell a = some (.list xs) ∧
      ∀ fuel env pos, xs.length + 18 < fuel → callFn ld fuel fn [("list", .ref a)] env pos s = .ok (.ref b) s' := by
  obtain ⟨s', e, ⟨h1, h2⟩, c⟩ := reverse_list_calls_list ld h hn hs hm hsrc a xs hc
  exact ⟨s', _, e, h1, h2, by rw [e.cell a (cell_lt hc)]; exact hc, fun fuel env pos hf => c env pos fuel hf⟩

/-- … which is the hand-written mirror `Lib.reverseM` of C19 -/
theorem reverse_list_src_eq_mirror {s : State} {M nats srcs fn m} (h : LibEnv s M nats srcs) (hn : ∀ x ∈ reverseNats, x ∈ nats)
    (hs : ∀ p ∈ firstSrcs, p ∈ srcs) (hm : M m) (hsrc : IsSrc s fn list_reverse_list m) (a : Nat) (xs : List RVal)
    (hc : s.cell a = some (.list xs)) :
    ∃ s' b, Ext s s' ∧ s.heap.size ≤ b ∧ s'.cell b = some (.list (reverseM xs)) ∧ s'.cell a = some (.list xs) ∧
      ∀ fuel env pos, xs.length + 18 < fuel → callFn ld fuel fn [("list", .ref a)] env pos s = .ok (.ref b) s' := by
  rw [C19.reverseM_eq]; exact reverse_list_src ld h hn hs hm hsrc a xs hc

/-- `reverse_list` of anything that is not a list (a string, a number, NULL, …): NULL -/
theorem reverse_list_src_not_list {s : State} {M nats srcs fn m} (h : LibEnv s M nats srcs) (hn : ∀ x ∈ reverseNats, x ∈ nats)
    (hs : ∀ p ∈ firstSrcs, p ∈ srcs) (hm : M m) (hsrc : IsSrc s fn list_reverse_list m) (v : RVal)
    (hv : isListR s v = false) :
    ∃ s', Ext s s' ∧ ∀ fuel env pos, 15 < fuel → callFn ld fuel fn [("list", v)] env pos s = .ok .null s' :=
  let ⟨s', e, c⟩ := reverse_list_calls_nonlist ld h hn hs hm hsrc v hv; ⟨s', e, fun fuel env pos hf => c env pos fuel hf⟩

/-! ## 9  math.ckl: `gcd` (recursion through the environment) -/

/-- **The source of `gcd` computes `Int.gcd`** for all ints `a`, `b` (any signs; `gcd(0, 0) = 0`): the recursive call
    `gcd(b, a % b)` is resolved through the environment (`("gcd", math_gcd) ∈ srcs`).  Explicit fuel bound
    `gcdFuel b = 30 * (|b| + 1) + 1` (a constant per Euclid step, at most `|b| + 1` steps). -/
theorem gcd_src_int {s : State} {M nats srcs fn m} (h : LibEnv s M nats srcs) (hn : ∀ x ∈ gcdNats, x ∈ nats)
    (hs : ∀ p ∈ gcdSrcs, p ∈ srcs) (hm : M m) (hsrc : IsSrc s fn math_gcd m) (a b : Int) :
    ∃ s', Ext s s' ∧ ∀ fuel env pos, gcdFuel b < fuel →
      callFn ld fuel fn [("a", .int a), ("b", .int b)] env pos s = .ok (.int (Int.gcd a b : Int)) s' :=
  let ⟨s', e, c⟩ := gcd_calls_int_gcd ld h hn hs hm hsrc a b; ⟨s', e, fun fuel env pos hf => c env pos fuel hf⟩

theorem gcd_src_eq_mirror {s : State} {M nats srcs fn m} (h : LibEnv s M nats srcs) (hn : ∀ x ∈ gcdNats, x ∈ nats)
    (hs : ∀ p ∈ gcdSrcs, p ∈ srcs) (hm : M m) (hsrc : IsSrc s fn math_gcd m) (a b : Int) :
    ∃ s', Ext s s' ∧ ∀ fuel env pos, gcdFuel b < fuel →
      callFn ld fuel fn [("a", .int a), ("b", .int b)] env pos s = .ok (.int (gcdM a b)) s' :=
  let ⟨s', e, c⟩ := gcd_calls_int ld h hn hs hm hsrc a b; ⟨s', e, fun fuel env pos hf => c env pos fuel hf⟩

example : gcdFuel (-6) = 211 := by decide

/-! ## 10  where the hypothesis comes from: loading the generated definitions into the driver's initial state -/

/-- **Evaluating a list of generated `def` nodes in a module frame establishes `LibEnv`.**  `defs`: generated definitions with
    pairwise different names, none called `NULL` or like one of the built-ins `nats`; `s`: any state in which, from frame `m`, `NULL`
    and the built-ins resolve.  Then the statement list `defs` evaluates (fuel above `defs.length + 1`) to a state `s'` with
    `LibEnv s' (· = m) nats [(name, def) …]`; other frames, old heap cells and the output are unchanged. -/
theorem load_defs_establishes_libEnv (defs : List Node) (hall : ∀ d ∈ defs, IsDefLam d) (hnd : (defs.map defName).Nodup)
    (nats : List String) (hdisj : ∀ x ∈ "NULL" :: nats, x ∉ defs.map defName)
    (s : State) (m : EnvId) (hlt : m < s.frames.size)
    (hnull : Res s m "NULL" .null) (hnat : ∀ x ∈ nats, ∃ i, Res s m x (.native x i)) (last : RVal) :
    ∃ v s', (∀ fuel, defs.length + 1 < fuel → evalBody ld fuel m defs last s = .ok v s') ∧
      LibEnv s' (· = m) nats (defs.map (fun d => (defName d, d))) ∧
      (∀ i, i < s.frames.size → i ≠ m → s'.frame i = s.frame i) ∧ s'.frames.size = s.frames.size ∧
      (∀ a, a < s.heap.size → s'.cell a = s.cell a) ∧ s'.out = s.out :=
  load_defs_libEnv ld defs hall hnd nats hdisj s m hlt hnull hnat last

/-- **The driver's initial state + the generated definitions satisfy `LibEnv`**: `initialState secure loadNats` (`Driver/EvalCmd.lean`:
    base frame 0 with the constants and one built-in per name, session/module frame 1) followed by the 21 generated definitions
    `loadDefs` (all functions proved in this file) evaluated as a statement list in frame 1. -/
theorem initialState_loaded_libEnv (secure : Bool) (last : RVal) :
    ∃ v s', (∀ fuel, loadDefs.length + 1 < fuel →
        evalBody ld fuel 1 loadDefs last (initialState secure loadNats).1 = .ok v s') ∧
      LibEnv s' (· = 1) loadNats (loadDefs.map (fun d => (defName d, d))) :=
  initialState_load_libEnv ld secure last

theorem loadNats_math : ∀ x ∈ gcdNats, x ∈ loadNats := by decide

theorem loadSrcs_gcd : ∀ p ∈ gcdSrcs, p ∈ loadDefs.map (fun d => (defName d, d)) := by
  intro p hp
  simp only [gcdSrcs, mathSrcs, List.cons_append, List.nil_append, List.mem_cons, List.not_mem_nil, or_false] at hp
  rcases hp with rfl | rfl | rfl | rfl | rfl
  · exact List.mem_map.2 ⟨type_is_numeric, by simp [loadDefs], rfl⟩
  · exact List.mem_map.2 ⟨type_is_int, by simp [loadDefs], rfl⟩
  · exact List.mem_map.2 ⟨type_is_decimal, by simp [loadDefs], rfl⟩
  · exact List.mem_map.2 ⟨math_abs, by simp [loadDefs], rfl⟩
  · exact List.mem_map.2 ⟨math_gcd, by simp [loadDefs], rfl⟩

/-- **End to end**: load the generated definitions into the driver's initial state; in the resulting state the name `gcd` resolves
    (from the session frame 1) to a function value, and calling it on two ints returns `Int.gcd` — no hypothesis on the state left. -/
theorem loaded_gcd (secure : Bool) (last : RVal) (a b : Int) :
    ∃ v s1, (∀ fuel, loadDefs.length + 1 < fuel →
        evalBody ld fuel 1 loadDefs last (initialState secure loadNats).1 = .ok v s1) ∧
      ∃ fn, s1.lookup 1 "gcd" = some fn ∧
        ∃ s', Ext s1 s' ∧ ∀ fuel env pos, gcdFuel b < fuel →
          callFn ld fuel fn [("a", .int a), ("b", .int b)] env pos s1 = .ok (.int (Int.gcd a b : Int)) s' := by
  obtain ⟨v, s1, hev, hlib⟩ := initialState_load_libEnv ld secure last
  obtain ⟨fn, hres, hsrc⟩ := loaded_isSrc hlib (d := math_gcd) (by simp [loadDefs])
  refine ⟨v, s1, hev, fn, ?_, gcd_src_int ld hlib loadNats_math loadSrcs_gcd rfl hsrc a b⟩
  have hlt : 1 < s1.frames.size := hlib.lt 1 rfl
  exact lookupF_res hres _ (by omega)

/-- the same for `abs` -/
theorem loaded_abs (secure : Bool) (last : RVal) (n : Int) :
    ∃ v s1, (∀ fuel, loadDefs.length + 1 < fuel →
        evalBody ld fuel 1 loadDefs last (initialState secure loadNats).1 = .ok v s1) ∧
      ∃ fn, s1.lookup 1 "abs" = some fn ∧
        ∃ s', Ext s1 s' ∧ ∀ fuel env pos, 21 < fuel →
          callFn ld fuel fn [("n", .int n)] env pos s1 = .ok (.int (n.natAbs : Int)) s' := by
  obtain ⟨v, s1, hev, hlib⟩ := initialState_load_libEnv ld secure last
  obtain ⟨fn, hres, hsrc⟩ := loaded_isSrc hlib (d := math_abs) (by simp [loadDefs])
  refine ⟨v, s1, hev, fn, ?_, abs_src_int ld hlib (fun x hx => loadNats_math x (gcdNats_math (fun _ h => h) x hx))
    (fun p hp => loadSrcs_gcd p (gcdSrcs_math (fun _ h => h) p hp)) rfl hsrc n⟩
  have hlt : 1 < s1.frames.size := hlib.lt 1 rfl
  exact lookupF_res hres _ (by omega)


/-! ## 11  list.ckl: `append_all` — the documented MUTATOR -/

/-- **The source of `append_all` mutates exactly its first argument.**  `lst` a list cell `a` holding `xs`, `items` a list cell `b`
    holding `ys` (`b = a` allowed: `append_all(x, x)`): the call returns `.ref a`, afterwards cell `a` holds `xs ++ ys`, and
    `ExtBut a s s'`: every frame, the output and every OTHER heap cell that existed are unchanged (in particular `items` when
    `b ≠ a`).  The loop runs over the copy `sublist(list(items), 0)`, which is why `a = b` terminates.  Fuel bound `ys.length + 13`. -/
theorem append_all_src {s : State} {M nats srcs fn m} (h : LibEnv s M nats srcs) (hn : ∀ x ∈ appendNats, x ∈ nats)
    (hm : M m) (hsrc : IsSrc s fn list_append_all m) (a b : Nat) (xs ys : List RVal)
    (hca : s.cell a = some (.list xs)) (hcb : s.cell b = some (.list ys)) :
    ∃ s', ExtBut a s s' ∧ s'.cell a = some (.list (xs ++ ys)) ∧ (b ≠ a → s'.cell b = some (.list ys)) ∧
      ∀ fuel env pos, ys.length + 13 < fuel →
        callFn ld fuel fn [("lst", .ref a), ("items", .ref b)] env pos s = .ok (.ref a) s' := by
  obtain ⟨s', e, hc, c⟩ := append_all_calls_lists ld h hn hm hsrc a b xs ys hca hcb
  exact ⟨s', e, hc, fun hne => by rw [e.cell b (cell_lt hcb) hne]; exact hcb, fun fuel env pos hf => c env pos fuel hf⟩

/-- … with the content stated through the mirror `Lib.appendAllM` of C19 -/
theorem append_all_src_eq_mirror {s : State} {M nats srcs fn m} (h : LibEnv s M nats srcs) (hn : ∀ x ∈ appendNats, x ∈ nats)
    (hm : M m) (hsrc : IsSrc s fn list_append_all m) (a b : Nat) (xs ys : List RVal)
    (hca : s.cell a = some (.list xs)) (hcb : s.cell b = some (.list ys)) :
    ∃ s', ExtBut a s s' ∧ s'.cell a = some (.list (appendAllM xs ys)) ∧
      ∀ fuel env pos, ys.length + 13 < fuel →
        callFn ld fuel fn [("lst", .ref a), ("items", .ref b)] env pos s = .ok (.ref a) s' := by
  obtain ⟨s', e, hc, c⟩ := append_all_calls_lists_mirror ld h hn hm hsrc a b xs ys hca hcb
  exact ⟨s', e, hc, fun fuel env pos hf => c env pos fuel hf⟩

/-! ## 12  the hypotheses of the loop theorems are satisfiable -/

/-- a state satisfying every hypothesis of `reverse_list_src`, `append_all_src`, `first_src`, `gcd_src_int`, …: the driver's initial
    state with the generated definitions loaded (section 10) plus one list cell -/
example (secure : Bool) : ∃ (s : State) (f1 f2 : RVal) (a : Nat),
    LibEnv s (· = 1) loadNats (loadDefs.map (fun d => (defName d, d))) ∧
    IsSrc s f1 list_reverse_list 1 ∧ IsSrc s f2 list_append_all 1 ∧ s.cell a = some (.list [.int 1, .int 2, .int 3]) := by
  obtain ⟨v, s1, _, hlib⟩ := initialState_load_libEnv default secure .null
  have e : Ext s1 (s1.alloc (.list [.int 1, .int 2, .int 3])).1 := (Ext.refl s1).alloc _
  obtain ⟨f1, _, h1⟩ := loaded_isSrc hlib (d := list_reverse_list) (by simp [loadDefs])
  obtain ⟨f2, _, h2⟩ := loaded_isSrc hlib (d := list_append_all) (by simp [loadDefs])
  exact ⟨_, f1, f2, s1.heap.size, hlib.ext e, h1.ext e, h2.ext e, cell_alloc_new _ _⟩

example : (∀ x ∈ reverseNats, x ∈ loadNats) ∧ (∀ x ∈ appendNats, x ∈ loadNats) ∧ (∀ x ∈ firstNats, x ∈ loadNats) ∧
    (∀ x ∈ evenNats, x ∈ loadNats) := by decide


/-! ## 13  the `while` rule is usable -/

/-- `while FALSE do body`: an instance of the invariant rule `Ev.while` (invariant: the state is unchanged; variant 0) -/
example (env : EnvId) (body : Node) (p q : Pos) (s : State) :
    ∀ fuel, 3 < fuel → eval ld fuel env (.while (.lit (.bool false) p) body q) s = .ok (.bool true) s := by
  obtain ⟨r', s', ⟨hr, hs⟩, _, hev⟩ := Ev.while ld (kc := 0) (kb := 0) (env := env) (c := .lit (.bool false) p) (body := body) (pos := q)
    (fun r st => r = .bool true ∧ st = s) (fun _ => 0)
    (fun r st hI => ⟨false, st, Ev.litBool ld, fun _ => hI, fun h => by cases h⟩) s ⟨rfl, rfl⟩
  subst hr; subst hs
  intro fuel hf; exact hev fuel (by simpa using hf)


/-! ## 14  list.ckl: `reduce`, `prod` (a loop with assignment, calling a function VALUE passed as argument) -/

/-- **The source of `reduce` is the left fold**: `list` a cell holding the int list `n :: ns`, `f` a binary built-in that computes
    `g` on ints (`IntOp nm g`; instances `intOp_add`, `intOp_mul`): the result is `ns.foldl g n` = `reduceM g (n :: ns)`;
    nothing that existed is changed (`Ext`, so the argument list is untouched); fuel bound `ns.length + 30`. -/
theorem reduce_src_ints {s : State} {M nats srcs fn m} (h : LibEnv s M nats srcs) (hn : ∀ x ∈ reduceNats, x ∈ nats)
    (hm : M m) (hsrc : IsSrc s fn list_reduce m) {nm : String} {g : Int → Int → Int} (hop : IntOp nm g) (i : Nat)
    (a : Nat) (n : Int) (ns : List Int) (hc : s.cell a = some (.list ((n :: ns).map .int))) :
    ∃ s', Ext s s' ∧ ∀ fuel env pos, ns.length + 30 < fuel →
      callFn ld fuel fn [("list", .ref a), ("f", .native nm i)] env pos s = .ok (.int (ns.foldl g n)) s' :=
  let ⟨s', e, c⟩ := reduce_calls_ints ld h hn hm hsrc hop i a n ns hc; ⟨s', e, fun fuel env pos hf => c env pos fuel hf⟩

/-- … stated through the mirror `Lib.reduceM` of C19 (`C19.reduceM_eq_foldl`) -/
theorem reduce_src_eq_mirror {s : State} {M nats srcs fn m} (h : LibEnv s M nats srcs) (hn : ∀ x ∈ reduceNats, x ∈ nats)
    (hm : M m) (hsrc : IsSrc s fn list_reduce m) {nm : String} {g : Int → Int → Int} (hop : IntOp nm g) (i : Nat)
    (a : Nat) (n : Int) (ns : List Int) (hc : s.cell a = some (.list ((n :: ns).map .int))) (r : Int)
    (hr : reduceM g (n :: ns) = some r) :
    ∃ s', Ext s s' ∧ ∀ fuel env pos, ns.length + 30 < fuel →
      callFn ld fuel fn [("list", .ref a), ("f", .native nm i)] env pos s = .ok (.int r) s' :=
  let ⟨s', e, c⟩ := reduce_calls_ints_reduceM ld h hn hm hsrc hop i a n ns hc r hr
  ⟨s', e, fun fuel env pos hf => c env pos fuel hf⟩

/-- `reduce(list, add)` on ints is the sum, `reduce(list, mul)` the product: the two instances of `IntOp` -/
example : IntOp "add" (· + ·) ∧ IntOp "mul" (· * ·) := ⟨intOp_add, intOp_mul⟩

/-- `reduce([], f)`: the runtime error whose VALUE is the text `Cannot reduce empty list` (for any `f`) -/
theorem reduce_src_empty {s : State} {M nats srcs fn m} (h : LibEnv s M nats srcs) (hn : ∀ x ∈ reduceNats, x ∈ nats)
    (hm : M m) (hsrc : IsSrc s fn list_reduce m) (a : Nat) (hc : s.cell a = some (.list [])) (f : RVal) :
    ∃ s', Ext s s' ∧ ∀ fuel env pos, 30 < fuel → callFn ld fuel fn [("list", .ref a), ("f", f)] env pos s =
      .err (.str "Cannot reduce empty list".toList) "" (reduceErrPos (lamBody list_reduce)) [] s' :=
  let ⟨s', e, c⟩ := reduce_calls_empty ld h hn hm hsrc a hc f; ⟨s', e, fun fuel env pos hf => c env pos fuel hf⟩

theorem reduce_src_null {s : State} {M nats srcs fn m} (h : LibEnv s M nats srcs) (hn : ∀ x ∈ reduceNats, x ∈ nats)
    (hm : M m) (hsrc : IsSrc s fn list_reduce m) (f : RVal) :
    ∃ s', Ext s s' ∧ ∀ fuel env pos, 30 < fuel → callFn ld fuel fn [("list", .null), ("f", f)] env pos s = .ok .null s' :=
  let ⟨s', e, c⟩ := reduce_calls_null ld h hn hm hsrc f; ⟨s', e, fun fuel env pos hf => c env pos fuel hf⟩

/-- **The source of `prod` computes `List.prod`** on a non-empty int list: `prod(list) = reduce(list, mul)`, both `reduce` and `mul`
    resolved through the environment -/
theorem prod_src_ints {s : State} {M nats srcs fn m} (h : LibEnv s M nats srcs) (hn : ∀ x ∈ prodNats, x ∈ nats)
    (hs : ("reduce", list_reduce) ∈ srcs) (hm : M m) (hsrc : IsSrc s fn list_prod m)
    (a : Nat) (n : Int) (ns : List Int) (hc : s.cell a = some (.list ((n :: ns).map .int))) :
    ∃ s', Ext s s' ∧ ∀ fuel env pos, ns.length + 40 < fuel →
      callFn ld fuel fn [("list", .ref a)] env pos s = .ok (.int (n :: ns).prod) s' :=
  let ⟨s', e, c⟩ := prod_calls_ints_prod ld h hn hs hm hsrc a n ns hc; ⟨s', e, fun fuel env pos hf => c env pos fuel hf⟩

/-- … which is the mirror `Lib.prodM` -/
theorem prod_src_eq_mirror {s : State} {M nats srcs fn m} (h : LibEnv s M nats srcs) (hn : ∀ x ∈ prodNats, x ∈ nats)
    (hs : ("reduce", list_reduce) ∈ srcs) (hm : M m) (hsrc : IsSrc s fn list_prod m)
    (a : Nat) (n : Int) (ns : List Int) (hc : s.cell a = some (.list ((n :: ns).map .int))) (r : Int)
    (hr : prodM (n :: ns) = some r) :
    ∃ s', Ext s s' ∧ ∀ fuel env pos, ns.length + 40 < fuel →
      callFn ld fuel fn [("list", .ref a)] env pos s = .ok (.int r) s' := by
  obtain ⟨s', e, c⟩ := prod_calls_ints ld h hn hs hm hsrc a n ns hc
  have : r = ns.foldl (· * ·) n := by
    have := C19Src.reduceM_cons (fun a b : Int => a * b) n ns
    unfold prodM at hr; rw [this] at hr; exact (Option.some.inj hr).symm
  subst this
  exact ⟨s', e, fun fuel env pos hf => c env pos fuel hf⟩

example : (∀ x ∈ prodNats, x ∈ loadNats) ∧ ("reduce", list_reduce) ∈ loadDefs.map (fun d => (defName d, d)) :=
  ⟨by decide, List.mem_map.2 ⟨list_reduce, by simp [loadDefs], rfl⟩⟩


end Ckl.C19Src
