import CklVerif.Lemmas.C20EvalVal

/-!
  C20 (evaluator part) — the invariant as a predicate on computations of `EvalM`.

  `PosOK E P m`: started in a state all of whose stored positions satisfy `P` (`StOK P`), the
  computation `m` ends in such a state; when it ends with a value, every position carried by the value
  (control signals `break` / `continue` / `return`) satisfies `P`; when it ends with a runtime error,
  the message `msg`, the error position `p` and the stack trace `t` satisfy `E msg p t`.
  Two instances are used:

  * `E _ p t := p = pos ∧ t = []`, `P := fun _ => True`   — "every failure reports the position `pos`"
    (the modelled built-ins),
  * `E := EP P`                                          — "only positions satisfying `P`" (the evaluator).
-/
namespace Ckl
attribute [local irreducible] ValsOK DictOK PairsOK

/-- "every position carried by the values inside `a` satisfies `P`", by the type of `a` -/
class VC (α : Type) where
  ok : (Pos → Prop) → α → Prop

instance : VC RVal := ⟨ValOK⟩
instance : VC (List RVal) := ⟨ValsOK⟩
instance : VC (List (String × RVal)) := ⟨DictOK⟩
instance : VC (List (RVal × RVal)) := ⟨PairsOK⟩
instance : VC (Array RVal) := ⟨fun P a => ValsOK P a.toList⟩
instance : VC Cell := ⟨CellOK⟩
instance : VC (List (String × List RVal)) := ⟨fun P l => ∀ x ∈ l, ValsOK P x.2⟩
instance {α β} [VC α] [VC β] : VC (α × β) := ⟨fun P x => VC.ok P x.1 ∧ VC.ok P x.2⟩
instance {α} [VC α] : VC (Option α) := ⟨fun P o => ∀ x, o = some x → VC.ok P x⟩
instance : VC Unit := ⟨fun _ _ => True⟩
instance : VC Bool := ⟨fun _ _ => True⟩
instance : VC Int := ⟨fun _ _ => True⟩
instance : VC Nat := ⟨fun _ _ => True⟩
instance : VC String := ⟨fun _ _ => True⟩
instance : VC State := ⟨fun _ _ => True⟩
instance : VC (List Char) := ⟨fun _ _ => True⟩
instance : VC (List String) := ⟨fun _ _ => True⟩
instance : VC (List (Option String)) := ⟨fun _ _ => True⟩

section
variable {P : Pos → Prop}
theorem VC.rval (v : RVal) : VC.ok P v ↔ ValOK P v := Iff.rfl
theorem VC.vals (l : List RVal) : VC.ok P l ↔ ValsOK P l := Iff.rfl
theorem VC.dict (l : List (String × RVal)) : VC.ok P l ↔ DictOK P l := Iff.rfl
theorem VC.pairs (l : List (RVal × RVal)) : VC.ok P l ↔ PairsOK P l := Iff.rfl
theorem VC.arr (a : Array RVal) : VC.ok P a ↔ ValsOK P a.toList := Iff.rfl
theorem VC.cell (c : Cell) : VC.ok P c ↔ CellOK P c := Iff.rfl
theorem VC.prod {α β} [VC α] [VC β] (x : α × β) : VC.ok P x ↔ VC.ok P x.1 ∧ VC.ok P x.2 := Iff.rfl
theorem VC.some {α} [VC α] (a : α) : VC.ok P (Option.some a) ↔ VC.ok P a :=
  ⟨fun h => h a rfl, fun h x hx => by cases hx; exact h⟩
theorem VC.none {α} [VC α] : VC.ok P (Option.none : Option α) ↔ True := ⟨fun _ => trivial, fun _ _ hx => nomatch hx⟩
theorem VC.unit (a : Unit) : VC.ok P a ↔ True := Iff.rfl
theorem VC.bool (a : Bool) : VC.ok P a ↔ True := Iff.rfl
theorem VC.int (a : Int) : VC.ok P a ↔ True := Iff.rfl
theorem VC.nat (a : Nat) : VC.ok P a ↔ True := Iff.rfl
theorem VC.string (a : String) : VC.ok P a ↔ True := Iff.rfl
theorem VC.state (a : State) : VC.ok P a ↔ True := Iff.rfl
theorem VC.chars (a : List Char) : VC.ok P a ↔ True := Iff.rfl
theorem VC.strings (a : List String) : VC.ok P a ↔ True := Iff.rfl
theorem VC.optStrings (a : List (Option String)) : VC.ok P a ↔ True := Iff.rfl
theorem VC.compr (l : List (String × List RVal)) : VC.ok P l ↔ ∀ x ∈ l, ValsOK P x.2 := Iff.rfl
theorem VC.compr_single (x : String) (vs : List RVal) : VC.ok P [(x, vs)] ↔ ValsOK P vs :=
  ⟨fun h => h (x, vs) List.mem_cons_self, fun h y hy => by cases List.mem_singleton.mp hy; exact h⟩

theorem StOK.cellList {s : State} (h : StOK P s) {a : Nat} {xs} (hc : s.cell a = some (.list xs)) : ValsOK P xs := h.cell hc
theorem StOK.cellSet {s : State} (h : StOK P s) {a : Nat} {xs} (hc : s.cell a = some (.set xs)) : ValsOK P xs := h.cell hc
theorem StOK.cellMap {s : State} (h : StOK P s) {a : Nat} {kvs} (hc : s.cell a = some (.map kvs)) : PairsOK P kvs := h.cell hc
theorem StOK.cellObj {s : State} (h : StOK P s) {a : Nat} {kvs m} (hc : s.cell a = some (.obj kvs m)) : DictOK P kvs :=
  h.cell hc
theorem ValOK.brk_iff {p : Pos} : ValOK P (.brk p) ↔ P p := Iff.rfl
theorem ValOK.cont_iff {p : Pos} : ValOK P (.cont p) ↔ P p := Iff.rfl
theorem ValOK.ret_iff {v : RVal} {p : Pos} : ValOK P (.ret v p) ↔ P p ∧ ValOK P v := Iff.rfl
theorem ValOK.retI {v : RVal} {p : Pos} (hp : P p) (hv : ValOK P v) : ValOK P (.ret v p) := ⟨hp, hv⟩
theorem ValsOK.toArrayList {xs : List RVal} (h : ValsOK P xs) : ValsOK P xs.toArray.toList := by simpa using h
end

/-- bring the value facts of the context and the goal into the normal forms `ValOK` / `ValsOK` /
    `DictOK` / `PairsOK` -/
macro "vc_norm" : tactic => `(tactic|
  try simp only [VC.rval, VC.vals, VC.dict, VC.pairs, VC.arr, VC.cell, VC.prod, VC.some, VC.none, VC.unit, VC.bool,
    VC.int, VC.nat, VC.string, VC.state, VC.chars, VC.strings, VC.optStrings, VC.compr_single, CellOK, ValsOK.cons_iff, ValsOK.nil_iff,
    PairsOK.cons_iff, PairsOK.nil_iff, DictOK.cons_iff, DictOK.nil_iff, ValOK.brk_iff,
    ValOK.cont_iff, ValOK.ret_iff, boolV,
    and_true, true_and, and_self, imp_true_iff, forall_const] at *)

/-- the value side conditions: every value the program hands on was OK before.  The lemmas that apply
    to every goal have an equation or membership fact of the context as their first premise. -/
macro "vok" : tactic => `(tactic| first
  | assumption
  | exact trivial
  | (vc_norm; all_goals ((repeat (cases ‹_ ∧ _›)); first
      | assumption
      | exact trivial
      | (solve_by_elim (maxDepth := 24) (constructor := false) [@ValsOK.nil, @ValsOK.cons, @ValsOK.append,
          @ValsOK.filter, @ValsOK.take, @ValsOK.drop, @ValsOK.set, @ValsOK.getD, @ValsOK.rangeGetD,
          @ValsOK.replicateFlatten, @ValsOK.replicateNull, @ValsOK.slice, @ValsOK.substr, @ValsOK.insertAt, @ValsOK.deleteAt1, @ValsOK.deleteAt2,
          @ValsOK.setAdd, @ValsOK.foldSetAdd, @ValsOK.arrGetD, @ValsOK.arrSet, @DictOK.mapLookupD, @ValsOK.mapAtom,
          @DictOK.nil, @DictOK.cons, @DictOK.put, @DictOK.del, @DictOK.getD, @DictOK.vals, @DictOK.zip,
          @DictOK.foldPut, @PairsOK.nil, @PairsOK.cons, @PairsOK.append, @PairsOK.put, @PairsOK.del, @PairsOK.keys,
          @PairsOK.vals, @PairsOK.foldPut, @StOK.lookupD, @ValOK.retI, @And.intro, @trivial, @rfl,
          @ValsOK.sortedR', @PairsOK.sortedEntriesR', @StOK.set', @StOK.findOwner', @StOK.cellList', @StOK.cellSet', @StOK.cellMap', @StOK.cellObj',
          @DictOK.get', @PairsOK.get', @ValsOK.getElem?', @ValsOK.deref', @StOK.lookup', @ValsOK.of_mem',
          @DictOK.snd_of_mem', @PairsOK.fst_of_mem', @PairsOK.snd_of_mem', @ValsOK.zip_fst', @ValsOK.zip_snd',
          @ValOK.ofFunc]))))

section
variable {α β : Type} (E : String → Pos → List (String × Pos) → Prop) (P : Pos → Prop)

def OutOK [VC α] : Out α → Prop
  | .ok a s => VC.ok P a ∧ StOK P s
  | .err _ m p t s => E m p t ∧ StOK P s
  | .fail _ s => StOK P s

structure PosOK [VC α] (m : EvalM α) : Prop where
  run : ∀ s, StOK P s → OutOK E P (m s)
end

section
variable {α β : Type} {E : String → Pos → List (String × Pos) → Prop} {P : Pos → Prop}

@[simp] theorem OutOK_ok [VC α] (a : α) (s : State) : OutOK E P (.ok a s : Out α) ↔ VC.ok P a ∧ StOK P s := Iff.rfl
@[simp] theorem OutOK_err [VC α] (v m p t) (s : State) :
    OutOK E P (.err v m p t s : Out α) ↔ E m p t ∧ StOK P s := Iff.rfl
@[simp] theorem OutOK_fail [VC α] (f) (s : State) : OutOK E P (.fail f s : Out α) ↔ StOK P s := Iff.rfl

/-- the final state of an outcome -/
def Out.state : Out α → State
  | .ok _ s => s
  | .err _ _ _ _ s => s
  | .fail _ s => s

theorem OutOK.state [VC α] {o : Out α} (h : OutOK E P o) : StOK P o.state := by
  cases o with
  | ok a s => exact h.2
  | err v m p t s => exact h.2
  | fail f s => exact h

namespace PosOK

theorem ofFun [VC α] {f : State → Out α} (h : ∀ s, StOK P s → OutOK E P (f s)) : PosOK E P (f : EvalM α) := ⟨h⟩

theorem pure [VC α] {a : α} (h : VC.ok P a) : PosOK E P (Pure.pure a : EvalM α) := ⟨fun _ hs => ⟨h, hs⟩⟩

theorem bind [VC α] [VC β] {m : EvalM α} {f : α → EvalM β} (hm : PosOK E P m)
    (hf : ∀ a, VC.ok P a → PosOK E P (f a)) : PosOK E P (m >>= f) := by
  constructor
  intro s hs
  rw [EvalM.bind_apply]
  have := hm.run s hs
  cases h : m s with
  | ok a s1 => rw [h] at this; exact (hf a this.1).run s1 this.2
  | err v msg p t s1 => rw [h] at this; exact this
  | fail k s1 => rw [h] at this; exact this

/-- reading the state: the continuation may use that the state read satisfies the invariant -/
theorem getS_bind [VC β] {f : State → EvalM β} (hf : ∀ s0, StOK P s0 → PosOK E P (f s0)) :
    PosOK E P (getS >>= f) := ⟨fun s hs => (hf s hs).run s hs⟩

theorem getS : PosOK E P getS := ⟨fun _ hs => ⟨trivial, hs⟩⟩
theorem setS {s : State} (h : StOK P s) : PosOK E P (setS s) := ⟨fun _ _ => ⟨trivial, h⟩⟩
theorem modifyS {f : State → State} (h : ∀ s, StOK P s → StOK P (f s)) : PosOK E P (modifyS f) :=
  ⟨fun s hs => ⟨trivial, h s hs⟩⟩
theorem throwV [VC α] {v : RVal} {msg : String} {pos : Pos} (h : E msg pos []) :
    PosOK E P (throwV v msg pos : EvalM α) := ⟨fun _ hs => ⟨h, hs⟩⟩
theorem throwE [VC α] {msg : String} {pos : Pos} (h : E msg pos []) : PosOK E P (throwE msg pos : EvalM α) :=
  ⟨fun _ hs => ⟨h, hs⟩⟩
theorem failM [VC α] (f : Fail) : PosOK E P (failM f : EvalM α) := ⟨fun s hs => show OutOK E P (Out.fail f s) from hs⟩
theorem unsupported [VC α] (w : String) : PosOK E P (unsupported w : EvalM α) := failM _
theorem cellOf (v : RVal) : PosOK E P (cellOf v) := by
  constructor; intro s hs; unfold Ckl.cellOf; split
  · exact ⟨fun c hc => hs.cell hc, hs⟩
  · exact ⟨fun _ hc => (nomatch hc), hs⟩
theorem typeOf (v : RVal) : PosOK E P (typeOf v) := ⟨fun _ hs => ⟨trivial, hs⟩⟩
theorem allocM {c : Cell} (hc : CellOK P c) : PosOK E P (allocM c) := ⟨fun _ hs => ⟨trivial, hs.alloc hc⟩⟩
theorem newList {xs : List RVal} (h : ValsOK P xs) : PosOK E P (newList xs) := allocM h

theorem mapM_vals {γ : Type} (f : γ → EvalM RVal) (xs : List γ) (hf : ∀ a ∈ xs, PosOK E P (f a)) :
    PosOK E P (xs.mapM f) := by
  induction xs with
  | nil => rw [List.mapM_nil]; exact pure ValsOK.nil
  | cons x xs ih =>
    rw [List.mapM_cons]
    refine bind (hf x List.mem_cons_self) (fun a ha => bind (ih (fun y hy => hf y (List.mem_cons_of_mem _ hy))) ?_)
    intro as has
    exact pure (ValsOK.cons ha has)

end PosOK
end

/-- `E msg pos []` (or `∀ msg, E msg pos []`) from the context; extended by the instances -/
syntax "eok" : tactic
macro_rules | `(tactic| eok) => `(tactic| first | assumption | (apply_assumption (exfalso := false) (symm := false) <;> assumption))

/-- `StOK P s'` for a state `s'` computed from a state of the context -/
macro "stinv" : tactic => `(tactic| first
  | assumption
  | (apply StOK.newEnv; assumption)
  | (refine StOK.set' (by assumption) (by assumption) ?_; vok)
  | (refine StOK.of_eq' ?_ rfl rfl; assumption))

/-- `∀ s, StOK P s → StOK P (f s)` for the state updates of the model -/
macro "stinv_fun" : tactic => `(tactic| (intro s hs; first
  | exact hs
  | exact StOK.of_eq' hs rfl rfl
  | (refine StOK.put hs _ _ ?_; vok)
  | exact StOK.remove hs _ _
  | (refine StOK.setCell hs _ ?_; vok)
  | (apply StOK.foldl hs; intro _ _ _ hs'; first
      | exact StOK.remove hs' _ _
      | (refine StOK.put hs' _ _ ?_; vok)
      | (split <;> first | exact hs' | (refine StOK.put hs' _ _ ?_; vok)))))

/-- library facts; extended as they are proved -/
syntax "posok_lib" : tactic
macro_rules | `(tactic| posok_lib) => `(tactic| fail "no library fact applies")

/-- one decomposition step for goals `PosOK E P (do …)` -/
macro "posok_step" : tactic => `(tactic| first
  | (apply PosOK.pure; vok)
  | exact PosOK.getS
  | (apply PosOK.setS; stinv)
  | (apply PosOK.modifyS; stinv_fun)
  | (apply PosOK.throwV; eok)
  | (apply PosOK.throwE; eok)
  | exact PosOK.unsupported _
  | exact PosOK.failM _
  | (apply PosOK.allocM; vok)
  | (apply PosOK.newList; vok)
  | exact PosOK.cellOf _
  | exact PosOK.typeOf _
  | posok_lib
  | (with_reducible apply PosOK.getS_bind; intro _ _)
  | with_reducible apply PosOK.bind
  | (with_reducible apply PosOK.mapM_vals; intro _ _)
  | intro _
  | dsimp only [State.newEnv]
  | split)

macro "posok" : tactic => `(tactic| repeat' posok_step)

/-! ### non-recursive helpers of `EvalBase` -/

section
variable {E : String → Pos → List (String × Pos) → Prop} {P : Pos → Prop}

namespace PosOK

theorem argGet {args : List (String × RVal)} (ha : DictOK P args) (name : String) {pos : Pos}
    (h : ∀ msg, E msg pos []) : PosOK E P (argGet args name pos) := by
  unfold Ckl.argGet; posok

theorem getIndex (idx : RVal) {pos : Pos} (h : ∀ msg, E msg pos []) : PosOK E P (getIndex idx pos) := by
  unfold Ckl.getIndex; posok

theorem asStringM (v : RVal) {pos : Pos} (h : ∀ msg, E msg pos []) : PosOK E P (asStringM v pos) := by
  unfold Ckl.asStringM; posok

theorem bindNamed (sp : ArgSpec) {pos : Pos} (h : ∀ msg, E msg pos []) (ns : List (Option String)) (vs : List RVal)
    (args : List (String × RVal)) (hvs : ValsOK P vs) (ha : DictOK P args) :
    PosOK E P (bindNamed sp pos ns vs args) := by
  induction ns generalizing vs args with
  | nil => unfold Ckl.bindNamed; exact pure ha
  | cons n ns ih =>
    cases vs with
    | nil => unfold Ckl.bindNamed; exact pure ha
    | cons v vs =>
      unfold Ckl.bindNamed
      posok
      · exact ih _ _ hvs.tail (ha.put _ hvs.head)
      · exact ih _ _ hvs.tail ha

theorem bindPositional (sp : ArgSpec) {pos : Pos} (h : ∀ msg, E msg pos []) (ns : List (Option String)) (vs : List RVal)
    (kw : Bool) (args : List (String × RVal)) (rest : List RVal) (hvs : ValsOK P vs) (ha : DictOK P args)
    (hr : ValsOK P rest) : PosOK E P (bindPositional sp pos ns vs kw args rest) := by
  induction ns generalizing vs kw args rest with
  | nil => unfold Ckl.bindPositional; exact pure ⟨ha, hr⟩
  | cons n ns ih =>
    cases vs with
    | nil => unfold Ckl.bindPositional; exact pure ⟨ha, hr⟩
    | cons v vs =>
      unfold Ckl.bindPositional
      posok
      · exact ih _ _ _ _ hvs.tail ha (hr.append (ValsOK.cons hvs.head ValsOK.nil))
      · exact ih _ _ _ _ hvs.tail (ha.put _ hvs.head) hr
      · exact ih _ _ _ _ hvs.tail (ha.put _ hvs.head) hr

theorem setArgs (paramNames : List String) (names : List (Option String)) {values : List RVal} (hv : ValsOK P values)
    {pos : Pos} (h : ∀ msg, E msg pos []) : PosOK E P (setArgs paramNames names values pos) := by
  unfold Ckl.setArgs
  refine bind (bindNamed (addArgs paramNames) h names values [] hv DictOK.nil) (fun a1 ha1 => ?_)
  refine bind (bindPositional (addArgs paramNames) h names values false a1 [] hv ha1 ValsOK.nil) (fun r hr => ?_)
  posok

end PosOK
end

end Ckl
