/-
  C06Eval — `nativeSorted` (`FuncSorted.execute`: the insertion sort of functions.py run inside
  the evaluator, calling `key` and `cmp` back through `call1` / `call2`).
  The loop invariant of `sortedInner` / `sortedOuter` against `insR` / `sortedM`, generic in the
  `key` / `cmp` functions as long as they behave like a pure key `kf` and a pure comparison `LT`
  on the elements of the list; instances: `identity` / `length` and `compare`.
-/
import CklVerif.Lemmas.C06EvalFuel
import CklVerif.Lemmas.C03Env
namespace Ckl.C06E
open Ckl

/-! ### lists as arrays -/

section lists
variable {α : Type}

theorem getD_append_len (A : List α) (x : α) (T : List α) (d : α) :
    (A ++ x :: T).toArray.getD A.length d = x := by
  simp [Array.getD_eq_getD_getElem?]

theorem getD_append_len1 (A : List α) (x y : α) (T : List α) (d : α) :
    (A ++ x :: y :: T).toArray.getD (A.length + 1) d = y := by
  have : A ++ x :: y :: T = (A ++ [x]) ++ y :: T := by simp
  rw [this]
  have := getD_append_len (A ++ [x]) y T d
  simp

theorem set_append_len : ∀ (A : List α) (x z : α) (T : List α),
    (A ++ x :: T).set A.length z = A ++ z :: T
  | [], _, _, _ => rfl
  | a :: A, x, z, T => by simp [set_append_len A x z T]

theorem swap_append (A : List α) (a v : α) (T : List α) :
    (((A ++ a :: v :: T).toArray.setIfInBounds (A.length + 1) a).setIfInBounds A.length v) =
      (A ++ v :: a :: T).toArray := by
  simp only [List.setIfInBounds_toArray]
  congr 1
  have e1 : A ++ a :: v :: T = (A ++ [a]) ++ v :: T := by simp
  have e2 : (A ++ [a]).length = A.length + 1 := by simp
  rw [e1, ← e2, set_append_len (A ++ [a]) v a T]
  have e3 : A ++ [a] ++ a :: T = A ++ a :: a :: T := by simp
  rw [e3, set_append_len A a v (a :: T)]

/-- `insR` is determined by the split: every element behind the insertion point is greater, the
    one before (if any) is not -/
theorem insR_of_split (lt : α → α → Bool) (x : α) (A B : List α) (hB : ∀ b ∈ B, lt x b = true)
    (hA : A = [] ∨ ∃ A' a, A = A' ++ [a] ∧ lt x a = false) :
    insR lt x (A ++ B) = A ++ x :: B := by
  dsimp only [insR]
  have hB' : ∀ b ∈ B.reverse, (fun y => lt x y) b = true := fun b hb => hB b (List.mem_reverse.mp hb)
  rw [List.reverse_append, List.dropWhile_append_of_pos hB', List.takeWhile_append_of_pos hB']
  rcases hA with rfl | ⟨A', a, rfl, ha⟩
  · simp
  · simp [ha]

theorem insR_length (lt : α → α → Bool) (x : α) (acc : List α) :
    (insR lt x acc).length = acc.length + 1 := by
  have := (insR_perm lt x acc).length_eq
  simpa using this

theorem insR_map {β : Type} (lt : β → β → Bool) (g : α → β) (x : α) (acc : List α) :
    (insR (fun a b => lt (g a) (g b)) x acc).map g = insR lt (g x) (acc.map g) := by
  dsimp only [insR]
  rw [← List.map_reverse, List.dropWhile_map, List.takeWhile_map]
  simp only [List.map_append, List.map_cons, List.map_reverse]
  rfl

theorem foldl_insR_map {β : Type} (lt : β → β → Bool) (g : α → β) (xs acc : List α) :
    (xs.foldl (fun acc x => insR (fun a b => lt (g a) (g b)) x acc) acc).map g =
      (xs.map g).foldl (fun acc x => insR lt x acc) (acc.map g) := by
  induction xs generalizing acc with
  | nil => rfl
  | cons x xs ih => simp only [List.foldl_cons, List.map_cons, ih, insR_map]

/-- sorting by a key and projecting is sorting the keys -/
theorem sortedM_map {β : Type} (lt : β → β → Bool) (g : α → β) (xs : List α) :
    (sortedM lt g xs).map g = sortedM lt id (xs.map g) := by
  unfold sortedM
  exact foldl_insR_map lt g xs []

end lists

/-! ### the loops -/

section loops
variable (ld : Loader)

/-- what the loops need from `key` and `cmp` in a state `s` on the elements `S`: `key` behaves
    like the pure function `kf`, `cmp` on two keys answers an int whose sign is `LT`, neither
    changes the state -/
structure SortFns (cmp key : RVal) (senv : EnvId) (pos : Pos) (s : State) (S : RVal → Prop)
    (kf : RVal → RVal) (LT : RVal → RVal → Bool) : Prop where
  hkey : ∀ x, S x → ∀ f, call1 ld (f + 2) key x senv pos s = .ok (kf x) s
  hcmp : ∀ x y, S x → S y → ∀ f, ∃ n : Int,
    call2 ld (f + 2) cmp (kf x) (kf y) senv pos s = .ok (.int n) s ∧ decide (n < 0) = LT x y

variable {ld}
variable {cmp key : RVal} {senv : EnvId} {pos : Pos} {s : State} {S : RVal → Prop}
  {kf : RVal → RVal} {LT : RVal → RVal → Bool}

/-- the inner loop moves the element `e` (whose key is `v`) left past the greater elements:
    it computes `insR` -/
theorem sortedInner_spec (H : SortFns ld cmp key senv pos s S kf LT) (e : RVal) (he : S e) :
    ∀ (j fuel : Nat) (A B R : List RVal), A.length = j → j + 3 ≤ fuel → (∀ a ∈ A, S a) →
      (∀ b ∈ B, LT e b = true) →
      sortedInner ld fuel cmp key senv pos (A ++ e :: (B ++ R)).toArray (kf e) j s =
        .ok (insR LT e (A ++ B) ++ R).toArray s := by
  intro j
  induction j with
  | zero =>
    intro fuel A B R hA hf _ hB
    obtain ⟨f, rfl⟩ : ∃ f, fuel = f + 1 := ⟨fuel - 1, by omega⟩
    have : A = [] := List.length_eq_zero_iff.mp hA
    subst this
    rw [insR_of_split LT e [] B hB (Or.inl rfl)]
    simp only [Ckl.sortedInner, pure_apply, List.nil_append, List.cons_append]
  | succ j ih =>
    intro fuel A B R hA hf hSA hB
    obtain ⟨f, rfl⟩ : ∃ f, fuel = f + 3 := ⟨fuel - 3, by omega⟩
    obtain ⟨A', a, rfl⟩ : ∃ A' a, A = A' ++ [a] := by
      rcases List.eq_nil_or_concat A with h | ⟨A', a, h⟩
      · subst h; simp at hA
      · exact ⟨A', a, by simpa using h⟩
    have hA' : A'.length = j := by simpa using hA
    have ha : S a := hSA a (by simp)
    have harr : A' ++ [a] ++ e :: (B ++ R) = A' ++ a :: e :: (B ++ R) := by simp
    have hk := H.hkey a ha f
    obtain ⟨n, hc, hn⟩ := H.hcmp e a he ha f
    have g0 : (A' ++ a :: e :: (B ++ R)).toArray.getD j .null = a := by
      rw [← hA']; exact getD_append_len A' a _ _
    have g1 : (A' ++ a :: e :: (B ++ R)).toArray.getD (j + 1) .null = e := by
      rw [← hA']; exact getD_append_len1 A' a e _ _
    rw [harr]
    rw [show f + 3 = (f + 2) + 1 from rfl, Ckl.sortedInner]
    simp only [bind_apply, g0, g1, hk, hc, pure_apply, hn]
    cases hlt : LT e a
    · simp only [Bool.false_eq_true, if_false, pure_apply]
      have := insR_of_split LT e (A' ++ [a]) B hB (Or.inr ⟨A', a, rfl, hlt⟩)
      rw [this]
      simp
    · simp only [if_true]
      rw [← hA', swap_append A' a e (B ++ R)]
      have := ih (f + 2) A' (a :: B) R hA' (by omega)
        (fun x hx => hSA x (List.mem_append_left _ hx))
        (by intro b hb; rcases List.mem_cons.mp hb with rfl | hb
            · exact hlt
            · exact hB b hb)
      have e1 : A' ++ [a] ++ B = A' ++ a :: B := by simp
      rw [hA', e1]
      exact this

/-- the outer loop inserts the elements one after the other: it computes the `insR` fold -/
theorem sortedOuter_spec (H : SortFns ld cmp key senv pos s S kf LT) :
    ∀ (R P : List RVal) (fuel : Nat), P.length + 2 * R.length + 3 ≤ fuel → (∀ x ∈ P, S x) →
      (∀ x ∈ R, S x) →
      sortedOuter ld fuel cmp key senv pos (P ++ R).toArray P.length s =
        .ok (R.foldl (fun acc x => insR LT x acc) P).toArray s := by
  intro R
  induction R with
  | nil =>
    intro P fuel hf _ _
    obtain ⟨f, rfl⟩ : ∃ f, fuel = f + 1 := ⟨fuel - 1, by omega⟩
    rw [Ckl.sortedOuter]
    simp [pure_apply]
  | cons e R ih =>
    intro P fuel hf hP hR
    obtain ⟨f, rfl⟩ : ∃ f, fuel = f + 3 := ⟨fuel - 3, by omega⟩
    have he : S e := hR e (by simp)
    have hk := H.hkey e he f
    have g0 : (P ++ e :: R).toArray.getD P.length .null = e := getD_append_len P e R _
    have hin := sortedInner_spec H e he P.length (f + 2) P [] R rfl
      (by simp only [List.length_cons] at hf; omega) hP (by simp)
    simp only [List.nil_append, List.append_nil] at hin
    rw [show f + 3 = (f + 2) + 1 from rfl, Ckl.sortedOuter]
    have hlt : ¬ (P.length ≥ (P ++ e :: R).toArray.size) := by simp
    simp only [hlt, if_false, bind_apply, g0, hk, hin]
    have hlen := insR_length LT e P
    have hP' : ∀ x ∈ insR LT e P, S x := by
      intro x hx
      rcases List.mem_append.mp ((insR_perm LT e P).mem_iff.mp hx) with h | h
      · exact hP x h
      · simp at h; subst h; exact he
    have := ih (insR LT e P) (f + 2) (by simp only [List.length_cons] at hf; omega) hP'
      (fun x hx => hR x (List.mem_cons_of_mem _ hx))
    rw [hlen] at this
    rw [this]
    rfl

end loops

/-! ### `key` / `cmp` instances -/

section fns
variable (ld : Loader)

theorem call1_identity (f : Nat) (j : Nat) (x : RVal) (senv : EnvId) (pos : Pos) (s : State) :
    call1 ld (f + 2) (.native "identity" j) x senv pos s = .ok x s := by
  simp [Ckl.call1, Ckl.callFn, fnParams, nativeArgNames, bind_apply, getS, callPure, argGet,
    dictGet, pure_apply]

/-- the answer of the native `length` (on strings and cells) -/
def lenR (s : State) : RVal → RVal
  | .str t => .int t.length
  | .ref a => match s.cell a with
    | some (.list xs) => .int xs.length
    | some (.set xs) => .int xs.length
    | some (.map xs) => .int xs.length
    | some (.obj xs _) => .int xs.length
    | _ => .null
  | _ => .null

/-- `length` is defined on it: a string or a list / set / map / object cell -/
def HasLen (s : State) : RVal → Prop
  | .str _ => True
  | .ref a => match s.cell a with
    | some (.list _) | some (.set _) | some (.map _) | some (.obj _ _) => True
    | _ => False
  | _ => False

theorem call1_length (f : Nat) (j : Nat) (x : RVal) (senv : EnvId) (pos : Pos) (s : State)
    (hx : HasLen s x) :
    call1 ld (f + 2) (.native "length" j) x senv pos s = .ok (lenR s x) s := by
  cases x with
  | str t =>
    simp [Ckl.call1, Ckl.callFn, fnParams, nativeArgNames, bind_apply, getS, callPure, argGet,
      dictGet, pure_apply, lenR]
  | ref a =>
    simp only [HasLen] at hx
    cases hc : s.cell a with
    | none => rw [hc] at hx; exact hx.elim
    | some c =>
      rw [hc] at hx
      cases c <;> first
        | exact hx.elim
        | simp [Ckl.call1, Ckl.callFn, fnParams, nativeArgNames, bind_apply, getS, callPure,
            argGet, dictGet, pure_apply, lenR, cellOf, hc]
  | _ => exact hx.elim

theorem call2_compare (f : Nat) (i : Nat) (x y : RVal) (senv : EnvId) (pos : Pos) (s : State)
    {vx vy : Val} (hx : reify s x = some vx) (hy : reify s y = some vy) :
    ∃ n : Int, call2 ld (f + 2) (.native "compare" i) x y senv pos s = .ok (.int n) s ∧
      decide (n < 0) = vlt vx vy := by
  have e : call2 ld (f + 2) (.native "compare" i) x y senv pos s =
      (do if ← cmpLt x y then pure (RVal.int (-1)) else if ← cmpGt x y then pure (.int 1)
          else pure (.int 0) : EvalM RVal) s := by
    simp [Ckl.call2, Ckl.callFn, fnParams, nativeArgNames, bind_apply, getS, callPure, argGet,
      dictGet, dictPut, pure_apply]
  rw [e]
  simp only [bind_apply, cmpLt_ok hx hy]
  cases h : vlt vx vy
  · simp only [Bool.false_eq_true, if_false, bind_apply, cmpGt, getS, cmpLt_ok hx hy, pure_apply]
    split <;> exact ⟨_, rfl, by decide⟩
  · exact ⟨-1, rfl, by decide⟩

/-- the total reification (NULL where the value does not reify): the sort key -/
def gR (s : State) (x : RVal) : Val := (reify s x).getD .null

theorem gR_of_reify {s : State} {x : RVal} {v : Val} (h : reify s x = some v) : gR s x = v := by
  simp [gR, h]

/-- defaults: `key = identity`, `cmp = compare` -/
theorem sortFns_identity_compare (i j : Nat) (senv : EnvId) (pos : Pos) (s : State)
    {S : RVal → Prop} (hS : ∀ x, S x → ∃ v, reify s x = some v) :
    SortFns ld (.native "compare" i) (.native "identity" j) senv pos s S id
      (fun x y => vlt (gR s x) (gR s y)) where
  hkey x _ f := call1_identity ld f j x senv pos s
  hcmp x y hx hy f := by
    obtain ⟨vx, hvx⟩ := hS x hx
    obtain ⟨vy, hvy⟩ := hS y hy
    obtain ⟨n, h1, h2⟩ := call2_compare ld f i x y senv pos s hvx hvy
    exact ⟨n, h1, by rw [gR_of_reify hvx, gR_of_reify hvy]; exact h2⟩

theorem reify_lenR (s : State) (x : RVal) (hx : HasLen s x) :
    ∃ n : Int, lenR s x = .int n ∧ reify s (lenR s x) = some (.int n) := by
  cases x with
  | str t => exact ⟨_, rfl, rfl⟩
  | ref a =>
    simp only [HasLen] at hx
    simp only [lenR]
    cases hc : s.cell a with
    | none => rw [hc] at hx; exact hx.elim
    | some c =>
      rw [hc] at hx
      cases c <;> first | exact hx.elim | exact ⟨_, rfl, rfl⟩
  | _ => exact hx.elim

/-- `key = length`, `cmp = compare` -/
theorem sortFns_length_compare (i j : Nat) (senv : EnvId) (pos : Pos) (s : State) :
    SortFns ld (.native "compare" i) (.native "length" j) senv pos s (HasLen s) (lenR s)
      (fun x y => vlt (gR s (lenR s x)) (gR s (lenR s y))) where
  hkey x hx f := call1_length ld f j x senv pos s hx
  hcmp x y hx hy f := by
    obtain ⟨nx, _, hvx⟩ := reify_lenR s x hx
    obtain ⟨ny, _, hvy⟩ := reify_lenR s y hy
    obtain ⟨n, h1, h2⟩ := call2_compare ld f i _ _ senv pos s hvx hvy
    exact ⟨n, h1, by rw [gR_of_reify hvx, gR_of_reify hvy]; exact h2⟩

end fns

/-! ### `nativeSorted` -/

theorem lookupF_newEnv (s : State) (p : EnvId) (name : String) : ∀ (n e : Nat) (v : RVal),
    s.lookupF n e name = some v → ∀ m, n ≤ m → (s.newEnv p).1.lookupF m e name = some v := by
  intro n
  induction n with
  | zero => intro e v h; simp [State.lookupF] at h
  | succ n ih =>
    intro e v h m hm
    obtain ⟨m', rfl⟩ : ∃ m', m = m' + 1 := ⟨m - 1, by omega⟩
    have hfr : (s.newEnv p).1.frame e = s.frame e := by
      rcases Nat.lt_or_ge e s.frames.size with h1 | h1
      · exact C03.newEnv_frame_old s p h1
      · exfalso
        rw [State.lookupF, C03.frame_of_ge s h1] at h
        simp [dictGet] at h
    rw [State.lookupF] at h ⊢
    rw [hfr]
    cases hd : dictGet name (s.frame e).vars with
    | some w => rw [hd] at h; simpa using h
    | none =>
      rw [hd] at h
      simp only at h ⊢
      cases hp : (s.frame e).parent with
      | none => rw [hp] at h; cases h
      | some q => rw [hp] at h; simp only at h ⊢; exact ih q v h m' (by omega)

/-- a binding visible from `e` stays visible after `newEnv` -/
theorem lookup_newEnv {s : State} {e : EnvId} {name : String} {v : RVal}
    (h : s.lookup e name = some v) (p : EnvId) : (s.newEnv p).1.lookup e name = some v :=
  lookupF_newEnv s p name _ e v h _ (by rw [C03.newEnv_frames_size]; omega)

theorem lookupF_alloc (s : State) (c : Cell) (name : String) : ∀ (n e : Nat),
    (s.alloc c).1.lookupF n e name = s.lookupF n e name := by
  intro n
  induction n with
  | zero => intro e; rfl
  | succ n ih =>
    intro e
    rw [State.lookupF, State.lookupF]
    have : (s.alloc c).1.frame e = s.frame e := rfl
    rw [this]
    cases dictGet name (s.frame e).vars with
    | some w => rfl
    | none =>
      cases (s.frame e).parent with
      | none => rfl
      | some q => exact ih q

theorem lookup_alloc (s : State) (c : Cell) (e : EnvId) (name : String) :
    (s.alloc c).1.lookup e name = s.lookup e name := lookupF_alloc s c name _ e

section top
variable (ld : Loader)

/-- **`sorted(lst)`** on a list cell, `cmp` / `key` not given (looked up as `compare` /
    `identity` in the calling environment), generic in what these two are bound to -/
theorem nativeSorted_list_default {fuel : Nat} {s : State} {env : EnvId} {pos : Pos} {c : Nat}
    {xs : List RVal} {cmp key : RVal} {kf : RVal → RVal} {LT : RVal → RVal → Bool}
    {S : RVal → Prop}
    (hc : s.cell c = some (.list xs)) (hcmp : s.lookup env "compare" = some cmp)
    (hkey : s.lookup env "identity" = some key)
    (H : SortFns ld cmp key (s.newEnv env).2 pos (s.newEnv env).1 S kf LT) (hS : ∀ x ∈ xs, S x)
    (hf : 2 * xs.length + 4 ≤ fuel) :
    nativeSorted ld fuel [("lst", .ref c)] env pos s =
      .ok (.ref s.heap.size)
        ((s.newEnv env).1.alloc (.list (xs.foldl (fun acc x => insR LT x acc) []))).1 := by
  obtain ⟨f, rfl⟩ : ∃ f, fuel = f + 1 := ⟨fuel - 1, by omega⟩
  have hc' : (s.newEnv env).1.cell c = some (.list xs) := hc
  have ho := sortedOuter_spec H xs [] f (by simp only [List.length_nil]; omega) (by simp) hS
  simp only [List.nil_append, List.length_nil] at ho
  simp [Ckl.nativeSorted, bind_apply, getS, setS, argGet, dictGet, asListArg, cellOf, listItems,
    dictHas, pure_apply, hc', lookup_newEnv hcmp env, lookup_newEnv hkey env, ho]
  rfl

/-- **`sorted(lst, key = k)`** on a list cell -/
theorem nativeSorted_list_key {fuel : Nat} {s : State} {env : EnvId} {pos : Pos} {c : Nat}
    {xs : List RVal} {cmp key : RVal} {kf : RVal → RVal} {LT : RVal → RVal → Bool}
    {S : RVal → Prop}
    (hc : s.cell c = some (.list xs)) (hcmp : s.lookup env "compare" = some cmp)
    (hkey : key.isFunc = true)
    (H : SortFns ld cmp key (s.newEnv env).2 pos (s.newEnv env).1 S kf LT) (hS : ∀ x ∈ xs, S x)
    (hf : 2 * xs.length + 4 ≤ fuel) :
    nativeSorted ld fuel [("lst", .ref c), ("key", key)] env pos s =
      .ok (.ref s.heap.size)
        ((s.newEnv env).1.alloc (.list (xs.foldl (fun acc x => insR LT x acc) []))).1 := by
  obtain ⟨f, rfl⟩ : ∃ f, fuel = f + 1 := ⟨fuel - 1, by omega⟩
  have hc' : (s.newEnv env).1.cell c = some (.list xs) := hc
  have ho := sortedOuter_spec H xs [] f (by simp only [List.length_nil]; omega) (by simp) hS
  simp only [List.nil_append, List.length_nil] at ho
  simp [Ckl.nativeSorted, bind_apply, getS, setS, argGet, dictGet, asListArg, cellOf, listItems,
    dictHas, pure_apply, hc', lookup_newEnv hcmp env, hkey, ho]
  rfl

/-- **`sorted(set)`**, `cmp` / `key` not given: the set is first enumerated (`sortedR`) into a
    fresh list cell, which is then sorted into a second fresh list cell -/
theorem nativeSorted_set_default {fuel : Nat} {s : State} {env : EnvId} {pos : Pos} {c : Nat}
    {xs ys : List RVal} {cmp key : RVal} {kf : RVal → RVal} {LT : RVal → RVal → Bool}
    {S : RVal → Prop}
    (hc : s.cell c = some (.set xs)) (hys : sortedR s xs = some ys)
    (hcmp : s.lookup env "compare" = some cmp) (hkey : s.lookup env "identity" = some key)
    (H : SortFns ld cmp key (s.newEnv env).2 pos ((s.newEnv env).1.alloc (.list ys)).1 S kf LT)
    (hS : ∀ x ∈ ys, S x) (hf : 2 * ys.length + 4 ≤ fuel) :
    nativeSorted ld fuel [("lst", .ref c)] env pos s =
      .ok (.ref (s.heap.size + 1))
        (((s.newEnv env).1.alloc (.list ys)).1.alloc
          (.list (ys.foldl (fun acc x => insR LT x acc) []))).1 := by
  obtain ⟨f, rfl⟩ : ∃ f, fuel = f + 1 := ⟨fuel - 1, by omega⟩
  have hc' : (s.newEnv env).1.cell c = some (.set xs) := hc
  have hys' : sortedR (s.newEnv env).1 xs = some ys := hys
  have hnew : ((s.newEnv env).1.alloc (.list ys)).1.cell ((s.newEnv env).1.alloc (.list ys)).2 =
      some (.list ys) := alloc_cell_new _ _
  have ho := sortedOuter_spec H ys [] f (by simp only [List.length_nil]; omega) (by simp) hS
  simp only [List.nil_append, List.length_nil] at ho
  have l1 := lookup_newEnv hcmp env
  have l2 := lookup_newEnv hkey env
  rw [← lookup_alloc _ (.list ys)] at l1 l2
  simp [Ckl.nativeSorted, bind_apply, getS, setS, argGet, dictGet, asListArg, cellOf, listItems,
    dictHas, pure_apply, hc', collAsList, hys', newList, allocM, hnew, l1, l2, ho]
  simp [State.alloc, State.newEnv]

end top

end Ckl.C06E
