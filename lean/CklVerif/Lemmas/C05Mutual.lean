/-
  C05 — the simultaneous induction on the fuel over all functions of the evaluator.
-/
import CklVerif.Lemmas.C05Natives
namespace Ckl.C05
open Ckl

/-- hypothesis on the interpretation of the unmodelled natives: whenever one returns a value,
    a runtime error, or fails with a host exception / syntax error (both are turned into
    runtime errors by `invoke`), it leaves the block counters balanced -/
def NativeBalanced (ld : Loader) : Prop :=
  ∀ name args s, Post s (ld.nativeSem name args s)

theorem Tr.of_post {α} {m : EvalM α} (h : ∀ s, Post s (m s)) (s0 : State) : Tr s0 m := by
  refine ⟨fun s hs => ?_⟩
  have := h s
  cases hr : m s with
  | ok a s' => rw [hr] at this; exact hs.trans this
  | err v msg p t s' => rw [hr] at this; exact hs.trans this
  | fail k s' => rw [hr] at this; exact fun hk => hs.trans (this hk)

theorem Tr.setS_newEnv_fst {s0 s : State} {e : EnvId} (hs : Balanced s0 s) :
    Tr s0 (Ckl.setS (s.newEnv e).fst) := Tr.setS (hs.geq (geq_newEnv s e))
macro_rules | `(tactic| tr_lemma) => `(tactic| exact Tr.setS_newEnv_fst (by assumption))

theorem Tr.failM {α} {s0 : State} (f : Fail) : Tr s0 (Ckl.failM f : EvalM α) := ⟨fun _ h _ => h⟩
macro_rules | `(tactic| tr_lemma) => `(tactic| exact Tr.failM _)
macro_rules | `(tactic| tr_lemma) => `(tactic| exact Tr.callPure _ _ _ _ _ (by assumption))

/-- the containment boundary of `invoke`: hard failures of the callee become runtime errors;
    they carry a balanced state -/
theorem Tr.invokeTail {s0 : State} {m : EvalM RVal} (hm : Tr s0 m) (g : State → String) (pos : Pos) :
    Tr s0 (fun s1 =>
      match m s1 with
      | .err v msg p t s2 => .err v msg p (t ++ [(g s2, pos)]) s2
      | .fail (.syn e) s2 => .err (.str "ERROR".toList) e.msg pos [] s2
      | .fail (.host k) s2 => .err (.str "ERROR".toList) (g s2 ++ " failed: " ++ k) pos [] s2
      | other => other) := by
  refine ⟨fun s1 hs1 => ?_⟩
  have h := hm.run s1 hs1
  revert h
  cases m s1 with
  | ok a s2 => exact id
  | err v msg p t s2 => exact id
  | fail f s2 => cases f <;> intro h <;> first | exact h | exact h trivial

/-- a state change that keeps the counters, applied to every outcome -/
theorem Tr.wrapState {α} {s0 : State} {m : EvalM α} (hm : Tr s0 m) (g : State → State)
    (hg : ∀ s, GEq s (g s)) :
    Tr s0 (fun s1 =>
      match m s1 with
      | .ok e s2 => .ok e (g s2)
      | .err v msg p t s2 => .err v msg p t (g s2)
      | .fail f s2 => .fail f (g s2)) := by
  refine ⟨fun s1 hs1 => ?_⟩
  have h := hm.run s1 hs1
  revert h
  cases m s1 with
  | ok a s2 => exact fun h => h.geq (hg s2)
  | err v msg p t s2 => exact fun h => h.geq (hg s2)
  | fail f s2 => exact fun h hf => (h hf).geq (hg s2)

/-- `for`: on an error the loop variables are removed -/
theorem Tr.wrapErr {α} {s0 : State} {m : EvalM α} (hm : Tr s0 m) (g : State → State)
    (hg : ∀ s, GEq s (g s)) :
    Tr s0 (fun s1 =>
      match m s1 with
      | .err v msg p t s2 => .err v msg p t (g s2)
      | other => other) := by
  refine ⟨fun s1 hs1 => ?_⟩
  have h := hm.run s1 hs1
  revert h
  cases m s1 with
  | ok a s2 => exact id
  | err v msg p t s2 => exact fun h => h.geq (hg s2)
  | fail f s2 => exact id

theorem popWrap {s0 : State} {m : EvalM EnvId} (hm : Tr s0 m) :
    Tr s0 (fun s1 =>
      match m s1 with
      | .ok e s2 => .ok e { s2 with modstack := s2.modstack.dropLast }
      | .err v msg p t s2 => .err v msg p t { s2 with modstack := s2.modstack.dropLast }
      | .fail f s2 => .fail f { s2 with modstack := s2.modstack.dropLast }) := by
  refine ⟨fun s1 hs1 => ?_⟩
  have h := hm.run s1 hs1
  revert h
  cases m s1 with
  | ok a s2 => exact fun h => h.geq ⟨rfl, rfl⟩
  | err v msg p t s2 => exact fun h => h.geq ⟨rfl, rfl⟩
  | fail f s2 => exact fun h hf => (h hf).geq ⟨rfl, rfl⟩

section
variable (ld : Loader)

/-- the statement proved by induction on `fuel`, one field per function of the mutual block -/
structure AllBal (fuel : Nat) : Prop where
  eval : ∀ s0 env n, Tr s0 (eval ld fuel env n)
  evalAnd : ∀ s0 env es pos, Tr s0 (evalAnd ld fuel env es pos)
  evalOr : ∀ s0 env es pos, Tr s0 (evalOr ld fuel env es pos)
  evalIf : ∀ s0 env cs xs els pos, Tr s0 (evalIf ld fuel env cs xs els pos)
  evalSeq : ∀ s0 env ns, Tr s0 (evalSeq ld fuel env ns)
  evalItems : ∀ s0 env ns pos, Tr s0 (evalItems ld fuel env ns pos)
  evalPairs : ∀ s0 env ks vs, Tr s0 (evalPairs ld fuel env ks vs)
  evalBody : ∀ s0 env ns last, Tr s0 (evalBody ld fuel env ns last)
  evalFinally : ∀ s0 env ns, Tr s0 (evalFinally ld fuel env ns)
  tryHandlers : ∀ s0 env cs hs v msg p t, Tr s0 (tryHandlers ld fuel env cs hs v msg p t)
  invoke : ∀ s0 fn pre names args env pos, Tr s0 (invoke ld fuel fn pre names args env pos)
  evalArgs : ∀ s0 env names args pos, Tr s0 (evalArgs ld fuel env names args pos)
  callFn : ∀ s0 fn bound env pos, Tr s0 (callFn ld fuel fn bound env pos)
  bindParams : ∀ s0 lenv ps ds bound pos, Tr s0 (bindParams ld fuel lenv ps ds bound pos)
  evalFor : ∀ s0 env ids e body what pos, Tr s0 (evalFor ld fuel env ids e body what pos)
  forItems : ∀ s0 env ids xs body r pos, Tr s0 (forItems ld fuel env ids xs body r pos)
  forListLive : ∀ s0 env ids a i body r pos, Tr s0 (forListLive ld fuel env ids a i body r pos)
  forString : ∀ s0 env x cs body r, Tr s0 (forString ld fuel env x cs body r)
  whileLoop : ∀ s0 env c body pos, Tr s0 (whileLoop ld fuel env c body pos)
  comprStep : ∀ s0 lenv kind ve ke cond pos, Tr s0 (comprStep ld fuel lenv kind ve ke cond pos)
  comprLoop : ∀ s0 lenv kind ve ke cond pos l acc, Tr s0 (comprLoop ld fuel lenv kind ve ke cond pos l acc)
  comprProduct : ∀ s0 lenv kind ve ke cond pos x1 vs x2 ws acc,
    Tr s0 (comprProduct ld fuel lenv kind ve ke cond pos x1 vs x2 ws acc)
  comprParallel : ∀ s0 lenv kind ve ke cond pos x1 vs x2 ws acc,
    Tr s0 (comprParallel ld fuel lenv kind ve ke cond pos x1 vs x2 ws acc)
  nativeSorted : ∀ s0 bound env pos, Tr s0 (nativeSorted ld fuel bound env pos)
  sortedOuter : ∀ s0 cmp key senv pos arr i, Tr s0 (sortedOuter ld fuel cmp key senv pos arr i)
  sortedInner : ∀ s0 cmp key senv pos arr v j, Tr s0 (sortedInner ld fuel cmp key senv pos arr v j)
  call1 : ∀ s0 f x env pos, Tr s0 (call1 ld fuel f x env pos)
  call2 : ∀ s0 f x y env pos, Tr s0 (call2 ld fuel f x y env pos)
  evalRequire : ∀ s0 env spec name unq syms pos, Tr s0 (evalRequire ld fuel env spec name unq syms pos)
  loadModule : ∀ s0 env ident file pos, Tr s0 (loadModule ld fuel env ident file pos)

theorem allBal_zero : AllBal ld 0 := by
  constructor <;> intros <;> (first
    | (simp only [eval, evalAnd, evalOr, evalIf, evalSeq, evalItems, evalPairs, evalBody, evalFinally,
        tryHandlers, invoke, evalArgs, callFn, bindParams, evalFor, forItems, forListLive, forString,
        whileLoop, comprStep, comprLoop, comprProduct, comprParallel, nativeSorted, sortedOuter,
        sortedInner, call1, call2, evalRequire, loadModule]; exact Tr.oof))

variable {ld} {fuel : Nat}

theorem step_evalAnd (ih : AllBal ld fuel) : ∀ s0 env es pos, Tr s0 (evalAnd ld (fuel+1) env es pos) := by
  have ihEval := ih.eval; have ihAnd := ih.evalAnd
  intro s0 env es pos
  cases es <;> simp only [Ckl.evalAnd] <;> tr_auto

theorem step_evalOr (ih : AllBal ld fuel) : ∀ s0 env es pos, Tr s0 (evalOr ld (fuel+1) env es pos) := by
  have ihEval := ih.eval; have ihOr := ih.evalOr
  intro s0 env es pos
  cases es <;> simp only [Ckl.evalOr] <;> tr_auto

theorem step_evalIf (ih : AllBal ld fuel) :
    ∀ s0 env cs xs els pos, Tr s0 (evalIf ld (fuel+1) env cs xs els pos) := by
  have ihEval := ih.eval; have ihIf := ih.evalIf
  intro s0 env cs xs els pos
  cases cs <;> cases xs <;> simp only [Ckl.evalIf] <;> tr_auto

theorem step_evalSeq (ih : AllBal ld fuel) : ∀ s0 env ns, Tr s0 (evalSeq ld (fuel+1) env ns) := by
  have ihEval := ih.eval; have ihSeq := ih.evalSeq
  intro s0 env ns
  cases ns <;> simp only [Ckl.evalSeq] <;> tr_auto

theorem step_evalItems (ih : AllBal ld fuel) : ∀ s0 env ns pos, Tr s0 (evalItems ld (fuel+1) env ns pos) := by
  have ihEval := ih.eval; have ihItems := ih.evalItems
  intro s0 env ns pos
  cases ns with
  | nil => simp only [Ckl.evalItems]; tr_auto
  | cons n ns => cases n <;> simp only [Ckl.evalItems] <;> tr_auto

theorem step_evalPairs (ih : AllBal ld fuel) : ∀ s0 env ks vs, Tr s0 (evalPairs ld (fuel+1) env ks vs) := by
  have ihEval := ih.eval; have ihPairs := ih.evalPairs
  intro s0 env ks vs
  cases ks <;> cases vs <;> simp only [Ckl.evalPairs] <;> tr_auto

theorem step_evalBody (ih : AllBal ld fuel) : ∀ s0 env ns last, Tr s0 (evalBody ld (fuel+1) env ns last) := by
  have ihEval := ih.eval; have ihBody := ih.evalBody
  intro s0 env ns last
  cases ns <;> simp only [Ckl.evalBody] <;> tr_auto

theorem step_evalFinally (ih : AllBal ld fuel) : ∀ s0 env ns, Tr s0 (evalFinally ld (fuel+1) env ns) := by
  have ihEval := ih.eval; have ihFin := ih.evalFinally
  intro s0 env ns
  cases ns <;> simp only [Ckl.evalFinally] <;> tr_auto

theorem step_tryHandlers (ih : AllBal ld fuel) :
    ∀ s0 env cs hs v msg p t, Tr s0 (tryHandlers ld (fuel+1) env cs hs v msg p t) := by
  have ihEval := ih.eval; have ihTry := ih.tryHandlers
  intro s0 env cs hs v msg p t
  cases cs with
  | nil => simp only [Ckl.tryHandlers]; exact ⟨fun _ h => h⟩
  | cons c cs =>
    cases hs with
    | nil => simp only [Ckl.tryHandlers]; exact ⟨fun _ h => h⟩
    | cons h hs => cases c <;> simp only [Ckl.tryHandlers] <;> tr_auto

theorem step_evalArgs (ih : AllBal ld fuel) :
    ∀ s0 env names args pos, Tr s0 (evalArgs ld (fuel+1) env names args pos) := by
  have ihEval := ih.eval; have ihArgs := ih.evalArgs
  intro s0 env names args pos
  cases names with
  | nil => simp only [Ckl.evalArgs]; tr_auto
  | cons n ns =>
    cases args with
    | nil => simp only [Ckl.evalArgs]; tr_auto
    | cons a as => cases a <;> simp only [Ckl.evalArgs] <;> tr_auto

theorem step_bindParams (ih : AllBal ld fuel) :
    ∀ s0 lenv ps ds bound pos, Tr s0 (bindParams ld (fuel+1) lenv ps ds bound pos) := by
  have ihEval := ih.eval; have ihBP := ih.bindParams
  intro s0 lenv ps ds bound pos
  cases ps with
  | nil => simp only [Ckl.bindParams]; tr_auto
  | cons p ps =>
    cases ds with
    | nil => simp only [Ckl.bindParams]; tr_auto
    | cons d ds =>
      by_cases hd : d = Node.absent
      · subst hd; simp only [Ckl.bindParams]; tr_auto
      · simp only [Ckl.bindParams]; tr_auto

theorem step_evalFor (ih : AllBal ld fuel) :
    ∀ s0 env ids e body what pos, Tr s0 (evalFor ld (fuel+1) env ids e body what pos) := by
  have ihEval := ih.eval; have ih1 := ih.forItems; have ih2 := ih.forListLive; have ih3 := ih.forString
  intro s0 env ids e body what pos
  simp only [Ckl.evalFor]; tr_auto

theorem step_forItems (ih : AllBal ld fuel) :
    ∀ s0 env ids xs body r pos, Tr s0 (forItems ld (fuel+1) env ids xs body r pos) := by
  have ihEval := ih.eval; have ih1 := ih.forItems
  intro s0 env ids xs body r pos
  cases xs <;> simp only [Ckl.forItems] <;> tr_auto

theorem step_forListLive (ih : AllBal ld fuel) :
    ∀ s0 env ids a i body r pos, Tr s0 (forListLive ld (fuel+1) env ids a i body r pos) := by
  have ihEval := ih.eval; have ih1 := ih.forListLive
  intro s0 env ids a i body r pos
  simp only [Ckl.forListLive]; tr_auto

theorem step_forString (ih : AllBal ld fuel) :
    ∀ s0 env x cs body r, Tr s0 (forString ld (fuel+1) env x cs body r) := by
  have ihEval := ih.eval; have ih1 := ih.forString
  intro s0 env x cs body r
  cases cs <;> simp only [Ckl.forString] <;> tr_auto

theorem step_whileLoop (ih : AllBal ld fuel) :
    ∀ s0 env c body pos, Tr s0 (whileLoop ld (fuel+1) env c body pos) := by
  have ihEval := ih.eval; have ih1 := ih.whileLoop
  intro s0 env c body pos
  simp only [Ckl.whileLoop]; tr_auto

theorem step_comprStep (ih : AllBal ld fuel) :
    ∀ s0 lenv kind ve ke cond pos, Tr s0 (comprStep ld (fuel+1) lenv kind ve ke cond pos) := by
  have ihEval := ih.eval
  intro s0 lenv kind ve ke cond pos
  by_cases hd : cond = Node.absent
  · subst hd; cases kind <;> simp only [Ckl.comprStep] <;> tr_auto
  · cases kind <;> simp only [Ckl.comprStep] <;> tr_auto

theorem step_comprLoop (ih : AllBal ld fuel) :
    ∀ s0 lenv kind ve ke cond pos l acc, Tr s0 (comprLoop ld (fuel+1) lenv kind ve ke cond pos l acc) := by
  have ih1 := ih.comprStep; have ih2 := ih.comprLoop
  intro s0 lenv kind ve ke cond pos l acc
  match l with
  | [] => simp only [Ckl.comprLoop]; tr_auto
  | [(x, [])] => simp only [Ckl.comprLoop]; tr_auto
  | [(x, v :: vs)] => simp only [Ckl.comprLoop]; tr_auto
  | _ :: _ :: _ => simp only [Ckl.comprLoop]; tr_auto

theorem step_comprProduct (ih : AllBal ld fuel) :
    ∀ s0 lenv kind ve ke cond pos x1 vs x2 ws acc,
      Tr s0 (comprProduct ld (fuel+1) lenv kind ve ke cond pos x1 vs x2 ws acc) := by
  have ih1 := ih.comprLoop; have ih2 := ih.comprProduct
  intro s0 lenv kind ve ke cond pos x1 vs x2 ws acc
  cases vs <;> simp only [Ckl.comprProduct] <;> tr_auto

theorem step_comprParallel (ih : AllBal ld fuel) :
    ∀ s0 lenv kind ve ke cond pos x1 vs x2 ws acc,
      Tr s0 (comprParallel ld (fuel+1) lenv kind ve ke cond pos x1 vs x2 ws acc) := by
  have ih1 := ih.comprStep; have ih2 := ih.comprParallel
  intro s0 lenv kind ve ke cond pos x1 vs x2 ws acc
  cases vs <;> cases ws <;> simp only [Ckl.comprParallel] <;> tr_auto

theorem step_nativeSorted (ih : AllBal ld fuel) :
    ∀ s0 bound env pos, Tr s0 (nativeSorted ld (fuel+1) bound env pos) := by
  have ih1 := ih.sortedOuter
  intro s0 bound env pos
  simp only [Ckl.nativeSorted]; tr_auto

theorem step_sortedOuter (ih : AllBal ld fuel) :
    ∀ s0 cmp key senv pos arr i, Tr s0 (sortedOuter ld (fuel+1) cmp key senv pos arr i) := by
  have ih1 := ih.sortedOuter; have ih2 := ih.sortedInner; have ih3 := ih.call1
  intro s0 cmp key senv pos arr i
  simp only [Ckl.sortedOuter]; tr_auto

theorem step_sortedInner (ih : AllBal ld fuel) :
    ∀ s0 cmp key senv pos arr v j, Tr s0 (sortedInner ld (fuel+1) cmp key senv pos arr v j) := by
  have ih2 := ih.sortedInner; have ih3 := ih.call1; have ih4 := ih.call2
  intro s0 cmp key senv pos arr v j
  cases j <;> simp only [Ckl.sortedInner] <;> tr_auto

theorem step_call1 (ih : AllBal ld fuel) : ∀ s0 f x env pos, Tr s0 (call1 ld (fuel+1) f x env pos) := by
  have ih1 := ih.callFn
  intro s0 f x env pos
  simp only [Ckl.call1]; tr_auto

theorem step_call2 (ih : AllBal ld fuel) : ∀ s0 f x y env pos, Tr s0 (call2 ld (fuel+1) f x y env pos) := by
  have ih1 := ih.callFn
  intro s0 f x y env pos
  simp only [Ckl.call2]; tr_auto

theorem step_invoke (ih : AllBal ld fuel) :
    ∀ s0 fn pre names args env pos, Tr s0 (invoke ld (fuel+1) fn pre names args env pos) := by
  have ih1 := ih.evalArgs; have ih2 := ih.callFn
  intro s0 fn pre names args env pos
  simp only [Ckl.invoke]
  tr_auto
  all_goals exact Tr.invokeTail (ih2 _ _ _ _ _) _ _

theorem step_callFn (hN : ∀ s0 name args, Tr s0 (ld.nativeSem name args)) (ih : AllBal ld fuel) :
    ∀ s0 fn bound env pos, Tr s0 (callFn ld (fuel+1) fn bound env pos) := by
  have ih1 := ih.eval; have ih2 := ih.bindParams; have ih3 := ih.nativeSorted
  intro s0 fn bound env pos
  cases fn <;> simp only [Ckl.callFn] <;> tr_auto

theorem step_loadModule (ih : AllBal ld fuel) :
    ∀ s0 env ident file pos, Tr s0 (loadModule ld (fuel+1) env ident file pos) := by
  have ih1 := ih.eval
  intro s0 env ident file pos
  simp only [Ckl.loadModule]; tr_auto

theorem step_evalRequire (ih : AllBal ld fuel) :
    ∀ s0 env spec name unq syms pos, Tr s0 (evalRequire ld (fuel+1) env spec name unq syms pos) := by
  have ih1 := ih.eval; have ih2 := ih.loadModule
  intro s0 env spec name unq syms pos
  by_cases h : ∃ n p, spec = Node.ident n p
  · obtain ⟨n, p, rfl⟩ := h
    simp only [Ckl.evalRequire]; tr_auto
    all_goals exact popWrap (ih2 _ _ _ _ _)
  · have h' : ∀ n p, spec = Node.ident n p → False := fun n p e => h ⟨n, p, e⟩
    simp only [Ckl.evalRequire]; tr_auto
    all_goals exact popWrap (ih2 _ _ _ _ _)

end
end Ckl.C05
