/-
  C19 — integer functions: `pow`, `gcd`, `lcm`, `abs`, `sign`, `div`, `mod`, `is_even`, `is_odd`.
-/
import CklVerif.Model.Lib
namespace Ckl.C19
open Ckl Ckl.Lib

theorem absM_eq_natAbs (a : Int) : absM a = (a.natAbs : Int) := by
  unfold absM; split <;> omega

theorem absM_nonneg (a : Int) : 0 ≤ absM a := by
  rw [absM_eq_natAbs]; omega

theorem signM_eq_sign (a : Int) : signM a = Int.sign a := by
  unfold signM
  rcases Int.lt_trichotomy a 0 with h | h | h
  · simp [h, Int.sign_eq_neg_one_of_neg h]
  · subst h; simp
  · have h' : ¬ a < 0 := by omega
    simp [h', h, Int.sign_eq_one_of_pos h]

/-! ### gcd -/

theorem gcd_fmod_step (a b : Int) : Int.gcd b (Int.fmod a b) = Int.gcd a b := by
  rw [Int.fmod_def, Int.gcd_sub_mul_left_right, Int.gcd_comm]

theorem gcdM_eq_gcd (a b : Int) : gcdM a b = (Int.gcd a b : Int) := by
  fun_induction gcdM a b with
  | case1 a => simp [absM_eq_natAbs]
  | case2 a b h ih => rw [ih, gcd_fmod_step]

/-! ### truncating division -/

theorem truncDivM_eq_tdiv (a b : Int) (hb : b ≠ 0) : truncDivM a b = some (Int.tdiv a b) := by
  unfold truncDivM
  simp only [hb, if_false, Option.some.injEq]
  have hq : Int.fdiv (absM a) (absM b) = absM a / absM b :=
    Int.fdiv_eq_ediv_of_nonneg _ (absM_nonneg b)
  rw [hq]
  unfold absM
  by_cases ha : a < 0 <;> by_cases hb' : b < 0 <;> simp only [ha, hb', if_true, if_false, decide_true, decide_false, bne_self_eq_false, Bool.true_bne, Bool.false_bne, Bool.not_false, Bool.false_eq_true]
  · rw [← Int.tdiv_eq_ediv_of_nonneg (by omega), Int.neg_tdiv_neg]
  · rw [← Int.tdiv_eq_ediv_of_nonneg (by omega), Int.neg_tdiv, Int.neg_neg]
  · rw [← Int.tdiv_eq_ediv_of_nonneg (by omega), Int.tdiv_neg, Int.neg_neg]
  · rw [← Int.tdiv_eq_ediv_of_nonneg (by omega)]

theorem truncDivM_zero (a : Int) : truncDivM a 0 = none := by simp [truncDivM]

/-- the remainder of the truncating division: smaller than the divisor in absolute value,
    zero or of the sign of the dividend -/
theorem tdiv_remainder (a b : Int) (hb : b ≠ 0) :
    (a - Int.tdiv a b * b).natAbs < b.natAbs ∧
    (a - Int.tdiv a b * b = 0 ∨ Int.sign (a - Int.tdiv a b * b) = Int.sign a) := by
  have h1 : a - Int.tdiv a b * b = Int.tmod a b := by
    have := Int.tmod_def a b; rw [this, Int.mul_comm]
  rw [h1]
  refine ⟨?_, ?_⟩
  · rw [Int.natAbs_tmod]
    exact Nat.mod_lt _ (by omega)
  · rcases Int.lt_trichotomy a 0 with h | h | h
    · by_cases h0 : Int.tmod a b = 0
      · exact Or.inl h0
      · right
        have : Int.tmod a b ≤ 0 := by
          have h2 := Int.tmod_nonneg (a := -a) b (by omega)
          rw [Int.neg_tmod] at h2; omega
        rw [Int.sign_eq_neg_one_of_neg h, Int.sign_eq_neg_one_of_neg (by omega)]
    · subst h; simp
    · by_cases h0 : Int.tmod a b = 0
      · exact Or.inl h0
      · right
        have : 0 ≤ Int.tmod a b := Int.tmod_nonneg b (by omega)
        rw [Int.sign_eq_one_of_pos h, Int.sign_eq_one_of_pos (by omega)]

/-! ### modulus -/

theorem modM_eq_fmod (a b : Int) (hb : b ≠ 0) : modM a b = some (Int.fmod a b) := by
  simp [modM, hb]

theorem modM_zero (a : Int) : modM a 0 = none := by simp [modM]

theorem fmod_natAbs_lt (a b : Int) (hb : b ≠ 0) : (Int.fmod a b).natAbs < b.natAbs :=
  natAbs_fmod_lt a hb

theorem dvd_sub_fmod (a b : Int) : b ∣ a - Int.fmod a b := by
  rw [Int.fmod_def]
  exact ⟨Int.fdiv a b, by omega⟩

/-- the floored remainder is zero or has the sign of the DIVISOR -/
theorem fmod_sign (a b : Int) (hb : b ≠ 0) :
    Int.fmod a b = 0 ∨ Int.sign (Int.fmod a b) = Int.sign b := by
  have h1 := Int.emod_nonneg a hb
  have h2 := Int.emod_lt a hb
  by_cases h0 : Int.fmod a b = 0
  · exact Or.inl h0
  · right
    rw [Int.fmod_eq_emod] at h0 ⊢
    split at h0 <;> rename_i h
    · rcases h with h | h
      · rw [if_pos (Or.inl h), Int.sign_eq_one_of_pos (by omega), Int.sign_eq_one_of_pos (by omega)]
      · have := Int.emod_eq_zero_of_dvd h; omega
    · rw [if_neg h]
      have hbneg : b < 0 := by
        rcases Int.lt_trichotomy b 0 with h' | h' | h'
        · exact h'
        · exact absurd h' hb
        · exact absurd (Or.inl (by omega)) h
      rw [Int.sign_eq_neg_one_of_neg hbneg, Int.sign_eq_neg_one_of_neg (by omega)]

/-! ### lcm -/

theorem lcmM_eq_lcm (a b : Int) (h : ¬ (a = 0 ∧ b = 0)) : lcmM a b = some (Int.lcm a b : Int) := by
  unfold lcmM
  have hg : gcdM a b ≠ 0 := by
    rw [gcdM_eq_gcd]
    have : Int.gcd a b ≠ 0 := by
      intro h0
      rw [Int.gcd_eq_zero_iff] at h0
      exact h h0
    omega
  rw [truncDivM_eq_tdiv _ _ hg, gcdM_eq_gcd, absM_eq_natAbs]
  congr 1
  rw [Int.tdiv_eq_ediv_of_nonneg (by omega)]
  simp only [Int.lcm, Nat.lcm, Int.gcd, Int.natAbs_mul]
  omega

theorem lcmM_zero_zero : lcmM 0 0 = none := by
  unfold lcmM; rw [gcdM_eq_gcd]; simp [truncDivM]

/-! ### parity -/

theorem isEvenM_iff (n : Int) : isEvenM n = true ↔ 2 ∣ n := by
  unfold isEvenM
  rw [Int.fmod_eq_emod_of_nonneg n (by omega : (0 : Int) ≤ 2)]
  simp only [beq_iff_eq]
  omega

theorem isOddM_eq_not_isEvenM (n : Int) : isOddM n = !isEvenM n := by
  unfold isOddM isEvenM
  rw [Int.fmod_eq_emod_of_nonneg n (by omega : (0 : Int) ≤ 2)]
  have := Int.emod_two_eq n
  rcases this with h | h <;> simp [h]

end Ckl.C19
