/-
  C06Eval — an executable, sound check of the well-formedness condition `HeapOK` (used for the
  non-vacuity examples on concrete states).
-/
import CklVerif.Lemmas.C06EvalNat
namespace Ckl.C06E
open Ckl

mutual
  def sameKindB : Val → Val → Bool
    | .bool _, .bool _ => true
    | .int _, .int _ => true
    | .int _, .dec _ _ => true
    | .dec _ _, .int _ => true
    | .dec _ _, .dec _ _ => true
    | .str _, .str _ => true
    | .pat _, .pat _ => true
    | .date _, .date _ => true
    | .list a, .list b => sameKindLB a b
    | _, _ => false
  def sameKindLB : List Val → List Val → Bool
    | x :: xs, y :: ys => sameKindB x y && sameKindLB xs ys
    | _, _ => true
end

mutual
  theorem sameKindB_sound : ∀ a b : Val, sameKindB a b = true → SameKind a b
    | .list xs, b, h => by
      cases b <;> simp only [sameKindB, Bool.false_eq_true] at h
      simp only [SameKind]; exact sameKindLB_sound xs _ h
    | .null, b, h => by cases b <;> simp [sameKindB] at h
    | .set _, b, h => by cases b <;> simp [sameKindB] at h
    | .map _, b, h => by cases b <;> simp [sameKindB] at h
    | .bool _, b, h => by cases b <;> simp [sameKindB] at h <;> simp [SameKind]
    | .int _, b, h => by cases b <;> simp [sameKindB] at h <;> simp [SameKind]
    | .dec _ _, b, h => by cases b <;> simp [sameKindB] at h <;> simp [SameKind]
    | .str _, b, h => by cases b <;> simp [sameKindB] at h <;> simp [SameKind]
    | .pat _, b, h => by cases b <;> simp [sameKindB] at h <;> simp [SameKind]
    | .date _, b, h => by cases b <;> simp [sameKindB] at h <;> simp [SameKind]
  theorem sameKindLB_sound : ∀ xs ys : List Val, sameKindLB xs ys = true → SameKindL xs ys
    | [], ys, _ => by cases ys <;> simp [SameKindL]
    | _ :: _, [], _ => by simp [SameKindL]
    | x :: xs, y :: ys, h => by
      simp only [sameKindLB, Bool.and_eq_true] at h
      simp only [SameKindL]
      exact ⟨sameKindB_sound x y h.1, sameKindLB_sound xs ys h.2⟩
end

def distinctB : List Val → Bool
  | [] => true
  | x :: xs => xs.all (fun y => !veq x y) && distinctB xs

theorem distinctB_sound : ∀ vs : List Val, distinctB vs = true →
    vs.Pairwise (fun a b => veq a b = false)
  | [], _ => List.Pairwise.nil
  | x :: xs, h => by
    simp only [distinctB, Bool.and_eq_true, List.all_eq_true, Bool.not_eq_true'] at h
    exact List.Pairwise.cons h.1 (distinctB_sound xs h.2)

def keysOKB (vs : List Val) : Bool :=
  vs.all (fun a => vs.all (fun b => sameKindB a b)) && distinctB vs

theorem keysOKB_sound {vs : List Val} (h : keysOKB vs = true) : KeysOK vs := by
  simp only [keysOKB, Bool.and_eq_true, List.all_eq_true] at h
  exact ⟨fun a ha b hb => sameKindB_sound a b (h.1 a ha b hb), distinctB_sound vs h.2⟩

def cellOKB (s : State) : Cell → Bool
  | .set xs => match xs.mapM (reify s) with
    | some vs => keysOKB vs
    | none => true
  | .map kvs => match (kvs.map (·.1)).mapM (reify s) with
    | some ks => keysOKB ks
    | none => true
  | _ => true

def heapOKB (s : State) : Bool := s.heap.toList.all (cellOKB s)

theorem heapOKB_sound {s : State} (h : heapOKB s = true) : HeapOK s := by
  intro a c hc
  have hm : c ∈ s.heap.toList := by
    have := Array.mem_of_getElem? hc
    exact Array.mem_toList_iff.mpr this
  simp only [heapOKB, List.all_eq_true] at h
  have hb := h c hm
  cases c with
  | set xs =>
    intro vs hvs
    simp only [cellOKB, hvs] at hb
    exact keysOKB_sound hb
  | map kvs =>
    intro ks hks
    simp only [cellOKB, hks] at hb
    exact keysOKB_sound hb
  | list _ => trivial
  | obj _ _ => trivial
  | closure _ _ _ _ _ => trivial

end Ckl.C06E
