/-
  C17Eval: elementary facts about `callDate` (Model/Natives.lean) used by the repairs of the evaluator-wide
  inductions: it answers only for the names `date`, `int`, `decimal`, and its answer is a `dateResM`.
-/
import CklVerif.Model.Natives
namespace Ckl

theorem callDate_some_name {name : String} {args : List (String × RVal)} {pos : Pos} {m : EvalM RVal}
    (h : callDate name args pos = some m) : name = "date" ∨ name = "int" ∨ name = "decimal" := by
  unfold callDate at h
  split at h
  · exact Or.inl rfl
  · exact Or.inr (Or.inl rfl)
  · exact Or.inr (Or.inr rfl)
  · cases h

/-- every answer of `callDate` is the embedding of a state-free date result -/
theorem callDate_some_res {name : String} {args : List (String × RVal)} {pos : Pos} {m : EvalM RVal}
    (h : callDate name args pos = some m) : ∃ r, m = dateResM r pos := by
  unfold callDate at h
  split at h <;> first | (injection h with h; exact ⟨_, h.symm⟩) | (cases h)

/-- `callPure` falls through to `callDate` exactly on the names it does not list -/
theorem callDate_none_of_name {name : String} (args : List (String × RVal)) (pos : Pos)
    (h1 : name ≠ "date") (h2 : name ≠ "int") (h3 : name ≠ "decimal") : callDate name args pos = none := by
  cases h : callDate name args pos with
  | none => rfl
  | some m => rcases callDate_some_name h with r | r | r <;> contradiction

/-- the part of `int(obj)` / `decimal(obj)` that `callDate` answers: dates only -/
def onDate (f : DT → DateRes) (pos : Pos) : Option RVal → Option (EvalM RVal)
  | some (.date d) => some (dateResM (f d) pos)
  | _ => none

theorem callDate_date (args : List (String × RVal)) (pos : Pos) :
    callDate "date" args pos = (dictGet "obj" args).map (fun v => dateResM (asDateRes v) pos) := by
  unfold callDate
  cases dictGet "obj" args <;> rfl

theorem callDate_int (args : List (String × RVal)) (pos : Pos) :
    callDate "int" args pos = onDate dateAsInt pos (dictGet "obj" args) := by
  unfold callDate onDate
  rcases dictGet "obj" args with _ | v
  · rfl
  · cases v <;> rfl

theorem callDate_decimal (args : List (String × RVal)) (pos : Pos) :
    callDate "decimal" args pos = onDate dateAsDecimal pos (dictGet "obj" args) := by
  unfold callDate onDate
  rcases dictGet "obj" args with _ | v
  · rfl
  · cases v <;> rfl

end Ckl
