/-
  C08 (full data literals) — evaluator part 2: evaluating the literal AST of a data value
  allocates a representation of exactly that value.
-/
import CklVerif.Lemmas.C08FullEval
namespace Ckl.C08F
open Ckl Ckl.C08

/-- `s'` is `s` with cells appended to the heap (nothing else changes) -/
def HeapExt (s s' : State) : Prop := ∃ ext : Array Cell, s' = { s with heap := s.heap ++ ext }

theorem HeapExt.refl (s : State) : HeapExt s s := ⟨#[], by simp⟩

theorem HeapExt.trans {a b c : State} (h1 : HeapExt a b) (h2 : HeapExt b c) : HeapExt a c := by
  obtain ⟨e1, rfl⟩ := h1
  obtain ⟨e2, rfl⟩ := h2
  exact ⟨e1 ++ e2, by simp [Array.append_assoc]⟩

theorem HeapExt.push (s : State) (c : Cell) : HeapExt s { s with heap := s.heap.push c } :=
  ⟨#[c], by simp⟩

theorem lookupF_heap (s : State) (h' : Array Cell) (name : String) : ∀ (fuel : Nat) (env : EnvId),
    State.lookupF { s with heap := h' } fuel env name = State.lookupF s fuel env name
  | 0, _ => rfl
  | fuel + 1, env => by
    simp only [State.lookupF, State.frame]
    split
    · rfl
    · split
      · exact lookupF_heap s h' name fuel _
      · rfl

theorem HeapExt.lookup {s s' : State} (h : HeapExt s s') (env : EnvId) (name : String) :
    s'.lookup env name = s.lookup env name := by
  obtain ⟨e, rfl⟩ := h
  exact lookupF_heap s _ name _ env

theorem HeapExt.size {s s' : State} (h : HeapExt s s') : s.heap.size ≤ s'.heap.size := by
  obtain ⟨e, rfl⟩ := h
  simp

theorem HeapExt.get {s s' : State} (h : HeapExt s s') (a : Nat) (ha : a < s.heap.size) :
    s'.heap[a]? = s.heap[a]? := by
  obtain ⟨e, rfl⟩ := h
  simp [Array.getElem?_append_left ha]

theorem HeapExt.rep {s s' : State} (h : HeapExt s s') {v : Val} {r : RVal}
    (hr : Rep s.heap v s.heap.size r) : Rep s'.heap v s'.heap.size r :=
  rep_mono v hr h.size (fun a ha => h.get a ha)

theorem HeapExt.repL {s s' : State} (h : HeapExt s s') {vs : List Val} {rs : List RVal}
    (hr : RepL s.heap vs s.heap.size rs) : RepL s'.heap vs s'.heap.size rs :=
  repL_mono vs hr h.size (fun a ha => h.get a ha)

theorem HeapExt.repM {s s' : State} (h : HeapExt s s') {vs : List (Val × Val)} {rs : List (RVal × RVal)}
    (hr : RepM s.heap vs s.heap.size rs) : RepM s'.heap vs s'.heap.size rs :=
  repM_mono vs hr h.size (fun a ha => h.get a ha)

/-! ### inserting pairwise different elements / keys one by one -/

theorem foldl_setAdd_distinct (s : State) : ∀ (rs acc : List RVal),
    (acc ++ rs).Pairwise (fun a b => rveq s b a = false) →
    rs.foldl (fun acc x => setAdd s x acc) acc = acc ++ rs
  | [], acc, _ => by simp
  | x :: rs, acc, h => by
    have hfresh : memR s x acc = false := by
      simp only [memR, List.any_eq_false]
      intro y hy
      rw [(List.pairwise_append.mp h).2.2 y hy x (by simp)]; simp
    rw [List.foldl_cons, setAdd, hfresh]
    simp only [Bool.false_eq_true, if_false]
    rw [foldl_setAdd_distinct s rs (acc ++ [x]) (by simpa using h)]
    simp

theorem mapPut_fresh (s : State) (k v : RVal) : ∀ (m : List (RVal × RVal)),
    (∀ e ∈ m, rveq s k e.1 = false) → mapPut s k v m = m ++ [(k, v)]
  | [], _ => rfl
  | (k', v') :: m, h => by
    have h1 : rveq s k k' = false := h (k', v') (by simp)
    simp only [mapPut, h1, Bool.false_eq_true, if_false, List.cons_append]
    rw [mapPut_fresh s k v m (fun e he => h e (List.mem_cons_of_mem _ he))]

theorem foldl_mapPut_distinct (s : State) : ∀ (kvs acc : List (RVal × RVal)),
    (acc ++ kvs).Pairwise (fun a b => rveq s b.1 a.1 = false) →
    kvs.foldl (fun acc kv => mapPut s kv.1 kv.2 acc) acc = acc ++ kvs
  | [], acc, _ => by simp
  | e :: kvs, acc, h => by
    have hfresh : ∀ x ∈ acc, rveq s e.1 x.1 = false :=
      fun x hx => (List.pairwise_append.mp h).2.2 x hx e (by simp)
    rw [List.foldl_cons, mapPut_fresh s _ _ _ hfresh,
      foldl_mapPut_distinct s kvs (acc ++ [e]) (by simpa using h)]
    simp

/-- representations of a strictly ascending list of data values are pairwise not `rveq` -/
theorem repL_pairwise_rveq {h : Array Cell} (fuel : Nat) : ∀ {vs : List Val} {n : Nat} {rs : List RVal},
    IsDataL' decRepr vs → vs.Pairwise (fun a b => vltWith decRepr a b = true) → RepL h vs n rs →
    rs.Pairwise (fun a b => rveqF h fuel b a = false)
  | [], _, _, _, _, hr => by simp only [RepL] at hr; subst hr; exact List.Pairwise.nil
  | v :: vs, _, _, hd, hp, hr => by
    obtain ⟨r, rs', rfl, h1, h2⟩ := hr
    simp only [IsDataL'] at hd
    rw [List.pairwise_cons] at hp ⊢
    refine ⟨fun b hb => ?_, repL_pairwise_rveq fuel hd.2 hp.2 h2⟩
    obtain ⟨v', hv', hr'⟩ := repL_mem h2 b hb
    cases he : rveqF h fuel b r with
    | false => rfl
    | true =>
      have := rveq_rep v' (isDataL_mem decRepr hd.2 v' hv') hr' v hd.1 h1 fuel he
      exact absurd this.symm (ne_of_vlt decRepr (hp.1 v' hv'))

theorem repM_pairwise_rveq {h : Array Cell} (fuel : Nat) : ∀ {vs : List (Val × Val)} {n : Nat}
    {rs : List (RVal × RVal)}, IsDataM' decRepr vs →
    vs.Pairwise (fun a b => vltWith decRepr a.1 b.1 = true) → RepM h vs n rs →
    rs.Pairwise (fun a b => rveqF h fuel b.1 a.1 = false)
  | [], _, _, _, _, hr => by simp only [RepM] at hr; subst hr; exact List.Pairwise.nil
  | (k, v) :: vs, _, _, hd, hp, hr => by
    obtain ⟨rk, rv, rs', rfl, h1, _, h2⟩ := hr
    simp only [IsDataM'] at hd
    rw [List.pairwise_cons] at hp ⊢
    refine ⟨fun b hb => ?_, repM_pairwise_rveq fuel hd.2.2.2 hp.2 h2⟩
    obtain ⟨e, he', hrk, _⟩ := repM_mem h2 b hb
    cases he : rveqF h fuel b.1 rk with
    | false => rfl
    | true =>
      have := rveq_rep e.1 (isDataM_keys decRepr hd.2.2.2 e he').1 hrk k hd.2.1 h1 fuel he
      exact absurd this.symm (ne_of_vlt decRepr (hp.1 e he'))

/-! ### evaluation -/

theorem nodeIs_not_spread {v : Val} {n : Node} (h : NodeIs v n) : ∀ e p, n ≠ .spread e p := by
  intro e p hn; subst hn
  cases v <;> simp [NodeIs] at h

theorem evalItems_cons (ld : Loader) (f : Nat) (env : EnvId) (n : Node) (ns : List Node) (pos : Pos)
    (hn : ∀ e p, n ≠ .spread e p) :
    evalItems ld (f + 1) env (n :: ns) pos = (do
      let v ← eval ld f env n
      let rest ← evalItems ld f env ns pos
      pure (v :: rest)) := by
  cases n <;> first | exact absurd rfl (hn _ _) | (simp only [evalItems])

theorem rep_alloc_list {s : State} {vs : List Val} {rs : List RVal}
    (hr : RepL s.heap vs s.heap.size rs) :
    Rep (s.heap.push (.list rs)) (.list vs) (s.heap.push (.list rs)).size (.ref s.heap.size) :=
  ⟨s.heap.size, rs, rfl, by simp, by simp,
    repL_mono vs hr (Nat.le_refl _) (fun a ha => (HeapExt.push s (.list rs)).get a ha)⟩

theorem rep_alloc_set {s : State} {vs : List Val} {rs : List RVal}
    (hr : RepL s.heap vs s.heap.size rs) :
    Rep (s.heap.push (.set rs)) (.set vs) (s.heap.push (.set rs)).size (.ref s.heap.size) :=
  ⟨s.heap.size, rs, rfl, by simp, by simp,
    repL_mono vs hr (Nat.le_refl _) (fun a ha => (HeapExt.push s (.set rs)).get a ha)⟩

theorem rep_alloc_map {s : State} {vs : List (Val × Val)} {rs : List (RVal × RVal)}
    (hr : RepM s.heap vs s.heap.size rs) :
    Rep (s.heap.push (.map rs)) (.map vs) (s.heap.push (.map rs)).size (.ref s.heap.size) :=
  ⟨s.heap.size, rs, rfl, by simp, by simp,
    repM_mono vs hr (Nat.le_refl _) (fun a ha => (HeapExt.push s (.map rs)).get a ha)⟩

mutual
  /-- **eval_val**: with enough fuel, in any environment where `NULL` denotes null, the literal
      AST of a data value evaluates without error; the heap only grows, and the result
      represents exactly that value -/
  theorem eval_val (ld : Loader) : ∀ (v : Val), IsData' decRepr v → ∀ (n : Node), NodeIs v n →
      ∀ (fuel : Nat), need v ≤ fuel → ∀ (env : EnvId) (s : State),
      s.lookup env "NULL" = some .null →
      ∃ r s', eval ld fuel env n s = .ok r s' ∧ HeapExt s s' ∧ Rep s'.heap v s'.heap.size r
    | .null, _, n, hn, fuel, hf, env, s, hnull => by
      obtain ⟨p, rfl⟩ := hn
      obtain ⟨f, rfl⟩ : ∃ f, fuel = f + 1 := ⟨fuel - 1, by simp only [need] at hf; omega⟩
      refine ⟨.null, s, ?_, HeapExt.refl s, rfl⟩
      simp only [eval, bind, EvalM.bind', getS, hnull, pure, EvalM.pure']
    | .bool b, _, n, hn, fuel, hf, env, s, _ => by
      obtain ⟨p, rfl⟩ := hn
      obtain ⟨f, rfl⟩ : ∃ f, fuel = f + 1 := ⟨fuel - 1, by simp only [need] at hf; omega⟩
      exact ⟨.bool b, s, by simp only [eval, pure, EvalM.pure'], HeapExt.refl s, rfl⟩
    | .int k, _, n, hn, fuel, hf, env, s, _ => by
      obtain ⟨p, rfl⟩ := hn
      obtain ⟨f, rfl⟩ : ∃ f, fuel = f + 1 := ⟨fuel - 1, by simp only [need] at hf; omega⟩
      exact ⟨.int k, s, by simp only [eval, pure, EvalM.pure'], HeapExt.refl s, rfl⟩
    | .str x, _, n, hn, fuel, hf, env, s, _ => by
      obtain ⟨p, rfl⟩ := hn
      obtain ⟨f, rfl⟩ : ∃ f, fuel = f + 1 := ⟨fuel - 1, by simp only [need] at hf; omega⟩
      exact ⟨.str x, s, by simp only [eval, pure, EvalM.pure'], HeapExt.refl s, rfl⟩
    | .list vs, hd, n, hn, fuel, hf, env, s, hnull => by
      obtain ⟨ns, p, rfl, hns⟩ := hn
      obtain ⟨f, rfl⟩ : ∃ f, fuel = f + 1 := ⟨fuel - 1, by simp only [need] at hf; omega⟩
      simp only [IsData'] at hd
      obtain ⟨rs, s1, he, hx, hr⟩ := eval_items ld vs hd ns hns f (by simp only [need] at hf; omega)
        env p s hnull
      refine ⟨.ref s1.heap.size, { s1 with heap := s1.heap.push (.list rs) }, ?_,
        hx.trans (HeapExt.push s1 _), rep_alloc_list hr⟩
      simp only [eval, bind, EvalM.bind', he, newList, allocM, State.alloc]
    | .set vs, hd, n, hn, fuel, hf, env, s, hnull => by
      obtain ⟨ns, p, rfl, hns⟩ := hn
      obtain ⟨f, rfl⟩ : ∃ f, fuel = f + 1 := ⟨fuel - 1, by simp only [need] at hf; omega⟩
      simp only [IsData'] at hd
      obtain ⟨rs, s1, he, hx, hr⟩ := eval_seq ld vs hd.1 ns hns f (by simp only [need] at hf; omega)
        env s hnull
      have hfold : rs.foldl (fun acc x => setAdd s1 x acc) [] = rs := by
        have := foldl_setAdd_distinct s1 rs []
          (by simpa [rveq] using repL_pairwise_rveq (s1.heap.size + 1) hd.1 hd.2 hr)
        simpa using this
      refine ⟨.ref s1.heap.size, { s1 with heap := s1.heap.push (.set rs) }, ?_,
        hx.trans (HeapExt.push s1 _), rep_alloc_set hr⟩
      simp only [eval, bind, EvalM.bind', he, addSet, getS, allocM, State.alloc, hfold]
    | .map kvs, hd, n, hn, fuel, hf, env, s, hnull => by
      obtain ⟨ks, vs, p, rfl, hns⟩ := hn
      obtain ⟨f, rfl⟩ : ∃ f, fuel = f + 1 := ⟨fuel - 1, by simp only [need] at hf; omega⟩
      simp only [IsData'] at hd
      obtain ⟨rs, s1, he, hx, hr⟩ := eval_pairs ld kvs hd.1 ks vs hns f
        (by simp only [need] at hf; omega) env s hnull
      have hfold : rs.foldl (fun acc kv => mapPut s1 kv.1 kv.2 acc) [] = rs := by
        have := foldl_mapPut_distinct s1 rs []
          (by simpa [rveq] using repM_pairwise_rveq (s1.heap.size + 1) hd.1 hd.2 hr)
        simpa using this
      refine ⟨.ref s1.heap.size, { s1 with heap := s1.heap.push (.map rs) }, ?_,
        hx.trans (HeapExt.push s1 _), rep_alloc_map hr⟩
      simp only [eval, bind, EvalM.bind', he, getS, allocM, State.alloc, hfold]
    | .dec _ _, hd, _, _, _, _, _, _, _ => by simp [IsData'] at hd
    | .pat _, hd, _, _, _, _, _, _, _ => by simp [IsData'] at hd
    | .date _, hd, _, _, _, _, _, _, _ => by simp [IsData'] at hd
  theorem eval_items (ld : Loader) : ∀ (vs : List Val), IsDataL' decRepr vs → ∀ (ns : List Node),
      NodeIsL vs ns → ∀ (fuel : Nat), needL vs ≤ fuel → ∀ (env : EnvId) (pos : Pos) (s : State),
      s.lookup env "NULL" = some .null →
      ∃ rs s', evalItems ld fuel env ns pos s = .ok rs s' ∧ HeapExt s s' ∧
        RepL s'.heap vs s'.heap.size rs
    | [], _, ns, hns, fuel, hf, env, pos, s, _ => by
      simp only [NodeIsL] at hns; subst hns
      obtain ⟨f, rfl⟩ : ∃ f, fuel = f + 1 := ⟨fuel - 1, by simp only [needL] at hf; omega⟩
      exact ⟨[], s, by simp only [evalItems, pure, EvalM.pure'], HeapExt.refl s, rfl⟩
    | v :: vs, hd, ns, hns, fuel, hf, env, pos, s, hnull => by
      obtain ⟨n, ns', rfl, hn, hns'⟩ := hns
      obtain ⟨f, rfl⟩ : ∃ f, fuel = f + 1 := ⟨fuel - 1, by simp only [needL] at hf; omega⟩
      simp only [IsDataL'] at hd
      simp only [needL] at hf
      obtain ⟨r, s1, he, hx1, hr1⟩ := eval_val ld v hd.1 n hn f (by omega) env s hnull
      obtain ⟨rs, s2, hes, hx2, hr2⟩ := eval_items ld vs hd.2 ns' hns' f (by omega) env pos s1
        (by rw [hx1.lookup]; exact hnull)
      refine ⟨r :: rs, s2, ?_, hx1.trans hx2, ⟨r, rs, rfl, hx2.rep hr1, hr2⟩⟩
      rw [evalItems_cons ld f env n ns' pos (nodeIs_not_spread hn)]
      simp only [bind, EvalM.bind', he, hes, pure, EvalM.pure']
  theorem eval_seq (ld : Loader) : ∀ (vs : List Val), IsDataL' decRepr vs → ∀ (ns : List Node),
      NodeIsL vs ns → ∀ (fuel : Nat), needL vs ≤ fuel → ∀ (env : EnvId) (s : State),
      s.lookup env "NULL" = some .null →
      ∃ rs s', evalSeq ld fuel env ns s = .ok rs s' ∧ HeapExt s s' ∧
        RepL s'.heap vs s'.heap.size rs
    | [], _, ns, hns, fuel, hf, env, s, _ => by
      simp only [NodeIsL] at hns; subst hns
      obtain ⟨f, rfl⟩ : ∃ f, fuel = f + 1 := ⟨fuel - 1, by simp only [needL] at hf; omega⟩
      exact ⟨[], s, by simp only [evalSeq, pure, EvalM.pure'], HeapExt.refl s, rfl⟩
    | v :: vs, hd, ns, hns, fuel, hf, env, s, hnull => by
      obtain ⟨n, ns', rfl, hn, hns'⟩ := hns
      obtain ⟨f, rfl⟩ : ∃ f, fuel = f + 1 := ⟨fuel - 1, by simp only [needL] at hf; omega⟩
      simp only [IsDataL'] at hd
      simp only [needL] at hf
      obtain ⟨r, s1, he, hx1, hr1⟩ := eval_val ld v hd.1 n hn f (by omega) env s hnull
      obtain ⟨rs, s2, hes, hx2, hr2⟩ := eval_seq ld vs hd.2 ns' hns' f (by omega) env s1
        (by rw [hx1.lookup]; exact hnull)
      refine ⟨r :: rs, s2, ?_, hx1.trans hx2, ⟨r, rs, rfl, hx2.rep hr1, hr2⟩⟩
      simp only [evalSeq, bind, EvalM.bind', he, hes, pure, EvalM.pure']
  theorem eval_pairs (ld : Loader) : ∀ (kvs : List (Val × Val)), IsDataM' decRepr kvs →
      ∀ (ks vs : List Node), NodeIsM kvs ks vs → ∀ (fuel : Nat), needM kvs ≤ fuel →
      ∀ (env : EnvId) (s : State), s.lookup env "NULL" = some .null →
      ∃ rs s', evalPairs ld fuel env ks vs s = .ok rs s' ∧ HeapExt s s' ∧
        RepM s'.heap kvs s'.heap.size rs
    | [], _, ks, vs, hns, fuel, hf, env, s, _ => by
      simp only [NodeIsM] at hns; obtain ⟨rfl, rfl⟩ := hns
      obtain ⟨f, rfl⟩ : ∃ f, fuel = f + 1 := ⟨fuel - 1, by simp only [needM] at hf; omega⟩
      exact ⟨[], s, by simp only [evalPairs, pure, EvalM.pure'], HeapExt.refl s, rfl⟩
    | (k, v) :: rest, hd, ks, vs, hns, fuel, hf, env, s, hnull => by
      obtain ⟨kn, ks', vn, vs', rfl, rfl, hkn, hvn, hns'⟩ := hns
      obtain ⟨f, rfl⟩ : ∃ f, fuel = f + 1 := ⟨fuel - 1, by simp only [needM] at hf; omega⟩
      simp only [IsDataM'] at hd
      simp only [needM] at hf
      obtain ⟨rk, s1, hek, hx1, hr1⟩ := eval_val ld k hd.2.1 kn hkn f (by omega) env s hnull
      obtain ⟨rv, s2, hev, hx2, hr2⟩ := eval_val ld v hd.2.2.1 vn hvn f (by omega) env s1
        (by rw [hx1.lookup]; exact hnull)
      obtain ⟨rs, s3, hes, hx3, hr3⟩ := eval_pairs ld rest hd.2.2.2 ks' vs' hns' f (by omega) env s2
        (by rw [hx2.lookup, hx1.lookup]; exact hnull)
      refine ⟨(rk, rv) :: rs, s3, ?_, (hx1.trans hx2).trans hx3,
        ⟨rk, rv, rs, rfl, (hx2.trans hx3).rep hr1, hx3.rep hr2, hr3⟩⟩
      simp only [evalPairs, bind, EvalM.bind', hek, hev, hes, pure, EvalM.pure']
end

/-! ### printing and the type name of a representation -/

theorem renderL_eq_map (vs : List Val) : renderL decRepr vs = vs.map render := by
  induction vs with
  | nil => rfl
  | cons v vs ih => simp only [renderL, ih, List.map_cons, render]

mutual
  /-- `str(value)` of a representation is the text of the value -/
  theorem rep_rrender {s : State} : ∀ (v : Val), IsData' decRepr v → ∀ {n : Nat} {r : RVal},
      Rep s.heap v n r → n ≤ s.heap.size → ∀ fuel, n < fuel → rrenderF s fuel r = some (render v)
    | .null, _, _, _, hr, _, fuel, hf => by
      subst hr; obtain ⟨f, rfl⟩ : ∃ f, fuel = f + 1 := ⟨fuel - 1, by omega⟩
      simp [rrenderF, reify, reifyF]
    | .bool _, _, _, _, hr, _, fuel, hf => by
      subst hr; obtain ⟨f, rfl⟩ : ∃ f, fuel = f + 1 := ⟨fuel - 1, by omega⟩
      simp [rrenderF, reify, reifyF]
    | .int _, _, _, _, hr, _, fuel, hf => by
      subst hr; obtain ⟨f, rfl⟩ : ∃ f, fuel = f + 1 := ⟨fuel - 1, by omega⟩
      simp [rrenderF, reify, reifyF]
    | .str _, _, _, _, hr, _, fuel, hf => by
      subst hr; obtain ⟨f, rfl⟩ : ∃ f, fuel = f + 1 := ⟨fuel - 1, by omega⟩
      simp [rrenderF, reify, reifyF]
    | .list vs, hd, n, r, hr, hn, fuel, hf => by
      obtain ⟨a, rs, rfl, ha, hc, hl⟩ := hr
      obtain ⟨f, rfl⟩ : ∃ f, fuel = f + 1 := ⟨fuel - 1, by omega⟩
      simp only [IsData'] at hd
      have hp := repL_rrender vs hd hl (by omega) f (by omega)
      simp only [rrenderF, State.cell, hc, hp, bind, Option.bind, pure, render, renderWith,
        renderL_eq_map]
    | .set vs, hd, n, r, hr, hn, fuel, hf => by
      have hre := rep_reify (.set vs) hd hr (s.heap.size + 1) (by omega)
      obtain ⟨a, rs, rfl, ha, hc, hl⟩ := hr
      obtain ⟨f, rfl⟩ : ∃ f, fuel = f + 1 := ⟨fuel - 1, by omega⟩
      simp only [rrenderF, State.cell, hc, reify, hre, Option.map_some]
    | .map vs, hd, n, r, hr, hn, fuel, hf => by
      have hre := rep_reify (.map vs) hd hr (s.heap.size + 1) (by omega)
      obtain ⟨a, rs, rfl, ha, hc, hl⟩ := hr
      obtain ⟨f, rfl⟩ : ∃ f, fuel = f + 1 := ⟨fuel - 1, by omega⟩
      simp only [rrenderF, State.cell, hc, reify, hre, Option.map_some]
    | .dec _ _, hd, _, _, _, _, _, _ => by simp [IsData'] at hd
    | .pat _, hd, _, _, _, _, _, _ => by simp [IsData'] at hd
    | .date _, hd, _, _, _, _, _, _ => by simp [IsData'] at hd
  theorem repL_rrender {s : State} : ∀ (vs : List Val), IsDataL' decRepr vs → ∀ {n : Nat}
      {rs : List RVal}, RepL s.heap vs n rs → n ≤ s.heap.size → ∀ fuel, n < fuel →
      rs.mapM (rrenderF s fuel) = some (vs.map render)
    | [], _, _, _, hr, _, _, _ => by simp only [RepL] at hr; subst hr; rfl
    | v :: vs, hd, n, rs, hr, hn, fuel, hf => by
      obtain ⟨r, rs', rfl, h1, h2⟩ := hr
      simp only [IsDataL'] at hd
      simp [List.mapM_cons, rep_rrender v hd.1 h1 hn fuel hf, repL_rrender vs hd.2 h2 hn fuel hf]
end

/-- `type(value)` of a representation is the type name of the value -/
theorem rep_typeName {s : State} {v : Val} {n : Nat} {r : RVal} (hd : IsData' decRepr v)
    (hr : Rep s.heap v n r) : typeName s r = v.typeName := by
  cases v with
  | null => subst hr; rfl
  | bool b => subst hr; rfl
  | int k => subst hr; rfl
  | str x => subst hr; rfl
  | list vs => obtain ⟨a, rs, rfl, ha, hc, hl⟩ := hr; simp [typeName, State.cell, hc, Val.typeName]
  | set vs => obtain ⟨a, rs, rfl, ha, hc, hl⟩ := hr; simp [typeName, State.cell, hc, Val.typeName]
  | map vs => obtain ⟨a, rs, rfl, ha, hc, hl⟩ := hr; simp [typeName, State.cell, hc, Val.typeName]
  | dec _ _ => simp [IsData'] at hd
  | pat _ => simp [IsData'] at hd
  | date _ => simp [IsData'] at hd

end Ckl.C08F
