/-
  C06Eval — non-vacuity of the evaluator-node theorems of `Proofs/C06Eval.lean` §6b
  (`in_set_answer`, `in_set_congr`, `index_congr`, `set_literal_spec`, `map_literal_spec`):
  every hypothesis is met on a concrete loader (`ldEx`, the default loader: no modules, every
  unmodelled native abstains), a concrete state (`sExG` = the heap of `sEx` plus one frame that binds
  `c` to the cell `<<1, 1.5>>` and `m` to the cell `<<<1 => 'a', 2.5 => <<1, 1.5>>>>>`) and concrete
  program fragments; the concrete answers are shown as well.  These are tests (`example`s on sample
  inputs), not property theorems.
-/
import CklVerif.Proofs.C06Eval
namespace Ckl.C06Eval
open Ckl Ckl.C06E

def ldEx : Loader := {}
def p0 : Pos := {}

def sExG : State := { sEx with frames := #[{ vars := [("c", .ref 1), ("m", .ref 5)] }] }

theorem sExG_ok : HeapOK sExG := heapOKB_sound (by decide)

theorem sExG_lookup_c : sExG.lookup 0 "c" = some (.ref 1) := by rfl
theorem sExG_lookup_m : sExG.lookup 0 "m" = some (.ref 5) := by
  simp [State.lookup, State.lookupF, State.frame, sExG, dictGet]

theorem eval_lit_int (ld : Loader) (f : Nat) (env : EnvId) (n : Int) (p : Pos) (s : State) :
    eval ld (f + 1) env (.lit (.int n) p) s = .ok (.int n) s := by
  simp only [Ckl.eval, pure_apply]

theorem eval_lit_dec (ld : Loader) (f : Nat) (env : EnvId) (m : Int) (e : Nat) (p : Pos) (s : State) :
    eval ld (f + 1) env (.lit (.dec m e) p) s = .ok (.dec m e) s := by
  simp only [Ckl.eval, pure_apply]

theorem eval_lit_str (ld : Loader) (f : Nat) (env : EnvId) (t : List Char) (p : Pos) (s : State) :
    eval ld (f + 1) env (.lit (.str t) p) s = .ok (.str t) s := by
  simp only [Ckl.eval, pure_apply]

theorem eval_ident_found (ld : Loader) (f : Nat) (env : EnvId) (x : String) (p : Pos) {s : State}
    {v : RVal} (h : s.lookup env x = some v) :
    eval ld (f + 1) env (.ident x p) s = .ok v s := by
  simp only [Ckl.eval, bind_apply, getS, h, pure_apply]


/-! ## `a in c` -/

def nOneDec : Node := .lit (.dec 2 1) p0     -- 1.0
def nOne : Node := .lit (.int 1) p0          -- 1
def nC : Node := .ident "c" p0
def nM : Node := .ident "m" p0

theorem ex_in_set_answer :
    eval ldEx 2 0 (.isIn nOneDec nC p0) sExG =
      .ok (.bool (memV (.dec 2 1) [.int 1, .dec 3 1])) sExG :=
  in_set_answer ldEx (fuel := 1) (e := nOneDec) (cN := nC) (s := sExG) (s1 := sExG) (s2 := sExG)
    (v := .dec 2 1) (c := 1) (xs := [.int 1, .dec 3 1])
    (eval_lit_dec ldEx 0 0 2 1 p0 sExG) (eval_ident_found ldEx 0 0 "c" p0 sExG_lookup_c)
    rfl sExG_ok (vv := .dec 2 1) rfl (A := [.int 1, .dec 3 1]) rfl

/-- `1.0 in <<1, 1.5>>` is TRUE -/
example : eval ldEx 2 0 (.isIn nOneDec nC p0) sExG = .ok (.bool true) sExG := ex_in_set_answer

theorem ex_in_set_congr :
    eval ldEx 2 0 (.isIn nOneDec nC p0) sExG = eval ldEx 2 0 (.isIn nOne nC p0) sExG :=
  in_set_congr ldEx (fuel := 1) (s := sExG) (s1 := sExG) (s1' := sExG) (s2 := sExG)
    (v := .dec 2 1) (v' := .int 1) (c := 1) (xs := [.int 1, .dec 3 1])
    (eval_lit_dec ldEx 0 0 2 1 p0 sExG) (eval_ident_found ldEx 0 0 "c" p0 sExG_lookup_c)
    (eval_lit_int ldEx 0 0 1 p0 sExG) (eval_ident_found ldEx 0 0 "c" p0 sExG_lookup_c)
    rfl sExG_ok (vv := .dec 2 1) (vv' := .int 1) rfl rfl (A := [.int 1, .dec 3 1]) rfl rfl

/-- `2 in <<1, 1.5>>` is FALSE (the answer is not constantly TRUE) -/
example : eval ldEx 2 0 (.isIn (.lit (.int 2) p0) nC p0) sExG = .ok (.bool false) sExG :=
  in_set_answer ldEx (fuel := 1) (s := sExG) (s1 := sExG) (s2 := sExG)
    (v := .int 2) (c := 1) (xs := [.int 1, .dec 3 1])
    (eval_lit_int ldEx 0 0 2 p0 sExG) (eval_ident_found ldEx 0 0 "c" p0 sExG_lookup_c)
    rfl sExG_ok (vv := .int 2) rfl (A := [.int 1, .dec 3 1]) rfl

/-! the same with the container written as a literal: `1.0 in <<1, 1.5>>` (the container is
    allocated while the expression is evaluated, so `s2 ≠ s`) -/

def nSetLit : Node := .set [nOne, .lit (.dec 3 1) p0] p0
def sExG' : State := (sExG.alloc (.set [.int 1, .dec 3 1])).1

theorem sExG'_ok : HeapOK sExG' := heapOKB_sound (by decide)

theorem ex_eval_setLit : eval ldEx 4 0 nSetLit sExG = .ok (.ref 12) sExG' := by
  have h : evalSeq ldEx 3 0 [nOne, .lit (.dec 3 1) p0] sExG = .ok [.int 1, .dec 3 1] sExG := by
    simp only [nOne, Ckl.evalSeq, bind_apply, eval_lit_int, eval_lit_dec, pure_apply]
  unfold nSetLit
  rw [eval_set_lit ldEx h]; rfl

theorem ex_in_set_answer_lit :
    eval ldEx 5 0 (.isIn nOneDec nSetLit p0) sExG = .ok (.bool true) sExG' :=
  in_set_answer ldEx (fuel := 4) (s := sExG) (s1 := sExG) (s2 := sExG')
    (v := .dec 2 1) (c := 12) (xs := [.int 1, .dec 3 1])
    (eval_lit_dec ldEx 3 0 2 1 p0 sExG) ex_eval_setLit
    rfl sExG'_ok (vv := .dec 2 1) rfl (A := [.int 1, .dec 3 1]) rfl

theorem ex_in_set_congr_lit :
    eval ldEx 5 0 (.isIn nOneDec nSetLit p0) sExG = eval ldEx 5 0 (.isIn nOne nSetLit p0) sExG :=
  in_set_congr ldEx (fuel := 4) (s := sExG) (s1 := sExG) (s1' := sExG) (s2 := sExG')
    (v := .dec 2 1) (v' := .int 1) (c := 12) (xs := [.int 1, .dec 3 1])
    (eval_lit_dec ldEx 3 0 2 1 p0 sExG) ex_eval_setLit
    (eval_lit_int ldEx 3 0 1 p0 sExG) ex_eval_setLit
    rfl sExG'_ok (vv := .dec 2 1) (vv' := .int 1) rfl rfl (A := [.int 1, .dec 3 1]) rfl rfl

/-! ## `m[k]` -/

theorem ex_index_congr :
    eval ldEx 2 0 (.deref nM nOne .absent p0) sExG = .ok (.str ['a']) sExG ∧
      eval ldEx 2 0 (.deref nM nOneDec .absent p0) sExG = .ok (.str ['a']) sExG :=
  index_congr ldEx (fuel := 1) (s := sExG) (s1 := sExG) (s1' := sExG) (s2 := sExG)
    (k := .int 1) (k' := .dec 2 1) (c := 5) (kvs := [(.int 1, .str ['a']), (.dec 5 1, .ref 1)])
    (eval_lit_int ldEx 0 0 1 p0 sExG) (eval_ident_found ldEx 0 0 "m" p0 sExG_lookup_m)
    (eval_lit_dec ldEx 0 0 2 1 p0 sExG) (eval_ident_found ldEx 0 0 "m" p0 sExG_lookup_m)
    rfl sExG_ok (vk := .int 1) (vk' := .dec 2 1) rfl rfl
    (P := [(.int 1, .str ['a']), (.dec 5 1, .set [.int 1, .dec 3 1])]) rfl rfl rfl

/-! the same with the map written as a literal: `<<<1 => 'a'>>>[1]` and `<<<1 => 'a'>>>[1.0]` -/

def nMapLit : Node := .map [nOne] [.lit (.str ['a']) p0] p0
def sExG'' : State := (sExG.alloc (.map [(.int 1, .str ['a'])])).1

theorem sExG''_ok : HeapOK sExG'' := heapOKB_sound (by decide)

theorem ex_eval_mapLit : eval ldEx 3 0 nMapLit sExG = .ok (.ref 12) sExG'' := by
  have h : evalPairs ldEx 2 0 [nOne] [.lit (.str ['a']) p0] sExG =
      .ok [(.int 1, .str ['a'])] sExG := by
    simp only [nOne, Ckl.evalPairs, bind_apply, eval_lit_int, eval_lit_str, pure_apply]
  unfold nMapLit
  rw [eval_map_lit ldEx h]; rfl

theorem ex_index_congr_lit :
    eval ldEx 4 0 (.deref nMapLit nOne .absent p0) sExG = .ok (.str ['a']) sExG'' ∧
      eval ldEx 4 0 (.deref nMapLit nOneDec .absent p0) sExG = .ok (.str ['a']) sExG'' :=
  index_congr ldEx (fuel := 3) (s := sExG) (s1 := sExG) (s1' := sExG) (s2 := sExG'')
    (k := .int 1) (k' := .dec 2 1) (c := 12) (kvs := [(.int 1, .str ['a'])])
    (eval_lit_int ldEx 2 0 1 p0 sExG) ex_eval_mapLit
    (eval_lit_dec ldEx 2 0 2 1 p0 sExG) ex_eval_mapLit
    rfl sExG''_ok (vk := .int 1) (vk' := .dec 2 1) rfl rfl
    (P := [(.int 1, .str ['a'])]) rfl rfl rfl

/-! ## the set literal `<<1, 1.0, 1.5>>` -/

def setItems : List Node := [nOne, nOneDec, .lit (.dec 3 1) p0]

theorem ex_evalSeq :
    evalSeq ldEx 4 0 setItems sExG = .ok [.int 1, .dec 2 1, .dec 3 1] sExG := by
  simp only [setItems, nOne, nOneDec, Ckl.evalSeq, bind_apply, eval_lit_int, eval_lit_dec, pure_apply]

theorem ex_set_literal_spec :
    ∃ L, eval ldEx 5 0 (.set setItems p0) sExG = .ok (.ref 12) (sExG.alloc (.set L)).1 ∧
      L.Pairwise (fun x y => rveq sExG x y = false) ∧
      reify (sExG.alloc (.set L)).1 (.ref 12) = some (mkSet decRepr [.int 1, .dec 2 1, .dec 3 1]) :=
  set_literal_spec ldEx (fuel := 4) (pos := p0) ex_evalSeq sExG_ok
    (I := [.int 1, .dec 2 1, .dec 3 1]) rfl

/-- the cell that is allocated holds `[1, 1.5]` -/
example : eval ldEx 5 0 (.set setItems p0) sExG =
    .ok (.ref 12) (sExG.alloc (.set [.int 1, .dec 3 1])).1 := by
  rw [eval_set_lit ldEx ex_evalSeq]; rfl

example : mkSet decRepr [.int 1, .dec 2 1, .dec 3 1] = .set [.int 1, .dec 3 1] := by rfl

/-! ## the map literal `<<<1 => 'a', 1.0 => 'b'>>>` -/

def mapKeys : List Node := [nOne, nOneDec]
def mapVals : List Node := [.lit (.str ['a']) p0, .lit (.str ['b']) p0]

theorem ex_evalPairs :
    evalPairs ldEx 3 0 mapKeys mapVals sExG =
      .ok [(.int 1, .str ['a']), (.dec 2 1, .str ['b'])] sExG := by
  simp only [mapKeys, mapVals, nOne, nOneDec, Ckl.evalPairs, bind_apply, eval_lit_int,
    eval_lit_dec, eval_lit_str, pure_apply]

theorem ex_map_literal_spec :
    ∃ s', eval ldEx 4 0 (.map mapKeys mapVals p0) sExG = .ok (.ref 12) s' ∧
      reify s' (.ref 12) = some (mkMap decRepr [(.int 1, .str ['a']), (.dec 2 1, .str ['b'])]) :=
  map_literal_spec ldEx (fuel := 3) (pos := p0) ex_evalPairs sExG_ok
    (I := [(.int 1, .str ['a']), (.dec 2 1, .str ['b'])]) rfl

/-- key `1` is kept, with the value `'b'` -/
example : eval ldEx 4 0 (.map mapKeys mapVals p0) sExG =
    .ok (.ref 12) (sExG.alloc (.map [(.int 1, .str ['b'])])).1 := by
  rw [eval_map_lit ldEx ex_evalPairs]; rfl

example : mkMap decRepr [(.int 1, .str ['a']), (.dec 2 1, .str ['b'])] =
    .map [(.int 1, .str ['b'])] := by rfl

end Ckl.C06Eval
