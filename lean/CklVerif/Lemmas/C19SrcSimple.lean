import CklVerif.Lemmas.C19SrcRules
import CklVerif.Lemmas.C19SrcList
import CklVerif.Lemmas.C19SrcGcd

/-! C19Src — the functions without loops: list.ckl `first`, `last`; math.ckl `is_even`, `is_odd`;
    predicate.ckl `is_zero`, `is_negative`, `is_positive`; core.ckl `non_empty`, `const`, `non_zero` -/
namespace Ckl.C19Src
open Ckl Ckl.C03 Ckl.Gen.LibSrc
variable (ld : Loader)

/-! ### from a body to `fn.execute`, with an extra fact about the final state -/

theorem calls_of_body1Q {src : Node} {q : String} {body : Node} {k : Nat} {r : State → Out RVal} {Q : State → Prop}
    (hps : lamParams src = [q]) (hds : lamDefaults src = [.absent]) (hbody : lamBody src = body) (hk : 1 ≤ k)
    {s : State} {M nats srcs fn m} (h : LibEnv s M nats srcs) (hm : M m) (hsrc : IsSrc s fn src m)
    (v : RVal)
    (hb : ∀ s0, Ctx s0 M nats srcs s.frames.size m [(q, v)] → Ext s s0 → s0.heap.size = s.heap.size →
      ∃ s', Ext s0 s' ∧ Ev ld k s.frames.size body s0 (r s') ∧ Q s') :
    ∃ s', Ext s s' ∧ Q s' ∧ ∀ env pos, Calls ld (k + 1) fn [(q, v)] env pos s (postCall (r s')) := by
  obtain ⟨a, nm, rfl, hcell⟩ := hsrc
  rw [hps, hds, hbody] at hcell
  obtain ⟨s', e', hev, hQ⟩ := hb _ (Ctx.callee1 h hm q v) (calleeState_ext s m [(q, v)] [q])
    (by rw [calleeState_heap])
  refine ⟨s', (calleeState_ext s m [(q, v)] [q]).trans e', hQ, fun env pos => ?_⟩
  exact Calls.closure ld hcell rfl hk (by intro p hp; simp at hp; subst hp; simp [dictGet]) hev

theorem calls_of_body2Q {src : Node} {q1 q2 : String} {body : Node} {k : Nat} {r : State → Out RVal} {Q : State → Prop}
    (hps : lamParams src = [q1, q2]) (hds : lamDefaults src = [.absent, .absent]) (hbody : lamBody src = body)
    (hk : 2 ≤ k) (hne : q1 ≠ q2)
    {s : State} {M nats srcs fn m} (h : LibEnv s M nats srcs) (hm : M m) (hsrc : IsSrc s fn src m)
    (v1 v2 : RVal)
    (hb : ∀ s0, Ctx s0 M nats srcs s.frames.size m [(q1, v1), (q2, v2)] → Ext s s0 → s0.heap.size = s.heap.size →
      ∃ s', Ext s0 s' ∧ Ev ld k s.frames.size body s0 (r s') ∧ Q s') :
    ∃ s', Ext s s' ∧ Q s' ∧ ∀ env pos, Calls ld (k + 1) fn [(q1, v1), (q2, v2)] env pos s (postCall (r s')) := by
  obtain ⟨a, nm, rfl, hcell⟩ := hsrc
  rw [hps, hds, hbody] at hcell
  obtain ⟨s', e', hev, hQ⟩ := hb _ (Ctx.callee2 h hm q1 q2 v1 v2 hne) (calleeState_ext s m [(q1, v1), (q2, v2)] [q1, q2])
    (by rw [calleeState_heap])
  refine ⟨s', (calleeState_ext s m _ _).trans e', hQ, fun env pos => ?_⟩
  have hqp : ¬ q2 = q1 := fun h => hne h.symm
  exact Calls.closure ld hcell rfl hk
    (by intro p hp; simp at hp; rcases hp with rfl | rfl <;> simp [dictGet, hqp]) hev

/-! ### list.ckl `first`, `last` -/

def firstNats : List String := ["is_null", "type", "equals", "add"]
def firstSrcs : List (String × Node) := [("is_list", type_is_list)]

theorem firstNats_type {nats : List String} (hn : ∀ x ∈ firstNats, x ∈ nats) : ∀ x ∈ typeNats, x ∈ nats := by
  intro x hx; apply hn; simp [typeNats] at hx; rcases hx with rfl | rfl <;> decide

/-- position of the indexing node in the `else` branch of `first` / `last` -/
def elsePos : Node → Pos
  | .ite _ _ (.deref _ _ _ p) _ => p
  | _ => default

/-- the common shape of `first` and `last`: `if is_null(lst) then NULL if not is_list(lst) then error(…) else lst[i]` on a list cell -/
theorem index_body {s : State} {M nats srcs c m} {a : Nat} {xs : List RVal} {i : Int} {x1 x2 : Node}
    {p1 p2 p3 p4 p5 p6 p7 p8 p9 p10 p11 : Pos}
    (ctx : Ctx s M nats srcs c m [("lst", .ref a)]) (hn : ∀ x ∈ firstNats, x ∈ nats) (hs : ∀ p ∈ firstSrcs, p ∈ srcs)
    (hc : s.cell a = some (.list xs)) :
    ∃ s', Ext s s' ∧ Ev ld 13 c (.ite [.call (.ident "is_null" p1) [none] [.ident "lst" p2] p3,
        .not (.call (.ident "is_list" p4) [none] [.ident "lst" p5] p6) p7] [x1, x2]
        (.deref (.ident "lst" p8) (.lit (.int i) p9) .absent p10) p11) s (derefOut xs i p10 s') := by
  obtain ⟨j, hl⟩ := ctx.nat (x := "is_null") (hn _ (by decide)) (by rfl)
  have g1 : Ev ld 11 c (.call (.ident "is_null" p1) [none] [.ident "lst" p2] p3) s (.ok (.bool false) s) :=
    Ev.nat1 ld (k := 8) hl (by rfl) (by decide) (by trivial)
      (Ev.ident ld (ctx.var (x := "lst") (by rfl))) (pure_is_null _ _ _) rfl
  obtain ⟨f1, m1, hl1, hm1, hsrc1⟩ := ctx.src (x := "is_list") (src := type_is_list) (hs _ (by simp [firstSrcs])) (by rfl)
  obtain ⟨s1, e1, c1⟩ := is_list_calls ld ctx.env (firstNats_type hn) hm1 hsrc1 (.ref a)
  have E1 := Ev.callSrc1 ld (k := 6) (p := p4) hl1 hsrc1 rfl (by decide) (by trivial)
    (Ev.ident ld (p := p5) (ctx.var (x := "lst") (by rfl))) (c1 c p6)
  rw [wrapCall_ok] at E1
  have hil : isListR s (.ref a) = true := by simp [isListR, hc]
  rw [hil] at E1
  have g2 := Ev.not ld (p := p7) E1
  have ctx1 := ctx.ext e1
  have hc1 : s1.cell a = some (.list xs) := by rw [e1.cell a (cell_lt hc)]; exact hc
  refine ⟨s1, e1, ?_⟩
  have D := Ev.derefList ld (k := 8) (pos := p10) (Ev.litInt ld (p := p9) (n := i))
    (Ev.ident ld (p := p8) (ctx1.var (x := "lst") (by rfl))) hc1
  exact Ev.ite ld (EvIf.false ld g1 (EvIf.false ld (Ev.mono ld g2 (by decide)) (EvIf.else ld D)))

/-- `fn.execute(lst = a list cell)` of the function made from the source of `first`: `lst[0]` -/
theorem first_calls_list {s : State} {M nats srcs fn m} (h : LibEnv s M nats srcs) (hn : ∀ x ∈ firstNats, x ∈ nats)
    (hs : ∀ p ∈ firstSrcs, p ∈ srcs) (hm : M m) (hsrc : IsSrc s fn list_first m) (a : Nat) (xs : List RVal)
    (hc : s.cell a = some (.list xs)) :
    ∃ s', Ext s s' ∧ ∀ env pos, Calls ld 14 fn [("lst", .ref a)] env pos s
      (postCall (derefOut xs 0 (elsePos (lamBody list_first)) s')) :=
  calls_of_body1 ld (src := list_first) (r := fun s' => derefOut xs 0 (elsePos (lamBody list_first)) s') rfl rfl rfl
    (by decide) h hm hsrc (.ref a) (fun s0 ctx e0 =>
      index_body ld ctx hn hs (by rw [e0.cell a (cell_lt hc)]; exact hc))

theorem last_calls_list {s : State} {M nats srcs fn m} (h : LibEnv s M nats srcs) (hn : ∀ x ∈ firstNats, x ∈ nats)
    (hs : ∀ p ∈ firstSrcs, p ∈ srcs) (hm : M m) (hsrc : IsSrc s fn list_last m) (a : Nat) (xs : List RVal)
    (hc : s.cell a = some (.list xs)) :
    ∃ s', Ext s s' ∧ ∀ env pos, Calls ld 14 fn [("lst", .ref a)] env pos s
      (postCall (derefOut xs (-1) (elsePos (lamBody list_last)) s')) :=
  calls_of_body1 ld (src := list_last) (r := fun s' => derefOut xs (-1) (elsePos (lamBody list_last)) s') rfl rfl rfl
    (by decide) h hm hsrc (.ref a) (fun s0 ctx e0 =>
      index_body ld ctx hn hs (by rw [e0.cell a (cell_lt hc)]; exact hc))

/-- `first(NULL) = NULL`, `last(NULL) = NULL` (shared head) -/
theorem index_null_body {s : State} {M nats srcs c m} {cs xs : List Node} {els : Node} {p1 p2 p3 p11 : Pos}
    (ctx : Ctx s M nats srcs c m [("lst", .null)]) (hn : ∀ x ∈ firstNats, x ∈ nats) (q : Pos) :
    Ev ld 13 c (.ite (.call (.ident "is_null" p1) [none] [.ident "lst" p2] p3 :: cs) (.ident "NULL" q :: xs) els p11) s
      (.ok .null s) := by
  obtain ⟨j, hl⟩ := ctx.nat (x := "is_null") (hn _ (by decide)) (by rfl)
  exact Ev.ite ld (EvIf.true ld (Ev.nat1 ld (k := 8) hl (by rfl) (by decide) (by trivial)
    (Ev.ident ld (ctx.var (x := "lst") (by rfl))) (pure_is_null _ _ _) rfl) (Ev.ident ld (ctx.null (by rfl))))

theorem first_calls_null {s : State} {M nats srcs fn m} (h : LibEnv s M nats srcs) (hn : ∀ x ∈ firstNats, x ∈ nats)
    (hm : M m) (hsrc : IsSrc s fn list_first m) :
    ∃ s', Ext s s' ∧ ∀ env pos, Calls ld 14 fn [("lst", .null)] env pos s (.ok .null s') :=
  calls_of_body1 ld (src := list_first) (r := fun s' => .ok .null s') rfl rfl rfl (by decide) h hm hsrc .null
    (fun s0 ctx _ => ⟨s0, Ext.refl _, index_null_body ld ctx hn _⟩)

theorem last_calls_null {s : State} {M nats srcs fn m} (h : LibEnv s M nats srcs) (hn : ∀ x ∈ firstNats, x ∈ nats)
    (hm : M m) (hsrc : IsSrc s fn list_last m) :
    ∃ s', Ext s s' ∧ ∀ env pos, Calls ld 14 fn [("lst", .null)] env pos s (.ok .null s') :=
  calls_of_body1 ld (src := list_last) (r := fun s' => .ok .null s') rfl rfl rfl (by decide) h hm hsrc .null
    (fun s0 ctx _ => ⟨s0, Ext.refl _, index_null_body ld ctx hn _⟩)

/-! ### math.ckl `is_even`, `is_odd` -/

def evenNats : List String := mathNats ++ ["mod"]

theorem evenNats_math {nats : List String} (hn : ∀ x ∈ evenNats, x ∈ nats) : ∀ x ∈ mathNats, x ∈ nats :=
  fun x hx => hn x (by simp [evenNats, hx])

theorem rveq_int (s : State) (a b : Int) : rveq s (.int a) (.int b) = decide (a = b) := by
  simp [rveq, rveqF]

/-- position of the `return` in the guard of `is_even` / `is_odd` -/
def guardRetPos : Node → Pos
  | .block (.ite _ (.ret _ p :: _) _ _ :: _) _ _ _ _ _ => p
  | _ => default

/-- the common shape: `do if not is_numeric(n) then return FALSE; n % 2 == r end` on an int -/
theorem parity_body_int {s : State} {M nats srcs c m} {n r : Int} {x1 : Node} {b : Bool}
    {p1 p2 p3 p4 p5 p6 p7 p8 p9 p10 p11 p12 p13 : Pos}
    (ctx : Ctx s M nats srcs c m [("n", .int n)]) (hn : ∀ x ∈ evenNats, x ∈ nats) (hs : ∀ p ∈ mathSrcs, p ∈ srcs) :
    ∃ s', Ext s s' ∧ Ev ld 24 c (.block [.ite [.not (.call (.ident "is_numeric" p1) [none] [.ident "n" p2] p3) p4] [x1]
          (.lit (.bool true) p5) p6,
        .call (.ident "equals" p7) [some "a", some "b"]
          [.call (.ident "mod" p8) [some "a", some "b"] [.ident "n" p9, .lit (.int 2) p10] p11, .lit (.int r) p12] p13]
        [] [] [] b p6') s (.ok (.bool (decide (Int.fmod n 2 = r))) s') := by
  have ctx0 : Ctx (ghostEnter s p6') M nats srcs c m [("n", .int n)] := ctx.ext ((Ext.refl s).ghostEnter _)
  obtain ⟨_, s1, e1, g2⟩ := guards ld (.int n) ctx0 (evenNats_math hn) hs
  have ctx1 := ctx0.ext e1
  refine ⟨ghostFin s1 p6', (((Ext.refl s).ghostEnter _).trans e1).ghostFin _, ?_⟩
  have S1 : Ev ld 20 c (.ite [.not (.call (.ident "is_numeric" p1) [none] [.ident "n" p2] p3) p4] [x1]
      (.lit (.bool true) p5) p6) (ghostEnter s p6') (.ok (.bool true) s1) :=
    Ev.ite ld (EvIf.false ld (Ev.mono ld (g2 _ _ _ _) (by decide)) (EvIf.else ld (Ev.litBool ld)))
  obtain ⟨i, hmod⟩ := ctx1.nat (x := "mod") (hn _ (by decide)) (by rfl)
  obtain ⟨j, heq⟩ := ctx1.nat (x := "equals") (hn _ (by decide)) (by rfl)
  have A1 := Ev.natAB ld (k := 12) (p := p8) (pos := p11) hmod (by rfl) (by trivial) (by trivial)
    (Ev.ident ld (p := p9) (ctx1.var (x := "n") (by rfl))) (Ev.litInt ld (p := p10) (n := 2)) (pure_mod _ _ _ _)
    (nativeMod_int n 2 (by decide) _ _)
  rw [wrapCall_ok] at A1
  have A2 := Ev.natAB ld (k := 16) (p := p7) (pos := p13) heq (by rfl) (by trivial) (by trivial)
    A1 (Ev.litInt ld (p := p12) (n := r)) (pure_equals _ _ _ _) rfl
  rw [wrapCall_ok, rveq_int] at A2
  exact Ev.block ld (EvBody.cons ld (Ev.mono ld S1 (by decide)) rfl
    (EvBody.cons ld (Ev.mono ld A2 (by decide)) rfl (EvBody.nil ld)))

/-- the guard: a non-numeric argument gives `return FALSE` -/
theorem parity_body_nonnum {s : State} {M nats srcs c m} {v : RVal} {els : Node} {rest : List Node} {b : Bool}
    {p1 p2 p3 p4 p5 p6 p7 p6' : Pos} (h1 : v.isNumerical = false)
    (ctx : Ctx s M nats srcs c m [("n", v)]) (hn : ∀ x ∈ evenNats, x ∈ nats) (hs : ∀ p ∈ mathSrcs, p ∈ srcs) :
    ∃ s', Ext s s' ∧ Ev ld 24 c (.block (.ite [.not (.call (.ident "is_numeric" p1) [none] [.ident "n" p2] p3) p4]
          [.ret (.lit (.bool false) p5) p7] els p6 :: rest) [] [] [] b p6') s (.ok (.ret (.bool false) p7) s') := by
  have ctx0 : Ctx (ghostEnter s p6') M nats srcs c m [("n", v)] := ctx.ext ((Ext.refl s).ghostEnter _)
  obtain ⟨_, s1, e1, g2⟩ := guards ld v ctx0 (evenNats_math hn) hs
  rw [h1] at g2
  refine ⟨ghostFin s1 p6', (((Ext.refl s).ghostEnter _).trans e1).ghostFin _, ?_⟩
  have S1 : Ev ld 20 c (.ite [.not (.call (.ident "is_numeric" p1) [none] [.ident "n" p2] p3) p4]
      [.ret (.lit (.bool false) p5) p7] els p6) (ghostEnter s p6') (.ok (.ret (.bool false) p7) s1) :=
    Ev.ite ld (EvIf.true ld (Ev.mono ld (g2 _ _ _ _) (by decide))
      (Ev.mono ld (Ev.ret ld (k := 0) (by intro h; cases h) (Ev.litBool ld)) (by decide)))
  exact Ev.block ld (Ev.mono ld S1 (by decide) |> fun S => EvBody.stop ld (k := 22) S rfl)

theorem is_even_calls_int {s : State} {M nats srcs fn m} (h : LibEnv s M nats srcs) (hn : ∀ x ∈ evenNats, x ∈ nats)
    (hs : ∀ p ∈ mathSrcs, p ∈ srcs) (hm : M m) (hsrc : IsSrc s fn math_is_even m) (n : Int) :
    ∃ s', Ext s s' ∧ ∀ env pos, Calls ld 25 fn [("n", .int n)] env pos s (.ok (.bool (Lib.isEvenM n)) s') := by
  have := calls_of_body1 ld (src := math_is_even) (r := fun s' => .ok (.bool (decide (Int.fmod n 2 = 0))) s') rfl rfl rfl
    (by decide) h hm hsrc (.int n) (fun _ ctx _ => parity_body_int ld ctx hn hs)
  rw [show Lib.isEvenM n = decide (Int.fmod n 2 = 0) from rfl]; exact this

theorem is_odd_calls_int {s : State} {M nats srcs fn m} (h : LibEnv s M nats srcs) (hn : ∀ x ∈ evenNats, x ∈ nats)
    (hs : ∀ p ∈ mathSrcs, p ∈ srcs) (hm : M m) (hsrc : IsSrc s fn math_is_odd m) (n : Int) :
    ∃ s', Ext s s' ∧ ∀ env pos, Calls ld 25 fn [("n", .int n)] env pos s (.ok (.bool (Lib.isOddM n)) s') := by
  have := calls_of_body1 ld (src := math_is_odd) (r := fun s' => .ok (.bool (decide (Int.fmod n 2 = 1))) s') rfl rfl rfl
    (by decide) h hm hsrc (.int n) (fun _ ctx _ => parity_body_int ld ctx hn hs)
  rw [show Lib.isOddM n = decide (Int.fmod n 2 = 1) from rfl]; exact this

theorem is_even_calls_nonnum {s : State} {M nats srcs fn m} (h : LibEnv s M nats srcs) (hn : ∀ x ∈ evenNats, x ∈ nats)
    (hs : ∀ p ∈ mathSrcs, p ∈ srcs) (hm : M m) (hsrc : IsSrc s fn math_is_even m) (v : RVal) (h1 : v.isNumerical = false) :
    ∃ s', Ext s s' ∧ ∀ env pos, Calls ld 25 fn [("n", v)] env pos s (.ok (.bool false) s') :=
  calls_of_body1 ld (src := math_is_even) (r := fun s' => .ok (.ret (.bool false) (guardRetPos (lamBody math_is_even))) s')
    rfl rfl rfl (by decide) h hm hsrc v (fun _ ctx _ => parity_body_nonnum ld h1 ctx hn hs)

theorem is_odd_calls_nonnum {s : State} {M nats srcs fn m} (h : LibEnv s M nats srcs) (hn : ∀ x ∈ evenNats, x ∈ nats)
    (hs : ∀ p ∈ mathSrcs, p ∈ srcs) (hm : M m) (hsrc : IsSrc s fn math_is_odd m) (v : RVal) (h1 : v.isNumerical = false) :
    ∃ s', Ext s s' ∧ ∀ env pos, Calls ld 25 fn [("n", v)] env pos s (.ok (.bool false) s') :=
  calls_of_body1 ld (src := math_is_odd) (r := fun s' => .ok (.ret (.bool false) (guardRetPos (lamBody math_is_odd))) s')
    rfl rfl rfl (by decide) h hm hsrc v (fun _ ctx _ => parity_body_nonnum ld h1 ctx hn hs)

/-! ### predicate.ckl `is_zero`, `is_negative`, `is_positive` -/

/-- `is_numeric(obj)` in a frame binding `obj` -/
theorem numeric_obj {s : State} {M nats srcs c m} (v : RVal)
    (ctx : Ctx s M nats srcs c m [("obj", v)]) (hn : ∀ x ∈ mathNats, x ∈ nats) (hs : ∀ p ∈ mathSrcs, p ∈ srcs) :
    ∃ s1, Ext s s1 ∧ ∀ p4 p5 p6,
      Ev ld 16 c (.call (.ident "is_numeric" p4) [none] [.ident "obj" p5] p6) s (.ok (.bool v.isNumerical) s1) := by
  obtain ⟨f1, m1, hl1, hm1, hsrc1⟩ := ctx.src (x := "is_numeric") (src := type_is_numeric) (hs _ (by simp [mathSrcs])) (by rfl)
  obtain ⟨s1, e1, c1⟩ := is_numeric_calls ld ctx.env (mathNats_type hn) (mathSrcs_numeric hs) hm1 hsrc1 v
  refine ⟨s1, e1, fun p4 p5 p6 => ?_⟩
  have E1 := Ev.callSrc1 ld (k := 13) (p := p4) hl1 hsrc1 rfl (by decide) (by trivial)
    (Ev.ident ld (p := p5) (ctx.var (x := "obj") (by rfl))) (Calls.mono ld (c1 c p6) (by decide))
  rw [wrapCall_ok] at E1
  exact E1

/-- `is_numeric(obj) and obj OP 0` for a pure comparison built-in `OP` whose value on `(v, 0)` is `t v` for numeric `v` -/
theorem predicate_body {s : State} {M nats srcs c m} (v : RVal) (op : String) (t : RVal → Bool)
    {p1 p2 p3 p4 p5 p6 p7 p8 : Pos}
    (ctx : Ctx s M nats srcs c m [("obj", v)]) (hn : ∀ x ∈ mathNats, x ∈ nats) (hs : ∀ p ∈ mathSrcs, p ∈ srcs)
    (hop : op ∈ mathNats) (hne : op ≠ "obj") (hargs : nativeArgNames op = some ["a", "b"])
    (hsem : v.isNumerical = true → ∀ d pos (s : State), ∃ mm, callPure op [("a", v), ("b", .int 0)] d pos = some mm ∧
      mm s = .ok (.bool (t v)) s) :
    ∃ s', Ext s s' ∧ Ev ld 19 c (.and [.call (.ident "is_numeric" p1) [none] [.ident "obj" p2] p3,
        .call (.ident op p4) [some "a", some "b"] [.ident "obj" p5, .lit (.int 0) p6] p7] p8) s
      (.ok (.bool (v.isNumerical && t v)) s') := by
  obtain ⟨s1, e1, g⟩ := numeric_obj ld v ctx hn hs
  refine ⟨s1, e1, ?_⟩
  cases hnum : v.isNumerical with
  | false =>
    have := g p1 p2 p3; rw [hnum] at this
    simpa using Ev.mono ld (Ev.and_false ld (es := [_]) (p := p8) this) (by decide)
  | true =>
    have G := g p1 p2 p3; rw [hnum] at G
    have ctx1 := ctx.ext e1
    obtain ⟨i, hl⟩ := ctx1.nat (x := op) (hn _ hop) (by simp [dictGet, hne])
    obtain ⟨mm, hm1, hm2⟩ := hsem hnum (div0Value s1 c) p7 s1
    have A := Ev.natAB ld (k := 12) (p := p4) (pos := p7) hl hargs (by trivial) (by trivial)
      (Ev.ident ld (p := p5) (ctx1.var (x := "obj") (by rfl))) (Ev.litInt ld (p := p6) (n := 0)) hm1 hm2
    rw [wrapCall_ok] at A
    simpa using Ev.and_true2 ld (p := p8) G A

/-- the value of `is_zero` -/
def isZeroV : RVal → Bool
  | .int n => decide (n = 0)
  | .dec m e => numEq m e 0 0
  | _ => false

/-- the value of `is_negative` -/
def isNegativeV : RVal → Bool
  | .int n => decide (n < 0)
  | .dec m e => numLt m e 0 0
  | _ => false

theorem is_zero_calls {s : State} {M nats srcs fn m} (h : LibEnv s M nats srcs) (hn : ∀ x ∈ mathNats, x ∈ nats)
    (hs : ∀ p ∈ mathSrcs, p ∈ srcs) (hm : M m) (hsrc : IsSrc s fn predicate_is_zero m) (v : RVal) :
    ∃ s', Ext s s' ∧ ∀ env pos, Calls ld 20 fn [("obj", v)] env pos s (.ok (.bool (isZeroV v)) s') := by
  have := calls_of_body1 ld (src := predicate_is_zero)
    (r := fun s' => .ok (.bool (v.isNumerical && isZeroV v)) s') rfl rfl rfl (by decide) h hm hsrc v
    (fun _ ctx _ => predicate_body ld v "equals" isZeroV ctx hn hs (by decide) (by decide) rfl (by
      intro hnum d pos s
      refine ⟨_, pure_equals _ _ _ _, ?_⟩
      cases v <;> simp_all [RVal.isNumerical, RVal.isInt, RVal.isDecimal, isZeroV, rveq, rveqF, boolV]))
  have hv : (v.isNumerical && isZeroV v) = isZeroV v := by
    cases v <;> simp [RVal.isNumerical, RVal.isInt, RVal.isDecimal, isZeroV]
  simpa [postCall, hv] using this

theorem is_negative_calls {s : State} {M nats srcs fn m} (h : LibEnv s M nats srcs) (hn : ∀ x ∈ mathNats, x ∈ nats)
    (hs : ∀ p ∈ mathSrcs, p ∈ srcs) (hm : M m) (hsrc : IsSrc s fn predicate_is_negative m) (v : RVal) :
    ∃ s', Ext s s' ∧ ∀ env pos, Calls ld 20 fn [("obj", v)] env pos s (.ok (.bool (isNegativeV v)) s') := by
  have := calls_of_body1 ld (src := predicate_is_negative)
    (r := fun s' => .ok (.bool (v.isNumerical && isNegativeV v)) s') rfl rfl rfl (by decide) h hm hsrc v
    (fun _ ctx _ => predicate_body ld v "less" isNegativeV ctx hn hs (by decide) (by decide) rfl (by
      intro hnum d pos s
      refine ⟨_, pure_less _ _ _ _, ?_⟩
      cases v <;> simp_all [RVal.isNumerical, RVal.isInt, RVal.isDecimal, isNegativeV, EvalM.bind_apply, cmpLt_int,
        cmpLt_dec_int, EvalM.pure_apply, boolV]))
  have hv : (v.isNumerical && isNegativeV v) = isNegativeV v := by
    cases v <;> simp [RVal.isNumerical, RVal.isInt, RVal.isDecimal, isNegativeV]
  simpa [postCall, hv] using this

/-- the value of `is_positive` on ints and non-numbers -/
def isPositiveV : RVal → Bool
  | .int n => decide (0 < n)
  | _ => false

theorem is_positive_calls {s : State} {M nats srcs fn m} (h : LibEnv s M nats srcs) (hn : ∀ x ∈ mathNats, x ∈ nats)
    (hs : ∀ p ∈ mathSrcs, p ∈ srcs) (hm : M m) (hsrc : IsSrc s fn predicate_is_positive m) (v : RVal)
    (hd : v.isDecimal = false) :
    ∃ s', Ext s s' ∧ ∀ env pos, Calls ld 20 fn [("obj", v)] env pos s (.ok (.bool (isPositiveV v)) s') := by
  have := calls_of_body1 ld (src := predicate_is_positive)
    (r := fun s' => .ok (.bool (v.isNumerical && isPositiveV v)) s') rfl rfl rfl (by decide) h hm hsrc v
    (fun _ ctx _ => predicate_body ld v "greater" isPositiveV ctx hn hs (by decide) (by decide) rfl (by
      intro hnum d pos s
      refine ⟨_, pure_greater _ _ _ _, ?_⟩
      cases v <;> simp_all [RVal.isNumerical, RVal.isInt, RVal.isDecimal, isPositiveV, EvalM.bind_apply, cmpGt_int,
        EvalM.pure_apply, boolV]))
  have hv : (v.isNumerical && isPositiveV v) = isPositiveV v := by
    cases v <;> simp [RVal.isNumerical, RVal.isInt, RVal.isDecimal, isPositiveV]
  simpa [postCall, hv] using this

/-! ### core.ckl `non_empty`, `const` -/

/-- `a == ''` -/
def isEmptyStr : RVal → Bool
  | .str t => t.isEmpty
  | _ => false

theorem rveq_emptyStr (s : State) (a : RVal) : rveq s a (.str []) = isEmptyStr a := by
  cases a <;> simp [rveq, rveqF, isEmptyStr]

theorem non_empty_body {s : State} {M nats srcs c m} (a b : RVal)
    (ctx : Ctx s M nats srcs c m [("a", a), ("b", b)]) (hn : "equals" ∈ nats) :
    Ev ld 6 c (lamBody core_non_empty) s (.ok (if isEmptyStr a then b else a) s) := by
  obtain ⟨i, hl⟩ := ctx.nat (x := "equals") hn (by rfl)
  have A : ∀ p1 p2 p3 p4, Ev ld 4 c (.call (.ident "equals" p1) [some "a", some "b"] [.ident "a" p2, .lit (.str []) p3] p4) s
      (.ok (.bool (isEmptyStr a)) s) := by
    intro p1 p2 p3 p4
    have A := Ev.natAB ld (k := 0) (p := p1) (pos := p4) hl (by rfl) (by trivial) (by trivial)
      (Ev.ident ld (p := p2) (ctx.var (x := "a") (by rfl))) (Ev.litStr ld (p := p3) (t := [])) (pure_equals _ _ _ _) rfl
    rwa [wrapCall_ok, rveq_emptyStr] at A
  cases he : isEmptyStr a with
  | true =>
    rw [he] at A
    exact Ev.mono ld (Ev.ite ld (EvIf.true ld (A _ _ _ _) (Ev.ident ld (ctx.var (x := "b") (by rfl))))) (by decide)
  | false =>
    rw [he] at A
    exact Ev.mono ld (Ev.ite ld (EvIf.false ld (A _ _ _ _) (EvIf.else ld (Ev.ident ld (ctx.var (x := "a") (by rfl)))))) (by decide)

theorem non_empty_calls {s : State} {M nats srcs fn m} (h : LibEnv s M nats srcs) (hn : "equals" ∈ nats)
    (hm : M m) (hsrc : IsSrc s fn core_non_empty m) (a b : RVal) :
    ∃ s', Ext s s' ∧ ∀ env pos, Calls ld 7 fn [("a", a), ("b", b)] env pos s
      (postCall (.ok (if isEmptyStr a then b else a) s')) :=
  calls_of_body2 ld (src := core_non_empty) (r := fun s' => .ok (if isEmptyStr a then b else a) s') rfl rfl rfl
    (by decide) (by decide) h hm hsrc a b (fun s0 ctx _ => ⟨s0, Ext.refl _, non_empty_body ld a b ctx hn⟩)

/-- the inner function of `const`: `fn(a) val` -/
def constInner : Node → List String × List Node × Node
  | .lambda ps ds b _ => (ps, ds, b)
  | _ => ([], [], .absent)

theorem const_calls {s : State} {M nats srcs fn m} (h : LibEnv s M nats srcs)
    (hm : M m) (hsrc : IsSrc s fn core_const m) (val : RVal) :
    ∃ s', Ext s s' ∧
      (s'.cell s.heap.size = some (.closure s.frames.size ["a"] [.absent] (constInner (lamBody core_const)).2.2 "lambda") ∧
        (s'.frame s.frames.size).vars = [("val", val)] ∧ s.frames.size < s'.frames.size) ∧
      ∀ env pos, Calls ld 2 fn [("val", val)] env pos s (.ok (.closure s.heap.size) s') :=
  calls_of_body1Q ld (src := core_const) (r := fun s' => .ok (.closure s.heap.size) s') rfl rfl rfl
    (by decide) h hm hsrc val (fun s0 ctx _ hh => by
      have E : Ev ld 1 s.frames.size (lamBody core_const) s0 _ := Ev.lambda ld
      refine ⟨(s0.alloc (.closure s.frames.size ["a"] [.absent] (constInner (lamBody core_const)).2.2 "lambda")).1,
        (Ext.refl s0).alloc _, ?_, ?_, ?_, ?_⟩
      · rw [← hh]; exact E
      · rw [← hh]; exact cell_alloc_new _ _
      · show (s0.frame _).vars = _; exact ctx.fr.vars
      · exact ctx.clt)

/-- calling the function value `const(val)` returned: `val`, whatever the argument -/
theorem const_inner_calls {s' : State} {c a : Nat} {body : Node} {p : Pos} {nm : String} (val x : RVal)
    (hcell : s'.cell a = some (.closure c ["a"] [.absent] body nm)) (hbody : body = .ident "val" p)
    (hvars : (s'.frame c).vars = [("val", val)]) (hc : c < s'.frames.size) :
    ∃ s'', Ext s' s'' ∧ ∀ env pos, Calls ld 2 (.closure a) [("a", x)] env pos s' (postCall (.ok val s'')) := by
  subst hbody
  refine ⟨calleeState s' c ["a"] [("a", x)], calleeState_ext .., fun env pos => ?_⟩
  refine Calls.closure ld hcell rfl (by decide) (by intro p hp; simp at hp; subst hp; rfl) (Ev.ident ld ?_)
  have hfr := calleeState_frame1 s' hc "a" x
  have hsz := calleeState_size s' c [("a", x)] ["a"]
  have hold : (calleeState s' c ["a"] [("a", x)]).frame c = s'.frame c := (calleeState_ext s' c [("a", x)] ["a"]).frame c hc
  unfold State.lookup
  rw [hsz, State.lookupF]
  simp only [hfr.vars, hfr.parent, dictGet, show ¬ ("val" = "a") by decide, if_false]
  rw [State.lookupF]
  simp only [hold, hvars, dictGet, if_true]

end Ckl.C19Src
