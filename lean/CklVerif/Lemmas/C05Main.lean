/-
  C05 — assembling the induction: every function of the evaluator keeps the block
  counters balanced, for every fuel.
-/
import CklVerif.Lemmas.C05MutualEval
namespace Ckl.C05
open Ckl

theorem allBal {ld : Loader} (hNat : NativeBalanced ld) : ∀ fuel, AllBal ld fuel := by
  have hN : ∀ s0 name args, Tr s0 (ld.nativeSem name args) :=
    fun s0 name args => Tr.of_post (hNat name args) s0
  intro fuel
  induction fuel with
  | zero => exact allBal_zero ld
  | succ k ih =>
    exact {
      eval := step_eval ih
      evalAnd := step_evalAnd ih
      evalOr := step_evalOr ih
      evalIf := step_evalIf ih
      evalSeq := step_evalSeq ih
      evalItems := step_evalItems ih
      evalPairs := step_evalPairs ih
      evalBody := step_evalBody ih
      evalFinally := step_evalFinally ih
      tryHandlers := step_tryHandlers ih
      invoke := step_invoke ih
      evalArgs := step_evalArgs ih
      callFn := step_callFn hN ih
      bindParams := step_bindParams ih
      evalFor := step_evalFor ih
      forItems := step_forItems ih
      forListLive := step_forListLive ih
      forString := step_forString ih
      whileLoop := step_whileLoop ih
      comprStep := step_comprStep ih
      comprLoop := step_comprLoop ih
      comprProduct := step_comprProduct ih
      comprParallel := step_comprParallel ih
      nativeSorted := step_nativeSorted ih
      sortedOuter := step_sortedOuter ih
      sortedInner := step_sortedInner ih
      call1 := step_call1 ih
      call2 := step_call2 ih
      evalRequire := step_evalRequire ih
      loadModule := step_loadModule ih }

/-- the driver's default interpretation of the unmodelled natives abstains (`unsupported`) -/
theorem default_nativeSem_balanced : NativeBalanced {} := by
  intro name args s
  exact fun h => h.elim

/-- more generally: any loader that keeps the default `nativeSem` -/
theorem nativeBalanced_of_abstains {ld : Loader}
    (h : ∀ name args s, ∃ w, ld.nativeSem name args s = .fail (.unsupported w) s) :
    NativeBalanced ld := by
  intro name args s
  obtain ⟨w, hw⟩ := h name args s
  rw [hw]; exact fun h => h.elim

end Ckl.C05
