/-
  C16 helper library: "a reference returned by this computation is a NEW cell" (`FreshRes`),
  possibly up to an explicit set `A` of allowed exceptions (values handed through unchanged).
-/
import CklVerif.Lemmas.C16Natives
namespace Ckl

/-- the value of a successful outcome is allowed by `A`, or it is not a reference, or it is a
    reference to a cell allocated by the computation (`≥` the old heap size) -/
def FreshOut (A : RVal → Prop) (s : State) : Out RVal → Prop
  | .ok v s' => A v ∨ ∀ r, v = .ref r → s.heap.size ≤ r ∧ r < s'.heap.size
  | _ => True

theorem FreshOut.mono {A : RVal → Prop} {s0 s : State} {o : Out RVal} (h : FreshOut A s o)
    (hle : s0.heap.size ≤ s.heap.size) : FreshOut A s0 o := by
  cases o with
  | ok v s' =>
    rcases h with h | h
    · exact Or.inl h
    · exact Or.inr (fun r hr => ⟨Nat.le_trans hle (h r hr).1, (h r hr).2⟩)
  | err _ _ _ _ _ => trivial
  | fail _ _ => trivial

structure FreshRes (A : RVal → Prop) (m : EvalM RVal) : Prop where
  run : ∀ s, FreshOut A s (m s)

namespace FreshRes
variable {A : RVal → Prop}

theorem pure_nonref (v : RVal) (h : ∀ r, v ≠ .ref r) : FreshRes A (Pure.pure v) :=
  ⟨fun _ => Or.inr (fun r hr => absurd hr (h r))⟩

theorem pure_allowed (v : RVal) (h : A v) : FreshRes A (Pure.pure v) := ⟨fun _ => Or.inl h⟩

theorem bind {α} {m : EvalM α} {f : α → EvalM RVal} (hm : Allocates m)
    (hf : ∀ x, FreshRes A (f x)) : FreshRes A (m >>= f) := by
  constructor
  intro s
  rw [EvalM.bind_apply]
  have := hm.run s
  cases h : m s with
  | ok x s1 =>
    rw [h] at this
    exact ((hf x).run s1).mono this.size_le
  | err v msg p t s1 => trivial
  | fail k s1 => trivial

theorem throwV (v : RVal) (msg : String) (pos : Pos) : FreshRes A (throwV v msg pos) := ⟨fun _ => trivial⟩
theorem throwE (msg : String) (pos : Pos) : FreshRes A (throwE msg pos) := ⟨fun _ => trivial⟩
theorem unsupported (w : String) : FreshRes A (unsupported w) := ⟨fun _ => trivial⟩
theorem failM (f : Fail) : FreshRes A (failM f) := ⟨fun _ => trivial⟩
theorem allocM (c : Cell) : FreshRes A (allocM c) := by
  constructor; intro s
  refine Or.inr (fun r hr => ?_)
  cases hr
  simp
theorem newList (xs : List RVal) : FreshRes A (newList xs) := allocM _
theorem addSet (items : List RVal) : FreshRes A (addSet items) := by
  unfold Ckl.addSet
  exact bind Allocates.getS (fun _ => allocM _)
theorem floatResult (x : Float) (pos : Pos) (w : String) : FreshRes A (floatResult x pos w) := by
  unfold Ckl.floatResult
  split
  · exact pure_nonref _ (by intro r h; cases h)
  · exact unsupported _

end FreshRes

macro "fresh_step" : tactic => `(tactic| first
  | exact FreshRes.throwV _ _ _
  | exact FreshRes.throwE _ _
  | exact FreshRes.unsupported _
  | exact FreshRes.failM _
  | exact FreshRes.allocM _
  | exact FreshRes.newList _
  | exact FreshRes.addSet _
  | exact FreshRes.floatResult _ _ _
  | (apply FreshRes.pure_nonref; intro r h; cases h; done)
  | (apply FreshRes.pure_allowed; first | rfl | assumption)
  | apply FreshRes.bind
  | alloc_step)

macro "fresh!" : tactic => `(tactic| repeat' fresh_step)

namespace FreshRes
variable {A : RVal → Prop}

/-- `list(x)`: a new list, except that a list argument is returned itself -/
theorem asListArg (v : RVal) (pos : Pos) : FreshRes (fun r => r = v) (asListArg v pos) := by
  unfold Ckl.asListArg
  have := fun c => Allocates.collAsList c
  fresh!

/-- `set(x)`: a new set, except that a set argument is returned itself -/
theorem asSetArg (v : RVal) (pos : Pos) : FreshRes (fun r => r = v) (asSetArg v pos) := by
  unfold Ckl.asSetArg
  fresh!

/-- the date results are never references -/
theorem dateResM (r : DateRes) (pos : Pos) : FreshRes A (dateResM r pos) := by
  unfold Ckl.dateResM
  fresh!
theorem callDate (name : String) (args : List (String × RVal)) (pos : Pos) (m : EvalM RVal)
    (h : callDate name args pos = some m) : FreshRes A m := by
  unfold Ckl.callDate at h
  split at h <;> first | (injection h with h; subst h; exact dateResM _ _) | (cases h)
theorem nativeAdd (a b : RVal) (pos : Pos) : FreshRes A (nativeAdd a b pos) := by
  unfold Ckl.nativeAdd
  have := fun r p => dateResM (A := A) r p
  have := fun c => Allocates.collAsList c
  have := fun v p => Allocates.asStringM v p
  fresh!
theorem nativeSub (a b : RVal) (pos : Pos) : FreshRes A (nativeSub a b pos) := by
  unfold Ckl.nativeSub
  have := fun r p => dateResM (A := A) r p
  have := fun c => Allocates.collAsList c
  fresh!
theorem nativeMul (a b : RVal) (pos : Pos) : FreshRes A (nativeMul a b pos) := by
  unfold Ckl.nativeMul
  fresh!
theorem nativeMod (a b : RVal) (pos : Pos) : FreshRes A (nativeMod a b pos) := by
  unfold Ckl.nativeMod
  fresh!
/-- `div`: the only reference it can return is the value of `DIV_0_VALUE` -/
theorem nativeDiv (a b : RVal) (d : Option RVal) (pos : Pos) :
    FreshRes (fun r => d = some r) (nativeDiv a b d pos) := by
  unfold Ckl.nativeDiv
  fresh!

end FreshRes

/-- natives that (may) return one of their arguments, or `DIV_0_VALUE`, unchanged -/
def passThrough : List String := ["identity", "if_null", "list", "set", "div"]

end Ckl
