/-
  C19 — the collection and numeric library functions satisfy their defining laws.

  Model: `CklVerif/Model/Lib.lean` (namespace `Ckl.Lib`), the functions of modules/set.ckl,
  list.ckl, core.ckl, stat.ckl, math.ckl and the arithmetic / bit built-ins of functions.py with
  the loop structure of the code.  A runtime error of the code is `none`.

  1  set algebra with respect to `veq`-membership
  2  `unique`
  3  list functions (`reverse`, `flatten`, `zip`, `enumerate`, `range`, `interval`, `chunks`, `pairs`,
     `grouped`, `filter`, `map_list`, `reduce`, `sum`, `prod`, `count`, `any`, `all`, `first`, `last`, `rest`)
  4  permutation invariance of `mean`, `median*`, `min`, `max` on ints
  5  integer functions (`pow`, `gcd`, `lcm`, `abs`, `sign`, `div`, `mod`, `is_even`, `is_odd`)
  6  32-bit functions against `BitVec 32`
-/
import CklVerif.Lemmas.C19Int
import CklVerif.Lemmas.C19Bits
import CklVerif.Lemmas.C19Set
import CklVerif.Lemmas.C19List
import CklVerif.Lemmas.C19Loops
import CklVerif.Lemmas.C19Stat
import CklVerif.Lemmas.C19Bits2
import CklVerif.Lemmas.C19Set2
import CklVerif.Lemmas.C19Grouped
import CklVerif.Lemmas.C19Perms
namespace Ckl.C19
open Ckl Ckl.Lib

/-! ## 1  set algebra

  The arguments `a b` are the enumerations of the two collections (lists or sets; the code works on
  both), the result is the content of the result set in insertion order; `NoDupV s` says that no two
  elements of `s` are `veq`-equal.  The set value the code returns enumerates as
  `sortedItems dr result` (`memV_sortedItems`, `noDupV_sortedItems`). -/

theorem memV_unionM (x : Val) (a b : List Val) : memV x (unionM a b) = (memV x a || memV x b) := by
  unfold unionM
  rw [memV_appendAllSet, memV_appendAllSet, memV_nil, Bool.false_or]

theorem memV_intersectionM (x : Val) (a b : List Val) :
    memV x (intersectionM a b) = (memV x a && memV x b) := by
  unfold intersectionM
  rw [memV_foldl_setAdd_if (fun x => memV x b), memV_nil, Bool.false_or,
    memV_filter_respects (respects_memV b)]

theorem memV_diffM (x : Val) (a b : List Val) : memV x (diffM a b) = (memV x a && !memV x b) := by
  unfold diffM
  rw [memV_foldl_setAdd_if (fun x => !memV x b), memV_nil, Bool.false_or,
    memV_filter_respects (respects_not_memV b)]

theorem memV_sortedItems (dr : DecRenderer) (x : Val) (s : List Val) :
    memV x (sortedItems dr s) = memV x s :=
  memV_perm (C07.sortBy_perm _ s) x

theorem memV_symmetricDiffM (dr : DecRenderer) (x : Val) (a b : List Val) :
    memV x (symmetricDiffM dr a b) = xor (memV x a) (memV x b) := by
  unfold symmetricDiffM
  rw [memV_unionM, memV_sortedItems, memV_sortedItems, memV_diffM, memV_diffM]
  cases memV x a <;> cases memV x b <;> rfl

theorem noDupV_unionM (a b : List Val) : NoDupV (unionM a b) :=
  noDupV_appendAllSet (noDupV_appendAllSet List.Pairwise.nil a) b

theorem noDupV_intersectionM (a b : List Val) : NoDupV (intersectionM a b) :=
  noDupV_foldl_setAdd_if (fun x => memV x b) a List.Pairwise.nil

theorem noDupV_diffM (a b : List Val) : NoDupV (diffM a b) :=
  noDupV_foldl_setAdd_if (fun x => !memV x b) a List.Pairwise.nil

theorem noDupV_symmetricDiffM (dr : DecRenderer) (a b : List Val) : NoDupV (symmetricDiffM dr a b) :=
  noDupV_unionM _ _

/-- enumerating a set keeps it duplicate-free -/
theorem noDupV_sortedItems (dr : DecRenderer) {s : List Val} (h : NoDupV s) :
    NoDupV (sortedItems dr s) :=
  ((C07.sortBy_perm (vltWith dr) s).pairwise_iff (fun {x y} hxy => by rw [veq_symm']; exact hxy)).mpr h

example : NoDupV [.int 1, .str ['a']] := by decide

/-- which representative survives: the result is a sublist of `a ++ b` (the first of each class of
    `veq`-equal elements), resp. of `a` -/
theorem unionM_sublist (a b : List Val) : (unionM a b).Sublist (a ++ b) := by
  unfold unionM
  rw [appendAllSet_eq, appendAllSet_eq]
  refine (foldl_setAdd_if_sublist _ b _).trans ?_
  have := foldl_setAdd_if_sublist (fun _ => true) a []
  simpa using this.append_right b

theorem intersectionM_sublist (a b : List Val) : (intersectionM a b).Sublist a := by
  have := foldl_setAdd_if_sublist (fun x => memV x b) a []
  rw [List.nil_append] at this
  exact this

theorem diffM_sublist (a b : List Val) : (diffM a b).Sublist a := by
  have := foldl_setAdd_if_sublist (fun x => !memV x b) a []
  rw [List.nil_append] at this
  exact this

/-- `union(a, b)` holds exactly what the CPython set built from the elements of `a` then `b` holds
    (`dedupKeepFirst`: the first of each class of equal values), so the value returned is
    `mkSet (a ++ b)` -/
theorem unionM_eq_dedupKeepFirst (a b : List Val) : unionM a b = dedupKeepFirst (a ++ b) :=
  unionM_eq_dedup a b

theorem union_value_eq_mkSet (dr : DecRenderer) (a b : List Val) :
    Val.set (sortedItems dr (unionM a b)) = mkSet dr (a ++ b) := by
  rw [unionM_eq_dedup]; rfl

-- `1` and `1.0` are one element; the resident (first) one is kept
example : unionM [.int 1, .dec 1 0, .int 2] [.dec 2 0, .int 3] = [.int 1, .int 2, .int 3] := by rfl
example : symmetricDiffM decRepr [.int 1, .int 2, .int 3] [.int 3, .dec 4 0, .int 4]
    = [.int 1, .int 2, .dec 4 0] := by rfl

/-! ## 2  unique -/

/-- `unique(lst, key)`: a sublist of the input whose keys are pairwise different, covering every key
    of the input, each kept element being the FIRST input element with its key -/
theorem uniqueM_spec (key : Val → Val) (xs : List Val) :
    (uniqueM key xs).Sublist xs ∧
    (uniqueM key xs).Pairwise (fun a b => veq (key a) (key b) = false) ∧
    (∀ x ∈ xs, memV (key x) ((uniqueM key xs).map key) = true) ∧
    (∀ y ∈ uniqueM key xs, xs.find? (fun x => veq (key x) (key y)) = some y) := by
  refine ⟨uniqueGo_sublist key [] xs, uniqueGo_keys_pairwise key [] xs, ?_, uniqueGo_first key [] xs⟩
  intro x hx
  rcases uniqueGo_covers key [] xs x hx with h | h
  · simp [memV_nil] at h
  · exact h

/-- with the default key, `unique(lst)` lists the set built from `lst`, in insertion order -/
theorem uniqueM_id_eq_dedupKeepFirst (xs : List Val) : uniqueM id xs = dedupKeepFirst xs :=
  uniqueM_id_eq_dedup xs

example : uniqueM id [.int 1, .dec 1 0, .int 2, .int 1] = [.int 1, .int 2] := by rfl

/-! ## 3  list functions -/

theorem reverseM_eq_reverse {α} (xs : List α) : reverseM xs = xs.reverse := reverseM_eq xs

/-- `flatten`: one level — a list element is replaced by its elements, anything else is kept -/
theorem flattenM_eq_flatMap (xs : List Val) : flattenM xs = xs.flatMap spliceOf := flattenM_eq xs

example : flattenM [.list [.int 1, .list [.int 2]], .int 3, .set [.int 4]]
    = [.int 1, .list [.int 2], .int 3, .set [.int 4]] := by rfl

theorem zipM_eq_zip (a b : List Val) :
    zipM a b = (List.zip a b).map (fun p => Val.list [p.1, p.2]) := zipM_eq a b

theorem enumerateM_spec (xs : List Val) :
    (enumerateM xs).length = xs.length ∧
    ∀ k : Nat, (enumerateM xs)[k]? = xs[k]?.map (fun x => Val.list [.int k, x]) := by
  refine ⟨enumerateFrom_length 0 xs, ?_⟩
  intro k
  have := enumerateFrom_getElem? 0 xs k
  simpa [enumerateM] using this

/-- `range(a, b, step)`, `step > 0`: `⌈(b - a) / step⌉` elements (none if `b ≤ a`), the `k`-th is
    `a + k * step` -/
theorem rangeM_pos {step : Int} (hs : 0 < step) (a b : Int) :
    (rangeM a b step).length = ((b - a + step - 1) / step).toNat ∧
    ∀ k : Nat, k < (rangeM a b step).length → (rangeM a b step)[k]? = some (a + k * step) :=
  ⟨rangeM_pos_length hs a b, fun k hk => rangeM_pos_getElem? hs a b k hk⟩

/-- `range(a, b, step)`, `step < 0`: `⌈(a - b) / |step|⌉` elements, the `k`-th is `a + k * step` -/
theorem rangeM_neg {step : Int} (hs : step < 0) (a b : Int) :
    (rangeM a b step).length = ((a - b + (-step) - 1) / (-step)).toNat ∧
    ∀ k : Nat, k < (rangeM a b step).length → (rangeM a b step)[k]? = some (a + k * step) :=
  ⟨rangeM_neg_length hs a b, fun k hk => rangeM_neg_getElem? hs a b k hk⟩

/-- `range(a, b, 0)` is empty (Python's `range` would raise) -/
theorem rangeM_step_zero (a b : Int) : rangeM a b 0 = [] := rangeM_zero a b

example : (0 : Int) < 3 := by decide
example : (-2 : Int) < 0 := by decide
example : rangeM 10 0 (-2) = [10, 8, 6, 4, 2] := by simp [rangeM, rangeDown]
example : rangeM 0 10 3 = [0, 3, 6, 9] := by simp [rangeM, rangeUp]

/-- `interval(a, b)`: the `b + 1 - a` integers `a, a + 1, …, b` -/
theorem intervalM_spec (a b : Int) :
    (intervalM a b).length = (b + 1 - a).toNat ∧
    ∀ k : Nat, k < (intervalM a b).length → (intervalM a b)[k]? = some (a + k) :=
  ⟨intervalM_length a b, fun k hk => intervalM_getElem? a b k hk⟩

/-- `chunks(lst, k)`: an error for `k ≤ 0`; otherwise the chunks concatenate to the input, all but
    the last have length `k`, the last has length `1..k` — except for the empty list, where the result
    is `[[]]` (one empty chunk), not `[]` -/
theorem chunksM_spec {α} (xs : List α) (k : Int) :
    (k ≤ 0 → chunksM xs k = none) ∧
    (0 < k → ∃ init last, chunksM xs k = some (init ++ [last]) ∧
      (init ++ [last]).flatten = xs ∧ (∀ c ∈ init, (c.length : Int) = k) ∧
      (last.length : Int) ≤ k ∧ (xs ≠ [] → 0 < last.length) ∧ (xs = [] → init = [] ∧ last = []) ∧
      (init ++ [last]).length = if xs = [] then 1 else (xs.length + k.toNat - 1) / k.toNat) := by
  constructor
  · intro h; simp [chunksM, h]
  · intro h
    have hk : 0 < k.toNat := by omega
    obtain ⟨init, last, e, h1, h2, h3, h4⟩ := chunksGo_shape hk xs
    refine ⟨init, last, ?_, ?_, ?_, ?_, h3, h4, ?_⟩
    · rw [← e]; simp [chunksM]; omega
    · rw [← e]; exact chunksGo_flatten _ xs
    · intro c hc; rw [h1 c hc]; omega
    · omega
    · rw [← e]; exact chunksGo_length hk xs

example : chunksM [1, 2, 3, 4] 3 = some [[1, 2, 3], [4]] := by simp [chunksM, chunksGo]
example : chunksM ([] : List Nat) 3 = some [[]] := by simp [chunksM, chunksGo]

/-- the two `sublist` calls of the loop are `take` / `drop` -/
theorem chunks_sublist_calls {α} (xs : List α) (k : Nat) (hk : k ≤ xs.length) :
    Seq.substr xs 0 (some (k : Int)) = xs.take k ∧ Seq.substr xs (k : Int) none = xs.drop k :=
  ⟨substr_zero_eq_take xs k hk, substr_eq_drop xs k hk⟩

example : (2 : Nat) ≤ [1, 2, 3].length := by decide

theorem pairsM_eq_zip_tail (xs : List Val) :
    pairsM xs = (List.zip xs xs.tail).map (fun p => Val.list [p.1, p.2]) := pairsM_eq xs

/-- `grouped`: the groups concatenate to the input; when `cmp(k, k) == 0` for the first key `k`,
    no group is empty.  (Otherwise the result starts with an empty group:
    `grouped([1, 2], cmp = fn(a, b) 1) = [[], [1], [2]]`.) -/
theorem groupedM_spec {α β} (eq0 : β → β → Bool) (key : α → β) (xs : List α) :
    (groupedM eq0 key xs).flatten = xs ∧
    ((∀ x, xs.head? = some x → eq0 (key x) (key x) = true) → ∀ g ∈ groupedM eq0 key xs, g ≠ []) := by
  cases xs with
  | nil => simp [groupedM]
  | cons x xs =>
    refine ⟨by simp [groupedM, groupedGo_flatten], ?_⟩
    intro hrefl
    have h := hrefl x rfl
    simp only [groupedM]
    unfold groupedGo
    simp only [h, Bool.not_true, Bool.false_eq_true, if_false]
    exact groupedGo_nonempty eq0 key xs (key x) _ [] (by simp) (by simp)

example : groupedM (fun (_ _ : Int) => false) id [1, 2] = [[], [1], [2]] := by decide
example : ∀ x, [(1 : Int), 1, 2].head? = some x → (fun (a b : Int) => a == b) (id x) (id x) = true := by
  simp

/-- the finer law of `grouped` (for `cmp(k, k) == 0` at the first key `k`): `current_key` is the key of
    the FIRST element of the current group, so every element of a group compares equal to the
    group's first element (`GroupOK`) — not necessarily to its predecessor — and the first elements
    of neighbouring groups compare different (`Boundary`) -/
theorem groupedM_fine_spec {α β : Type} (eq0 : β → β → Bool) (key : α → β) (x : α) (xs : List α)
    (hrefl : eq0 (key x) (key x) = true) :
    (∀ g ∈ groupedM eq0 key (x :: xs), GroupOK eq0 key g) ∧
    Adjacent (Boundary eq0 key) (groupedM eq0 key (x :: xs)) :=
  groupedM_fine eq0 key x xs hrefl

-- with the non-transitive `cmp = |a - b| ≤ 1`: 3 is compared with 1 (the group's first), not with 2
example : groupedM (fun (a b : Int) => decide ((a - b).natAbs ≤ 1)) id [1, 2, 3, 5, 6, 7]
    = [[1, 2], [3], [5, 6], [7]] := by decide
example : (fun (a b : Int) => decide ((a - b).natAbs ≤ 1)) (id 1) (id 1) = true := by decide

theorem filterM_eq_filter {α β} (pred : β → Bool) (key : α → β) (xs : List α) :
    filterM pred key xs = xs.filter (fun x => pred (key x)) := filterM_eq pred key xs

theorem mapListM_eq_map {α β} (f : α → β) (xs : List α) : mapListM f xs = xs.map f := mapListM_eq f xs

/-- `reduce`: an error on the empty list, else the left fold of the tail from the head -/
theorem reduceM_eq_foldl {α} (f : α → α → α) :
    reduceM f [] = none ∧ ∀ x rest, reduceM f (x :: rest) = some (rest.foldl f x) :=
  ⟨rfl, reduceM_cons f⟩

/-- `sum` on ints is the integer sum; it leaves the int-only model exactly when some element is not
    an int -/
theorem sumM_eq_sum (ns : List Int) : sumM (ns.map .int) = some ns.sum := sumM_ints ns

theorem sumM_none_iff (xs : List Val) : sumM xs = none ↔ ∃ v ∈ xs, ∀ n, v ≠ .int n := sumM_eq_none_iff xs

/-- `prod` on ints is the integer product; an error on the empty list -/
theorem prodM_eq_prod : prodM [] = none ∧ ∀ x rest, prodM (x :: rest) = some (x :: rest).prod :=
  ⟨rfl, prodM_eq⟩

theorem countM_eq_countP (xs : List Val) (e : Val) :
    countM xs e = (xs.countP (fun x => veq x e) : Int) := countM_eq xs e

theorem anyM_eq_any {α} (p : α → Bool) (xs : List α) : anyM p xs = xs.any p := anyM_eq p xs
theorem allM_eq_all {α} (p : α → Bool) (xs : List α) : allM p xs = xs.all p := allM_eq p xs

theorem first_last_rest {α} (xs : List α) :
    firstM xs = xs.head? ∧ lastM xs = xs.getLast? ∧ restM xs = xs.tail :=
  ⟨firstM_eq xs, lastM_eq xs, restM_eq xs⟩

/-- `permutations(lst)` (Heap's algorithm as written in list.ckl): every result is a permutation of the
    input and there are `n!` of them for a non-empty input; for the EMPTY list the result is `[]`,
    not `[[]]`.  (That the `n!` results are pairwise different positions-wise — i.e. that all
    permutations occur — is validated against the implementation but not proved here.) -/
theorem permutationsM_sound {α} (xs : List α) :
    (∀ p ∈ permutationsM xs, p.Perm xs) ∧
    (xs ≠ [] → (permutationsM xs).length = fact xs.length) ∧
    permutationsM ([] : List α) = [] :=
  ⟨permutationsM_perm xs, permutationsM_length xs, rfl⟩

example : permutationsM [1, 2, 3] = [[1, 2, 3], [2, 1, 3], [3, 1, 2], [1, 3, 2], [2, 3, 1], [3, 2, 1]] := by
  decide

/-! ## 4  permutation invariance (lists of ints) -/

/-- the sorted list of a permutation is the same list -/
theorem sorted_perm_invariant {xs ys : List Int} (hp : xs.Perm ys) : sortedInts xs = sortedInts ys :=
  sortedInts_perm_invariant hp

theorem sortedInts_spec (xs : List Int) :
    (sortedInts xs).Perm xs ∧ (sortedInts xs).Pairwise (fun a b => a ≤ b) :=
  ⟨sortedInts_perm xs, sortedInts_sorted xs⟩

theorem meanM_perm_invariant {xs ys : List Int} (hp : xs.Perm ys) : meanM xs = meanM ys := meanM_perm hp
theorem medianM_perm_invariant {xs ys : List Int} (hp : xs.Perm ys) : medianM xs = medianM ys :=
  medianM_perm hp
theorem medianLowM_perm_invariant {xs ys : List Int} (hp : xs.Perm ys) :
    medianLowM xs = medianLowM ys := medianLowM_perm hp
theorem medianHighM_perm_invariant {xs ys : List Int} (hp : xs.Perm ys) :
    medianHighM xs = medianHighM ys := medianHighM_perm hp
theorem min_perm_invariant {xs ys : List Int} (hp : xs.Perm ys) : minIntM xs = minIntM ys :=
  minIntM_perm hp
theorem max_perm_invariant {xs ys : List Int} (hp : xs.Perm ys) : maxIntM xs = maxIntM ys :=
  maxIntM_perm hp

example : ([3, 1, 2, 2] : List Int).Perm [2, 3, 2, 1] := by decide
example : medianM [3, 1, 2, 2] = some (.rat 4 2) ∧ medianM [2, 3, 2, 1] = some (.rat 4 2) := by decide
example : medianLowM [3, 1, 2, 7] = some 2 ∧ medianHighM [3, 1, 2, 7] = some 3 := by decide

/-- what the functions compute -/
theorem meanM_spec (xs : List Int) :
    meanM xs = if xs = [] then none else some (.rat xs.sum xs.length) := meanM_eq xs

theorem median_spec (xs : List Int) :
    medianM [] = none ∧
    (xs.length % 2 = 1 → medianM xs = (sortedInts xs)[xs.length / 2]?.map NumRes.int) ∧
    (xs.length % 2 = 0 → xs ≠ [] →
      ∃ a b, (sortedInts xs)[xs.length / 2 - 1]? = some a ∧ (sortedInts xs)[xs.length / 2]? = some b ∧
        medianM xs = some (.rat (a + b) 2)) ∧
    medianLowM xs = (if xs = [] then none else (sortedInts xs)[(xs.length - 1) / 2]?) ∧
    medianHighM xs = (sortedInts xs)[xs.length / 2]? :=
  ⟨medianM_nil, medianM_odd xs, medianM_even xs, medianLowM_eq xs, medianHighM_eq xs⟩

example : ([3, 1, 2] : List Int).length % 2 = 1 := by decide
example : ([3, 1, 2, 7] : List Int).length % 2 = 0 ∧ ([3, 1, 2, 7] : List Int) ≠ [] := by decide

/-- `min` / `max` of a list of ints: the least / greatest element (an error on the empty list) -/
theorem min_max_spec (xs : List Int) (m : Int) :
    (minIntM xs = some m ↔ m ∈ xs ∧ ∀ y ∈ xs, m ≤ y) ∧
    (maxIntM xs = some m ↔ m ∈ xs ∧ ∀ y ∈ xs, y ≤ m) :=
  ⟨minIntM_spec xs m, maxIntM_spec xs m⟩

/-! ## 5  integer functions -/

theorem powM_eq_pow (a : Int) (n : Nat) : powM a n = a ^ n := rfl

/-- the recursive `gcd` of math.ckl (with Python's floored `%`) is the gcd, for all ints -/
theorem gcdM_eq_Int_gcd (a b : Int) : gcdM a b = (Int.gcd a b : Int) := gcdM_eq_gcd a b

theorem gcdM_zero_zero : gcdM 0 0 = 0 := by rw [gcdM_eq_gcd]; rfl

/-- `lcm` is the lcm unless both arguments are zero, where it is the division-by-zero error -/
theorem lcmM_eq_Int_lcm (a b : Int) :
    (¬ (a = 0 ∧ b = 0) → lcmM a b = some (Int.lcm a b : Int)) ∧ lcmM 0 0 = none :=
  ⟨lcmM_eq_lcm a b, lcmM_zero_zero⟩

example : ¬ ((-4 : Int) = 0 ∧ (6 : Int) = 0) := by decide

theorem absM_spec (a : Int) : absM a = (a.natAbs : Int) := absM_eq_natAbs a
theorem signM_spec (a : Int) : signM a = Int.sign a := signM_eq_sign a

/-- `div` on ints truncates toward zero: the remainder is smaller than the divisor in absolute
    value and is zero or has the sign of the dividend; division by zero is an error -/
theorem truncDivM_spec (a b : Int) :
    truncDivM a 0 = none ∧
    (b ≠ 0 → truncDivM a b = some (Int.tdiv a b) ∧
      (a - Int.tdiv a b * b).natAbs < b.natAbs ∧
      (a - Int.tdiv a b * b = 0 ∨ Int.sign (a - Int.tdiv a b * b) = Int.sign a)) :=
  ⟨truncDivM_zero a, fun hb => ⟨truncDivM_eq_tdiv a b hb, tdiv_remainder a b hb⟩⟩

/-- `mod` / `%` on ints is the floored remainder: smaller than the divisor in absolute value,
    congruent to the dividend, zero or of the sign of the DIVISOR; modulus zero is an error -/
theorem modM_spec (a b : Int) :
    modM a 0 = none ∧
    (b ≠ 0 → modM a b = some (Int.fmod a b) ∧ (Int.fmod a b).natAbs < b.natAbs ∧
      b ∣ a - Int.fmod a b ∧ (Int.fmod a b = 0 ∨ Int.sign (Int.fmod a b) = Int.sign b)) :=
  ⟨modM_zero a, fun hb => ⟨modM_eq_fmod a b hb, fmod_natAbs_lt a b hb, dvd_sub_fmod a b, fmod_sign a b hb⟩⟩

example : (-3 : Int) ≠ 0 := by decide
example : truncDivM (-7) 2 = some (-3) ∧ modM (-7) 3 = some 2 ∧ modM 7 (-3) = some (-2) := by decide

theorem parity_spec (n : Int) : (isEvenM n = true ↔ 2 ∣ n) ∧ isOddM n = !isEvenM n :=
  ⟨isEvenM_iff n, isOddM_eq_not_isEvenM n⟩

/-! ## 6  32-bit functions -/

/-- on 32-bit words `bit_and`, `bit_or`, `bit_xor`, `bit_not` are the `BitVec 32` operations -/
theorem bitOps_eq_BitVec {a b : Int} (ha : 0 ≤ a) (ha' : a < 2 ^ 32) (hb : 0 ≤ b) (hb' : b < 2 ^ 32) :
    bitAnd a b = ((BitVec.ofNat 32 a.toNat &&& BitVec.ofNat 32 b.toNat).toNat : Int) ∧
    bitOr a b = ((BitVec.ofNat 32 a.toNat ||| BitVec.ofNat 32 b.toNat).toNat : Int) ∧
    bitXor a b = ((BitVec.ofNat 32 a.toNat ^^^ BitVec.ofNat 32 b.toNat).toNat : Int) ∧
    bitNot a = 2 ^ 32 - 1 - a ∧
    bitNot a = ((~~~ BitVec.ofNat 32 a.toNat).toNat : Int) :=
  ⟨bitAnd_eq_bitvec ha ha' hb hb', bitOr_eq_bitvec ha ha' hb hb', bitXor_eq_bitvec ha ha' hb hb',
    bitNot_eq ha ha', bitNot_eq_bitvec ha ha'⟩

example : (0 : Int) ≤ 0xAAAAAAAA ∧ (0xAAAAAAAA : Int) < 2 ^ 32 := by decide

/-- `bit_not` outside the 32-bit range, literally: `-a - 1`, plus `2^32` only when that is negative
    (so `bit_not(2^32) = -1` and `bit_not(-1) = 0`) -/
theorem bitNot_all (a : Int) : bitNot a = if 0 ≤ a then 2 ^ 32 - 1 - a else -a - 1 := bitNot_def a

/-- Python's `& | ^ ~ >>` on unbounded ints (the model's `pyAnd`, `pyOr`, `pyXor`, `~~~`, `pyShr`)
    act bit by bit on the infinite two's-complement representation: `intBit a i`, the parity of
    `⌊a / 2^i⌋`, which determines `a` -/
theorem pyBitwise_spec (a b : Int) (i : Nat) :
    intBit a i = decide (a / 2 ^ i % 2 = 1) ∧
    intBit (pyAnd a b) i = (intBit a i && intBit b i) ∧
    intBit (pyOr a b) i = (intBit a i || intBit b i) ∧
    intBit (pyXor a b) i = xor (intBit a i) (intBit b i) ∧
    intBit (~~~a) i = (!intBit a i) ∧
    ∀ n, intBit (pyShr a n) i = intBit a (n + i) :=
  ⟨intBit_eq_div_mod a i, intBit_pyAnd a b i, intBit_pyOr a b i, intBit_pyXor a b i, intBit_not a i,
    fun n => intBit_pyShr a n i⟩

theorem intBit_extensional {a b : Int} (h : ∀ i, intBit a i = intBit b i) : a = b := intBit_ext h

-- -6 = …11111010
example : intBit (-6) 0 = false ∧ intBit (-6) 1 = true ∧ intBit (-6) 2 = false ∧ intBit (-6) 70 = true := by
  decide

/-- masking: `a & 0xFFFFFFFF` is `a mod 2^32` for every int (two's complement for negatives) -/
theorem mask32_spec (a : Int) : pyAnd a mask32 = a % 2 ^ 32 := pyAnd_mask32 a

/-- `bit_rotate_left(a, n)` / `bit_rotate_right(a, n)` for EVERY int `a` and EVERY int `n` (also
    negative): the `BitVec 32` rotation of the low 32 bits of `a` by `n mod 32`, the non-negative
    residue — so a negative count `-n` rotates by `32 - n mod 32` in the same direction, i.e. by
    `n` in the opposite direction -/
theorem rotl_spec (a n : Int) :
    rotl a n = (((BitVec.ofNat 32 (a % 2 ^ 32).toNat).rotateLeft (n % 32).toNat).toNat : Int) :=
  rotl_eq_bitvec a n

theorem rotr_spec (a n : Int) :
    rotr a n = (((BitVec.ofNat 32 (a % 2 ^ 32).toNat).rotateRight (n % 32).toNat).toNat : Int) :=
  rotr_eq_bitvec a n

/-- a negative count rotates the other way -/
theorem rot_negative_count (a n : Int) : rotl a (-n) = rotr a n ∧ rotr a (-n) = rotl a n :=
  ⟨rotl_neg_eq_rotr a n, rotr_neg_eq_rotl a n⟩

example : rotl 1 (-1) = 2147483648 ∧ rotr 1 (-1) = 2 ∧ rotl (-1) 5 = 4294967295 := by
  rw [rotl_eq_bitvec, rotr_eq_bitvec, rotl_eq_bitvec]; decide

/-- `bit_shift_left(a, n) = a * 2^n`, `bit_shift_right(a, n) = ⌊a / 2^n⌋` for `n ≥ 0` (unbounded:
    nothing is cut to 32 bits); a negative count is a runtime error -/
theorem shift_spec (a : Int) (n : Nat) :
    shl a n = some (a * 2 ^ n) ∧ shr a n = some (a / 2 ^ n) := ⟨shl_eq a n, shr_eq a n⟩

theorem shift_neg (a : Int) {n : Int} (h : n < 0) : shl a n = none ∧ shr a n = none :=
  ⟨shl_neg a h, shr_neg a h⟩

example : (-1 : Int) < 0 := by decide

end Ckl.C19
