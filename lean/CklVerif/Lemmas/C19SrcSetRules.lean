import CklVerif.Lemmas.C19SrcSetBase
import CklVerif.Lemmas.C11BindDefs

/-!
  C19Src — set.ckl, part 2: the rules that were missing in the `Ev` calculus:
  `e in c` on list / set cells, `for x in <set cell>` (iteration over the sorted SNAPSHOT, invariant rule `forItems_inv`),
  one rule `Ev.forColl` for a loop over a list cell or a set cell that the body does not change,
  `require M import [sym as al]` for a module that is already in the module cache (`Ev.requireCached`),
  the built-ins `list(set)`, `append(set, x)`; `SameMods` (module cache and load stack unchanged).
-/
namespace Ckl.C19Src
open Ckl Ckl.C03
variable (ld : Loader)

/-! ### module cache and load stack unchanged -/

/-- the module cache and the load stack of `s'` are those of `s` (`Ext` does not talk about them) -/
def SameMods (s s' : State) : Prop := s'.modules = s.modules ∧ s'.modstack = s.modstack

theorem SameMods.refl (s : State) : SameMods s s := ⟨rfl, rfl⟩
theorem SameMods.trans {a b c : State} (h1 : SameMods a b) (h2 : SameMods b c) : SameMods a c :=
  ⟨h2.1.trans h1.1, h2.2.trans h1.2⟩
theorem SameMods.put {s s' : State} (h : SameMods s s') (c : EnvId) (x : String) (v : RVal) : SameMods s (s'.put c x v) := h
theorem SameMods.remove {s s' : State} (h : SameMods s s') (c : EnvId) (x : String) : SameMods s (s'.remove c x) := h
theorem SameMods.alloc {s s' : State} (h : SameMods s s') (c : Cell) : SameMods s (s'.alloc c).1 := h
theorem SameMods.setCell {s s' : State} (h : SameMods s s') (a : Nat) (c : Cell) : SameMods s (s'.setCell a c) := h
theorem SameMods.ghostEnter {s s' : State} (h : SameMods s s') (p : Pos) : SameMods s (ghostEnter s' p) := h
theorem SameMods.ghostFin {s s' : State} (h : SameMods s s') (p : Pos) : SameMods s (ghostFin s' p) := h
theorem SameMods.newEnv {s s' : State} (h : SameMods s s') (p : EnvId) : SameMods s (s'.newEnv p).1 := h

theorem calleeState_mods (s : State) (m : EnvId) (bound : List (String × RVal)) (ps : List String) :
    SameMods s (calleeState s m ps bound) := by
  unfold calleeState
  suffices ∀ (st : State), SameMods s st → SameMods s (ps.foldl (fun st p => match dictGet p bound with
      | some v => st.put s.frames.size p v | none => st) st) from this _ ((SameMods.refl s).newEnv m)
  induction ps with
  | nil => intro st h; exact h
  | cons p ps ih =>
    intro st h
    rw [List.foldl_cons]
    apply ih
    cases dictGet p bound with
    | none => exact h
    | some v => exact h

/-! ### `e in c` on a list cell or a set cell -/

theorem Ev.isInCell {k env e cN pos s v s1 a s2 xs} (hv : Ev ld k env e s (.ok v s1))
    (hc : Ev ld k env cN s1 (.ok (.ref a) s2))
    (hcell : s2.cell a = some (.list xs) ∨ s2.cell a = some (.set xs)) :
    Ev ld (k + 1) env (.isIn e cN pos) s (.ok (.bool (memR s2 v xs)) s2) := by
  intro f hf; obtain ⟨g, rfl, hg⟩ := succ_of_lt hf
  rw [eval]
  simp only [EvalM.bind_apply, hv g (by omega), hc g (by omega), getS]
  rcases hcell with h | h <;> simp [cellOf, h, EvalM.bind_apply, EvalM.pure_apply]

/-! ### iteration over a snapshot (`for x in <set>`) -/

/-- **Invariant rule for the loop over a snapshot** (`forItems`, what `for x in <set cell>` runs on the sorted elements) -/
theorem forItems_inv {kb : Nat} {env : EnvId} {x : String} {body : Node} {pos : Pos} (xs : List RVal)
    (I : Nat → RVal → State → Prop)
    (hstep : ∀ i r s v, I i r s → xs[i]? = some v →
      ∃ r' s', Ev ld kb env body (s.put env x v) (.ok r' s') ∧ isCtl r' = false ∧ I (i + 1) r' s') :
    ∀ (n i : Nat) (r : RVal) (s : State), i + n = xs.length → I i r s →
      ∃ r' s', I xs.length r' s' ∧
        ∀ f, kb + n + 1 < f → forItems ld f env [x] (xs.drop i) body r pos s = .ok r' s' := by
  intro n
  induction n with
  | zero =>
    intro i r s hi hI
    refine ⟨r, s, by rw [← hi]; simpa using hI, fun f hf => ?_⟩
    obtain ⟨g, rfl, _⟩ := succ_of_lt hf
    have : xs.drop i = [] := by rw [List.drop_eq_nil_iff]; omega
    rw [this, forItems]; rfl
  | succ n ih =>
    intro i r s hi hI
    have hlt : i < xs.length := by omega
    obtain ⟨r1, s1, hb, hctl, hI1⟩ := hstep i r s xs[i] hI (List.getElem?_eq_getElem hlt)
    obtain ⟨r2, s2, hI2, hloop⟩ := ih (i + 1) r1 s1 (by omega) hI1
    refine ⟨r2, s2, hI2, fun f hf => ?_⟩
    obtain ⟨g, rfl, hg⟩ := succ_of_lt hf
    have hd : xs.drop i = xs[i] :: xs.drop (i + 1) := (List.drop_eq_getElem_cons hlt)
    rw [hd, forItems]
    simp only [EvalM.bind_apply, bindLoopVars, modifyS, hb g (by omega)]
    unfold isCtl at hctl
    simp only [Bool.or_eq_false_iff] at hctl
    simp only [hctl.1.2, hctl.1.1, hctl.2, Bool.false_eq_true, if_false]
    exact hloop g (by omega)

/-- **`for x in e do body` where `e` is a list cell or a set cell that the loop does not change.**
    `xs` is the enumeration (the list itself; the sorted elements of the set).  The invariant must keep the iterated cell.
    The loop variable (not bound in the frame before) is removed at the end unless the enumeration is empty. -/
theorem Ev.forColl {k kb env x e body what pos s a s1} {xs : List RVal}
    (hhid : dictGet x (s.frame env).vars = none)
    (he : Ev ld k env e s (.ok (.ref a) s1))
    (hc : s1.cell a = some (.list xs) ∨ ∃ els, s1.cell a = some (.set els) ∧ sortedR s1 els = some xs)
    (I : Nat → RVal → State → Prop)
    (hkeep : ∀ i r st, I i r st → st.cell a = s1.cell a)
    (hstep : ∀ i r st v, I i r st → xs[i]? = some v →
      ∃ r' s', Ev ld kb env body (st.put env x v) (.ok r' s') ∧ isCtl r' = false ∧ I (i + 1) r' s')
    (h0 : I 0 (.bool true) s1) :
    ∃ r s2, I xs.length r s2 ∧
      Ev ld (max k (kb + xs.length + 1) + 2) env (.for [x] e body what pos) s
        (.ok r (if xs.isEmpty then s2 else s2.remove env x)) := by
  rcases hc with hc | ⟨els, hc, hsort⟩
  · obtain ⟨r, s2, hI, hloop⟩ := forListLive_inv ld (kb := kb) (env := env) (x := x) (a := a) (pos := pos) xs I
      (fun i r st h => by rw [hkeep i r st h]; exact hc) hstep xs.length 0 (.bool true) s1 (by omega) h0
    exact ⟨r, s2, hI, Ev.forList ld hhid he hc hloop (by rw [hkeep _ _ _ hI]; exact hc)⟩
  · obtain ⟨r, s2, hI, hloop⟩ := forItems_inv ld (kb := kb) (env := env) (x := x) (pos := pos) xs I hstep
      xs.length 0 (.bool true) s1 (by omega) h0
    refine ⟨r, s2, hI, ?_⟩
    intro f hf; obtain ⟨g, rfl, hg⟩ := succ_of_lt hf
    obtain ⟨g1, rfl, hg1⟩ := succ_of_lt (show max k (kb + xs.length + 1) < g by omega)
    rw [eval]
    have hh : hiddenVars s env [x] = [] := by simp [hiddenVars, hhid]
    have : evalFor ld (g1 + 1) env [x] e body what pos s = .ok r (if xs.isEmpty then s2 else s2.remove env x) := by
      rw [evalFor, EvalM.bind_apply, he g1 (by omega)]
      have hl := hloop g1 (by omega)
      rw [List.drop_zero] at hl
      simp only [EvalM.bind_apply, cellOf, hc, getS, hsort, hl]
      cases xs with
      | nil => rfl
      | cons y ys => rfl
    simp only [this, hh, restoreVars, List.foldl_nil]

/-! ### `require M import [sym as al]`, module `M` already loaded -/

theorem dictPut_idem {β} (k : String) (v : β) (l : List (String × β)) : dictPut k v (dictPut k v l) = dictPut k v l := by
  induction l with
  | nil => simp [dictPut]
  | cons a l ih =>
    obtain ⟨k', v'⟩ := a
    simp only [dictPut]
    split
    · simp [dictPut, *]
    · simp [dictPut, *]

theorem put_put_same (s : State) (e : EnvId) (x : String) (v : RVal) : (s.put e x v).put e x v = s.put e x v := by
  unfold State.put
  simp only []
  congr 1
  apply Array.ext
  · simp
  · intro i h1 h2
    simp [Array.getElem_modify]
    split
    · simp [dictPut_idem]
    · intro h; contradiction

/-- the writes of the import form for a one-entry table: one `put` if the symbol is among the public symbols -/
theorem import_fold (st : State) (env : EnvId) (sym al : String) (val : String → RVal) (symbols : List String) :
    symbols.foldl (fun s n => match List.lookup n [(sym, al)] with
        | some al => s.put env al (val n)
        | none => s) st =
      if sym ∈ symbols then st.put env al (val sym) else st := by
  have hstep : ∀ (s : State) (n : String), (match List.lookup n [(sym, al)] with
        | some al => s.put env al (val n)
        | none => s) = if n = sym then s.put env al (val sym) else s := by
    intro s n
    by_cases h : n = sym
    · subst h; simp [List.lookup]
    · have : (n == sym) = false := by simpa using h
      simp [List.lookup, this, h]
  simp only [hstep]
  have hput : ∀ syms : List String, syms.foldl (fun s n => if n = sym then s.put env al (val sym) else s)
      (st.put env al (val sym)) = st.put env al (val sym) := by
    intro syms
    induction syms with
    | nil => rfl
    | cons n ns ih =>
      rw [List.foldl_cons]
      by_cases h : n = sym
      · rw [if_pos h, put_put_same]; exact ih
      · rw [if_neg h]; exact ih
  induction symbols with
  | nil => simp
  | cons n ns ih =>
    rw [List.foldl_cons]
    by_cases h : n = sym
    · subst h; simp only [if_true, List.mem_cons, true_or]; exact hput ns
    · rw [if_neg h, ih]
      have : (sym ∈ n :: ns) ↔ sym ∈ ns := by
        simp only [List.mem_cons]
        exact ⟨fun h' => h'.elim (fun h'' => absurd h''.symm h) id, Or.inr⟩
      simp only [this]

theorem mem_keys_of_dictGet {β} {k : String} {v : β} {l : List (String × β)} (h : dictGet k l = some v) :
    k ∈ l.map (·.1) := by
  induction l with
  | nil => cases h
  | cons a l ih =>
    obtain ⟨k', v'⟩ := a
    simp only [dictGet] at h
    by_cases hk : k = k'
    · subst hk; simp
    · rw [if_neg hk] at h; simp [ih h]

/-- the key under which the evaluator caches the module named by the identifier `n` (`"List"` for `List` — the model computes it
    with `String.splitOn`, which does not reduce in proofs; `#eval` in Proofs/C19SrcSet.lean) -/
abbrev modKey (n : String) : String := C11B.identOf n

/-- **`require n import [sym as al]` when the module is already cached**: the identifier `n` itself is unbound, the module is
    not being loaded (no circular dependency), the cache has the module frame `ml`, which binds the public symbol `sym` to `w`
    ⟹ the statement binds `al ↦ w` in the current frame and changes nothing else; value NULL; fuel > 2. -/
theorem Ev.requireCached {k env n p name sym al pos s ml w}
    (hlook : s.lookup env n = none)
    (hstack : s.modstack.contains (modKey n) = false)
    (hcache : s.modules.lookup (modKey n) = some ml)
    (hval : dictGet sym (s.frame ml).vars = some w)
    (hpub : sym.startsWith "_" = false) :
    Ev ld (k + 2) env (.require (.ident n p) name false (some [(sym, al)]) pos) s (.ok .null (s.put env al w)) := by
  intro f hf; obtain ⟨g, rfl, hg⟩ := succ_of_lt hf
  obtain ⟨g1, rfl, hg1⟩ := succ_of_lt (show 0 < g by omega)
  obtain ⟨g2, rfl, hg2⟩ := succ_of_lt (show 0 < g1 by omega)
  have hlk : s.lookup ml sym = some w := by
    unfold State.lookup; rw [State.lookupF]; simp only [hval]
  have hmem : sym ∈ (s.localSymbols ml).filter (fun n => !n.startsWith "_") := by
    rw [List.mem_filter]
    exact ⟨mem_keys_of_dictGet hval, by simp [hpub]⟩
  rw [eval, evalRequire]
  simp only [EvalM.bind_apply, getS, hlook, EvalM.pure_apply]
  have hst : s.modstack.contains (C11B.identOf n) = false := hstack
  unfold C11B.identOf at hst
  simp only [] at hst
  simp only [hst, Bool.false_eq_true, if_false, EvalM.bind_apply, EvalM.pure_apply, modifyS]
  rw [loadModule]
  have hca : s.modules.lookup (C11B.identOf n) = some ml := hcache
  unfold C11B.identOf at hca
  simp only [] at hca
  simp only [EvalM.bind_apply, getS, hca, EvalM.pure_apply, modifyS, List.dropLast_concat]
  congr 1
  refine (import_fold s env sym al (fun n => (s.lookup ml n).getD .null) _).trans ?_
  rw [if_pos hmem]
  simp [hlk]

theorem startsWith_underscore_append_all : "append_all".startsWith "_" = false := by
  cases hb : "append_all".startsWith "_" with
  | false => rfl
  | true =>
    exfalso
    have : "append_all".toSlice.startsWith "_" = true := hb
    rw [String.Slice.startsWith_string_iff] at this
    simp at this

/-! ### the built-ins `list(obj)` on a set cell, `append(lst, element)` on a set cell -/

/-- `list(obj)` on a set cell: a NEW list cell with the elements in sorted order -/
theorem list_of_set (b : Nat) (els ys : List RVal) (d : Option RVal) (pos : Pos) (s : State)
    (hc : s.cell b = some (.set els)) (hs : sortedR s els = some ys) :
    ∃ m, callPure "list" [("obj", .ref b)] d pos = some m ∧ m s = .ok (.ref s.heap.size) (s.alloc (.list ys)).1 := by
  refine ⟨_, rfl, ?_⟩
  simp [dictHas, dictGet, argGet, asListArg, cellOf, hc, EvalM.bind_apply, EvalM.pure_apply, collAsList, getS, hs, newList,
    allocM]
  rfl

/-- `append(lst, element)` on a set cell: `set.add` (the resident element is kept); the value is the argument -/
theorem append_set (a : Nat) (zs : List RVal) (v : RVal) (d : Option RVal) (pos : Pos) (s : State)
    (hc : s.cell a = some (.set zs)) :
    ∃ m, callPure "append" [("lst", .ref a), ("element", v)] d pos = some m ∧
      m s = .ok (.ref a) (s.setCell a (.set (setAdd s v zs))) := by
  refine ⟨_, rfl, ?_⟩
  simp [argGet, dictGet, cellOf, hc, EvalM.bind_apply, EvalM.pure_apply, getS]
  rfl

/-! ### the library environment survives the mutation of a SET cell -/

theorem IsSrc.extButSet {a : Nat} {s s' v src m} (h : IsSrc s v src m) (e : ExtBut a s s')
    (hl : ∃ xs, s.cell a = some (.set xs)) : IsSrc s' v src m := by
  obtain ⟨c, nm, hv, hc⟩ := h
  have hlt : c < s.heap.size := cell_lt hc
  have hne : c ≠ a := by
    intro hca; subst hca
    obtain ⟨xs, hxs⟩ := hl
    rw [hxs] at hc; cases hc
  exact ⟨c, nm, hv, by rw [e.cell c hlt hne]; exact hc⟩

theorem LibEnv.extButSet {a : Nat} {s s' M nats srcs} (h : LibEnv s M nats srcs) (e : ExtBut a s s')
    (hl : ∃ xs, s.cell a = some (.set xs)) : LibEnv s' M nats srcs :=
  ⟨fun m hm => Nat.lt_of_lt_of_le (h.lt m hm) e.fsize, fun m hm => (h.null m hm).extBut e,
   fun m hm x hx => let ⟨i, hi⟩ := h.nat m hm x hx; ⟨i, hi.extBut e⟩,
   fun m hm p hp => let ⟨v, m', h1, h2, h3⟩ := h.src m hm p hp; ⟨v, m', h1.extBut e, h2, h3.extButSet e hl⟩⟩

theorem Ctx.ofExtButSet {a : Nat} {s st : State} {M nats srcs m vars} (h : LibEnv s M nats srcs) (hm : M m) (e : ExtBut a s st)
    (hl : ∃ xs, s.cell a = some (.set xs))
    (hv : (st.frame s.frames.size).vars = vars) (hp : (st.frame s.frames.size).parent = some m)
    (hlt : s.frames.size < st.frames.size) : Ctx st M nats srcs s.frames.size m vars :=
  ⟨h.extButSet e hl, hm, ⟨hv, hp, h.lt m hm⟩, hlt⟩

/-- a run that changed only a cell that did not exist before is an extension -/
theorem Ext.ofExtBut_fresh {a : Nat} {s s1 s2 : State} (h1 : Ext s s1) (h2 : ExtBut a s1 s2) (ha : s.heap.size ≤ a) :
    Ext s s2 :=
  ⟨Nat.le_trans h1.fsize h2.fsize,
   fun i hi => by rw [h2.frame i (Nat.lt_of_lt_of_le hi h1.fsize), h1.frame i hi],
   Nat.le_trans h1.hsize h2.hsize,
   fun x hx => by rw [h2.cell x (Nat.lt_of_lt_of_le hx h1.hsize) (by omega), h1.cell x hx],
   by rw [h2.out, h1.out]⟩

end Ckl.C19Src
