"""Translate functions of the bundled modules (src/ckl/modules/*.ckl) into Lean terms of the model's `Node` type.

The module text is parsed with the REAL parser (`ckl.parser.parse_script(text, "mod:<name>")`, exactly the call `NodeRequire` makes),
the top-level `def name(...)` nodes are picked, dumped with `harness.astdump` (the S-expression the Lean driver reads) and that
S-expression is translated constructor by constructor, following `decodeNode` of lean/CklVerif/Driver/EvalCmd.lean, into

    lean/CklVerif/Gen/LibSrc.lean        def Ckl.Gen.LibSrc.<module>_<name> : Node := …       (positions included)
    lean/CklVerif/Gen/LibSrcCheck.lean   #guard: the driver's decoder applied to the astdump text yields the same term

Proofs/C19Src.lean proves theorems about these terms, so they are statements about the CURRENT source text of the library.

    cd <verif> && PYTHONPATH=<verif>:/repo/src /venv/bin/python -m harness.extract.libsrc [--modules-dir DIR] [--out-dir DIR]
                                                                                       [--funcs math:abs,math:sign,…] [--stdout]

`generate()` (no arguments) is the entry point `harness.extract.regenerate_all()` uses: it returns (path, text, problems) for
LibSrc.lean and writes LibSrcCheck.lean next to it.
"""
import os
import sys

from harness import astdump, core, proto

# (module file without .ckl, function names); order = order of emission.  A name that is missing from the module is reported as a
# problem (the theorems about it then fail to build, which is the intended outcome: the property can no longer be checked).
DEFAULT_FUNCS = [
    ("type", ["is_list", "is_string", "is_int", "is_decimal", "is_numeric", "is_boolean", "is_set", "is_map", "is_object",
              "is_func"]),
    ("predicate", ["is_zero", "is_negative", "is_positive"]),
    ("math", ["abs", "sign", "is_even", "is_odd", "gcd", "lcm"]),
    ("list", ["first", "first_n", "last", "last_n", "rest", "reverse_list", "reverse", "reduce", "prod", "append_all", "for_each",
              "filter", "flatten", "unique", "map_list"]),
    ("set", ["union", "intersection", "diff", "symmetric_diff"]),
    ("core", ["non_zero", "non_empty", "const", "any", "all", "pairs", "chunks"]),
    ("string", ["reverse", "replace", "join", "q", "esc"]),
]


def default_modules_dir():
    return os.path.join(core.REPO, "src", "ckl", "modules")


# ------------------------------------------------------------------------------------------------ Lean text

def lean_str(s):
    out = ['"']
    for ch in s:
        o = ord(ch)
        if ch == '"':
            out.append('\\"')
        elif ch == "\\":
            out.append("\\\\")
        elif ch == "\n":
            out.append("\\n")
        elif ch == "\t":
            out.append("\\t")
        elif ch == "\r":
            out.append("\\r")
        elif 32 <= o < 127:
            out.append(ch)
        else:
            out.append("\\u{%x}" % o)
    out.append('"')
    return "".join(out)


def lean_char(ch):
    o = ord(ch)
    if ch == "'":
        return "'\\''"
    if ch == "\\":
        return "'\\\\'"
    if ch == "\n":
        return "'\\n'"
    if ch == "\t":
        return "'\\t'"
    if ch == "\r":
        return "'\\r'"
    if 32 <= o < 127:
        return "'" + ch + "'"
    return "'\\u{%x}'" % o


def lean_chars(s):
    return "[" + ", ".join(lean_char(c) for c in s) + "]"


def lean_int(n):
    return str(n) if n >= 0 else f"({n})"


class Bad(Exception):
    pass


def sx_str(a):
    if not (isinstance(a, str) and a.startswith("s:")):
        raise Bad(f"string atom expected, got {a!r}")
    return proto.dec_str(a[2:])


def sx_optstr(a):
    return None if a == "~" else sx_str(a)


def l_optstr(a):
    v = sx_optstr(a)
    return "none" if v is None else f"(some {lean_str(v)})"


def l_names(x):
    if not (isinstance(x, list) and x and x[0] == "N"):
        raise Bad("(N …) expected")
    return "[" + ", ".join(lean_str(sx_str(a)) for a in x[1:]) + "]"


def l_optnames(x):
    if not (isinstance(x, list) and x and x[0] == "O"):
        raise Bad("(O …) expected")
    return "[" + ", ".join(("none" if a == "~" else f"some {lean_str(sx_str(a))}") for a in x[1:]) + "]"


def l_bool(a):
    if a not in ("T", "F"):
        raise Bad("T/F expected")
    return "true" if a == "T" else "false"


def l_val(v):
    """the `(v VAL)` field of a literal: only atomic values occur in source text"""
    if v == "null":
        return "Val.null"
    h = v[0]
    if h == "b":
        return "(Val.bool true)" if v[1] == "1" else "(Val.bool false)"
    if h == "i":
        return f"(Val.int {lean_int(int(v[1]))})"
    if h == "d":
        return f"(Val.dec {lean_int(int(v[1]))} {int(v[2])})"
    if h == "s":
        return f"(Val.str {lean_chars(proto.dec_str(v[1]) if len(v) > 1 else '')})"
    if h == "p":
        return f"(Val.pat {lean_chars(proto.dec_str(v[1]) if len(v) > 1 else '')})"
    if h == "dt":
        return "(Val.date ⟨" + ", ".join(str(int(x)) for x in v[1:]) + "⟩)"
    raise Bad(f"literal value {v!r} is not atomic")


class Tr:
    """S-expression of astdump (with positions) -> Lean term, following `decodeNode`"""

    def __init__(self, posfn):
        self.posfn = posfn

    def pos(self, a):
        if not (isinstance(a, str) and a.startswith("@")):
            raise Bad("position expected")
        line, col = a[1:].split(":")
        return f"({self.posfn} {int(line)} {lean_int(int(col))})"

    def nodes(self, x):
        if not (isinstance(x, list) and x and x[0] == "L"):
            raise Bad("(L …) expected")
        return "[" + ", ".join(self.node(y) for y in x[1:]) + "]"

    def node(self, x):
        if x == "~":
            return "Node.absent"
        if x == "all":
            return "Node.catchAll"
        if not isinstance(x, list) or len(x) < 2:
            raise Bad(f"node expected, got {x!r}")
        tag, p, f = x[0], self.pos(x[1]), x[2:]
        n, ns = self.node, self.nodes

        def need(k):
            if len(f) != k:
                raise Bad(f"{tag}: {k} fields expected, got {len(f)}")
        if tag == "null":
            need(0)
            return f"(Node.null {p})"
        if tag == "lit":
            need(1)
            if not (isinstance(f[0], list) and len(f[0]) == 2 and f[0][0] == "v"):
                raise Bad("lit: (v VAL) expected")
            return f"(Node.lit {l_val(f[0][1])} {p})"
        if tag == "id":
            need(1)
            return f"(Node.ident {lean_str(sx_str(f[0]))} {p})"
        if tag in ("and", "or"):
            need(1)
            return f"(Node.{tag} {ns(f[0])} {p})"
        if tag == "not":
            need(1)
            return f"(Node.not {n(f[0])} {p})"
        if tag == "assign":
            need(2)
            return f"(Node.assign {lean_str(sx_str(f[0]))} {n(f[1])} {p})"
        if tag == "assignD":
            need(2)
            return f"(Node.assignD {l_names(f[0])} {n(f[1])} {p})"
        if tag == "block":
            need(5)
            return f"(Node.block {ns(f[0])} {ns(f[1])} {ns(f[2])} {ns(f[3])} {l_bool(f[4])} {p})"
        if tag == "break":
            need(0)
            return f"(Node.brk {p})"
        if tag == "continue":
            need(0)
            return f"(Node.cont {p})"
        if tag == "class":
            need(2)
            return f"(Node.cls {lean_str(sx_str(f[0]))} {ns(f[1])} {p})"
        if tag == "def":
            need(3)
            return f"(Node.defn {lean_str(sx_str(f[0]))} {n(f[1])} {lean_str(sx_str(f[2]))} {p})"
        if tag == "defD":
            need(3)
            return f"(Node.defD {l_names(f[0])} {n(f[1])} {lean_str(sx_str(f[2]))} {p})"
        if tag == "deref":
            need(3)
            return f"(Node.deref {n(f[0])} {n(f[1])} {n(f[2])} {p})"
        if tag == "derefAssign":
            need(3)
            return f"(Node.derefAssign {n(f[0])} {n(f[1])} {n(f[2])} {p})"
        if tag == "derefInvoke":
            need(4)
            return f"(Node.derefInvoke {n(f[0])} {lean_str(sx_str(f[1]))} {l_optnames(f[2])} {ns(f[3])} {p})"
        if tag == "slice":
            need(3)
            return f"(Node.slice {n(f[0])} {n(f[1])} {n(f[2])} {p})"
        if tag == "error":
            need(1)
            return f"(Node.error {n(f[0])} {p})"
        if tag == "for":
            need(4)
            return f"(Node.for {l_names(f[0])} {n(f[1])} {n(f[2])} {lean_str(sx_str(f[3]))} {p})"
        if tag == "call":
            need(3)
            return f"(Node.call {n(f[0])} {l_optnames(f[1])} {ns(f[2])} {p})"
        if tag == "if":
            need(3)
            return f"(Node.ite {ns(f[0])} {ns(f[1])} {n(f[2])} {p})"
        if tag == "in":
            need(2)
            return f"(Node.isIn {n(f[0])} {n(f[1])} {p})"
        if tag == "lambda":
            need(3)
            return f"(Node.lambda {l_names(f[0])} {ns(f[1])} {n(f[2])} {p})"
        if tag == "list":
            need(1)
            return f"(Node.list {ns(f[0])} {p})"
        if tag == "set":
            need(1)
            return f"(Node.set {ns(f[0])} {p})"
        if tag == "compr":
            need(11)
            kind, shape = f[0], f[1]
            if kind not in ("list", "set", "map") or shape not in ("single", "product", "parallel"):
                raise Bad("compr: kind/shape")
            i2 = sx_optstr(f[7])
            return (f"(Node.compr ComprKind.{kind} ComprShape.{shape} {n(f[2])} {n(f[3])} {lean_str(sx_str(f[4]))} {n(f[5])} "
                    f"{l_optstr(f[6])} {lean_str('' if i2 is None else i2)} {n(f[8])} {l_optstr(f[9])} {n(f[10])} {p})")
        if tag == "map":
            need(2)
            return f"(Node.map {ns(f[0])} {ns(f[1])} {p})"
        if tag == "object":
            need(2)
            return f"(Node.object {l_names(f[0])} {ns(f[1])} {p})"
        if tag == "require":
            need(4)
            if f[3] == "~":
                syms = "none"
            else:
                if not (isinstance(f[3], list) and f[3] and f[3][0] == "N"):
                    raise Bad("require: symbols")
                flat = [sx_str(a) for a in f[3][1:]]
                pairs = [(flat[i], flat[i + 1]) for i in range(0, len(flat) - 1, 2)]
                syms = "(some [" + ", ".join(f"({lean_str(a)}, {lean_str(b)})" for a, b in pairs) + "])"
            return f"(Node.require {n(f[0])} {l_optstr(f[1])} {l_bool(f[2])} {syms} {p})"
        if tag == "return":
            need(1)
            return f"(Node.ret {n(f[0])} {p})"
        if tag == "spread":
            need(1)
            return f"(Node.spread {n(f[0])} {p})"
        if tag == "while":
            need(2)
            return f"(Node.while {n(f[0])} {n(f[1])} {p})"
        raise Bad(f"unknown tag {tag}")


# ------------------------------------------------------------------------------------------------ extraction

def module_defs(modules_dir, module):
    """name -> NodeDef of the top-level `def name(...)` (the last one when a name is defined twice, as at run time)"""
    core.use_repo()
    from ckl.parser import parse_script
    path = os.path.join(modules_dir, module + ".ckl")
    text = open(path, encoding="utf-8").read()
    tree = parse_script(text, "mod:" + module)
    exprs = tree.expressions if type(tree).__name__ == "NodeBlock" else [tree]
    out = {}
    for e in exprs:
        if type(e).__name__ == "NodeDef" and type(e.expression).__name__ == "NodeLambda":
            out[e.identifier] = e
    return out


def ident(module, name):
    return module + "_" + "".join(c if (c.isalnum() and ord(c) < 128) or c == "_" else "_" for c in name)


def build(modules_dir=None, funcs=None):
    """-> (text of LibSrc.lean, text of LibSrcCheck.lean, problems)"""
    modules_dir = modules_dir or default_modules_dir()
    funcs = funcs or DEFAULT_FUNCS
    problems = []
    src = ["/- GENERATED by harness/extract/libsrc.py from src/ckl/modules/*.ckl of the repository on every run — do not edit.",
           "   One `Node` term per library function: the AST the real parser builds for the current source text. -/",
           "import CklVerif.Model.Ast",
           "set_option maxRecDepth 4000",
           "namespace Ckl.Gen.LibSrc", ""]
    chk = ["/- GENERATED by harness/extract/libsrc.py — do not edit.",
           "   The driver's own decoder (`decodeNode`, the path the differential harness uses) applied to the `astdump` text of the",
           "   same parse yields the same term as the translated one in LibSrc.lean (compared through the driver's encoder). -/",
           "import CklVerif.Gen.LibSrc",
           "import CklVerif.Driver.EvalCmd",
           "namespace Ckl.Gen.LibSrcCheck",
           "open Ckl Ckl.Gen.LibSrc", "",
           "def same (file : String) (sx : String) (n : Node) : Bool :=",
           "  match (Sx.parse sx).bind (decodeNode file) with",
           "  | some m => (encodeNode true m).toString == (encodeNode true n).toString",
           "  | none => false", ""]
    names = []
    for module, fnames in funcs:
        posfn = "p_" + module
        try:
            defs = module_defs(modules_dir, module)
        except Exception as e:   # noqa: a syntax error in the module, a missing file
            problems.append(f"module {module}: {type(e).__name__}: {e}")
            continue
        src.append(f"/-- a position in `{module}.ckl` -/")
        src.append(f"@[reducible] def {posfn} (line : Nat) (col : Int) : Pos := ⟨{lean_str('mod:' + module)}, line, col⟩")
        src.append("")
        tr = Tr(posfn)
        for fname in fnames:
            node = defs.get(fname)
            if node is None:
                problems.append(f"module {module}: no top-level def of {fname}")
                continue
            sx_text = astdump.dump(node, True)
            try:
                term = tr.node(proto.parse_sx(sx_text))
            except Bad as e:
                problems.append(f"{module}.{fname}: {e}")
                continue
            lname = ident(module, fname)
            names.append((module, fname, lname))
            src.append(f"/-- `{fname}` of {module}.ckl (line {node.pos.line}) -/")
            src.append(f"def {lname} : Node :=")
            src.append("  " + term)
            src.append("")
            chk.append(f"#guard same {lean_str('mod:' + module)} {lean_str(sx_text)} {lname}")
    src.append("/-- (module, function, generated term) of everything above -/")
    src.append("def table : List (String × String × Node) := [")
    src.append(",\n".join(f"  ({lean_str(m)}, {lean_str(f)}, {l})" for m, f, l in names) + "]")
    src += ["", "end Ckl.Gen.LibSrc", ""]
    chk += ["", "end Ckl.Gen.LibSrcCheck", ""]
    return "\n".join(src), "\n".join(chk), problems


def out_paths(out_dir=None):
    out_dir = out_dir or os.path.join(core.LEAN, "CklVerif", "Gen")
    return os.path.join(out_dir, "LibSrc.lean"), os.path.join(out_dir, "LibSrcCheck.lean")


def write_if_changed(path, text):
    old = None
    if os.path.exists(path):
        old = open(path, encoding="utf-8").read()
    if old != text:
        os.makedirs(os.path.dirname(path), exist_ok=True)
        with open(path, "w", encoding="utf-8") as fh:
            fh.write(text)
        return True
    return False


def generate():
    """entry point for harness.extract.regenerate_all(): (path, text, problems) of LibSrc.lean; LibSrcCheck.lean is written here"""
    text, check, problems = build()
    p_src, p_chk = out_paths()
    write_if_changed(p_chk, check)
    return p_src, text, ["libsrc extractor: " + p for p in problems]


def parse_funcs(spec):
    by = {}
    order = []
    for item in spec.split(","):
        m, f = item.strip().split(":")
        if m not in by:
            by[m] = []
            order.append(m)
        by[m].append(f)
    return [(m, by[m]) for m in order]


def main(argv):
    import argparse
    ap = argparse.ArgumentParser(description=__doc__.split("\n")[0])
    ap.add_argument("--modules-dir", default=None, help="directory of the .ckl modules (default: <repo>/src/ckl/modules)")
    ap.add_argument("--out-dir", default=None, help="where LibSrc.lean / LibSrcCheck.lean go (default: lean/CklVerif/Gen)")
    ap.add_argument("--funcs", default=None, help="module:name,… (default: the built-in list)")
    ap.add_argument("--stdout", action="store_true", help="print LibSrc.lean instead of writing")
    a = ap.parse_args(argv)
    text, check, problems = build(a.modules_dir, parse_funcs(a.funcs) if a.funcs else None)
    for p in problems:
        print("libsrc extractor: " + p, file=sys.stderr)
    if a.stdout:
        sys.stdout.write(text)
    else:
        p_src, p_chk = out_paths(a.out_dir)
        c1 = write_if_changed(p_src, text)
        c2 = write_if_changed(p_chk, check)
        print(f"{p_src}: {'written' if c1 else 'unchanged'}; {p_chk}: {'written' if c2 else 'unchanged'}")
    return 1 if problems else 0


if __name__ == "__main__":
    sys.exit(main(sys.argv[1:]))
