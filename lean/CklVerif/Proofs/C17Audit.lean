/-
  Axiom audit for C17: every theorem may depend only on
  `propext`, `Classical.choice`, `Quot.sound` (or fewer).
-/
import CklVerif.Proofs.C17

open Ckl.C17

#print axioms toDate_toOaDay
#print axioms toOaDay_toDate
#print axioms toDate_spec
#print axioms toOaDay_nextDay
#print axioms nextDay_spec
#print axioms nextDay_eq_toDate
#print axioms toOaDay_strictMono
#print axioms toOaDay_lt_of_dateLt
#print axioms toOaDay_inj
#print axioms dateLt_iff_lex
#print axioms two_le_toOaDay
#print axioms toOaDay_1900_01_01
#print axioms toOaDay_1970_01_01
#print axioms toOaDay_2000_03_01
#print axioms toOaDay_2023_03_15
#print axioms toDate_anchors
#print axioms yearLoop_stops
#print axioms yearLoop_fuel
#print axioms yearLoop_fuel_irrelevant
#print axioms monthLoop_fuel
#print axioms monthLoop_guard_redundant
#print axioms toDate_guard_redundant
#print axioms addDays_spec
#print axioms toOaDay_addDays
#print axioms addDays_addDays_neg
#print axioms addDays_diff
#print axioms addDays_zero
#print axioms addDays_one
#print axioms addDays_addDays
#print axioms toMillis_lt
#print axioms ofMillis_toMillis
#print axioms ofMillis_spec
#print axioms toMillis_ofMillis
#print axioms diffDays_addDays
#print axioms diffDays_addDays_rev
#print axioms diffDays_antisymm
#print axioms diffDays_self
#print axioms diffDays_spec
#print axioms diffDays_same_day
#print axioms diffDays_nextDay
#print axioms daysBeforeYear_closed
#print axioms daysBeforeYear_succ
#print axioms daysBeforeYear_ge
#print axioms daysBeforeYear_strictMono
#print axioms daysBeforeMonth_twelve
#print axioms yearLoop_spec
#print axioms monthLoop_spec
