import CklVerif.Lemmas.C18SrcRules

/-! C18Src — string.ckl `reverse` (loop over the characters of a string, `result = ch + result`) -/
set_option linter.unusedSimpArgs false
namespace Ckl.C18Src
open Ckl Ckl.C03 Ckl.C19Src Ckl.Gen.LibSrc
variable (ld : Loader)

theorem typeName_string (s : State) (v : RVal) :
    ((typeName s v).toList == ['s', 't', 'r', 'i', 'n', 'g']) = v.isString := by
  cases v <;> try (simp only [typeName, RVal.isString]; decide)
  simp only [typeName, RVal.isString]; split <;> decide

/-- type.ckl `is_string` (the guard of `reverse`) -/
theorem is_string_calls {s : State} {M nats srcs fn m} (h : LibEnv s M nats srcs) (hn : ∀ x ∈ typeNats, x ∈ nats) (hm : M m)
    (hsrc : IsSrc s fn type_is_string m) (v : RVal) :
    ∃ s', Ext s s' ∧ ∀ env pos, Calls ld 7 fn [("obj", v)] env pos s (.ok (.bool v.isString) s') := by
  have := typeTest_calls ld (src := type_is_string) rfl rfl rfl h hn hm hsrc v
  rwa [typeName_string] at this

/-- built-ins `reverse` uses (directly or through `is_string`) -/
def reverseStrNats : List String := ["type", "equals", "add"]
/-- library functions `reverse` uses -/
def reverseStrSrcs : List (String × Node) := [("is_string", type_is_string)]

theorem reverseStrNats_type {nats : List String} (hn : ∀ x ∈ reverseStrNats, x ∈ nats) : ∀ x ∈ typeNats, x ∈ nats := by
  intro x hx; apply hn; simp [typeNats] at hx; rcases hx with rfl | rfl <;> decide

local notation "bp" => blockPos (lamBody string_reverse)

/-- the loop invariant of `reverse`: before the iteration with index `i` the variable `result` holds the reversed prefix; the loop
    variable `ch` is not bound -/
structure RevStrInv (s : State) (c m : EnvId) (cs : List Char) (i : Nat) (st : State) : Prop where
  ext : Ext s st
  parent : (st.frame c).parent = some m
  clt : c < st.frames.size
  vars : (st.frame c).vars = [("str", .str cs), ("result", .str (cs.take i).reverse)]

/-- the body of `reverse` on a string -/
theorem reverse_body_str {s s0 : State} {M nats srcs m} {cs : List Char}
    (h : LibEnv s M nats srcs) (hm : M m)
    (ctx : Ctx s0 M nats srcs s.frames.size m [("str", .str cs)]) (e0 : Ext s s0)
    (hn : ∀ x ∈ reverseStrNats, x ∈ nats) (hs : ∀ p ∈ reverseStrSrcs, p ∈ srcs) :
    ∃ s', Ext s s' ∧ Ev ld (cs.length + 17) s.frames.size (lamBody string_reverse) s0 (.ok (.str cs.reverse) s') ∧ True := by
  unfold lamBody string_reverse
  simp only []
  generalize hK : cs.length + 12 = K
  have hcge : s.frames.size ≤ s.frames.size := Nat.le_refl _
  -- statement 1: `if not is_string(str) then return NULL`
  have ctx0 : Ctx (ghostEnter s0 bp) M nats srcs s.frames.size m [("str", .str cs)] :=
    ctx.ext ((Ext.refl s0).ghostEnter _)
  have e0' : Ext s (ghostEnter s0 bp) := e0.ghostEnter _
  obtain ⟨f1, m1, hl1, hm1, hsrc1⟩ := ctx0.src (x := "is_string") (src := type_is_string)
    (hs _ (by simp [reverseStrSrcs])) (by rfl)
  obtain ⟨t1, e1, c1⟩ := is_string_calls ld ctx0.env (reverseStrNats_type hn) hm1 hsrc1 (.str cs)
  have S1 : ∀ p1 p2 p3 p4 x els p5, Ev ld K s.frames.size
      (.ite [.not (.call (.ident "is_string" p1) [none] [.ident "str" p2] p3) p4] [x] (.lit (.bool true) els) p5)
      (ghostEnter s0 bp) (.ok (.bool true) t1) := by
    intro p1 p2 p3 p4 x els p5
    have E1 := Ev.callSrc1 ld (k := 6) (p := p1) hl1 hsrc1 rfl (by decide) (by trivial)
      (Ev.ident ld (p := p2) (ctx0.var (x := "str") (by rfl))) (c1 s.frames.size p3)
    rw [wrapCall_ok] at E1
    exact Ev.mono ld (Ev.ite ld (EvIf.false ld (Ev.not ld (p := p4) E1) (EvIf.else ld (Ev.litBool ld)))) (by omega)
  have ctx1 := ctx0.ext e1
  have E1 : Ext s t1 := e0'.trans e1
  -- statement 2: `def result = ""`
  let t2 := t1.put s.frames.size "result" (.str [])
  have S2 : ∀ p1 info p2, Ev ld K s.frames.size (.defn "result" (.lit (.str []) p1) info p2) t1 (.ok (.str []) t2) := by
    intro p1 info p2
    exact Ev.mono ld (Ev.defn ld (k := 0) (by intro a h; cases h) (Ev.litStr ld)) (by omega)
  have hclt1 : s.frames.size < t1.frames.size := ctx1.clt
  have E2 : Ext s t2 := E1.put hcge _ _
  have inv0 : RevStrInv s s.frames.size m cs 0 t2 := by
    refine ⟨E2, ?_, ?_, ?_⟩
    · show ((t1.put _ _ _).frame _).parent = _
      rw [parent_put]; exact ctx1.fr.parent
    · show _ < (t1.put _ _ _).frames.size
      rw [frames_size_put]; exact hclt1
    · show ((t1.put _ _ _).frame _).vars = _
      rw [vars_put_same t1 "result" (.str []) hclt1, ctx1.fr.vars]; rfl
  -- statement 3: the loop
  have hstep : ∀ p1 p2 p3 p4 p5, ∀ i (r : RVal) st ch, RevStrInv s s.frames.size m cs i st → cs[i]? = some ch →
      ∃ r' s', Ev ld 5 s.frames.size (.assign "result" (.call (.ident "add" p1) [some "a", some "b"]
          [.ident "ch" p2, .ident "result" p3] p4) p5) (st.put s.frames.size "ch" (.str [ch])) (.ok r' s') ∧
        isCtl r' = false ∧ RevStrInv s s.frames.size m cs (i + 1) (s'.remove s.frames.size "ch") := by
    intro p1 p2 p3 p4 p5 i r st ch inv hv
    have hvars : ((st.put s.frames.size "ch" (.str [ch])).frame s.frames.size).vars =
        [("str", .str cs), ("result", .str (cs.take i).reverse), ("ch", .str [ch])] := by
      rw [vars_put_same _ _ _ inv.clt, inv.vars]; simp [dictPut]
    have hpar : ((st.put s.frames.size "ch" (.str [ch])).frame s.frames.size).parent = some m := by
      rw [parent_put]; exact inv.parent
    have eu : Ext s (st.put s.frames.size "ch" (.str [ch])) := inv.ext.put hcge _ _
    have hclt : s.frames.size < (st.put s.frames.size "ch" (.str [ch])).frames.size := by
      rw [frames_size_put]; exact inv.clt
    have cu : Ctx (st.put s.frames.size "ch" (.str [ch])) M nats srcs s.frames.size m
        [("str", .str cs), ("result", .str (cs.take i).reverse), ("ch", .str [ch])] :=
      Ctx.ofExt h hm eu hvars hpar hclt
    obtain ⟨j, hl⟩ := cu.nat (x := "add") (hn _ (by decide)) (by rfl)
    have A := Ev.natAB ld (k := 0) (p := p1) (pos := p4) hl (by rfl) (by trivial) (by trivial)
      (Ev.ident ld (p := p2) (cu.var (x := "ch") (by rfl))) (Ev.ident ld (p := p3) (cu.var (x := "result") (by rfl)))
      (pure_add _ _ _ _) (nativeAdd_str _ _ _ _)
    rw [wrapCall_ok] at A
    have hdef : (st.put s.frames.size "ch" (.str [ch])).isDefined s.frames.size "result" = true := by
      unfold State.isDefined; rw [cu.var (x := "result") (by rfl)]; rfl
    have B := Ev.assignLocal ld (pos := p5) hdef A (by rw [hvars]; rfl)
    refine ⟨_, _, B, rfl, ?_⟩
    have hclt2 : s.frames.size <
        ((st.put s.frames.size "ch" (.str [ch])).put s.frames.size "result" (.str ([ch] ++ (cs.take i).reverse))).frames.size := by
      rw [frames_size_put]; exact hclt
    refine ⟨(eu.put hcge _ _).remove hcge _, ?_, ?_, ?_⟩
    · rw [frame_remove_same _ _ hclt2]; show ((State.put _ _ _ _).frame _).parent = _
      rw [parent_put]; exact hpar
    · rw [frames_size_remove]; exact hclt2
    · rw [frame_remove_same _ _ hclt2]
      show dictDel "ch" ((State.put _ _ _ _).frame _).vars = _
      rw [vars_put_same _ _ _ hclt, hvars, List.take_add_one, hv]
      simp [dictPut, dictDel]
  have S3 : ∀ p0 p1 p2 p3 p4 p5 what p6, ∃ r t3, Ev ld K s.frames.size
      (.for ["ch"] (.ident "str" p0) (.assign "result" (.call (.ident "add" p1) [some "a", some "b"]
          [.ident "ch" p2, .ident "result" p3] p4) p5) what p6) t2 (.ok r t3) ∧ isCtl r = false ∧
        RevStrInv s s.frames.size m cs cs.length t3 := by
    intro p0 p1 p2 p3 p4 p5 what p6
    obtain ⟨r, st, ⟨hctl, inv⟩, hloop⟩ := forString_inv ld (kb := 5) (env := s.frames.size) (x := "ch") cs
      (fun i r st => isCtl r = false ∧ RevStrInv s s.frames.size m cs i st)
      (fun i r st ch hI hv => by
        obtain ⟨r', s', h1, h2, h3⟩ := hstep p1 p2 p3 p4 p5 i r st ch hI.2 hv
        exact ⟨r', s', h1, h2, h2, h3⟩)
      cs.length 0 (.bool true) t2 (by omega) ⟨rfl, inv0⟩
    rw [List.drop_zero] at hloop
    have hF := Ev.forStr ld (k := 0) (kl := 5 + cs.length) (what := what) (x := "ch") (pos := p6)
      (by rw [inv0.vars]; rfl)
      (Ev.ident ld (p := p0) (lookup_local (x := "str") (callFrame_self inv0.parent (h.lt m hm)) (by rw [inv0.vars]; rfl)))
      hloop
    exact ⟨r, st, Ev.mono ld hF (by omega), hctl, inv⟩
  -- the block
  obtain ⟨r3, t3, hS3, hctl3, inv3⟩ := S3 _ _ _ _ _ _ _ _
  have S4 : ∀ p, Ev ld K s.frames.size (.ident "result" p) t3 (.ok (.str cs.reverse) t3) := by
    intro p
    have := Ev.ident ld (k := K) (p := p) (lookup_local (x := "result") (callFrame_self inv3.parent (h.lt m hm))
      (by rw [inv3.vars]; rfl))
    rwa [List.take_length] at this
  refine ⟨ghostFin t3 bp, inv3.ext.ghostFin _, ?_, trivial⟩
  exact Ev.mono ld (k := K + 3 + 1 + 1) (Ev.block ld (b := false) (pos := bp)
    (EvBody.cons ld (Ev.mono ld (S1 _ _ _ _ _ _ _) (show K ≤ K + 3 by omega)) rfl
    (EvBody.cons ld (Ev.mono ld (S2 _ _ _) (show K ≤ K + 2 by omega)) rfl
      (EvBody.cons ld (Ev.mono ld hS3 (show K ≤ K + 1 by omega)) hctl3
        (EvBody.cons ld (S4 _) rfl (EvBody.nil ld)))))) (by omega)

/-- `fn.execute(str = a string)` of the function made from the source of string.ckl `reverse` -/
theorem reverse_calls_str {s : State} {M nats srcs fn m} (h : LibEnv s M nats srcs) (hn : ∀ x ∈ reverseStrNats, x ∈ nats)
    (hs : ∀ p ∈ reverseStrSrcs, p ∈ srcs) (hm : M m) (hsrc : IsSrc s fn string_reverse m) (cs : List Char) :
    ∃ s', Ext s s' ∧ ∀ env pos, Calls ld (cs.length + 18) fn [("str", .str cs)] env pos s (.ok (.str cs.reverse) s') := by
  obtain ⟨s', e, _, c⟩ := calls_of_body1X ld (src := string_reverse) (Q := fun _ => True)
    (r := fun s' => .ok (.str cs.reverse) s') rfl rfl rfl
    (by omega) h hm hsrc (.str cs) (fun _ ctx e0 => reverse_body_str ld h hm ctx e0 hn hs)
  exact ⟨s', e, c⟩

/-- an argument that is not a string (a list, a number, NULL, …): `return NULL` -/
theorem reverse_body_nonstring {s : State} {M nats srcs c m} {v : RVal}
    (ctx : Ctx s M nats srcs c m [("str", v)]) (hn : ∀ x ∈ reverseStrNats, x ∈ nats) (hs : ∀ p ∈ reverseStrSrcs, p ∈ srcs)
    (hv : v.isString = false) :
    ∃ s', Ext s s' ∧ Ev ld 14 c (lamBody string_reverse) s
      (.ok (.ret .null (guardRetPos' (lamBody string_reverse))) s') := by
  have ctx0 : Ctx (ghostEnter s bp) M nats srcs c m [("str", v)] := ctx.ext ((Ext.refl s).ghostEnter _)
  obtain ⟨f1, m1, hl1, hm1, hsrc1⟩ := ctx0.src (x := "is_string") (src := type_is_string)
    (hs _ (by simp [reverseStrSrcs])) (by rfl)
  obtain ⟨t1, e1, c1⟩ := is_string_calls ld ctx0.env (reverseStrNats_type hn) hm1 hsrc1 v
  rw [hv] at c1
  have ctx1 := ctx0.ext e1
  refine ⟨ghostFin t1 bp, (((Ext.refl s).ghostEnter _).trans e1).ghostFin _, ?_⟩
  have S1 : ∀ p1 p2 p3 p4 p5 p6 els p7, Ev ld 12 c
      (.ite [.not (.call (.ident "is_string" p1) [none] [.ident "str" p2] p3) p4] [.ret (.ident "NULL" p5) p6] els p7)
      (ghostEnter s bp) (.ok (.ret .null p6) t1) := by
    intro p1 p2 p3 p4 p5 p6 els p7
    have E1 := Ev.callSrc1 ld (k := 6) (p := p1) hl1 hsrc1 rfl (by decide) (by trivial)
      (Ev.ident ld (p := p2) (ctx0.var (x := "str") (by rfl))) (c1 c p3)
    rw [wrapCall_ok] at E1
    exact Ev.mono ld (Ev.ite ld (EvIf.true ld (Ev.not ld (p := p4) E1)
      (Ev.mono ld (Ev.ret ld (k := 0) (by intro h; cases h) (Ev.ident ld (ctx1.null (by rfl)))) (by decide)))) (by decide)
  exact Ev.block ld (b := false) (pos := bp) (EvBody.stop ld (S1 _ _ _ _ _ _ _ _) rfl)

theorem reverse_calls_nonstring {s : State} {M nats srcs fn m} (h : LibEnv s M nats srcs) (hn : ∀ x ∈ reverseStrNats, x ∈ nats)
    (hs : ∀ p ∈ reverseStrSrcs, p ∈ srcs) (hm : M m) (hsrc : IsSrc s fn string_reverse m) (v : RVal)
    (hv : v.isString = false) :
    ∃ s', Ext s s' ∧ ∀ env pos, Calls ld 15 fn [("str", v)] env pos s (.ok .null s') :=
  calls_of_body1 ld (k := 14) (src := string_reverse)
    (r := fun s' => .ok (.ret .null (guardRetPos' (lamBody string_reverse))) s')
    rfl rfl rfl (by decide) h hm hsrc v (fun s0 ctx _ => reverse_body_nonstring ld ctx hn hs hv)

end Ckl.C18Src
