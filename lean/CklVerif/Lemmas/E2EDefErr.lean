/-
  E2E — a concrete text of two statements, `def x = 1; error 2`, scanned and parsed in the kernel: its AST is the
  top-level block `[def x = 1, error 2]`.  (Instance for `definition_survives_failed_call_src`.)
-/
import CklVerif.Lemmas.E2EErrLit
import CklVerif.Lemmas.C08FullParse
namespace Ckl.E2E
open Ckl Ckl.Parser Ckl.C08 Ckl.C08F

set_option linter.unusedSimpArgs false

/-- `def x = 1; error 2` -/
def defErrText : List Char := ['d','e','f',' ','x',' ','=',' ','1',';',' ','e','r','r','o','r',' ','2']

def tDef : Token := ⟨['d','e','f'], .keyword, ⟨"f", 1, 1⟩⟩
def tX : Token := ⟨['x'], .identifier, ⟨"f", 1, 5⟩⟩
def tEq : Token := ⟨['='], .operator, ⟨"f", 1, 7⟩⟩
def tOne : Token := ⟨['1'], .int, ⟨"f", 1, 9⟩⟩
def tSemi : Token := ⟨[';'], .interpunction, ⟨"f", 1, 10⟩⟩
def tErr : Token := ⟨['e','r','r','o','r'], .keyword, ⟨"f", 1, 12⟩⟩
def tTwo : Token := ⟨['2'], .int, ⟨"f", 1, 18⟩⟩

theorem defErr_scan : Lexer.scan defErrText "f" = .ok [tDef, tX, tEq, tOne, tSemi, tErr, tTwo] := by
  with_unfolding_all rfl

def nDefX : Node := .defn "x" (.lit (.int 1) ⟨"f", 1, 9⟩) "" ⟨"f", 1, 1⟩
def nErr2 : Node := .error (.lit (.int 2) ⟨"f", 1, 18⟩) ⟨"f", 1, 12⟩

theorem defErr_parse (validRe : List Char → Bool) :
    parseWith validRe "f" [tDef, tX, tEq, tOne, tSemi, tErr, tTwo] = .ok (.block [nDefX, nErr2] [] [] [] true ⟨"f", 1, 1⟩) := by
  have hstop : Stop [tSemi, tErr, tTwo] := Stop.cons rfl (by decide) (by decide)
  have h1 : ∀ c : Ctx, ∃ q, ∀ p, ∃ h, pExpression c ⟨p, [tOne, tSemi, tErr, tTwo]⟩ =
      .ok ⟨.lit (.int 1) ⟨"f", 1, 9⟩, ⟨q, [tSemi, tErr, tTwo]⟩, h⟩ := fun c =>
    (Lit.atom (Atom.int tOne 1 rfl (by decide))).expr c [tSemi, tErr, tTwo] hstop
  have h2 : ∀ c p, c.validRe = validRe → ∃ q h, pStatement c ⟨p, [tErr, tTwo]⟩ = .ok ⟨nErr2, ⟨q, []⟩, h⟩ := by
    apply stmt_error_of_expr validRe tErr [tTwo] (.lit (.int 2) ⟨"f", 1, 18⟩) ⟨rfl, rfl⟩
    intro c p _
    obtain ⟨q, hq⟩ := (Lit.atom (Atom.int tTwo 2 rfl (by decide))).expr c [] Stop.nil
    exact ⟨q, hq p⟩
  have hb : ∀ c p, c.validRe = validRe → ∃ q h, pBareBlock c true ⟨p, [tDef, tX, tEq, tOne, tSemi, tErr, tTwo]⟩ =
      .ok ⟨.block [nDefX, nErr2] [] [] [] true ⟨"f", 1, 1⟩, ⟨q, []⟩, h⟩ := by
    intro c p hc
    obtain ⟨q1, hq1⟩ := h1 c
    obtain ⟨hh1, hu1⟩ := hq1 ⟨"f", 1, 7⟩
    obtain ⟨q2, hh2, hu2⟩ := h2 c ⟨"f", 1, 10⟩ hc
    have htail : ∃ h, pDefTail c ['x'] "" ⟨"f", 1, 1⟩ ⟨⟨"f", 1, 5⟩, [tEq, tOne, tSemi, tErr, tTwo]⟩ =
        .ok ⟨nDefX, ⟨q1, [tSemi, tErr, tTwo]⟩, h⟩ := by
      refine ⟨by simp, ?_⟩
      rw [pDefTail]
      simp [St.peekn, St.tokIs, St.expect, tEq, bind, Except.bind, pure, Except.pure, hu1, nDefX, tDef]
      rfl
    obtain ⟨hh3, htail'⟩ := htail
    have hdef : ∃ h, pDef c "" ⟨⟨"f", 1, 1⟩, [tX, tEq, tOne, tSemi, tErr, tTwo]⟩ =
        .ok ⟨nDefX, ⟨q1, [tSemi, tErr, tTwo]⟩, h⟩ := by
      refine ⟨by simp, ?_⟩
      rw [pDef]
      simp [St.matchIf, St.tokIs, St.next, tX, checkRedefineKeyword, checkExpectedIdentifier, bind, Except.bind, pure,
        Except.pure, htail']
    obtain ⟨hh4, hdef'⟩ := hdef
    have hstmt1 : ∃ h, pStatement c ⟨p, [tDef, tX, tEq, tOne, tSemi, tErr, tTwo]⟩ =
        .ok ⟨nDefX, ⟨q1, [tSemi, tErr, tTwo]⟩, h⟩ := by
      refine ⟨by simp, ?_⟩
      rw [pStatement]
      have htc : takeComment ⟨p, [tDef, tX, tEq, tOne, tSemi, tErr, tTwo]⟩ =
          ([], ⟨⟨p, [tDef, tX, tEq, tOne, tSemi, tErr, tTwo]⟩, Nat.le_refl _⟩) := by
        simp [takeComment, tDef]
      generalize takeComment ⟨p, [tDef, tX, tEq, tOne, tSemi, tErr, tTwo]⟩ = tc at htc ⊢
      subst htc
      simp [St.hasNext, St.matchIf, St.tokIs, tDef, wkLt, str, hdef']
    obtain ⟨hh5, hstmt1'⟩ := hstmt1
    have hloop : ∃ h, bareLoop c ⟨q1, [tSemi, tErr, tTwo]⟩ [nDefX] = .ok ⟨[nDefX, nErr2], ⟨q2, []⟩, h⟩ := by
      refine ⟨by simp, ?_⟩
      rw [bareLoop]
      have hv : tErr.value = ['e', 'r', 'r', 'o', 'r'] := rfl
      have hty : tErr.type = .keyword := rfl
      simp [St.matchIf, St.tokIs, St.hasNext, St.peekn, tSemi, hv, hty, hu2, bind, Except.bind, pure, Except.pure]
      rw [bareLoop]
      simp [St.matchIf]
    obtain ⟨hh6, hloop'⟩ := hloop
    refine ⟨q2, by simp, ?_⟩
    rw [pBareBlock]
    have hvd : tDef.value = ['d', 'e', 'f'] := rfl
    simp [St.peekn, St.tokIs, hvd, hstmt1', hloop', St.hasNext, St.posNext, simplifyBlock, bind, Except.bind, pure, Except.pure]
    rfl
  obtain ⟨q, h, hb'⟩ := hb ⟨endPosOf "f" [tDef, tX, tEq, tOne, tSemi, tErr, tTwo], validRe⟩ tDef.pos rfl
  simp [parseWith, parseCore, hb', unwrapReturn]
  rfl

/-- the AST of `def x = 1; error 2` -/
theorem defErr_parseScript : parseScript defErrText "f" = .ok (.block [nDefX, nErr2] [] [] [] true ⟨"f", 1, 1⟩) := by
  unfold parseScript parseScriptWith
  rw [defErr_scan]
  exact defErr_parse _

end Ckl.E2E

