/-
  Generic logic (see C10Gen): the helper programs of the evaluator (everything that does not
  evaluate nodes) keep `obs` unchanged.
-/
import CklVerif.Lemmas.C10Gen
namespace Ckl.Gen
open Ckl Ckl.C05

variable {I : Rel} {s0 : State}

/-! ### EvalBase -/

theorem GTr.bindNamed (sp : ArgSpec) (pos : Pos) (ns : List (Option String)) (vs : List RVal)
    (args : List (String × RVal)) : GTr I s0 (bindNamed sp pos ns vs args) := by
  induction ns generalizing vs args with
  | nil => unfold Ckl.bindNamed; gtr_auto
  | cons n ns ih =>
    cases vs with
    | nil => unfold Ckl.bindNamed; gtr_auto
    | cons v vs => unfold Ckl.bindNamed; gtr_auto
macro_rules | `(tactic| gtr_lemma) => `(tactic| exact GTr.bindNamed _ _ _ _ _)

theorem GTr.bindPositional (sp : ArgSpec) (pos : Pos) (ns : List (Option String)) (vs : List RVal)
    (kw : Bool) (args : List (String × RVal)) (rest : List RVal) :
    GTr I s0 (bindPositional sp pos ns vs kw args rest) := by
  induction ns generalizing vs kw args rest with
  | nil => unfold Ckl.bindPositional; gtr_auto
  | cons n ns ih =>
    cases vs with
    | nil => unfold Ckl.bindPositional; gtr_auto
    | cons v vs => unfold Ckl.bindPositional; gtr_auto
macro_rules | `(tactic| gtr_lemma) => `(tactic| exact GTr.bindPositional _ _ _ _ _ _ _)

theorem GTr.setArgs (ps : List String) (ns : List (Option String)) (vs : List RVal) (pos : Pos) :
    GTr I s0 (setArgs ps ns vs pos) := by
  unfold Ckl.setArgs; gtr_auto
macro_rules | `(tactic| gtr_lemma) => `(tactic| exact GTr.setArgs _ _ _ _)

theorem GTr.argGet (args : List (String × RVal)) (n : String) (pos : Pos) : GTr I s0 (argGet args n pos) := by
  unfold Ckl.argGet; gtr_auto
macro_rules | `(tactic| gtr_lemma) => `(tactic| exact GTr.argGet _ _ _)

theorem GTr.getIndex (v : RVal) (pos : Pos) : GTr I s0 (getIndex v pos) := by
  unfold Ckl.getIndex; gtr_auto
macro_rules | `(tactic| gtr_lemma) => `(tactic| exact GTr.getIndex _ _)

theorem GTr.asStringM (v : RVal) (pos : Pos) : GTr I s0 (asStringM v pos) := by
  unfold Ckl.asStringM; gtr_auto
macro_rules | `(tactic| gtr_lemma) => `(tactic| exact GTr.asStringM _ _)


/-! ### Natives.lean helpers -/

theorem GTr.floatResult (x : Float) (pos : Pos) (w : String) : GTr I s0 (floatResult x pos w) := by
  unfold Ckl.floatResult; gtr_auto
macro_rules | `(tactic| gtr_lemma) => `(tactic| exact GTr.floatResult _ _ _)

theorem GTr.listItems (v : RVal) : GTr I s0 (listItems v) := by
  unfold Ckl.listItems; gtr_auto
macro_rules | `(tactic| gtr_lemma) => `(tactic| exact GTr.listItems _)

theorem GTr.collAsList (c : Cell) : GTr I s0 (collAsList c) := by
  unfold Ckl.collAsList; gtr_auto
macro_rules | `(tactic| gtr_lemma) => `(tactic| exact GTr.collAsList _)

theorem GTr.addSet (xs : List RVal) : GTr I s0 (addSet xs) := by
  unfold Ckl.addSet; gtr_auto
macro_rules | `(tactic| gtr_lemma) => `(tactic| exact GTr.addSet _)

theorem GTr.cmpLt (a b : RVal) : GTr I s0 (cmpLt a b) := by
  unfold Ckl.cmpLt; gtr_auto
macro_rules | `(tactic| gtr_lemma) => `(tactic| exact GTr.cmpLt _ _)

theorem GTr.cmpGt (a b : RVal) : GTr I s0 (cmpGt a b) := by
  unfold Ckl.cmpGt; gtr_auto
macro_rules | `(tactic| gtr_lemma) => `(tactic| exact GTr.cmpGt _ _)

theorem GTr.asListArg (v : RVal) (pos : Pos) : GTr I s0 (asListArg v pos) := by
  unfold Ckl.asListArg; gtr_auto
macro_rules | `(tactic| gtr_lemma) => `(tactic| exact GTr.asListArg _ _)

theorem GTr.asSetArg (v : RVal) (pos : Pos) : GTr I s0 (asSetArg v pos) := by
  unfold Ckl.asSetArg; gtr_auto
macro_rules | `(tactic| gtr_lemma) => `(tactic| exact GTr.asSetArg _ _)

/-! ### Eval.lean helpers -/

theorem GTr.destructure (v : RVal) (n : Nat) (pos : Pos) : GTr I s0 (destructure v n pos) := by
  unfold Ckl.destructure; gtr_auto
macro_rules | `(tactic| gtr_lemma) => `(tactic| exact GTr.destructure _ _ _)

theorem GTr.bindLoopVars (env : EnvId) (ids : List String) (v : RVal) (pos : Pos) :
    GTr I s0 (bindLoopVars env ids v pos) := by
  unfold Ckl.bindLoopVars; gtr_auto
macro_rules | `(tactic| gtr_lemma) => `(tactic| exact GTr.bindLoopVars _ _ _ _)

theorem GTr.removeVars (env : EnvId) (ids : List String) : GTr I s0 (removeVars env ids) := by
  unfold Ckl.removeVars; gtr_auto
macro_rules | `(tactic| gtr_lemma) => `(tactic| exact GTr.removeVars _ _)

theorem GTr.spreadValues (v : RVal) (pos : Pos) : GTr I s0 (spreadValues v pos) := by
  unfold Ckl.spreadValues; gtr_auto
macro_rules | `(tactic| gtr_lemma) => `(tactic| exact GTr.spreadValues _ _)

theorem GTr.collectionValues (v : RVal) (w : Option String) (pos : Pos) :
    GTr I s0 (collectionValues v w pos) := by
  unfold Ckl.collectionValues; gtr_auto
macro_rules | `(tactic| gtr_lemma) => `(tactic| exact GTr.collectionValues _ _ _)

theorem GTr.renameClosure (v : RVal) (n : String) : GTr I s0 (renameClosure v n) := by
  unfold Ckl.renameClosure; gtr_auto
macro_rules | `(tactic| gtr_lemma) => `(tactic| exact GTr.renameClosure _ _)

theorem GTr.assignAll (env : EnvId) (xs : List String) (items : List RVal) (i : Nat) (last : RVal)
    (pos : Pos) : GTr I s0 (assignAll env xs items i last pos) := by
  induction xs generalizing i last with
  | nil => unfold Ckl.assignAll; gtr_auto
  | cons x xs ih => unfold Ckl.assignAll; gtr_auto
macro_rules | `(tactic| gtr_lemma) => `(tactic| exact GTr.assignAll _ _ _ _ _ _)

theorem GTr.defAll (env : EnvId) (xs : List String) (items : List RVal) (i : Nat) (last : RVal) :
    GTr I s0 (defAll env xs items i last) := by
  induction xs generalizing i last with
  | nil => unfold Ckl.defAll; gtr_auto
  | cons x xs ih => unfold Ckl.defAll; gtr_auto
macro_rules | `(tactic| gtr_lemma) => `(tactic| exact GTr.defAll _ _ _ _ _)

theorem GTr.comprResult (k : ComprKind) (out : List (RVal × RVal)) : GTr I s0 (comprResult k out) := by
  unfold Ckl.comprResult; gtr_auto
macro_rules | `(tactic| gtr_lemma) => `(tactic| exact GTr.comprResult _ _)

end Ckl.Gen
