import CklVerif.Lemmas.C13NoHost

/-! C13: the modelled (pure) natives never end in a host failure -/
namespace Ckl
namespace NoHost
theorem floatResult (x : Float) (pos : Pos) (w : String) : NoHost (floatResult x pos w) := by
  unfold Ckl.floatResult; nohost!
theorem listItems (v : RVal) : NoHost (listItems v) := by unfold Ckl.listItems; nohost!
theorem collAsList (c : Cell) : NoHost (collAsList c) := by unfold Ckl.collAsList; nohost!
theorem cmpLt (a b : RVal) : NoHost (cmpLt a b) := by unfold Ckl.cmpLt; nohost!
theorem cmpGt (a b : RVal) : NoHost (cmpGt a b) := by
  unfold Ckl.cmpGt; have := cmpLt a b; nohost!
theorem asListArg (v : RVal) (pos : Pos) : NoHost (asListArg v pos) := by
  unfold Ckl.asListArg; have := fun c => collAsList c; nohost!
theorem asSetArg (v : RVal) (pos : Pos) : NoHost (asSetArg v pos) := by
  unfold Ckl.asSetArg; nohost!
theorem dateResM (r : DateRes) (pos : Pos) : NoHost (dateResM r pos) := by
  unfold Ckl.dateResM; nohost!
theorem callDate (name : String) (args : List (String × RVal)) (pos : Pos) (m : EvalM RVal)
    (h : callDate name args pos = some m) : NoHost m := by
  unfold Ckl.callDate at h
  split at h <;> first | (injection h with h; subst h; exact dateResM _ _) | (cases h)
theorem nativeAdd (a b : RVal) (pos : Pos) : NoHost (nativeAdd a b pos) := by
  unfold Ckl.nativeAdd
  have := fun r p => dateResM r p
  have := fun c => collAsList c
  have := fun x p w => floatResult x p w
  nohost!
theorem nativeSub (a b : RVal) (pos : Pos) : NoHost (nativeSub a b pos) := by
  unfold Ckl.nativeSub
  have := fun r p => dateResM r p
  have := fun c => collAsList c
  have := fun x p w => floatResult x p w
  nohost!
theorem nativeMul (a b : RVal) (pos : Pos) : NoHost (nativeMul a b pos) := by
  unfold Ckl.nativeMul
  have := fun x p w => floatResult x p w
  nohost!
theorem nativeDiv (a b : RVal) (d) (pos : Pos) : NoHost (nativeDiv a b d pos) := by
  unfold Ckl.nativeDiv
  have := fun x p w => floatResult x p w
  nohost!
theorem nativeMod (a b : RVal) (pos : Pos) : NoHost (nativeMod a b pos) := by
  unfold Ckl.nativeMod
  nohost!
end NoHost
end Ckl
namespace Ckl
set_option maxHeartbeats 400000 in
theorem NoHost.callPure (name : String) (args : List (String × RVal)) (div0 : Option RVal) (pos : Pos)
    (m : EvalM RVal) (h : callPure name args div0 pos = some m) : NoHost m := by
  have := fun c => NoHost.collAsList c
  have := fun x p w => NoHost.floatResult x p w
  have := fun a b p => NoHost.nativeAdd a b p
  have := fun a b p => NoHost.nativeSub a b p
  have := fun a b p => NoHost.nativeMul a b p
  have := fun a b d p => NoHost.nativeDiv a b d p
  have := fun a b p => NoHost.nativeMod a b p
  have := fun a b => NoHost.cmpLt a b
  have := fun a b => NoHost.cmpGt a b
  have := fun a p => NoHost.asListArg a p
  have := fun a p => NoHost.asSetArg a p
  have := fun a => NoHost.listItems a
  unfold Ckl.callPure at h
  dsimp only at h
  split at h <;> first | (injection h with h; subst h; nohost!) | (exact NoHost.callDate _ _ _ _ h) | (cases h)
end Ckl
