/-
  C07 — `<` (`vltWith dr`, the model of `__lt__`; `dr` is an arbitrary decimal renderer) is a strict
  total order inside every ordered kind, the derived comparisons are consistent with it, and the
  model's insertion sorts are correct, (anti-)stable and agree with every other correct sort.

  `SameKind a b` (defined in `CklVerif/Lemmas/C07Ord.lean`, name `Ckl.SameKind`) is a *relation*
  defined by structural recursion, not "equal shapes": lists of different lengths must be
  comparable (`[1] < [1, 'a']`), so "being of one ordered kind" is not an equivalence on lists
  (`[1,'x'] ~ [1] ~ [1,2]` but not `[1,'x'] ~ [1,2]`), and no shape function can express it.  A
  structurally recursive definition (rather than a nested inductive predicate) was chosen because
  its unfolding equations line up with those of `vltWith`/`vltL` in the mutual proofs.
-/
import CklVerif.Lemmas.C07Val
import CklVerif.Lemmas.C07Sort
import CklVerif.Lemmas.C06Coll

namespace Ckl.C07
open Ckl

variable (dr : DecRenderer)

/-! ### 0: the kind relation -/

theorem sameKind_symm {a b : Val} (h : SameKind a b) : SameKind b a := SameKind_symm a b h

example : SameKind (.list [.int 1, .str ['a'], .list [.dec 3 1]]) (.list [.dec 1 1, .str []]) := by
  simp [SameKind, SameKindL]
example : ¬ SameKind (.int 1) (.str ['1']) := by simp [SameKind]
example : ¬ SameKind .null .null := by simp [SameKind]

/-! ### 1–4: strict total order inside a kind -/

/-- irreflexivity holds for every value, even unordered kinds (NULL, sets, maps) -/
theorem vlt_irrefl_any (a : Val) : vltWith dr a a = false := vlt_irrefl_all dr a

theorem vlt_irrefl {a : Val} (_h : SameKind a a) : vltWith dr a a = false := vlt_irrefl_all dr a

example : SameKind (.list [.int 1, .list [.str ['x']]]) (.list [.int 1, .list [.str ['x']]]) := by
  simp [SameKind, SameKindL]

theorem vlt_asymm {a b : Val} (h : SameKind a b) (hlt : vltWith dr a b = true) :
    vltWith dr b a = false := vlt_asymm' dr a b h hlt

example : SameKind (.list [.int 1, .dec 1 1]) (.list [.int 1, .int 1]) ∧
    vltWith dr (.list [.int 1, .dec 1 1]) (.list [.int 1, .int 1]) = true := by
  refine ⟨by simp [SameKind, SameKindL], rfl⟩

theorem vlt_trans {a b c : Val} (hab : SameKind a b) (hbc : SameKind b c) (hac : SameKind a c)
    (h1 : vltWith dr a b = true) (h2 : vltWith dr b c = true) : vltWith dr a c = true :=
  vlt_trans' dr a b c hab hac hbc h1 h2

example : SameKind (.list [.int 1]) (.list [.dec 2 1, .int 0]) ∧
    SameKind (.list [.dec 2 1, .int 0]) (.list [.int 1, .dec 1 1]) ∧
    SameKind (.list [.int 1]) (.list [.int 1, .dec 1 1]) ∧
    vltWith dr (.list [.int 1]) (.list [.dec 2 1, .int 0]) = true ∧
    vltWith dr (.list [.dec 2 1, .int 0]) (.list [.int 1, .dec 1 1]) = true := by
  refine ⟨by simp [SameKind, SameKindL], by simp [SameKind, SameKindL],
    by simp [SameKind, SameKindL], rfl, rfl⟩

/-- equal values are interchangeable on either side of `<` -/
theorem vlt_congr_left {a b c : Val} (hab : SameKind a b) (hac : SameKind a c)
    (hbc : SameKind b c) (h : veq a b = true) : vltWith dr a c = vltWith dr b c :=
  Ckl.vlt_congr_left dr a b c hab hac hbc h

theorem vlt_congr_right {a b c : Val} (hab : SameKind a b) (hac : SameKind a c)
    (hbc : SameKind b c) (h : veq b c = true) : vltWith dr a b = vltWith dr a c :=
  Ckl.vlt_congr_right dr a b c hab hac hbc h

example : SameKind (.int 1) (.dec 2 1) ∧ SameKind (.int 1) (.int 5) ∧ SameKind (.dec 2 1) (.int 5) ∧
    veq (.int 1) (.dec 2 1) = true := by
  refine ⟨by simp [SameKind], by simp [SameKind], by simp [SameKind], by decide⟩

/-- exactly one of `a < b`, `a == b`, `b < a` -/
theorem vlt_trichotomy {a b : Val} (h : SameKind a b) :
    (vltWith dr a b = true ∧ veq a b = false ∧ vltWith dr b a = false) ∨
    (vltWith dr a b = false ∧ veq a b = true ∧ vltWith dr b a = false) ∨
    (vltWith dr a b = false ∧ veq a b = false ∧ vltWith dr b a = true) := by
  have h' := SameKind_symm a b h
  cases hlt : vltWith dr a b with
  | true =>
    left
    refine ⟨rfl, ?_, vlt_asymm' dr a b h hlt⟩
    cases he : veq a b with
    | false => rfl
    | true => rw [vlt_veq_not_lt dr a b h he] at hlt; exact absurd hlt Bool.false_ne_true
  | false =>
    right
    cases he : veq a b with
    | true =>
      left
      refine ⟨rfl, rfl, ?_⟩
      exact vlt_veq_not_lt dr b a h' (by rw [veq_symm']; exact he)
    | false =>
      right
      exact ⟨rfl, rfl, vlt_total' dr a b h he hlt⟩

example : SameKind (.list [.int 1, .str []]) (.list [.dec 2 1]) := by simp [SameKind, SameKindL]

/-! ### 5: what the order is, kind by kind -/

/-- the rational number a numerical value denotes -/
def toRat : Val → ℚ
  | .int n => n
  | .dec m e => (m : ℚ) / 2 ^ e
  | _ => 0

theorem vlt_num_iff {x y : Val} (hx : x.isNumerical = true) (hy : y.isNumerical = true) :
    vltWith dr x y = true ↔ toRat x < toRat y := by
  cases x <;> simp only [Val.isNumerical, Bool.false_eq_true] at hx <;>
    cases y <;> simp only [Val.isNumerical, Bool.false_eq_true] at hy
  · simp [vltWith, toRat]
  · simp only [vltWith, toRat, numLt_iff, qOf, pow_zero, div_one]
  · simp only [vltWith, toRat, numLt_iff, qOf, pow_zero, div_one]
  · simp only [vltWith, toRat, numLt_iff, qOf]

theorem veq_num_iff {x y : Val} (hx : x.isNumerical = true) (hy : y.isNumerical = true) :
    veq x y = true ↔ toRat x = toRat y := by
  cases x <;> simp only [Val.isNumerical, Bool.false_eq_true] at hx <;>
    cases y <;> simp only [Val.isNumerical, Bool.false_eq_true] at hy
  · simp [veq, toRat]
  · simp only [veq, toRat, numEq_iff, qOf, pow_zero, div_one]
  · simp only [veq, toRat, numEq_iff, qOf, pow_zero, div_one]
  · simp only [veq, toRat, numEq_iff, qOf]

example : (Val.int 3).isNumerical = true ∧ (Val.dec 7 1).isNumerical = true ∧
    vltWith dr (.int 3) (.dec 7 1) = true := ⟨rfl, rfl, rfl⟩

/-- `strLt` is the lexicographic order of the code-point lists -/
theorem strLt_iff_lex (s t : List Char) :
    strLt s t = true ↔ s.map Char.toNat < t.map Char.toNat := by
  rw [strLt_eq_natListLt, natListLt_iff_lt]

/-- a proper prefix comes first -/
theorem strLt_prefix (s : List Char) {t : List Char} (ht : t ≠ []) : strLt s (s ++ t) = true := by
  induction s with
  | nil =>
    cases t with
    | nil => exact absurd rfl ht
    | cons c t => rfl
  | cons a s ih => simp [strLt, ih]

example : strLt ['a', 'b'] (['a', 'b'] ++ ['c']) = true := by decide

/-- the first differing code point decides -/
theorem strLt_first_diff (p s t : List Char) {a b : Char} (h : a.toNat < b.toNat) :
    strLt (p ++ a :: s) (p ++ b :: t) = true := by
  induction p with
  | nil => simp [strLt, h]
  | cons c p ih => simp [strLt, ih]

example : 'a'.toNat < 'b'.toNat := by decide

theorem strLt_of_prefix_false (s t : List Char) : strLt (s ++ t) s = false := by
  induction s with
  | nil => cases t <;> rfl
  | cons a s ih => simp [strLt, ih]

theorem vlt_str_iff (s t : List Char) :
    vltWith dr (.str s) (.str t) = true ↔ s.map Char.toNat < t.map Char.toNat := by
  simp only [vltWith]; exact strLt_iff_lex s t

theorem vlt_pat_iff (s t : List Char) :
    vltWith dr (.pat s) (.pat t) = true ↔ s.map Char.toNat < t.map Char.toNat := by
  simp only [vltWith]; exact strLt_iff_lex s t

theorem vlt_bool_false_true : vltWith dr (.bool false) (.bool true) = true := by
  simp [vltWith]

theorem vlt_bool_iff (a b : Bool) : vltWith dr (.bool a) (.bool b) = true ↔ (a = false ∧ b = true) := by
  cases a <;> cases b <;> simp [vltWith]

/-- dates are ordered lexicographically on (year, month, day, hour, minute, second, microsecond) -/
theorem vlt_date_iff (a b : DT) :
    vltWith dr (.date a) (.date b) = true ↔
      [a.y, a.mo, a.d, a.h, a.mi, a.s, a.us] < [b.y, b.mo, b.d, b.h, b.mi, b.s, b.us] := by
  simp only [vltWith, DT.lt, natListLt_iff_lt, DT.toList]

/-- lists: the first position whose elements differ (by `==`) decides, by `<` -/
theorem vlt_list_cons (x y : Val) (xs ys : List Val) :
    vltWith dr (.list (x :: xs)) (.list (y :: ys)) =
      if veq x y then vltWith dr (.list xs) (.list ys) else vltWith dr x y := by
  simp [vltWith, vltL]

theorem vlt_list_nil_cons (y : Val) (ys : List Val) :
    vltWith dr (.list []) (.list (y :: ys)) = true := by simp [vltWith, vltL]

theorem vlt_list_nil_right (xs : List Val) : vltWith dr (.list xs) (.list []) = false := by
  cases xs <;> simp [vltWith, vltL]

/-! ### 6: the derived comparisons are consistent -/

theorem vle_eq_not_gt {a b : Val} (h : SameKind a b) :
    vleWith dr a b = !vltWith dr b a := by
  unfold vleWith
  rcases vlt_trichotomy dr h with ⟨h1, h2, h3⟩ | ⟨h1, h2, h3⟩ | ⟨h1, h2, h3⟩ <;>
    rw [h1, h2, h3] <;> rfl

theorem vgt_eq_flip {a b : Val} (h : SameKind a b) : vgtWith dr a b = vltWith dr b a := by
  unfold vgtWith
  rcases vlt_trichotomy dr h with ⟨h1, h2, h3⟩ | ⟨h1, h2, h3⟩ | ⟨h1, h2, h3⟩ <;>
    rw [h1, h2, h3] <;> rfl

theorem vge_eq_not_lt (a b : Val) : vgeWith dr a b = !vltWith dr a b := rfl

/-- so `a >= b` is `b <= a` -/
theorem vge_eq_flip_le {a b : Val} (h : SameKind a b) : vgeWith dr a b = vleWith dr b a := by
  rw [vge_eq_not_lt, vle_eq_not_gt dr (SameKind_symm a b h)]

theorem compare_neg_iff (a b : Val) : compareM dr a b = -1 ↔ vltWith dr a b = true := by
  unfold compareM
  cases vltWith dr a b <;> cases veq a b <;> simp

theorem compare_zero_iff {a b : Val} (h : SameKind a b) :
    compareM dr a b = 0 ↔ veq a b = true := by
  unfold compareM
  rcases vlt_trichotomy dr h with ⟨h1, h2, h3⟩ | ⟨h1, h2, h3⟩ | ⟨h1, h2, h3⟩ <;>
    rw [h1, h2] <;> simp

theorem compare_pos_iff {a b : Val} (h : SameKind a b) :
    compareM dr a b = 1 ↔ vltWith dr b a = true := by
  unfold compareM
  rcases vlt_trichotomy dr h with ⟨h1, h2, h3⟩ | ⟨h1, h2, h3⟩ | ⟨h1, h2, h3⟩ <;>
    rw [h1, h2, h3] <;> simp

example : SameKind (.str ['b']) (.str ['a']) ∧ compareM dr (.str ['b']) (.str ['a']) = 1 := by
  refine ⟨by simp [SameKind], rfl⟩

/-! ### 7: sorting (generic in the element type and the relation)

  `StrictWeakOn S lt`: `lt` is irreflexive, transitive, and incomparability is transitive, on the
  elements satisfying `S`.  `StrictTotalOn S lt`: irreflexive, transitive, trichotomous with `=`.
  (Both in `CklVerif/Lemmas/C07Sort.lean`.)  Take `S := fun _ => True` for a global order. -/

section sorting
variable {α : Type _} {β : Type _}

theorem sortBy_perm (lt : α → α → Bool) (xs : List α) : (sortBy lt xs).Perm xs :=
  sortBy_perm' lt xs

theorem sortedM_perm (lt : β → β → Bool) (key : α → β) (xs : List α) :
    (sortedM lt key xs).Perm xs := by
  unfold sortedM
  simpa using foldl_insR_perm (fun a b => lt (key a) (key b)) xs []

/-- `sortBy` sorts: no later element is smaller than an earlier one -/
theorem sortBy_sorted {S : α → Prop} {lt : α → α → Bool} (hw : StrictWeakOn S lt)
    {xs : List α} (hxs : ∀ x ∈ xs, S x) :
    (sortBy lt xs).Pairwise (fun a b => lt b a = false) := sortBy_sorted' hw hxs

/-- `sortedM` (the literal `FuncSorted` loop) sorts by key -/
theorem sortedM_sorted {S : β → Prop} {lt : β → β → Bool} (hw : StrictWeakOn S lt)
    (key : α → β) {xs : List α} (hxs : ∀ x ∈ xs, S (key x)) :
    (sortedM lt key xs).Pairwise (fun a b => lt (key b) (key a) = false) := by
  unfold sortedM
  exact foldl_insR_sorted (hw.comap key) hxs (by simp) List.Pairwise.nil

/-- `sortedM` is stable: the elements whose key is equivalent to `k` keep their input order -/
theorem sortedM_stable {S : β → Prop} {lt : β → β → Bool} (hw : StrictWeakOn S lt)
    (key : α → β) {xs : List α} (hxs : ∀ x ∈ xs, S (key x)) {k : β} (hk : S k) :
    (sortedM lt key xs).filter (fun x => !lt (key x) k && !lt k (key x)) =
      xs.filter (fun x => !lt (key x) k && !lt k (key x)) := by
  unfold sortedM
  have := foldl_insR_filter (S := fun a => S (key a)) (lt := fun a b => lt (key a) (key b))
    (P := fun x => !lt (key x) k && !lt k (key x)) ?_ hxs (acc := []) (by simp)
  · simpa using this
  · intro a b ha hb hPa hPb
    simp only [Bool.and_eq_true, Bool.not_eq_true'] at hPa hPb
    exact (hw.incomp_trans (key a) k (key b) ha hk hb hPa.1 hPa.2 hPb.2 hPb.1).1

/-- `sortBy` inserts the head of the input last and behind its equals, so it is *anti*-stable:
    elements with equivalent keys come out in reversed input order.
    (`sortBy (·.1 < ·.1) [(1,0),(0,1),(1,2),(0,3)] = [(0,3),(0,1),(1,2),(1,0)]`.) -/
theorem sortBy_antistable {S : α → Prop} {lt : α → α → Bool} (hw : StrictWeakOn S lt)
    {xs : List α} (hxs : ∀ x ∈ xs, S x) {k : α} (hk : S k) :
    (sortBy lt xs).filter (fun x => !lt x k && !lt k x) =
      (xs.filter (fun x => !lt x k && !lt k x)).reverse := by
  apply sortBy_filter hw _ hxs
  intro a b ha hb hPa hPb
  simp only [Bool.and_eq_true, Bool.not_eq_true'] at hPa hPb
  exact (hw.incomp_trans a k b ha hk hb hPa.1 hPa.2 hPb.2 hPb.1).1

/-- consequently `sortBy` on the reversed input is the stable sort -/
theorem sortBy_reverse_stable {S : α → Prop} {lt : α → α → Bool} (hw : StrictWeakOn S lt)
    {xs : List α} (hxs : ∀ x ∈ xs, S x) {k : α} (hk : S k) :
    (sortBy lt xs.reverse).filter (fun x => !lt x k && !lt k x) =
      xs.filter (fun x => !lt x k && !lt k x) := by
  rw [sortBy_antistable hw (fun x hx => hxs x (List.mem_reverse.mp hx)) hk,
    List.filter_reverse, List.reverse_reverse]

/-- on a strictly totally ordered input every correct sort returns `sortBy lt xs` -/
theorem sorted_unique {lt : α → α → Bool} {xs ys : List α}
    (ht : StrictTotalOn (· ∈ xs) lt) (hp : ys.Perm xs)
    (hs : ys.Pairwise (fun a b => lt b a = false)) : ys = sortBy lt xs :=
  sorted_perm_unique ht hp (sortBy_perm' lt xs) hs (sortBy_sorted' ht.toWeak (fun _ h => h))

theorem sortedM_id_eq_sortBy {lt : α → α → Bool} {xs : List α}
    (ht : StrictTotalOn (· ∈ xs) lt) : sortedM lt id xs = sortBy lt xs :=
  sorted_unique ht (sortedM_perm lt id xs) (sortedM_sorted ht.toWeak id (fun _ h => h))

/-- the sorted result does not depend on the input order -/
theorem sortBy_perm_invariant {lt : α → α → Bool} {xs ys : List α}
    (ht : StrictTotalOn (· ∈ xs) lt) (hp : xs.Perm ys) : sortBy lt xs = sortBy lt ys :=
  (sorted_unique ht ((sortBy_perm' lt ys).trans hp.symm)
    (sortBy_sorted' (ht.mono (fun _ h => hp.mem_iff.mpr h)).toWeak (fun _ h => h))).symm

theorem first_min_all {S : α → Prop} {lt : α → α → Bool} (hw : StrictWeakOn S lt)
    {l pre post : List α} {m : α} (h1 : l = pre ++ m :: post) (hS : ∀ z ∈ l, S z)
    (h2 : ∀ y ∈ pre, lt m y = true) (h3 : ∀ y ∈ post, lt y m = false) :
    ∀ y ∈ l, lt y m = false := by
  subst h1
  intro y hy
  have hm : S m := hS m (by simp)
  rcases List.mem_append.mp hy with h | h
  · exact hw.asymm hm (hS y hy) (h2 y h)
  · rcases List.mem_cons.mp h with rfl | h
    · exact hw.irrefl _ hm
    · exact h3 y h

/-- `min`: the result is the FIRST minimal element: every element before it is strictly greater,
    and no element at all is smaller -/
theorem minM_spec {S : β → Prop} {lt : β → β → Bool} (hw : StrictWeakOn S lt)
    (key : α → β) {xs : List α} (hxs : ∀ x ∈ xs, S (key x)) (hne : xs ≠ []) :
    ∃ m pre post, minM lt key xs = some m ∧ xs = pre ++ m :: post ∧
      (∀ y ∈ pre, lt (key m) (key y) = true) ∧ (∀ y ∈ xs, lt (key y) (key m) = false) := by
  cases xs with
  | nil => exact absurd rfl hne
  | cons a as =>
    have hw' := hw.comap key
    obtain ⟨pre, post, h1, h2, h3⟩ :=
      foldl_min_spec hw' as [] a [] (by simpa using hxs) (by simp) (by simp)
    rw [minM_eq_foldl]
    have h1' := h1
    simp only [List.nil_append, List.cons_append] at h1'
    exact ⟨_, pre, post, rfl, h1', h2, first_min_all hw' h1' hxs h2 h3⟩

theorem minM_nil (lt : β → β → Bool) (key : α → β) : minM lt key ([] : List α) = none := rfl
theorem maxM_nil (lt : β → β → Bool) (key : α → β) : maxM lt key ([] : List α) = none := rfl

/-- `max`: the result is the FIRST maximal element -/
theorem maxM_spec {S : β → Prop} {lt : β → β → Bool} (hw : StrictWeakOn S lt)
    (key : α → β) {xs : List α} (hxs : ∀ x ∈ xs, S (key x)) (hne : xs ≠ []) :
    ∃ m pre post, maxM lt key xs = some m ∧ xs = pre ++ m :: post ∧
      (∀ y ∈ pre, lt (key y) (key m) = true) ∧ (∀ y ∈ xs, lt (key m) (key y) = false) := by
  rw [maxM_eq_minM_flip]
  exact minM_spec hw.flip key hxs hne

theorem minM_mem {lt : β → β → Bool} {key : α → β} {xs : List α} {m : α}
    (h : minM lt key xs = some m) : m ∈ xs := by
  cases xs with
  | nil => simp [minM] at h
  | cons a as =>
    simp only [minM, Option.some.injEq] at h
    subst h
    suffices ∀ (l : List α) (a : α),
        l.foldl (fun m x => if lt (key x) (key m) = true then x else m) a ∈ a :: l from this as a
    intro l
    induction l with
    | nil => intro a; simp
    | cons x l ih =>
      intro a
      simp only [List.foldl_cons]
      have := ih (if lt (key x) (key a) = true then x else a)
      rcases List.mem_cons.mp this with h | h
      · rw [h]; split <;> simp
      · simp [h]

theorem maxM_mem {lt : β → β → Bool} {key : α → β} {xs : List α} {m : α}
    (h : maxM lt key xs = some m) : m ∈ xs := by
  rw [maxM_eq_minM_flip] at h; exact minM_mem h

/-! non-vacuity: `<` on naturals is a strict total (hence weak) order; comparing pairs by their
    first component is a strict weak order that is not total -/

theorem nat_strictTotal : StrictTotalOn (fun _ : Nat => True) (fun a b => decide (a < b)) where
  irrefl a _ := by simp
  trans a b c _ _ _ h1 h2 := by simp at *; omega
  tri a b _ _ := by simp; omega

theorem fst_strictWeak :
    StrictWeakOn (fun _ : Nat × Nat => True) (fun a b => decide (a.1 < b.1)) where
  irrefl a _ := by simp
  trans a b c _ _ _ h1 h2 := by simp at *; omega
  incomp_trans a b c _ _ _ h1 h2 h3 h4 := by simp at *; omega

example : sortedM (fun a b : Nat => decide (a < b)) Prod.fst [(1, 0), (0, 1), (1, 2), (0, 3)] =
    [(0, 1), (0, 3), (1, 0), (1, 2)] := by decide
example : sortBy (fun a b : Nat × Nat => decide (a.1 < b.1)) [(1, 0), (0, 1), (1, 2), (0, 3)] =
    [(0, 3), (0, 1), (1, 2), (1, 0)] := by decide
example : minM (fun a b : Nat => decide (a < b)) Prod.fst [(1, 0), (0, 1), (1, 2), (0, 3)] =
    some (0, 1) := by decide
example : maxM (fun a b : Nat => decide (a < b)) Prod.fst [(1, 0), (0, 1), (1, 2), (0, 3)] =
    some (1, 0) := by decide

example : StrictTotalOn (· ∈ [3, 1, 2]) (fun a b : Nat => decide (a < b)) :=
  nat_strictTotal.mono (fun _ _ => trivial)

-- the generic theorems are usable: `FuncSorted` with key "first component" is stable
example (xs : List (Nat × Nat)) (k : Nat) :
    (sortedM (fun a b : Nat => decide (a < b)) Prod.fst xs).filter
        (fun x => !decide (x.1 < k) && !decide (k < x.1)) =
      xs.filter (fun x => !decide (x.1 < k) && !decide (k < x.1)) :=
  sortedM_stable nat_strictTotal.toWeak Prod.fst (fun _ _ => trivial) trivial

-- ... and any sorted permutation of distinct naturals is what `sortBy` returns
example : [1, 2, 3] = sortBy (fun a b : Nat => decide (a < b)) [3, 1, 2] :=
  sorted_unique (nat_strictTotal.mono (fun _ _ => trivial)) (by decide) (by decide)

end sorting

/-! ### 7b: the value order meets the hypotheses of the sorting theorems -/

theorem pairwise_mem_cases {α} {R : α → α → Prop} {l : List α} (h : l.Pairwise R) {a b : α}
    (ha : a ∈ l) (hb : b ∈ l) : a = b ∨ R a b ∨ R b a := by
  induction l with
  | nil => simp at ha
  | cons x l ih =>
    rw [List.pairwise_cons] at h
    rcases List.mem_cons.mp ha with ha' | ha' <;> rcases List.mem_cons.mp hb with hb' | hb'
    · left; rw [ha', hb']
    · right; left; rw [ha']; exact h.1 b hb'
    · right; right; rw [hb']; exact h.1 a ha'
    · exact ih h.2 ha' hb'

/-- on a list of values that are mutually of one kind (including each with itself), `<` is a strict
    weak order whose incomparability classes are the `veq` classes -/
theorem vlt_strictWeakOn {xs : List Val} (hk : ∀ a ∈ xs, ∀ b ∈ xs, SameKind a b) :
    StrictWeakOn (· ∈ xs) (vltWith dr) where
  irrefl a _ := vlt_irrefl_all dr a
  trans a b c ha hb hc h1 h2 :=
    vlt_trans' dr a b c (hk a ha b hb) (hk a ha c hc) (hk b hb c hc) h1 h2
  incomp_trans a b c ha hb hc h1 h2 h3 h4 := by
    have hab : veq a b = true := by
      cases h : veq a b with
      | true => rfl
      | false =>
        have := vlt_total' dr a b (hk a ha b hb) h h1
        rw [h2] at this; exact absurd this Bool.false_ne_true
    have hbc : veq b c = true := by
      cases h : veq b c with
      | true => rfl
      | false =>
        have := vlt_total' dr b c (hk b hb c hc) h h3
        rw [h4] at this; exact absurd this Bool.false_ne_true
    have hac := veq_trans' a b c hab hbc
    exact ⟨vlt_veq_not_lt dr a c (hk a ha c hc) hac,
      vlt_veq_not_lt dr c a (hk c hc a ha) (by rw [veq_symm']; exact hac)⟩

example : ∀ a ∈ [Val.int 2, .dec 4 1, .int 1], ∀ b ∈ [Val.int 2, .dec 4 1, .int 1],
    SameKind a b := by
  intro a ha b hb
  simp only [List.mem_cons, List.not_mem_nil, or_false] at ha hb
  rcases ha with rfl | rfl | rfl <;> rcases hb with rfl | rfl | rfl <;> simp [SameKind]

/-- on a list of pairwise same-kind, pairwise non-`veq` values, `<` is a strict total order -/
theorem vlt_strictTotalOn {xs : List Val} (hk : xs.Pairwise SameKind)
    (hne : xs.Pairwise (fun x y => veq x y = false)) :
    StrictTotalOn (· ∈ xs) (vltWith dr) := by
  have key : ∀ a ∈ xs, ∀ b ∈ xs, a = b ∨ (SameKind a b ∧ SameKind b a ∧ veq a b = false) := by
    intro a ha b hb
    rcases pairwise_mem_cases (hk.and hne) ha hb with h | ⟨h1, h2⟩ | ⟨h1, h2⟩
    · left; exact h
    · right; exact ⟨h1, SameKind_symm _ _ h1, h2⟩
    · right; exact ⟨SameKind_symm _ _ h1, h1, by rw [veq_symm']; exact h2⟩
  refine ⟨fun a _ => vlt_irrefl_all dr a, ?_, ?_⟩
  · intro a b c ha hb hc h1 h2
    rcases key a ha b hb with rfl | ⟨kab, kba, -⟩
    · rw [vlt_irrefl_all] at h1; exact absurd h1 Bool.false_ne_true
    rcases key b hb c hc with rfl | ⟨kbc, -, -⟩
    · rw [vlt_irrefl_all] at h2; exact absurd h2 Bool.false_ne_true
    rcases key a ha c hc with rfl | ⟨kac, -, -⟩
    · rw [vlt_asymm' dr a b kab h1] at h2; exact absurd h2 Bool.false_ne_true
    exact vlt_trans' dr a b c kab kac kbc h1 h2
  · intro a b ha hb
    rcases key a ha b hb with rfl | ⟨kab, -, hne⟩
    · right; left; rfl
    · cases h : vltWith dr a b with
      | true => left; rfl
      | false => right; right; exact vlt_total' dr a b kab hne h

example : [Val.int 2, .dec 3 1, .int 1].Pairwise SameKind ∧
    [Val.int 2, .dec 3 1, .int 1].Pairwise (fun x y => veq x y = false) := by
  refine ⟨?_, by decide⟩
  refine List.Pairwise.cons ?_ (List.Pairwise.cons ?_ (List.Pairwise.cons ?_ List.Pairwise.nil))
  · intro b hb
    simp only [List.mem_cons, List.not_mem_nil, or_false] at hb
    rcases hb with rfl | rfl <;> simp [SameKind]
  · intro b hb
    simp only [List.mem_cons, List.not_mem_nil, or_false] at hb
    subst hb; simp [SameKind]
  · intro b hb; simp at hb

/-! ### 8: set enumeration order does not depend on the hash order -/

theorem sortedItems_perm_invariant {xs ys : List Val}
    (ht : StrictTotalOn (· ∈ xs) (vltWith dr)) (hp : xs.Perm ys) :
    sortedItems dr xs = sortedItems dr ys :=
  sortBy_perm_invariant ht hp

/-- any correct sort (e.g. CPython's `sorted`) of the elements yields the model's enumeration -/
theorem sortedItems_unique {xs ys : List Val}
    (ht : StrictTotalOn (· ∈ xs) (vltWith dr)) (hp : ys.Perm xs)
    (hs : ys.Pairwise (fun a b => vltWith dr b a = false)) : ys = sortedItems dr xs :=
  sorted_unique ht hp hs

theorem mkSet_perm {xs ys : List Val} (hp : xs.Perm ys) (hk : xs.Pairwise SameKind)
    (hne : xs.Pairwise (fun x y => veq x y = false)) : mkSet dr xs = mkSet dr ys := by
  have hne' : ys.Pairwise (fun x y => veq x y = false) :=
    hp.pairwise_iff (fun {x y} h => by rw [veq_symm']; exact h) |>.mp hne
  unfold mkSet
  rw [dedup_of_pairwise hne, dedup_of_pairwise hne',
    sortedItems_perm_invariant dr (vlt_strictTotalOn dr hk hne) hp]

example : [Val.int 2, .dec 3 1, .int 1].Perm [.int 1, .int 2, .dec 3 1] ∧
    mkSet dr [.int 2, .dec 3 1, .int 1] = .set [.int 1, .dec 3 1, .int 2] := by
  refine ⟨List.perm_append_comm (l₁ := [Val.int 2, .dec 3 1]) (l₂ := [.int 1]), rfl⟩

/-- the enumeration of a set built from same-kind elements is strictly ascending -/
theorem sortedItems_sorted {xs : List Val} (hk : ∀ a ∈ xs, ∀ b ∈ xs, SameKind a b) :
    (sortedItems dr xs).Pairwise (fun a b => vltWith dr b a = false) :=
  sortBy_sorted (vlt_strictWeakOn dr hk) (fun _ h => h)

end Ckl.C07
