"""Small command line helpers (also used by sub-agents to compare against the implementation).

  python -m harness.tools tokens  'source'      -> token list of the real lexer (driver format) or (syn MSG LINE)
  python -m harness.tools ast     'source'      -> AST dump of the real parser (no positions)
  python -m harness.tools astpos  'source'      -> AST dump with positions
  python -m harness.tools parsereq 'source'     -> a `(parse …)` request line for the model driver built from the real tokens
Source may be given as @file to read it from a file.
"""
import sys

from harness import core, astdump, proto


def outcome(fn):
    from ckl.errors import CklSyntaxError
    try:
        with core.time_limit(10):
            return fn()
    except CklSyntaxError as e:
        line = e.pos.line if e.pos else 0
        return f"(syn s:{proto.enc_str(str(e.msg))} {line})"
    except core.Timeout:
        return "(timeout)"
    except RecursionError:
        return "(host RecursionError)"
    except Exception as e:  # noqa
        return f"(host {type(e).__name__})"


def main():
    core.use_repo()
    from ckl.lexer import Lexer
    from ckl.parser import parse_script
    cmd, src = sys.argv[1], sys.argv[2]
    if src.startswith("@"):
        src = open(src[1:], encoding="utf-8").read()
    if cmd == "tokens":
        print(outcome(lambda: "(toks" + astdump.dump_tokens(Lexer(src, "f").scan().tokens) + ")"))
    elif cmd == "ast":
        print(outcome(lambda: "(ast " + astdump.dump(parse_script(src, "f")) + ")"))
    elif cmd == "astpos":
        print(outcome(lambda: "(ast " + astdump.dump(parse_script(src, "f"), True) + ")"))
    elif cmd == "parsereq":
        print(outcome(lambda: "(parse" + astdump.dump_tokens(Lexer(src, "f").scan().tokens) + ")"))
    else:
        print(__doc__)


if __name__ == "__main__":
    main()
