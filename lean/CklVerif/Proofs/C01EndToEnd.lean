/-
  C01, end to end — the front end is total ON SOURCE TEXTS: for every text (`List Char`) and file name,
  `parse_script` (scanner + parser) returns an AST or ONE syntax error with a non-empty message, a line ≥ 1 that
  is a line of the text, and the file name; and `Interpreter.interpret` on a text that the front end rejects
  ends with exactly that syntax error.

  Pieces: `C01.scan_total` (`Proofs/C01Lexer.lean`), `C01.parse_total` (`Proofs/C01Parser.lean`), and for the line
  of a parser error `C14P.error_position_from_tokens` + `C20.token_line_correct` (through `Lemmas/E2EFront.lean`).
-/
import CklVerif.Lemmas.E2EFront
import CklVerif.Proofs.C01Lexer
import CklVerif.Proofs.C01Parser
namespace Ckl.E2E
open Ckl

/-- what every syntax error of the front end carries -/
structure FrontError (src : List Char) (file : String) (e : SynErr) : Prop where
  msg_ne : e.msg ≠ ""
  line_pos : 1 ≤ e.pos.line
  file_eq : e.pos.file = file
  /-- found by the scanner (position: `ScanErrorAt`), or by the parser (position: a token of the text) -/
  origin : (Lexer.scan src file = .error e ∧ ScanErrorAt src file e) ∨
    (∃ toks, Lexer.scan src file = .ok toks ∧ Parser.parse file toks = .error e ∧ TokenPos src file e.pos)

/-- **parseScript_total** (C01 from source): for EVERY text and file name the front end returns an AST, or a
    syntax error with a non-empty message, a line ≥ 1 and the file name.  (It is a Lean function: exactly one
    outcome, no other failure.) -/
theorem parseScript_total (src : List Char) (file : String) :
    (∃ ast, parseScript src file = .ok ast) ∨ (∃ e, parseScript src file = .error e ∧ FrontError src file e) := by
  rcases parseScript_cases src file with ⟨e, hs, h⟩ | ⟨toks, e, hs, hp, h⟩ | ⟨toks, ast, _, _, h⟩
  · right
    rcases C01.scan_total src file with ⟨toks, ht⟩ | ⟨e', he', hm, hl, hf⟩
    · rw [hs] at ht; cases ht
    · rw [hs] at he'; cases he'
      exact ⟨e, h, hm, hl, hf, Or.inl ⟨hs, scanErrorAt_of_scan hs⟩⟩
  · right
    rcases C01.parse_total file toks with ⟨n, hn⟩ | ⟨e', he', hm⟩
    · rw [hp] at hn; cases hn
    · rw [hp] at he'; cases he'
      have ht := parse_error_tokenPos hs hp
      exact ⟨e, h, hm, ht.line_pos, ht.file_eq, Or.inr ⟨toks, hs, hp, ht⟩⟩
  · exact Or.inl ⟨ast, h⟩

/-- the syntax error of a text is a function of the text and the file name -/
theorem parseScript_deterministic (src : List Char) (file : String) (r₁ r₂ : Except SynErr Node)
    (h₁ : parseScript src file = r₁) (h₂ : parseScript src file = r₂) : r₁ = r₂ := h₁ ▸ h₂

/-- the line of a front-end syntax error is a line of the text (or, for a scanner error at a line break that
    ends the text, the line after it): at most two plus the number of line breaks of the text -/
theorem FrontError.line_le {src : List Char} {file : String} {e : SynErr} (h : FrontError src file e) :
    e.pos.line ≤ 2 + src.count '\n' := by
  rcases h.origin with ⟨_, pre, c, rest, σ, hsplit, _, _, _, hl⟩ | ⟨_, _, _, ht⟩
  · have hc : (src ++ [' ']).count '\n' = src.count '\n' := by simp [List.count_append]
    rcases hl with hl | hl
    · have : (pre ++ [c]).count '\n' ≤ (src ++ [' ']).count '\n' := by
        rw [hsplit, show pre ++ c :: rest = (pre ++ [c]) ++ rest by simp]
        exact (List.sublist_append_left _ _).count_le _
      omega
    · have h1 : (pre.take σ.startOff).count '\n' ≤ pre.count '\n' := (List.take_sublist _ _).count_le _
      have h2 : pre.count '\n' ≤ (src ++ [' ']).count '\n' := by
        rw [hsplit]; exact (List.sublist_append_left _ _).count_le _
      omega
  · have := ht.line_le; omega

/-- **interpret_syntax_error** (C01 from source): `Interpreter.interpret` on a text the front end rejects ends
    with that syntax error — non-empty message, line ≥ 1, the file name —, for every loader, fuel, session frame
    and state, and leaves the state exactly as it was. -/
theorem interpret_syntax_error (ld : Loader) (fuel : Nat) (senv : EnvId) (src : List Char) (file : String) (s : State)
    (hrej : ∀ ast, parseScript src file ≠ .ok ast) :
    ∃ e, interpretSource ld fuel senv src file s = .fail (.syn e) s ∧ FrontError src file e := by
  rcases parseScript_total src file with ⟨ast, h⟩ | ⟨e, h, hf⟩
  · exact absurd h (hrej ast)
  · exact ⟨e, interpretSource_error h s, hf⟩

/-- … and a text the front end accepts is evaluated: `interpret` is `interpretProg` of its AST -/
theorem interpret_accepted (ld : Loader) (fuel : Nat) (senv : EnvId) (src : List Char) (file : String) (s : State) :
    (∃ ast, parseScript src file = .ok ast ∧
      interpretSource ld fuel senv src file s = interpretProg ld fuel senv ast s) ∨
    (∃ e, parseScript src file = .error e ∧ FrontError src file e ∧
      interpretSource ld fuel senv src file s = .fail (.syn e) s) := by
  rcases parseScript_total src file with ⟨ast, h⟩ | ⟨e, h, hf⟩
  · exact Or.inl ⟨ast, h, interpretSource_ok h s⟩
  · exact Or.inr ⟨e, h, hf, interpretSource_error h s⟩

/-! ### non-vacuity -/

namespace Ex01
/-- a fresh interpreter (base frame 0, session frame 1) -/
def st0 : State × EnvId := initialState true modelledNatives
def run (src : String) : Out RVal := interpretSource {} 100 st0.2 src.toList "t.ckl" st0.1

-- a text that parses and evaluates
#guard (match run "1 + 2" with | .ok (.int 3) _ => true | _ => false)
-- a text the PARSER rejects, at the end of the input of a 2-line text: message, line 2, file name, `eof`
#guard (match run "def x =\n 1 +" with
  | .fail (.syn e) _ => e.msg == "Unexpected end of input" && e.pos.line == 2 && e.pos.file == "t.ckl" && e.eof
  | _ => false)
-- a text the SCANNER rejects (bad hex literal on line 3)
#guard (match run "1;\n2;\n0x" with
  | .fail (.syn e) _ => e.msg != "" && e.pos.line == 3 && e.pos.file == "t.ckl"
  | _ => false)
-- the hypotheses of `interpret_syntax_error` are met by the first rejected text
#guard (match parseScript "def x =\n 1 +".toList "t.ckl" with | .error _ => true | .ok _ => false)

/-- `1 +` as an explicit character list: the theorem applied (the kernel does not reduce `String.toList`) -/
def onePlus : List Char := ['1', ' ', '+']
theorem onePlus_rejected : ∀ ast, parseScript onePlus "f" ≠ .ok ast := by
  intro ast h
  have hs : Lexer.scan onePlus "f" = .ok [⟨['1'], .int, ⟨"f", 1, 1⟩⟩, ⟨['+'], .operator, ⟨"f", 1, 4⟩⟩] := by
    with_unfolding_all rfl
  rw [parseScript_of_scan_ok hs] at h
  obtain ⟨e, he⟩ := C01.parse_one_plus_error
  -- the tokens of `C01.parse_one_plus_error` differ in a column only
  obtain ⟨e', he', _⟩ := (C14P.parse_pos_irrelevant (fun _ => true) "f"
    (ts := [⟨['1'], .int, ⟨"f", 1, 1⟩⟩, ⟨['+'], .operator, ⟨"f", 1, 3⟩⟩])
    (ts' := [⟨['1'], .int, ⟨"f", 1, 1⟩⟩, ⟨['+'], .operator, ⟨"f", 1, 4⟩⟩]) rfl).2 e he
  have : Parser.parse "f" [⟨['1'], .int, ⟨"f", 1, 1⟩⟩, ⟨['+'], .operator, ⟨"f", 1, 4⟩⟩] = .error e' := he'
  rw [this] at h; cases h
example (ld : Loader) (fuel : Nat) (senv : EnvId) (s : State) :
    ∃ e, interpretSource ld fuel senv onePlus "f" s = .fail (.syn e) s ∧ FrontError onePlus "f" e :=
  interpret_syntax_error ld fuel senv onePlus "f" s onePlus_rejected
example : (∃ ast, parseScript onePlus "f" = .ok ast) ∨ (∃ e, parseScript onePlus "f" = .error e ∧ FrontError onePlus "f" e) :=
  parseScript_total _ _
end Ex01

end Ckl.E2E
