/-
  C01 — first theorems about the parser model `Ckl.Parser.parse` (`Model/Parser.lean`).

  * the model is total (it is a Lean function defined without fuel; termination of every
    production and every loop is the well-founded recursion on `(remaining tokens, rank)`),
    and every syntax error carries a non-empty message (`parse_total`);
  * the `eof` flag of an error is exactly "the message starts with `Unexpected end of input`";
  * the empty token list parses to `NodeNull` at 1:1;
  * a one-token program that is a literal / an identifier parses to that literal / identifier.
-/
import CklVerif.Model.Parser
namespace Ckl.C01
open Ckl Ckl.Parser

/-! ### totality -/

/-- `parseWith` always returns an AST or a syntax error with a non-empty message. -/
theorem parseWith_total (validRe : List Char → Bool) (file : String) (toks : List Token) :
    (∃ n, parseWith validRe file toks = .ok n) ∨
    (∃ e, parseWith validRe file toks = .error e ∧ e.msg ≠ "") := by
  unfold parseWith
  cases parseCore validRe file toks with
  | ok n => exact Or.inl ⟨n, rfl⟩
  | error e => exact Or.inr ⟨e.val, rfl, e.property.1⟩

/-- `parse` is a total function: for every file name and every token list it returns an AST or a
    syntax error, and the error message is never empty. -/
theorem parse_total (file : String) (toks : List Token) :
    (∃ n, parse file toks = .ok n) ∨ (∃ e, parse file toks = .error e ∧ e.msg ≠ "") :=
  parseWith_total _ file toks

/-- the `eof` flag of a syntax error is set exactly when its message starts with
    "Unexpected end of input" -/
theorem parseWith_error_eof (validRe : List Char → Bool) (file : String) (toks : List Token) (e : SynErr)
    (h : parseWith validRe file toks = .error e) : e.eof = e.msg.startsWith "Unexpected end of input" := by
  unfold parseWith at h
  cases hc : parseCore validRe file toks with
  | ok n => rw [hc] at h; cases h
  | error e' =>
    rw [hc] at h
    cases h
    exact e'.property.2

theorem parse_error_eof (file : String) (toks : List Token) (e : SynErr)
    (h : parse file toks = .error e) : e.eof = e.msg.startsWith "Unexpected end of input" :=
  parseWith_error_eof _ file toks e h

/-- `1 +` is a syntax error (the hypothesis of `parse_error_eof` can be met) -/
theorem parse_one_plus_error :
    ∃ e, parse "f" [⟨['1'], .int, ⟨"f", 1, 1⟩⟩, ⟨['+'], .operator, ⟨"f", 1, 3⟩⟩] = .error e := by
  rcases parse_total "f" [⟨['1'], .int, ⟨"f", 1, 1⟩⟩, ⟨['+'], .operator, ⟨"f", 1, 3⟩⟩] with ⟨n, h⟩ | ⟨e, h, _⟩
  · exfalso
    revert h
    simp [parse, parseWith, parseCore, pBareBlock, pStatement, pExpression, pOr, pAnd, pNot, pRel, pAdd, pMul,
      pUnary, pPred, pPrimary, postfixLoop, mulLoop, addLoop, St.peekn, St.tokIs, St.hasNext, takeComment,
      St.matchIf, St.next, matchOpTable, mulOps, addOps, parseIntLit, isDigit, binPredTable, St.matchIf2,
      St.matchIf3, leLt, wkLt, endPosOf, bind, Except.bind, pure, Except.pure]
  · exact ⟨e, h⟩

/-- non-vacuity of `parse_error_eof` -/
example : ∃ e, parse "f" [⟨['1'], .int, ⟨"f", 1, 1⟩⟩, ⟨['+'], .operator, ⟨"f", 1, 3⟩⟩] = .error e ∧
    e.eof = e.msg.startsWith "Unexpected end of input" := by
  obtain ⟨e, h⟩ := parse_one_plus_error
  exact ⟨e, h, parse_error_eof _ _ _ h⟩

/-! ### the empty program -/

/-- `parse` of no tokens is `NodeNull` at line 1, column 1 of the file. -/
theorem parse_empty (file : String) : parse file [] = .ok (Node.null ⟨file, 1, 1⟩) := rfl

theorem parseWith_empty (validRe : List Char → Bool) (file : String) :
    parseWith validRe file [] = .ok (Node.null ⟨file, 1, 1⟩) := rfl

/-! ### one-token programs -/

@[simp] theorem matchIf_nil (p : Pos) (v ty) : St.matchIf ⟨p, []⟩ v ty = none := rfl
@[simp] theorem matchIf2_nil (p : Pos) (v ty v2 ty2) : St.matchIf2 ⟨p, []⟩ v ty v2 ty2 = none := rfl
@[simp] theorem matchIf3_nil (p : Pos) (v ty v2 ty2 v3 ty3) : St.matchIf3 ⟨p, []⟩ v ty v2 ty2 v3 ty3 = none := rfl
@[simp] theorem peekn_nil (p : Pos) (n v ty) : St.peekn ⟨p, []⟩ n v ty = false := by simp [St.peekn]
@[simp] theorem matchOpTable_nil (p : Pos) (tbl) : matchOpTable ⟨p, []⟩ tbl = none := by
  induction tbl with
  | nil => rfl
  | cons x xs ih => obtain ⟨v, fn⟩ := x; simp [matchOpTable, ih]
@[simp] theorem relGuard_nil (p : Pos) : relGuard ⟨p, []⟩ = false := rfl
@[simp] theorem binPredTable_nil (p : Pos) : binPredTable ⟨p, []⟩ = none := by simp [binPredTable]

theorem takeComment_single (p : Pos) (t : Token) :
    takeComment ⟨p, [t]⟩ = ([], ⟨⟨p, [t]⟩, Nat.le_refl _⟩) := by
  simp [takeComment, St.peekn]

/-- at the end of the input the postfix loops return their argument -/
theorem postfixLoop_nil (c : Ctx) (a b : Bool) (p : Pos) (n : Node) :
    postfixLoop c a b ⟨p, []⟩ n = .ok ⟨n, ⟨p, []⟩, Nat.le_refl _⟩ := by
  rw [postfixLoop]; simp

/-- a token that starts no statement form and no prefix operator -/
def plainTok (t : Token) : Prop := t.type ≠ .keyword ∧ t.type ≠ .operator

/-- If `parse_primary_expr` turns the single token `t` into `e`, and `t` is neither a keyword
    nor an operator, the whole chain `parse → parse_bare_block → parse_statement →
    parse_expression → … → parse_pred_expr` passes `e` through unchanged. -/
theorem parse_single (validRe : List Char → Bool) (file : String) (t : Token) (e : Node)
    (hplain : plainTok t)
    (hprim : ∀ c p, pPrimary c false ⟨p, [t]⟩ = .ok ⟨e, ⟨t.pos, []⟩, by simp⟩)
    (hret : unwrapReturn e = e) :
    parseWith validRe file [t] = .ok e := by
  obtain ⟨hk, ho⟩ := hplain
  have hkw : ∀ p v, St.matchIf ⟨p, [t]⟩ v (some .keyword) = none := by
    intro p v; simp [St.matchIf, St.tokIs, hk]
  have hop : ∀ p v, St.matchIf ⟨p, [t]⟩ v (some .operator) = none := by
    intro p v; simp [St.matchIf, St.tokIs, ho]
  have hpk : ∀ p v, St.peekn ⟨p, [t]⟩ 1 v (some .keyword) = false := by
    intro p v; simp [St.peekn, St.tokIs, hk]
  have hpred : ∀ c p, pPred c false ⟨p, [t]⟩ = .ok ⟨e, ⟨t.pos, []⟩, by simp⟩ := by
    intro c p; rw [pPred]; simp [hprim, bind, Except.bind, pure, Except.pure]
  have hunary : ∀ c p, pUnary c ⟨p, [t]⟩ = .ok ⟨e, ⟨t.pos, []⟩, by simp⟩ := by
    intro c p; rw [pUnary]; simp [hop, hpred]
  have hmul : ∀ c p, pMul c ⟨p, [t]⟩ = .ok ⟨e, ⟨t.pos, []⟩, by simp⟩ := by
    intro c p; rw [pMul]; simp [hunary, bind, Except.bind, pure, Except.pure]; rw [mulLoop]; simp
  have hadd : ∀ c p, pAdd c ⟨p, [t]⟩ = .ok ⟨e, ⟨t.pos, []⟩, by simp⟩ := by
    intro c p; rw [pAdd]; simp [hmul, bind, Except.bind, pure, Except.pure]; rw [addLoop]; simp
  have hrel : ∀ c p, pRel c ⟨p, [t]⟩ = .ok ⟨e, ⟨t.pos, []⟩, by simp⟩ := by
    intro c p; rw [pRel]; simp [hadd, bind, Except.bind, pure, Except.pure]
  have hnot : ∀ c p, pNot c ⟨p, [t]⟩ = .ok ⟨e, ⟨t.pos, []⟩, by simp⟩ := by
    intro c p; rw [pNot]; simp [hkw, hrel]
  have hand : ∀ c p, pAnd c ⟨p, [t]⟩ = .ok ⟨e, ⟨t.pos, []⟩, by simp⟩ := by
    intro c p; rw [pAnd]; simp [hnot, bind, Except.bind, pure, Except.pure]
  have hor : ∀ c p, pOr c ⟨p, [t]⟩ = .ok ⟨e, ⟨t.pos, []⟩, by simp⟩ := by
    intro c p; rw [pOr]; simp [hand, bind, Except.bind, pure, Except.pure]
  have hexpr : ∀ c p, pExpression c ⟨p, [t]⟩ = .ok ⟨e, ⟨t.pos, []⟩, by simp⟩ := by
    intro c p; rw [pExpression]; simp [hkw, hor]
  have hstmt : ∀ c p, pStatement c ⟨p, [t]⟩ = .ok ⟨e, ⟨t.pos, []⟩, by simp⟩ := by
    intro c p; rw [pStatement]
    have htc := takeComment_single p t
    generalize takeComment ⟨p, [t]⟩ = tc at htc ⊢
    subst htc
    simp [St.hasNext, hkw, hexpr, wkLt]
  have hbare : ∀ c p, pBareBlock c true ⟨p, [t]⟩ = .ok ⟨e, ⟨t.pos, []⟩, by simp⟩ := by
    intro c p; rw [pBareBlock]
    simp [hpk, hstmt, St.hasNext, bind, Except.bind, pure, Except.pure]
  simp [parseWith, parseCore, hbare, hret]

/-- an `int` token whose text is a decimal numeral (at most 4300 digits) parses to that number -/
theorem parse_int (file : String) (t : Token) (n : Nat) (ht : t.type = .int)
    (hv : parseIntLit t.value = some n) : parse file [t] = .ok (.lit (.int n) t.pos) := by
  apply parse_single
  · simp [plainTok, ht]
  · intro c p; rw [pPrimary]
    simp [St.hasNext, St.next, ht, hv, postfixLoop_nil, leLt, bind, Except.bind]
  · rfl

example : parse "f" [⟨['4', '2'], .int, ⟨"f", 1, 1⟩⟩] = .ok (.lit (.int 42) ⟨"f", 1, 1⟩) :=
  parse_int "f" _ 42 rfl (by decide)

/-- a `decimal` token parses to the double nearest to its numeral -/
theorem parse_decimal (file : String) (t : Token) (m : Int) (e : Nat) (ht : t.type = .decimal)
    (hv : parseDecimal t.value = some (m, e)) : parse file [t] = .ok (.lit (.dec m e) t.pos) := by
  apply parse_single
  · simp [plainTok, ht]
  · intro c p; rw [pPrimary]
    simp [St.hasNext, St.next, ht, hv, postfixLoop_nil, leLt, bind, Except.bind]
  · rfl

example : parse "f" [⟨['1', '.', '5'], .decimal, ⟨"f", 1, 1⟩⟩] = .ok (.lit (.dec 3 1) ⟨"f", 1, 1⟩) :=
  parse_decimal "f" _ 3 1 rfl (by decide)

/-- a `boolean` token parses to `TRUE` iff its text is `TRUE` -/
theorem parse_boolean (file : String) (t : Token) (ht : t.type = .boolean) :
    parse file [t] = .ok (.lit (.bool (t.value == ['T', 'R', 'U', 'E'])) t.pos) := by
  apply parse_single
  · simp [plainTok, ht]
  · intro c p; rw [pPrimary]
    simp [St.hasNext, St.next, ht, postfixLoop_nil, leLt, bind, Except.bind]
  · rfl

example : parse "f" [⟨['T', 'R', 'U', 'E'], .boolean, ⟨"f", 1, 1⟩⟩] = .ok (.lit (.bool true) ⟨"f", 1, 1⟩) :=
  parse_boolean "f" _ rfl

/-- a `string` token parses to the string literal -/
theorem parse_string (file : String) (t : Token) (ht : t.type = .string) :
    parse file [t] = .ok (.lit (.str t.value) t.pos) := by
  apply parse_single
  · simp [plainTok, ht]
  · intro c p; rw [pPrimary]
    simp [St.hasNext, St.next, ht, postfixLoop_nil, leLt, strLit, bind, Except.bind]
  · rfl

example : parse "f" [⟨['a'], .string, ⟨"f", 1, 1⟩⟩] = .ok (.lit (.str ['a']) ⟨"f", 1, 1⟩) :=
  parse_string "f" _ rfl

/-- an `identifier` token parses to the identifier node -/
theorem parse_identifier (file : String) (t : Token) (ht : t.type = .identifier) :
    parse file [t] = .ok (.ident (String.ofList t.value) t.pos) := by
  apply parse_single
  · simp [plainTok, ht]
  · intro c p; rw [pPrimary]
    simp [St.hasNext, St.next, ht, postfixLoop_nil, leLt, str, bind, Except.bind]
  · rfl

example : parse "f" [⟨['x'], .identifier, ⟨"f", 1, 1⟩⟩] = .ok (.ident "x" ⟨"f", 1, 1⟩) :=
  parse_identifier "f" _ rfl

end Ckl.C01
