import CklVerif.Lemmas.C19SrcLoop

/-! C19Src — a MUTATOR: list.ckl `append_all` on two list cells (state relation `ExtBut`: everything that existed is unchanged
    except one cell) -/
namespace Ckl.C19Src
open Ckl Ckl.C03 Ckl.Gen.LibSrc
variable (ld : Loader)

/-! ### extension of a state except for one cell -/

/-- `s'` extends `s` except that the cell `a` (a list cell in both) may have changed -/
structure ExtBut (a : Nat) (s s' : State) : Prop where
  fsize : s.frames.size ≤ s'.frames.size
  frame : ∀ i, i < s.frames.size → s'.frame i = s.frame i
  hsize : s.heap.size ≤ s'.heap.size
  cell : ∀ x, x < s.heap.size → x ≠ a → s'.cell x = s.cell x
  out : s'.out = s.out

theorem ExtBut.ofExt {a : Nat} {s s' : State} (h : Ext s s') : ExtBut a s s' :=
  ⟨h.fsize, h.frame, h.hsize, fun x hx _ => h.cell x hx, h.out⟩

theorem ExtBut.refl (a : Nat) (s : State) : ExtBut a s s := ExtBut.ofExt (Ext.refl s)

theorem ExtBut.trans_ext {a : Nat} {s s1 s2 : State} (h1 : ExtBut a s s1) (h2 : Ext s1 s2) : ExtBut a s s2 :=
  ⟨Nat.le_trans h1.fsize h2.fsize,
   fun i hi => by rw [h2.frame i (Nat.lt_of_lt_of_le hi h1.fsize), h1.frame i hi],
   Nat.le_trans h1.hsize h2.hsize,
   fun x hx hne => by rw [h2.cell x (Nat.lt_of_lt_of_le hx h1.hsize), h1.cell x hx hne],
   by rw [h2.out, h1.out]⟩

theorem ExtBut.ext_trans {a : Nat} {s s1 s2 : State} (h1 : Ext s s1) (h2 : ExtBut a s1 s2) : ExtBut a s s2 :=
  ⟨Nat.le_trans h1.fsize h2.fsize,
   fun i hi => by rw [h2.frame i (Nat.lt_of_lt_of_le hi h1.fsize), h1.frame i hi],
   Nat.le_trans h1.hsize h2.hsize,
   fun x hx hne => by rw [h2.cell x (Nat.lt_of_lt_of_le hx h1.hsize) hne, h1.cell x hx],
   by rw [h2.out, h1.out]⟩

theorem ExtBut.trans {a : Nat} {s s1 s2 : State} (h1 : ExtBut a s s1) (h2 : ExtBut a s1 s2) : ExtBut a s s2 :=
  ⟨Nat.le_trans h1.fsize h2.fsize,
   fun i hi => by rw [h2.frame i (Nat.lt_of_lt_of_le hi h1.fsize), h1.frame i hi],
   Nat.le_trans h1.hsize h2.hsize,
   fun x hx hne => by rw [h2.cell x (Nat.lt_of_lt_of_le hx h1.hsize) hne, h1.cell x hx hne],
   by rw [h2.out, h1.out]⟩

theorem ExtBut.put {a : Nat} {s s' : State} (h : ExtBut a s s') {c : EnvId} (hc : s.frames.size ≤ c) (x : String) (v : RVal) :
    ExtBut a s (s'.put c x v) :=
  ⟨by rw [frames_size_put]; exact h.fsize,
   fun i hi => by rw [frame_put_other s' x v (by omega), h.frame i hi],
   h.hsize, fun y hy hne => h.cell y hy hne, h.out⟩

theorem ExtBut.remove {a : Nat} {s s' : State} (h : ExtBut a s s') {c : EnvId} (hc : s.frames.size ≤ c) (x : String) :
    ExtBut a s (s'.remove c x) := by
  refine ⟨?_, fun i hi => ?_, h.hsize, fun y hy hne => h.cell y hy hne, h.out⟩
  · simp [State.remove]; exact h.fsize
  · rw [← h.frame i hi]
    have hci : c ≠ i := Nat.ne_of_gt (Nat.lt_of_lt_of_le hi hc)
    simp [State.remove, State.frame, Array.getD_eq_getD_getElem?, Array.getElem?_modify, hci]

theorem ExtBut.alloc {a : Nat} {s s' : State} (h : ExtBut a s s') (c : Cell) : ExtBut a s (s'.alloc c).1 :=
  h.trans_ext ((Ext.refl s').alloc c)

/-- writing the exempt cell -/
theorem ExtBut.setCell_same {a : Nat} {s s' : State} (h : ExtBut a s s') (c : Cell) : ExtBut a s (s'.setCell a c) :=
  ⟨h.fsize, h.frame, by rw [heap_size_setCell]; exact h.hsize,
   fun x hx hne => by rw [cell_setCell_other _ _ (Ne.symm hne)]; exact h.cell x hx hne, h.out⟩

/-- writing a cell that did not exist in `s` -/
theorem ExtBut.setCell_new {a : Nat} {s s' : State} (h : ExtBut a s s') {d : Nat} (hd : s.heap.size ≤ d) (c : Cell) :
    ExtBut a s (s'.setCell d c) :=
  ⟨h.fsize, h.frame, by rw [heap_size_setCell]; exact h.hsize,
   fun x hx hne => by rw [cell_setCell_other _ _ (show d ≠ x by omega)]; exact h.cell x hx hne, h.out⟩

theorem ExtBut.ghostEnter {a : Nat} {s s' : State} (h : ExtBut a s s') (p : Pos) : ExtBut a s (ghostEnter s' p) :=
  ⟨h.fsize, h.frame, h.hsize, h.cell, h.out⟩
theorem ExtBut.ghostFin {a : Nat} {s s' : State} (h : ExtBut a s s') (p : Pos) : ExtBut a s (ghostFin s' p) :=
  ⟨h.fsize, h.frame, h.hsize, h.cell, h.out⟩

theorem Res.extBut {a : Nat} {s s' m x v} (h : Res s m x v) (e : ExtBut a s s') : Res s' m x v := by
  have hm := h.lt
  rcases h with h | ⟨h1, h2, h3⟩
  · left; rw [e.frame m hm]; exact h
  · right
    have h0 : 0 < s.frames.size := by
      refine Nat.lt_of_not_le (fun hc => ?_)
      have : s.frame 0 = {} := frame_of_ge s hc
      rw [this] at h3; cases h3
    rw [e.frame m hm, e.frame 0 h0]; exact ⟨h1, h2, h3⟩

/-- a function value survives a change of a LIST cell: its closure cell is another cell -/
theorem IsSrc.extBut {a : Nat} {s s' v src m} (h : IsSrc s v src m) (e : ExtBut a s s')
    (hl : ∃ xs, s.cell a = some (.list xs)) : IsSrc s' v src m := by
  obtain ⟨c, nm, hv, hc⟩ := h
  have hlt : c < s.heap.size := cell_lt hc
  have hne : c ≠ a := by
    intro hca; subst hca
    obtain ⟨xs, hxs⟩ := hl
    rw [hxs] at hc; cases hc
  exact ⟨c, nm, hv, by rw [e.cell c hlt hne]; exact hc⟩

/-- **the library environment survives the mutation of a list cell** -/
theorem LibEnv.extBut {a : Nat} {s s' M nats srcs} (h : LibEnv s M nats srcs) (e : ExtBut a s s')
    (hl : ∃ xs, s.cell a = some (.list xs)) : LibEnv s' M nats srcs :=
  ⟨fun m hm => Nat.lt_of_lt_of_le (h.lt m hm) e.fsize, fun m hm => (h.null m hm).extBut e,
   fun m hm x hx => let ⟨i, hi⟩ := h.nat m hm x hx; ⟨i, hi.extBut e⟩,
   fun m hm p hp => let ⟨v, m', h1, h2, h3⟩ := h.src m hm p hp; ⟨v, m', h1.extBut e, h2, h3.extBut e hl⟩⟩

/-- a `Ctx` for a state reached from the state before the call by a run that mutated the list cell `a` -/
theorem Ctx.ofExtBut {a : Nat} {s st : State} {M nats srcs m vars} (h : LibEnv s M nats srcs) (hm : M m) (e : ExtBut a s st)
    (hl : ∃ xs, s.cell a = some (.list xs))
    (hv : (st.frame s.frames.size).vars = vars) (hp : (st.frame s.frames.size).parent = some m)
    (hlt : s.frames.size < st.frames.size) : Ctx st M nats srcs s.frames.size m vars :=
  ⟨h.extBut e hl, hm, ⟨hv, hp, h.lt m hm⟩, hlt⟩

/-- from a body that mutates the cell `a` to `fn.execute`, two parameters (the analogue of `calls_of_body2X`) -/
theorem calls_of_body2B {src : Node} {q1 q2 : String} {body : Node} {k : Nat} {r : State → Out RVal} {Q : State → Prop}
    {a : Nat}
    (hps : lamParams src = [q1, q2]) (hds : lamDefaults src = [.absent, .absent]) (hbody : lamBody src = body)
    (hk : 2 ≤ k) (hne : q1 ≠ q2)
    {s : State} {M nats srcs fn m} (h : LibEnv s M nats srcs) (hm : M m) (hsrc : IsSrc s fn src m)
    (v1 v2 : RVal)
    (hb : ∀ s0, Ctx s0 M nats srcs s.frames.size m [(q1, v1), (q2, v2)] → Ext s s0 →
      ∃ s', ExtBut a s s' ∧ Ev ld k s.frames.size body s0 (r s') ∧ Q s') :
    ∃ s', ExtBut a s s' ∧ Q s' ∧ ∀ env pos, Calls ld (k + 1) fn [(q1, v1), (q2, v2)] env pos s (postCall (r s')) := by
  obtain ⟨c, nm, rfl, hcell⟩ := hsrc
  rw [hps, hds, hbody] at hcell
  obtain ⟨s', e', hev, hQ⟩ := hb _ (Ctx.callee2 h hm q1 q2 v1 v2 hne) (calleeState_ext s m [(q1, v1), (q2, v2)] [q1, q2])
  refine ⟨s', e', hQ, fun env pos => ?_⟩
  have hqp : ¬ q2 = q1 := fun h => hne h.symm
  exact Calls.closure ld hcell rfl hk
    (by intro p hp; simp at hp; rcases hp with rfl | rfl <;> simp [dictGet, hqp]) hev

/-! ### the built-ins `list(obj)`, `sublist(lst, 0)`, `append(lst, element)` on list cells -/

theorem substr_zero_none {α} (ys : List α) : Seq.substr ys 0 none = ys := by
  have hn : ¬ ((ys.length : Int) < 0) := by omega
  simp [Seq.substr, Seq.pySlice, hn]

/-- `list(obj)` on a list cell: the argument itself -/
theorem list_of_list (b : Nat) (ys : List RVal) (d : Option RVal) (pos : Pos) (s : State)
    (hc : s.cell b = some (.list ys)) :
    ∃ m, callPure "list" [("obj", .ref b)] d pos = some m ∧ m s = .ok (.ref b) s := by
  refine ⟨_, rfl, ?_⟩
  simp [dictHas, dictGet, argGet, asListArg, cellOf, hc, EvalM.bind_apply, EvalM.pure_apply]

/-- `append(lst, element)` on a list cell: the cell gets the element at the end; the value is the argument -/
theorem append_list (a : Nat) (zs : List RVal) (v : RVal) (d : Option RVal) (pos : Pos) (s : State)
    (hc : s.cell a = some (.list zs)) :
    ∃ m, callPure "append" [("lst", .ref a), ("element", v)] d pos = some m ∧
      m s = .ok (.ref a) (s.setCell a (.list (zs ++ [v]))) := by
  refine ⟨_, rfl, ?_⟩
  simp [argGet, dictGet, cellOf, hc, EvalM.bind_apply, EvalM.pure_apply]
  rfl

theorem appendAllM_eq {α} (xs ys : List α) : Lib.appendAllM xs ys = xs ++ ys := by
  unfold Lib.appendAllM
  induction ys generalizing xs with
  | nil => simp
  | cons y ys ih => rw [List.foldl_cons, ih]; simp

/-! ### list.ckl `append_all` -/

local notation "bp" => blockPos (lamBody list_append_all)

def appendNats : List String := ["list", "sublist", "append"]

/-- the loop invariant of `append_all`: before the iteration with index `i` the cell `a` holds `xs` followed by the first `i`
    items; the loop runs over the FRESH copy `d` of the items -/
structure AppInv (s : State) (c m : EnvId) (a b d : Nat) (xs ys : List RVal) (i : Nat) (st : State) : Prop where
  ext : ExtBut a s st
  cella : st.cell a = some (.list (xs ++ ys.take i))
  celld : st.cell d = some (.list ys)
  parent : (st.frame c).parent = some m
  clt : c < st.frames.size
  vars : (st.frame c).vars = [("lst", .ref a), ("items", .ref b)] ∨
    ∃ w, (st.frame c).vars = [("lst", .ref a), ("items", .ref b), ("item", w)]

/-- the body of `append_all` on two list cells -/
theorem append_all_body {s s0 : State} {M nats srcs m} {a b : Nat} {xs ys : List RVal}
    (h : LibEnv s M nats srcs) (hm : M m)
    (ctx : Ctx s0 M nats srcs s.frames.size m [("lst", .ref a), ("items", .ref b)]) (e0 : Ext s s0)
    (hn : ∀ x ∈ appendNats, x ∈ nats) (hca : s.cell a = some (.list xs)) (hcb : s.cell b = some (.list ys)) :
    ∃ s', ExtBut a s s' ∧ Ev ld (ys.length + 12) s.frames.size (lamBody list_append_all) s0 (.ok (.ref a) s') ∧
      s'.cell a = some (.list (xs ++ ys)) := by
  unfold lamBody list_append_all
  simp only []
  generalize hK : ys.length + 9 = K
  have ha : a < s.heap.size := cell_lt hca
  have hb : b < s.heap.size := cell_lt hcb
  have hl : ∃ xs, s.cell a = some (.list xs) := ⟨xs, hca⟩
  have hcge : s.frames.size ≤ s.frames.size := Nat.le_refl _
  have ctx0 : Ctx (ghostEnter s0 bp) M nats srcs s.frames.size m [("lst", .ref a), ("items", .ref b)] :=
    ctx.ext ((Ext.refl s0).ghostEnter _)
  have e0' : Ext s (ghostEnter s0 bp) := e0.ghostEnter _
  have hcb0 : (ghostEnter s0 bp).cell b = some (.list ys) := by rw [e0'.cell b hb]; exact hcb
  have hca0 : (ghostEnter s0 bp).cell a = some (.list xs) := by rw [e0'.cell a ha]; exact hca
  -- the iterated expression `sublist(list(items), 0)`
  let d := (ghostEnter s0 bp).heap.size
  let t1 := ((ghostEnter s0 bp).alloc (.list ys)).1
  have hdge : s.heap.size ≤ d := e0'.hsize
  have hda : d ≠ a := by omega
  have SE : ∀ p1 p2 p3 p4 p5 p6, Ev ld 7 s.frames.size
      (.call (.ident "sublist" p1) [none, none]
        [.call (.ident "list" p2) [none] [.ident "items" p3] p4, .lit (.int 0) p5] p6)
      (ghostEnter s0 bp) (.ok (.ref d) t1) := by
    intro p1 p2 p3 p4 p5 p6
    obtain ⟨j1, hl1⟩ := ctx0.nat (x := "list") (hn _ (by decide)) (by rfl)
    obtain ⟨j2, hl2⟩ := ctx0.nat (x := "sublist") (hn _ (by decide)) (by rfl)
    obtain ⟨mm, hm1, hm2⟩ := list_of_list b ys (div0Value (ghostEnter s0 bp) s.frames.size) p4 _ hcb0
    have A := Ev.nat1 ld (k := 0) (p := p2) (pos := p4) hl1 (by rfl) (by decide) (by trivial)
      (Ev.ident ld (p := p3) (ctx0.var (x := "items") (by rfl))) hm1 hm2
    rw [wrapCall_ok] at A
    have B := Ev.nat2 ld (k := 3) (p := p1) (pos := p6) hl2 (by rfl) (by decide) (by decide) (by trivial) (by trivial)
      A (Ev.litInt ld (p := p5) (n := 0)) rfl
      (sublist_from' b ys 0 (div0Value (ghostEnter s0 bp) s.frames.size) p6 _ hcb0 _ rfl)
    rw [wrapCall_ok, substr_zero_none] at B
    exact B
  have E1 : ExtBut a s t1 := ExtBut.ofExt (e0'.alloc _)
  have hvars1 : (t1.frame s.frames.size).vars = [("lst", .ref a), ("items", .ref b)] := by
    show ((((ghostEnter s0 bp).alloc (.list ys)).1).frame _).vars = _
    rw [frame_alloc]; exact ctx0.fr.vars
  have inv0 : AppInv s s.frames.size m a b d xs ys 0 t1 := by
    refine ⟨E1, ?_, ?_, ?_, ?_, Or.inl hvars1⟩
    · show (((ghostEnter s0 bp).alloc (.list ys)).1).cell a = _
      rw [cell_alloc_old _ _ (Nat.lt_of_lt_of_le ha hdge), hca0]; simp
    · show (((ghostEnter s0 bp).alloc (.list ys)).1).cell d = _
      exact cell_alloc_new _ _
    · show ((((ghostEnter s0 bp).alloc (.list ys)).1).frame _).parent = _
      rw [frame_alloc]; exact ctx0.fr.parent
    · exact ctx0.clt
  -- one iteration
  have hstep : ∀ p1 p2 p3 p4, ∀ i (r : RVal) st v, AppInv s s.frames.size m a b d xs ys i st → ys[i]? = some v →
      ∃ r' s', Ev ld 4 s.frames.size (.call (.ident "append" p1) [none, none]
          [.ident "lst" p2, .ident "item" p3] p4) (st.put s.frames.size "item" v) (.ok r' s') ∧
        isCtl r' = false ∧ AppInv s s.frames.size m a b d xs ys (i + 1) s' := by
    intro p1 p2 p3 p4 i r st v inv hv
    have hvars : ((st.put s.frames.size "item" v).frame s.frames.size).vars =
        [("lst", .ref a), ("items", .ref b), ("item", v)] := by
      rw [vars_put_same _ _ _ inv.clt]
      rcases inv.vars with h | ⟨w, h⟩ <;> rw [h] <;> simp [dictPut]
    have hpar : ((st.put s.frames.size "item" v).frame s.frames.size).parent = some m := by
      rw [parent_put]; exact inv.parent
    have eu : ExtBut a s (st.put s.frames.size "item" v) := inv.ext.put hcge _ _
    have cu : Ctx (st.put s.frames.size "item" v) M nats srcs s.frames.size m
        [("lst", .ref a), ("items", .ref b), ("item", v)] :=
      Ctx.ofExtBut h hm eu hl hvars hpar (by rw [frames_size_put]; exact inv.clt)
    obtain ⟨j, hlk⟩ := cu.nat (x := "append") (hn _ (by decide)) (by rfl)
    have hcu : (st.put s.frames.size "item" v).cell a = some (.list (xs ++ ys.take i)) := by
      rw [cell_put]; exact inv.cella
    obtain ⟨mm, hm1, hm2⟩ := append_list a _ v (div0Value (st.put s.frames.size "item" v) s.frames.size) p4 _ hcu
    have A := Ev.nat2 ld (k := 0) (p := p1) (pos := p4) hlk (by rfl) (by decide) (by decide) (by trivial) (by trivial)
      (Ev.ident ld (p := p2) (cu.var (x := "lst") (by rfl)))
      (Ev.ident ld (p := p3) (cu.var (x := "item") (by rfl))) hm1 hm2
    rw [wrapCall_ok] at A
    have halt : a < (st.put s.frames.size "item" v).heap.size := cell_lt hcu
    refine ⟨_, _, A, rfl, ⟨eu.setCell_same _, ?_, ?_, ?_, ?_, Or.inr ⟨v, ?_⟩⟩⟩
    · rw [cell_setCell_same _ _ halt, List.take_add_one, hv]; simp
    · rw [cell_setCell_other _ _ (Ne.symm hda), cell_put]; exact inv.celld
    · rw [frame_setCell]; exact hpar
    · show _ < (st.put s.frames.size "item" v).frames.size
      rw [frames_size_put]; exact inv.clt
    · rw [frame_setCell]; exact hvars
  -- statement 1: the loop
  have S1 : ∀ p1 p2 p3 p4 p5 p6 q1 q2 q3 q4 what p7, ∃ r t3, Ev ld K s.frames.size
      (.for ["item"] (.call (.ident "sublist" p1) [none, none]
          [.call (.ident "list" p2) [none] [.ident "items" p3] p4, .lit (.int 0) p5] p6)
        (.call (.ident "append" q1) [none, none] [.ident "lst" q2, .ident "item" q3] q4) what p7)
        (ghostEnter s0 bp) (.ok r t3) ∧ isCtl r = false ∧
        ExtBut a s t3 ∧ t3.cell a = some (.list (xs ++ ys)) ∧
        ∃ vars, CallFrame t3 s.frames.size m vars ∧ dictGet "lst" vars = some (.ref a) := by
    intro p1 p2 p3 p4 p5 p6 q1 q2 q3 q4 what p7
    obtain ⟨r, st, ⟨hctl, inv⟩, hloop⟩ := forListLive_inv ld (kb := 4) (env := s.frames.size) (x := "item") (a := d)
      (pos := p7) ys (fun i r st => isCtl r = false ∧ AppInv s s.frames.size m a b d xs ys i st)
      (fun i r st hI => hI.2.celld)
      (fun i r st v hI hv => by
        obtain ⟨r', s', h1, h2, h3⟩ := hstep q1 q2 q3 q4 i r st v hI.2 hv
        exact ⟨r', s', h1, h2, h2, h3⟩)
      ys.length 0 (.bool true) t1 (by omega) ⟨rfl, inv0⟩
    have hF := Ev.forList ld (k := 7) (kl := 4 + ys.length + 1) (what := what) (x := "item") (pos := p7)
      (by rw [ctx0.fr.vars]; rfl) (SE p1 p2 p3 p4 p5 p6) inv0.celld hloop inv.celld
    refine ⟨r, _, Ev.mono ld hF (show max 7 (4 + ys.length + 1) + 2 ≤ K by omega), hctl, ?_⟩
    have hcx : st.cell a = some (.list (xs ++ ys)) := by
      have := inv.cella; rwa [List.take_length] at this
    cases hys : ys.isEmpty with
    | true =>
      simp only [if_true]
      refine ⟨inv.ext, hcx, (st.frame s.frames.size).vars, callFrame_self inv.parent (h.lt m hm), ?_⟩
      rcases inv.vars with h | ⟨w, h⟩ <;> rw [h] <;> rfl
    | false =>
      simp only [Bool.false_eq_true, if_false]
      refine ⟨inv.ext.remove hcge _, by rw [cell_remove]; exact hcx,
        ((st.remove s.frames.size "item").frame s.frames.size).vars,
        callFrame_self (by rw [frame_remove_same _ _ inv.clt]; exact inv.parent) (h.lt m hm), ?_⟩
      rw [frame_remove_same _ _ inv.clt]
      rcases inv.vars with h | ⟨w, h⟩ <;> rw [h] <;> rfl
  -- the block
  obtain ⟨r3, t3, hS1, hctl3, E3, hcx3, vars3, hfr3, hres3⟩ := S1 _ _ _ _ _ _ _ _ _ _ _ _
  have S2 : ∀ p, Ev ld K s.frames.size (.ident "lst" p) t3 (.ok (.ref a) t3) :=
    fun p => Ev.ident ld (lookup_local hfr3 hres3)
  refine ⟨ghostFin t3 bp, E3.ghostFin _, ?_, hcx3⟩
  exact Ev.mono ld (k := K + 1 + 1 + 1) (Ev.block ld (b := false) (pos := bp)
    (EvBody.cons ld (Ev.mono ld hS1 (show K ≤ K + 1 by omega)) hctl3
      (EvBody.cons ld (S2 _) rfl (EvBody.nil ld)))) (by omega)

/-- `fn.execute(lst = a list cell, items = a list cell)` of the function made from the source of `append_all`: the value is the
    first argument; its cell `a` holds `xs ++ ys` afterwards; everything else that existed is unchanged (`b = a` is allowed) -/
theorem append_all_calls_lists {s : State} {M nats srcs fn m} (h : LibEnv s M nats srcs) (hn : ∀ x ∈ appendNats, x ∈ nats)
    (hm : M m) (hsrc : IsSrc s fn list_append_all m) (a b : Nat) (xs ys : List RVal)
    (hca : s.cell a = some (.list xs)) (hcb : s.cell b = some (.list ys)) :
    ∃ s', ExtBut a s s' ∧ s'.cell a = some (.list (xs ++ ys)) ∧
      ∀ env pos, Calls ld (ys.length + 13) fn [("lst", .ref a), ("items", .ref b)] env pos s (.ok (.ref a) s') :=
  calls_of_body2B ld (src := list_append_all) (r := fun s' => .ok (.ref a) s') rfl rfl rfl
    (by omega) (by decide) h hm hsrc (.ref a) (.ref b) (fun _ ctx e0 => append_all_body ld h hm ctx e0 hn hca hcb)

/-- the same, with the cell content stated by the mirror `Lib.appendAllM` of Proofs/C19.lean -/
theorem append_all_calls_lists_mirror {s : State} {M nats srcs fn m} (h : LibEnv s M nats srcs)
    (hn : ∀ x ∈ appendNats, x ∈ nats)
    (hm : M m) (hsrc : IsSrc s fn list_append_all m) (a b : Nat) (xs ys : List RVal)
    (hca : s.cell a = some (.list xs)) (hcb : s.cell b = some (.list ys)) :
    ∃ s', ExtBut a s s' ∧ s'.cell a = some (.list (Lib.appendAllM xs ys)) ∧
      ∀ env pos, Calls ld (ys.length + 13) fn [("lst", .ref a), ("items", .ref b)] env pos s (.ok (.ref a) s') := by
  rw [appendAllM_eq]
  exact append_all_calls_lists ld h hn hm hsrc a b xs ys hca hcb

end Ckl.C19Src
