import CklVerif.Lemmas.C20EvalCall

/-! C20 (evaluator part) — induction step for `eval`, and the induction on the fuel. -/
namespace Ckl
attribute [local irreducible] ValsOK DictOK PairsOK
set_option linter.unusedSectionVars false
set_option linter.unusedVariables false

variable {P : Pos → Prop} {ld : Loader} {fuel : Nat}

theorem fin_POK {β : Type} [VC β] (o : Out Unit) (ho : OutOK (EP P) P o) (k : State → Out β)
    (hk : ∀ s, StOK P s → OutOK (EP P) P (k s)) :
    OutOK (EP P) P (match (generalizing := false) o with
      | .ok _ s'' => k s''
      | .err v2 m2 p2 t2 s'' => .err v2 m2 p2 t2 s''
      | .fail f s'' => .fail f s'' : Out β) := by
  cases o with
  | ok a s => exact hk s ho.2
  | err => exact ho
  | fail f s => exact ho

theorem block_fin_POK (o : Out RVal) (ho : OutOK (EP P) P o) (fin : State → Out Unit)
    (hf : ∀ s, StOK P s → OutOK (EP P) P (fin s)) (g : State → State) (hg : ∀ s, (g s).heap = s.heap ∧ (g s).frames = s.frames) :
    OutOK (EP P) P (match (generalizing := false) o with
    | .ok v s' =>
      match fin (g s') with
      | .ok _ s'' => .ok v s''
      | .err v2 m2 p2 t2 s'' => .err v2 m2 p2 t2 s''
      | .fail f s'' => .fail f s''
    | .err v m p t s' =>
      match fin (g s') with
      | .ok _ s'' => .err v m p t s''
      | .err v2 m2 p2 t2 s'' => .err v2 m2 p2 t2 s''
      | .fail f s'' => .fail f s''
    | .fail (.syn e) s' =>
      match fin (g s') with
      | .ok _ s'' => .fail (.syn e) s''
      | .err v2 m2 p2 t2 s'' => .err v2 m2 p2 t2 s''
      | .fail f s'' => .fail f s''
    | .fail (.host k) s' =>
      match fin (g s') with
      | .ok _ s'' => .fail (.host k) s''
      | .err v2 m2 p2 t2 s'' => .err v2 m2 p2 t2 s''
      | .fail f s'' => .fail f s''
    | .fail f s' => .fail f s' : Out RVal) := by
  cases o with
  | ok v s' =>
    exact fin_POK (fin (g s')) (hf _ (StOK.of_eq (hg _).1 (hg _).2 ho.2)) (fun s'' => .ok v s'') (fun _ h => ⟨ho.1, h⟩)
  | err v m p t s' =>
    exact fin_POK (fin (g s')) (hf _ (StOK.of_eq (hg _).1 (hg _).2 ho.2)) (fun s'' => .err v m p t s'')
      (fun _ h => ⟨ho.1, h⟩)
  | fail f s' =>
    cases f with
    | host k =>
      exact fin_POK (fin (g s')) (hf _ (StOK.of_eq (hg _).1 (hg _).2 ho)) (fun s'' => .fail (.host k) s'') (fun _ h => h)
    | syn e =>
      exact fin_POK (fin (g s')) (hf _ (StOK.of_eq (hg _).1 (hg _).2 ho)) (fun s'' => .fail (.syn e) s'') (fun _ h => h)
    | oof => exact ho
    | unsupported w => exact ho

theorem block_step (ih : PAll P ld fuel) : ∀ env es ce ch fin tl pos, NodeOK P (.block es ce ch fin tl pos) →
    POK P (eval ld (fuel+1) env (.block es ce ch fin tl pos)) := by
  intro env es ce ch fin tl pos hn
  simp only [NodeOK] at hn
  obtain ⟨hp, hes, hce, hch, hfin⟩ := hn
  unfold Ckl.eval
  refine PosOK.ofFun (fun s0 hs0 => ?_)
  dsimp only
  have hb := (ih.evalBody env es (.bool true) hes trivial).run (ghostEnter s0 pos) (StOK.of_eq' hs0 rfl rfl)
  have hf := fun s hs => (ih.evalFinally env fin hfin).run s hs
  refine block_fin_POK _ ?_ (evalFinally ld fuel env fin) hf (fun s => ghostFin s pos) (fun _ => ⟨rfl, rfl⟩)
  cases hr : evalBody ld fuel env es (.bool true) (ghostEnter s0 pos) with
  | err v msg p t s' =>
    rw [hr] at hb
    exact (ih.tryHandlers env ce ch v msg p t hce hch hb.1).run s' hb.2
  | ok a s => rw [hr] at hb; exact hb
  | fail f s => rw [hr] at hb; exact hb

theorem for_step (ih : PAll P ld fuel) :
    ∀ env ids e body what pos, NodeOK P (.for ids e body what pos) →
      POK P (eval ld (fuel+1) env (.for ids e body what pos)) := by
  intro env ids e body what pos hn
  simp only [NodeOK] at hn
  obtain ⟨hp, he, hb⟩ := hn
  unfold Ckl.eval
  refine PosOK.ofFun (fun s0 hs0 => ?_)
  have hb := (ih.evalFor env ids e body what pos he hb hp).run s0 hs0
  have hh := hs0.hiddenVars env ids
  dsimp only
  cases hr : evalFor ld fuel env ids e body what pos s0 with
  | ok a s => rw [hr] at hb; exact ⟨hb.1, hb.2.restoreVars env hh⟩
  | err v m p t s' =>
    rw [hr] at hb
    exact ⟨hb.1, (StOK.foldl hb.2 _ _ (fun s x _ hs => hs.remove env x)).restoreVars env hh⟩
  | fail f s =>
    rw [hr] at hb
    cases f with
    | syn se => exact (StOK.foldl hb _ _ (fun s x _ hs => hs.remove env x)).restoreVars env hh
    | oof => exact hb
    | unsupported w => exact hb
    | host k => exact hb

theorem lambda_step : ∀ env a b c d, NodeOK P (.lambda a b c d) → POK P (eval ld (fuel+1) env (.lambda a b c d)) := by
  intro env a b c d hn
  simp only [NodeOK] at hn
  unfold Ckl.eval
  exact PosOK.ofFun (fun s0 hs0 => ⟨trivial, StOK.alloc hs0 ⟨hn.2.2, hn.2.1⟩⟩)

/-- one constructor of `eval` -/
macro "eval_case " ih:ident ctx:ident hn:ident : tactic => `(tactic|
  (ih_intro $ih $ctx; simp only [NodeOK] at $hn:ident; split_ands; unfold Ckl.eval; posok!))

theorem eval_absent_step (ctx : Ctx P ld) (ih : PAll P ld fuel) (env : EnvId) :
    ∀ (hn : NodeOK P .absent), POK P (eval ld (fuel+1) env .absent) := by
  intro hn
  eval_case ih ctx hn

theorem eval_catchAll_step (ctx : Ctx P ld) (ih : PAll P ld fuel) (env : EnvId) :
    ∀ (hn : NodeOK P .catchAll), POK P (eval ld (fuel+1) env .catchAll) := by
  intro hn
  eval_case ih ctx hn

theorem eval_null_step (ctx : Ctx P ld) (ih : PAll P ld fuel) (env : EnvId) :
    ∀ p (hn : NodeOK P (.null p)), POK P (eval ld (fuel+1) env (.null p)) := by
  intro p hn
  eval_case ih ctx hn

theorem eval_lit_step (ctx : Ctx P ld) (ih : PAll P ld fuel) (env : EnvId) :
    ∀ v p (hn : NodeOK P (.lit v p)), POK P (eval ld (fuel+1) env (.lit v p)) := by
  intro v p hn
  eval_case ih ctx hn

theorem eval_ident_step (ctx : Ctx P ld) (ih : PAll P ld fuel) (env : EnvId) :
    ∀ x p (hn : NodeOK P (.ident x p)), POK P (eval ld (fuel+1) env (.ident x p)) := by
  intro x p hn
  eval_case ih ctx hn

theorem eval_and_step (ctx : Ctx P ld) (ih : PAll P ld fuel) (env : EnvId) :
    ∀ es p (hn : NodeOK P (.and es p)), POK P (eval ld (fuel+1) env (.and es p)) := by
  intro es p hn
  eval_case ih ctx hn

theorem eval_or_step (ctx : Ctx P ld) (ih : PAll P ld fuel) (env : EnvId) :
    ∀ es p (hn : NodeOK P (.or es p)), POK P (eval ld (fuel+1) env (.or es p)) := by
  intro es p hn
  eval_case ih ctx hn

theorem eval_not_step (ctx : Ctx P ld) (ih : PAll P ld fuel) (env : EnvId) :
    ∀ e p (hn : NodeOK P (.not e p)), POK P (eval ld (fuel+1) env (.not e p)) := by
  intro e p hn
  eval_case ih ctx hn

theorem eval_assign_step (ctx : Ctx P ld) (ih : PAll P ld fuel) (env : EnvId) :
    ∀ x e p (hn : NodeOK P (.assign x e p)), POK P (eval ld (fuel+1) env (.assign x e p)) := by
  intro x e p hn
  eval_case ih ctx hn

theorem eval_assignD_step (ctx : Ctx P ld) (ih : PAll P ld fuel) (env : EnvId) :
    ∀ xs e p (hn : NodeOK P (.assignD xs e p)), POK P (eval ld (fuel+1) env (.assignD xs e p)) := by
  intro xs e p hn
  eval_case ih ctx hn

theorem eval_brk_step (ctx : Ctx P ld) (ih : PAll P ld fuel) (env : EnvId) :
    ∀ p (hn : NodeOK P (.brk p)), POK P (eval ld (fuel+1) env (.brk p)) := by
  intro p hn
  eval_case ih ctx hn

theorem eval_cont_step (ctx : Ctx P ld) (ih : PAll P ld fuel) (env : EnvId) :
    ∀ p (hn : NodeOK P (.cont p)), POK P (eval ld (fuel+1) env (.cont p)) := by
  intro p hn
  eval_case ih ctx hn

theorem eval_cls_step (ctx : Ctx P ld) (ih : PAll P ld fuel) (env : EnvId) :
    ∀ x ms p (hn : NodeOK P (.cls x ms p)), POK P (eval ld (fuel+1) env (.cls x ms p)) := by
  intro x ms p hn
  eval_case ih ctx hn

theorem eval_defn_step (ctx : Ctx P ld) (ih : PAll P ld fuel) (env : EnvId) :
    ∀ x e i p (hn : NodeOK P (.defn x e i p)), POK P (eval ld (fuel+1) env (.defn x e i p)) := by
  intro x e i p hn
  eval_case ih ctx hn

theorem eval_defD_step (ctx : Ctx P ld) (ih : PAll P ld fuel) (env : EnvId) :
    ∀ xs e i p (hn : NodeOK P (.defD xs e i p)), POK P (eval ld (fuel+1) env (.defD xs e i p)) := by
  intro xs e i p hn
  eval_case ih ctx hn

theorem eval_deref_step (ctx : Ctx P ld) (ih : PAll P ld fuel) (env : EnvId) :
    ∀ e i d p (hn : NodeOK P (.deref e i d p)), POK P (eval ld (fuel+1) env (.deref e i d p)) := by
  intro e i d p hn
  eval_case ih ctx hn

theorem eval_derefAssign_step (ctx : Ctx P ld) (ih : PAll P ld fuel) (env : EnvId) :
    ∀ e i v p (hn : NodeOK P (.derefAssign e i v p)), POK P (eval ld (fuel+1) env (.derefAssign e i v p)) := by
  intro e i v p hn
  eval_case ih ctx hn

theorem eval_derefInvoke_step (ctx : Ctx P ld) (ih : PAll P ld fuel) (env : EnvId) :
    ∀ o m ns args p (hn : NodeOK P (.derefInvoke o m ns args p)), POK P (eval ld (fuel+1) env (.derefInvoke o m ns args p)) := by
  intro o m ns args p hn
  eval_case ih ctx hn

theorem eval_slice_step (ctx : Ctx P ld) (ih : PAll P ld fuel) (env : EnvId) :
    ∀ e a b p (hn : NodeOK P (.slice e a b p)), POK P (eval ld (fuel+1) env (.slice e a b p)) := by
  intro e a b p hn
  eval_case ih ctx hn

theorem eval_error_step (ctx : Ctx P ld) (ih : PAll P ld fuel) (env : EnvId) :
    ∀ e p (hn : NodeOK P (.error e p)), POK P (eval ld (fuel+1) env (.error e p)) := by
  intro e p hn
  eval_case ih ctx hn

theorem eval_call_step (ctx : Ctx P ld) (ih : PAll P ld fuel) (env : EnvId) :
    ∀ f ns args p (hn : NodeOK P (.call f ns args p)), POK P (eval ld (fuel+1) env (.call f ns args p)) := by
  intro f ns args p hn
  eval_case ih ctx hn

theorem eval_ite_step (ctx : Ctx P ld) (ih : PAll P ld fuel) (env : EnvId) :
    ∀ cs xs els p (hn : NodeOK P (.ite cs xs els p)), POK P (eval ld (fuel+1) env (.ite cs xs els p)) := by
  intro cs xs els p hn
  eval_case ih ctx hn

theorem eval_isIn_step (ctx : Ctx P ld) (ih : PAll P ld fuel) (env : EnvId) :
    ∀ e c p (hn : NodeOK P (.isIn e c p)), POK P (eval ld (fuel+1) env (.isIn e c p)) := by
  intro e c p hn
  eval_case ih ctx hn

theorem eval_list_step (ctx : Ctx P ld) (ih : PAll P ld fuel) (env : EnvId) :
    ∀ items p (hn : NodeOK P (.list items p)), POK P (eval ld (fuel+1) env (.list items p)) := by
  intro items p hn
  eval_case ih ctx hn

theorem eval_compr_step (ctx : Ctx P ld) (ih : PAll P ld fuel) (env : EnvId) :
    ∀ k sh ve ke i1 l1 w1 i2 l2 w2 c p (hn : NodeOK P (.compr k sh ve ke i1 l1 w1 i2 l2 w2 c p)), POK P (eval ld (fuel+1) env (.compr k sh ve ke i1 l1 w1 i2 l2 w2 c p)) := by
  intro k sh ve ke i1 l1 w1 i2 l2 w2 c p hn
  eval_case ih ctx hn

theorem eval_map_step (ctx : Ctx P ld) (ih : PAll P ld fuel) (env : EnvId) :
    ∀ ks vs p (hn : NodeOK P (.map ks vs p)), POK P (eval ld (fuel+1) env (.map ks vs p)) := by
  intro ks vs p hn
  eval_case ih ctx hn

theorem eval_object_step (ctx : Ctx P ld) (ih : PAll P ld fuel) (env : EnvId) :
    ∀ ks vs p (hn : NodeOK P (.object ks vs p)), POK P (eval ld (fuel+1) env (.object ks vs p)) := by
  intro ks vs p hn
  eval_case ih ctx hn

theorem eval_require_step (ctx : Ctx P ld) (ih : PAll P ld fuel) (env : EnvId) :
    ∀ sp nm u sy p (hn : NodeOK P (.require sp nm u sy p)), POK P (eval ld (fuel+1) env (.require sp nm u sy p)) := by
  intro sp nm u sy p hn
  eval_case ih ctx hn

theorem eval_ret_step (ctx : Ctx P ld) (ih : PAll P ld fuel) (env : EnvId) :
    ∀ e p (hn : NodeOK P (.ret e p)), POK P (eval ld (fuel+1) env (.ret e p)) := by
  intro e p hn
  eval_case ih ctx hn

theorem eval_set_step (ctx : Ctx P ld) (ih : PAll P ld fuel) (env : EnvId) :
    ∀ items p (hn : NodeOK P (.set items p)), POK P (eval ld (fuel+1) env (.set items p)) := by
  intro items p hn
  eval_case ih ctx hn

theorem eval_spread_step (ctx : Ctx P ld) (ih : PAll P ld fuel) (env : EnvId) :
    ∀ e p (hn : NodeOK P (.spread e p)), POK P (eval ld (fuel+1) env (.spread e p)) := by
  intro e p hn
  eval_case ih ctx hn

theorem eval_while_step (ctx : Ctx P ld) (ih : PAll P ld fuel) (env : EnvId) :
    ∀ c b p (hn : NodeOK P (.while c b p)), POK P (eval ld (fuel+1) env (.while c b p)) := by
  intro c b p hn
  eval_case ih ctx hn

theorem eval_step (ctx : Ctx P ld) (ih : PAll P ld fuel) : ∀ env n, NodeOK P n → POK P (eval ld (fuel+1) env n) := by
  intro env n hn
  cases n
  case block es ce ch fin tl pos => exact block_step ih env es ce ch fin tl pos hn
  case «for» ids e body what pos => exact for_step ih env ids e body what pos hn
  case lambda a b c d => exact lambda_step env a b c d hn
  case absent => exact eval_absent_step ctx ih env  hn
  case catchAll => exact eval_catchAll_step ctx ih env  hn
  case null => exact eval_null_step ctx ih env _ hn
  case lit => exact eval_lit_step ctx ih env _ _ hn
  case ident => exact eval_ident_step ctx ih env _ _ hn
  case «and» => exact eval_and_step ctx ih env _ _ hn
  case «or» => exact eval_or_step ctx ih env _ _ hn
  case «not» => exact eval_not_step ctx ih env _ _ hn
  case assign => exact eval_assign_step ctx ih env _ _ _ hn
  case assignD => exact eval_assignD_step ctx ih env _ _ _ hn
  case brk => exact eval_brk_step ctx ih env _ hn
  case cont => exact eval_cont_step ctx ih env _ hn
  case cls => exact eval_cls_step ctx ih env _ _ _ hn
  case defn => exact eval_defn_step ctx ih env _ _ _ _ hn
  case defD => exact eval_defD_step ctx ih env _ _ _ _ hn
  case deref => exact eval_deref_step ctx ih env _ _ _ _ hn
  case derefAssign => exact eval_derefAssign_step ctx ih env _ _ _ _ hn
  case derefInvoke => exact eval_derefInvoke_step ctx ih env _ _ _ _ _ hn
  case slice => exact eval_slice_step ctx ih env _ _ _ _ hn
  case error => exact eval_error_step ctx ih env _ _ hn
  case call => exact eval_call_step ctx ih env _ _ _ _ hn
  case ite => exact eval_ite_step ctx ih env _ _ _ _ hn
  case isIn => exact eval_isIn_step ctx ih env _ _ _ hn
  case list => exact eval_list_step ctx ih env _ _ hn
  case compr => exact eval_compr_step ctx ih env _ _ _ _ _ _ _ _ _ _ _ _ hn
  case map => exact eval_map_step ctx ih env _ _ _ hn
  case object => exact eval_object_step ctx ih env _ _ _ hn
  case require => exact eval_require_step ctx ih env _ _ _ _ _ hn
  case ret => exact eval_ret_step ctx ih env _ _ hn
  case set => exact eval_set_step ctx ih env _ _ hn
  case spread => exact eval_spread_step ctx ih env _ _ hn
  case «while» => exact eval_while_step ctx ih env _ _ _ hn

end Ckl
