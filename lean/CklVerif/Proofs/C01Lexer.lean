/-
  C01 (scanner part) — the scanner is a total function; its only failure is a
  syntax error with a message and a position; number tokens are well formed, so the
  parser's `int(value)` / `float(value)` cannot raise `ValueError` on them (apart from
  CPython's 4300-digit limit for `int`).
-/
import CklVerif.Lemmas.LexerSpell
namespace Ckl.C01
open Ckl.Lexer

/-- **scan_total**: `scan` is a (total, computable) function, so every input has exactly one
    outcome, and that outcome is either a token list or a syntax error that carries a non-empty
    message, a line number ≥ 1 and the file name. -/
theorem scan_total (s : List Char) (name : String) :
    (∃ toks, scan s name = .ok toks) ∨
    (∃ e, scan s name = .error e ∧ e.msg ≠ "" ∧ 1 ≤ e.pos.line ∧ e.pos.file = name) := by
  unfold scan scanWithOffsets
  cases hr : run name {} (s ++ [' ']) with
  | ok σ => exact Or.inl ⟨_, rfl⟩
  | error e =>
    refine Or.inr ⟨e, rfl, ?_⟩
    obtain ⟨σ0, hpos, ch, hd⟩ :=
      (run_preserved (posInv_preserved name) (s ++ [' ']) (σ := {}) ⟨Nat.le_refl 1, Nat.le_refl 1⟩).2 e hr
    exact dispatch_error hpos hd

/-- determinism: the outcome is a function of the input -/
theorem scan_deterministic (s : List Char) (name : String) (r₁ r₂ : Except SynErr (List Token))
    (h₁ : scan s name = r₁) (h₂ : scan s name = r₂) : r₁ = r₂ := h₁ ▸ h₂

/-- **scan_int_tokens**: in a successful scan every `int` token has a non-empty value made of
    ASCII digits only, and every `decimal` token has the form digits⁺ `.` digits*. -/
theorem scan_int_tokens (s : List Char) (name : String) (toks : List Token)
    (h : scan s name = .ok toks) :
    ∀ t ∈ toks,
      (t.type = .int → t.value ≠ [] ∧ ∀ c ∈ t.value, c.isDigit = true) ∧
      (t.type = .decimal → ∃ a b, t.value = a ++ '.' :: b ∧ a ≠ [] ∧
        (∀ c ∈ a, c.isDigit = true) ∧ (∀ c ∈ b, c.isDigit = true)) := by
  unfold scan scanWithOffsets at h
  cases hr : run name {} (s ++ [' ']) with
  | error e => rw [hr] at h; cases h
  | ok σ =>
    rw [hr] at h
    cases h
    have hinv := (run_preserved (numInv_preserved name) (s ++ [' ']) numInv_init).1 σ hr
    intro t ht
    obtain ⟨p, hp, rfl⟩ := List.mem_map.mp ht
    exact hinv.2 p (List.mem_reverse.mp hp)

/-- non-vacuity: an input with an `int`, a `decimal`, a hex and a binary literal scans
    successfully to those tokens; and a failing input -/
example :
    (match scan ['1','_','0',' ','2','.','5','_',' ','0','x','f','F',' ','0','b','1','0','1'] "f" with
      | .ok l => some (l.map fun t => (t.value, t.type)) | .error _ => none)
      = some [(['1','0'], .int), (['2','.','5'], .decimal), (['2','5','5'], .int), (['5'], .int)] := by
  decide

example :
    (match scan ['\n', '0', 'x', ';'] "f" with
      | .ok _ => none | .error e => some (e.pos.line, e.pos.file)) = some (2, "f") := by
  decide

/-! ### spelling of number literals

`ofDigits b ds` is the number denoted by the digit string `ds` in base `b` (Python's
`int(ds, b)`), `Nat.toDigits 10 n` the decimal numeral of `n` (Python's `str(n)`; it is also what
Lean's `toString n` prints).  The theorems are stated for an arbitrary configuration `σ` at a token
boundary (state 0, empty buffer), so they apply to a literal anywhere in a program, and in
particular (`scan_*`) to an input consisting of the literal alone. -/

/-- **hex_literal**: `0x` followed by a non-empty string of hex digits (no underscores) and a
    whitespace character emits one `int` token whose value is the decimal numeral of the number,
    with the line and start offset of the `0`, and returns to the same automaton configuration;
    provided the decimal numeral has at most 4300 digits (CPython's int→str limit). -/
theorem hex_literal (name : String) (σ : LexSt) (h0 : σ.core.state = .s0) (htok : σ.core.token = [])
    (ds : List Char) (hne : ds ≠ []) (hd : ∀ c ∈ ds, c ∈ hexDigits)
    (hlim : (Nat.toDigits 10 (ofDigits 16 ds)).length ≤ 4300)
    (t : Char) (ht : t ∈ [' ', '\t', '\r', '\n']) :
    ∃ σ' col, run name σ ('0' :: 'x' :: (ds ++ [t])) = .ok σ' ∧ σ'.core = σ.core ∧
      σ'.out = (⟨Nat.toDigits 10 (ofDigits 16 ds), .int, ⟨name, σ.line, col⟩⟩, σ.pos) :: σ.out :=
  run_radix_literal radix16 'x' (by decide)
    (fun k col hs => by unfold step; simp only [hs, step70, if_true]) h0 htok hne hd hlim ht

/-- **bin_literal**: the same for `0b` and binary digits. -/
theorem bin_literal (name : String) (σ : LexSt) (h0 : σ.core.state = .s0) (htok : σ.core.token = [])
    (ds : List Char) (hne : ds ≠ []) (hd : ∀ c ∈ ds, c ∈ ['0', '1'])
    (hlim : (Nat.toDigits 10 (ofDigits 2 ds)).length ≤ 4300)
    (t : Char) (ht : t ∈ [' ', '\t', '\r', '\n']) :
    ∃ σ' col, run name σ ('0' :: 'b' :: (ds ++ [t])) = .ok σ' ∧ σ'.core = σ.core ∧
      σ'.out = (⟨Nat.toDigits 10 (ofDigits 2 ds), .int, ⟨name, σ.line, col⟩⟩, σ.pos) :: σ.out :=
  run_radix_literal radix2 'b' (by decide)
    (fun k col hs => by unfold step; simp only [hs, step70]; rfl) h0 htok hne hd hlim ht

/-- **int_underscores**: a decimal digit followed by digits and `_` separators and a whitespace
    character emits one `int` token whose value is the literal without the underscores. -/
theorem int_underscores (name : String) (σ : LexSt) (h0 : σ.core.state = .s0)
    (htok : σ.core.token = []) (d : Char) (hd : d ∈ digits) (rest : List Char)
    (hrest : ∀ c ∈ rest, c ∈ digits ∨ c = '_') (t : Char) (ht : t ∈ [' ', '\t', '\r', '\n']) :
    ∃ σ' col, run name σ (d :: (rest ++ [t])) = .ok σ' ∧ σ'.core = σ.core ∧
      σ'.out = (⟨(d :: rest).filter (· ≠ '_'), .int, ⟨name, σ.line, col⟩⟩, σ.pos) :: σ.out :=
  run_int_literal h0 htok hd hrest ht

/-- the literal alone -/
theorem scan_hex_literal (name : String) (ds : List Char) (hne : ds ≠ [])
    (hd : ∀ c ∈ ds, c ∈ hexDigits) (hlim : (Nat.toDigits 10 (ofDigits 16 ds)).length ≤ 4300) :
    ∃ col, scan ('0' :: 'x' :: ds) name =
      .ok [⟨Nat.toDigits 10 (ofDigits 16 ds), .int, ⟨name, 1, col⟩⟩] := by
  obtain ⟨σ', col, hr, _, ho⟩ := hex_literal name {} rfl rfl ds hne hd hlim ' ' (by simp)
  refine ⟨col, ?_⟩
  unfold scan scanWithOffsets
  rw [show '0' :: 'x' :: ds ++ [' '] = '0' :: 'x' :: (ds ++ [' ']) from rfl, hr]
  simp [ho]

theorem scan_bin_literal (name : String) (ds : List Char) (hne : ds ≠ [])
    (hd : ∀ c ∈ ds, c ∈ ['0', '1']) (hlim : (Nat.toDigits 10 (ofDigits 2 ds)).length ≤ 4300) :
    ∃ col, scan ('0' :: 'b' :: ds) name =
      .ok [⟨Nat.toDigits 10 (ofDigits 2 ds), .int, ⟨name, 1, col⟩⟩] := by
  obtain ⟨σ', col, hr, _, ho⟩ := bin_literal name {} rfl rfl ds hne hd hlim ' ' (by simp)
  refine ⟨col, ?_⟩
  unfold scan scanWithOffsets
  rw [show '0' :: 'b' :: ds ++ [' '] = '0' :: 'b' :: (ds ++ [' ']) from rfl, hr]
  simp [ho]

theorem scan_int_underscores (name : String) (d : Char) (hd : d ∈ digits) (rest : List Char)
    (hrest : ∀ c ∈ rest, c ∈ digits ∨ c = '_') :
    ∃ col, scan (d :: rest) name = .ok [⟨(d :: rest).filter (· ≠ '_'), .int, ⟨name, 1, col⟩⟩] := by
  obtain ⟨σ', col, hr, _, ho⟩ := int_underscores name {} rfl rfl d hd rest hrest ' ' (by simp)
  refine ⟨col, ?_⟩
  unfold scan scanWithOffsets
  rw [show d :: rest ++ [' '] = d :: (rest ++ [' ']) from rfl, hr]
  simp [ho]

/-- non-vacuity of the spelling theorems -/
example : (['f', 'F'] ≠ [] ∧ (∀ c ∈ ['f', 'F'], c ∈ hexDigits) ∧
    (Nat.toDigits 10 (ofDigits 16 ['f', 'F'])).length ≤ 4300) ∧
    Nat.toDigits 10 (ofDigits 16 ['f', 'F']) = ['2', '5', '5'] := by decide

example : (∀ c ∈ ['1', '0', '1'], c ∈ ['0', '1']) ∧
    Nat.toDigits 10 (ofDigits 2 ['1', '0', '1']) = ['5'] := by decide

example : '1' ∈ digits ∧ (∀ c ∈ ['_', '0', '_'], c ∈ digits ∨ c = '_') ∧
    ('1' :: ['_', '0', '_']).filter (· ≠ '_') = ['1', '0'] := by decide

end Ckl.C01
