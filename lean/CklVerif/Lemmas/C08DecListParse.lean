/-
  C08 (decimals inside lists), parser part: `LitToks` / `RestToks` of `Lemmas/C08ParseList.lean`
  extended by decimal tokens (with an optional folded unary minus), and the three theorems
  `LitToksD.expr`, `RestToksD.loop`, `LitToksD.parse` re-proved for the extended predicates.
-/
import CklVerif.Lemmas.C08ParseList
namespace Ckl.C08DL
open Ckl Ckl.Parser Ckl.C08

mutual
  /-- `LitToksD ts n`: the token list `ts` spells a literal — an int or a decimal (with optional
      `-`), a string, a boolean, an identifier, or a list `[ item, …, item ]` of such — and `n` is
      its AST -/
  inductive LitToksD : List Token → Node → Prop
    | int (t : Token) (n : Nat) : t.type = .int → parseIntLit t.value = some n →
        LitToksD [t] (.lit (.int n) t.pos)
    | negInt (tm t : Token) (n : Nat) : IsTok tm ['-'] .operator → t.type = .int →
        parseIntLit t.value = some n → LitToksD [tm, t] (.lit (.int (-(n : Int))) t.pos)
    | dec (t : Token) (m : Int) (e : Nat) : t.type = .decimal →
        parseDecimal t.value = some (m, e) → LitToksD [t] (.lit (.dec m e) t.pos)
    | negDec (tm t : Token) (m : Int) (e : Nat) : IsTok tm ['-'] .operator → t.type = .decimal →
        parseDecimal t.value = some (m, e) → LitToksD [tm, t] (.lit (.dec (-m) e) t.pos)
    | str (t : Token) : t.type = .string → LitToksD [t] (.lit (.str t.value) t.pos)
    | bool (t : Token) : t.type = .boolean →
        LitToksD [t] (.lit (.bool (t.value == ['T', 'R', 'U', 'E'])) t.pos)
    | ident (t : Token) : t.type = .identifier → LitToksD [t] (.ident (str t.value) t.pos)
    | nil (tl tr : Token) : IsTok tl ['['] .interpunction → IsTok tr [']'] .interpunction →
        LitToksD [tl, tr] (.list [] tl.pos)
    | list (tl tr : Token) (ts rest : List Token) (n : Node) (ns : List Node) :
        IsTok tl ['['] .interpunction → IsTok tr [']'] .interpunction →
        LitToksD ts n → RestToksD rest ns →
        LitToksD (tl :: (ts ++ (rest ++ [tr]))) (.list (n :: ns) tl.pos)
  /-- the items after the first: each preceded by a `,` -/
  inductive RestToksD : List Token → List Node → Prop
    | nil : RestToksD [] []
    | cons (tc : Token) (ts rest : List Token) (n : Node) (ns : List Node) :
        IsTok tc [','] .interpunction → LitToksD ts n → RestToksD rest ns →
        RestToksD (tc :: (ts ++ rest)) (n :: ns)
end

/-- a literal starts with a token that is neither a keyword nor `]` -/
theorem LitToksD.head {ts : List Token} {n : Node} (h : LitToksD ts n) :
    ∃ t0 ts', ts = t0 :: ts' ∧ t0.type ≠ .keyword ∧ ¬ IsTok t0 [']'] .interpunction ∧
      ¬ (t0.type = .string ∧ ts' ≠ []) := by
  cases h with
  | int t n ht _ => exact ⟨t, [], rfl, by simp [ht], by simp [IsTok, ht], by simp⟩
  | negInt tm t n hm _ _ => exact ⟨tm, [t], rfl, by simp [hm.2], by simp [IsTok, hm.2], by simp [hm.2]⟩
  | dec t m e ht _ => exact ⟨t, [], rfl, by simp [ht], by simp [IsTok, ht], by simp⟩
  | negDec tm t m e hm _ _ => exact ⟨tm, [t], rfl, by simp [hm.2], by simp [IsTok, hm.2], by simp [hm.2]⟩
  | str t ht => exact ⟨t, [], rfl, by simp [ht], by simp [IsTok, ht], by simp⟩
  | bool t ht => exact ⟨t, [], rfl, by simp [ht], by simp [IsTok, ht], by simp⟩
  | ident t ht => exact ⟨t, [], rfl, by simp [ht], by simp [IsTok, ht], by simp⟩
  | nil tl tr hl _ => exact ⟨tl, [tr], rfl, by simp [hl.2], by simp [IsTok, hl.1], by simp [hl.2]⟩
  | list tl tr ts rest n ns hl _ _ _ =>
    exact ⟨tl, _, rfl, by simp [hl.2], by simp [IsTok, hl.1], by simp [hl.2]⟩

theorem RestToksD.stop {rest : List Token} {ns : List Node} (h : RestToksD rest ns) {tr : Token}
    (htr : IsTok tr [']'] .interpunction) (k : List Token) : Stop (rest ++ tr :: k) := by
  cases h with
  | nil => exact stop_close htr k
  | cons tc ts rest n ns hc _ _ => exact stop_comma hc _

/-! ### decimal literals in front of a stop continuation -/

theorem expr_dec (c : Ctx) (t : Token) (m : Int) (e : Nat) (ht : t.type = .decimal)
    (hv : parseDecimal t.value = some (m, e)) {k : List Token} (hk : Stop k) :
    ∀ p, ∃ h, pExpression c ⟨p, t :: k⟩ = .ok ⟨.lit (.dec m e) t.pos, ⟨t.pos, k⟩, h⟩ := by
  apply expr_of_primary c t k k _ t.pos (by simp [ht]) (by simp [ht]) hk
  intro p; refine ⟨by simp, ?_⟩
  rw [pPrimary]
  simp [St.hasNext, St.next, ht, hv, hk.postfixLoop, leLt, bind, Except.bind]

theorem expr_negDec (c : Ctx) (tm t : Token) (m : Int) (e : Nat) (hm : IsTok tm ['-'] .operator)
    (ht : t.type = .decimal) (hv : parseDecimal t.value = some (m, e)) {k : List Token}
    (hk : Stop k) :
    ∀ p, ∃ h, pExpression c ⟨p, tm :: t :: k⟩ = .ok ⟨.lit (.dec (-m) e) t.pos, ⟨t.pos, k⟩, h⟩ := by
  apply expr_of_unary c tm (t :: k) k _ t.pos (by simp [hm.2]) hk
  intro p
  have hprim : ∀ p, pPrimary c true ⟨p, t :: k⟩ =
      .ok ⟨.lit (.dec (-m) e) t.pos, ⟨t.pos, k⟩, by simp⟩ := by
    intro p; rw [pPrimary]
    simp [St.hasNext, St.next, ht, hv, hk.postfixLoop, leLt, bind, Except.bind]
  have hpred : ∀ p, pPred c true ⟨p, t :: k⟩ =
      .ok ⟨.lit (.dec (-m) e) t.pos, ⟨t.pos, k⟩, by simp⟩ := by
    intro p; rw [pPred]
    simp [hprim, hk.matchIf_ty t.pos _ .keyword (by decide), hk.binPredTable, bind, Except.bind,
      pure, Except.pure]
  refine ⟨by simp; omega, ?_⟩
  rw [pUnary]
  simp [St.matchIf, St.tokIs, hm.1, hm.2, St.peek, ht, hpred, bind, Except.bind, pure, Except.pure]

/-! ### list literals -/

mutual
  /-- a literal in front of a stop continuation is consumed by `parse_expression`, which returns
      its AST and stops in front of the continuation -/
  theorem LitToksD.expr (c : Ctx) : ∀ {ts : List Token} {n : Node}, LitToksD ts n →
      ∀ (k : List Token), Stop k →
      ∃ q, ∀ p, ∃ h, pExpression c ⟨p, ts ++ k⟩ = .ok ⟨n, ⟨q, k⟩, h⟩
    | _, _, .int t n ht hv, k, hk => ⟨t.pos, expr_int c t n ht hv hk⟩
    | _, _, .negInt tm t n hm ht hv, k, hk => ⟨t.pos, expr_negInt c tm t n hm ht hv hk⟩
    | _, _, .dec t m e ht hv, k, hk => ⟨t.pos, expr_dec c t m e ht hv hk⟩
    | _, _, .negDec tm t m e hm ht hv, k, hk => ⟨t.pos, expr_negDec c tm t m e hm ht hv hk⟩
    | _, _, .str t ht, k, hk => ⟨t.pos, expr_str c t ht hk⟩
    | _, _, .bool t ht, k, hk => ⟨t.pos, expr_bool c t ht hk⟩
    | _, _, .ident t ht, k, hk => ⟨t.pos, expr_ident c t ht hk⟩
    | _, _, .nil tl tr hl hr, k, hk => by
      refine ⟨tr.pos, ?_⟩
      apply expr_of_primary c tl (tr :: k) k _ tr.pos (by simp [hl.2]) (by simp [hl.2]) hk
      apply primary_open c tl hl (tr :: k) k _ tr.pos hk
      refine ⟨by simp, ?_⟩
      rw [pListLiteral]
      simp [St.matchIf, St.tokIs, hr.1, hr.2, hk.postfixLoop, leLt]
    | _, _, .list tl tr ts rest n ns hl hr hts hrest, k, hk => by
      refine ⟨tr.pos, ?_⟩
      have hk1 : Stop (rest ++ tr :: k) := hrest.stop hr k
      obtain ⟨q1, he⟩ := LitToksD.expr c hts (rest ++ tr :: k) hk1
      obtain ⟨h1, he⟩ := he tl.pos
      obtain ⟨q2, h2, hloop⟩ := RestToksD.loop c hrest tr k hr q1 [] n
      obtain ⟨t0, ts', hts0, _, hnc, _⟩ := hts.head
      have hnc' : St.matchIf ⟨tl.pos, ts ++ (rest ++ tr :: k)⟩ [']'] (some .interpunction) = none := by
        rw [hts0]
        have : (t0.value == [']'] && t0.type == .interpunction) = false := by
          rw [Bool.eq_false_iff]; intro h
          simp only [Bool.and_eq_true, beq_iff_eq] at h
          exact hnc ⟨h.1, h.2⟩
        simp [St.matchIf, St.tokIs, this]
      have e : tl :: (ts ++ (rest ++ [tr])) ++ k = tl :: (ts ++ (rest ++ tr :: k)) := by simp
      rw [e]
      apply expr_of_primary c tl _ k _ tr.pos (by simp [hl.2]) (by simp [hl.2]) hk
      apply primary_open c tl hl _ k _ tr.pos hk
      refine ⟨by simp; omega, ?_⟩
      rw [pListLiteral]
      simp [hnc', he, hk1.matchIf_ty q1 _ .keyword (by decide), hloop, St.expect, hr.1, hr.2,
        hk.postfixLoop, bind, Except.bind, pure, Except.pure]
  /-- the item loop of a list literal -/
  theorem RestToksD.loop (c : Ctx) : ∀ {rest : List Token} {ns : List Node}, RestToksD rest ns →
      ∀ (tr : Token) (k : List Token), IsTok tr [']'] .interpunction →
      ∀ (q : Pos) (items : List Node) (e : Node),
      ∃ q' h, listLoop c ⟨q, rest ++ tr :: k⟩ items (some e) =
        .ok ⟨items ++ e :: ns, ⟨q', tr :: k⟩, h⟩
    | _, _, .nil, tr, k, hr, q, items, e => by
      refine ⟨q, by simp, ?_⟩
      rw [listLoop]
      simp [St.peekn, St.tokIs, hr.1, hr.2]
    | _, _, .cons tc ts rest n ns hc hts hrest, tr, k, hr, q, items, e => by
      have hk1 : Stop (rest ++ tr :: k) := hrest.stop hr k
      obtain ⟨q1, he⟩ := LitToksD.expr c hts (rest ++ tr :: k) hk1
      obtain ⟨h1, he⟩ := he tc.pos
      obtain ⟨q2, h2, hloop⟩ := RestToksD.loop c hrest tr k hr q1 (items ++ [e]) n
      obtain ⟨t0, ts', hts0, _, hnc, _⟩ := hts.head
      have e1 : tc :: (ts ++ rest) ++ tr :: k = tc :: (ts ++ (rest ++ tr :: k)) := by simp
      have hpk1 : St.peekn ⟨q, tc :: (ts ++ (rest ++ tr :: k))⟩ 1 [']'] (some .interpunction) = false := by
        simp [St.peekn, St.tokIs, hc.1]
      have hpk2 : St.peekn ⟨tc.pos, ts ++ (rest ++ tr :: k)⟩ 1 [']'] (some .interpunction) = false := by
        rw [hts0]
        have : (t0.value == [']'] && t0.type == .interpunction) = false := by
          rw [Bool.eq_false_iff]; intro h
          simp only [Bool.and_eq_true, beq_iff_eq] at h
          exact hnc ⟨h.1, h.2⟩
        simp [St.peekn, St.tokIs, this]
      rw [e1]
      refine ⟨q2, by simp at h2 ⊢; omega, ?_⟩
      rw [listLoop]
      simp [hpk1, St.expect, hc.1, hc.2, hpk2, he, hloop, bind, Except.bind, pure, Except.pure]
end

/-! ### the whole program is one literal -/

theorem LitToksD.unwrapReturn {ts : List Token} {n : Node} (h : LitToksD ts n) :
    unwrapReturn n = n := by
  cases h <;> rfl

/-- **a program that is one literal (decimals included) parses to the AST of that literal** -/
theorem LitToksD.parse (validRe : List Char → Bool) (file : String) {ts : List Token} {n : Node}
    (h : LitToksD ts n) : parseWith validRe file ts = .ok n := by
  obtain ⟨t0, ts', hts0, hkw, _, hstr⟩ := h.head
  subst hts0
  apply parse_of_expression validRe file t0 ts' n hkw hstr _ h.unwrapReturn
  intro c p _
  have hex := LitToksD.expr c h [] Stop.nil
  rw [List.append_nil] at hex
  obtain ⟨q, hq⟩ := hex
  exact ⟨q, hq p⟩

end Ckl.C08DL
